/-
  Proofs for C05, part C.2 — the header fields of the simplified deme (`simplify_epochs`, deme
  part; Model `Deme.simplified`) are read back by `Graph._add_deme` (Model `addDemeHeader`) as
  the original deme: an omitted `start_time` and omitted `proportions` are re-inferred to the
  same values.
-/
import DemesVerif.Proofs.SimplifyEpochs
import DemesVerif.Proofs.MatRates
namespace Demes.Proofs.C05
open Demes Demes.Spec Demes.Obj

/-! ### numbers -/

theorem num_isInf_ofETime (t : ETime) : (Num.ofETime t).isInf = t.isInf := by
  cases t <;> rfl

theorem num_lt_ofETime (a b : ETime) : Num.lt (Num.ofETime a) (Num.ofETime b) = decide (a < b) := by
  cases a <;> cases b <;> simp [Num.ofETime, Num.lt, fin_lt_fin, inf_lt]

theorem intOrFloat_timeV (t : ETime) : intOrFloat (timeV t) = .ok (Num.ofETime t) := by
  cases t <;> simp [intOrFloat, timeV, Num.ofETime, Value.asNumRaw?, Num.isNan, pure, Except.pure]

theorem intOrFloat_numV (q : Q) : intOrFloat (numV q) = .ok (Num.fin q) := by
  simp [intOrFloat, numV, Value.asNumRaw?, Num.isNan, pure, Except.pure]

theorem toETime_ofETime (t : ETime) : toETime (Num.ofETime t) = .ok t := by
  cases t <;> rfl

theorem vPositive_ofETime (t : ETime) (h : ETime.fin 0 < t) : vPositive (Num.ofETime t) = .ok () := by
  cases t with
  | inf => simp [vPositive, Num.ofETime, Num.le, Num.zero, pure, Except.pure]
  | fin q =>
    have : ¬ q ≤ 0 := not_le.2 ((fin_lt_fin _ _).1 h)
    simp [vPositive, Num.ofETime, Num.le, Num.zero, pure, Except.pure, this]

theorem checkProp_ok (p : Q) (h0 : 0 < p) (h1 : p ≤ 1) :
    (do vUnitInterval (Num.fin p); vPositive (Num.fin p); toQ (Num.fin p) : Except Err Q) = .ok p := by
  have : ¬ p ≤ 0 := not_le.2 h0
  simp [vUnitInterval, vPositive, toQ, Num.le, Num.zero, Num.one, le_of_lt h0, h1, this, bind,
    Except.bind, pure, Except.pure]

/-! ### `mapM` over a mapped list, every call succeeding -/

theorem mapM_ok_map {α α' β} (f : α → Except Err β) (h : α' → α) (r : α' → β) :
    ∀ l : List α', (∀ x ∈ l, f (h x) = .ok (r x)) → (l.map h).mapM f = .ok (l.map r)
  | [], _ => rfl
  | x :: xs, hx => by
    rw [List.map_cons, List.mapM_cons, hx x List.mem_cons_self,
      mapM_ok_map f h r xs (fun y hy => hx y (List.mem_cons_of_mem _ hy))]
    rfl

/-! ### the prefix graph -/

theorem zipIdx_take {α} (l : List α) : ∀ (i k : Nat), (l.zipIdx k).take i = (l.take i).zipIdx k := by
  induction l with
  | nil => intro i k; simp
  | cons x xs ih =>
    intro i k
    cases i with
    | zero => simp
    | succ i => simp [List.zipIdx_cons, ih]

theorem prefix_v0 {g g' : Graph} (h0 : v0 g = true) (i : Nat)
    (hdm : g'.demes = g.demes.take i) (hix : g'.index = g.index.take i) : v0 g' = true := by
  rw [v0_iff] at h0 ⊢
  rw [hix, hdm, h0]
  unfold expectedIndex
  rw [← List.map_take, zipIdx_take]


/-! ### lookups in the simplified deme -/

theorem dm_description (g : Graph) (d : Deme) :
    (lookup "description" (demeSimplifiedObj g d)).getD (.str "") = .str d.description := by
  simp only [demeSimplifiedObj, lookup_append, lookup_cons, lookup_nil,
    apply_ite (lookup "description")]
  by_cases h : d.description.isEmpty = true
  · have : d.description = "" := String.isEmpty_iff.1 h
    simp [this]
  · simp [h]

theorem dm_ancestors (g : Graph) (d : Deme) :
    lookupNN "ancestors" (demeSimplifiedObj g d)
      = if d.ancestors.isEmpty then none else some (strsV d.ancestors) := by
  apply lookupNN_of_lookup
  · simp only [demeSimplifiedObj, lookup_append, lookup_cons, lookup_nil,
      apply_ite (lookup "ancestors")]
    by_cases h1 : d.description.isEmpty = true <;> by_cases h2 : dropStart g d = true <;>
    by_cases h3 : d.ancestors.isEmpty = true <;> simp [h1, h2, h3]
  · split <;> simp [strsV]

theorem dm_proportions (g : Graph) (d : Deme) :
    lookupNN "proportions" (demeSimplifiedObj g d)
      = if dropProps d then none else some (numsV d.proportions) := by
  apply lookupNN_of_lookup
  · simp only [demeSimplifiedObj, lookup_append, lookup_cons, lookup_nil,
      apply_ite (lookup "proportions")]
    by_cases h1 : d.description.isEmpty = true <;> by_cases h2 : dropStart g d = true <;>
    by_cases h3 : d.ancestors.isEmpty = true <;> by_cases h4 : dropProps d = true <;>
    simp [h1, h2, h3, h4]
  · split <;> simp [numsV]

theorem dm_start_time (g : Graph) (d : Deme) :
    lookupNN "start_time" (demeSimplifiedObj g d)
      = if dropStart g d then none else some (timeV d.startTime) := by
  apply lookupNN_of_lookup
  · simp only [demeSimplifiedObj, lookup_append, lookup_cons, lookup_nil,
      apply_ite (lookup "start_time")]
    by_cases h1 : d.description.isEmpty = true <;> by_cases h2 : dropStart g d = true <;>
    simp [h1, h2]
  · split <;> simp [timeV]


/-- what V0–V4 say about deme number `i` of `g`, read in the prefix graph `g'` -/
structure DemeFacts (g g' : Graph) (d : Deme) : Prop where
  fresh : g'.hasName d.name = false
  ident : isIdentifier d.name = true
  ancs : ∀ a ∈ d.ancestors, ∃ anc, g'.deme? a = some anc ∧ g.deme? a = some anc
    ∧ d.startTime < anc.startTime ∧ ETime.fin anc.endTime ≤ d.startTime
  ancNodup : d.ancestors.Nodup
  notSelf : d.name ∉ d.ancestors
  infIff : d.ancestors.isEmpty = d.startTime.isInf
  pos : ETime.fin 0 < d.startTime
  propLen : d.proportions.length = d.ancestors.length
  propRange : ∀ p ∈ d.proportions, 0 < p ∧ p ≤ 1
  propSum : d.proportions = [] ∨ proportionsSumOk d.proportions = true

theorem qsum_eq_qsumS (ps : List Q) : qsum ps = qsumS ps := by
  unfold qsum
  rw [foldl_add_eq]
  exact Rat.zero_add _

theorem demeFacts_of_valid (g g' : Graph) (h0 : v0 g = true) (h1 : v1 g = true) (h2 : v2 g = true)
    (h3 : v3 g = true) (h4 : v4 g = true) (i : Nat) (d : Deme) (hi : g.demes[i]? = some d)
    (hdm : g'.demes = g.demes.take i) (hix : g'.index = g.index.take i) : DemeFacts g g' d := by
  have hd : d ∈ g.demes := List.mem_of_getElem? hi
  have h0' := prefix_v0 h0 i hdm hix
  simp only [v1, Bool.and_eq_true, List.all_eq_true, decide_eq_true_eq] at h1
  obtain ⟨⟨_, hid⟩, hnd⟩ := h1
  have hnd' : (g'.demes.map (·.name)).Nodup := by
    rw [hdm]; exact ((List.take_sublist i g.demes).map _).nodup hnd
  -- V2 for `d`
  have hv2 := List.all_eq_true.1 h2 (d, i) (List.mk_mem_zipIdx_iff_getElem?.2 hi)
  simp only [Bool.and_eq_true, List.all_eq_true, List.any_eq_true, decide_eq_true_eq,
    Bool.not_eq_true'] at hv2
  obtain ⟨⟨hanc, hancnd⟩, hself⟩ := hv2
  -- V3 for `d`
  have hv3 := List.all_eq_true.1 h3 d hd
  simp only [Bool.and_eq_true, List.all_eq_true, decide_eq_true_eq, beq_iff_eq] at hv3
  obtain ⟨⟨hanc3, hinf⟩, hpos⟩ := hv3
  -- V4 for `d`
  have hv4 := List.all_eq_true.1 h4 d hd
  simp only [Bool.and_eq_true, List.all_eq_true, decide_eq_true_eq, beq_iff_eq, Bool.or_eq_true] at hv4
  obtain ⟨⟨hlen, hrange⟩, hsum⟩ := hv4
  refine ⟨?_, hid d hd, ?_, hancnd, ?_, hinf, hpos, hlen, hrange, ?_⟩
  · -- the name is new
    cases hh : g'.hasName d.name with
    | false => rfl
    | true =>
      exfalso
      have hmem := (hasName_iff_of_v0 h0' d.name).1 hh
      obtain ⟨e, he, hen⟩ := List.mem_map.1 hmem
      rw [hdm] at he
      have hsplit : g.demes = g.demes.take i ++ d :: g.demes.drop (i + 1) := by
        have hlt : i < g.demes.length := (List.getElem?_eq_some_iff.1 hi).1
        have hget : g.demes[i] = d := (List.getElem?_eq_some_iff.1 hi).2
        rw [← hget, List.getElem_cons_drop, List.take_append_drop]
      rw [hsplit, List.map_append, List.map_cons, List.nodup_append] at hnd
      exact hnd.2.2 e.name (List.mem_map_of_mem he) d.name List.mem_cons_self hen
  · intro a ha
    obtain ⟨anc, hancm, hancn⟩ := hanc a ha
    have hancg : anc ∈ g.demes := List.mem_of_mem_take hancm
    have hf : findDeme g a = some anc := hancn ▸ findDeme_mem g hnd anc hancg
    have hg' : g'.deme? a = some anc := by
      have := deme?_of_valid h0' hnd' (d := anc) (by rw [hdm]; exact hancm)
      rwa [hancn] at this
    have h3a := hanc3 a ha
    rw [hf] at h3a
    simp only [Bool.and_eq_true, decide_eq_true_eq] at h3a
    exact ⟨anc, hg', by rw [deme?_eq_findDeme g h0]; exact hf, h3a.1, h3a.2⟩
  · intro hm; rw [← List.contains_iff_mem, hself] at hm; cases hm
  · rcases hsum with h | h
    · left; simpa using h
    · right
      unfold proportionsSumOk
      rw [qsum_eq_qsumS, ← closeTo1_eq]; exact h



theorem valueErr_bind {α β} (m : String) (f : α → Except Err β) : (valueErr m >>= f) = valueErr m := rfl
theorem ofETime_fin (x : Q) : Num.ofETime (ETime.fin x) = Num.fin x := rfl

theorem ok_bind {α β} (a : α) (f : α → Except Err β) : (Except.ok a >>= f) = f a := rfl

theorem ancCheck_ok (g g' : Graph) (d : Deme) (F : DemeFacts g g' d) :
    ∀ a ∈ d.ancestors, (do
      let anc ← getDeme g' a
      if Num.lt (Num.ofETime d.startTime) (Num.ofETime anc.startTime)
          && Num.le (Num.fin anc.endTime) (Num.ofETime d.startTime) then pure ()
      else valueErr s!"start_time is outside the interval of existence for ancestor '{a}'"
        : Except Err Unit) = .ok () := by
  intro a ha
  obtain ⟨anc, h1, _, h3, h4⟩ := F.ancs a ha
  have e1 : Num.lt (Num.ofETime d.startTime) (Num.ofETime anc.startTime) = true := by
    rw [num_lt_ofETime]; exact decide_eq_true h3
  have e2 : Num.le (Num.fin anc.endTime) (Num.ofETime d.startTime) = true := by
    show Num.le (Num.ofETime (ETime.fin anc.endTime)) _ = true
    rw [num_le_ofETime]; exact decide_eq_true h4
  rw [getDeme_ok h1, ok_bind, e1, e2]
  rfl

/-- the header fields of the simplified deme are read back as the deme (without its epochs),
given the facts V0–V4 provide about it -/
theorem addDemeHeader_simplified (g g' : Graph) (d : Deme) (F : DemeFacts g g' d) :
    addDemeHeader g' (.str d.name)
        ((lookup "description" (demeSimplifiedObj g d)).getD (.str ""))
        (lookupNN "ancestors" (demeSimplifiedObj g d))
        (lookupNN "proportions" (demeSimplifiedObj g d))
        (lookupNN "start_time" (demeSimplifiedObj g d))
      = .ok { d with epochs := [] } := by
  rw [dm_description, dm_ancestors, dm_proportions, dm_start_time]
  have hca := ancCheck_ok g g' d F
  have hmap : (d.ancestors.map Value.str).mapM (existingName g') = .ok d.ancestors := by
    have := mapM_ok_map (existingName g') Value.str id d.ancestors (fun a ha => by
      obtain ⟨anc, h1, _⟩ := F.ancs a ha
      exact existingName_str (hasName_of_deme? h1))
    simpa using this
  have hm1 := mapM_ok_map intOrFloat numV Num.fin d.proportions (fun p _ => intOrFloat_numV p)
  have hm2 : ∀ p ∈ d.proportions, (do vUnitInterval (Num.fin p); vPositive (Num.fin p); toQ (Num.fin p) : Except Err Q) = .ok (id p) :=
    fun p hp => checkProp_ok p (F.propRange p hp).1 (F.propRange p hp).2
  have hfresh := F.fresh
  have hident := F.ident
  have hpos := vPositive_ofETime _ F.pos
  have hnodup := F.ancNodup
  have hnotself : d.ancestors.contains d.name = false := by
    cases h : d.ancestors.contains d.name
    · rfl
    · exact absurd (List.contains_iff_mem.1 h) F.notSelf
  have hinf := F.infIff
  have hlen := F.propLen
  have hsum := F.propSum
  have hancs := F.ancs
  obtain ⟨name, descr, st, ancs, props, eps⟩ := d
  dsimp only at *
  unfold addDemeHeader
  rcases ancs with _ | ⟨a, _ | ⟨b, rest⟩⟩
  · have hst : st = ETime.inf := by
      cases st with
      | inf => rfl
      | fin q => cases hinf
    have hpr : props = [] := List.eq_nil_of_length_eq_zero hlen
    subst hst hpr
    simp [dropStart, dropProps, ETime.isInf, hfresh, Num.isInf, hident, instStr, vPositive,
      Num.le, Num.zero, toETime, pure, Except.pure, bind, Except.bind]
  · obtain ⟨anc, hg', hg, _, _⟩ := hancs a List.mem_cons_self
    rcases st with q | _
    · rcases props with _ | ⟨p, _ | ⟨p', ps⟩⟩
      · cases hlen
      · have hds : dropStart g { name := name, description := descr, startTime := ETime.fin q, ancestors := [a], proportions := [p], epochs := eps } = decide (anc.endTime = q) := by
          simp [dropStart, hg, ETime.isInf]
        have hdp : dropProps { name := name, description := descr, startTime := ETime.fin q, ancestors := [a], proportions := [p], epochs := eps } = decide (p = 1) := by
          simp [dropProps]
          by_cases hp : p = 1 <;> simp [hp]
        rw [hds, hdp]
        simp only [ofETime_fin] at hpos
        have hsum' : proportionsSumOk [p] = true := by simpa using hsum
        by_cases hs : anc.endTime = q <;> by_cases hp : p = 1
        all_goals
          try rw [hp] at hsum'
          simp only [hs, hp, decide_true, decide_false, if_true, if_false, Bool.false_eq_true,
            hfresh, List.isEmpty_cons, instList, strsV, numsV, hmap,
            ok_bind, pure_bind, valueErr_bind, intOrFloat_timeV, ofETime_fin, getDeme_ok hg',
            Num.isInf, Bool.false_and, hident, Bool.not_true, instStr, hpos]
          rw [forM_ok _ _ (by exact hca)]
          simp only [hnotself, decide_eq_true hnodup, Bool.not_true, Bool.false_eq_true, if_false, ok_bind,
            toETime, pure_bind]
          try (rw [hm1]; simp only [ok_bind]; rw [mapM_ok_map _ Num.fin id _ (by exact hm2)];
               simp only [ok_bind, List.map_id])
          simp [hsum', pure, Except.pure]
      · simp at hlen
    · cases hinf
  · rcases st with q | _
    · have hds : dropStart g { name := name, description := descr, startTime := ETime.fin q, ancestors := a :: b :: rest, proportions := props, epochs := eps } = false := by
        simp [dropStart, ETime.isInf]
      have hpne : props ≠ [] := by
        intro h; rw [h] at hlen; simp at hlen
      have hdp : dropProps { name := name, description := descr, startTime := ETime.fin q, ancestors := a :: b :: rest, proportions := props, epochs := eps } = false := by
        simp [dropProps, hpne]
      rw [hds, hdp]
      simp only [ofETime_fin] at hpos
      have hsum' : proportionsSumOk props = true := hsum.resolve_left hpne
      have hpe : props.isEmpty = false := by simpa using hpne
      simp only [if_false, Bool.false_eq_true,
        hfresh, List.isEmpty_cons, instList, strsV, numsV, hmap,
        ok_bind, pure_bind, valueErr_bind, intOrFloat_timeV, ofETime_fin,
        Num.isInf, Bool.false_and, hident, Bool.not_true, instStr, hpos]
      rw [forM_ok _ _ (by exact hca)]
      simp only [hnotself, decide_eq_true hnodup, Bool.not_true, Bool.false_eq_true, if_false, ok_bind,
        toETime, pure_bind]
      rw [hm1]; simp only [ok_bind]; rw [mapM_ok_map _ Num.fin id _ (by exact hm2)]
      simp only [ok_bind, List.map_id]
      simp [hsum', hpe, hlen, pure, Except.pure]
    · cases hinf


/-- C.2 — for deme number `i` of a graph satisfying V0–V4, and any graph `g'` holding exactly the
first `i` demes and their index entries, `_add_deme` applied to the fields of the simplified
deme returns the deme (its epochs are added afterwards).  In particular an omitted `start_time`
(infinite, or equal to the single ancestor's end time) and omitted `proportions` (no ancestor,
or a single ancestor with proportion exactly 1) are re-inferred to the same values. -/
theorem deme_simplified_header_roundtrip (g g' : Graph) (h0 : v0 g = true) (h1 : v1 g = true)
    (h2 : v2 g = true) (h3 : v3 g = true) (h4 : v4 g = true) (i : Nat) (d : Deme)
    (hi : g.demes[i]? = some d) (hdm : g'.demes = g.demes.take i) (hix : g'.index = g.index.take i) :
    addDemeHeader g' (.str d.name)
        ((lookup "description" (demeSimplifiedObj g d)).getD (.str ""))
        (lookupNN "ancestors" (demeSimplifiedObj g d))
        (lookupNN "proportions" (demeSimplifiedObj g d))
        (lookupNN "start_time" (demeSimplifiedObj g d))
      = .ok { d with epochs := [] } :=
  addDemeHeader_simplified g g' d (demeFacts_of_valid g g' h0 h1 h2 h3 h4 i d hi hdm hix)

end Demes.Proofs.C05
