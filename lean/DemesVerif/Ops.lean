/-
  Request dispatch of the driver.
-/
import DemesVerif.Wire
namespace Demes.Ops
open Lean Demes Demes.Wire

def withValue (j : Json) (key : String) (k : Value → Json) : Json :=
  match j.getObjVal? key with
  | .error e => Json.mkObj [("fail", .str e)]
  | .ok a =>
    match toValue a with
    | .error e => Json.mkObj [("fail", .str e)]
    | .ok v => k v

def withGraph (j : Json) (key : String) (k : Graph → Json) : Json :=
  withValue j key (fun v =>
    match Read.graph v with
    | .error e => Json.mkObj [("fail", .str s!"graph reader: {e.msg}")]
    | .ok g => k g)

def indexJ (g : Graph) : Json :=
  .arr (g.index.map (fun (k, i) => Json.arr #[.str k, .num i])).toArray

def matJ (m : Matrix) : Json := .arr (m.map (fun row => Json.arr (row.map qJ).toArray)).toArray

def dispatch (j : Json) : Json :=
  match j.getObjValAs? String "op" with
  | .error e => Json.mkObj [("fail", .str e)]
  | .ok op =>
    if op = "resolve" then
      withValue j "doc" (fun v =>
        match resolve v with
        | .error e => errJ e
        | .ok g => Json.mkObj [("ok", ofValue g.asdict), ("index", indexJ g)])
    else if op = "read_asdict" then
      withGraph j "graph" (fun g => okJ (ofValue g.asdict))
    else if op = "matrices" then
      withGraph j "graph" (fun g =>
        match migrationMatrices g with
        | .error e => errJ e
        | .ok (mms, ends) => okJ (Json.mkObj [("mm", .arr (mms.map matJ).toArray), ("end_times", .arr (ends.map qJ).toArray)]))
    else Json.mkObj [("fail", .str s!"unknown op {op}")]

end Demes.Ops
