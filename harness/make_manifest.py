#!/usr/bin/env python3
"""Writes /verif/MANIFEST.json from the table below (kept in one place so that the manifest,
the registry and the property modules stay in step)."""
import json
import os

VERIF = os.path.dirname(os.path.dirname(os.path.abspath(__file__)))
props = [json.loads(l)["id"] for l in open(os.path.join(VERIF, "properties.jsonl"))]

NOTE_COMMON = ("Trusted: Lean 4.33 kernel; axioms propext/Classical.choice/Quot.sound only (audited per theorem every run); "
               "the statements in lean/DemesVerif/Theorems and Spec; the tie Model<->code is a differential correspondence "
               "(sampling) plus tables regenerated from /repo's AST; exact comparison is restricted to dyadic inputs where "
               "double arithmetic is exact (float residue, DESIGN §3.1/§6).")

CLAIMS = {
    "C07": dict(
        category="proof", design_ref="§7 C07, Appendix A.4",
        technique="Lean 4 refinement theorem toMs_sem (no hypothesis beyond validity and ms-expressibility): the model of to_ms refines an independent backwards-time ms interpreter (sizes, migration step function, lineage movements, population numbering) + differential correspondence and the interpreter run on the real output",
        text=("Kernel-checked theorems toMs_rejects / toMs_accepts (exactly the graphs with a linear epoch or a multi-source pulse raise), toMs_structure (-I header, deme order = population "
              "order, times / 4N0, stable order), toMs_sizes with en_followed_by_eg (per-population size and growth segments; the repaired sawtooth defect F3), toMs_migrations (for every "
              "ordered pair and every time the rate in force is 4N0 x the graph's), toMs_numbering (the static numbering of -es/-ej pairs equals ms's dynamic 'current count + 1'), "
              "toMs_sem_parts and toMs_sem: for EVERY valid ms-expressible graph, every N0 > 0 and every well-formed sample list, the "
              "emitted command interpreted by the independent interpreter (Spec/C07Sem.msSemG) denotes the demography (sizes, migration rates, movement matrices on each deme's "
              "lifetime, zero inflow outside it) of normalizeProportions g — the graph with each deme's ancestry proportions divided by their sum, which is what to_ms's "
              "p_k / sum(p[k:]) computes (toMs_normalizeProportions: the command is the same for g and its normalisation; normalizeProportions_exact: nothing changes when the "
              "proportions sum to exactly 1, giving toMs_sem_partial; normalizeProportions_close / _tolerance: each proportion moves by at most a relative 1e-9/(1-1e-9), the "
              "tolerance validation itself allows). toMs_sem_counterexample(_single): against the un-normalised graph the movements differ by ~1e-12 when the proportions sum to "
              "1+2^-40, or a single proportion is 1-2^-40 — "
              "so the normalisation in the statement is necessary (an interpretation matter, DESIGN §9). Model tied to to_ms by exact comparison of the emitted token list (growth rates symbolic, "
              "compared at 1e-9); the interpreter is run on the REAL output and compared with the graph's semantics."),
        note=NOTE_COMMON + " math.log/exp are symbolic in the Model (Sz, Growth); number printing is below the Model. The ms manual is not available offline: the interpreter encodes the semantics described in DESIGN §7/§9."),
    "C08": dict(
        category="proof", design_ref="§7 C08",
        technique="Lean 4 refinement theorem fromMs_sem / fromMs_sem_plain: the state-machine model of from_ms/build_graph refines an independent backwards-time ms interpreter (populations, sizes, growth, migration step function, lineage movements) on the fragment Tame' outside the known findings; validity of every returned graph; parser agreement; counterexample theorems for the findings + differential correspondence and the interpreter run on the real results",
        text=("Kernel-checked theorems fromMs_valid_all (EVERY graph from_ms returns, with or without deme_names, is accepted by Spec.validGraph — after the repair of F8 and F23), "
              "fromMs_renameOK / fromMs_bad_names_rejected, fromMs_ignores_option / fromMs_ignores_samples, fromMs_deme_k_is_population_k / fromMs_names; the stage lemmas build_sizes, "
              "final_sizes, build_migrations, build_movements_matrix (event loop of build_graph simulates the interpreter option by option, for every command); parsers_agree / "
              "parse_accepts_argparse_accepts / argparse_accepts_parse_accepts (argparse and the manual's parser read the same options on plain command lines; parsers_differ_* show where "
              "they differ); addMigrations_sem, scale_rates, removeTransient_sem, sortDemes_sem, resolve_readback_sizes_migs, resultSem_total, fromMs_sizes_migs_sem (for EVERY command both "
              "sides accept, the returned graph shows the command's populations, lifetimes, sizes, growth rates and migration step function — no tameness needed); applyParams_sem, "
              "resolve_readback_moves, fromMs_moves (on the fragment Tame' — every same-time group of -es/-ej is a GoodGroup: no population is the source of a move after being the target "
              "of an earlier one, 0 < p <= 1, not at time 0 — the ancestry and pulses written encode the interpreter's movement matrices); and the assembled fromMs_sem (under the decidable "
              "parsersAgree) / fromMs_sem_plain (under PlainTokens): from_ms accepted + command has a meaning + Tame' => SemAgree(msSem command, graphSem result). goodGroup_of_tame: the "
              "fragment contains the earlier Tame. The fragment is widened twice: fromMs_sem' / fromMs_sem_plain' drop the 'not at time 0' clause (fromMs_rejects_join_at_zero: every "
              "command with an -ej at time 0 is refused; fromMs_rejects_moves_at_zero_counterexample: '-es 0 i 1.0' IS accepted, and correctly so; fromMs_rejects_moves_at_zero_partial), "
              "and fromMs_sem2 / fromMs_sem2_plain hold on Tame2 (GoodGroup2: a population may be the source of a move after being the target of an earlier JOIN, and join chains a->b, "
              "b->c are allowed as long as nothing later moves out of c) — the shapes of F5, F21, F22, F6b stay outside, joinThenSplit / chainSameTime are inside; "
              "A third, incomparable fragment: fromMs_sem3 / fromMs_sem3_plain on Tame3 (GoodGroup3: every source of a move existed before the group — an '-es i p -ej new j' pair counts as one "
              "admixture move —, no population joined in the group is the target of a move of the group, 0 < p <= 1): it contains same-time PULSE CHAINS, which Tame' and Tame2 exclude; on the "
              "enumerated 1 500 625 four-option commands it contains 32 520 commands both sides accept, none wrong (evaluated; tame3_sound_on_table kernel-checks the 600-command table). "
              "tame2_exact_on_table: on the finite table of all 600 commands '-I 3 1 1 1' + at most two -es/-ej options at one time, Tame2 holds exactly for the commands both sides accept "
              "and convert correctly (decide +kernel over the table: a finite quantifier). The full property is FALSE on the unchanged tree: fromMs_order_counterexample (F4), fromMs_split_of_new_population_counterexample (F5), "
              "fromMs_interleaved_pairs_counterexample (F21), fromMs_join_chain_counterexample (F22), fromMs_split_p0_counterexample (F6b) are proved on the concrete commands (known "
              "findings), all outside Tame'. Model tied to from_ms by exact comparison of accept/reject and the resolved graph on thousands of commands per run (all orders of same-time "
              "options, off/on migration with an identical rate; exhaustive small scope in the thorough tier); Spec.MsSem.msSem(command) is compared with the real graph's semantics on "
              "every accepted command."),
        note=NOTE_COMMON + " PARTIAL where the property is false (known findings F4, F5, F6b, F21, F22, family F24: commands outside Tame2 and Tame3) and for the fragments being sufficient, not exact, beyond two same-time options. Reading of -eM/-ema after a join per DESIGN §9."),
    "C09": dict(
        category="proof", design_ref="§7 C09",
        technique="Lean 4 theorems over a hand-written model of ms.py's option records, printer and argparse layer (print/parse round trip for every option kind relative to an explicit number-codec hypothesis); composed round-trip refinement theorems ms_roundtrip_sem_all / ms_roundtrip_growth_sem_all / ms_roundtrip_names (C07's to_ms refinement + C08's from_ms refinement, bridged between the two interpreters; acceptance by from_ms proved; exponential epochs exact relative to the printed rates, with a real-analysis error bound) + differential correspondence and semantic round-trip comparison through an independent ms interpreter",
        text=("Second sentence of the property (option strings): kernel-checked theorems print_parse_option_partial (EVERY option record with valid parameters — -G/-eG, -g/-eg, -eN, "
              "-n/-en, -eM, -m/-em, -ema, -es, -ej — prints to a string that the Model of the library's own argparse layer parses back to exactly one option of the same kind, in the "
              "right list, with the same indices and values: exactly for non-negative numbers, within 5e-11 for negative ones printed in fixed point), print_parse_option_exact, "
              "print_parse_structure(_samples), printed_numbers_are_not_flags, parser_arity_matches_printer, dest_matches_table, parser_tables_match_source (Model tables = tables "
              "regenerated from the source), relative to the explicit hypothesis NumCodec on str(float)/'.10f' (satisfiable: tableCodec); the excluded case is proved to fail "
              "(print_parse_ma_counterexample / print_parse_ma_never: known finding F20), as are NaN times and -inf matrix entries. First sentence (graph -> ms -> graph): "
              "toMs_msSem_bridge (for every valid ms-expressible graph with constant-size epochs the printed command is plain, parses back to the typed options, and the string "
              "interpreter Spec.MsSem gives the image of the typed interpreter's demography), ms_roundtrip_sem_partial / ms_roundtrip_sem_tame (such a graph with ancestry proportions "
              "summing to exactly 1 and PulsesTame pulses — proportions < 1, no pulse chain A->B listed before B->C at one time: if from_ms accepts to_ms's output, the returned graph's "
              "demography refines the original's: same populations in order, same lifetimes, same size at every time, same migration rate at every cut point, same lineage "
              "movements), toMs_output_tame (the output of to_ms is in the fragment Tame' of C08), ms_roundtrip_accepts (from_ms ACCEPTS everything to_ms prints for such graphs: "
              "toMs_output_parses, toMs_output_validators_ok, buildState_never_raises — the event loop never raises on a command the ms interpreter runs —, toMs_output_finishDoc_ok: "
              "the assembled document satisfies C03's specification, so resolve accepts it), hence the unconditional ms_roundtrip_sem / ms_roundtrip_sem_all (for EVERY valid "
              "ms-expressible graph with constant-size epochs and PulsesTame pulses: from_ms(to_ms(g)) returns a graph whose demography refines that of g with normalised ancestry "
              "proportions — g itself when they sum to exactly 1), ms_roundtrip_names_accepts / ms_roundtrip_names (the same with deme_names = the graph's own names: the result is the unnamed result renamed, every name is on "
              "the right deme, the observable read with the graph's names is the same; graphSem_rename_invariant: the observable does not depend on what the demes are called; "
              "ms_roundtrip_names_order_counterexample: the demes come back sorted by start time, so in the graph's own ORDER only when that order is already sorted — "
              "ms_roundtrip_names_order_partial; placeholder names like deme2 in the original graph are harmless), the counterexamples showing each hypothesis is needed "
              "(ms_roundtrip_acceptance_counterexample = ms_roundtrip_pulse1_counterexample: known finding F6; toMs_tame_needs_pulse_order, toMs_tame_needs_pulse_below_one), "
              "ms_roundtrip_accepts_order_not_necessary (the pulse-order clause of PulsesTame comes from the method: a chain A->B, B->C at one time is accepted), "
              "ms_roundtrip_sem_all3 / ms_roundtrip_growth_sem_all3 / ms_roundtrip_names3 (C08's third fragment Tame3 contains every to_ms output whose pulse proportions are below 1 — "
              "toMs_output_tame3 — and acceptance is re-proved for that class — ms_roundtrip_accepts3 —, so the round-trip theorems hold with PulsesTame replaced by PulsesBelowOne: the ONLY "
              "condition left on the pulses is 'no pulse of proportion 1', which is the known finding F6; ms_roundtrip_chains_inside_tame3: same-time pulse chains are covered), "
              "toMs_output_tame2 (on to_ms output the wider fragment Tame2 of C08 coincides with Tame', and both hold iff PulsesTame: the clause cannot be dropped that way), "
              "ms_roundtrip_sizes_migs / ms_roundtrip_growth_sizes_migs (with NO condition on the pulses, given acceptance: populations, lifetimes, sizes at every time and migration rates "
              "of the returned graph are right; only its lineage movements are not covered), "
              "ingress_tolerance_witness. Epochs with exponential growth: toMs_msSem_bridge_growth, ms_roundtrip_growth_accepts, ms_roundtrip_growth_sem_all (EVERY valid ms-expressible graph with "
              "PulsesTame pulses and any growth printer that prints 0 as 0 and equal rates alike: from_ms accepts to_ms's output and the result is EXACTLY the graph with every growth "
              "rate replaced by its printed value (regrow) — populations, lifetimes, migrations, movements exact, sizes exact wherever they do not depend on a printed rate: "
              "SemRefinesUpToGrowth, regrow_exact_at), and in real numbers (Theorems/C09Real.lean, Mathlib Real.exp) ms_roundtrip_growth_real: if the printed rate is within eps of the "
              "true one, the round-tripped size at time t lies within the factor exp(eps/(4N0) * (t - runStart)) of the original, runStart the last time -en set the size exactly "
              "('up to the precision of the printed numbers', quantified). growth_roundtrip_sizes_counterexample / _boundaries_: exactness of sizes is FALSE with growth (a constant "
              "epoch older than an exponential one inherits size*exp(-a'*dt): 300.0000000245671 on the real library; two rates printed alike merge two epochs) — within the "
              "property's precision clause. Float rounding of the printed rate itself stays an explicit eps. Also checked by the differential — Model of to_ms/from_ms = code exactly "
              "(0 disagreements on thousands of graphs per run) and the independent interpreter Spec.MsSem agrees with the graph's demography on every round trip."),
        note=NOTE_COMMON + " PARTIAL only where the property is false: for a pulse of proportion 1 (known finding F6) the semantic round trip rests on correspondence + the Spec interpreter, not on a theorem. Number printing (str(float), format '.10f') is an explicit hypothesis; sizes/growth from math.exp/log are carried symbolically and compared at 1e-9."),
    "C04": dict(
        category="proof", design_ref="§7 C04",
        technique="Lean 4 composition theorems for the dump/load pipelines relative to explicit codec laws (hypotheses, tested on the installed ruamel.yaml/json) built on resolve_asdict, simplify_resolves and the C16 lemmas + end-to-end round-trip testing on the real text layer",
        text=("Kernel-checked theorems roundtrip / roundtrip_yaml / roundtrip_all (multi-document streams of EVERY length, by induction) / roundtrip_json_via_yaml / "
              "load_dump_yaml / asdict_in_codec_domain / codec_domain_shape / dump_json_strict / sameModel_* over the Model of load_dump.py: for every valid graph, both "
              "formats and both styles, dump then load returns the same model (migrations as a multiset, metadata after attrs' bool->int coercion), GIVEN the codec laws "
              "parse(serialise v) = v on the dictionaries the library itself produces (structure CodecLaws: hypotheses, not axioms; satisfied by the identity codec). The JSON "
              "statements carry the hypothesis jsonSafe (no non-finite number inside user metadata: json.dump(allow_nan=False) refuses it — roundtrip_counterexample). The codec "
              "laws and the end-to-end round trip are tested on the installed libraries: awkward strings in every string position, awkward numbers, str/path/pathlib/stream "
              "targets, streams of 0..12 documents, JSON through the YAML loader, str(graph); the Model's pipelines are compared with the code's through the real text layer."),
        note=NOTE_COMMON + " The text layer (ruamel.yaml 0.19.1, json) is third-party code: its round-trip law is a tested hypothesis, so this is a proof relative to that law; known findings F13 (ruamel flow-style strings starting with '?' / ': ') and F14 (non-BMP characters in JSON read as YAML) are exactly violations of it."),
    "C05": dict(
        category="proof", design_ref="§7 C05, Appendix A.2",
        technique="Lean 4 theorem simplify_resolves over hand-written models of asdict_simplified (incl. the symmetric-group search) and Graph.fromdict + differential correspondence, exhaustive over all 4-deme migration digraphs in the thorough tier",
        text=("Kernel-checked theorem simplify_resolves: for EVERY graph accepted by Spec.validGraph, the Model of Graph.fromdict accepts the Model's asdict_simplified output and "
              "returns the same graph up to the order of migrations (each with its original bounds; every epoch's size function preserved) — after the repair of defects F2 and F15; "
              "with simplify_invariant (the groups found expand to a permutation of the bound-stripped migrations whichever subsets the search tries), simplify_fuel_sufficient "
              "(termination of the while-loop), simplify_groups_wellformed, stripBounds_roundtrip, epoch/deme field round trips, simplify_accepted, simplify_resolves_valid, "
              "simplify_same_model, valid_migrations_perm. Model tied to the code by exact comparison of the simplified dictionary on generated graphs, island families with "
              "partially symmetric patterns and (thorough) all 4096 digraphs on 4 demes; re-resolution of the simplified form is checked on the real code."),
        note=NOTE_COMMON),
    "C18": dict(
        category="proof", design_ref="§7 C18",
        technique="Lean 4 theorems over a heap model (un-aliasing deep copy: fresh, isomorphic, tree-shaped; frame and confinement theorems; Builder histories) + AST facts regenerated from the source + run-time observation of identity and mutation on the real objects",
        text=("Kernel-checked theorems deepcopy_fresh / _iso / _unaliased / _walk / _total_backward, frame, frame_after_copy, program_confined, fromdict_preserves_input (ANY program "
              "that is handed only the copy — i.e. the rest of fromdict, whether it succeeds or fails anywhere — leaves every caller object unchanged), resolve_deterministic, "
              "resolve_again, resolve_alias_insensitive, history_invariant / _resolve_pure / _graph_stable / _resolve_from_scratch (all resolve/mutate/asdict histories on one Builder), builder_history / builder_history_stable / builder_fromdict_history (over the Model of the Builder class: every resolve() of a history returns what Graph.fromdict gives on the data assembled so far, and repeating it gives the same), "
              "memo_copy_counterexample (the repaired defect F1) over a store-of-cells Model; the facts that fromdict's first statement is data = deepcopy_unaliased(data), that the "
              "helper has the modelled three-branch shape and that Builder.resolve only passes self.data on are regenerated from the source AST each run. The real code is observed "
              "with logging containers (no mutating call on caller objects), identity snapshots, resolve-twice, Builder histories, scribbling over inputs and returned dictionaries; "
              "the heap Model's copy is compared with CPython's on all 2-cell (quick) / 3-cell (thorough) heaps."),
        note=NOTE_COMMON + " Object identity is a run-time notion: it is modelled only through the heap abstraction and observed on the real objects; the level is limited accordingly (DESIGN §7 C18)."),
    "C19": dict(
        category="proof", design_ref="§7 C19",
        technique="Lean 4 theorems over a model of the CLI dispatch on abstract document outcomes (look-ahead preserves the stream for every length; output by cases; error exits) + exhaustive flag x shape x source correspondence on demes.__main__.cli in-process",
        text=("Kernel-checked theorems iterates_load_all, lookahead_preserves (every stream length), lookahead_count, lookahead_fails, parse_output, parse_zero, parse_one_ms (any N0 "
              "incl. 0, after the repair of defect F11), parse_one_dump, parse_many_yaml, parse_many_unsupported, parse_error_exit / _early / _late, parse_lib_error_one, "
              "success_complete (exit 0 => the printed calls cover every document in order), parse_printed_prefix, cli_exclusive, cli_parse, ms_output, ms_error over a Model of "
              "ParseCommand/MsCommand; the CLI flag table and the tests on args.ms are regenerated from the source. Model tied to the code by running demes.__main__.cli(argv) "
              "in-process (stdout/stdin captured) on the full flag x document-shape x {path, stdin} space with invalid documents at each position, byte-for-byte against the library "
              "calls, plus `demes ms` families and a sample re-run in a real subprocess."),
        note=NOTE_COMMON + " argparse and CPython exception/exit semantics are trusted."),
    "C20": dict(
        category="proof", design_ref="§7 C20",
        technique="Lean 4 theorems bounding step-count functions of the Model by explicit polynomials; exponential lower bound for the symmetric-group search (known finding F9); measured executed-line counts tie the counts to the code",
        text=("Kernel-checked theorems cost_matrices_poly, cost_checkRates_poly, cost_resolve_poly(_valid), cost_asdict_poly, cost_inGenerations_poly (explicit polynomials of degree <= 4 "
              "in the numbers of demes, epochs, migrations, pulses, for ALL graphs), cost_search_faithful (the instrumented search returns the Model's result), combinations_length, "
              "and — the property is FALSE for simplification on the unchanged tree — ring_no_big_subset, cost_simplify_ring_lower (2^n <= cost on a ring of n demes sharing one rate, "
              "all n >= 4), cost_simplify_not_poly (no polynomial bound exists), with cost_simplify_singletons_poly / _distinct_rates_poly for the part that holds. The tie to the code: "
              "deterministic executed-line counts (sys.settrace, PYTHONHASHSEED=0, child interpreters) of each public operation on 14 model families at sizes 4..40 must be linearly "
              "related to the Model's tick counts, and must at most x32 when the size doubles; the exponential families are reported as known finding F9, any other blow-up is a violation."),
        note=NOTE_COMMON + " Wall-clock time is not modelled; the Model counts association-list lookups where the code uses dicts (an upper bound); to_ms has line counts only."),
    "C17": dict(
        category="proof", design_ref="§7 C17",
        technique="Lean 4 theorems over a control-flow model of load_dump.py's file handling (all entries x targets x fault plans x stream lengths x consumer scripts, by induction) + exhaustive fault-injection correspondence on the real calls",
        text=("Kernel-checked theorems handles_closed (for EVERY entry point, target kind, format, fault stage, failing document index k, number of documents n and consumer "
              "script: once the call has returned or raised, or the multi-document iterator is exhausted/failed/closed, every handle the library opened is closed and the "
              "caller's stream is not), call_settled, caller_stream_never_closed, iterator_settled, consumer_closed, abandoned_iterator, unstarted_iterator, trace_faithful "
              "over a control-flow Model of _open_file_polymorph and the load/dump entry points (the load_all generator as an explicit state machine). The Model is tied to "
              "the code by comparing the exact open/close event trace of the REAL calls (builtins.open wrapped; faults injected at each of 7 stages by monkey-patching plus "
              "natural faults; multi-document streams with the fault at every position; iterators exhausted, closed or abandoned) with the Model's, over the complete finite "
              "space (10k cases quick, 24k thorough), and the property is evaluated on the real file objects."),
        note=NOTE_COMMON + " CPython with/finally/contextmanager/generator-close semantics are trusted; an abandoned, un-closed iterator is outside the property."),
    "C02": dict(
        category="proof", design_ref="§7 C02",
        technique="Lean 4 theorems relating the model of Graph.fromdict to a declarative statement of the fill-in rules (precedence, inference, symmetric expansion, stable sort, explicit=omitted spellings) + differential correspondence incl. an independent Python computation of the expected resolution",
        text=("Kernel-checked theorems over the Model of Graph.fromdict: lookup_insertDefaults / lookup_update / epoch_default_precedence (explicit > deme-level > "
              "top-level), resolveEpochs_iff / resolveEpochs_spec / resolveDeme_spec / addDemeHeader_spec (every resolved field is the one the declarative rules of "
              "Spec/C02 prescribe: inherited sizes, inferred size functions, final end time 0, inferred start times and proportions), symmetric_expand / "
              "resolve_symmetric_eq_asymmetric (a symmetric migration resolves exactly like its written-out ordered pairs with per-pair bounds), sortPulses_stable / "
              "resolve_pulses_stable, explicit_default_epoch / null_epoch_field_omitted / hoist_epoch_default(_top) (equivalent spellings resolve identically); for the Builder entry route: builder_doc (after ANY call sequence Builder.data is exactly the dictionary the Spec describes), builder_equiv_dict (entering a Builder-expressible document through Builder calls resolves exactly like Graph.fromdict — same graph or same error; builder_equiv_dict_*_counterexample show each clause of builderForm is needed), builder_none_is_absent / builder_infinity_string / builder_fromdict_is_dict. The Model "
              "is tied to the code by exact comparison on 4 spellings x 4 routes (dict, Builder calls, YAML, JSON) of each generated model; every result is also compared "
              "with the specification's resolution computed from the semantic model (never from the library), and with the same document whose equal sub-objects "
              "are shared by reference (Python aliasing, YAML anchors) after the repair of defect F1; the real Builder's data and resolve() outcome are compared with the Model's Builder on every document and on random call sequences (None, 'Infinity', wrong types, repeated resolve, fromdict starts)."),
        note=NOTE_COMMON + " Object sharing cannot be expressed in the pure Model (it receives the unfolded tree); int-vs-float spelling is erased in the Model and varied by the harness."),
    "C16": dict(
        category="proof", design_ref="§7 C16",
        technique="Lean 4 theorems over a hand-written model of _stringify/_unstringify_infinities, _no_null_values and the load/dump pipelines (abstract text codec) + differential correspondence and strict re-parsing of the emitted JSON",
        text=("Kernel-checked theorems stringify_no_inf (the dictionary handed to the JSON serialiser has no non-finite number outside metadata, both styles, EVERY graph), "
              "unstringify_stringify / load_dump_json (+ loadAsdict/load/loadAll forms), unstringify_only_start_times / _at_start_time / _defaults / _keeps_other_strings "
              "(the string is converted at exactly the four kinds of start-time position and nowhere else), nonull_iff (null reachable outside metadata through ANY nesting "
              "<=> refusal, after the repair of defect F10), nonull_metadata_ignored, load_preserves_metadata, load_rejects_null for every loading entry point of the Model. "
              "Model tied to the code by exact comparison of the serialiser's input dictionary and of _no_null_values/_unstringify_infinities; emitted JSON re-parsed with a "
              "strict parser; 'Infinity' strings and nulls injected at every position through load, loads, load_asdict, loads_asdict, load_all in both formats."),
        note=NOTE_COMMON + " ruamel.yaml/json are exercised, not modelled; a non-finite number inside user metadata makes json.dump(allow_nan=False) raise rather than emit a token."),
    "C01": dict(
        category="proof", design_ref="§7 C01, Appendix A.3",
        technique="Lean 4 theorem resolve_valid over a hand-written model of Graph.fromdict (fold invariants for the four loops) + corollaries for load/load_all/in_generations/rename_demes + differential correspondence; independent Lean validator run on the code's outputs",
        text=("Kernel-checked theorem resolve_valid: for EVERY document d, if the Model of Graph.fromdict returns a graph g then the independent validator "
              "Spec.validGraph accepts g (all clauses V0-V13: name index, unique identifier names, ancestors earlier/alive, proportions, contiguous epochs, sizes, "
              "migrations/pulses in coexistence intervals, at most one migration per ordered pair, ingress <= 1 at ALL times (resolve_ingress_all_times), pulses "
              "sorted); corollaries load_valid, loadAll_valid (any text codec), resolve_inGenerations_valid, resolve_rename_valid, resolve_renameChecked_valid (EVERY renaming that rename_demes accepts, after the repair of F23) and fromMs_valid_all (every graph from_ms returns), builder_resolve_valid (every graph a sequence of Builder calls followed by resolve() returns). The Model is tied to the code by "
              "exact comparison of accept/reject, resolved dictionary and name index on generated documents and rule-targeted mutants through dict/YAML/JSON/Builder "
              "routes, the field/validator tables AND the numeric guard conditions (every `if <cond>: raise` of the validators, Epoch/AsymmetricMigration/Pulse post-init, _add_deme, _check_time_intersection, _add_asymmetric_migration, _add_pulse, migration_matrices, _check_migration_rates) are regenerated from the source AST as Lean definitions each run and proved equal to the Model's tests for all inputs (tables_*, guards_tie_*, guard_*_meaning), and Spec.validGraph is evaluated on every "
              "graph the real library returns (incl. in_generations, rename_demes)."),
        note=NOTE_COMMON + " non-ASCII identifiers and bool-as-number are outside the exact stream."),
    "C03": dict(
        category="proof", design_ref="§7 C03",
        technique="Lean 4 theorem resolve_ok_iff: the hand-written model of Graph.fromdict accepts a document iff an independent declarative specification (schemaOK, fill, validGraph) accepts it + differential correspondence; the Lean specification is also run directly against the real code on every mutant",
        text=("Kernel-checked theorems resolve_ok_iff ((exists g, resolve d = ok g) <-> Spec.accepts d) for EVERY document whose mappings have distinct keys (true of every JSON/YAML/Python "
              "document; counterexamples show the hypothesis is needed only because the Model uses association lists), with resolve_schema, resolve_eq_fill (the resolved graph is the one "
              "the declarative fill-in rules give), resolve_sound, resolve_complete (no spurious rejection), resolve_rejects, defaults_rules_agree (invalid defaults are rejected even when "
              "unused), field_tables_agree, sortPulses_eq_spec; the guard conditions of the source (regenerated into Lean each run) are proved equal to the Model's tests (guards_tie_*), and by builder_equiv_dict / builder_doc the Builder route rejects exactly what the dict route rejects. Spec.accepts = schemaOK (shape, known fields, defaults valid by the specification's own rules) and fill (fill-in by precedence, "
              "independent of resolve) and Spec.validGraph (V0-V13). The Model is tied to the code by exact agreement of accept/reject on ~3400 rule-targeted and structural mutants per quick "
              "run (values on/inside/outside each bound, an exhaustive sweep of every defaults field x boundary value, overlapping-migration variants) through dict/Builder/YAML/JSON routes, "
              "and the executable Spec.acceptsB is evaluated by the driver on every mutant and compared with the REAL code's verdict in both directions."),
        note=NOTE_COMMON + " Non-ASCII identifiers are outside the Model; bool is a number as in Python (the specification's verdict on it is not asserted)."),
    "C06": dict(
        category="proof", design_ref="§7 C06",
        technique="Lean 4 theorems (asdict shape/plainness/allowed fields, read_asdict, resolve_asdict fixed point for every valid graph) + differential correspondence",
        text=("Kernel-checked theorems asdict_shape, asdict_explicit, asdict_fields_allowed(_source), asdict_plain(_numbers), coerce_idem, read_asdict, resolve_asdict "
              "(for EVERY graph accepted by Spec.validGraph, resolving its fully-resolved dictionary returns the same graph), asdict_fixed_point over the Models of "
              "Graph.asdict and Graph.fromdict. Model tied to the code by exact comparison of asdict() and of resolve(asdict()); shape, plain types, fixed point and "
              "independence from later mutation of returned dictionaries are re-checked on the real objects, incl. graphs built from numeric/string subclasses."),
        note=NOTE_COMMON + " Subclass coercion and 'changing the returned dictionary never changes the graph' are run-time observations."),
    "C10": dict(
        category="proof", design_ref="§7 C10",
        technique="Lean 4 theorems over a hand-written model of assert_close/isclose (reflexive, symmetric, invariant under the allowed re-orderings, sound w.r.t. a declarative SemClose) + differential correspondence",
        text=("Kernel-checked theorems isclose_refl, isclose_symm, isclose_ignores, isclose_perm_migrations, isclose_perm_demes, isclose_perm_ancestors, isclose_sound "
              "(Graph.isclose t a b => SemClose t a b for EVERY tolerance, after the repair of defects F7 and F17) and the contrapositives isclose_detects_* (time units, "
              "generation time, deme names, start time, ancestry, epoch count/values, migrations, pulse count/order/values). Model tied to the code by exact comparison "
              "of the boolean on perturbed pairs in both orders with default and custom tolerances; assert/boolean agreement, symmetry, reflexivity and the expected "
              "outcome of each perturbation are checked on the real objects."),
        note=NOTE_COMMON + " Perturbations are a factor >= 2 away from the tolerance so that double rounding of math.isclose cannot matter."),
    "C11": dict(
        category="proof", design_ref="§7 C11",
        technique="Lean 4 theorems over a hand-written model (times rescaled, rest unchanged, idempotent, validity preserved) + differential correspondence model<->code",
        text=("Kernel-checked theorems inGenerations_header/_times/_rest/_fixed/_idem/_valid: for EVERY valid graph and positive generation "
              "time the Model's in_generations divides each of the six kinds of time, changes nothing else, is idempotent and yields a graph "
              "accepted by the independent validator Spec.validGraph. The Model is tied to Graph.in_generations by exact comparison on generated "
              "graphs each run, the AST fact that the method works on a deep copy is regenerated from the source, and the relation is re-checked "
              "on the code's own output (incl. receiver unchanged, a noisy non-dyadic stream with tolerance)."),
        note=NOTE_COMMON + " 'Original not modified' is a run-time observation (the Model is pure)."),
    "C12": dict(
        category="proof", design_ref="§7 C12, Appendix A.1",
        technique="Lean 4 theorems over a hand-written model of migration_matrices (boundary sweep; pointwise agreement for all t) + differential correspondence",
        text=("Kernel-checked theorems matrices_end_times, matrices_pointwise (for ALL t >= 0 and every ordered pair the entry of the matrix whose "
              "interval contains t is the rate of the migration active at t, else 0), matrices_shape, matrices_row_sum, matrices_rows_le_one over the "
              "Model of Graph.migration_matrices, for every graph accepted by Spec.validGraph; guards_tie_sweep / guards_tie_migration_matrices / guards_tie_check_migration_rates: the conditions of the sweep in the source (regenerated into Lean each run) are the Model's. Model tied to the code by exact comparison of matrices "
              "and end times on generated graphs; the pointwise relation is re-evaluated on the code's output at every end point, midpoint and beyond "
              "the oldest boundary."),
        note=NOTE_COMMON),
    "C13": dict(
        category="proof", design_ref="§7 C13",
        technique="Lean 4 theorems over a hand-written model of Deme.size_at (unique owning epoch, end sizes, interpolation, bounds; real-analysis bridge for exp/log) + differential correspondence",
        text=("Kernel-checked theorems sizeAt_outside/_outside_inf/_inf/_unique_epoch/_end/_interior/_near_end/_dt_range/_linear_between/_between for "
              "every deme of every valid graph and EVERY time, plus expoReal_* / sizeAt_real_between / sizeAt_real_pos (Mathlib Real.exp/log) giving the "
              "exponential interpolation its real-number meaning and bounds; guards_tie_size_at: the branch conditions of Deme.size_at in the source (regenerated into Lean each run) are the Model's. Model tied to Deme.size_at by comparison at boundary-directed probe times "
              "(exact for constant, 1e-12 for linear, 1e-9 for the symbolic exponential term)."),
        note=NOTE_COMMON + " math.exp/log are never executed in Lean; the exponential value is compared through Python's own formula."),
    "C14": dict(
        category="proof", design_ref="§7 C14",
        technique="Lean 4 theorems over hand-written models of predecessors/successors/discrete_demographic_events against a declarative spec + differential correspondence",
        text=("Kernel-checked theorems pred_is_ancestors, succ_is_transpose (exact transpose incl. multiplicity and order), pred_succ_total, events_spec / "
              "events_spec_ordered (the event lists equal the declaratively specified branches/mergers/admixtures and, up to order, splits), "
              "events_partition(_count) (every deme with ancestors is classified exactly once) for every valid graph. Model tied to the code by exact "
              "comparison (split children sorted: they come out of a Python set); classification rules re-evaluated on the code's output."),
        note=NOTE_COMMON),
    "C15": dict(
        category="proof", design_ref="§7 C15",
        technique="Lean 4 theorems over a hand-written model of rename_demes (validity, index, lookups, inverse for all injective renamings incl. swaps/chains) + differential correspondence",
        text=("Kernel-checked theorems rename_names, rename_numbers_unchanged, rename_structure, rename_data_valid, rename_index, rename_valid, rename_lookup, "
              "rename_hasName, rename_old_name_gone, rename_unused_name, rename_inverse_ok, rename_inverse, and for the validating entry point renameChecked_ok_iff / _valid / _rejects / _lookup (rename_demes refuses non-identifier or colliding names — repaired defect F23 — and whatever it returns is valid) for every valid graph and EVERY injective renaming to "
              "identifiers (swaps, cycles, chains included), over the Model of Graph.rename_demes after the repair of defect F8. Model tied to the code by exact "
              "comparison of the renamed graph and its name index; lookups, str() and rename-back re-checked on the real objects; thorough tier enumerates all "
              "partial injective maps on small graphs."),
        note=NOTE_COMMON + " 'Original untouched' and object identity of looked-up demes are run-time observations."),
}


# the translator tie added for these properties (DESIGN §4.1), appended to the claim text
GUARD_TIE = {
    "C05": "the tests of simplify_epochs / the bounds part of simplify_migration_rates / collapse_demes / the symmetric-search loop in the source",
    "C07": "the tests of to_ms (counts, indices, times, rates) in the source",
    "C08": "the tests of build_graph's event branches, applyParams and finaliseGrowth (counts, indices, times, rates, lineage proportions) in the source",
    "C10": "the WHOLE bodies of assert_close / isclose of Epoch, AsymmetricMigration, Pulse, Deme, Graph and isclose_deme_proportions (every assert, pairing, forwarded tolerance), compiled from the source into Lean predicates,",
    "C11": "every update statement of in_generations (which attribute is divided, in which loops)",
    "C14": "predecessors / successors (compiled whole into folds) and the four classification tests of discrete_demographic_events in the source",
    "C15": "every update statement of rename_demes and its three rejections",
    "C17": "the context manager _open_file_polymorph (open fallback, what is yielded, the except/else/finally clauses) and the bodies of all eight load/dump entry points (with-blocks, staging, yields, closes), translated into a statement language whose meaning is the Model's control flow,",
    "C19": "the bodies of ParseCommand.__call__, MsCommand.__call__ and cli() (which library call with which keyword arguments writes to stdout, the look-ahead of load_and_count_documents, the mutually exclusive group, the absence of any exception handler), translated into a statement language whose meaning is the Model's dispatch,",
    "C20": "the loop nests of _check_migration_rates, in_generations and asdict (functional tie with the Model's step counts), the loop tables of migration_matrices and of the symmetric search, and which dictionary form dump / dump_all compute",
    "C16": "_no_null_values with its nested helpers (compiled into recursive equations), the tests of _stringify/_unstringify_infinities and the order of helper / codec / resolver calls of every entry point of load_dump.py",
}


def main():
    checks = []
    for pid in props:
        if pid not in CLAIMS:
            continue
        c = dict(CLAIMS[pid])
        if pid in GUARD_TIE:
            c["text"] = c["text"] + (" Translator tie: " + GUARD_TIE[pid] + " are regenerated from /repo's AST as Lean definitions on every run and proved "
                                     "to be what the Model computes, for all inputs (guards_tie_* / guard_*_meaning theorems, registered obligations).")
        checks.append({
            "property_id": pid,
            "quick_cmd": f"./check {pid} --tier quick",
            "thorough_cmd": f"./check {pid} --tier thorough",
            "evidence_file": f"evidence/{pid}.json",
            "replay_cmd_template": f"./check {pid} --replay {{path}}",
            "engine": "lean-model",
            "level_claimed": {"category": c["category"], "text": c["text"], "design_ref": "DESIGN.md " + c["design_ref"]},
            "level_note": c["note"],
            "technique": c["technique"],
        })
    manifest = {
        "version": 1,
        "setup_cmd": "cd /verif/lean && lake build",
        "hooks": {
            "guard": "DEMES_PYTHON_VERIF",
            "enable": "no source hooks are needed: every observation point is public API (DESIGN §10)",
            "baseline_off_cmd": "cd /repo && /venv/bin/python -m pytest -ra -q -p no:cacheprovider --timeout=900 --continue-on-collection-errors",
            "source_commits": [],
            "add_only": True,
        },
        "engines": [{
            "name": "lean-model", "path": "lean", "serves_properties": sorted(CLAIMS),
            "kind_free_text": "Lean 4 model + Spec + kernel-checked theorems (lean/DemesVerif), compiled line-protocol driver, "
                              "Python differential correspondence harness (harness/), tables regenerated from /repo's AST",
        }],
        "checks": checks,
        "notes": "Properties move from not_applicable to checks as their theorems and correspondence checks land; see DESIGN.md.",
        "not_applicable": [
            {"property_id": p, "reason": "not yet claimed: machinery under construction in this round (see DESIGN.md §11)"}
            for p in props if p not in CLAIMS
        ],
    }
    with open(os.path.join(VERIF, "MANIFEST.json"), "w") as fh:
        json.dump(manifest, fh, indent=1)
    print(f"{len(checks)} checks, {len(manifest['not_applicable'])} not yet claimed")


if __name__ == "__main__":
    main()
