/-
  Semantic tie of the ancestry views (C14): `Graph.predecessors`, `Graph.successors`,
  `Graph.discrete_demographic_events` of demes/demes.py.

  * `predecessors` / `successors`: the extractor compiles the whole function (a dict of lists built by
    `setdefault` / `append` inside `for` / `if`) into a fold over the Model's `NameMap`
    (`Generated.views_predecessors`, `Generated.views_successors`); the Model's functions are proved equal
    to them for ALL graphs (`deme_info.ancestors is not None` read as `true`: the Model's ancestors are a list).
  * `discrete_demographic_events`: its four classification tests are translated into `Bool` functions
    (`Generated.guard_events_*`) and the Model's `discreteEvents` is proved equal, for ALL graphs, to
    `discreteEventsWith` (Proofs/Guards2Views.lean) of these; the number of `if`s, the loops and branches
    enclosing each test, the shape of the `time_aligned` flag, the initial dictionary and the statements that
    append an event (with the branch they stand in and the fields they pass) are pinned as tables.
-/
import DemesVerif.Generated.GuardsViews
import DemesVerif.Proofs.Guards2Views
namespace Demes.Tables
open Demes Demes.Proofs.Guards Demes.Proofs.Guards2
set_option linter.unusedSimpArgs false

/-! ### `predecessors`, `successors` -/

theorem guards_tie_predecessors (g : Graph) :
    predecessors g = Generated.views_predecessors (Deme_name := Deme.name) (Deme_ancestors := Deme.ancestors)
      (Deme_ancestors_is_not_None := fun _ => true) (self_demes := g.demes) := by
  unfold predecessors Generated.views_predecessors
  simp only [if_true]
  first | done | rfl

theorem guards_tie_successors (g : Graph) :
    successors g = Generated.views_successors (Deme_name := Deme.name) (Deme_ancestors := Deme.ancestors)
      (Deme_ancestors_is_not_None := fun _ => true) (self_demes := g.demes) := by
  unfold successors Generated.views_successors
  simp only [if_true]
  first | done | rfl

/-! ### `discrete_demographic_events` -/

theorem guards_sites_views : Generated.guardSitesViews =
    [("Graph.discrete_demographic_events", 5, 0), ("Graph.predecessors", 1, 0), ("Graph.successors", 1, 0)] := by
  decide +kernel

theorem guards_context_views : Generated.guardContextViews =
    [("guard_events_no_ancestors", ["for (c, p) in self.predecessors().items()"]),
     ("guard_events_one_ancestor", ["for (c, p) in self.predecessors().items()", "else of if len(p) == 0"]),
     ("guard_events_split", ["for (c, p) in self.predecessors().items()", "else of if len(p) == 0", "if len(p) == 1"]),
     ("guard_events_misaligned", ["for (c, p) in self.predecessors().items()", "else of if len(p) == 0",
        "else of if len(p) == 1", "for deme_from in p"])] := by decide +kernel

/-- `time_aligned = True` immediately before `for deme_from in p`, whose only statement is `if` #3 (the
misalignment test) with the only statement `time_aligned = False`; read once, by `if` #4 right after the loop:
the flag is "no `deme_from` in `p` is misaligned" (`ends.all (fun e => !gMisaligned ..)` in `discreteEventsWith`) -/
theorem guards_events_aligned_flag :
    Generated.eventsAlignedFlag = ("for deme_from in p", 3, 4, "time_aligned is True") := by decide +kernel

theorem guards_events_loops : Generated.eventsLoops =
    ["for (c, p) in self.predecessors().items()", "for deme_from in p",
     "for (deme_from, demes_to) in splits_to_add.items()"] := by decide +kernel

theorem guards_events_initial : Generated.eventsInitial =
    [("pulses", "self.pulses"), ("splits", "[]"), ("branches", "[]"), ("mergers", "[]"), ("admixtures", "[]")] := by
  decide +kernel

/-- what is appended where (each row is one line of `discreteEventsWith`) -/
theorem guards_events_effects : Generated.eventsEffects =
    [("splits_to_add.setdefault(p[0], set())", ["for (c, p) in self.predecessors().items()", "else of if len(p) == 0",
        "if len(p) == 1", "if self[c].start_time == self[p[0]].end_time"]),
     ("splits_to_add[p[0]].add(c)", ["for (c, p) in self.predecessors().items()", "else of if len(p) == 0",
        "if len(p) == 1", "if self[c].start_time == self[p[0]].end_time"]),
     ("demo_events['branches'].append(Branch(parent=p[0], child=c, time=self[c].start_time))",
        ["for (c, p) in self.predecessors().items()", "else of if len(p) == 0", "if len(p) == 1",
         "else of if self[c].start_time == self[p[0]].end_time"]),
     ("demo_events['mergers'].append(Merge(parents=self[c].ancestors, proportions=self[c].proportions, child=c, time=self[c].start_time))",
        ["for (c, p) in self.predecessors().items()", "else of if len(p) == 0", "else of if len(p) == 1",
         "if time_aligned is True"]),
     ("demo_events['admixtures'].append(Admix(parents=self[c].ancestors, proportions=self[c].proportions, child=c, time=self[c].start_time))",
        ["for (c, p) in self.predecessors().items()", "else of if len(p) == 0", "else of if len(p) == 1",
         "else of if time_aligned is True"]),
     ("demo_events['splits'].append(Split(parent=deme_from, children=list(demes_to), time=self[deme_from].end_time))",
        ["for (deme_from, demes_to) in splits_to_add.items()"])] := by decide +kernel

/-- `len(p) == 0` -/
theorem guard_events_no_ancestors_meaning (n : Nat) :
    Generated.guard_events_no_ancestors (len_p := n) = decide (n = 0) := by
  unfold Generated.guard_events_no_ancestors
  grind

/-- `len(p) == 1` -/
theorem guard_events_one_ancestor_meaning (n : Nat) :
    Generated.guard_events_one_ancestor (len_p := n) = decide (n = 1) := by
  unfold Generated.guard_events_one_ancestor
  grind

/-- `self[c].start_time == self[p[0]].end_time` -/
theorem guard_events_split_meaning (childStart : ETime) (parentEnd : Q) :
    Generated.guard_events_split (self_c_start_time := Num.ofETime childStart) (self_p_0_end_time := Num.fin parentEnd)
      = decide (childStart = ETime.fin parentEnd) := by
  unfold Generated.guard_events_split
  exact eqIEEE_ofETime childStart (.fin parentEnd)

/-- `self[c].start_time != self[deme_from].end_time` -/
theorem guard_events_misaligned_meaning (childStart parentEnd : ETime) :
    Generated.guard_events_misaligned (self_c_start_time := Num.ofETime childStart)
      (self_deme_from_end_time := Num.ofETime parentEnd) = !decide (childStart = parentEnd) := by
  unfold Generated.guard_events_misaligned
  rw [eqIEEE_ofETime]

/-- `discreteEvents` makes exactly the source's four tests, in the source's nesting -/
theorem guards_tie_discrete_events : discreteEvents = discreteEventsWith
    (fun n => Generated.guard_events_no_ancestors (len_p := n))
    (fun n => Generated.guard_events_one_ancestor (len_p := n))
    (fun s e => Generated.guard_events_split (self_c_start_time := s) (self_p_0_end_time := e))
    (fun s e => Generated.guard_events_misaligned (self_c_start_time := s) (self_deme_from_end_time := e)) := by
  funext g
  unfold discreteEvents discreteEventsWith
  dsimp only
  congr 2
  funext acc cp
  obtain ⟨ev, sp⟩ := acc
  obtain ⟨c, p⟩ := cp
  match p with
  | [] => simp [guard_events_no_ancestors_meaning]
  | [p0] =>
    simp [guard_events_no_ancestors_meaning, guard_events_one_ancestor_meaning, guard_events_split_meaning]
  | p0 :: p1 :: rest =>
    simp [guard_events_no_ancestors_meaning, guard_events_one_ancestor_meaning, guard_events_misaligned_meaning]

/-! ### `discreteEventsWith` really uses its test arguments: in `exGraph` deme `b` starts at 10 inside the life of
its only ancestor `a` (which ends at 0): a branch -/

section sensitivity

example : (discreteEvents exGraph).map (·.branches) = some [{ parent := "a", child := "b", time := .fin 10 }]
    ∧ (discreteEvents exGraph).map (·.splits) = some [] := by decide +kernel
-- the split test answering "yes": a split of `a` instead
example : ((discreteEventsWith (fun n => n == 0) (fun n => n == 1) yes2 no2 exGraph).map (·.splits))
      = some [{ parent := "a", children := ["b"], time := 0 }]
    ∧ ((discreteEventsWith (fun n => n == 0) (fun n => n == 1) yes2 no2 exGraph).map (·.branches)) = some [] := by
  decide +kernel
-- every deme counted as without ancestors: nothing
example : ((discreteEventsWith (fun _ => true) (fun n => n == 1) no2 no2 exGraph).map (·.branches)) = some [] := by
  decide +kernel
-- no deme counted as having one ancestor: `b` is classified by alignment, as a merger or an admixture
example : ((discreteEventsWith (fun n => n == 0) (fun _ => false) no2 no2 exGraph).map (·.mergers))
      = some [{ parents := ["a"], proportions := [1], child := "b", time := .fin 10 }]
    ∧ ((discreteEventsWith (fun n => n == 0) (fun _ => false) no2 yes2 exGraph).map (·.admixtures))
      = some [{ parents := ["a"], proportions := [1], child := "b", time := .fin 10 }] := by decide +kernel
example : predecessors exGraph = [("a", []), ("b", ["a"])] ∧ successors exGraph = [("a", ["b"]), ("b", [])] := by
  decide +kernel

end sensitivity

end Demes.Tables
