/-
  Basic lemmas for C12: order on `ETime`, the end-time list, matrix get/set, `sweep`.
-/
import DemesVerif.Spec.Relations
namespace Demes.Proofs
open Demes Demes.Spec

/-! ### `ETime` order -/

@[simp] theorem fin_lt_fin (a b : Q) : (ETime.fin a < ETime.fin b) ↔ a < b := Iff.rfl
@[simp] theorem fin_lt_inf (a : Q) : (ETime.fin a < ETime.inf) ↔ True := Iff.rfl
@[simp] theorem inf_lt (x : ETime) : (ETime.inf < x) ↔ False := by cases x <;> exact Iff.rfl
@[simp] theorem fin_le_fin (a b : Q) : (ETime.fin a ≤ ETime.fin b) ↔ a ≤ b := Iff.rfl
@[simp] theorem le_inf (x : ETime) : (x ≤ ETime.inf) ↔ True := by cases x <;> exact Iff.rfl
@[simp] theorem inf_le_fin (a : Q) : (ETime.inf ≤ ETime.fin a) ↔ False := Iff.rfl

theorem et_not_le {a b : ETime} : ¬ a ≤ b ↔ b < a := by
  cases a <;> cases b <;> simp <;> grind

theorem et_lt_of_lt_of_le {a b c : ETime} (h1 : a < b) (h2 : b ≤ c) : a < c := by
  cases a <;> cases b <;> cases c <;> simp at * <;> grind

theorem et_lt_trans {a b c : ETime} (h1 : a < b) (h2 : b < c) : a < c := by
  cases a <;> cases b <;> cases c <;> simp at * <;> grind

/-! ### sorted, duplicate-free end times -/

theorem mem_insertDesc (x y : Q) : ∀ l : List Q, y ∈ insertDesc x l ↔ y = x ∨ y ∈ l
  | [] => by simp [insertDesc]
  | z :: zs => by
    have ih := mem_insertDesc x y zs
    simp only [insertDesc]
    split
    · simp
    · split
      · subst_vars; simp
      · simp [ih]; grind

theorem pairwise_insertDesc (x : Q) : ∀ l : List Q, l.Pairwise (· > ·) → (insertDesc x l).Pairwise (· > ·)
  | [], _ => by simp [insertDesc]
  | z :: zs, h => by
    have ih := pairwise_insertDesc x zs
    simp only [insertDesc]
    rw [List.pairwise_cons] at h
    split
    · rename_i hx
      rw [List.pairwise_cons]
      refine ⟨?_, List.pairwise_cons.mpr h⟩
      intro a ha
      rcases List.mem_cons.mp ha with rfl | ha
      · exact hx
      · have := h.1 a ha; grind
    · split
      · exact List.pairwise_cons.mpr h
      · rw [List.pairwise_cons]
        refine ⟨?_, ih h.2⟩
        intro a ha
        rcases (mem_insertDesc x a zs).mp ha with rfl | ha
        · grind
        · exact h.1 a ha

theorem mem_sortDescUniq (y : Q) : ∀ l : List Q, y ∈ sortDescUniq l ↔ y ∈ l
  | [] => by simp [sortDescUniq]
  | z :: zs => by
    have ih := mem_sortDescUniq y zs
    simp only [sortDescUniq, List.foldr_cons] at ih ⊢
    rw [mem_insertDesc, ih]; simp

theorem pairwise_sortDescUniq : ∀ l : List Q, (sortDescUniq l).Pairwise (· > ·)
  | [] => by simp [sortDescUniq]
  | z :: zs => by
    have ih := pairwise_sortDescUniq zs
    simp only [sortDescUniq, List.foldr_cons] at ih ⊢
    exact pairwise_insertDesc z _ ih

theorem getLast_zero_of_mem : ∀ l : List Q, l.Pairwise (· > ·) → (∀ x ∈ l, 0 ≤ x) → (0:Q) ∈ l →
    l.getLast? = some 0
  | [], _, _, h => by simp at h
  | [a], _, _, h => by simp at h; simp [h]
  | a :: b :: l, hp, hn, h => by
    rw [List.getLast?_cons_cons]
    rw [List.pairwise_cons] at hp
    apply getLast_zero_of_mem (b :: l) hp.2 (fun x hx => hn x (List.mem_cons_of_mem _ hx))
    rcases List.mem_cons.mp h with h | h
    · have h1 := hp.1 b (by simp)
      have h2 := hn b (by simp)
      grind
    · exact h

theorem mem_migrationTimes (ms : List Migration) (x : Q) :
    x ∈ migrationTimes ms ↔ ∃ m ∈ ms, m.startTime = .fin x ∨ m.endTime = x := by
  simp only [migrationTimes, List.mem_append, List.mem_filterMap, List.mem_map]
  constructor
  · rintro (⟨m, hm, h⟩ | ⟨m, hm, h⟩)
    · refine ⟨m, hm, Or.inl ?_⟩
      split at h <;> simp_all
    · exact ⟨m, hm, Or.inr h⟩
  · rintro ⟨m, hm, h | h⟩
    · exact Or.inl ⟨m, hm, by simp [h]⟩
    · exact Or.inr ⟨m, hm, h⟩

/-- the facts about `mmEndTimes` used later, given that all times are non-negative -/
theorem mmEndTimes_props (ms : List Migration) (hn : ∀ x ∈ migrationTimes ms, 0 ≤ x) :
    mmEndTimes ms ≠ [] ∧ (mmEndTimes ms).getLast? = some 0 ∧ (mmEndTimes ms).Pairwise (· > ·)
      ∧ ∀ x, x ∈ mmEndTimes ms ↔ (x ∈ migrationTimes ms ∨ x = 0) := by
  have hp := pairwise_sortDescUniq (migrationTimes ms)
  have hm := fun x => mem_sortDescUniq x (migrationTimes ms)
  simp only [mmEndTimes]
  generalize sortDescUniq (migrationTimes ms) = s at hp hm
  split
  · rename_i hl
    refine ⟨?_, hl, hp, ?_⟩
    · intro h; simp [h] at hl
    · intro x
      rw [hm]
      constructor
      · exact Or.inl
      · rintro (h | rfl)
        · exact h
        · rw [← hm]; exact List.mem_of_getLast? hl
  · rename_i hl
    refine ⟨by simp, by simp, ?_, ?_⟩
    · rw [List.pairwise_append]
      refine ⟨hp, by simp, ?_⟩
      intro a ha b hb
      simp at hb; subst hb
      have h0 : 0 ≤ a := hn a ((hm a).mp ha)
      have : a ≠ 0 := by
        rintro rfl
        exact hl (getLast_zero_of_mem s hp (fun x hx => hn x ((hm x).mp hx)) ha)
      grind
    · intro x; simp [hm]

/-! ### matrices -/

/-- an `n × n` matrix -/
def Shape (n : Nat) (mm : Matrix) : Prop := mm.length = n ∧ ∀ row ∈ mm, row.length = n

theorem shape_zero (n : Nat) : Shape n (zeroMatrix n) := by
  simp only [Shape, zeroMatrix, List.length_replicate, true_and]
  intro row h
  rw [List.mem_replicate] at h
  simp [h.2]

theorem shape_set {n : Nat} {mm : Matrix} (h : Shape n mm) (i j : Nat) (v : Q) :
    Shape n (mm.set i j v) := by
  refine ⟨by simp [Matrix.set, h.1], ?_⟩
  intro row hr
  simp only [Matrix.set] at hr
  rcases List.getElem_of_mem hr with ⟨p, hp, rfl⟩
  rw [List.getElem_modify]
  simp only [List.length_modify] at hp
  split
  · rw [List.length_set]; exact h.2 _ (List.getElem_mem _)
  · exact h.2 _ (List.getElem_mem _)

theorem get_set {n : Nat} {mm : Matrix} (h : Shape n mm) {i j : Nat} (hi : i < n) (hj : j < n)
    (v : Q) (i' j' : Nat) :
    (mm.set i j v).get i' j' = if i' = i ∧ j' = j then v else mm.get i' j' := by
  simp only [Matrix.get, Matrix.set, List.getD_eq_getElem?_getD, List.getElem?_modify]
  by_cases hii : i = i'
  · subst hii
    have hlt : i < mm.length := by rw [h.1]; exact hi
    have hrow : (mm[i]).length = n := h.2 _ (List.getElem_mem _)
    simp only [List.getElem?_eq_getElem hlt, if_true, Option.getD_some, true_and]
    by_cases hjj : j = j'
    · subst hjj; simp [hrow, hj]
    · simp [hjj, Ne.symm hjj]
  · have : ¬ (i' = i) := fun h => hii h.symm
    simp only [hii, this, false_and, if_false]
    cases mm[i']? <;> simp

/-! ### intervals and `sweep` -/

/-- start of interval `k`: the loop-carried `start_time` -/
def startAt (start : ETime) (es : List Q) : Nat → ETime
  | 0 => start
  | k+1 => match es[k]? with | some e => .fin e | none => .inf

theorem startAt_cons_succ (start : ETime) (e : Q) (es : List Q) (k : Nat) :
    startAt start (e :: es) (k+1) = startAt (.fin e) es k := by
  cases k <;> simp [startAt]

/-- migration `m` is written into matrix `k` : `s_k > m.end ∧ e_k < m.start` -/
def cov (m : Migration) (start : ETime) (es : List Q) (k : Nat) : Bool :=
  decide (ETime.fin m.endTime < startAt start es k) &&
    (match es[k]? with | some e => decide (ETime.fin e < m.startTime) | none => false)

theorem cov_cons_zero (m : Migration) (start : ETime) (e : Q) (es : List Q) :
    cov m start (e :: es) 0 = (decide (ETime.fin m.endTime < start) && decide (ETime.fin e < m.startTime)) := by
  rfl

theorem cov_cons_succ (m : Migration) (start : ETime) (e : Q) (es : List Q) (k : Nat) :
    cov m start (e :: es) (k+1) = cov m (.fin e) es k := by
  simp [cov, startAt_cons_succ]

/-- interval starts never exceed the loop's initial start -/
theorem startAt_le (start : ETime) (es : List Q) (hc : ∀ e ∈ es, ETime.fin e < start) (k : Nat)
    (hk : k < es.length) (x : ETime) (hx : x < startAt start es k) : x < start := by
  cases k with
  | zero => exact hx
  | succ k =>
    have hk' : k < es.length := by omega
    simp only [startAt, List.getElem?_eq_getElem hk'] at hx
    exact et_lt_trans hx (hc _ (List.getElem_mem _))

theorem cov_false_of_le (m : Migration) (start : ETime) (es : List Q)
    (hc : ∀ e ∈ es, ETime.fin e < start) (hle : start ≤ ETime.fin m.endTime) (k : Nat) :
    cov m start es k = false := by
  by_cases hk : k < es.length
  · cases hcv : cov m start es k with
    | false => rfl
    | true =>
      simp only [cov, Bool.and_eq_true, decide_eq_true_eq] at hcv
      have := startAt_le start es hc k hk _ hcv.1
      exact absurd hle (et_not_le.mpr this)
  · simp [cov, List.getElem?_eq_none (Nat.le_of_not_lt hk)]

theorem sweep_ok (mig : Migration) (src dst : Nat) :
    ∀ (es : List Q) (start : ETime) (mms : List Matrix), es.length = mms.length →
      (∀ e ∈ es, ETime.fin e < start) → es.Pairwise (· > ·) →
      (∀ k mm, mms[k]? = some mm → cov mig start es k = true → ¬ (mm.get dst src > 0)) →
      ∃ mms', sweep mig src dst start es mms = .ok mms' ∧ mms'.length = mms.length ∧
        ∀ k mm, mms[k]? = some mm →
          mms'[k]? = some (if cov mig start es k then mm.set dst src mig.rate else mm)
  | [], start, mms, hl, _, _, _ => by
    cases mms with
    | nil => exact ⟨[], by simp [sweep, pure, Except.pure], rfl, by simp⟩
    | cons _ _ => simp at hl
  | e :: es, start, [], hl, _, _, _ => by simp at hl
  | e :: es, start, mm :: mms, hl, hc, hp, hz => by
    simp only [sweep]
    split
    · rename_i hle
      refine ⟨mm :: mms, rfl, rfl, ?_⟩
      intro k mm' hk
      rw [cov_false_of_le mig start (e :: es) hc hle k]
      simpa using hk
    · rename_i hle
      have hlt : ETime.fin mig.endTime < start := et_not_le.mp hle
      rw [List.pairwise_cons] at hp
      have ih := sweep_ok mig src dst es (.fin e) mms (by simpa using hl)
        (fun x hx => by simpa using hp.1 x hx) hp.2
        (fun k mm' hk hcv => hz (k+1) mm' (by simpa using hk) (by rw [cov_cons_succ]; exact hcv))
      obtain ⟨rest, hr, hlen, hget⟩ := ih
      have hz0 := hz 0 mm (by simp)
      rw [cov_cons_zero] at hz0
      by_cases hs : ETime.fin e < mig.startTime
      · have hng : ¬ (mm.get dst src > 0) := hz0 (by simp [hlt, hs])
        refine ⟨mm.set dst src mig.rate :: rest, ?_, by simp [hlen], ?_⟩
        · simp [hs, hng, hr, bind, Except.bind, pure, Except.pure]
        · intro k mm' hk
          cases k with
          | zero =>
            simp only [List.getElem?_cons_zero, Option.some.injEq] at hk
            subst hk
            simp [cov_cons_zero, hlt, hs]
          | succ k =>
            rw [cov_cons_succ]
            simpa using hget k mm' (by simpa using hk)
      · refine ⟨mm :: rest, ?_, by simp [hlen], ?_⟩
        · simp [hs, hr, bind, Except.bind, pure, Except.pure]
        · intro k mm' hk
          cases k with
          | zero =>
            simp only [List.getElem?_cons_zero, Option.some.injEq] at hk
            subst hk
            simp [cov_cons_zero, hs]
          | succ k =>
            rw [cov_cons_succ]
            simpa using hget k mm' (by simpa using hk)

end Demes.Proofs
