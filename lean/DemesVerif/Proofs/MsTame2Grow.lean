/-
  C09 §8 — `C08.Tame2` against `C08.Tame'` on the commands `to_ms` prints, exponential epochs allowed
  (`Proofs/MsTame2Groups.lean` with `cmdOfV gv` / `prOfV gv` / `EvG` in place of `cmdOfG` / `prOf` / `EvRT`, and
  without `ConstSizes`): `Tame2 = Tame'` (`Grow.tame2_eq_tame_finalEvs`), and both hold exactly when the pulses
  are `PulsesTame` (`Grow.tame2_iff_pulsesTame`).
-/
import DemesVerif.Proofs.MsTame2Groups
import DemesVerif.Proofs.MsGrowTame
set_option linter.unusedSimpArgs false
set_option linter.unusedVariables false
namespace Demes.Proofs.MsTame2.Grow
open Demes Demes.Ms Demes.Spec Demes.Spec.C07 Demes.Spec.C09
open Demes.Spec.MsSem (Cmd Parsed isMove)
open Demes.Spec.C08 (groupOps groupOpsAux flushOp noSourceAfterTarget sourceAfterJoinOnly chainsEnd GoodGroup GoodGroup2
  goodGroups goodGroups2 Tame' Tame2 isSplitC cmdGroups)
open Demes.Proofs.ToMs Demes.Proofs.MsRT Demes.Proofs.MsGrow Demes.Proofs.MsTame2

/-- a move of the fragment `EvG` is at a positive time -/
theorem movePos (gv : Growth → Q) {e : Event Growth} (h : EvG e) (hm : isMove (cmdOfV gv e) = true) : 0 < (cmdOfV gv e).t := by
  cases e with
  | popSizeChange o t i x => obtain ⟨_, _, q, y, rfl, _, rfl, _⟩ := h; cases hm
  | migEntryChange o t i j x => obtain ⟨_, _, _, q, y, rfl, _, rfl, _⟩ := h; cases hm
  | split o t i p => obtain ⟨_, _, q, y, rfl, hq, rfl, _, _⟩ := h; exact hq
  | join o t i j => obtain ⟨_, _, _, q, rfl, hq⟩ := h; exact hq
  | growthRateChange => exact h.elim
  | popGrowthRateChange o t i G => cases hm
  | sizeChange => exact h.elim
  | migRateChange => exact h.elim
  | migMatrixChange => exact h.elim

/-! ### one time group -/

/-- what a time group says about the graph: no move of the time leaves a population that has received
lineages, and the pulses of the time have proportions below one -/
def GroupFact (g : Graph) (T : Q) : Prop :=
  noSourceAfterTarget (dpMoves g (dpsEq g T)) = true ∧ ∀ p ∈ g.pulses, p.time = T → p.proportions.headD 0 < 1

section
variable (gv : Growth → Q) {g : Graph} (c : Clauses g) (hx : MsExpressible g = true) {N0 : Q} (hN : 0 < N0)
include c hx hN

/-- one time group of the command, read after the options `pre`: `GoodGroup2` is `GoodGroup`, and says
`GroupFact` of the graph -/
theorem group_both {pre grp post : List (Event Growth)} (hF : finalEvs g N0 = pre ++ grp ++ post)
    (hne : grp ≠ []) (hsame : ∀ a ∈ grp, ∀ b ∈ grp, evT a = evT b)
    (hpre : ∀ a ∈ pre, ∀ b ∈ grp, evT a < evT b) (hpost : ∀ a ∈ grp, ∀ b ∈ post, evT a < evT b) :
    GoodGroup2 (g.demes.length + ((pre.map (cmdOfV gv)).filter isSplitC).length) (grp.map (cmdOfV gv))
      = GoodGroup (g.demes.length + ((pre.map (cmdOfV gv)).filter isSplitC).length) (grp.map (cmdOfV gv))
    ∧ (GoodGroup (g.demes.length + ((pre.map (cmdOfV gv)).filter isSplitC).length) (grp.map (cmdOfV gv)) = true →
        GroupFact g (timeOf N0 grp)) := by
  obtain ⟨h0, tl, rfl⟩ : ∃ h0 tl, grp = h0 :: tl := by
    cases grp with
    | nil => exact absurd rfl hne
    | cons h0 tl => exact ⟨h0, tl, rfl⟩
  have hT : timeOf N0 (h0 :: tl) / (4 * N0) = evT h0 := by
    simp only [ToMs.timeOf, List.head?_cons, Option.map_some, Option.getD_some]
    exact mul_div_cancel_left4 hN _
  have b1 : ∀ a ∈ pre, evT a < timeOf N0 (h0 :: tl) / (4 * N0) := fun a ha => by
    rw [hT]; exact hpre a ha h0 List.mem_cons_self
  have b2 : ∀ a ∈ h0 :: tl, evT a = timeOf N0 (h0 :: tl) / (4 * N0) := fun a ha => by
    rw [hT]; exact hsame a ha h0 List.mem_cons_self
  have b3 : ∀ b ∈ post, timeOf N0 (h0 :: tl) / (4 * N0) < evT b := fun b hb => by
    rw [hT]; exact hpost h0 List.mem_cons_self b hb
  obtain ⟨_, hgrp⟩ := group_parts c hx hN (T := timeOf N0 (h0 :: tl)) hF b1 b2 b3
  have hcount : g.demes.length + ((pre.map (cmdOfV gv)).filter isSplitC).length
      = ancCount g.demes.length (dpsLt g (timeOf N0 (h0 :: tl))) := by
    have := count_pre c hx hN (T := timeOf N0 (h0 :: tl)) hF b1 b2 b3
    rw [runP_len] at this
    have hlen : (s0Of N0 g.demes.length).pops.length = g.demes.length := by simp [s0Of]
    rw [hlen] at this
    rw [count_splitC gv, this]
  have hmem : ∀ e ∈ h0 :: tl, e ∈ finalEvs g N0 := fun e he => by
    rw [hF]; exact List.mem_append_left _ (List.mem_append_right _ he)
  generalize hTT : timeOf N0 (h0 :: tl) = T at *
  -- the moves of the group are the moves of the graph at time `T`
  have hops : groupOps (g.demes.length + ((pre.map (cmdOfV gv)).filter isSplitC).length) ((h0 :: tl).map (cmdOfV gv))
      = dpMoves g (dpsEq g T) := by
    rw [hcount]
    unfold groupOps
    rw [MsGrow.groupOpsAux_filter gv, hgrp, MsGrow.groupOps_ancEvs gv]
  -- every move is at a positive time
  have hP : (((h0 :: tl).map (cmdOfV gv)).filter isMove).all (fun c => decide (0 < c.t)) = true := by
    rw [List.all_eq_true]
    intro cm hcm
    obtain ⟨hcm1, hcm2⟩ := List.mem_filter.1 hcm
    obtain ⟨e, he, rfl⟩ := List.mem_map.1 hcm1
    simp only [decide_eq_true_eq]
    exact movePos gv (evG_finalEvs c hx hN e (hmem e he)) hcm2
  -- the split fractions of the group bound the proportions of the pulses of time `T`
  have hlt : ((h0 :: tl).map (cmdOfV gv)).all (fun c => match c with
        | .split _ _ p => decide (0 < p) && decide (p ≤ 1) | _ => true) = true →
      ∀ p ∈ g.pulses, p.time = T → p.proportions.headD 0 < 1 := by
    intro hS p hp hpT
    have hpe : DemeOrPulse.pulse p ∈ dpsEq g T := by rw [← hpT]; exact pulse_mem_dpsEq hp
    obtain ⟨n', hn'⟩ := pulseEvs_sub_ancEvs (g := g) (dpsEq g T) (ancCount g.demes.length (dpsLt g T)) hpe
    have he0 := hn' (Event.split "" (.fin p.time) (idOf g p.dest) (.fin (1 - p.proportions.headD 0)))
      (by simp [pulseEvs])
    have he1 : scaleEv N0 (Event.split "" (.fin p.time) (idOf g p.dest) (.fin (1 - p.proportions.headD 0)))
        ∈ (h0 :: tl).filter isSplitJoin := by
      rw [hgrp]; exact List.mem_map.2 ⟨_, he0, rfl⟩
    have he2 := (List.mem_filter.1 he1).1
    obtain ⟨t', ht'⟩ := cmdOfV_scale_split gv N0 "" (.fin p.time) (idOf g p.dest) (1 - p.proportions.headD 0)
    rw [List.all_eq_true] at hS
    have := hS _ (List.mem_map.2 ⟨_, he2, rfl⟩)
    rw [ht'] at this
    simp only [Bool.and_eq_true, decide_eq_true_eq] at this
    grind
  unfold GoodGroup GoodGroup2
  rw [hP, Bool.and_true, hops]
  constructor
  · cases hS : ((h0 :: tl).map (cmdOfV gv)).all (fun c => match c with
        | .split _ _ p => decide (0 < p) && decide (p ≤ 1) | _ => true) with
    | false => simp
    | true => rw [good2_ops_eq c hx T (hlt hS)]
  · intro h
    simp only [Bool.and_eq_true] at h
    exact ⟨h.1, hlt h.2⟩

/-- the time groups `G`, read after the options `pre` -/
theorem groups_both : ∀ (G : List (List (Event Growth))) (pre : List (Event Growth)),
    finalEvs g N0 = pre ++ G.flatten → GroupsOK G →
    (∀ a ∈ pre, ∀ grp ∈ G, ∀ b ∈ grp, evT a < evT b) →
    goodGroups2 (g.demes.length + ((pre.map (cmdOfV gv)).filter isSplitC).length) (G.map (List.map (cmdOfV gv)))
      = goodGroups (g.demes.length + ((pre.map (cmdOfV gv)).filter isSplitC).length) (G.map (List.map (cmdOfV gv)))
    ∧ (goodGroups (g.demes.length + ((pre.map (cmdOfV gv)).filter isSplitC).length) (G.map (List.map (cmdOfV gv))) = true →
        ∀ grp ∈ G, GroupFact g (timeOf N0 grp))
  | [], _, _, _, _ => ⟨rfl, fun _ _ h => by cases h⟩
  | grp :: rest, pre, hF, hok, hsep => by
    have hinc := List.pairwise_cons.1 hok.inc
    obtain ⟨hne, hsame⟩ := hok.same grp List.mem_cons_self
    have hF' : finalEvs g N0 = pre ++ grp ++ rest.flatten := by rw [hF]; simp
    have hpost : ∀ a ∈ grp, ∀ b ∈ rest.flatten, evT a < evT b := by
      intro a ha b hb
      obtain ⟨g2, hg2, hb2⟩ := List.mem_flatten.1 hb
      exact hinc.1 g2 hg2 a ha b hb2
    have h1 := group_both gv c hx hN hF' hne hsame
      (fun a ha b hb => hsep a ha grp List.mem_cons_self b hb) hpost
    have h2 := groups_both rest (pre ++ grp) (by rw [hF'])
      ⟨hinc.2, fun g2 hg2 => hok.same g2 (List.mem_cons_of_mem _ hg2)⟩ (by
        intro a ha g2 hg2 b hb
        rcases List.mem_append.1 ha with ha | ha
        · exact hsep a ha g2 (List.mem_cons_of_mem _ hg2) b hb
        · exact hinc.1 g2 hg2 a ha b hb)
    simp only [List.map_append, List.filter_append, List.length_append, ← Nat.add_assoc] at h2
    simp only [List.map_cons, goodGroups, goodGroups2]
    refine ⟨by rw [h1.1, h2.1], ?_⟩
    intro h grp' hg'
    simp only [Bool.and_eq_true] at h
    rcases List.mem_cons.1 hg' with rfl | hg'
    · exact h1.2 h.1
    · exact h2.2 h.2 grp' hg'

end

/-! ### the whole command -/

theorem npop_prOfV (gv : Growth → Q) {g : Graph} (c : Clauses g) (samples : Option (List Int)) (N0 : Q) :
    (prOfV gv (headerOf g samples) (finalEvs g N0)).npop = g.demes.length := by
  show ((headerOf g samples).map (·.1)).getD 1 = g.demes.length
  unfold headerOf
  have := demes_pos c
  by_cases h1 : g.demes.length > 1
  · simp [h1]
  · simp [h1]; omega

section
variable (gv : Growth → Q) {g : Graph} (c : Clauses g) (hx : MsExpressible g = true) {N0 : Q} (hN : 0 < N0)
include c hx hN

/-- **on the command `to_ms` prints for a valid ms-expressible graph of constant sizes, `Tame2` is `Tame'`** -/
theorem tame2_eq_tame_finalEvs (samples : Option (List Int)) :
    Tame2 (prOfV gv (headerOf g samples) (finalEvs g N0)) = Tame' (prOfV gv (headerOf g samples) (finalEvs g N0)) := by
  unfold Tame2 Tame'
  rw [npop_prOfV gv c, cmdGroups_prOfV gv _ _ (evG_finalEvs c hx hN) (sorted_finalEvs c hx hN)]
  have := (groups_both gv c hx hN (groupsByTime (finalEvs g N0)) []
    (by rw [flatten_groupsByTime]; rfl) (groupsOK_groupsByTime _ (sorted_byQ_finalEvs c hx hN))
    (fun a ha => by cases ha)).1
  simpa using this

/-- every time group of the command says `GroupFact` of the graph, when the command is in `Tame'` -/
theorem groupFacts_of_tame (samples : Option (List Int))
    (ht : Tame' (prOfV gv (headerOf g samples) (finalEvs g N0)) = true) :
    ∀ grp ∈ groupsByTime (finalEvs g N0), GroupFact g (timeOf N0 grp) := by
  unfold Tame' at ht
  rw [npop_prOfV gv c, cmdGroups_prOfV gv _ _ (evG_finalEvs c hx hN) (sorted_finalEvs c hx hN)] at ht
  have := (groups_both gv c hx hN (groupsByTime (finalEvs g N0)) []
    (by rw [flatten_groupsByTime]; rfl) (groupsOK_groupsByTime _ (sorted_byQ_finalEvs c hx hN))
    (fun a ha => by cases ha)).2
  apply this
  simpa using ht

omit gv in
/-- the time of a pulse is the time of a group of the command -/
theorem pulse_group {p : Pulse} (hp : p ∈ g.pulses) : ∃ grp ∈ groupsByTime (finalEvs g N0), timeOf N0 grp = p.time := by
  obtain ⟨n', hn'⟩ := pulseEvs_sub_ancEvs (g := g) (dps g) g.demes.length (pulse_mem_dps hp)
  have he0 := hn' (Event.split "" (.fin p.time) (idOf g p.dest) (.fin (1 - p.proportions.headD 0)))
    (by simp [pulseEvs])
  have he1 : scaleEv N0 (Event.split "" (.fin p.time) (idOf g p.dest) (.fin (1 - p.proportions.headD 0)))
      ∈ (finalEvs g N0).filter isSplitJoin := by
    rw [finalEvs_filter_splitJoin c hx hN]; exact List.mem_map.2 ⟨_, he0, rfl⟩
  have he2 := (List.mem_filter.1 he1).1
  rw [← flatten_groupsByTime (finalEvs g N0)] at he2
  obtain ⟨grp, hgrp, he3⟩ := List.mem_flatten.1 he2
  refine ⟨grp, hgrp, ?_⟩
  have hok := groupsOK_groupsByTime _ (sorted_byQ_finalEvs c hx hN)
  obtain ⟨hne, hsame⟩ := hok.same grp hgrp
  cases grp with
  | nil => exact absurd rfl hne
  | cons h0 tl =>
    have h1 := hsame h0 List.mem_cons_self _ he3
    have h2 : evT (scaleEv N0 (Event.split "" (.fin p.time) (idOf g p.dest) (.fin (1 - p.proportions.headD 0))))
        = p.time / (4 * N0) := evT_of_good (t_scale rfl)
    simp only [ToMs.timeOf, List.head?_cons, Option.map_some, Option.getD_some]
    rw [h1, h2]
    exact MsTame2.mul_div_cancel4 hN _

/-- **`Tame'` of the command `to_ms` prints needs `PulsesTame`** (the converse is `MsRT.tame_finalEvs`) -/
theorem pulsesTame_of_tame (samples : Option (List Int))
    (ht : Tame' (prOfV gv (headerOf g samples) (finalEvs g N0)) = true) : PulsesTame g = true := by
  have hf := groupFacts_of_tame gv c hx hN samples ht
  have hfact : ∀ p ∈ g.pulses, GroupFact g p.time := by
    intro p hp
    obtain ⟨grp, hgrp, hT⟩ := pulse_group c hx hN hp
    rw [← hT]; exact hf grp hgrp
  unfold PulsesTame
  rw [Bool.and_eq_true]
  constructor
  · rw [List.all_eq_true]
    intro p hp
    obtain ⟨_, p0, _, hp0, _⟩ := pulse_single c hx hp
    have := (hfact p hp).2 p hp rfl
    rw [hp0] at this ⊢
    simpa using this
  · apply order_of_nsat c hx
    intro T hT
    obtain ⟨p, hp, rfl⟩ := hT
    exact (hfact p hp).1

theorem tame_iff_pulsesTame (samples : Option (List Int)) :
    Tame' (prOfV gv (headerOf g samples) (finalEvs g N0)) = true ↔ PulsesTame g = true :=
  ⟨pulsesTame_of_tame gv c hx hN samples, fun h => tame_finalEvsV gv c hx h hN samples⟩

/-- **`Tame2` of the command `to_ms` prints holds exactly when the pulses are `PulsesTame`** -/
theorem tame2_iff_pulsesTame (samples : Option (List Int)) :
    Tame2 (prOfV gv (headerOf g samples) (finalEvs g N0)) = true ↔ PulsesTame g = true := by
  rw [tame2_eq_tame_finalEvs gv c hx hN]
  exact tame_iff_pulsesTame gv c hx hN samples

end

/-! ### hypotheses on the graph itself (transport along `inGenerations`), and the printed command -/

theorem tame2_eq_tame_toMs (gv : Growth → Q) {graph : Graph} (hv : validGraph graph = true) (hx : MsExpressible graph = true)
    {N0 : Q} (hN : 0 < N0) (samples : Option (List Int)) :
    Tame2 (prOfV gv (headerOf (inGenerations graph) samples) (finalEvs (inGenerations graph) N0))
      = Tame' (prOfV gv (headerOf (inGenerations graph) samples) (finalEvs (inGenerations graph) N0)) :=
  tame2_eq_tame_finalEvs gv (clauses_of_valid (InGen.inGenerations_valid graph hv)) (by rw [expr_inGen]; exact hx)
    hN samples

theorem tame2_iff_pulsesTame_toMs (gv : Growth → Q) {graph : Graph} (hv : validGraph graph = true) (hx : MsExpressible graph = true)
    {N0 : Q} (hN : 0 < N0) (samples : Option (List Int)) :
    Tame2 (prOfV gv (headerOf (inGenerations graph) samples) (finalEvs (inGenerations graph) N0)) = true
      ↔ PulsesTame graph = true := by
  rw [← pulsesTame_inGen_of_valid hv]
  exact tame2_iff_pulsesTame gv (clauses_of_valid (InGen.inGenerations_valid graph hv)) (by rw [expr_inGen]; exact hx)
    hN samples

#print axioms group_both
#print axioms groups_both
#print axioms tame2_eq_tame_finalEvs
#print axioms pulsesTame_of_tame
#print axioms tame2_iff_pulsesTame
#print axioms tame2_eq_tame_toMs
#print axioms tame2_iff_pulsesTame_toMs

end Demes.Proofs.MsTame2.Grow
