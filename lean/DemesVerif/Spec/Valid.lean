/-
  Independent validator of the fully-resolved Demes data model, written from the
  specification's rules (not from the implementation's control flow).  One definition per
  clause so that a failing clause can be named.
-/
import DemesVerif.Model.Graph
namespace Demes.Spec
open Demes

def findDeme (g : Graph) (name : String) : Option Deme := g.demes.find? (fun d => d.name = name)

def qsumS (xs : List Q) : Q := xs.foldr (· + ·) 0

/-- a relative tolerance of 1e-9 (the exact value of that double), as validation allows -/
def closeTo1 (x : Q) : Bool :=
  x == 1 || decide (qabs (x - 1) ≤ relTol * qmax (qabs x) 1)

/-- V0: the name index maps exactly each deme's name to its position -/
def v0 (g : Graph) : Bool :=
  g.index == (g.demes.zipIdx.map (fun (d, i) => (d.name, i)))

/-- V1: at least one deme; names are identifiers and pairwise distinct -/
def v1 (g : Graph) : Bool :=
  !g.demes.isEmpty && g.demes.all (fun d => isIdentifier d.name)
    && decide ((g.demes.map (·.name)).Nodup)

/-- V2: ancestors are listed earlier, are distinct, and a deme is not its own ancestor -/
def v2 (g : Graph) : Bool :=
  g.demes.zipIdx.all (fun (d, i) =>
    d.ancestors.all (fun a => (g.demes.take i).any (fun e => e.name = a))
    && decide (d.ancestors.Nodup) && !d.ancestors.contains d.name)

/-- V3: each ancestor is alive at the descendant's start time (start exclusive, end
inclusive); no ancestors iff infinite start; start time positive -/
def v3 (g : Graph) : Bool :=
  g.demes.all (fun d =>
    d.ancestors.all (fun a =>
      match findDeme g a with
      | some anc => decide (d.startTime < anc.startTime) && decide (ETime.fin anc.endTime ≤ d.startTime)
      | none => false)
    && (d.ancestors.isEmpty == d.startTime.isInf)
    && decide (ETime.fin 0 < d.startTime))

/-- V4: one proportion per ancestor, each in (0,1], summing to one (up to 1e-9) -/
def v4 (g : Graph) : Bool :=
  g.demes.all (fun d =>
    d.proportions.length == d.ancestors.length
    && d.proportions.all (fun p => decide (0 < p) && decide (p ≤ 1))
    && (d.proportions.isEmpty || closeTo1 (qsumS d.proportions)))

/-- epochs are contiguous from `start`: each starts where the previous one ended and is
strictly older at its start than at its end -/
def contiguous : ETime → List Epoch → Bool
  | _, [] => true
  | start, e :: es => e.startTime == start && decide (ETime.fin e.endTime < e.startTime)
      && contiguous (ETime.fin e.endTime) es

/-- V5: at least one epoch; contiguous, strictly descending, the first starting at the
deme's start -/
def v5 (g : Graph) : Bool :=
  g.demes.all (fun d => !d.epochs.isEmpty && contiguous d.startTime d.epochs)

def sizeFunctionsS : List String := ["constant", "exponential", "linear"]

/-- V6/V7: positive finite sizes, rates in [0,1], known size function, constant ⇒ equal
sizes, infinite start ⇒ equal sizes, end time ≥ 0 -/
def v6 (g : Graph) : Bool :=
  g.demes.all (fun d => d.epochs.all (fun e =>
    decide (0 < e.startSize) && decide (0 < e.endSize)
    && decide (0 ≤ e.selfingRate) && decide (e.selfingRate ≤ 1)
    && decide (0 ≤ e.cloningRate) && decide (e.cloningRate ≤ 1)
    && sizeFunctionsS.contains e.sizeFunction
    && (e.sizeFunction != "constant" || e.startSize == e.endSize)
    && (!e.startTime.isInf || e.startSize == e.endSize)
    && decide (0 ≤ e.endTime)))

/-- coexistence interval of two demes: `[max end, min start]` -/
def coexist (a b : Deme) : Q × ETime := (qmax a.endTime b.endTime, ETime.min a.startTime b.startTime)

/-- V8: each migration joins two different existing demes, has start > end, lies inside their
coexistence interval, and has a rate in [0,1] -/
def v8 (g : Graph) : Bool :=
  g.migrations.all (fun m =>
    m.source != m.dest &&
    match findDeme g m.source, findDeme g m.dest with
    | some s, some d =>
      let (lo, hi) := coexist s d
      decide (ETime.fin m.endTime < m.startTime) && decide (lo ≤ m.endTime) && decide (m.startTime ≤ hi)
        && decide (0 ≤ m.rate) && decide (m.rate ≤ 1)
    | _, _ => false)

/-- a migration is active on the open-closed interval `(start, end]`, i.e. at `t` with
`start > t ≥ end` -/
def activeAt (m : Migration) (t : Q) : Bool :=
  decide (ETime.fin t < m.startTime) && decide (m.endTime ≤ t)

/-- two migrations never active at a common time -/
def disjoint (a b : Migration) : Bool :=
  !(decide (ETime.fin b.endTime < a.startTime) && decide (ETime.fin a.endTime < b.startTime))

def pairwiseB {α} (r : α → α → Bool) : List α → Bool
  | [] => true
  | x :: xs => xs.all (r x) && pairwiseB r xs

/-- V9: at most one migration per ordered pair of demes at any time -/
def v9 (g : Graph) : Bool :=
  pairwiseB (fun a b => !(a.source == b.source && a.dest == b.dest) || disjoint a b) g.migrations

def ingressAt (g : Graph) (dest : String) (t : Q) : Q :=
  qsumS ((g.migrations.filter (fun m => m.dest == dest && activeAt m t)).map (·.rate))

def ingressOk (x : Q) : Bool := decide (x ≤ 1) || closeTo1 x

def boundaries (g : Graph) : List Q :=
  0 :: (g.migrations.map (·.endTime)
        ++ g.migrations.filterMap (fun m => match m.startTime with | .fin q => some q | .inf => none))

/-- V10 (executable form): total ingress ≤ 1 at every boundary time; the activity pattern is
constant between boundaries, see `Theorems/C01` for the `∀ t` form -/
def v10 (g : Graph) : Bool :=
  (boundaries g).all (fun t => g.demes.all (fun d => ingressOk (ingressAt g d.name t)))

/-- V11: pulses have distinct existing sources different from the existing destination, a
positive finite time inside every source/destination coexistence interval, not at the
destination's end nor at a source's start, proportions in (0,1] summing to at most one -/
def v11 (g : Graph) : Bool :=
  g.pulses.all (fun p =>
    !p.sources.isEmpty && decide (p.sources.Nodup) && !p.sources.contains p.dest
    && p.sources.length == p.proportions.length
    && p.proportions.all (fun x => decide (0 < x) && decide (x ≤ 1))
    && decide (qsumS p.proportions ≤ 1)
    && decide (0 < p.time)
    && match findDeme g p.dest with
       | none => false
       | some d =>
         p.time != d.endTime &&
         p.sources.all (fun s =>
           match findDeme g s with
           | none => false
           | some sd =>
             let (lo, hi) := coexist sd d
             decide (lo ≤ p.time) && decide (ETime.fin p.time ≤ hi) && (ETime.fin p.time != sd.startTime)))

/-- V12: pulses are listed oldest first -/
def v12 (g : Graph) : Bool := pairwiseB (fun a b => decide (b.time ≤ a.time)) g.pulses

/-- V13/V14: header -/
def v13 (g : Graph) : Bool :=
  !g.timeUnits.isEmpty && decide (0 < g.generationTime)
    && (g.timeUnits != "generations" || g.generationTime == 1)
    && g.doi.all (fun s => !s.isEmpty)

def clauses : List (String × (Graph → Bool)) :=
  [("V0", v0), ("V1", v1), ("V2", v2), ("V3", v3), ("V4", v4), ("V5", v5), ("V6", v6),
   ("V8", v8), ("V9", v9), ("V10", v10), ("V11", v11), ("V12", v12), ("V13", v13)]

/-- the data-model clauses, without the (Python-object) name index -/
def validData (g : Graph) : Bool :=
  v1 g && v2 g && v3 g && v4 g && v5 g && v6 g && v8 g && v9 g && v10 g && v11 g && v12 g && v13 g

def validGraph (g : Graph) : Bool := v0 g && validData g

def failing (g : Graph) : List String :=
  clauses.filterMap (fun (n, f) => if f g then none else some n)

end Demes.Spec
