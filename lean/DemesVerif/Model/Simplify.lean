/-
  `Graph.asdict_simplified()` (demes/demes.py): `asdict(keep_empty_fields=False)` followed by
  `simplify_migration_rates` and `simplify_epochs`, including the search for symmetric groups
  (`itertools.combinations` order, the `while i >= 2` loop).
-/
import DemesVerif.Model.Dict
namespace Demes

/-- an asymmetric migration dict after the implied bounds were deleted -/
structure AMig where
  source : String
  dest : String
  start : Option ETime
  stop : Option Q
  rate : Q
  deriving DecidableEq, Repr

/-- a symmetric migration dict -/
structure SMig where
  demes : List String
  rate : Q
  start : Option ETime
  stop : Option Q
  deriving DecidableEq, Repr

abbrev RateKey := Q × Option ETime × Option Q

/-- `itertools.combinations(xs, k)` -/
def combinations {α} : List α → Nat → List (List α)
  | _, 0 => [[]]
  | [], _ + 1 => []
  | x :: xs, k + 1 => (combinations xs k).map (x :: ·) ++ combinations xs (k + 1)

/-- ordered pairs of distinct positions, `itertools.permutations(xs, 2)` -/
def perms2 (xs : List String) : List (String × String) :=
  (xs.zipIdx).flatMap (fun (a, i) =>
    (xs.zipIdx).filterMap (fun (b, j) => if i ≠ j then some (a, b) else none))

/-- `collapse_demes(pairs)`: names in order of first appearance -/
def collapseDemes (pairs : List (String × String)) : List String :=
  pairs.foldl (fun acc p =>
    let acc := if acc.contains p.1 then acc else acc ++ [p.1]
    if acc.contains p.2 then acc else acc ++ [p.2]) []

/-- step 1 of `simplify_migration_rates`: delete the bounds implied by the two demes -/
def stripBounds (g : Graph) (m : Migration) : AMig :=
  let s := g.deme? m.source
  let d := g.deme? m.dest
  let hi : Option ETime := match s, d with
    | some s, some d => some (ETime.min s.startTime d.startTime)
    | _, _ => none
  let lo : Option Q := match s, d with
    | some s, some d => some (qmax s.endTime d.endTime)
    | _, _ => none
  { source := m.source, dest := m.dest,
    start := if hi = some m.startTime then none else some m.startTime,
    stop := if lo = some m.endTime then none else some m.endTime,
    rate := m.rate }

def AMig.key (a : AMig) : RateKey := (a.rate, a.start, a.stop)

/-- `rate_sets`: insertion-ordered map from key to the list of (source, dest) pairs -/
def rateSets (ams : List AMig) : List (RateKey × List (String × String)) :=
  ams.foldl (fun acc a =>
    if acc.any (fun kv => kv.1 = a.key) then
      acc.map (fun kv => if kv.1 = a.key then (kv.1, kv.2 ++ [(a.source, a.dest)]) else kv)
    else acc ++ [(a.key, [(a.source, a.dest)])]) []

structure SearchState where
  symmetric : List SMig
  asymmetric : List AMig
  pairs : List (String × String)

/-- one pass of `for deme_set in itertools.combinations(all_demes, i)` -/
def tryCombinations (k : RateKey) (sets : List (List String)) (st : SearchState) : SearchState × Bool :=
  sets.foldl (fun (acc : SearchState × Bool) demeSet =>
    let (st, compressed) := acc
    let ps := perms2 demeSet
    if ps.all (fun p => st.pairs.contains p) then
      let st' := ps.foldl (fun (s : SearchState) p =>
        { s with
          asymmetric := s.asymmetric.erase { source := p.1, dest := p.2, start := k.2.1, stop := k.2.2, rate := k.1 }
          pairs := s.pairs.erase p }) st
      ({ st' with symmetric := st'.symmetric ++ [{ demes := demeSet, rate := k.1, start := k.2.1, stop := k.2.2 }] }, true)
    else (st, compressed)) (st, false)

/-- the `while len(all_demes) >= 2 and i >= 2` loop; `fuel` bounds the number of iterations
(each one removes pairs or decrements `i`) -/
def searchLoop (k : RateKey) : Nat → List String → Nat → SearchState → SearchState
  | 0, _, _, st => st
  | fuel + 1, allDemes, i, st =>
    if allDemes.length ≥ 2 ∧ i ≥ 2 then
      let (st', compressed) := tryCombinations k (combinations allDemes i) st
      if compressed then
        let allDemes' := collapseDemes st'.pairs
        searchLoop k fuel allDemes' (Nat.min i allDemes'.length) st'
      else searchLoop k fuel allDemes (i - 1) st'
    else st

/-- `simplify_migration_rates` -/
def simplifyMigrations (g : Graph) : List SMig × List AMig :=
  let ams := g.migrations.map (stripBounds g)
  let (sym, asym) := (rateSets ams).foldl (fun (acc : List SMig × List AMig) kv =>
    let (k, pairs) := kv
    if pairs.length = 1 then acc
    else
      let allDemes := collapseDemes pairs
      let st := searchLoop k (pairs.length + allDemes.length + 2) allDemes allDemes.length
        { symmetric := acc.1, asymmetric := acc.2, pairs := pairs }
      (st.symmetric, st.asymmetric)) ([], ams)
  (sym, asym)

def optField {α} (k : String) (o : Option α) (f : α → Value) : List (String × Value) :=
  match o with
  | some a => [(k, f a)]
  | none => []

def SMig.asdict (m : SMig) : Value :=
  .obj ([("demes", strsV m.demes), ("rate", numV m.rate)]
        ++ optField "start_time" m.start timeV ++ optField "end_time" m.stop numV)

def AMig.asdict (m : AMig) : Value :=
  .obj ([("source", .str m.source), ("dest", .str m.dest)]
        ++ optField "start_time" m.start timeV ++ optField "end_time" m.stop numV
        ++ [("rate", numV m.rate)])

/-- `simplify_epochs`, epoch part -/
def Epoch.simplified (e : Epoch) : Value :=
  let inferred := if e.startSize = e.endSize then "constant" else "exponential"
  .obj ([("end_time", numV e.endTime), ("start_size", numV e.startSize)]
        ++ (if e.startSize = e.endSize then [] else [("end_size", numV e.endSize)])
        ++ (if e.sizeFunction = inferred then [] else [("size_function", .str e.sizeFunction)])
        ++ (if e.selfingRate = 0 then [] else [("selfing_rate", numV e.selfingRate)])
        ++ (if e.cloningRate = 0 then [] else [("cloning_rate", numV e.cloningRate)]))

/-- `simplify_epochs`, deme part (on the dict produced with `keep_empty_fields=False`) -/
def Deme.simplified (g : Graph) (d : Deme) : Value :=
  let singleAnc := d.ancestors.length = 1
  let dropStart : Bool :=
    d.startTime.isInf ||
    (singleAnc && match d.ancestors.head? with
      | some a => (match g.deme? a with
          | some anc => decide (ETime.fin anc.endTime = d.startTime)
          | none => false)
      | none => false)
  let dropProps : Bool := d.proportions.isEmpty || (singleAnc && d.proportions == [1])
  .obj ([("name", .str d.name)]
        ++ (if d.description.isEmpty then [] else [("description", .str d.description)])
        ++ (if dropStart then [] else [("start_time", timeV d.startTime)])
        ++ (if d.ancestors.isEmpty then [] else [("ancestors", strsV d.ancestors)])
        ++ (if dropProps then [] else [("proportions", numsV d.proportions)])
        ++ [("epochs", .list (d.epochs.map Epoch.simplified))])

/-- `Graph.asdict_simplified()` -/
def Graph.asdictSimplified (g : Graph) : Value :=
  let (sym, asym) := simplifyMigrations g
  let migs : List Value := sym.map SMig.asdict ++ asym.map AMig.asdict
  .obj ((if g.description.isEmpty then [] else [("description", .str g.description)])
        ++ [("time_units", .str g.timeUnits), ("generation_time", numV g.generationTime)]
        ++ (if g.doi.isEmpty then [] else [("doi", strsV g.doi)])
        ++ (if g.metadata.isEmpty then [] else [("metadata", .obj (coerceO g.metadata))])
        ++ [("demes", .list (g.demes.map (Deme.simplified g)))]
        ++ (if g.migrations.isEmpty then [] else [("migrations", .list migs)])
        ++ (if g.pulses.isEmpty then [] else [("pulses", .list (g.pulses.map Pulse.asdict))]))

end Demes
