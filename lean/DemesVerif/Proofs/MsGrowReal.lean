/-
  C09 with exponential epochs — the precision clause, in real numbers.

  `regrow gv N0 gs` (Spec/C09.lean) is the demography of a graph with every growth rate `G` replaced by the
  value `gv G` the ms parser reads off the printed decimal string.  Here the symbolic sizes `coef·exp(expo)`
  and growth rates `-ln(r)/dt` are read in ℝ, and the size of a regrown population at a time `t` is shown to
  be within the factor `exp(±ε·Δ)` of the graph's own size there, `ε` the accuracy of the printer and `Δ` the
  time (ms units) since the population's recent end — or since the last time the graph's size jumps.
-/
import DemesVerif.Proofs.MsRTCompose
import DemesVerif.Proofs.RealBridge
import Mathlib.Analysis.SpecialFunctions.Log.Basic
import Mathlib.Tactic.Linarith
import Mathlib.Tactic.Ring
import Mathlib.Tactic.FieldSimp
namespace Demes.Proofs.MsGrow
open Demes Demes.Ms Demes.Spec Demes.Spec.C09
open Demes.Spec.MsSem (Seg PopSem DemogSem mkSeg)
open Demes.Spec.C08 (segRate segValue segOwns)
open Demes.Proofs.MsRT (Tiles tiles_owner)
open Demes.Proofs.FromMs (segOwns_iff)

/-! ## the real readings -/

/-- the real number a symbolic size stands for -/
noncomputable def szReal (s : Sz) : ℝ := (s.coef : ℝ) * Real.exp (s.expo : ℝ)

/-- the real number a symbolic growth rate of `to_ms` stands for (ms units) -/
noncomputable def growthReal : Growth → ℝ
  | .zero => 0
  | .sym r dt => - Real.log (r : ℝ) / (dt : ℝ)

/-- the size at time `t` (in ℝ) of a graph segment: exponential interpolation from the size at its recent
end `t0` at the segment's own growth rate -/
noncomputable def segReal (N0 : Q) (s : Seg) (t : Q) : ℝ :=
  szReal s.size *
    Real.exp (-(growthReal ((C07.segGrowth N0 s).getD .zero) / (4 * (N0 : ℝ))) * ((t : ℝ) - (s.t0 : ℝ)))

/-- a well-formed segment of a graph population (what validity + ms-expressibility give): exact positive
end sizes `a` (recent end) and `b` (older end), a growth rate `to_ms` can compute, positive length, and a
constant size when it has no older end -/
structure SegOK (N0 : Q) (s : Seg) : Prop where
  ends : ∃ a b : Q, s.size = Sz.ofQ a ∧ 0 < a ∧ s.sizeOld = some (Sz.ofQ b) ∧ 0 < b ∧ (s.t1 = .inf → a = b)
  growth : ∃ G, C07.segGrowth N0 s = some G
  len : ETime.fin s.t0 < s.t1

theorem szReal_ofQ (q : Q) : szReal (Sz.ofQ q) = (q : ℝ) := by
  simp [szReal, Sz.ofQ]

theorem szReal_mulExp (s : Sz) (x : Q) : szReal (s.mulExp x) = szReal s * Real.exp (x : ℝ) := by
  unfold Sz.mulExp szReal
  split
  · next h => simp [h]
  · simp only [Rat.cast_add, Real.exp_add]; ring

/-- the growth rate of a well-formed segment, by cases -/
theorem segGrowth_cases {N0 : Q} {s : Seg} (h : SegOK N0 s) {a b : Q} (ha : s.size = Sz.ofQ a)
    (hb : s.sizeOld = some (Sz.ofQ b)) :
    (a = b ∧ C07.segGrowth N0 s = some .zero)
    ∨ (a ≠ b ∧ ∃ T, s.t1 = .fin T ∧ C07.segGrowth N0 s = some (.sym (b / a) ((T - s.t0) / (4 * N0)))) := by
  obtain ⟨G, hG⟩ := h.growth
  unfold C07.segGrowth at hG ⊢
  by_cases hfn : (decide (s.fn = "constant") || decide (s.fn = "exponential")) = true
  · rw [if_pos hfn] at hG ⊢
    rw [ha, hb] at hG ⊢
    simp only [C07.szQ, Sz.ofQ, Option.bind_some, if_true] at hG ⊢
    by_cases hab : a = b
    · left; exact ⟨hab, by rw [if_pos hab]⟩
    · right
      refine ⟨hab, ?_⟩
      rw [if_neg hab] at hG ⊢
      cases ht : s.t1 with
      | inf => rw [ht] at hG; cases hG
      | fin T => exact ⟨T, rfl, rfl⟩
  · rw [if_neg hfn] at hG; cases hG

/-! ## the interpolation of one segment -/

theorem segReal_t0 (N0 : Q) (s : Seg) : segReal N0 s s.t0 = szReal s.size := by
  simp [segReal]

/-- a segment with equal end sizes is constant -/
theorem segReal_const {N0 : Q} {s : Seg} (h : SegOK N0 s) {a b : Q} (ha : s.size = Sz.ofQ a)
    (hb : s.sizeOld = some (Sz.ofQ b)) (hab : a = b) (t : Q) : segReal N0 s t = (a : ℝ) := by
  rcases segGrowth_cases h ha hb with ⟨_, hG⟩ | ⟨hne, _⟩
  · simp [segReal, hG, growthReal, ha, szReal_ofQ]
  · exact absurd hab hne

/-- the growth rate per generation of a segment with different end sizes -/
theorem segRate_real {N0 : Q} (hN : N0 ≠ 0) {a b t0 T : Q} (hT : t0 < T) :
    growthReal (.sym (b / a) ((T - t0) / (4 * N0))) / (4 * (N0 : ℝ))
      = - Real.log ((b : ℝ) / (a : ℝ)) / ((T : ℝ) - (t0 : ℝ)) := by
  have hN' : (N0 : ℝ) ≠ 0 := by exact_mod_cast hN
  have hT' : (T : ℝ) - (t0 : ℝ) ≠ 0 := by
    have : (t0 : ℝ) < (T : ℝ) := by exact_mod_cast hT
    linarith
  simp only [growthReal, Rat.cast_div, Rat.cast_sub, Rat.cast_mul, Rat.cast_ofNat]
  field_simp

/-- a segment with different end sizes: `a · exp(ln(b/a) · (t - t0)/(T - t0))` -/
theorem segReal_exp {N0 : Q} (hN : N0 ≠ 0) {s : Seg} (h : SegOK N0 s) {a b : Q} (ha : s.size = Sz.ofQ a)
    (hb : s.sizeOld = some (Sz.ofQ b)) (hab : a ≠ b) {T : Q} (hT : s.t1 = .fin T) (t : Q) :
    segReal N0 s t = (a : ℝ) * Real.exp (Real.log ((b : ℝ) / (a : ℝ)) * (((t : ℝ) - (s.t0 : ℝ)) / ((T : ℝ) - (s.t0 : ℝ)))) := by
  have hlen : s.t0 < T := by have := h.len; rw [hT] at this; exact this
  rcases segGrowth_cases h ha hb with ⟨he, _⟩ | ⟨_, T', hT', hG⟩
  · exact absurd he hab
  · rw [hT] at hT'; cases hT'
    unfold segReal
    rw [hG, Option.getD_some, segRate_real hN hlen, ha, szReal_ofQ]
    congr 2
    ring

/-- the interpolation reaches the size at the older end -/
theorem segReal_t1 {N0 : Q} (hN : N0 ≠ 0) {s : Seg} (h : SegOK N0 s) {a b : Q} (ha : s.size = Sz.ofQ a)
    (hb : s.sizeOld = some (Sz.ofQ b)) (hapos : 0 < a) (hbpos : 0 < b) {T : Q} (hT : s.t1 = .fin T) :
    segReal N0 s T = (b : ℝ) := by
  by_cases hab : a = b
  · rw [segReal_const h ha hb hab, hab]
  · have hlen : s.t0 < T := by have := h.len; rw [hT] at this; exact this
    have hT' : (T : ℝ) - (s.t0 : ℝ) ≠ 0 := by
      have : (s.t0 : ℝ) < (T : ℝ) := by exact_mod_cast hlen
      linarith
    have ha' : (0 : ℝ) < (a : ℝ) := by exact_mod_cast hapos
    have hb' : (0 : ℝ) < (b : ℝ) := by exact_mod_cast hbpos
    rw [segReal_exp hN h ha hb hab hT, div_self hT', mul_one, Real.exp_log (div_pos hb' ha')]
    field_simp

/-- `segReal_t1` in terms of the segment's own fields -/
theorem segReal_t1' {N0 : Q} (hN : N0 ≠ 0) {s : Seg} (h : SegOK N0 s) {T : Q} (hT : s.t1 = .fin T) :
    ∃ o, s.sizeOld = some o ∧ segReal N0 s T = szReal o := by
  obtain ⟨a, b, ha, hapos, hb, hbpos, _⟩ := h.ends
  exact ⟨_, hb, by rw [segReal_t1 hN h ha hb hapos hbpos hT, szReal_ofQ]⟩

theorem szReal_pos {N0 : Q} {s : Seg} (h : SegOK N0 s) : 0 < szReal s.size := by
  obtain ⟨a, b, ha, hapos, _⟩ := h.ends
  rw [ha, szReal_ofQ]; exact_mod_cast hapos

theorem segReal_pos {N0 : Q} {s : Seg} (h : SegOK N0 s) (t : Q) : 0 < segReal N0 s t :=
  mul_pos (szReal_pos h) (Real.exp_pos _)

/-! ## one step of the comparison, in ℝ -/

/-- a size within `exp(±k·d0)` of `a0`, grown over `u ≥ 0` at a rate within `k` of `γ`, is within
`exp(±k·(d0 + u))` of `a0` grown at the rate `γ` -/
theorem step_bounds {a0 c k rate γ u d0 : ℝ} (ha0 : 0 ≤ a0) (hu : 0 ≤ u)
    (h1 : a0 * Real.exp (-k * d0) ≤ c) (h2 : c ≤ a0 * Real.exp (k * d0)) (hr : |rate - γ| ≤ k) :
    a0 * Real.exp (-γ * u) * Real.exp (-k * (d0 + u)) ≤ c * Real.exp (-rate * u)
    ∧ c * Real.exp (-rate * u) ≤ a0 * Real.exp (-γ * u) * Real.exp (k * (d0 + u)) := by
  obtain ⟨hr1, hr2⟩ := abs_le.1 hr
  have e : Real.exp (-rate * u) = Real.exp (-γ * u) * Real.exp (-(rate - γ) * u) := by
    rw [← Real.exp_add]; congr 1; ring
  have l1 : Real.exp (-k * u) ≤ Real.exp (-(rate - γ) * u) :=
    Real.exp_le_exp.2 (mul_le_mul_of_nonneg_right (by linarith) hu)
  have l2 : Real.exp (-(rate - γ) * u) ≤ Real.exp (k * u) :=
    Real.exp_le_exp.2 (mul_le_mul_of_nonneg_right (by linarith) hu)
  have hE : 0 ≤ Real.exp (-γ * u) := (Real.exp_pos _).le
  have hc : 0 ≤ c := le_trans (mul_nonneg ha0 (Real.exp_pos _).le) h1
  constructor
  · calc a0 * Real.exp (-γ * u) * Real.exp (-k * (d0 + u))
        = (a0 * Real.exp (-k * d0)) * Real.exp (-γ * u) * Real.exp (-k * u) := by
          rw [show -k * (d0 + u) = -k * d0 + -k * u by ring, Real.exp_add]; ring
      _ ≤ c * Real.exp (-γ * u) * Real.exp (-(rate - γ) * u) :=
          mul_le_mul (mul_le_mul_of_nonneg_right h1 hE) l1 (Real.exp_pos _).le (mul_nonneg hc hE)
      _ = c * Real.exp (-rate * u) := by rw [e]; ring
  · calc c * Real.exp (-rate * u) = c * Real.exp (-γ * u) * Real.exp (-(rate - γ) * u) := by rw [e]; ring
      _ ≤ (a0 * Real.exp (k * d0)) * Real.exp (-γ * u) * Real.exp (k * u) :=
          mul_le_mul (mul_le_mul_of_nonneg_right h2 hE) l2 (Real.exp_pos _).le
            (mul_nonneg (mul_nonneg ha0 (Real.exp_pos _).le) hE)
      _ = a0 * Real.exp (-γ * u) * Real.exp (k * (d0 + u)) := by
          rw [show k * (d0 + u) = k * d0 + k * u by ring, Real.exp_add]; ring

/-- the real value of the rate that comes back for a segment -/
theorem segRateV_real (gv : Growth → Q) {N0 : Q} {s : Seg} {G : Growth} (hG : C07.segGrowth N0 s = some G) :
    ((segRateV gv N0 s : Q) : ℝ) = ((gv G : Q) : ℝ) / (4 * (N0 : ℝ)) := by
  unfold segRateV
  rw [hG]
  simp

/-- **one segment**: a size `c` within `exp(±k·(t0 - A))` of the segment's own size at its recent end,
grown at the rate that comes back, is at `t ≥ t0` within `exp(±k·(t - A))` of the segment's size at `t` -/
theorem seg_step {gv : Growth → Q} {N0 : Q} (hN : 0 < N0) {ε : ℝ} {s : Seg} (h : SegOK N0 s)
    (hacc : ∀ G, C07.segGrowth N0 s = some G → |((gv G : Q) : ℝ) - growthReal G| ≤ ε)
    {c : Sz} {A t : Q} (ht : s.t0 ≤ t)
    (h1 : szReal s.size * Real.exp (-(ε / (4 * (N0 : ℝ))) * ((s.t0 : ℝ) - (A : ℝ))) ≤ szReal c)
    (h2 : szReal c ≤ szReal s.size * Real.exp ((ε / (4 * (N0 : ℝ))) * ((s.t0 : ℝ) - (A : ℝ)))) :
    segReal N0 s t * Real.exp (-(ε / (4 * (N0 : ℝ))) * ((t : ℝ) - (A : ℝ)))
        ≤ szReal c * Real.exp (-((segRateV gv N0 s : Q) : ℝ) * ((t : ℝ) - (s.t0 : ℝ)))
    ∧ szReal c * Real.exp (-((segRateV gv N0 s : Q) : ℝ) * ((t : ℝ) - (s.t0 : ℝ)))
        ≤ segReal N0 s t * Real.exp ((ε / (4 * (N0 : ℝ))) * ((t : ℝ) - (A : ℝ))) := by
  obtain ⟨G, hG⟩ := h.growth
  have hN' : (0 : ℝ) < 4 * (N0 : ℝ) := by
    have : (0 : ℝ) < (N0 : ℝ) := by exact_mod_cast hN
    linarith
  have hu : (0 : ℝ) ≤ (t : ℝ) - (s.t0 : ℝ) := by
    have : (s.t0 : ℝ) ≤ (t : ℝ) := by exact_mod_cast ht
    linarith
  have hr : |((segRateV gv N0 s : Q) : ℝ) - growthReal G / (4 * (N0 : ℝ))| ≤ ε / (4 * (N0 : ℝ)) := by
    rw [segRateV_real gv hG, ← sub_div, abs_div, abs_of_pos hN']
    exact div_le_div_of_nonneg_right (hacc G hG) hN'.le
  have := step_bounds (szReal_pos h).le hu h1 h2 hr
  unfold segReal
  rw [hG, Option.getD_some]
  rw [show (s.t0 : ℝ) - (A : ℝ) + ((t : ℝ) - (s.t0 : ℝ)) = (t : ℝ) - (A : ℝ) by ring] at this
  exact this

/-! ## along the segments of a population -/

/-- the recent end of the maximal run of segments, ending with the owner of `t`, along which the graph's
size is continuous (`prev.sizeOld = some next.size`): `A` is the start of the run so far, `prevOld` the size at
the older end of the segment before -/
def runStartSegs : Q → Option Sz → List Seg → Q → Q
  | A, _, [], _ => A
  | A, prevOld, s :: ss, t =>
    let A' := if prevOld = some s.size then A else s.t0
    if segOwns s t then A' else runStartSegs A' s.sizeOld ss t

/-- the time since which the size of the regrown population `p` has not been reset, seen from `t` -/
def runStart (p : PopSem) (t : Q) : Q := runStartSegs p.lo none p.segs t

theorem runStartSegs_ge : ∀ {segs : List Seg} {lo : Q} {hi : ETime} (A : Q) (prevOld : Option Sz) (t : Q),
    Tiles lo segs hi → A ≤ lo → A ≤ runStartSegs A prevOld segs t
  | [], _, _, A, _, _, _, _ => Rat.le_refl
  | s :: ss, lo, hi, A, prevOld, t, h, hA => by
    obtain ⟨h1, h3, h4⟩ := h
    have hA' : A ≤ (if prevOld = some s.size then A else s.t0) := by
      split
      · exact Rat.le_refl
      · rw [h1]; exact hA
    unfold runStartSegs
    simp only []
    split
    · exact hA'
    · cases hb : s.t1 with
      | inf =>
        rw [hb] at h4; rw [h4.1]
        exact hA'
      | fin b =>
        rw [hb] at h4 h3
        have hlt : lo < b := h3
        refine Rat.le_trans hA' (runStartSegs_ge _ _ t h4 ?_)
        split
        · exact Rat.le_trans hA (Rat.le_of_lt hlt)
        · rw [h1]; exact Rat.le_of_lt hlt

/-- the bounds carried along `regrowSegs` -/
def Within (k : ℝ) (A lo : Q) (o c : Sz) : Prop :=
  szReal o * Real.exp (-k * ((lo : ℝ) - (A : ℝ))) ≤ szReal c ∧ szReal c ≤ szReal o * Real.exp (k * ((lo : ℝ) - (A : ℝ)))

theorem within_self {k : ℝ} (lo : Q) (o : Sz) : Within k lo lo o o := by
  simp [Within]

/-- the size at the recent end of a regrown segment: carried over where the graph's size is continuous -/
def carried (prev : Option (Sz × Sz)) (s : Seg) : Sz :=
  match prev with
  | some (origOld, cur) => if origOld = s.size then cur else s.size
  | none => s.size

/-- the regrown segment -/
def regrowHead (gv : Growth → Q) (N0 : Q) (prev : Option (Sz × Sz)) (s : Seg) : Seg :=
  { mkSeg s.t0 s.t1 (carried prev s) (segRateV gv N0 s) with fn := s.fn }

theorem regrowSegs_consR (gv : Growth → Q) (N0 : Q) (prev : Option (Sz × Sz)) (s : Seg) (ss : List Seg) :
    regrowSegs gv N0 prev (s :: ss) = regrowHead gv N0 prev s ::
      regrowSegs gv N0 (match s.sizeOld, (regrowHead gv N0 prev s).sizeOld with
        | some o, some o' => some (o, o') | _, _ => none) ss := rfl

theorem regrowHead_old (gv : Growth → Q) (N0 : Q) (prev : Option (Sz × Sz)) (s : Seg) {b : Q} (hb : s.t1 = .fin b) :
    (regrowHead gv N0 prev s).sizeOld = some ((carried prev s).mulExp (-(segRateV gv N0 s) * (b - s.t0))) := by
  simp only [regrowHead, mkSeg, hb]

theorem carried_within {k : ℝ} {prev : Option (Sz × Sz)} {A : Q} {s : Seg} (hA : A ≤ s.t0)
    (hprev : ∀ o c, prev = some (o, c) → Within k A s.t0 o c) :
    (if prev.map (·.1) = some s.size then A else s.t0) ≤ s.t0
    ∧ Within k (if prev.map (·.1) = some s.size then A else s.t0) s.t0 s.size (carried prev s) := by
  cases prev with
  | none => exact ⟨by simp, by simpa [carried] using within_self s.t0 s.size⟩
  | some oc =>
    obtain ⟨o, c⟩ := oc
    by_cases hoc : o = s.size
    · have := hprev o c rfl
      simp only [Option.map_some, hoc, if_true, carried]
      exact ⟨hA, by rw [← hoc]; exact this⟩
    · have hne : ¬ (some o = some s.size) := fun h => hoc (Option.some.inj h)
      simp only [Option.map_some, hne, hoc, if_false, carried]
      exact ⟨Rat.le_refl, within_self _ _⟩

/-- **along the segments**: the regrown counterpart of the segment that owns `t` has the same end points,
the rate that comes back, and a size at its recent end within `exp(±k·(t0 - B))` of the original, `B` the
start of the run of continuous segments -/
theorem regrowSegs_owner {gv : Growth → Q} {N0 : Q} (hN : 0 < N0) {ε : ℝ} :
    ∀ (segs : List Seg) (lo : Q) (hi : ETime) (prev : Option (Sz × Sz)) (A t : Q),
      Tiles lo segs hi → (∀ s ∈ segs, SegOK N0 s) →
      (∀ s ∈ segs, ∀ G, C07.segGrowth N0 s = some G → |((gv G : Q) : ℝ) - growthReal G| ≤ ε) →
      A ≤ lo → lo ≤ t → ETime.fin t < hi →
      (∀ o c, prev = some (o, c) → Within (ε / (4 * (N0 : ℝ))) A lo o c) →
      ∃ s ∈ segs, ∃ s' ∈ regrowSegs gv N0 prev segs, segOwns s t = true ∧ s'.t0 = s.t0 ∧ s'.t1 = s.t1
        ∧ s'.growth = some (segRateV gv N0 s)
        ∧ runStartSegs A (prev.map (·.1)) segs t ≤ s.t0
        ∧ Within (ε / (4 * (N0 : ℝ))) (runStartSegs A (prev.map (·.1)) segs t) s.t0 s.size s'.size
  | [], lo, hi, _, _, t, h, _, _, _, h1, h2, _ => by
    have h' : hi = .fin lo := h
    rw [h'] at h2
    have : t < lo := h2
    exact absurd h1 (Rat.not_le.2 this)
  | s :: ss, lo, hi, prev, A, t, h, hok, hacc, hA, hlo, hhi, hprev => by
    obtain ⟨h1, h3, h4⟩ := h
    have hs := hok s List.mem_cons_self
    subst h1
    obtain ⟨hA', hw⟩ := carried_within hA hprev
    generalize hrs : (if prev.map (·.1) = some s.size then A else s.t0) = A' at hA' hw
    rw [regrowSegs_consR]
    by_cases hown : ETime.fin t < s.t1
    · have ho : segOwns s t = true := (segOwns_iff s t).mpr ⟨hlo, hown⟩
      have hrun : runStartSegs A (prev.map (·.1)) (s :: ss) t = A' := by
        rw [runStartSegs]; simp only [hrs, ho, if_true]
      rw [hrun]
      exact ⟨s, List.mem_cons_self, _, List.mem_cons_self, ho, rfl, rfl, rfl, hA', hw⟩
    · have ho : segOwns s t = false := by
        cases hso : segOwns s t with
        | false => rfl
        | true => exact absurd ((segOwns_iff s t).mp hso).2 hown
      have hrun : runStartSegs A (prev.map (·.1)) (s :: ss) t = runStartSegs A' s.sizeOld ss t := by
        rw [runStartSegs]; simp only [hrs, ho]; rfl
      rw [hrun]
      cases hb : s.t1 with
      | inf => rw [hb] at hown; exact absurd (show ETime.fin t < ETime.inf from trivial) hown
      | fin b =>
        rw [hb] at h4 h3 hown
        have hlt : s.t0 < b := h3
        have hbt : b ≤ t := Rat.not_lt.1 hown
        obtain ⟨a', b', ha', hapos, hb', hbpos, _⟩ := hs.ends
        -- the state handed to the next segment
        rw [regrowHead_old gv N0 prev s hb, hb']
        have hnext : ∀ o c, (some (Sz.ofQ b', (carried prev s).mulExp (-(segRateV gv N0 s) * (b - s.t0))) : Option (Sz × Sz)) = some (o, c) →
            Within (ε / (4 * (N0 : ℝ))) A' b o c := by
          intro o c hoc
          cases hoc
          have hst := seg_step (gv := gv) hN hs (hacc s List.mem_cons_self) (A := A') (t := b)
            (Rat.le_of_lt hlt) hw.1 hw.2
          have hN0 : N0 ≠ 0 := fun h0 => by rw [h0] at hN; exact absurd hN (by decide)
          rw [segReal_t1 hN0 hs ha' hb' hapos hbpos hb] at hst
          unfold Within
          rw [szReal_mulExp, szReal_ofQ]
          simpa only [Rat.cast_mul, Rat.cast_neg, Rat.cast_sub] using hst
        obtain ⟨s1, hs1, s1', hs1', r⟩ := regrowSegs_owner hN ss b hi _ A' t h4
          (fun x hx => hok x (List.mem_cons_of_mem _ hx)) (fun x hx => hacc x (List.mem_cons_of_mem _ hx))
          (Rat.le_trans hA' (Rat.le_of_lt hlt)) hbt hhi hnext
        refine ⟨s1, List.mem_cons_of_mem _ hs1, s1', List.mem_cons_of_mem _ hs1', ?_⟩
        simpa only [Option.map_some, hb'] using r

/-! ## the population -/

theorem regrowSegs_tiles (gv : Growth → Q) (N0 : Q) : ∀ {segs : List Seg} {lo : Q} {hi : ETime} (prev : Option (Sz × Sz)),
    Tiles lo segs hi → Tiles lo (regrowSegs gv N0 prev segs) hi
  | [], _, _, _, h => h
  | s :: ss, lo, hi, prev, h => by
    obtain ⟨h1, h3, h4⟩ := h
    rw [regrowSegs_consR]
    refine ⟨h1, h3, ?_⟩
    show (match s.t1 with
       | .fin b => Tiles b (regrowSegs gv N0 _ ss) hi
       | .inf => regrowSegs gv N0 _ ss = [] ∧ hi = .inf)
    cases hb : s.t1 with
    | inf => rw [hb] at h4; rw [h4.1]; exact ⟨rfl, h4.2⟩
    | fin b => rw [hb] at h4; exact regrowSegs_tiles gv N0 _ h4

/-- the value at `t ≥ t0` of a segment with an explicit growth rate, in ℝ -/
theorem segValue_real {s : Seg} {g : Q} (hg : s.growth = some g) (t : Q) :
    ∃ z, segValue s t = some z ∧ szReal z = szReal s.size * Real.exp (-(g : ℝ) * ((t : ℝ) - (s.t0 : ℝ))) := by
  unfold segValue
  by_cases ht : t = s.t0
  · rw [if_pos ht]
    exact ⟨_, rfl, by rw [ht]; simp⟩
  · rw [if_neg ht]
    have : segRate s = some g := by unfold segRate; rw [hg]
    rw [this]
    exact ⟨_, rfl, by rw [szReal_mulExp]; simp only [Rat.cast_mul, Rat.cast_neg, Rat.cast_sub]⟩

/-- **the precision clause, with the anchor**: at every time `t` of its lifetime the regrown population
has a size, within the factor `exp(±(ε/4N0)·(t - B))` of the size of the graph's population there, `B` the
recent end of the run of segments up to the owner of `t` along which the graph's size is continuous -/
theorem regrow_real_close_anchor {gv : Growth → Q} {N0 : Q} (hN : 0 < N0) {ε : ℝ} (p : PopSem)
    (htiles : Tiles p.lo p.segs p.hi) (hok : ∀ s ∈ p.segs, SegOK N0 s)
    (hacc : ∀ s ∈ p.segs, ∀ G, C07.segGrowth N0 s = some G → |((gv G : Q) : ℝ) - growthReal G| ≤ ε)
    (t : Q) (hlo : p.lo ≤ t) (hhi : ETime.fin t < p.hi) :
    ∃ s ∈ p.segs, segOwns s t = true ∧ ∃ z, C09.sizeAt (regrowPop gv N0 p) t = some z
      ∧ p.lo ≤ runStart p t ∧ runStart p t ≤ t
      ∧ segReal N0 s t * Real.exp (-(ε / (4 * (N0 : ℝ))) * ((t : ℝ) - (runStart p t : ℝ))) ≤ szReal z
      ∧ szReal z ≤ segReal N0 s t * Real.exp ((ε / (4 * (N0 : ℝ))) * ((t : ℝ) - (runStart p t : ℝ))) := by
  obtain ⟨s, hs, s', hs', hown, ht0, ht1, hg, hB, hw⟩ :=
    regrowSegs_owner (gv := gv) hN p.segs p.lo p.hi none p.lo t htiles hok hacc Rat.le_refl hlo hhi
      (fun o c h => by cases h)
  have hown' := (segOwns_iff s t).mp hown
  -- the regrown segment is the owner of `t` in the regrown population
  obtain ⟨s'', hf, _⟩ := tiles_owner (regrowSegs_tiles gv N0 none htiles) hlo hhi
  have hmem : s' ∈ (regrowSegs gv N0 none p.segs).filter (segOwns · t) :=
    List.mem_filter.2 ⟨hs', (segOwns_iff s' t).mpr (by rw [ht0, ht1]; exact hown')⟩
  rw [hf, List.mem_singleton] at hmem
  subst hmem
  obtain ⟨z, hz, hzr⟩ := segValue_real hg t
  refine ⟨s, hs, hown, z, ?_, runStartSegs_ge _ _ t htiles Rat.le_refl, Rat.le_trans hB hown'.1, ?_⟩
  · unfold C09.sizeAt regrowPop
    simp only [hf]
    exact hz
  · rw [hzr, ht0]
    exact seg_step hN (hok s hs) (hacc s hs) hown'.1 hw.1 hw.2

/-- **the precision clause**: at every time `t` of its lifetime the regrown population has a size, within
the factor `exp(±(ε/4N0)·(t - lo))` of the size of the graph's population there -/
theorem regrow_real_close {gv : Growth → Q} {N0 : Q} (hN : 0 < N0) {ε : ℝ} (p : PopSem)
    (htiles : Tiles p.lo p.segs p.hi) (hok : ∀ s ∈ p.segs, SegOK N0 s)
    (hacc : ∀ s ∈ p.segs, ∀ G, C07.segGrowth N0 s = some G → |((gv G : Q) : ℝ) - growthReal G| ≤ ε)
    (t : Q) (hlo : p.lo ≤ t) (hhi : ETime.fin t < p.hi) :
    ∃ s ∈ p.segs, segOwns s t = true ∧ ∃ z, C09.sizeAt (regrowPop gv N0 p) t = some z
      ∧ segReal N0 s t * Real.exp (-(ε / (4 * (N0 : ℝ))) * ((t : ℝ) - (p.lo : ℝ))) ≤ szReal z
      ∧ szReal z ≤ segReal N0 s t * Real.exp ((ε / (4 * (N0 : ℝ))) * ((t : ℝ) - (p.lo : ℝ))) := by
  obtain ⟨s, hs, hown, z, hz, hB1, hB2, h1, h2⟩ := regrow_real_close_anchor hN p htiles hok hacc t hlo hhi
  refine ⟨s, hs, hown, z, hz, ?_, ?_⟩
  all_goals
    have hε : 0 ≤ ε := by
      obtain ⟨G, hG⟩ := (hok s hs).growth
      exact le_trans (abs_nonneg _) (hacc s hs G hG)
    have hk : 0 ≤ ε / (4 * (N0 : ℝ)) := by
      have : (0 : ℝ) < (N0 : ℝ) := by exact_mod_cast hN
      positivity
    have hB1' : (p.lo : ℝ) ≤ (runStart p t : ℝ) := by exact_mod_cast hB1
    have hpos := (segReal_pos (hok s hs) t).le
  · refine le_trans (mul_le_mul_of_nonneg_left (Real.exp_le_exp.2 ?_) hpos) h1
    nlinarith
  · refine le_trans h2 (mul_le_mul_of_nonneg_left (Real.exp_le_exp.2 ?_) hpos)
    nlinarith

/-- exact growth rates: the regrown population has exactly the graph's size -/
theorem regrow_real_exact {gv : Growth → Q} {N0 : Q} (hN : 0 < N0) (p : PopSem)
    (htiles : Tiles p.lo p.segs p.hi) (hok : ∀ s ∈ p.segs, SegOK N0 s)
    (hacc : ∀ s ∈ p.segs, ∀ G, C07.segGrowth N0 s = some G → ((gv G : Q) : ℝ) = growthReal G)
    (t : Q) (hlo : p.lo ≤ t) (hhi : ETime.fin t < p.hi) :
    ∃ s ∈ p.segs, segOwns s t = true ∧ ∃ z, C09.sizeAt (regrowPop gv N0 p) t = some z
      ∧ szReal z = segReal N0 s t := by
  obtain ⟨s, hs, hown, z, hz, h1, h2⟩ := regrow_real_close (gv := gv) (ε := 0) hN p htiles hok
    (fun s hs G hG => by rw [hacc s hs G hG]; simp) t hlo hhi
  refine ⟨s, hs, hown, z, hz, ?_⟩
  simp only [zero_div, neg_zero, zero_mul, Real.exp_zero, mul_one] at h1 h2
  exact le_antisymm h2 h1

/-- the relative error is at most `exp((ε/4N0)·(t - lo)) - 1` -/
theorem regrow_real_rel {gv : Growth → Q} {N0 : Q} (hN : 0 < N0) {ε : ℝ} (p : PopSem)
    (htiles : Tiles p.lo p.segs p.hi) (hok : ∀ s ∈ p.segs, SegOK N0 s)
    (hacc : ∀ s ∈ p.segs, ∀ G, C07.segGrowth N0 s = some G → |((gv G : Q) : ℝ) - growthReal G| ≤ ε)
    (t : Q) (hlo : p.lo ≤ t) (hhi : ETime.fin t < p.hi) :
    ∃ s ∈ p.segs, segOwns s t = true ∧ ∃ z, C09.sizeAt (regrowPop gv N0 p) t = some z
      ∧ |szReal z / segReal N0 s t - 1| ≤ Real.exp ((ε / (4 * (N0 : ℝ))) * ((t : ℝ) - (p.lo : ℝ))) - 1 := by
  obtain ⟨s, hs, hown, z, hz, h1, h2⟩ := regrow_real_close hN p htiles hok hacc t hlo hhi
  refine ⟨s, hs, hown, z, hz, ?_⟩
  have hpos := segReal_pos (hok s hs) t
  set x := (ε / (4 * (N0 : ℝ))) * ((t : ℝ) - (p.lo : ℝ)) with hx
  rw [show -(ε / (4 * (N0 : ℝ))) * ((t : ℝ) - (p.lo : ℝ)) = -x by rw [hx]; ring] at h1
  have l1 : Real.exp (-x) ≤ szReal z / segReal N0 s t := by
    rw [le_div_iff₀ hpos]; linarith
  have l2 : szReal z / segReal N0 s t ≤ Real.exp x := by
    rw [div_le_iff₀ hpos]; linarith
  -- `1 - exp(-x) ≤ exp(x) - 1`
  have l3 : 2 ≤ Real.exp x + Real.exp (-x) := by
    have h := Real.add_one_le_exp x
    have h' := Real.add_one_le_exp (-x)
    linarith
  rw [abs_le]
  constructor <;> linarith

/-- the decimal-printing instance: a printed value within `η` (`5·10⁻¹¹` for ten decimals) of a double
which is within `δ` of the rate is within `δ + η` of the rate -/
theorem eps_of_rounding {v x γ δ η : ℝ} (h1 : |v - x| ≤ η) (h2 : |x - γ| ≤ δ) : |v - γ| ≤ δ + η := by
  have := abs_sub_le v x γ
  linarith

/-! ## the Model's equality test on growth rates is sound -/

theorem cast_pos_rat {q : Q} (hq : 0 < q) :
    (q : ℝ) = ((q.num.natAbs : ℕ) : ℝ) / ((q.den : ℕ) : ℝ) ∧ (0 : ℝ) < ((q.num.natAbs : ℕ) : ℝ) ∧ (0 : ℝ) < ((q.den : ℕ) : ℝ) := by
  have hnum : 0 < q.num := Rat.num_pos.2 hq
  have hden : 0 < q.den := q.den_pos
  have hcast : ((q.num.natAbs : ℕ) : ℝ) = ((q.num : ℤ) : ℝ) := by
    rw [Nat.cast_natAbs, abs_of_pos hnum]
  refine ⟨?_, ?_, by exact_mod_cast hden⟩
  · rw [hcast]; exact Rat.cast_def q
  · rw [hcast]; exact_mod_cast hnum

/-- `Growth.eq` (`r^(m/g) = r'^(n/g)` on rationals) implies the equality of the real growth rates -/
theorem growthEq_real {r dt r' dt' : Q} (hr : 0 < r) (hr' : 0 < r') (hdt : 0 < dt) (hdt' : 0 < dt')
    (h : Growth.eq (.sym r dt) (.sym r' dt') = true) : growthReal (.sym r dt) = growthReal (.sym r' dt') := by
  obtain ⟨e1, p1, q1⟩ := cast_pos_rat hdt
  obtain ⟨e2, p2, q2⟩ := cast_pos_rat hdt'
  have hr0 : (0 : ℝ) < (r : ℝ) := by exact_mod_cast hr
  have hr0' : (0 : ℝ) < (r' : ℝ) := by exact_mod_cast hr'
  -- the exponents
  have hm : 0 < dt'.num.natAbs * dt.den := by
    have : (0 : ℝ) < ((dt'.num.natAbs * dt.den : ℕ) : ℝ) := by rw [Nat.cast_mul]; exact mul_pos p2 q1
    exact_mod_cast this
  have hg : 0 < Nat.gcd (dt'.num.natAbs * dt.den) (dt.num.natAbs * dt'.den) := Nat.gcd_pos_of_pos_left _ hm
  have hpow : r ^ (dt'.num.natAbs * dt.den / Nat.gcd (dt'.num.natAbs * dt.den) (dt.num.natAbs * dt'.den))
      = r' ^ (dt.num.natAbs * dt'.den / Nat.gcd (dt'.num.natAbs * dt.den) (dt.num.natAbs * dt'.den)) := by
    have h' : symEq r dt r' dt' = true := h
    unfold symEq at h'
    simp only [Nat.pos_iff_ne_zero.1 hg, if_false, beq_iff_eq] at h'
    exact h'
  generalize hgd : Nat.gcd (dt'.num.natAbs * dt.den) (dt.num.natAbs * dt'.den) = g at hpow hg
  have hlog : (((dt'.num.natAbs * dt.den / g : ℕ)) : ℝ) * Real.log (r : ℝ)
      = (((dt.num.natAbs * dt'.den / g : ℕ)) : ℝ) * Real.log (r' : ℝ) := by
    have : ((r ^ (dt'.num.natAbs * dt.den / g) : Q) : ℝ) = ((r' ^ (dt.num.natAbs * dt'.den / g) : Q) : ℝ) := by
      rw [hpow]
    rw [Rat.cast_pow, Rat.cast_pow] at this
    have := congrArg Real.log this
    rwa [Real.log_pow, Real.log_pow] at this
  have hmg : ((dt'.num.natAbs * dt.den : ℕ) : ℝ) = ((dt'.num.natAbs * dt.den / g : ℕ) : ℝ) * (g : ℝ) := by
    rw [← Nat.cast_mul, Nat.div_mul_cancel (hgd ▸ Nat.gcd_dvd_left _ _)]
  have hng : ((dt.num.natAbs * dt'.den : ℕ) : ℝ) = ((dt.num.natAbs * dt'.den / g : ℕ) : ℝ) * (g : ℝ) := by
    rw [← Nat.cast_mul, Nat.div_mul_cancel (hgd ▸ Nat.gcd_dvd_right _ _)]
  have hmn : ((dt'.num.natAbs : ℕ) : ℝ) * ((dt.den : ℕ) : ℝ) * Real.log (r : ℝ)
      = ((dt.num.natAbs : ℕ) : ℝ) * ((dt'.den : ℕ) : ℝ) * Real.log (r' : ℝ) := by
    rw [← Nat.cast_mul, ← Nat.cast_mul, hmg, hng]
    calc _ = (((dt'.num.natAbs * dt.den / g : ℕ)) : ℝ) * Real.log (r : ℝ) * (g : ℝ) := by ring
      _ = _ := by rw [hlog]; ring
  simp only [growthReal]
  rw [e1, e2]
  rw [div_div_eq_mul_div, div_div_eq_mul_div, div_eq_div_iff p1.ne' p2.ne']
  linarith

/-! ## the graph instance -/

theorem tiles_len : ∀ {segs : List Seg} {lo : Q} {hi : ETime}, Tiles lo segs hi → ∀ s ∈ segs, ETime.fin s.t0 < s.t1
  | [], _, _, _, _, hs => by cases hs
  | a :: r, lo, hi, h, s, hs => by
    obtain ⟨h1, h3, h4⟩ := h
    rcases List.mem_cons.1 hs with rfl | hs
    · rw [h1]; exact h3
    · cases hb : a.t1 with
      | inf => rw [hb] at h4; rw [h4.1] at hs; cases hs
      | fin b => rw [hb] at h4; exact tiles_len h4 s hs

/-- the segment of an epoch `to_ms` can translate is well formed -/
theorem segOK_segOf (N0 : Q) {e : Epoch} (he : ToMs.EpochOk e) (hlen : ETime.fin e.endTime < e.startTime) :
    SegOK N0 (ToMs.segOf e) where
  ends := ⟨e.endSize, e.startSize, rfl, he.endSize, rfl, he.startSize, fun h => (he.inf h).symm⟩
  growth := ⟨_, ToMs.segGrowth_segOf he⟩
  len := hlen

/-- **the graph instance**: the populations of the demography of a valid ms-expressible graph tile their
lifetimes by well-formed segments -/
theorem graph_segOK {g : Graph} (hv : validGraph g = true) (hx : C07.MsExpressible g = true) (N0 : Q)
    {gs : DemogSem} (hgs : MsSem.graphSem g none = .ok gs) :
    ∀ p ∈ gs.pops, Tiles p.lo p.segs p.hi ∧ ∀ s ∈ p.segs, SegOK N0 s := by
  have c := ToMs.clauses_of_valid hv
  have htiles := MsRT.Tr.graphSem_tiles hv (show MsSem.graphSemWith Sz.ofQ g none = .ok gs from hgs)
  have hgs' : gs = ToMs.gSem g := by rw [ToMs.graphSem_ok c hx] at hgs; cases hgs; rfl
  intro p hp
  refine ⟨(htiles p hp).1, ?_⟩
  intro s hs
  have hlen := tiles_len (htiles p hp).1 s hs
  rw [hgs', ToMs.gSem_pops c] at hp
  obtain ⟨d, hd, rfl⟩ := List.mem_map.1 hp
  obtain ⟨e, he, rfl⟩ := List.mem_map.1 (show s ∈ d.epochs.reverse.map ToMs.segOf from hs)
  exact segOK_segOf N0 (ToMs.epochOk_of_valid c hx hd (List.mem_reverse.1 he)) hlen

/-- the growth rates of the segments of the graph's demography are the rates `to_ms` computes for the epochs -/
theorem graph_segGrowth_mem {g : Graph} (hv : validGraph g = true) (hx : C07.MsExpressible g = true) (N0 : Q)
    {gs : DemogSem} (hgs : MsSem.graphSem g none = .ok gs) :
    ∀ p ∈ gs.pops, ∀ s ∈ p.segs, ∀ G, C07.segGrowth N0 s = some G →
      G ∈ g.demes.flatMap (fun d => d.epochs.map (C07.growthOf N0)) := by
  have c := ToMs.clauses_of_valid hv
  have hgs' : gs = ToMs.gSem g := by rw [ToMs.graphSem_ok c hx] at hgs; cases hgs; rfl
  intro p hp s hs G hG
  rw [hgs', ToMs.gSem_pops c] at hp
  obtain ⟨d, hd, rfl⟩ := List.mem_map.1 hp
  obtain ⟨e, he, rfl⟩ := List.mem_map.1 (show s ∈ d.epochs.reverse.map ToMs.segOf from hs)
  have he' := List.mem_reverse.1 he
  rw [ToMs.segGrowth_segOf (ToMs.epochOk_of_valid c hx hd he')] at hG
  cases hG
  exact List.mem_flatMap.2 ⟨d, hd, List.mem_map.2 ⟨e, he', rfl⟩⟩

/-- `segReal` of the segment of an epoch is the real value of `size_at` (`Model/Views.lean`: `.expo n0 n1 dt`
with `n0` the start size, `n1` the end size, `dt` the fraction of the epoch elapsed since its start) — for
every `N0 ≠ 0` -/
theorem segReal_eq_expoReal {N0 : Q} (hN : N0 ≠ 0) {e : Epoch} (he : ToMs.EpochOk e) {s t : Q}
    (hs : e.startTime = .fin s) (h1 : e.endTime ≤ t) (h2 : t < s) :
    segReal N0 (ToMs.segOf e) t
      = expoReal (e.startSize : ℝ) (e.endSize : ℝ) (((s - t) / (s - e.endTime) : Q) : ℝ) := by
  have hlen : e.endTime < s := lt_of_le_of_lt h1 h2
  have hok : SegOK N0 (ToMs.segOf e) := segOK_segOf N0 he (by rw [hs]; exact hlen)
  have ha : (0 : ℝ) < (e.endSize : ℝ) := by exact_mod_cast he.endSize
  have hb : (0 : ℝ) < (e.startSize : ℝ) := by exact_mod_cast he.startSize
  have hd : (s : ℝ) - (e.endTime : ℝ) ≠ 0 := by
    have : (e.endTime : ℝ) < (s : ℝ) := by exact_mod_cast hlen
    linarith
  unfold expoReal
  by_cases hab : e.endSize = e.startSize
  · rw [segReal_const hok (a := e.endSize) (b := e.startSize) rfl rfl hab, hab, div_self hb.ne']
    simp
  · rw [segReal_exp hN hok (a := e.endSize) (b := e.startSize) rfl rfl hab (T := s) hs]
    show (e.endSize : ℝ) * Real.exp (Real.log ((e.startSize : ℝ) / (e.endSize : ℝ))
        * (((t : ℝ) - (e.endTime : ℝ)) / ((s : ℝ) - (e.endTime : ℝ)))) = _
    have hl : Real.log ((e.endSize : ℝ) / (e.startSize : ℝ)) = - Real.log ((e.startSize : ℝ) / (e.endSize : ℝ)) := by
      rw [← Real.log_inv, inv_div]
    have hbe : (e.startSize : ℝ) = (e.endSize : ℝ) * Real.exp (Real.log ((e.startSize : ℝ) / (e.endSize : ℝ))) := by
      rw [Real.exp_log (div_pos hb ha)]; field_simp
    have hx : ((t : ℝ) - (e.endTime : ℝ)) / ((s : ℝ) - (e.endTime : ℝ))
        = 1 - ((s : ℝ) - (t : ℝ)) / ((s : ℝ) - (e.endTime : ℝ)) := by
      field_simp; ring
    rw [hl, hx]
    generalize Real.log ((e.startSize : ℝ) / (e.endSize : ℝ)) = L at hbe ⊢
    rw [hbe, mul_assoc, ← Real.exp_add]
    congr 2
    simp only [Rat.cast_div, Rat.cast_sub]
    ring

#print axioms Demes.Proofs.MsGrow.regrow_real_close_anchor
#print axioms Demes.Proofs.MsGrow.regrow_real_close
#print axioms Demes.Proofs.MsGrow.regrow_real_rel
#print axioms Demes.Proofs.MsGrow.regrow_real_exact
#print axioms Demes.Proofs.MsGrow.growthEq_real
#print axioms Demes.Proofs.MsGrow.graph_segOK
#print axioms Demes.Proofs.MsGrow.graph_segGrowth_mem
#print axioms Demes.Proofs.MsGrow.segReal_eq_expoReal

end Demes.Proofs.MsGrow
