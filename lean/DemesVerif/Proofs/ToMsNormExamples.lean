/-
  C07 — concrete graphs whose ancestry proportions do not sum to exactly one, for the
  non-vacuity examples of `toMs_sem`.
-/
import DemesVerif.Spec.C07Sem
import DemesVerif.Proofs.ToMsExamples
namespace Demes.Proofs.ToMsNorm
open Demes Demes.Ms Demes.Spec Demes.Spec.C07 Demes.Proofs.ToMs

/-- `exSplit` with the single ancestry proportion of `B` equal to `1 - 2⁻⁴⁰` (valid: within 1e-9
of one) -/
def exSingleInexact : Graph :=
  { exSplit with demes := exSplit.demes.map (fun d =>
      if d.name = "B" then { d with proportions := [1 - 1/1099511627776] } else d) }

/-- `ex1` with the admixture proportions of `C` summing to `1 - 2⁻⁴⁰` -/
def exInexactBelow : Graph :=
  { ex1 with demes := ex1.demes.map (fun d =>
      if d.name = "C" then { d with proportions := [1/4, 3/4 - 1/1099511627776] } else d) }

/-- the proportions of the demes of a graph -/
def proportionsOf (g : Graph) : List (List Q) := g.demes.map (·.proportions)

end Demes.Proofs.ToMsNorm
