#!/usr/bin/env python3
"""Confirm a seeded change and run our checks against it WITHOUT touching /repo.

  seed_eval.py <seed id> <worktree> <change.diff> <demo.py> <property> [<property>...] [--keep]

1. in the scratch worktree: demo on clean tree (must exit 0); apply the diff; run the four
   always-passing test files (must pass); demo again (must exit != 0);
2. run `./check <property> --tier quick` with VERIF_REPO / PYTHONPATH pointing at the patched
   worktree (the /venv editable install is shadowed; `import demes` then resolves to it);
3. revert the worktree; with --keep, store seeded/<id>/{patch.diff,demo.py,meta.json}.
"""
import json
import os
import shutil
import subprocess
import sys
import time

VERIF = os.path.dirname(os.path.dirname(os.path.abspath(__file__)))
SUITE = ["tests/test_demes.py", "tests/test_load_dump.py", "tests/test_ms.py", "tests/test_import_visibility.py",
         "tests/test_cli.py::TestParseCommand::test_nonyaml_output_with_multiple_graphs_error",
         "tests/test_cli.py::TestTopLevel::test_no_arguments_produces_help_output"]


def run(cmd, cwd=None, env=None, timeout=1800):
    p = subprocess.run(cmd, cwd=cwd, env=env, stdout=subprocess.PIPE, stderr=subprocess.STDOUT, timeout=timeout)
    return p.returncode, p.stdout.decode(errors="replace")


def main():
    args = [a for a in sys.argv[1:] if a != "--keep"]
    keep = "--keep" in sys.argv
    sid, wt, diff, demo = args[:4]
    props = args[4:]
    env = dict(os.environ, PYTHONPATH=wt)
    meta = {"id": sid, "worktree_checked": wt, "properties": props, "ran": []}
    run(["git", "checkout", "--", "."], cwd=wt)
    rc0, out0 = run(["/venv/bin/python", demo], cwd=wt, env=env)
    meta["demo_clean_exit"] = rc0
    rca, outa = run(["git", "apply", os.path.abspath(diff)], cwd=wt)
    if rca != 0:
        print("patch does not apply:", outa)
        return 2
    try:
        rcs, outs = run(["/venv/bin/python", "-m", "pytest", "-q", "-p", "no:cacheprovider", "-x", "--timeout=900"] + SUITE, cwd=wt, env=env)
        meta["suite_with_change"] = outs.strip().splitlines()[-1] if outs.strip() else ""
        meta["suite_exit"] = rcs
        rc1, out1 = run(["/venv/bin/python", demo], cwd=wt, env=env)
        meta["demo_changed_exit"] = rc1
        meta["demo_changed_tail"] = out1.strip().splitlines()[-1][:300] if out1.strip() else ""
        meta["confirmed"] = (rc0 == 0 and rcs == 0 and rc1 != 0)
        import tempfile
        env2 = dict(env, VERIF_REPO=wt, VERIF_EVIDENCE_DIR=tempfile.mkdtemp(prefix="seed_evidence_"))
        for p in props:
            t0 = time.time()
            rc, out = run([os.path.join(VERIF, "check"), p, "--tier", "quick"], cwd=VERIF, env=env2)
            lines = [l for l in out.splitlines() if l.startswith("VIOLATION") or l.startswith("KNOWN-FINDING")]
            tail = out.strip().splitlines()[-1] if out.strip() else ""
            what = None
            for l in lines:
                if "replay=" in l:
                    path = l.split("replay=")[1].split()[0]
                    try:
                        what = json.load(open(path)).get("what") or json.load(open(path)).get("kind")
                    except Exception:  # noqa: BLE001
                        pass
                    break
            meta["ran"].append({"check": p, "exit": rc, "lines": lines[:3], "what": what, "summary": tail[-300:], "wall_s": round(time.time() - t0, 1)})
    finally:
        run(["git", "checkout", "--", "."], cwd=wt)
        # restore generated tables for the real tree
        run([sys.executable, os.path.join(VERIF, "harness", "extract_tables.py")], env=dict(os.environ, VERIF_REPO="/repo"))
    print(json.dumps(meta, indent=1))
    if keep:
        d = os.path.join(VERIF, "seeded", sid)
        os.makedirs(d, exist_ok=True)
        for src, name in ((diff, "patch.diff"), (demo, "demo.py")):
            if os.path.abspath(src) != os.path.join(d, name):
                shutil.copy(src, os.path.join(d, name))
        old = {}
        try:
            old = json.load(open(os.path.join(d, "meta.json")))
        except Exception:  # noqa: BLE001
            pass
        for k in ("breaks_property", "change", "needs"):
            if k in old and k not in meta:
                meta[k] = old[k]
        meta.pop("worktree_checked", None)
        json.dump(meta, open(os.path.join(d, "meta.json"), "w"), indent=1)
    return 0


if __name__ == "__main__":
    sys.exit(main())
