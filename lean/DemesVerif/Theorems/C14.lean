/-
  C14 — predecessor, successor and discrete-event views are exact views of ancestry.

  Spec side: `Spec/C14.lean` (`specBranches`, `specMergers`, `specAdmixtures`, `specSplits`,
  `splitsAgree`, `accountedChildren`), all defined by filtering the deme list and looking demes
  up by their own name.  Model side: `predecessors`, `successors`, `discreteEvents` of
  `Model/Views.lean`, which look demes up through the name index as the implementation does.
-/
import DemesVerif.Proofs.Events
import DemesVerif.Proofs.Records
namespace Demes.Theorems
open Demes Demes.Spec

/-- The predecessor map lists, in deme order, each deme with its ancestors in their listed
order. -/
theorem pred_is_ancestors (g : Graph) (hv : validGraph g = true) :
    predecessors g = g.demes.map (fun d => (d.name, d.ancestors)) :=
  Proofs.pred_is_ancestors g hv

/-- The successor map is the exact transpose: in deme order, each deme with the names of the
demes that list it as an ancestor, each once, in deme order. -/
theorem succ_is_transpose (g : Graph) (hv : validGraph g = true) :
    successors g = g.demes.map (fun d =>
      (d.name, (g.demes.filter (fun c => c.ancestors.contains d.name)).map (·.name))) :=
  Proofs.succ_is_transpose g hv

/-- Both maps have exactly the deme names as keys, in deme order. -/
theorem pred_succ_total (g : Graph) (hv : validGraph g = true) :
    (predecessors g).map (·.1) = g.demes.map (·.name)
      ∧ (successors g).map (·.1) = g.demes.map (·.name) :=
  Proofs.pred_succ_total g hv

/-- `discrete_demographic_events()` does not raise; it returns the pulse list unchanged, the
branches, mergers and admixtures exactly as specified (in deme order, with the deme's time,
parents and proportions), and the splits as specified up to the order of the split list and
of each children list (the children come out of a Python `set`). -/
theorem events_spec (g : Graph) (hv : validGraph g = true) :
    ∃ ev, discreteEvents g = some ev ∧ ev.pulses = g.pulses
      ∧ ev.branches = specBranches g ∧ ev.mergers = specMergers g
      ∧ ev.admixtures = specAdmixtures g ∧ splitsAgree ev.splits (specSplits g) :=
  Proofs.events_spec g hv

/-- Stronger form true of the Model: the split list is a permutation of the specified one,
each split carrying its children in deme order (the Model appends children in deme order;
only the order of the split list — first child encountered vs. parent order — differs). -/
theorem events_spec_ordered (g : Graph) (hv : validGraph g = true) :
    ∃ ev, discreteEvents g = some ev ∧ ev.pulses = g.pulses
      ∧ ev.branches = specBranches g ∧ ev.mergers = specMergers g
      ∧ ev.admixtures = specAdmixtures g ∧ ev.splits.Perm (specSplits g) :=
  Proofs.events_spec_ordered g hv

/-- The classification is exhaustive and exclusive (a statement about the Spec lists only):
the children of all specified splits, branches, mergers and admixtures, taken together with
multiplicity, are a rearrangement of the names of the demes that have at least one ancestor. -/
theorem events_partition (g : Graph) (hv : validGraph g = true) :
    (accountedChildren g).Perm
      ((g.demes.filter (fun d => !d.ancestors.isEmpty)).map (·.name)) :=
  Proofs.events_partition g hv

/-- Pointwise form: a deme with ancestors is the child of exactly one specified event, a deme
without ancestors of none. -/
theorem events_partition_count (g : Graph) (hv : validGraph g = true) (d : Deme)
    (hd : d ∈ g.demes) :
    (accountedChildren g).count d.name = if d.ancestors.isEmpty then 0 else 1 :=
  Proofs.events_partition_count g hv d hd

/-! ### record validation (`Split` / `Branch` / `Merge` / `Admix`, demes/demes.py:585-1015)

`discreteEvents` (Model/Views.lean) returns `none` only for a failing lookup; the record classes'
own validators are `splitRecordOk`, `branchRecordOk`, `mergeRecordOk`, `admixRecordOk`
(Model/Records.lean: the field validators in attrs order, `_check_proportions`,
`__attrs_post_init__`), and `discreteEventsChecked` is the function with every record validated at
the place the implementation constructs it. -/

/-- Every record `discrete_demographic_events()` constructs on a valid graph passes the validation
of its class: the constructor calls do not raise. -/
theorem events_records_valid (g : Graph) (hv : validGraph g = true) (ev : Events)
    (hev : discreteEvents g = some ev) :
    (∀ s ∈ ev.splits, splitRecordOk s.parent s.children (Num.fin s.time) = true)
      ∧ (∀ b ∈ ev.branches, branchRecordOk b.parent b.child (Num.ofETime b.time) = true)
      ∧ (∀ m ∈ ev.mergers,
          mergeRecordOk m.parents (m.proportions.map Num.fin) m.child (Num.ofETime m.time) = true)
      ∧ (∀ m ∈ ev.admixtures,
          admixRecordOk m.parents (m.proportions.map Num.fin) m.child (Num.ofETime m.time) = true) :=
  Proofs.Rec.events_records_valid g hv ev hev

/-- `discrete_demographic_events()` with its record validation does not raise on a valid graph and
returns what the unchecked Model function returns — so everything `events_spec` says about
`discreteEvents` holds of the validating function. -/
theorem events_checked_total (g : Graph) (hv : validGraph g = true) :
    ∃ ev, discreteEventsChecked g = .ok ev ∧ discreteEvents g = some ev :=
  Proofs.Rec.events_checked_total g hv

/-- `events_spec` for the validating function. -/
theorem events_checked_spec (g : Graph) (hv : validGraph g = true) :
    ∃ ev, discreteEventsChecked g = .ok ev ∧ ev.pulses = g.pulses
      ∧ ev.branches = specBranches g ∧ ev.mergers = specMergers g
      ∧ ev.admixtures = specAdmixtures g ∧ splitsAgree ev.splits (specSplits g) :=
  Proofs.Rec.events_checked_spec g hv

/-- What `Split(parent, children, time)` accepts: identifiers, at least one child, a finite
non-negative time, the parent not among the children, no child twice. -/
theorem split_record_meaning (parent : String) (children : List String) (time : Num) :
    splitRecordOk parent children time = true ↔
      isIdentifier parent = true ∧ (∀ c ∈ children, isIdentifier c = true) ∧ children ≠ []
        ∧ (∃ q, time = Num.fin q ∧ 0 ≤ q) ∧ parent ∉ children ∧ children.Nodup :=
  Proofs.Rec.splitRecordOk_iff parent children time

/-- What `Branch(parent, child, time)` accepts. -/
theorem branch_record_meaning (parent child : String) (time : Num) :
    branchRecordOk parent child time = true ↔
      isIdentifier parent = true ∧ isIdentifier child = true
        ∧ (∃ q, time = Num.fin q ∧ 0 ≤ q) ∧ child ≠ parent :=
  Proofs.Rec.branchRecordOk_iff parent child time

/-- `Merge` and `Admix` validate alike. -/
theorem admix_record_is_merge_record (parents : List String) (proportions : List Num)
    (child : String) (time : Num) :
    admixRecordOk parents proportions child time = mergeRecordOk parents proportions child time :=
  Proofs.Rec.admixRecord_eq_mergeRecord parents proportions child time

/-- The predicates are not vacuous: a split whose parent is among its children is refused. -/
theorem split_parent_among_children_rejects (parent : String) (children : List String) (time : Num)
    (h : parent ∈ children) : splitRecordOk parent children time = false :=
  Proofs.Rec.split_parent_among_children_rejects parent children time h

/-- A split that repeats a child is refused. -/
theorem split_repeated_child_rejects (parent : String) (children : List String) (time : Num)
    (h : ¬ children.Nodup) : splitRecordOk parent children time = false :=
  Proofs.Rec.split_repeated_child_rejects parent children time h

/-- A branch off itself is refused. -/
theorem branch_of_itself_rejects (name : String) (time : Num) :
    branchRecordOk name name time = false :=
  Proofs.Rec.branch_of_itself_rejects name time

/-- A time that is NaN, infinite or negative is refused by the `time` field of all four classes. -/
theorem record_time_rejects (t : Num)
    (h : t = Num.nan ∨ t = Num.pinf ∨ t = Num.ninf ∨ ∃ q, t = Num.fin q ∧ q < 0) :
    recordTimeOk t = false :=
  Proofs.Rec.record_time_rejects t h

/-- A merger or admixture with fewer than two parents is refused. -/
theorem merge_fewer_than_two_parents_rejects (parents : List String) (proportions : List Num)
    (child : String) (time : Num) (h : parents.length < 2) :
    mergeRecordOk parents proportions child time = false
      ∧ admixRecordOk parents proportions child time = false :=
  Proofs.Rec.merge_fewer_than_two_parents_rejects parents proportions child time h

/-- … with a number of proportions different from the number of parents. -/
theorem merge_length_mismatch_rejects (parents : List String) (proportions : List Num)
    (child : String) (time : Num) (h : parents.length ≠ proportions.length) :
    mergeRecordOk parents proportions child time = false
      ∧ admixRecordOk parents proportions child time = false :=
  Proofs.Rec.merge_length_mismatch_rejects parents proportions child time h

/-- … whose child is one of the parents. -/
theorem merge_child_among_parents_rejects (parents : List String) (proportions : List Num)
    (child : String) (time : Num) (h : child ∈ parents) :
    mergeRecordOk parents proportions child time = false
      ∧ admixRecordOk parents proportions child time = false :=
  Proofs.Rec.merge_child_among_parents_rejects parents proportions child time h

/-- … whose (non-empty) proportions do not sum to one within `math.isclose`'s default tolerance. -/
theorem merge_sum_not_one_rejects (parents : List String) (proportions : List Num)
    (child : String) (time : Num) (hne : proportions ≠ [])
    (h : recordSumIsOne proportions = false) :
    mergeRecordOk parents proportions child time = false
      ∧ admixRecordOk parents proportions child time = false :=
  Proofs.Rec.merge_sum_not_one_rejects parents proportions child time hne h

/-! ### non-vacuity

`Proofs.eventsGraph`: roots `A`, `X`; `X` splits into `Y`; `A` splits into `B` and `C`; `D`
branches off `B`; `E` is the merger of `C` and `D`; `F` is an admixture of `B` and `E`; one
migration, one pulse.  (The same graph built with the real library gives the same five
lists, the children of `A` coming out of the `set` as `['C', 'B']`.) -/

/-- the hypothesis of every theorem above is satisfiable -/
example : validGraph Proofs.eventsGraph = true := by decide +kernel

/-- the Model's answer on it: one split with two children, one with one, a branch, a merger,
an admixture, the pulse list unchanged -/
example :
    discreteEvents Proofs.eventsGraph = some {
      pulses := [{ sources := ["B"], dest := "E", time := 30, proportions := [1/2] }],
      splits := [{ parent := "X", children := ["Y"], time := 60 },
                 { parent := "A", children := ["B", "C"], time := 100 }],
      branches := [{ parent := "B", child := "D", time := .fin 80 }],
      mergers := [{ parents := ["C", "D"], proportions := [1/2, 1/2], child := "E", time := .fin 50 }],
      admixtures :=
        [{ parents := ["B", "E"], proportions := [1/4, 3/4], child := "F", time := .fin 20 }] } := by
  decide +kernel

/-- the Spec lists on it are non-empty; the split list is in parent order, which here differs
from the Model's order — the permutation in `events_spec` is necessary -/
example :
    specSplits Proofs.eventsGraph =
        [{ parent := "A", children := ["B", "C"], time := 100 },
         { parent := "X", children := ["Y"], time := 60 }]
    ∧ specBranches Proofs.eventsGraph = [{ parent := "B", child := "D", time := .fin 80 }]
    ∧ (specMergers Proofs.eventsGraph).map (·.child) = ["E"]
    ∧ (specAdmixtures Proofs.eventsGraph).map (·.child) = ["F"]
    ∧ accountedChildren Proofs.eventsGraph = ["B", "C", "Y", "D", "E", "F"] := by
  decide +kernel

/-- the two maps on it -/
example :
    predecessors Proofs.eventsGraph = [("A", []), ("X", []), ("Y", ["X"]), ("B", ["A"]),
      ("C", ["A"]), ("D", ["B"]), ("E", ["C", "D"]), ("F", ["B", "E"])]
    ∧ successors Proofs.eventsGraph = [("A", ["B", "C"]), ("X", ["Y"]), ("Y", []),
      ("B", ["D", "F"]), ("C", ["E"]), ("D", ["E"]), ("E", ["F"]), ("F", [])] := by
  decide +kernel

/-- the validating function on it: the same answer as the unchecked one -/
example :
    (discreteEventsChecked Proofs.eventsGraph).toOption = discreteEvents Proofs.eventsGraph
      ∧ (discreteEventsChecked Proofs.eventsGraph).toOption.isSome = true := by
  decide +kernel

/-- the record predicates on its records, and on near misses: a split at a negative time, a split
whose parent is a child, a merger whose proportions sum to 1 + 2⁻²⁹ (refused) resp. 1 + 2⁻³¹
(accepted), one parent only, a repeated parent -/
example :
    splitRecordOk "A" ["B", "C"] (.fin 100) = true
      ∧ splitRecordOk "A" ["B", "C"] (.fin (-1)) = false
      ∧ splitRecordOk "A" ["B", "A"] (.fin 100) = false
      ∧ splitRecordOk "A" [] (.fin 100) = false
      ∧ splitRecordOk "A" ["B", "not an identifier"] (.fin 100) = false
      ∧ branchRecordOk "B" "D" (.fin 80) = true
      ∧ branchRecordOk "B" "D" .pinf = false
      ∧ mergeRecordOk ["C", "D"] [.fin (1/2), .fin (1/2)] "E" (.fin 50) = true
      ∧ mergeRecordOk ["C", "D"] [.fin (1/2), .fin (1/2 + 1/2^31)] "E" (.fin 50) = true
      ∧ mergeRecordOk ["C", "D"] [.fin (1/2), .fin (1/2 + 1/2^29)] "E" (.fin 50) = false
      ∧ mergeRecordOk ["C", "D"] [.fin 1, .fin 0] "E" (.fin 50) = false
      ∧ mergeRecordOk ["C"] [.fin 1] "E" (.fin 50) = false
      ∧ mergeRecordOk ["C", "C"] [.fin (1/2), .fin (1/2)] "E" (.fin 50) = false
      ∧ admixRecordOk ["B", "E"] [.fin (1/4), .fin (3/4)] "F" (.fin 20) = true
      ∧ admixRecordOk ["B", "E"] [.fin (1/4), .nan] "F" (.fin 20) = false := by
  decide +kernel

/-- the validation is not idle: on a graph that is NOT valid (deme `B` lists `A` twice) the unchecked
function still answers, the validating one raises as `Merge(...)` does -/
example :
    (discreteEvents Proofs.Rec.repeatedAncestorGraph).isSome = true
      ∧ (discreteEventsChecked Proofs.Rec.repeatedAncestorGraph).toOption = none
      ∧ validGraph Proofs.Rec.repeatedAncestorGraph = false := by
  decide +kernel

end Demes.Theorems
