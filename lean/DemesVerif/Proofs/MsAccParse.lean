/-
  C09, first sentence — acceptance of the `to_ms` output by `from_ms`, layers 1 and 2: argparse accepts
  the printed command and agrees with the parser of the ms interpreter; the ms interpreter runs the
  command; hence (`buildState_progress`) the event loop of `build_graph` runs to its end.
-/
import DemesVerif.Proofs.MsRTCompose
import DemesVerif.Proofs.MsAccProgress
namespace Demes.Proofs.MsAcc
open Demes Demes.Ms Demes.Spec Demes.Spec.C07 Demes.Spec.C09
open Demes.Spec.MsSem (parse msSem St)
open Demes.Spec.C08 (ArgsAgree runState Tame' PlainTokens)
open Demes.Proofs.ToMs (headerOf finalEvs)
open Demes.Proofs.MsRT (prOf toMs_bridge)

/-- what the ms parser reads off the command `to_ms` prints for `g` -/
abbrev prG (g : Graph) (N0 : Q) (samples : Option (List Int)) : Demes.Spec.MsSem.Parsed :=
  prOf (headerOf (inGenerations g) samples) (finalEvs (inGenerations g) N0)

/-- **Layer 1 (parser and option validators).**  For a valid ms-expressible graph of constant sizes,
`N0 > 0`, well-formed `samples` and a codec that covers the numbers of the command: argparse
(`parse_known_args`, which runs the converters and validators of every option record) accepts the command
`to_ms` prints, and what it reads agrees (`ArgsAgree`) with what the parser of the ms interpreter reads:
the same number of populations, the same initial-state options and events in the same order. -/
theorem toMs_output_parses (c : NumCodec) (sa : Growth → String) {g : Graph} (hv : validGraph g = true)
    (hx : MsExpressible g = true) (hcs : ConstSizes g = true) {N0 : Q} (hN : 0 < N0)
    {samples : Option (List Int)} (hs : samplesOk g samples = true) {toks : List (Tok Growth)}
    (htoks : toMs g N0 samples = .ok toks) (hc : CodecCovers c toks) :
    ∃ args, parseKnownArgs (renderG c sa toks) = .ok args ∧ ArgsAgree args (prG g N0 samples)
      ∧ parse (renderG c sa toks) = .ok (prG g N0 samples) := by
  obtain ⟨_, _, b3, b4, _⟩ := toMs_bridge c sa hv hx hcs hN hs htoks hc
  obtain ⟨args, h1, h2⟩ := Demes.Proofs.FromMsParse.spec_accepts_model_accepts b3 b4
  exact ⟨args, h1, h2, b4⟩

/-- the ms interpreter runs the printed command to the end -/
theorem toMs_output_runState (c : NumCodec) (sa : Growth → String) {g : Graph} (hv : validGraph g = true)
    (hx : MsExpressible g = true) (hcs : ConstSizes g = true) {N0 : Q} (hN : 0 < N0)
    {samples : Option (List Int)} (hs : samplesOk g samples = true) {toks : List (Tok Growth)}
    (htoks : toMs g N0 samples = .ok toks) (hc : CodecCovers c toks) :
    ∃ σ, runState (prG g N0 samples) N0 = .ok σ := by
  obtain ⟨_, b2, _, b4, b5⟩ := toMs_bridge c sa hv hx hcs hN hs htoks hc
  obtain ⟨toks', cmd, semG, gs, h1, h2, h3, _⟩ := Demes.Proofs.ToMs.toMs_sem_run hv hx hN hs
  have : toks' = toks := by rw [htoks] at h1; cases h1; rfl
  subst this
  have hcmd : cmd = ⟨headerOf (inGenerations g) samples, finalEvs (inGenerations g) N0⟩ := by
    rw [b2] at h2; cases h2; rfl
  subst hcmd
  obtain ⟨hsem, _⟩ := b5 semG h3
  obtain ⟨pr, σ, hpr, hσ, _⟩ := Demes.Proofs.FromMs.msSem_runState hsem
  have : pr = prG g N0 samples := by rw [b4] at hpr; cases hpr; rfl
  subst this
  exact ⟨σ, hσ⟩

/-- **Layer 2 (the event loop).**  Under the same hypotheses the event loop of `build_graph`
(`buildState`: `convert_population_id`, `epoch_resolve`, the `-es` / `-ej` bookkeeping, the migration
matrices, `split_join_params`) runs to its end on the arguments argparse reads off the printed command. -/
theorem toMs_output_buildState_ok (c : NumCodec) (sa : Growth → String) {g : Graph} (hv : validGraph g = true)
    (hx : MsExpressible g = true) (hcs : ConstSizes g = true) {N0 : Q} (hN : 0 < N0)
    {samples : Option (List Int)} (hs : samplesOk g samples = true) {toks : List (Tok Growth)}
    (htoks : toMs g N0 samples = .ok toks) (hc : CodecCovers c toks) :
    ∃ args σ s, parseKnownArgs (renderG c sa toks) = .ok args ∧ ArgsAgree args (prG g N0 samples)
      ∧ runState (prG g N0 samples) N0 = .ok σ ∧ Demes.Proofs.FromMs.buildState args N0 = .ok s := by
  obtain ⟨args, h1, h2, _⟩ := toMs_output_parses c sa hv hx hcs hN hs htoks hc
  obtain ⟨σ, h3⟩ := toMs_output_runState c sa hv hx hcs hN hs htoks hc
  obtain ⟨s, h4⟩ := buildState_progress hN h2 h3
  exact ⟨args, σ, s, h1, h2, h3, h4⟩

#print axioms toMs_output_parses
#print axioms toMs_output_buildState_ok

end Demes.Proofs.MsAcc
