/-
  The Builder entry route (C01, C02, C03, C18 quantify over "Builder call sequences") — what a
  sequence of `Builder` calls *means*, written from the documentation of the class ("the add_*
  methods append a deme / migration / pulse to the `demes` / `migrations` / `pulses` list field of
  the data dictionary; if the data dictionary doesn't contain the field it will be added"), not
  from the statements of the methods:

  * `docOfCalls calls`      the data dictionary of a call sequence, by *selecting* from the call
                            list: the header is the one of the last constructor call; the section
                            lists hold the items of the `add_*` calls after it, each section in call
                            order; the sections appear in the order in which each was first used;
  * `callsOfDoc d`          a document entered through Builder calls (what a user does to enter
                            the document `d`: constructor with the header fields, one `add_deme` per
                            deme, one `add_migration` per migration, one `add_pulse` per pulse);
  * `builderForm d`         the documents for which that is faithful ("Builder-expressible");
  * `canonDoc d`            `d` with its keys in the Builder's order;
  * `noneAsAbsent`, `infinityAsNumber`   the two argument conventions as rewritings of a call.
-/
import DemesVerif.Model.Builder
import DemesVerif.Spec.C02
namespace Demes.Spec.BuilderRoute
open Demes Demes.Obj Demes.Spec

/-! ### one call -/

/-- the entry `k: v` of a dictionary under construction, if a value is given -/
def field (k : String) (x : Option Value) : Obj :=
  match x with
  | none => []
  | some v => [(k, v)]

/-- the string `"Infinity"` stands for the number infinity -/
def infinityString (v : Value) : Value :=
  match v with
  | .str s => if s = "Infinity" then .num .pinf else .str s
  | v => v

/-- header of the data dictionary: `time_units` always (default `"generations"`), then the given
fields; a `None` argument counts as not given (`notNull`) -/
def specHeader (description timeUnits generationTime doi defaults metadata : Option Value) : Obj :=
  [("time_units", timeUnits.getD (.str "generations"))]
    ++ field "description" (notNull description)
    ++ field "generation_time" (notNull generationTime)
    ++ field "doi" (notNull doi)
    ++ field "defaults" (notNull defaults)
    ++ field "metadata" (notNull metadata)

def specDeme (name : Value) (description ancestors proportions startTime epochs defaults : Option Value) :
    Obj :=
  [("name", name)]
    ++ field "description" (notNull description)
    ++ field "ancestors" (notNull ancestors)
    ++ field "proportions" (notNull proportions)
    ++ field "start_time" ((notNull startTime).map infinityString)
    ++ field "epochs" (notNull epochs)
    ++ field "defaults" (notNull defaults)

/-- `demes`, `source`, `dest`: whatever is passed is stored, `None` included -/
def specMigration (rate demes source dest startTime endTime : Option Value) : Obj :=
  field "rate" (notNull rate)
    ++ field "demes" demes
    ++ field "source" source
    ++ field "dest" dest
    ++ field "start_time" ((notNull startTime).map infinityString)
    ++ field "end_time" (notNull endTime)

def specPulse (sources dest proportions time : Option Value) : Obj :=
  field "sources" (notNull sources)
    ++ field "dest" (notNull dest)
    ++ field "proportions" (notNull proportions)
    ++ field "time" (notNull time)

/-! ### a call sequence -/

inductive Section where
  | demes | migrations | pulses
  deriving DecidableEq, Repr

def Section.key : Section → String
  | .demes => "demes"
  | .migrations => "migrations"
  | .pulses => "pulses"

def isInit : BuilderCall → Bool
  | .init .. => true
  | _ => false

/-- the section an `add_*` call appends to -/
def sectionOf : BuilderCall → Option Section
  | .addDeme .. => some .demes
  | .addMigration .. => some .migrations
  | .addPulse .. => some .pulses
  | _ => none

/-- the item an `add_*` call appends -/
def itemOf : BuilderCall → Option Value
  | .addDeme name description ancestors proportions startTime epochs defaults =>
      some (.obj (specDeme name description ancestors proportions startTime epochs defaults))
  | .addMigration rate demes source dest startTime endTime =>
      some (.obj (specMigration rate demes source dest startTime endTime))
  | .addPulse sources dest proportions time => some (.obj (specPulse sources dest proportions time))
  | _ => none

/-- the header a constructor call sets up -/
def headerOf : BuilderCall → Obj
  | .init description timeUnits generationTime doi defaults metadata =>
      specHeader description timeUnits generationTime doi defaults metadata
  | _ => []

/-- the constructor call in force: the last one, `Builder()` if there is none -/
def lastInit (calls : List BuilderCall) : BuilderCall :=
  (calls.reverse.find? isInit).getD (.init none none none none none none)

/-- the calls made on the Builder in force: those after the last constructor call -/
def session (calls : List BuilderCall) : List BuilderCall :=
  (calls.reverse.takeWhile (fun c => !isInit c)).reverse

/-- the distinct elements of a list, in the order of their first occurrences -/
def firstOccurrences {α} [DecidableEq α] : List α → List α
  | [] => []
  | x :: xs => x :: (firstOccurrences xs).filter (· ≠ x)

/-- the items appended to section `s`, in call order -/
def itemsOf (s : Section) (calls : List BuilderCall) : List Value :=
  calls.filterMap (fun c => if sectionOf c = some s then itemOf c else none)

/-- **The data dictionary of a call sequence.** -/
def docOfCalls (calls : List BuilderCall) : Obj :=
  headerOf (lastInit calls)
    ++ (firstOccurrences ((session calls).filterMap sectionOf)).map
        (fun s => (s.key, Value.list (itemsOf s (session calls))))

/-! ### entering a document through Builder calls -/

def headerKeys : List String :=
  ["time_units", "description", "generation_time", "doi", "defaults", "metadata"]
def demeKeys : List String :=
  ["name", "description", "ancestors", "proportions", "start_time", "epochs", "defaults"]
def migrationKeys : List String := ["rate", "demes", "source", "dest", "start_time", "end_time"]
def pulseKeys : List String := ["sources", "dest", "proportions", "time"]

/-- the mappings of the list `d[k]` (nothing if `d[k]` is missing) -/
def sectionItems (k : String) (d : Obj) : List Obj :=
  match lookup k d with
  | some (.list xs) => xs.filterMap Value.asObj?
  | _ => []

def demeCall (o : Obj) : BuilderCall :=
  .addDeme ((lookup "name" o).getD .null) (lookup "description" o) (lookup "ancestors" o)
    (lookup "proportions" o) (lookup "start_time" o) (lookup "epochs" o) (lookup "defaults" o)

def migrationCall (o : Obj) : BuilderCall :=
  .addMigration (lookup "rate" o) (lookup "demes" o) (lookup "source" o) (lookup "dest" o)
    (lookup "start_time" o) (lookup "end_time" o)

def pulseCall (o : Obj) : BuilderCall :=
  .addPulse (lookup "sources" o) (lookup "dest" o) (lookup "proportions" o) (lookup "time" o)

/-- `Builder(**header)`, then `add_deme(**deme)` for each deme, `add_migration(**m)` for each
migration, `add_pulse(**p)` for each pulse -/
def callsOfDoc (d : Obj) : List BuilderCall :=
  [BuilderCall.init (lookup "description" d) (lookup "time_units" d) (lookup "generation_time" d)
    (lookup "doi" d) (lookup "defaults" d) (lookup "metadata" d)]
    ++ (sectionItems "demes" d).map demeCall
    ++ (sectionItems "migrations" d).map migrationCall
    ++ (sectionItems "pulses" d).map pulseCall

/-! ### Builder-expressible documents -/

def isObj : Value → Bool
  | .obj _ => true
  | _ => false

def isInfinityString : Option Value → Bool
  | some (.str s) => s = "Infinity"
  | _ => false

/-- the mapping `o` has pairwise distinct keys, all among `ks` -/
def keysWithin (ks : List String) (o : Obj) : Bool :=
  decide (keys o).Nodup && (keys o).all ks.contains

/-- none of the fields `ks` of `o` is an explicit `null` -/
def noNullAt (ks : List String) (o : Obj) : Bool :=
  ks.all (fun k => match lookup k o with | some .null => false | _ => true)

def demeForm (o : Obj) : Bool :=
  keysWithin demeKeys o && contains "name" o
    && noNullAt ["description", "ancestors", "proportions", "start_time", "epochs", "defaults"] o
    && !isInfinityString (lookup "start_time" o)

def migrationForm (o : Obj) : Bool :=
  keysWithin migrationKeys o && noNullAt ["rate", "start_time", "end_time"] o
    && !isInfinityString (lookup "start_time" o)

def pulseForm (o : Obj) : Bool :=
  keysWithin pulseKeys o && noNullAt pulseKeys o

/-- the section `k` of `d` is missing, or a list of mappings of the given form (non-empty if so
required) -/
def sectionForm (k : String) (form : Obj → Bool) (nonEmpty : Bool) (d : Obj) : Bool :=
  match lookup k d with
  | none => true
  | some (.list xs) =>
      xs.all (fun x => match x with | .obj o => form o | _ => false) && !(nonEmpty && xs.isEmpty)
  | some _ => false

/-- **Builder-expressible form**: the document has only the fields the Builder can write
(`time_units` among them — the constructor always writes it), no explicit `null` where the Builder
takes `None` to mean "not given", no string `"Infinity"` where the Builder would convert it, and a
`demes` list, if present, that is not empty (an empty list cannot be produced by `add_deme`
calls). -/
def builderForm (d : Obj) : Bool :=
  keysWithin (headerKeys ++ ["demes", "migrations", "pulses"]) d
    && contains "time_units" d
    && noNullAt ["description", "generation_time", "doi", "defaults", "metadata"] d
    && sectionForm "demes" demeForm true d
    && sectionForm "migrations" migrationForm false d
    && sectionForm "pulses" pulseForm false d

/-! ### the Builder's key order -/

/-- the fields `ks` of `d`, in the order of `ks` -/
def pick (ks : List String) (d : Obj) : Obj :=
  ks.flatMap (fun k => field k (lookup k d))

/-- the entry of a section in the data dictionary: none as long as nothing was appended -/
def sectionEntry (k : String) (items : List Value) : Obj :=
  match items with
  | [] => []
  | _ => [(k, .list items)]

/-- the section `k` with each item's fields in the order `ks`; nothing if the section is empty -/
def canonSection (k : String) (ks : List String) (d : Obj) : Obj :=
  sectionEntry k ((sectionItems k d).map (fun o => Value.obj (pick ks o)))

/-- a Builder-expressible document with its keys in the order in which the Builder writes them -/
def canonDoc (d : Obj) : Obj :=
  pick headerKeys d ++ canonSection "demes" demeKeys d ++ canonSection "migrations" migrationKeys d
    ++ canonSection "pulses" pulseKeys d

/-- `d` is written in the Builder's key order, without empty sections -/
def builderOrdered (d : Obj) : Bool :=
  let sub (ks : List String) (o : Obj) : Bool := (keys o).isSublist ks
  let sec (k : String) (ks : List String) : Bool :=
    match lookup k d with
    | some (.list xs) => !xs.isEmpty && xs.all (fun x => match x with | .obj o => sub ks o | _ => false)
    | _ => true
  sub (headerKeys ++ ["demes", "migrations", "pulses"]) d
    && sec "demes" demeKeys && sec "migrations" migrationKeys && sec "pulses" pulseKeys

/-- the same mapping up to the order of the keys (equality of Python `dict`s) -/
def SameMapping (a b : Obj) : Prop := ∀ k, lookup k a = lookup k b

/-! ### the argument conventions as rewritings of calls -/

def nullToNone (x : Option Value) : Option Value := notNull x

/-- replace every `None` passed for a keyword whose default is `None` by "not passed" -/
def noneAsAbsent : BuilderCall → BuilderCall
  | .init description timeUnits generationTime doi defaults metadata =>
      .init (nullToNone description) timeUnits (nullToNone generationTime) (nullToNone doi)
        (nullToNone defaults) (nullToNone metadata)
  | .addDeme name description ancestors proportions startTime epochs defaults =>
      .addDeme name (nullToNone description) (nullToNone ancestors) (nullToNone proportions)
        (nullToNone startTime) (nullToNone epochs) (nullToNone defaults)
  | .addMigration rate demes source dest startTime endTime =>
      .addMigration (nullToNone rate) demes source dest (nullToNone startTime) (nullToNone endTime)
  | .addPulse sources dest proportions time =>
      .addPulse (nullToNone sources) (nullToNone dest) (nullToNone proportions) (nullToNone time)
  | .resolve => .resolve

/-- replace the string `"Infinity"` by the number in the `start_time` of `add_deme` and
`add_migration` -/
def infinityAsNumber : BuilderCall → BuilderCall
  | .addDeme name description ancestors proportions startTime epochs defaults =>
      .addDeme name description ancestors proportions (startTime.map infinityString) epochs defaults
  | .addMigration rate demes source dest startTime endTime =>
      .addMigration rate demes source dest (startTime.map infinityString) endTime
  | c => c

/-! ### histories -/

/-- the positions of the `resolve` calls -/
def resolvePoints (calls : List BuilderCall) : List Nat :=
  (List.range calls.length).filter (fun i => match calls[i]? with | some .resolve => true | _ => false)

end Demes.Spec.BuilderRoute
