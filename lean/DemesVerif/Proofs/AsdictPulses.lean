/-
  Proofs for C06, part 6: the pulse loop of `Graph.fromdict` on the output of `Graph.asdict`,
  and the final sort.
-/
import DemesVerif.Proofs.AsdictMigrations
namespace Demes.Proofs.Asdict
open Demes Demes.Spec Obj Value

/-- what `_add_pulse` checks about a pulse `p` entering the graph `G` -/
structure PulseOk (G : Graph) (p : Pulse) (dd : Deme) : Prop where
  dst : G.deme? p.dest = some dd
  srcs : ∀ s ∈ p.sources, ∃ sd, G.deme? s = some sd ∧ qmax sd.endTime dd.endTime ≤ p.time
    ∧ ETime.fin p.time ≤ ETime.min sd.startTime dd.startTime ∧ ETime.fin p.time ≠ sd.startTime
  notEnd : p.time ≠ dd.endTime
  srcIds : ∀ s ∈ p.sources, isIdentifier s = true
  dstId : isIdentifier p.dest = true
  nonempty : p.sources.isEmpty = false
  pos : 0 < p.time
  props : ∀ x ∈ p.proportions, 0 < x ∧ x ≤ 1
  notDest : p.sources.contains p.dest = false
  nodup : p.sources.Nodup
  len : p.sources.length = p.proportions.length
  sum : qsumS p.proportions ≤ 1

theorem fin_eq_ofETime (t : Q) (s : ETime) : (Num.fin t = Num.ofETime s) ↔ ETime.fin t = s := by
  cases s <;> simp [Num.ofETime]

theorem addPulse_ok (G : Graph) (p : Pulse) (dd : Deme) (h : PulseOk G p dd) :
    addPulse G (strsV p.sources) (.str p.dest) (numV p.time) (numsV p.proportions)
      = .ok { G with pulses := G.pulses ++ [p] } := by
  have e1 : (p.sources.map Value.str).mapM (existingName G) = .ok p.sources :=
    mapM_map_ok_id _ _ _ (fun a ha => by
      obtain ⟨sd, h1, _⟩ := h.srcs a ha
      simp only [existingName, hasName_of_deme? h1, if_true]; rfl)
  have e2 : existingName G (.str p.dest) = .ok p.dest := by
    simp only [existingName, hasName_of_deme? h.dst, if_true]; rfl
  have a1 : (numV p.time).asNumRaw? = some (Num.fin p.time) := rfl
  have f1 : p.sources.forM (fun s => discard (timeIntersection G s p.dest (some (numV p.time)))) = .ok () :=
    forM_ok _ _ (fun s hs => by
      obtain ⟨sd, h1, h2, h3, _⟩ := h.srcs s hs
      simp only [timeIntersection, getDeme, h1, h.dst, pure_bind', a1, num_le_fin_ofETime, num_le_fin,
        decide_eq_true h2, decide_eq_true h3, Bool.and_self, if_true]
      rfl)
  have f2 : p.sources.forM (fun s => do
      let sd ← getDeme G s
      if some (Num.fin p.time) = some (Num.ofETime sd.startTime) then valueErr "invalid pulse at source's start_time" else pure ()) = .ok () :=
    forM_ok _ _ (fun s hs => by
      obtain ⟨sd, h1, _, _, h4⟩ := h.srcs s hs
      have : ¬ (some (Num.fin p.time) = some (Num.ofETime sd.startTime)) := by
        rw [Option.some.injEq, fin_eq_ofETime]; exact h4
      simp only [getDeme, h1, pure_bind', if_neg this]; rfl)
  have hne : ¬ (some (Num.fin p.time) = some (Num.fin dd.endTime)) := by
    rw [Option.some.injEq, Num.fin.injEq]; exact h.notEnd
  have hall : p.sources.all isIdentifier = true := List.all_eq_true.2 h.srcIds
  have hprops : (p.proportions.map numV).mapM unitExLoQ = .ok p.proportions :=
    mapM_map_ok_id _ _ _ (fun x hx => unitExLoQ_numV (h.props x hx).1 (h.props x hx).2)
  have hsum : ¬ (qsum p.proportions > 1) := by rw [qsum_eq]; have := h.sum; grind
  have hgd : getDeme G p.dest = .ok dd := by simp only [getDeme, h.dst]; rfl
  unfold addPulse
  simp only [strsV, numsV, instList_list, bind_ok, e1, e2, f1, hgd, a1, if_neg hne, f2,
    hall, Bool.not_true, Bool.false_eq_true, ↓reduceIte, h.nonempty, h.dstId, posFiniteQ_numV h.pos, hprops,
    h.notDest, h.nodup, decide_true, h.len, ne_eq, not_true_eq_false, if_neg hsum]
  rfl



theorem checkAllowed_pulse (p : Pulse) : checkAllowed (pulseObj p) allowedPulse = .ok () :=
  checkAllowed_ok _ _ (by rw [keys_pulseObj]; exact pulseKeys_allowed)

theorem resolvePulse_ok (G : Graph) (p : Pulse) (dd : Deme) (h : PulseOk G p dd) :
    resolvePulse [] G (pulseObj p) = .ok { G with pulses := G.pulses ++ [p] } := by
  have l0 : insertDefaults (pulseObj p) [] = pulseObj p := rfl
  have l1 : lookup "sources" (pulseObj p) = some (strsV p.sources) := rfl
  have l2 : lookup "dest" (pulseObj p) = some (.str p.dest) := rfl
  have l3 : lookup "time" (pulseObj p) = some (numV p.time) := rfl
  have l4 : lookup "proportions" (pulseObj p) = some (numsV p.proportions) := rfl
  unfold resolvePulse
  simp only [checkAllowed_pulse, bind_ok, l0, l1, l2, l3, l4]
  exact addPulse_ok G p dd h

/-- the graph under construction after all demes, all migrations and the pulses `ps` have been
added -/
def withPulses (g : Graph) (ps : List Pulse) : Graph := { withMigs g g.migrations with pulses := ps }

theorem withPulses_deme? (g : Graph) (ps : List Pulse) (a : String) :
    (withPulses g ps).deme? a = findDeme g a := deme?_eq _ rfl a

theorem pulseOk_of_valid {g : Graph} (h1 : v1 g = true) (h11 : v11 g = true) {pre : List Pulse}
    {p : Pulse} (hp : p ∈ g.pulses) : ∃ dd, PulseOk (withPulses g pre) p dd := by
  simp only [v1, Bool.and_eq_true, List.all_eq_true, decide_eq_true_eq] at h1
  have hid := h1.1.2
  simp only [v11, List.all_eq_true, Bool.and_eq_true, decide_eq_true_eq, Bool.not_eq_true', beq_iff_eq] at h11
  obtain ⟨⟨⟨⟨⟨⟨⟨b1, b2⟩, b3⟩, b4⟩, b5⟩, b6⟩, b7⟩, b8⟩ := h11 p hp
  split at b8
  · cases b8
  · rename_i dd hdst
    simp only [Bool.and_eq_true, bne_iff_ne, ne_eq, List.all_eq_true] at b8
    obtain ⟨c1, c2⟩ := b8
    obtain ⟨hdm, hdn⟩ := findDeme_some hdst
    refine ⟨dd, ?_, ?_, c1, ?_, hdn ▸ hid dd hdm, b1, b7, b5, b3, b2, b4, b6⟩
    · rw [withPulses_deme?]; exact hdst
    · intro s hs
      have := c2 s hs
      split at this
      · cases this
      · rename_i sd hsrc
        simp only [coexist, Bool.and_eq_true, bne_iff_ne, ne_eq] at this
        exact ⟨sd, by rw [withPulses_deme?]; exact hsrc, of_decide_eq_true this.1.1,
          of_decide_eq_true this.1.2, this.2⟩
    · intro s hs
      have := c2 s hs
      split at this
      · cases this
      · rename_i sd hsrc
        obtain ⟨hsm, hsn⟩ := findDeme_some hsrc
        exact hsn ▸ hid sd hsm

theorem pulses_loop {g : Graph} (h1 : v1 g = true) (h11 : v11 g = true) :
    ∀ (rest pre : List Pulse), g.pulses = pre ++ rest →
      (rest.map pulseObj).foldlM (resolvePulse []) (withPulses g pre) = .ok (withPulses g g.pulses) := by
  intro rest
  induction rest with
  | nil => intro pre hs; rw [hs, List.append_nil]; rfl
  | cons p rest ih =>
    intro pre hs
    obtain ⟨dd, hok⟩ := pulseOk_of_valid (pre := pre) h1 h11
      (show p ∈ g.pulses by rw [hs]; exact List.mem_append_right _ List.mem_cons_self)
    rw [List.map_cons, List.foldlM_cons, resolvePulse_ok _ p dd hok, bind_ok]
    exact ih (pre ++ [p]) (by rw [hs, List.append_assoc]; rfl)

/-! ### the final stable sort leaves a list that is already oldest-first alone -/

theorem sortPulses_sorted : ∀ ps : List Pulse, pairwiseB (fun a b => decide (b.time ≤ a.time)) ps = true →
    sortPulses ps = ps
  | [], _ => rfl
  | p :: ps, h => by
    simp only [pairwiseB, Bool.and_eq_true, List.all_eq_true, decide_eq_true_eq] at h
    show insertPulse p (sortPulses ps) = p :: ps
    rw [sortPulses_sorted ps h.2]
    cases ps with
    | nil => rfl
    | cons q qs => simp only [insertPulse, if_pos (h.1 q List.mem_cons_self)]

end Demes.Proofs.Asdict
