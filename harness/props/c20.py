"""C20 — the work done to resolve, convert and serialise grows polynomially.

Observation: deterministic executed-line counts (sys.settrace, restricted to files of the demes
package, child interpreter with PYTHONHASHSEED=0) of every public operation on families of models
parametrised by a size n.  Oracle (on the REAL code): the count at size 2n is at most 2^5 times
the count at n, and the log-log slope of the counts is at most 4.5.  Correspondence: the Model's
tick counts (lean/DemesVerif/Model/Cost.lean, driver op `cost`) and the measured line counts bound
each other linearly with the constants committed below.

This file is also the child program:  c20.py --child '<json>'  (it then imports only `demes`).
"""
from __future__ import annotations

import json
import math
import os
import subprocess
import sys
import time

# ----------------------------------------------------------------------------------------------
# families (documents), shared by parent and child
# ----------------------------------------------------------------------------------------------

RATE = 2.0 ** -12          # one shared rate (n * RATE << 1)


def _hdr(demes_, migrations=None, pulses=None):
    d = {"time_units": "generations", "demes": demes_}
    if migrations:
        d["migrations"] = migrations
    if pulses:
        d["pulses"] = pulses
    return d


def _flat(n):
    return [{"name": f"d{i}", "epochs": [{"start_size": 100 + i}]} for i in range(n)]


def _edges_ring(n):
    return [(i, (i + 1) % n) for i in range(n)] if n > 2 else [(0, 1)]


def _edges_path(n):
    return [(i, i + 1) for i in range(n - 1)]


def _edges_star(n):
    return [(0, i) for i in range(1, n)]


def _edges_clique(n):
    return [(i, j) for i in range(n) for j in range(i + 1, n)]


def _shared(edges):
    """one symmetric migration per edge, all with the same rate: a single (rate, None, None) class"""
    return [{"demes": [f"d{a}", f"d{b}"], "rate": RATE} for a, b in edges]


def _distinct(edges):
    """two asymmetric migrations per edge, all rates pairwise distinct"""
    out = []
    k = 0
    for a, b in edges:
        for s, t in ((a, b), (b, a)):
            k += 1
            out.append({"source": f"d{s}", "dest": f"d{t}", "rate": k * 2.0 ** -24})
    return out


def _per_edge(edges):
    """one symmetric migration per edge, every edge with its own rate: many rate classes of two ordered pairs each"""
    return [{"demes": [f"d{a}", f"d{b}"], "rate": (k + 1) * 2.0 ** -24} for k, (a, b) in enumerate(edges)]


def fam_ring_per_edge(n):
    return _hdr(_flat(n), _per_edge(_edges_ring(n)))


def fam_star_per_edge(n):
    return _hdr(_flat(n), _per_edge(_edges_star(n)))


def fam_island_shared(n):
    return _hdr(_flat(n), [{"demes": [f"d{i}" for i in range(n)], "rate": RATE}])


def fam_island_distinct(n):
    return _hdr(_flat(n), _distinct(_edges_clique(n)))


def fam_ring_shared(n):
    return _hdr(_flat(n), _shared(_edges_ring(n)))


def fam_ring_distinct(n):
    return _hdr(_flat(n), _distinct(_edges_ring(n)))


def fam_path_shared(n):
    return _hdr(_flat(n), _shared(_edges_path(n)))


def fam_path_distinct(n):
    return _hdr(_flat(n), _distinct(_edges_path(n)))


def fam_star_shared(n):
    return _hdr(_flat(n), _shared(_edges_star(n)))


def fam_star_distinct(n):
    return _hdr(_flat(n), _distinct(_edges_star(n)))


def fam_island_outpost_shared(n):
    """an island model over n-1 demes plus one further deme exchanging migrants with d0 only, all at one rate: one
    (rate, None, None) class that is a clique plus a pendant pair (polynomial: the clique is found at the first size tried)"""
    return _hdr(_flat(n), [{"demes": [f"d{i}" for i in range(n - 1)], "rate": RATE}, {"demes": ["d0", f"d{n-1}"], "rate": RATE}]
                if n > 2 else [{"demes": ["d0", "d1"], "rate": RATE}])


def fam_admix_ladder(n):
    """ancestry DAG with many paths: deme i is an admixture of demes i-1 and i-2 (the number of ancestry PATHS to a root
    grows like the Fibonacci numbers, the number of demes and edges linearly); every deme lives to time 0"""
    ds = [{"name": "d0", "epochs": [{"start_size": 100}]}, {"name": "d1", "epochs": [{"start_size": 101}]}]
    for i in range(2, n):
        ds.append({"name": f"d{i}", "ancestors": [f"d{i-1}", f"d{i-2}"], "proportions": [0.5, 0.5], "start_time": 10 * (n - i),
                   "epochs": [{"start_size": 100 + i}]})
    return _hdr(ds[:max(n, 2)])


def fam_chain(n):
    """chain of ancestry: deme i descends from deme i-1"""
    ds = [{"name": "d0", "epochs": [{"start_size": 100, "end_time": 10 * n}]}]
    for i in range(1, n):
        ds.append({"name": f"d{i}", "ancestors": [f"d{i-1}"],
                   "epochs": [{"start_size": 100 + i, "end_time": 10 * (n - i) if i < n - 1 else 0}]})
    return _hdr(ds)


def fam_epochs(n):
    """one deme with n epochs (alternating constant / exponential)"""
    eps = []
    for j in range(n):
        e = {"end_time": 10 * (n - 1 - j), "start_size": 100 + j}
        if j % 2 == 1:
            e["end_size"] = 200 + j
        eps.append(e)
    return _hdr([{"name": "d0", "epochs": eps}])


def fam_pulses_distinct(n):
    ps = [{"sources": ["d0"], "dest": "d1", "time": 10 * (k + 1), "proportions": [2.0 ** -8]} for k in range(n)]
    return _hdr(_flat(2), None, ps)


def fam_pulses_same(n):
    ps = [{"sources": ["d0"], "dest": "d1", "time": 10, "proportions": [2.0 ** -8]} for k in range(n)]
    return _hdr(_flat(2), None, ps)


def fam_migs_bounds(n):
    """n migrations d0 -> d1 (and back) over alternating disjoint intervals: 2n + 1 boundaries"""
    ms = []
    for k in range(n):
        src, dst = ("d0", "d1") if k % 2 == 0 else ("d1", "d0")
        ms.append({"source": src, "dest": dst, "rate": RATE, "start_time": 20 * k + 20, "end_time": 20 * k + 10})
    return _hdr(_flat(2), ms)


def fam_clique_bounds(n):
    """clique whose migrations all have distinct time bounds: boundaries x migrations (degree 4)"""
    ms = []
    k = 0
    for a, b in _edges_clique(n):
        for s, t in ((a, b), (b, a)):
            ms.append({"source": f"d{s}", "dest": f"d{t}", "rate": RATE, "start_time": 20 * k + 20, "end_time": 20 * k + 10})
            k += 1
    return _hdr(_flat(n), ms)


# name -> (builder, shared-rate class of >= 3 demes?, size class)
#   size class: "lin" (sizes up to 40), "quad" (n^2 migrations: up to 20), "exp" (F9 candidates)
FAMILIES = {
    "island_shared": (fam_island_shared, True, "quad"),
    "island_distinct": (fam_island_distinct, False, "quad"),
    "clique_bounds": (fam_clique_bounds, False, "quad"),
    "ring_shared": (fam_ring_shared, True, "exp"),
    "ring_distinct": (fam_ring_distinct, False, "lin"),
    "path_shared": (fam_path_shared, True, "exp"),
    "path_distinct": (fam_path_distinct, False, "lin"),
    "star_shared": (fam_star_shared, True, "exp"),
    "star_distinct": (fam_star_distinct, False, "lin"),
    "ring_per_edge": (fam_ring_per_edge, False, "lin"),
    "star_per_edge": (fam_star_per_edge, False, "lin"),
    "chain": (fam_chain, False, "lin"),
    "island_outpost_shared": (fam_island_outpost_shared, True, "quad"),
    "admix_ladder": (fam_admix_ladder, False, "lin"),
    "epochs": (fam_epochs, False, "lin"),
    "pulses_distinct": (fam_pulses_distinct, False, "lin"),
    "pulses_same": (fam_pulses_same, False, "lin"),
    "migs_bounds": (fam_migs_bounds, False, "lin"),
}

# operations; those in SIMPLIFY_OPS go through Graph.asdict_simplified -> simplify_migration_rates
OPS = ["fromdict", "asdict", "asdict_simplified", "migration_matrices", "in_generations", "to_ms",
       "dumps_yaml_simplified", "dumps_json_simplified", "dumps_yaml_full", "dumps_json_full", "str"]
SIMPLIFY_OPS = {"asdict_simplified", "dumps_yaml_simplified", "dumps_json_simplified", "str"}
CAP = 2_000_000

SIZES = {
    "quick": {"lin": [4, 5, 6, 8, 10, 12, 16, 20, 24, 32], "quad": [4, 5, 6, 8, 10, 12, 16], "exp": [4, 5, 6, 7, 8, 10, 12, 14, 16]},
    "thorough": {"lin": [4, 5, 6, 7, 8, 10, 12, 14, 16, 20, 24, 28, 32, 40],
                 "quad": [4, 5, 6, 7, 8, 10, 12, 14, 16, 20],
                 "exp": [4, 5, 6, 7, 8, 9, 10, 11, 12, 13, 14, 15, 16, 18]},
}
# sizes used for the operations of an "exp" family that do NOT go through the search
EXP_OTHER = {"quick": [4, 5, 6, 8, 10, 12, 16, 20, 24, 32], "thorough": [4, 5, 6, 7, 8, 10, 12, 14, 16, 20, 24, 28, 32, 40]}


def sizes_for(tier, fam, op):
    cls = FAMILIES[fam][2]
    if cls == "exp" and op not in SIMPLIFY_OPS:
        return EXP_OTHER[tier]
    return SIZES[tier][cls]


# ----------------------------------------------------------------------------------------------
# child: measure executed lines
# ----------------------------------------------------------------------------------------------

class CapExceeded(Exception):
    pass


def child_main(arg):
    import warnings
    warnings.simplefilter("ignore")
    import demes
    pkg = os.path.dirname(os.path.abspath(demes.__file__)) + os.sep
    fam = arg["family"]
    build = FAMILIES[fam][0]
    cap = arg["cap"]
    state = {"n": 0}
    in_pkg = {}

    def local(frame, event, _arg):
        if event == "line":
            state["n"] += 1
            if state["n"] > cap:
                raise CapExceeded()
        return local

    def glob(frame, event, _arg):
        fn = frame.f_code.co_filename
        r = in_pkg.get(fn)
        if r is None:
            r = in_pkg[fn] = os.path.abspath(fn).startswith(pkg)
        return local if r else None

    def measure(fn):
        state["n"] = 0
        sys.settrace(glob)
        try:
            fn()
            return state["n"]
        except CapExceeded:
            return "cap"
        finally:
            sys.settrace(None)

    def op_fns(doc, g):
        return {
            "fromdict": lambda: demes.Graph.fromdict(doc),
            "asdict": lambda: g.asdict(),
            "asdict_simplified": lambda: g.asdict_simplified(),
            "migration_matrices": lambda: g.migration_matrices(),
            "in_generations": lambda: g.in_generations(),
            "to_ms": lambda: demes.to_ms(g, N0=100),
            "dumps_yaml_simplified": lambda: demes.dumps(g, format="yaml", simplified=True),
            "dumps_json_simplified": lambda: demes.dumps(g, format="json", simplified=True),
            "dumps_yaml_full": lambda: demes.dumps(g, format="yaml", simplified=False),
            "dumps_json_full": lambda: demes.dumps(g, format="json", simplified=False),
            "str": lambda: str(g),
        }

    # warm-up (lazy imports, caches) on the smallest model, untraced and traced
    doc = build(3)
    g = demes.Graph.fromdict(doc)
    for name, fn in op_fns(doc, g).items():
        try:
            fn()
            measure(fn)
        except Exception:  # noqa: BLE001
            pass
    out = {}
    capped = set()
    for op, sizes in arg["plan"].items():
        for n in sizes:
            key = f"{op}:{n}"
            if op in capped:
                out[key] = "cap"     # a larger size of an operation that already hit the cap
                continue
            doc = build(n)
            g = demes.Graph.fromdict(doc)
            fn = op_fns(doc, g)[op]
            try:
                c = measure(fn)
            except Exception as e:  # noqa: BLE001
                out[key] = {"skip": f"{type(e).__name__}: {e}"[:120]}
                continue
            out[key] = c
            if c == "cap":
                capped.add(op)
    json.dump({"file": demes.__file__, "counts": out}, sys.stdout)


if __name__ == "__main__" and len(sys.argv) >= 3 and sys.argv[1] == "--child":
    child_main(json.loads(sys.argv[2]))
    sys.exit(0)

# ----------------------------------------------------------------------------------------------
# parent
# ----------------------------------------------------------------------------------------------

RULE = ("18 model families (islands/cliques, an island model with a pendant pair, an admixture ladder, rings, paths, stars with one shared rate and with pairwise distinct rates, "
        "clique with distinct time bounds, ancestry chain, one deme with n epochs, n pulses at distinct times / at one "
        "time, n migrations over alternating intervals) x 11 public operations x sizes 4..40 (4..20 for families with "
        "n^2 migrations, 4..16/18 for the shared-rate search); a case is one (family, operation, size) line count; "
        "non-trivial = size >= 8")
ASSUMPTIONS = [
    "work = executed source lines of the demes package (sys.settrace 'line' events; C-level work of list/dict/sort primitives, attrs and the text codecs is not counted)",
    "counts are deterministic in a child interpreter with PYTHONHASHSEED=0 after a warm-up call",
    "a single measurement is capped at 2e6 lines; hitting the cap counts as exceeding the bound",
    "polynomial growth is judged on the measured range only: count(2n) <= 32*count(n) and log-log slope <= 4.5",
    "the Model's tick counts are tied to the line counts by linear two-sided bounds with committed constants (Model lookups are association lists, the code's are dicts, so the Model's count is the larger one)",
]
EXPLANATION = ("Theorems cost_matrices_poly / cost_asdict_poly / cost_inGenerations_poly / cost_resolve_poly bound the "
               "Model's step counts by explicit polynomials for all graphs; cost_simplify_ring_lower proves the "
               "symmetric-group search exponential on rings (F9) and cost_simplify_distinct_rates_poly polynomial when "
               "no two migrations share (rate, start, end). The tie to the code is the measured line counts: growth "
               "oracle on the real code plus two-sided linear bounds against the Model's ticks.")

F9_PREFIX = "F9 exponential symmetric-group search: "

# correspondence constants: lines <= A*ticks + B  and  ticks <= A2*lines + B2   (per Model cost)
#   op -> (cost key, A, B, A2, B2)
CORR = {
    # calibrated on the unchanged tree (thorough tier, sizes up to 40); observed maxima of
    # (lines-B)/ticks and (ticks-B2)/lines in brackets; the constants are 2.5-3x those
    "fromdict": ("resolve", 100, 1000, 6, 200),           # [37 (one deme, many epochs: ~80 lines per epoch tick); 1.7]
    "asdict": ("asdict", 24, 400, 2, 100),                # [8.7; 0.12]
    "migration_matrices": ("matrices", 4, 100, 48, 200),  # [1.5; 15 (n^2 cells allocated by one line)]
    "in_generations": ("in_generations", 8, 100, 2, 100), # [2.8; 0.25]
    "asdict_simplified": ("simplify", 24, 400, 16, 400),  # [9.1 (5.2 on the exponential families); 5.5]
}
# the search alone against the simplified-form line count: Model exponential => code exponential
CORR_SEARCH = (1, 2000)      # search ticks <= A*lines + B      [0.34 on star_shared]


def run_children(tier, fams, plan_of, cap=CAP, timeout=900):
    env = dict(os.environ)
    env["PYTHONHASHSEED"] = "0"
    procs = {}
    for fam in fams:
        arg = {"family": fam, "cap": cap, "plan": plan_of(fam)}
        procs[fam] = subprocess.Popen([sys.executable, os.path.abspath(__file__), "--child", json.dumps(arg)],
                                      stdout=subprocess.PIPE, stderr=subprocess.PIPE, env=env)
    res = {}
    for fam, p in procs.items():
        try:
            out, err = p.communicate(timeout=timeout)
        except subprocess.TimeoutExpired:
            p.kill()
            raise RuntimeError(f"child for {fam} timed out")
        if p.returncode != 0:
            raise RuntimeError(f"child for {fam} failed: {err.decode()[-2000:]}")
        res[fam] = json.loads(out.decode())
    return res


def slope(points):
    """least-squares slope of log(count) against log(n)"""
    xs = [math.log(n) for n, _ in points]
    ys = [math.log(c) for _, c in points]
    k = len(xs)
    if k < 3:
        return 0.0
    mx, my = sum(xs) / k, sum(ys) / k
    den = sum((x - mx) ** 2 for x in xs)
    return sum((x - mx) * (y - my) for x, y in zip(xs, ys)) / den if den else 0.0


def growth_findings(series):
    """series: sorted list of (n, count|'cap').  Returns a list of reasons the growth bound is exceeded."""
    why = []
    nums = {n: c for n, c in series if isinstance(c, int)}
    for n, c in series:
        if c == "cap":
            why.append({"kind": "cap", "size": n, "cap": CAP})
            break
    for n in sorted(nums):
        if n >= 4 and 2 * n in nums and nums[2 * n] > 32 * nums[n]:
            why.append({"kind": "doubling", "sizes": [n, 2 * n], "counts": [nums[n], nums[2 * n]],
                        "ratio": round(nums[2 * n] / nums[n], 2)})
    pts = [(n, c) for n, c in sorted(nums.items()) if n >= 4]
    s = slope(pts[len(pts) // 2 - 1:]) if len(pts) >= 4 else slope(pts)   # upper half of the range: the asymptotic end
    s_all = slope(pts)
    if max(s, s_all) > 4.5:
        why.append({"kind": "slope", "slope": round(max(s, s_all), 2), "points": pts})
    return why


def repro(fam, op, n):
    return (f"cd {os.path.dirname(os.path.dirname(os.path.abspath(__file__)))} && PYTHONHASHSEED=0 /venv/bin/python props/c20.py --child "
            f"'{json.dumps({'family': fam, 'cap': CAP, 'plan': {op: [n]}})}'")


def run(ctx):
    from props.common import demes, enc  # noqa: F401
    tier = ctx.tier
    fams = list(FAMILIES)

    def plan_of(fam):
        return {op: sizes_for(tier, fam, op) for op in OPS}

    t0 = time.time()
    res = run_children(tier, fams, plan_of)
    ctx.extra["measure_wall_s"] = round(time.time() - t0, 1)
    files = {r["file"] for r in res.values()}
    ctx.extra["demes_file"] = sorted(files)
    # Model ticks
    reqs, keys = [], []
    for fam in fams:
        build, shared, cls = FAMILIES[fam]
        sizes = sorted({n for op in CORR for n in sizes_for(tier, fam, op)})
        for n in sizes:
            g = demes.Graph.fromdict(build(n))
            simp = n in sizes_for(tier, fam, "asdict_simplified")
            reqs.append({"op": "cost", "graph": enc(g.asdict()), "simplify": simp})
            keys.append((fam, n))
    ticks = {}
    for k, r in zip(keys, ctx.driver.batch(reqs)):
        if "ok" not in r:
            raise RuntimeError(f"cost op failed on {k}: {r}")
        ticks[k] = r["ok"]
    table = {}
    for fam in fams:
        build, shared, cls = FAMILIES[fam]
        counts = res[fam]["counts"]
        for op in OPS:
            series = []
            skipped = None
            for n in sizes_for(tier, fam, op):
                c = counts.get(f"{op}:{n}")
                if isinstance(c, dict):
                    skipped = c["skip"]
                    continue
                series.append((n, c))
                case = {"family": fam, "operation": op, "size": n, "lines": c}
                ctx.count(case, n >= 8, tags=[f"family:{fam}", f"op:{op}", "capped" if c == "cap" else "measured"])
            if skipped:
                # every family is meant to be expressible by every operation: an exception means the
                # operation could not be measured (the tie between Model and code is not established)
                ctx.dist[f"raised:{op}"] += 1
                ctx.disagreement(f"measure:{op}", {"family": fam, "operation": op}, f"raised {skipped}", "no exception expected")
                if not series:
                    continue
            table[f"{fam}/{op}"] = series
            # --- oracle on the real code
            why = growth_findings(series)
            if why:
                case = {"family": fam, "operation": op, "sizes": [n for n, _ in series], "counts": [c for _, c in series]}
                n_bad = (why[0].get("sizes") or [why[0].get("size")] or [series[-1][0]])[-1] or series[-1][0]
                if op in SIMPLIFY_OPS and shared and fam not in ("island_shared", "island_outpost_shared"):
                    # (a complete clique with one rate is found at the first subset: polynomial on the
                    # unchanged tree, so a blow-up there is NOT the known finding)
                    what = F9_PREFIX + f"family {fam}, operation {op}"
                else:
                    what = f"super-polynomial growth of executed lines: family {fam}, operation {op}"
                ctx.violation(what, case, detail=why, python=repro(fam, op, n_bad))
            # --- correspondence with the Model's ticks
            if op in CORR:
                key, A, B, A2, B2 = CORR[op]
                for n, c in series:
                    t = ticks.get((fam, n), {}).get(key)
                    if t is None or not isinstance(c, int):
                        continue
                    ctx.compared += 1
                    if c > A * t + B:
                        ctx.disagreement(f"cost:{op}", {"family": fam, "size": n},
                                         f"{c} lines", f"{t} ticks; expected lines <= {A}*ticks + {B}")
                    if t > A2 * c + B2:
                        ctx.disagreement(f"cost:{op}", {"family": fam, "size": n},
                                         f"{c} lines", f"{t} ticks; expected ticks <= {A2}*lines + {B2}")
                    if op == "asdict_simplified":
                        s = ticks[(fam, n)].get("search")
                        if s is not None and s > CORR_SEARCH[0] * c + CORR_SEARCH[1]:
                            ctx.disagreement("cost:search", {"family": fam, "size": n},
                                             f"{c} lines", f"{s} search ticks; expected <= {CORR_SEARCH[0]}*lines + {CORR_SEARCH[1]}")
    ctx.extra["line_counts"] = {k: v for k, v in table.items()}
    ctx.extra["model_ticks"] = {f"{f}:{n}": t for (f, n), t in ticks.items()}


def replay(ctx, payload):
    inp = payload["input"]
    fam, op = inp["family"], inp["operation"]
    res = run_children(ctx.tier, [fam], lambda f: {op: inp["sizes"]})
    print("family", fam, "operation", op)
    print("recorded :", list(zip(inp["sizes"], inp["counts"])))
    series = [(n, res[fam]["counts"].get(f"{op}:{n}")) for n in inp["sizes"]]
    print("now      :", series)
    why = growth_findings(series)
    print("growth bound exceeded:" if why else "growth bound holds", json.dumps(why)[:1000] if why else "")
    return 1 if why else 0
