/-
  Proofs for C11: `Graph.in_generations` rescales all the times and nothing else, and maps
  valid graphs to valid graphs.
-/
import DemesVerif.Spec.Relations
namespace Demes.Proofs.InGen
open Demes Demes.Spec

/-! ### Division by a positive rational -/

theorem div_lt_div {a b c : Q} (h : 0 < c) : a / c < b / c ↔ a < b := by
  rw [Rat.div_lt_iff h, Rat.div_mul_cancel (Rat.ne_of_gt h)]

theorem div_le_div {a b c : Q} (h : 0 < c) : a / c ≤ b / c ↔ a ≤ b := by
  rw [← Rat.not_lt, ← Rat.not_lt, div_lt_div h]

theorem div_eq_div {a b c : Q} (h : 0 < c) : a / c = b / c ↔ a = b := by
  rw [Rat.le_antisymm_iff, div_le_div h, div_le_div h, ← Rat.le_antisymm_iff]

theorem zero_div (c : Q) : (0 : Q) / c = 0 := by
  rw [Rat.div_def, Rat.zero_mul]

theorem div_one (a : Q) : a / 1 = a := by grind

theorem div_nonneg {a c : Q} (h : 0 < c) : 0 ≤ a / c ↔ 0 ≤ a := by
  have := @div_le_div 0 a c h
  rwa [zero_div] at this

theorem div_pos {a c : Q} (h : 0 < c) : 0 < a / c ↔ 0 < a := by
  have := @div_lt_div 0 a c h
  rwa [zero_div] at this

theorem qmax_div {a b c : Q} (h : 0 < c) : qmax (a / c) (b / c) = qmax a b / c := by
  unfold qmax
  by_cases hab : a ≤ b
  · rw [if_pos hab, if_pos ((div_le_div h).2 hab)]
  · rw [if_neg hab, if_neg (fun h' => hab ((div_le_div h).1 h'))]

/-! ### Extended times -/

theorem fin_lt_fin {a b : Q} : (ETime.fin a < ETime.fin b) ↔ a < b := Iff.rfl
theorem fin_le_fin {a b : Q} : (ETime.fin a ≤ ETime.fin b) ↔ a ≤ b := Iff.rfl
theorem fin_lt_inf {a : Q} : (ETime.fin a < ETime.inf) ↔ True := Iff.rfl
theorem inf_lt {a : ETime} : (ETime.inf < a) ↔ False := Iff.rfl
theorem le_inf {a : ETime} : (a ≤ ETime.inf) ↔ True := by cases a <;> exact Iff.rfl
theorem inf_le_fin {a : Q} : (ETime.inf ≤ ETime.fin a) ↔ False := Iff.rfl

theorem ediv_fin (q c : Q) : (ETime.fin q).div c = ETime.fin (q / c) := rfl
theorem ediv_inf (c : Q) : ETime.inf.div c = ETime.inf := rfl

theorem ediv_lt_ediv {a b : ETime} {c : Q} (h : 0 < c) : a.div c < b.div c ↔ a < b := by
  cases a <;> cases b <;>
    simp only [ediv_fin, ediv_inf, fin_lt_fin, fin_lt_inf, inf_lt, div_lt_div h]

theorem ediv_le_ediv {a b : ETime} {c : Q} (h : 0 < c) : a.div c ≤ b.div c ↔ a ≤ b := by
  cases a <;> cases b <;>
    simp only [ediv_fin, ediv_inf, fin_le_fin, le_inf, inf_le_fin, div_le_div h]

theorem ediv_eq_ediv {a b : ETime} {c : Q} (h : 0 < c) : a.div c = b.div c ↔ a = b := by
  cases a <;> cases b <;>
    simp only [ediv_fin, ediv_inf, ETime.fin.injEq, div_eq_div h, reduceCtorEq]

theorem isInf_ediv (a : ETime) (c : Q) : (a.div c).isInf = a.isInf := by
  cases a <;> rfl

theorem ediv_one (a : ETime) : a.div 1 = a := by
  cases a
  · rw [ediv_fin, div_one]
  · rfl

theorem emin_ediv {a b : ETime} {c : Q} (h : 0 < c) :
    ETime.min (a.div c) (b.div c) = (ETime.min a b).div c := by
  unfold ETime.min
  by_cases hab : a ≤ b
  · rw [if_pos hab, if_pos ((ediv_le_ediv h).2 hab)]
  · rw [if_neg hab, if_neg (fun h' => hab ((ediv_le_ediv h).1 h'))]

/-- `fin x < t/c ↔ fin (x·c)…` in the form used below: a finite time divided, against a
divided extended time -/
theorem fin_div_lt_ediv {x : Q} {b : ETime} {c : Q} (h : 0 < c) :
    ETime.fin (x / c) < b.div c ↔ ETime.fin x < b := by
  rw [← ediv_fin, ediv_lt_ediv h]

theorem fin_div_le_ediv {x : Q} {b : ETime} {c : Q} (h : 0 < c) :
    ETime.fin (x / c) ≤ b.div c ↔ ETime.fin x ≤ b := by
  rw [← ediv_fin, ediv_le_ediv h]

theorem ediv_le_fin_div {x : Q} {b : ETime} {c : Q} (h : 0 < c) :
    b.div c ≤ ETime.fin (x / c) ↔ b ≤ ETime.fin x := by
  rw [← ediv_fin, ediv_le_ediv h]

theorem fin_div_eq_ediv {x : Q} {b : ETime} {c : Q} (h : 0 < c) :
    ETime.fin (x / c) = b.div c ↔ ETime.fin x = b := by
  rw [← ediv_fin, ediv_eq_ediv h]

theorem fin_zero_lt_ediv {b : ETime} {c : Q} (h : 0 < c) :
    ETime.fin 0 < b.div c ↔ ETime.fin 0 < b := by
  have := @fin_div_lt_ediv 0 b c h
  rwa [zero_div] at this

/-! ### Generic list facts -/

theorem all_congr_mem {α} {l : List α} {p q : α → Bool} (h : ∀ x ∈ l, p x = q x) :
    l.all p = l.all q := by
  induction l with
  | nil => rfl
  | cons x xs ih =>
    rw [List.all_cons, List.all_cons, h x List.mem_cons_self,
      ih (fun y hy => h y (List.mem_cons_of_mem _ hy))]

theorem all_map' {α β} (f : α → β) (l : List α) (p : β → Bool) :
    (l.map f).all p = l.all (fun x => p (f x)) := by
  rw [List.all_map]; rfl

theorem any_map' {α β} (f : α → β) (l : List α) (p : β → Bool) :
    (l.map f).any p = l.any (fun x => p (f x)) := by
  rw [List.any_map]; rfl

theorem pairwiseB_map {α β} (f : α → β) (r : α → α → Bool) (r' : β → β → Bool)
    (h : ∀ a b, r' (f a) (f b) = r a b) (l : List α) :
    pairwiseB r' (l.map f) = pairwiseB r l := by
  induction l with
  | nil => rfl
  | cons x xs ih =>
    simp only [List.map_cons, pairwiseB, all_map', h, ih]

/-! ### Field projections of the scaled objects -/

section fields
variable (c : Q)

@[simp] theorem Epoch.scale_startTime (e : Epoch) : (e.scale c).startTime = e.startTime.div c := rfl
@[simp] theorem Epoch.scale_endTime (e : Epoch) : (e.scale c).endTime = e.endTime / c := rfl
@[simp] theorem Epoch.scale_startSize (e : Epoch) : (e.scale c).startSize = e.startSize := rfl
@[simp] theorem Epoch.scale_endSize (e : Epoch) : (e.scale c).endSize = e.endSize := rfl
@[simp] theorem Epoch.scale_sizeFunction (e : Epoch) : (e.scale c).sizeFunction = e.sizeFunction := rfl
@[simp] theorem Epoch.scale_selfingRate (e : Epoch) : (e.scale c).selfingRate = e.selfingRate := rfl
@[simp] theorem Epoch.scale_cloningRate (e : Epoch) : (e.scale c).cloningRate = e.cloningRate := rfl

@[simp] theorem Deme.scale_name (d : Deme) : (d.scale c).name = d.name := rfl
@[simp] theorem Deme.scale_description (d : Deme) : (d.scale c).description = d.description := rfl
@[simp] theorem Deme.scale_startTime (d : Deme) : (d.scale c).startTime = d.startTime.div c := rfl
@[simp] theorem Deme.scale_ancestors (d : Deme) : (d.scale c).ancestors = d.ancestors := rfl
@[simp] theorem Deme.scale_proportions (d : Deme) : (d.scale c).proportions = d.proportions := rfl
@[simp] theorem Deme.scale_epochs (d : Deme) : (d.scale c).epochs = d.epochs.map (Epoch.scale c) := rfl

@[simp] theorem Migration.scale_source (m : Migration) : (m.scale c).source = m.source := rfl
@[simp] theorem Migration.scale_dest (m : Migration) : (m.scale c).dest = m.dest := rfl
@[simp] theorem Migration.scale_startTime (m : Migration) : (m.scale c).startTime = m.startTime.div c := rfl
@[simp] theorem Migration.scale_endTime (m : Migration) : (m.scale c).endTime = m.endTime / c := rfl
@[simp] theorem Migration.scale_rate (m : Migration) : (m.scale c).rate = m.rate := rfl

@[simp] theorem Pulse.scale_sources (p : Pulse) : (p.scale c).sources = p.sources := rfl
@[simp] theorem Pulse.scale_dest (p : Pulse) : (p.scale c).dest = p.dest := rfl
@[simp] theorem Pulse.scale_time (p : Pulse) : (p.scale c).time = p.time / c := rfl
@[simp] theorem Pulse.scale_proportions (p : Pulse) : (p.scale c).proportions = p.proportions := rfl

/-- the end time (last epoch's end) of a scaled deme is the scaled end time -/
theorem Deme.scale_endTime (d : Deme) : (d.scale c).endTime = d.endTime / c := by
  unfold Deme.endTime Deme.endTime?
  rw [Deme.scale_epochs, List.getLast?_map]
  cases d.epochs.getLast? with
  | none => simp only [Option.map_none, Option.getD_none, zero_div]
  | some e => simp only [Option.map_some, Option.getD_some, Epoch.scale_endTime]

end fields

@[simp] theorem inGen_demes (g : Graph) :
    (inGenerations g).demes = g.demes.map (Deme.scale g.generationTime) := rfl
@[simp] theorem inGen_migrations (g : Graph) :
    (inGenerations g).migrations = g.migrations.map (Migration.scale g.generationTime) := rfl
@[simp] theorem inGen_pulses (g : Graph) :
    (inGenerations g).pulses = g.pulses.map (Pulse.scale g.generationTime) := rfl
@[simp] theorem inGen_index (g : Graph) : (inGenerations g).index = g.index := rfl
@[simp] theorem inGen_timeUnits (g : Graph) : (inGenerations g).timeUnits = "generations" := rfl
@[simp] theorem inGen_generationTime (g : Graph) : (inGenerations g).generationTime = 1 := rfl
@[simp] theorem inGen_doi (g : Graph) : (inGenerations g).doi = g.doi := rfl
@[simp] theorem inGen_description (g : Graph) : (inGenerations g).description = g.description := rfl
@[simp] theorem inGen_metadata (g : Graph) : (inGenerations g).metadata = g.metadata := rfl

theorem findDeme_inGen (g : Graph) (a : String) :
    findDeme (inGenerations g) a = (findDeme g a).map (Deme.scale g.generationTime) := by
  unfold findDeme
  rw [inGen_demes, List.find?_map]
  rfl

/-! ### The clauses of `validGraph` transfer (as Boolean equalities) -/

theorem beq_congr {α β} [DecidableEq α] [DecidableEq β] {a b : α} {x y : β}
    (h : a = b ↔ x = y) : (a == b) = (x == y) := by
  by_cases hab : a = b
  · rw [beq_iff_eq.2 hab, beq_iff_eq.2 (h.1 hab)]
  · rw [beq_eq_false_iff_ne.2 hab, beq_eq_false_iff_ne.2 (fun hxy => hab (h.2 hxy))]

theorem bne_congr {α β} [DecidableEq α] [DecidableEq β] {a b : α} {x y : β}
    (h : a = b ↔ x = y) : (a != b) = (x != y) := by
  unfold bne; rw [beq_congr h]

theorem v0_inGen (g : Graph) : v0 (inGenerations g) = v0 g := by
  unfold v0
  rw [inGen_index, inGen_demes, List.zipIdx_map, List.map_map]
  rfl

theorem v1_inGen (g : Graph) : v1 (inGenerations g) = v1 g := by
  unfold v1
  rw [inGen_demes, List.isEmpty_map, all_map', List.map_map]
  rfl

theorem v2_inGen (g : Graph) : v2 (inGenerations g) = v2 g := by
  unfold v2
  rw [inGen_demes, List.zipIdx_map, all_map']
  apply all_congr_mem
  rintro ⟨d, i⟩ _
  simp only [Prod.map, id, Deme.scale_ancestors, Deme.scale_name, ← List.map_take, any_map']
  rfl

theorem v3_inGen (g : Graph) (h : 0 < g.generationTime) : v3 (inGenerations g) = v3 g := by
  unfold v3
  rw [inGen_demes, all_map']
  apply all_congr_mem
  intro d _
  simp only [Deme.scale_ancestors, Deme.scale_startTime, isInf_ediv, fin_zero_lt_ediv h]
  congr 2
  apply all_congr_mem
  intro a _
  rw [findDeme_inGen]
  cases findDeme g a with
  | none => rfl
  | some anc =>
    simp only [Option.map_some, Deme.scale_startTime, Deme.scale_endTime, ediv_lt_ediv h,
      fin_div_le_ediv h]

theorem v4_inGen (g : Graph) : v4 (inGenerations g) = v4 g := by
  unfold v4
  rw [inGen_demes, all_map']
  rfl

theorem contiguous_scale {c : Q} (h : 0 < c) (es : List Epoch) (s : ETime) :
    contiguous (s.div c) (es.map (Epoch.scale c)) = contiguous s es := by
  induction es generalizing s with
  | nil => rfl
  | cons e es ih =>
    simp only [List.map_cons, contiguous]
    congr 1
    · congr 1
      · exact beq_congr (ediv_eq_ediv h)
      · exact decide_eq_decide.2 (fin_div_lt_ediv h)
    · exact ih (ETime.fin e.endTime)

theorem v5_inGen (g : Graph) (h : 0 < g.generationTime) : v5 (inGenerations g) = v5 g := by
  unfold v5
  rw [inGen_demes, all_map']
  apply all_congr_mem
  intro d _
  simp only [Deme.scale_epochs, Deme.scale_startTime, List.isEmpty_map, contiguous_scale h]

theorem v6_inGen (g : Graph) (h : 0 < g.generationTime) : v6 (inGenerations g) = v6 g := by
  unfold v6
  rw [inGen_demes, all_map']
  apply all_congr_mem
  intro d _
  rw [Deme.scale_epochs, all_map']
  apply all_congr_mem
  intro e _
  simp only [Epoch.scale_startTime, Epoch.scale_endTime, Epoch.scale_startSize,
    Epoch.scale_endSize, Epoch.scale_sizeFunction, Epoch.scale_selfingRate,
    Epoch.scale_cloningRate, isInf_ediv, div_nonneg h]
  rfl

theorem coexist_scale {c : Q} (h : 0 < c) (a b : Deme) :
    coexist (a.scale c) (b.scale c) = ((coexist a b).1 / c, (coexist a b).2.div c) := by
  simp only [coexist, Deme.scale_endTime, Deme.scale_startTime, qmax_div h, emin_ediv h]

theorem v8_inGen (g : Graph) (h : 0 < g.generationTime) : v8 (inGenerations g) = v8 g := by
  unfold v8
  rw [inGen_migrations, all_map']
  apply all_congr_mem
  intro m _
  simp only [Migration.scale_source, Migration.scale_dest, findDeme_inGen]
  cases findDeme g m.source with
  | none => rfl
  | some s =>
    cases findDeme g m.dest with
    | none => rfl
    | some d =>
      simp only [Option.map_some, coexist_scale h, Migration.scale_startTime,
        Migration.scale_endTime, Migration.scale_rate, fin_div_lt_ediv h, div_le_div h,
        ediv_le_ediv h]
      rfl

theorem activeAt_scale {c : Q} (h : 0 < c) (m : Migration) (t : Q) :
    activeAt (m.scale c) (t / c) = activeAt m t := by
  simp only [activeAt, Migration.scale_startTime, Migration.scale_endTime, fin_div_lt_ediv h,
    div_le_div h]

theorem disjoint_scale {c : Q} (h : 0 < c) (a b : Migration) :
    disjoint (a.scale c) (b.scale c) = disjoint a b := by
  simp only [disjoint, Migration.scale_startTime, Migration.scale_endTime, fin_div_lt_ediv h]

theorem v9_inGen (g : Graph) (h : 0 < g.generationTime) : v9 (inGenerations g) = v9 g := by
  unfold v9
  rw [inGen_migrations]
  apply pairwiseB_map
  intro a b
  simp only [Migration.scale_source, Migration.scale_dest, disjoint_scale h]

theorem ingressAt_inGen (g : Graph) (h : 0 < g.generationTime) (dest : String) (t : Q) :
    ingressAt (inGenerations g) dest (t / g.generationTime) = ingressAt g dest t := by
  unfold ingressAt
  rw [inGen_migrations, List.filter_map, List.map_map]
  congr 1
  have : (fun m : Migration => m.rate) ∘ Migration.scale g.generationTime = fun m => m.rate := rfl
  rw [this]
  congr 1
  apply List.filter_congr
  intro m _
  simp only [Function.comp, Migration.scale_dest, activeAt_scale h]

theorem boundaries_inGen (g : Graph) :
    boundaries (inGenerations g) = (boundaries g).map (· / g.generationTime) := by
  unfold boundaries
  rw [inGen_migrations, List.map_cons, zero_div, List.map_append, List.map_map, List.map_map,
    List.filterMap_map, List.map_filterMap]
  congr 3
  funext m
  simp only [Function.comp, Migration.scale_startTime]
  cases m.startTime <;> rfl

theorem v10_inGen (g : Graph) (h : 0 < g.generationTime) : v10 (inGenerations g) = v10 g := by
  unfold v10
  rw [boundaries_inGen, all_map']
  apply all_congr_mem
  intro t _
  rw [inGen_demes, all_map']
  simp only [Deme.scale_name, ingressAt_inGen g h]

theorem v11_inGen (g : Graph) (h : 0 < g.generationTime) : v11 (inGenerations g) = v11 g := by
  unfold v11
  rw [inGen_pulses, all_map']
  apply all_congr_mem
  intro p _
  simp only [Pulse.scale_sources, Pulse.scale_dest, Pulse.scale_time, Pulse.scale_proportions,
    div_pos h, findDeme_inGen]
  congr 1
  cases findDeme g p.dest with
  | none => rfl
  | some d =>
    simp only [Option.map_some, Deme.scale_endTime]
    congr 1
    · exact bne_congr (div_eq_div h)
    · apply all_congr_mem
      intro s _
      cases findDeme g s with
      | none => rfl
      | some sd =>
        simp only [Option.map_some, coexist_scale h, div_le_div h, fin_div_le_ediv h,
          Deme.scale_startTime]
        congr 1
        exact bne_congr (fin_div_eq_ediv h)

theorem v12_inGen (g : Graph) (h : 0 < g.generationTime) : v12 (inGenerations g) = v12 g := by
  unfold v12
  rw [inGen_pulses]
  apply pairwiseB_map
  intro a b
  simp only [Pulse.scale_time, div_le_div h]

theorem v13_inGen (g : Graph) (hv : v13 g = true) : v13 (inGenerations g) = true := by
  have hdoi : g.doi.all (fun s => !s.isEmpty) = true := by
    simp only [v13, Bool.and_eq_true] at hv
    exact hv.2
  show ((!"generations".isEmpty && decide ((0 : Q) < 1)
      && ("generations" != "generations" || (1 : Q) == 1))
      && g.doi.all (fun s => !s.isEmpty)) = true
  rw [Bool.and_eq_true]
  exact ⟨by decide, hdoi⟩

/-! ### The property theorems -/

theorem inGenerations_header (g : Graph) :
    (inGenerations g).timeUnits = "generations" ∧ (inGenerations g).generationTime = 1 :=
  ⟨rfl, rfl⟩

/-- what "divided by the generation time" means for a possibly infinite time -/
theorem time_division (q c : Q) :
    (ETime.fin q).div c = ETime.fin (q / c) ∧ ETime.inf.div c = ETime.inf := ⟨rfl, rfl⟩

theorem getElem?_map_some {α β} (f : α → β) (l : List α) (i : Nat) (x : α)
    (h : l[i]? = some x) : (l.map f)[i]? = some (f x) := by
  rw [List.getElem?_map, h]; rfl

theorem inGenerations_times (g : Graph) :
    (inGenerations g).demes.length = g.demes.length
    ∧ (inGenerations g).migrations.length = g.migrations.length
    ∧ (inGenerations g).pulses.length = g.pulses.length
    ∧ (∀ (i : Nat) (d : Deme), g.demes[i]? = some d →
        ∃ d' : Deme, (inGenerations g).demes[i]? = some d'
          ∧ d'.startTime = d.startTime.div g.generationTime
          ∧ d'.epochs.length = d.epochs.length
          ∧ ∀ (j : Nat) (e : Epoch), d.epochs[j]? = some e →
              ∃ e' : Epoch, d'.epochs[j]? = some e'
                ∧ e'.startTime = e.startTime.div g.generationTime
                ∧ e'.endTime = e.endTime / g.generationTime)
    ∧ (∀ (i : Nat) (m : Migration), g.migrations[i]? = some m →
        ∃ m' : Migration, (inGenerations g).migrations[i]? = some m'
          ∧ m'.startTime = m.startTime.div g.generationTime
          ∧ m'.endTime = m.endTime / g.generationTime)
    ∧ (∀ (i : Nat) (p : Pulse), g.pulses[i]? = some p →
        ∃ p' : Pulse, (inGenerations g).pulses[i]? = some p' ∧ p'.time = p.time / g.generationTime) := by
  refine ⟨List.length_map _, List.length_map _, List.length_map _, ?_, ?_, ?_⟩
  · intro i d hd
    refine ⟨d.scale g.generationTime, getElem?_map_some _ _ _ _ hd, rfl, List.length_map _, ?_⟩
    intro j e he
    exact ⟨e.scale g.generationTime, getElem?_map_some _ _ _ _ he, rfl, rfl⟩
  · intro i m hm
    exact ⟨m.scale g.generationTime, getElem?_map_some _ _ _ _ hm, rfl, rfl⟩
  · intro i p hp
    exact ⟨p.scale g.generationTime, getElem?_map_some _ _ _ _ hp, rfl⟩

theorem inGenerations_rest (g : Graph) :
    (inGenerations g).description = g.description
    ∧ (inGenerations g).doi = g.doi
    ∧ (inGenerations g).metadata = g.metadata
    ∧ (inGenerations g).index = g.index
    ∧ (∀ (i : Nat) (d : Deme), g.demes[i]? = some d →
        ∃ d' : Deme, (inGenerations g).demes[i]? = some d'
          ∧ d'.name = d.name ∧ d'.description = d.description
          ∧ d'.ancestors = d.ancestors ∧ d'.proportions = d.proportions
          ∧ ∀ (j : Nat) (e : Epoch), d.epochs[j]? = some e →
              ∃ e' : Epoch, d'.epochs[j]? = some e'
                ∧ e'.startSize = e.startSize ∧ e'.endSize = e.endSize
                ∧ e'.sizeFunction = e.sizeFunction
                ∧ e'.selfingRate = e.selfingRate ∧ e'.cloningRate = e.cloningRate)
    ∧ (∀ (i : Nat) (m : Migration), g.migrations[i]? = some m →
        ∃ m' : Migration, (inGenerations g).migrations[i]? = some m'
          ∧ m'.source = m.source ∧ m'.dest = m.dest ∧ m'.rate = m.rate)
    ∧ (∀ (i : Nat) (p : Pulse), g.pulses[i]? = some p →
        ∃ p' : Pulse, (inGenerations g).pulses[i]? = some p'
          ∧ p'.sources = p.sources ∧ p'.dest = p.dest ∧ p'.proportions = p.proportions) := by
  refine ⟨rfl, rfl, rfl, rfl, ?_, ?_, ?_⟩
  · intro i d hd
    refine ⟨d.scale g.generationTime, getElem?_map_some _ _ _ _ hd, rfl, rfl, rfl, rfl, ?_⟩
    intro j e he
    exact ⟨e.scale g.generationTime, getElem?_map_some _ _ _ _ he, rfl, rfl, rfl, rfl, rfl⟩
  · intro i m hm
    exact ⟨m.scale g.generationTime, getElem?_map_some _ _ _ _ hm, rfl, rfl, rfl⟩
  · intro i p hp
    exact ⟨p.scale g.generationTime, getElem?_map_some _ _ _ _ hp, rfl, rfl, rfl⟩

theorem map_eq_self {α} (f : α → α) (h : ∀ x, f x = x) (l : List α) : l.map f = l := by
  induction l with
  | nil => rfl
  | cons x xs ih => rw [List.map_cons, h, ih]

theorem Epoch.scale_one (e : Epoch) : e.scale 1 = e := by
  cases e; simp only [Epoch.scale, ediv_one, div_one]

theorem Deme.scale_one (d : Deme) : d.scale 1 = d := by
  cases d; simp only [Deme.scale, ediv_one, map_eq_self _ Epoch.scale_one]

theorem Migration.scale_one (m : Migration) : m.scale 1 = m := by
  cases m; simp only [Migration.scale, ediv_one, div_one]

theorem Pulse.scale_one (p : Pulse) : p.scale 1 = p := by
  cases p; simp only [Pulse.scale, div_one]

/-- a graph already in generations is a fixed point -/
theorem inGenerations_fixed (g : Graph) (hu : g.timeUnits = "generations")
    (hg : g.generationTime = 1) : inGenerations g = g := by
  cases g
  simp only at hu hg
  subst hu hg
  simp only [inGenerations, map_eq_self _ Deme.scale_one, map_eq_self _ Migration.scale_one,
    map_eq_self _ Pulse.scale_one]

theorem inGenerations_idem (g : Graph) : inGenerations (inGenerations g) = inGenerations g :=
  inGenerations_fixed _ rfl rfl

theorem inGenerations_valid (g : Graph) (hv : validGraph g = true) :
    validGraph (inGenerations g) = true := by
  simp only [validGraph, validData, Bool.and_eq_true] at hv
  obtain ⟨h0, ⟨⟨⟨⟨⟨⟨⟨⟨⟨⟨⟨h1, h2⟩, h3⟩, h4⟩, h5⟩, h6⟩, h8⟩, h9⟩, h10⟩, h11⟩, h12⟩, h13⟩⟩ := hv
  have hpos : 0 < g.generationTime := by
    simp only [v13, Bool.and_eq_true, decide_eq_true_eq] at h13
    exact h13.1.1.2
  simp only [validGraph, validData, Bool.and_eq_true]
  rw [v0_inGen, v1_inGen, v2_inGen, v3_inGen g hpos, v4_inGen, v5_inGen g hpos, v6_inGen g hpos,
    v8_inGen g hpos, v9_inGen g hpos, v10_inGen g hpos, v11_inGen g hpos, v12_inGen g hpos]
  exact ⟨h0, ⟨⟨⟨⟨⟨⟨⟨⟨⟨⟨⟨h1, h2⟩, h3⟩, h4⟩, h5⟩, h6⟩, h8⟩, h9⟩, h10⟩, h11⟩, h12⟩, v13_inGen g h13⟩⟩

/-! ### A concrete valid graph in years (generation time 2) -/

def exEpoch (s : ETime) (e : Q) (n0 n1 : Q) (f : String) : Epoch :=
  { startTime := s, endTime := e, startSize := n0, endSize := n1, sizeFunction := f,
    selfingRate := 0, cloningRate := 1/10 }

/-- three demes in years with generation time 2: A (∞,0]; B (81,0] branching from A with an
exponential then a constant epoch; C (40,0] an admixture of A and B; two migrations and two
pulses. Several times are odd so that the generations view has non-integer times. -/
def exampleYears : Graph :=
  { description := "C11 example", timeUnits := "years", generationTime := 2,
    doi := ["10.1000/xyz"], metadata := [],
    demes := [
      { name := "A", description := "ancestral", startTime := .inf, ancestors := [],
        proportions := [], epochs := [exEpoch .inf 0 1000 1000 "constant"] },
      { name := "B", description := "", startTime := .fin 81, ancestors := ["A"],
        proportions := [1],
        epochs := [exEpoch (.fin 81) 21 100 500 "exponential", exEpoch (.fin 21) 0 500 500 "constant"] },
      { name := "C", description := "", startTime := .fin 40, ancestors := ["A", "B"],
        proportions := [1/4, 3/4], epochs := [exEpoch (.fin 40) 0 200 300 "linear"] }],
    migrations := [
      { source := "A", dest := "B", startTime := .fin 81, endTime := 21, rate := 1/4 },
      { source := "B", dest := "A", startTime := .fin 40, endTime := 0, rate := 1/8 },
      { source := "A", dest := "B", startTime := .fin 15, endTime := 3, rate := 1/16 }],
    pulses := [
      { sources := ["A"], dest := "B", time := 10, proportions := [1/2] },
      { sources := ["A", "B"], dest := "C", time := 5, proportions := [1/4, 1/4] }],
    index := [("A", 0), ("B", 1), ("C", 2)] }

end Demes.Proofs.InGen
