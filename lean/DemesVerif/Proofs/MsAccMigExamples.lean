/-
  C09, acceptance — the migration part: non-vacuity of `migWF_finalEvs` on concrete graphs (hypotheses
  checked in the kernel, the arguments are those argparse reads off the printed command), and the example
  that shows why `MigWF.ingress` is stated with `ingressOk` and not as `≤ 4·N0`.
-/
import DemesVerif.Proofs.MsAccMig
import DemesVerif.Proofs.MsRTExamples
namespace Demes.Proofs.MsAcc
open Demes Demes.Ms Demes.Spec Demes.Spec.C07 Demes.Spec.C09 Demes.Proofs.ToMs Demes.Proofs.MsRT Demes.Proofs.FromMs
open Demes.Spec.C08 (ArgsAgree argsAgreeB argsAgree_of_B mmRateAt bEndTime)
open Demes.Proofs.MsPrint (tableCodec growthStr branchMig)

/-! ### the arguments argparse reads off the printed command -/

/-- every hypothesis of `migWF_finalEvs` for the command printed with `tableCodec`, decided;
`args` are the arguments the Model's argparse layer reads off the printed command -/
def migHyps (g : Graph) (N0 : Q) : Bool :=
  validGraph g && MsExpressible g && ConstSizes g && decide (0 < N0) &&
  match parseKnownArgs (renderG tableCodec growthStr (toksOf (headerOf g none) (finalEvs g N0))) with
  | .ok args => argsAgreeB args (prOf (headerOf g none) (finalEvs g N0)) && (buildState args N0).toOption.isSome
  | .error _ => false

theorem migWF_of_hyps {g : Graph} {N0 : Q} (h : migHyps g N0 = true) :
    ∃ args s, parseKnownArgs (renderG tableCodec growthStr (toksOf (headerOf g none) (finalEvs g N0))) = .ok args
      ∧ buildState args N0 = .ok s ∧ MigWF N0 s := by
  unfold migHyps at h
  simp only [Bool.and_eq_true, decide_eq_true_eq] at h
  obtain ⟨⟨⟨⟨h1, h2⟩, h3⟩, h5⟩, h6⟩ := h
  cases hp : parseKnownArgs (renderG tableCodec growthStr (toksOf (headerOf g none) (finalEvs g N0))) with
  | error e => rw [hp] at h6; cases h6
  | ok args =>
    rw [hp] at h6
    simp only [Bool.and_eq_true] at h6
    obtain ⟨h7, h8⟩ := h6
    cases hb : buildState args N0 with
    | error e => rw [hb] at h8; cases h8
    | ok s =>
      have c := clauses_of_valid h1
      exact ⟨args, s, rfl, hb, migWF_finalEvs c h2 h3 h5 none (argsAgree_of_B h7) hb⟩

/-- `Demes.Proofs.MsRT.admixture` (three demes, `C` formed from `A` and `B`: the command has an `-es`, so
the Builder has a fourth population) with migrations into `B` from `A` and into `C` from `B` -/
def admixMig : Graph :=
  { admixture with
    migrations := [{ source := "A", dest := "B", startTime := .fin 8, endTime := 2, rate := 1/8 },
                   { source := "B", dest := "C", startTime := .fin 4, endTime := 0, rate := 1/4 },
                   { source := "A", dest := "C", startTime := .fin 2, endTime := 1, rate := 3/4 }] }

/-- a branch with a migration; a graph in years (brought to generations) with two epochs and a migration
that starts late; an admixture (with `-es`) and three migrations, two of them into the same deme with
total rate exactly one -/
example : migHyps branchMig 1 = true := by decide +kernel
example : migHyps (inGenerations twoEpochs) 1 = true := by decide +kernel
example : migHyps admixMig 1 = true := by decide +kernel
example : migHyps branchMig 2 = true := by decide +kernel

/-- the theorems at work -/
example := migWF_of_hyps (g := admixMig) (N0 := 1) (by decide +kernel)

/-- some entries of the matrix history at the end of the event loop on the printed command, and two row
sums -/
def probe (g : Graph) (N0 : Q) : Option (Nat × List (Option Num) × Q × Q) :=
  match parseKnownArgs (renderG tableCodec growthStr (toksOf (headerOf g none) (finalEvs g N0))) with
  | .ok args =>
    (match buildState args N0 with
     | .ok s => some (s.numDemes,
         [mmRateAt s.mmList s.mmEndTimes 1 0 5, mmRateAt s.mmList s.mmEndTimes 1 0 1,
          mmRateAt s.mmList s.mmEndTimes 2 1 2, mmRateAt s.mmList s.mmEndTimes 2 0 1,
          mmRateAt s.mmList s.mmEndTimes 2 0 (-1)], qsumS (ingressRow s 2 1), qsumS (ingressRow s 3 2))
     | .error _ => none)
  | .error _ => none

/-- the conclusion is not trivial: entries of the matrix history of `admixMig` (`N0 = 1`; `4·N0·rate` while
the migration is active, `0` otherwise, nothing before time 0); the rates into `C` at time 1 sum to
exactly `4·N0`; the row of the population created by `-es` is zero -/
example : probe admixMig 1
    = some (4, [some (.fin (1/2)), some (.fin 0), some (.fin 1), some (.fin 3), none], 4, 0) := by decide +kernel

/-! ### why `MigWF.ingress` is stated with `ingressOk`: `≤ 4·N0` would be false -/

/-- the option record of the argparse layer for an option record of `to_ms` -/
def evNumOfG : Event Growth → Event Num
  | .popSizeChange _ t i x => .popSizeChange (if Spec.numPos t then "-en" else "-n") t i x
  | .migEntryChange _ t i j r => .migEntryChange (if Spec.numPos t then "-em" else "-m") t i j r
  | .split _ t i p => .split "-es" t i p
  | .join _ t i j => .join "-ej" t i j
  | _ => .sizeChange "-eN" (.fin 0) (.fin 0)

/-- the arguments of the command with header `hdr` and options `evs` (what argparse reads when every
number is printed exactly) -/
def argsOfG (hdr : Option (Nat × List String)) (evs : List (Event Growth)) : Args :=
  { structure_ := hdr.map (fun ns => ⟨(ns.1 : Int), ns.2, .fin 0⟩),
    initialState := (evs.filter isInit).map evNumOfG,
    demographicEvents := (evs.filter (fun e => !isInit e)).map evNumOfG }

/-- three demes for ever; migrations into `C` from `A` at rate `1/2` and from `B` at rate `1/2 + 1e-10`:
the total ingress into `C` is `1 + 1e-10`, which V10 accepts (relative tolerance `1e-9`) -/
def overOne : Graph :=
  { description := "", timeUnits := "generations", generationTime := 1, doi := [], metadata := [],
    demes := [constDeme "A" "" 1 0 0, constDeme "B" "" 1 0 0, constDeme "C" "" 1 0 0],
    migrations := [{ source := "A", dest := "C", startTime := .inf, endTime := 0, rate := 1/2 },
                   { source := "B", dest := "C", startTime := .inf, endTime := 0, rate := 1/2 + 1/10000000000 }],
    pulses := [], index := [("A", 0), ("B", 1), ("C", 2)] }

/-- the total rate into population `j+1` in force at `t` at the end of the event loop -/
def rowSumAt (g : Graph) (N0 : Q) (j : Nat) (t : Q) : Option Q :=
  match buildState (argsOfG (headerOf g none) (finalEvs g N0)) N0 with
  | .ok s => some (qsumS (ingressRow s j t))
  | .error _ => none

/-- `overOne` is valid, ms-expressible, has constant sizes and no pulses, but its ingress is not at most
one exactly; the arguments agree with the command; the event loop succeeds; and the rates into population
3 in force at time 0 sum to `4.0000000004` (`N0 = 1`) -/
theorem overOne_facts :
    validGraph overOne = true ∧ MsExpressible overOne = true ∧ ConstSizes overOne = true ∧ PulsesTame overOne = true
    ∧ ExactIngress overOne = false
    ∧ argsAgreeB (argsOfG (headerOf overOne none) (finalEvs overOne 1)) (prOf (headerOf overOne none) (finalEvs overOne 1)) = true
    ∧ rowSumAt overOne 1 2 0 = some (10000000001 / 2500000000) := by decide +kernel

/-- **a row sum above `4·N0` on a valid graph**: all hypotheses of `migWF_finalEvs` hold (so `MigWF 1 s`
holds), and the rates into population 3 in force at time 0 sum to more than `4·N0`.  The hypothesis
`ExactIngress` of `ingressRow_le` cannot be dropped. -/
theorem ingress_le_counterexample :
    ∃ (g : Graph) (args : Args) (s : BState), validGraph g = true ∧ MsExpressible g = true ∧ ConstSizes g = true
      ∧ PulsesTame g = true ∧ ArgsAgree args (prOf (headerOf g none) (finalEvs g 1)) ∧ buildState args 1 = .ok s
      ∧ MigWF 1 s ∧ ¬ (qsumS (ingressRow s 2 0) ≤ 4 * 1) := by
  obtain ⟨h1, h2, h3, h4, _, h6, h7⟩ := overOne_facts
  unfold rowSumAt at h7
  cases hb : buildState (argsOfG (headerOf overOne none) (finalEvs overOne 1)) 1 with
  | error e => rw [hb] at h7; cases h7
  | ok s =>
    rw [hb] at h7
    simp only [Option.some.injEq] at h7
    have ha := argsAgree_of_B h6
    refine ⟨overOne, _, s, h1, h2, h3, h4, ha, hb,
      migWF_finalEvs (clauses_of_valid h1) h2 h3 (by decide +kernel) none ha hb, ?_⟩
    rw [h7]
    decide +kernel

#print axioms migWF_finalEvs
#print axioms mmRateAt_finalEvs
#print axioms ingressRow_sum
#print axioms ingressRow_le
#print axioms overOne_facts
#print axioms ingress_le_counterexample

end Demes.Proofs.MsAcc
