/-
  A small heap of mutable Python containers, for the aliasing side of C18 (and C02).

  The pure Model (`Model/Resolve.lean`) works on `Value`s, which cannot alias.  Here a Python
  object graph is a *store* of cells — `dict`s and `list`s — whose entries are references:
  either an immutable leaf (`None`, `bool`, number, `str`: modelled as a `Value`) or the
  address of another cell.  Two references to the same address are one shared Python object.

  * `copy`      — `demes.demes.deepcopy_unaliased`: a fresh cell for every `dict`/`list`
                  *occurrence* (no memo, so a shared sub-object becomes separate copies);
                  fuel-indexed, `none` = Python's `RecursionError` (cyclic / too deep input).
  * `copyMemo`  — `copy.deepcopy` (one copy per distinct object; sharing is preserved): what
                  `Graph.fromdict` used before the fix of defect F1; kept for the counterexample.
  * `unfold`    — the JSON-like document a reference denotes (aliasing unfolded).
  * `walk`      — the container addresses met while unfolding, with multiplicity.
  * `Upd`/`Mut` — in-place mutations of one object / mutation scripts over a store.
  * `Instr`     — straight-line programs over registers: the only way to obtain a reference is
                  to be given it, to read it out of an object one holds, or to allocate it.
                  "`fromdict` = copy, then an arbitrary program that is handed only the copy."
  * `Event`     — histories on one Builder: resolve / caller mutations / resolve …
-/
import DemesVerif.Model.ValueEq
import DemesVerif.Model.Resolve
namespace Demes.Heap

abbrev Addr := Nat

/-- what a container entry (or a variable) holds -/
inductive Ref where
  | atom (v : Value)      -- an immutable leaf
  | addr (a : Addr)       -- a mutable container, by identity
  deriving DecidableEq, Repr, Inhabited

inductive Cell where
  | dict (kvs : List (String × Ref))
  | list (xs : List Ref)
  deriving DecidableEq, Repr, Inhabited

/-- address = position; allocation appends, so `s.length` is the allocation pointer -/
abbrev Store := List Cell

namespace Cell

def refs : Cell → List Ref
  | dict kvs => kvs.map (·.2)
  | list xs => xs

/-- the same kind of container with the same keys, holding `rs` -/
def rebuild : Cell → List Ref → Cell
  | dict kvs, rs => dict ((kvs.map (·.1)).zip rs)
  | list _, rs => list rs

/-- the document of a container whose entries denote `vs` -/
def value : Cell → List Value → Value
  | dict kvs, vs => .obj ((kvs.map (·.1)).zip vs)
  | list _, vs => .list vs

end Cell

/-- `[f x for x in xs]` where any failure fails the whole -/
def mapO {α β} (f : α → Option β) : List α → Option (List β)
  | [] => some []
  | x :: xs =>
    match f x with
    | none => none
    | some y =>
      match mapO f xs with
      | none => none
      | some ys => some (y :: ys)

/-- left-to-right map over references threading a state (the heap being extended) -/
def mapRefsM {σ} (f : σ → Ref → Option (σ × Ref)) : σ → List Ref → Option (σ × List Ref)
  | s, [] => some (s, [])
  | s, r :: rs =>
    match f s r with
    | none => none
    | some (s1, r') =>
      match mapRefsM f s1 rs with
      | none => none
      | some (s2, rs') => some (s2, r' :: rs')

/-- `deepcopy_unaliased(obj)`: entries are copied left to right, then the new container is
allocated.  Leaves are shared (they are immutable). -/
def copy : Nat → Store → Ref → Option (Store × Ref)
  | _, s, .atom v => some (s, .atom v)
  | 0, _, .addr _ => none
  | n + 1, s, .addr a =>
    match s[a]? with
    | none => none
    | some c =>
      match mapRefsM (copy n) s c.refs with
      | none => none
      | some (s', rs') => some (s' ++ [c.rebuild rs'], .addr s'.length)

/-- bottom-up evaluation of the object graph under a reference, aliasing unfolded
(`none`: out of fuel — a cycle or a too deep nesting — or a dangling reference) -/
def fold {β} (leaf : Value → β) (node : Addr → Cell → List β → β) : Nat → Store → Ref → Option β
  | _, _, .atom v => some (leaf v)
  | 0, _, .addr _ => none
  | n + 1, s, .addr a =>
    match s[a]? with
    | none => none
    | some c => (mapO (fold leaf node n s) c.refs).map (node a c)

/-- the document denoted by a reference -/
def unfold : Nat → Store → Ref → Option Value := fold id (fun _ c vs => c.value vs)

/-- container addresses met while unfolding, in pre-order, with multiplicity -/
def walk : Nat → Store → Ref → Option (List Addr) := fold (fun _ => []) (fun a _ ls => a :: ls.flatten)

/-- the fuel used by the top-level operations: no simple path of an acyclic store is longer
than the number of its cells -/
def deepcopyUnaliased (s : Store) (r : Ref) : Option (Store × Ref) := copy (s.length + 1) s r

/-! ### `copy.deepcopy`: memoising copy (sharing preserved).  The new container is allocated
and registered in the memo first, then filled. -/

abbrev Memo := List (Addr × Addr)

def Memo.find (m : Memo) (a : Addr) : Option Addr := (m.find? (fun p => p.1 == a)).map (·.2)

def copyMemo : Nat → Store × Memo → Ref → Option ((Store × Memo) × Ref)
  | _, sm, .atom v => some (sm, .atom v)
  | 0, _, .addr _ => none
  | n + 1, (s, memo), .addr a =>
    match Memo.find memo a with
    | some a' => some ((s, memo), .addr a')
    | none =>
      match s[a]? with
      | none => none
      | some c =>
        let a' := s.length
        match mapRefsM (copyMemo n) (s ++ [c.rebuild []], (a, a') :: memo) c.refs with
        | none => none
        | some ((s', memo'), rs') => some ((s'.set a' (c.rebuild rs'), memo'), .addr a')

/-! ### in-place mutation -/

def setKV (k : String) (r : Ref) : List (String × Ref) → List (String × Ref)
  | [] => [(k, r)]
  | (k', r') :: rest => if k' = k then (k, r) :: rest else (k', r') :: setKV k r rest

def lookupKV (k : String) : List (String × Ref) → Option Ref
  | [] => none
  | (k', r) :: rest => if k' = k then some r else lookupKV k rest

/-- one mutating method call on one object; `ρ` is how the operands are named
(`Ref` in scripts, register numbers in programs) -/
inductive Upd (ρ : Type) where
  | setKey (k : String) (x : ρ)        -- `d[k] = x`, `setdefault`, one step of `update`
  | delKey (k : String)                -- `del d[k]`, `d.pop(k)`
  | append (x : ρ)                     -- `l.append(x)`
  | setIndex (i : Nat) (x : ρ)         -- `l[i] = x`
  | delIndex (i : Nat)                 -- `del l[i]`, `l.pop(i)`
  | insertAt (i : Nat) (x : ρ)         -- `l.insert(i, x)`
  | replaceDict (kvs : List (String × ρ))  -- any other in-place change of a dict (`clear`, `update`, …)
  | replaceList (xs : List ρ)              -- any other in-place change of a list (`sort`, `reverse`, slices, …)
  deriving Repr

def Upd.map {ρ τ} (f : ρ → τ) : Upd ρ → Upd τ
  | .setKey k x => .setKey k (f x)
  | .delKey k => .delKey k
  | .append x => .append (f x)
  | .setIndex i x => .setIndex i (f x)
  | .delIndex i => .delIndex i
  | .insertAt i x => .insertAt i (f x)
  | .replaceDict kvs => .replaceDict (kvs.map (fun kv => (kv.1, f kv.2)))
  | .replaceList xs => .replaceList (xs.map f)

/-- the references an update writes -/
def Upd.refs : Upd Ref → List Ref
  | .setKey _ x => [x]
  | .delKey _ => []
  | .append x => [x]
  | .setIndex _ x => [x]
  | .delIndex _ => []
  | .insertAt _ x => [x]
  | .replaceDict kvs => kvs.map (·.2)
  | .replaceList xs => xs

/-- effect on the object's content; an ill-typed call (which raises in Python) changes nothing -/
def Upd.apply : Upd Ref → Cell → Cell
  | .setKey k r, .dict kvs => .dict (setKV k r kvs)
  | .delKey k, .dict kvs => .dict (kvs.filter (fun kv => kv.1 ≠ k))
  | .append r, .list xs => .list (xs ++ [r])
  | .setIndex i r, .list xs => .list (xs.set i r)
  | .delIndex i, .list xs => .list (xs.eraseIdx i)
  | .insertAt i r, .list xs => .list (xs.take i ++ r :: xs.drop i)
  | .replaceDict kvs, .dict _ => .dict kvs
  | .replaceList xs, .list _ => .list xs
  | _, c => c

inductive Mut where
  | upd (a : Addr) (u : Upd Ref)   -- mutate the object at `a` in place
  | alloc (c : Cell)               -- create a new object
  deriving Repr

def Mut.target : Mut → Option Addr
  | .upd a _ => some a
  | .alloc _ => none

def Mut.refs : Mut → List Ref
  | .upd _ u => u.refs
  | .alloc c => c.refs

def Store.modify (s : Store) (a : Addr) (f : Cell → Cell) : Store :=
  match s[a]? with
  | none => s
  | some c => s.set a (f c)

def Mut.apply (s : Store) : Mut → Store
  | .upd a u => Store.modify s a u.apply
  | .alloc c => s ++ [c]

def runMuts (s : Store) (ms : List Mut) : Store := ms.foldl Mut.apply s

/-! ### programs: code that holds references only in its registers -/

structure State where
  store : Store
  regs : List Ref
  deriving Repr

def regAt (regs : List Ref) (i : Nat) : Ref := regs[i]?.getD (.atom .null)

inductive Instr where
  | getKey (i : Nat) (k : String)         -- push `regs[i][k]`
  | getIndex (i j : Nat)                  -- push `regs[i][j]`
  | const (v : Value)                     -- push a literal
  | newDict (kvs : List (String × Nat))   -- push `{k: regs[j], …}` (also `{}`, `d.copy()` after reads)
  | newList (xs : List Nat)               -- push `[regs[j], …]`
  | upd (i : Nat) (u : Upd Nat)           -- mutate `regs[i]` in place, operands from registers
  deriving Repr

/-- the store mutation an instruction performs, if any -/
def Instr.mut? (regs : List Ref) : Instr → Option Mut
  | .newDict kvs => some (.alloc (.dict (kvs.map (fun kv => (kv.1, regAt regs kv.2)))))
  | .newList xs => some (.alloc (.list (xs.map (regAt regs))))
  | .upd i u =>
    match regAt regs i with
    | .addr a => some (.upd a (u.map (regAt regs)))
    | .atom _ => none
  | _ => none

/-- the reference an instruction obtains, if any -/
def Instr.read? (st : State) : Instr → Option Ref
  | .getKey i k =>
    match regAt st.regs i with
    | .addr a => match st.store[a]? with
      | some (.dict kvs) => lookupKV k kvs
      | _ => none
    | .atom _ => none
  | .getIndex i j =>
    match regAt st.regs i with
    | .addr a => match st.store[a]? with
      | some (.list xs) => xs[j]?
      | _ => none
    | .atom _ => none
  | .const v => some (.atom v)
  | .newDict _ => some (.addr st.store.length)
  | .newList _ => some (.addr st.store.length)
  | .upd _ _ => none

def Instr.step (st : State) (ins : Instr) : State :=
  { store := match ins.mut? st.regs with
      | some m => Mut.apply st.store m
      | none => st.store
    regs := match ins.read? st with
      | some r => st.regs ++ [r]
      | none => st.regs }

def run (st : State) (p : List Instr) : State := p.foldl Instr.step st

/-- the mutation script a program performs from a given state -/
def trace : State → List Instr → List Mut
  | _, [] => []
  | st, ins :: p =>
    match ins.mut? st.regs with
    | some m => m :: trace (ins.step st) p
    | none => trace (ins.step st) p

/-! ### `Graph.fromdict` and histories on one Builder -/

/-- What `Graph.fromdict` computes, on the heap: the pure Model's `resolve` applied to what the
code reads from its private copy.  `none` = `RecursionError` while copying. -/
def fromdictOutcome (n : Nat) (s : Store) (r : Ref) : Option (Except Err Graph) :=
  match copy n s r with
  | none => none
  | some (s', r') => (unfold n s' r').map Demes.resolve

/-- the part of the heap owned by a graph handed out earlier, and what the graph holds -/
structure Returned where
  lo : Nat
  hi : Nat
  roots : List Ref
  deriving Repr

structure Session where
  store : Store
  caller : List Ref            -- what the calling code holds: the input / Builder data and whatever it builds
  returned : List Returned     -- graphs (and dictionary forms) handed out so far
  deriving Repr

inductive Event where
  /-- `Graph.fromdict(caller[i])` / `Builder.resolve()`: copy, then arbitrary library code
  `internal` that was handed only the copy -/
  | resolve (i : Nat) (fuel : Nat) (internal : List Instr)
  /-- arbitrary caller code over what the caller holds (`b.data[...] = …`, `add_deme`, …) -/
  | mutate (p : List Instr)
  /-- `g.asdict()` of the `j`-th graph handed out (its `i`-th root): fresh containers, handed
  to the caller -/
  | asdict (j i : Nat) (fuel : Nat)
  deriving Repr

def Event.step (σ : Session) : Event → Session
  | .mutate p =>
    let st := run ⟨σ.store, σ.caller⟩ p
    { σ with store := st.store, caller := st.regs }
  | .resolve i n internal =>
    match copy n σ.store (regAt σ.caller i) with
    | none => σ
    | some (s', r') =>
      let st := run ⟨s', [r']⟩ internal
      { σ with store := st.store
               returned := ⟨σ.store.length, st.store.length, st.regs⟩ :: σ.returned }

  | .asdict j i n =>
    match σ.returned[j]? with
    | none => σ
    | some ρ =>
      match copy n σ.store (regAt ρ.roots i) with
      | none => σ
      | some (s', d) => { σ with store := s', caller := σ.caller ++ [d] }

def runEvents (σ : Session) (es : List Event) : Session := es.foldl Event.step σ

/-- no address in the caller's part of the heap belongs to a graph handed out -/
def Session.callerOwns (σ : Session) (a : Addr) : Prop :=
  ∀ ρ ∈ σ.returned, ¬ (ρ.lo ≤ a ∧ a < ρ.hi)

end Demes.Heap
