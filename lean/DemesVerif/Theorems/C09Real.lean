/-
  C09 with exponential epochs, real-analysis part — the precision clause.

  `to_ms` prints the growth rate `α = -ln(start/end)/Δt` of an exponential epoch as a decimal string; the ms
  parser reads the string back as a rational `gv G`, and `from_ms` rebuilds the sizes from it.  What comes
  back is the demography of the graph with every growth rate replaced by the value read (`C09.regrow`).
  Here the symbolic sizes `coef·exp(expo)` (`szReal`) and growth rates (`growthReal`) are read in ℝ, and the
  size of the regrown population is compared with the graph's own size (`segReal`, the real value of
  `size_at`: `segReal_eq_expoReal`): if every printed rate is within `ε` of the true one, the two sizes at a
  time `t` differ by a factor within `exp(±ε·Δ)`, `Δ = (t - lo)/(4·N0)` the time since the population's
  recent end in ms units.  Kept apart from `Theorems/C09.lean` because it imports
  `Mathlib.Analysis.SpecialFunctions.Log.Basic`.
-/
import DemesVerif.Proofs.MsGrowReal
import DemesVerif.Proofs.MsGrowRealRT
import DemesVerif.Proofs.MsGrowExamples
import DemesVerif.Proofs.ToMsExamples
namespace Demes.Theorems
open Demes Demes.Ms Demes.Spec Demes.Proofs Demes.Proofs.MsGrow
open Demes.Spec.MsSem (Seg PopSem DemogSem)
open Demes.Proofs.MsRT (Tiles)

/-! ## §1 the sizes that come back, in ℝ -/

/-- The interpolation `segReal` of a well-formed graph segment starts at the size at its recent end … -/
theorem segReal_t0 (N0 : Q) (s : Seg) : segReal N0 s s.t0 = szReal s.size :=
  MsGrow.segReal_t0 N0 s

/-- … and reaches the size at its older end (`a · exp(ln(b/a)) = b`). -/
theorem segReal_t1 {N0 : Q} (hN : N0 ≠ 0) {s : Seg} (h : SegOK N0 s) {T : Q} (hT : s.t1 = .fin T) :
    ∃ o, s.sizeOld = some o ∧ segReal N0 s T = szReal o :=
  MsGrow.segReal_t1' hN h hT

/-- **The precision clause.**  Let `p` be a population whose segments tile its lifetime and are well
formed (`SegOK`: what a valid ms-expressible graph gives, `graph_segOK`), and let the value `gv G` read off
the printed growth rate be within `ε` of the rate `G` (ms units) for the rates of `p`'s segments.  Then at
every time `t` of `p`'s lifetime the population with the growth rates replaced (`regrowPop`) has a size `z`,
and `z` is within the factor `exp(±(ε/4N0)·(t - lo))` of the size `segReal N0 s t` of the graph's population
there (`s` the segment that owns `t`). -/
theorem regrow_real_close {gv : Growth → Q} {N0 : Q} (hN : 0 < N0) {ε : ℝ} (p : PopSem)
    (htiles : Tiles p.lo p.segs p.hi) (hok : ∀ s ∈ p.segs, SegOK N0 s)
    (hacc : ∀ s ∈ p.segs, ∀ G, C07.segGrowth N0 s = some G → |((gv G : Q) : ℝ) - growthReal G| ≤ ε)
    (t : Q) (hlo : p.lo ≤ t) (hhi : ETime.fin t < p.hi) :
    ∃ s ∈ p.segs, C08.segOwns s t = true ∧ ∃ z, C09.sizeAt (C09.regrowPop gv N0 p) t = some z
      ∧ segReal N0 s t * Real.exp (-(ε / (4 * (N0 : ℝ))) * ((t : ℝ) - (p.lo : ℝ))) ≤ szReal z
      ∧ szReal z ≤ segReal N0 s t * Real.exp ((ε / (4 * (N0 : ℝ))) * ((t : ℝ) - (p.lo : ℝ))) :=
  MsGrow.regrow_real_close hN p htiles hok hacc t hlo hhi

/-- The sharper form: the error accumulates only since `runStart p t`, the recent end of the maximal run of
segments, ending with the owner of `t`, along which the graph's size is continuous (where it jumps `to_ms`
prints `-en` and the size is reset to its exact value); `lo ≤ runStart p t ≤ t`. -/
theorem regrow_real_close_anchor {gv : Growth → Q} {N0 : Q} (hN : 0 < N0) {ε : ℝ} (p : PopSem)
    (htiles : Tiles p.lo p.segs p.hi) (hok : ∀ s ∈ p.segs, SegOK N0 s)
    (hacc : ∀ s ∈ p.segs, ∀ G, C07.segGrowth N0 s = some G → |((gv G : Q) : ℝ) - growthReal G| ≤ ε)
    (t : Q) (hlo : p.lo ≤ t) (hhi : ETime.fin t < p.hi) :
    ∃ s ∈ p.segs, C08.segOwns s t = true ∧ ∃ z, C09.sizeAt (C09.regrowPop gv N0 p) t = some z
      ∧ p.lo ≤ runStart p t ∧ runStart p t ≤ t
      ∧ segReal N0 s t * Real.exp (-(ε / (4 * (N0 : ℝ))) * ((t : ℝ) - (runStart p t : ℝ))) ≤ szReal z
      ∧ szReal z ≤ segReal N0 s t * Real.exp ((ε / (4 * (N0 : ℝ))) * ((t : ℝ) - (runStart p t : ℝ))) :=
  MsGrow.regrow_real_close_anchor hN p htiles hok hacc t hlo hhi

/-- The relative error of the size that comes back is at most `exp(ε·Δ) - 1`, `Δ = (t - lo)/(4·N0)`. -/
theorem regrow_real_rel {gv : Growth → Q} {N0 : Q} (hN : 0 < N0) {ε : ℝ} (p : PopSem)
    (htiles : Tiles p.lo p.segs p.hi) (hok : ∀ s ∈ p.segs, SegOK N0 s)
    (hacc : ∀ s ∈ p.segs, ∀ G, C07.segGrowth N0 s = some G → |((gv G : Q) : ℝ) - growthReal G| ≤ ε)
    (t : Q) (hlo : p.lo ≤ t) (hhi : ETime.fin t < p.hi) :
    ∃ s ∈ p.segs, C08.segOwns s t = true ∧ ∃ z, C09.sizeAt (C09.regrowPop gv N0 p) t = some z
      ∧ |szReal z / segReal N0 s t - 1| ≤ Real.exp ((ε / (4 * (N0 : ℝ))) * ((t : ℝ) - (p.lo : ℝ))) - 1 :=
  MsGrow.regrow_real_rel hN p htiles hok hacc t hlo hhi

/-- With exact growth rates the sizes come back exactly. -/
theorem regrow_real_exact {gv : Growth → Q} {N0 : Q} (hN : 0 < N0) (p : PopSem)
    (htiles : Tiles p.lo p.segs p.hi) (hok : ∀ s ∈ p.segs, SegOK N0 s)
    (hacc : ∀ s ∈ p.segs, ∀ G, C07.segGrowth N0 s = some G → ((gv G : Q) : ℝ) = growthReal G)
    (t : Q) (hlo : p.lo ≤ t) (hhi : ETime.fin t < p.hi) :
    ∃ s ∈ p.segs, C08.segOwns s t = true ∧ ∃ z, C09.sizeAt (C09.regrowPop gv N0 p) t = some z
      ∧ szReal z = segReal N0 s t :=
  MsGrow.regrow_real_exact hN p htiles hok hacc t hlo hhi

/-- The decimal-printing instance: if the value `v` read back is within `η` of the double `x` that was
printed (`η = 5·10⁻¹¹` for ten decimals) and `x` is within `δ` of the rate `γ`, then `ε = δ + η` works. -/
theorem eps_of_rounding {v x γ δ η : ℝ} (h1 : |v - x| ≤ η) (h2 : |x - γ| ≤ δ) : |v - γ| ≤ δ + η :=
  MsGrow.eps_of_rounding h1 h2

/-- The Model's equality test on symbolic growth rates (`r^(m/g) = r'^(n/g)` on rationals) is sound: rates
it identifies are equal real numbers — so the value printed for a rate may come from an equal rate computed
from the numbers of another epoch (`GrowthPrinter.congr`). -/
theorem growthEq_real {r dt r' dt' : Q} (hr : 0 < r) (hr' : 0 < r') (hdt : 0 < dt) (hdt' : 0 < dt')
    (h : Growth.eq (.sym r dt) (.sym r' dt') = true) : growthReal (.sym r dt) = growthReal (.sym r' dt') :=
  MsGrow.growthEq_real hr hr' hdt hdt' h

/-- The graph instance: every population of the demography of a valid ms-expressible graph tiles its
lifetime by well-formed segments, so the precision clause applies to it. -/
theorem graph_segOK {g : Graph} (hv : validGraph g = true) (hx : C07.MsExpressible g = true) (N0 : Q)
    {gs : DemogSem} (hgs : MsSem.graphSem g none = .ok gs) :
    ∀ p ∈ gs.pops, Tiles p.lo p.segs p.hi ∧ ∀ s ∈ p.segs, SegOK N0 s :=
  MsGrow.graph_segOK hv hx N0 hgs

/-- … and the growth rates of its segments are those `to_ms` computes for the epochs (`C07.growthOf`). -/
theorem graph_segGrowth_mem {g : Graph} (hv : validGraph g = true) (hx : C07.MsExpressible g = true) (N0 : Q)
    {gs : DemogSem} (hgs : MsSem.graphSem g none = .ok gs) :
    ∀ p ∈ gs.pops, ∀ s ∈ p.segs, ∀ G, C07.segGrowth N0 s = some G →
      G ∈ g.demes.flatMap (fun d => d.epochs.map (C07.growthOf N0)) :=
  MsGrow.graph_segGrowth_mem hv hx N0 hgs

/-- `segReal` is the real value of `size_at`: on an epoch with finite start time `s` the Model's `sizeAt`
reports `.expo startSize endSize ((s - t)/(s - endTime))`, read in ℝ as `expoReal` (`Theorems/C13Real.lean`);
the segment of the epoch interpolates to the same number, whatever `N0 ≠ 0`. -/
theorem segReal_eq_expoReal {N0 : Q} (hN : N0 ≠ 0) {e : Epoch} (he : ToMs.EpochOk e) {s t : Q}
    (hs : e.startTime = .fin s) (h1 : e.endTime ≤ t) (h2 : t < s) :
    segReal N0 (ToMs.segOf e) t
      = expoReal (e.startSize : ℝ) (e.endSize : ℝ) (((s - t) / (s - e.endTime) : Q) : ℝ) :=
  MsGrow.segReal_eq_expoReal hN he hs h1 h2

/-! ### non-vacuity -/

/-- exponential growth from 100 (10 generations ago) to 200 (present) -/
def c09RealSeg1 : Seg :=
  { t0 := 0, t1 := .fin 10, size := Sz.ofQ 200, growth := none, sizeOld := some (Sz.ofQ 100), fn := "exponential" }

/-- constant size 100 before that -/
def c09RealSeg2 : Seg :=
  { t0 := 10, t1 := .inf, size := Sz.ofQ 100, growth := none, sizeOld := some (Sz.ofQ 100), fn := "constant" }

/-- a population alive from the present for ever: 100 individuals until 10 generations ago, then exponential
growth to 200 at the present -/
def c09RealPop : PopSem := { id := 1, lo := 0, hi := .inf, segs := [c09RealSeg1, c09RealSeg2] }

theorem c09RealPop_tiles : Tiles c09RealPop.lo c09RealPop.segs c09RealPop.hi :=
  ⟨rfl, by decide +kernel, rfl, trivial, rfl, rfl⟩

theorem c09RealSeg1_growth : C07.segGrowth 1 c09RealSeg1 = some (.sym (1/2) (5/2)) := by decide +kernel
theorem c09RealSeg2_growth : C07.segGrowth 1 c09RealSeg2 = some .zero := by decide +kernel

theorem c09RealPop_ok : ∀ s ∈ c09RealPop.segs, SegOK 1 s := by
  intro s hs
  simp only [c09RealPop, List.mem_cons, List.not_mem_nil, or_false] at hs
  rcases hs with rfl | rfl
  · exact ⟨⟨200, 100, rfl, by decide +kernel, rfl, by decide +kernel, fun h => by cases h⟩,
      ⟨_, c09RealSeg1_growth⟩, by decide +kernel⟩
  · exact ⟨⟨100, 100, rfl, by decide +kernel, rfl, by decide +kernel, fun _ => rfl⟩,
      ⟨_, c09RealSeg2_growth⟩, trivial⟩

/-- a printer that prints every growth rate as `0` is accurate to `ε = 1` on this population
(`-ln(1/2)/(5/2) = ln 2 · 2/5 ≤ 1`) -/
theorem c09RealPop_acc : ∀ s ∈ c09RealPop.segs, ∀ G, C07.segGrowth 1 s = some G →
    |(((fun _ => 0 : Growth → Q) G : Q) : ℝ) - growthReal G| ≤ 1 := by
  intro s hs G hG
  simp only [c09RealPop, List.mem_cons, List.not_mem_nil, or_false] at hs
  rcases hs with rfl | rfl
  · rw [c09RealSeg1_growth] at hG
    cases hG
    have h2 : Real.log 2 ≤ 1 := by
      have := Real.log_le_sub_one_of_pos (show (0 : ℝ) < 2 by norm_num)
      linarith
    have h0 : 0 ≤ Real.log 2 := Real.log_nonneg (by norm_num)
    have hl : Real.log ((1 / 2 : Q) : ℝ) = - Real.log 2 := by
      rw [show ((1 / 2 : Q) : ℝ) = (2 : ℝ)⁻¹ by norm_num, Real.log_inv]
    simp only [growthReal, hl, Rat.cast_zero, zero_sub, neg_neg]
    rw [show ((5 / 2 : Q) : ℝ) = 5 / 2 by norm_num, abs_le]
    constructor <;> linarith [show Real.log 2 / (5 / 2) = Real.log 2 * (2 / 5) by ring]
  · rw [c09RealSeg2_growth] at hG
    cases hG
    simp [growthReal]

/-- non-vacuity of `regrow_real_close`: with all growth rates printed as `0`, the population that comes back
(constant at 200) is at every time `t ≥ 0` within the factor `exp(±t/4)` of `c09RealPop` -/
example (t : Q) (ht : 0 ≤ t) :
    ∃ s ∈ c09RealPop.segs, C08.segOwns s t = true ∧ ∃ z, C09.sizeAt (C09.regrowPop (fun _ => 0) 1 c09RealPop) t = some z
      ∧ segReal 1 s t * Real.exp (-((1 : ℝ) / (4 * ((1 : Q) : ℝ))) * ((t : ℝ) - ((0 : Q) : ℝ))) ≤ szReal z
      ∧ szReal z ≤ segReal 1 s t * Real.exp (((1 : ℝ) / (4 * ((1 : Q) : ℝ))) * ((t : ℝ) - ((0 : Q) : ℝ))) :=
  regrow_real_close (gv := fun _ => 0) (N0 := 1) (by decide +kernel) c09RealPop c09RealPop_tiles c09RealPop_ok
    c09RealPop_acc t ht trivial

/-- … and the regrown population is computed: at `t = 5` it reports `200·exp(0)`, where the graph's
population has `200·exp(ln(1/2)·5/10) = 100·√2` -/
example : C09.sizeAt (C09.regrowPop (fun _ => 0) 1 c09RealPop) 5 = some ⟨200, 0⟩ := by decide +kernel

/-- non-vacuity of `graph_segOK`: `ex1` (three demes in years, deme `A` with an exponential epoch 100 → 200),
converted to generations, is valid and ms-expressible and has a demography … -/
example : validGraph (inGenerations ToMs.ex1) = true ∧ C07.MsExpressible (inGenerations ToMs.ex1) = true
    ∧ (MsSem.graphSem (inGenerations ToMs.ex1) none).toOption.isSome = true := by decide +kernel

/-- … so all its populations tile their lifetimes by well-formed segments -/
example (gs : DemogSem) (h : MsSem.graphSem (inGenerations ToMs.ex1) none = .ok gs) :
    ∀ p ∈ gs.pops, Tiles p.lo p.segs p.hi ∧ ∀ s ∈ p.segs, SegOK 2 s :=
  graph_segOK (by decide +kernel) (by decide +kernel) 2 h

/-! ## 2. The precision clause of the round trip (composition with `Theorems/C09.lean` §8) -/

open Demes.Spec.C07 (MsExpressible samplesOk normalizeProportions) in
open Demes.Spec.C09 (NumCodec CodecCovers renderG PulsesTame GrowthPrinter epochGrowths growthVal) in
/-- **Graph → ms → graph, the precision clause.**  Let `g` be a valid ms-expressible graph with tame pulses
(exponential epochs allowed), `N0 > 0`, `c` a number codec that covers the numbers of the command `to_ms`
prints and `sa` a growth printer (`GrowthPrinter`) that is accurate to `ε` on the growth rates of `g`: the
rational read off the printed string of a rate `G` is within `ε` of the real number `-ln(r)/dt` (ms units, i.e.
per `4·N0` generations).  For the real library `ε` is the rounding of the rate to a double, plus `5·10⁻¹¹` for a
negative rate (printed with ten decimals): `eps_of_rounding`.  Then `from_ms(to_ms(g, N0), N0)` returns a graph
with the populations of `g` (normalised ancestry proportions) in the same order, and at every time `t` of the
lifetime of every deme its size `z` satisfies
`S(t)·exp(-(ε/(4·N0))·(t - a)) ≤ z ≤ S(t)·exp((ε/(4·N0))·(t - a))`, where `S(t) = segReal N0 s t` is the
size of the original graph (the real value of `size_at`, `segReal_eq_expoReal`) and `a = runStart … t ≥ lo` is
the recent end of the run of epochs with continuous size that contains `t` (the last time, towards the
present, at which `-en` set the size exactly): the relative error is at most `exp(ε·Δ) - 1`, `Δ` the distance
to `a` in ms time units. -/
theorem ms_roundtrip_growth_real (c : NumCodec) (sa : Growth → String) {g : Graph} (hv : validGraph g = true)
    (hx : MsExpressible g = true) (hpt : PulsesTame g = true)
    {N0 : Q} (hN : 0 < N0) {samples : Option (List Int)} (hs : samplesOk g samples = true)
    {toks : List (Tok Growth)} (htoks : toMs g N0 samples = .ok toks) (hc : CodecCovers c toks)
    (hsa : GrowthPrinter sa (epochGrowths g N0)) {ε : ℝ}
    (hacc : ∀ G ∈ epochGrowths g N0, |((growthVal sa G : Q) : ℝ) - growthReal G| ≤ ε) :
    ∃ mg rs gs, fromMs (renderG c sa toks) N0 none = .ok mg ∧ C08.resultSem mg = .ok rs
      ∧ MsSem.graphSem (inGenerations (normalizeProportions g)) none = .ok gs
      ∧ rs.pops.map (·.id) = gs.pops.map (·.id)
      ∧ ∀ ab ∈ rs.pops.zip gs.pops, ∀ t : Q, ab.2.lo ≤ t → ETime.fin t < ab.2.hi →
          ∃ s ∈ ab.2.segs, C08.segOwns s t = true ∧ ∃ z, C09.sizeAt ab.1 t = some z
            ∧ ab.2.lo ≤ runStart ab.2 t ∧ runStart ab.2 t ≤ t
            ∧ segReal N0 s t * Real.exp (-(ε / (4 * (N0 : ℝ))) * ((t : ℝ) - (runStart ab.2 t : ℝ))) ≤ szReal z
            ∧ szReal z ≤ segReal N0 s t * Real.exp ((ε / (4 * (N0 : ℝ))) * ((t : ℝ) - (runStart ab.2 t : ℝ))) :=
  Proofs.MsGrow.ms_roundtrip_growth_real c sa hv hx hpt hN hs htoks hc hsa hacc

open Demes.Spec.C07 (MsExpressible samplesOk normalizeProportions) in
open Demes.Spec.C09 (NumCodec CodecCovers renderG PulsesTame GrowthPrinter epochGrowths growthVal) in
/-- the special case of exact printing (`ε = 0`: every printed rate reads as exactly the real rate — possible only
for rates that are rational, e.g. `0`): the real-valued size functions are equal -/
theorem ms_roundtrip_growth_real_exact (c : NumCodec) (sa : Growth → String) {g : Graph} (hv : validGraph g = true)
    (hx : MsExpressible g = true) (hpt : PulsesTame g = true)
    {N0 : Q} (hN : 0 < N0) {samples : Option (List Int)} (hs : samplesOk g samples = true)
    {toks : List (Tok Growth)} (htoks : toMs g N0 samples = .ok toks) (hc : CodecCovers c toks)
    (hsa : GrowthPrinter sa (epochGrowths g N0))
    (hacc : ∀ G ∈ epochGrowths g N0, ((growthVal sa G : Q) : ℝ) = growthReal G) :
    ∃ mg rs gs, fromMs (renderG c sa toks) N0 none = .ok mg ∧ C08.resultSem mg = .ok rs
      ∧ MsSem.graphSem (inGenerations (normalizeProportions g)) none = .ok gs
      ∧ ∀ ab ∈ rs.pops.zip gs.pops, ∀ t : Q, ab.2.lo ≤ t → ETime.fin t < ab.2.hi →
          ∃ s ∈ ab.2.segs, C08.segOwns s t = true ∧ ∃ z, C09.sizeAt ab.1 t = some z ∧ szReal z = segReal N0 s t :=
  Proofs.MsGrow.ms_roundtrip_growth_real_exact c sa hv hx hpt hN hs htoks hc hsa hacc

/-- non-vacuity: for `growBranch1` (deme `A` growing 1 → 2 over the last 8 generations, `N0 = 1`) and the printer
`MigExample.exSa` (`0.34657359027997264` for the rate `ln(2)/2`) every hypothesis holds with `ε = 1`
(`|0.3466 - ln(2)/2| ≤ 1` from `0 ≤ ln 2 ≤ 1`; the hypotheses other than accuracy are `growHyps`, decided in the
kernel) -/
theorem growBranch1_acc : ∀ G ∈ C09.epochGrowths MigExample.growBranch1 1,
    |((C09.growthVal MigExample.exSa G : Q) : ℝ) - growthReal G| ≤ 1 := by
  have hg : C09.epochGrowths MigExample.growBranch1 1 = [.zero, .sym (1/2) 2, .zero] := by decide +kernel
  have hv1 : C09.growthVal MigExample.exSa (.sym (1/2) 2) = 34657359027997264 / 10 ^ 17 := by decide +kernel
  have hv0 : C09.growthVal MigExample.exSa .zero = 0 := by decide +kernel
  intro G hG
  rw [hg] at hG
  simp only [List.mem_cons, List.not_mem_nil, or_false] at hG
  have h2 : Real.log 2 ≤ 1 := by
    have := Real.log_le_sub_one_of_pos (show (0 : ℝ) < 2 by norm_num)
    linarith
  have h0 : 0 ≤ Real.log 2 := Real.log_nonneg (by norm_num)
  have hl : Real.log ((1 / 2 : Q) : ℝ) = - Real.log 2 := by
    rw [show ((1 / 2 : Q) : ℝ) = (2 : ℝ)⁻¹ by norm_num, Real.log_inv]
  rcases hG with rfl | rfl | rfl
  · rw [hv0]; simp [growthReal]
  · rw [hv1]
    simp only [growthReal, hl, neg_neg]
    rw [show ((2 : Q) : ℝ) = 2 by norm_num, abs_le]
    have : ((34657359027997264 / 10 ^ 17 : Q) : ℝ) = 34657359027997264 / 10 ^ 17 := by norm_num
    rw [this]
    constructor <;> norm_num <;> linarith
  · rw [hv0]; simp [growthReal]

/-- the theorem for a graph that meets the decided hypotheses `growHyps` (Proofs/MsGrowExamples.lean: valid,
ms-expressible, tame pulses, `N0 > 0`, `GrowthPrinter`, `to_ms` succeeds, `tableCodec` covers the command) -/
theorem ms_roundtrip_growth_real_of_hyps {sa : Growth → String} {g : Graph} {N0 : Q} (h : growHyps sa g N0 = true) {ε : ℝ}
    (hacc : ∀ G ∈ C09.epochGrowths g N0, |((C09.growthVal sa G : Q) : ℝ) - growthReal G| ≤ ε) :
    ∃ toks mg rs gs, toMs g N0 none = .ok toks
      ∧ fromMs (C09.renderG MsPrint.tableCodec sa toks) N0 none = .ok mg ∧ C08.resultSem mg = .ok rs
      ∧ MsSem.graphSem (inGenerations (C07.normalizeProportions g)) none = .ok gs
      ∧ ∀ ab ∈ rs.pops.zip gs.pops, ∀ t : Q, ab.2.lo ≤ t → ETime.fin t < ab.2.hi →
          ∃ s ∈ ab.2.segs, C08.segOwns s t = true ∧ ∃ z, C09.sizeAt ab.1 t = some z
            ∧ segReal N0 s t * Real.exp (-(ε / (4 * (N0 : ℝ))) * ((t : ℝ) - (runStart ab.2 t : ℝ))) ≤ szReal z
            ∧ szReal z ≤ segReal N0 s t * Real.exp ((ε / (4 * (N0 : ℝ))) * ((t : ℝ) - (runStart ab.2 t : ℝ))) := by
  unfold growHyps at h
  simp only [Bool.and_eq_true, decide_eq_true_eq] at h
  obtain ⟨⟨⟨⟨⟨h1, h2⟩, h3⟩, h4⟩, h5⟩, h6⟩ := h
  cases ht : toMs g N0 none with
  | error e => rw [ht] at h6; cases h6
  | ok toks =>
    rw [ht] at h6
    simp only [decide_eq_true_eq] at h6
    obtain ⟨mg, rs, gs, r1, r2, r3, _, r5⟩ := ms_roundtrip_growth_real MsPrint.tableCodec sa h1 h2 h3 h4
      (samples := none) rfl ht h6 (growthPrinter_of_B h5) hacc
    refine ⟨toks, mg, rs, gs, rfl, r1, r2, r3, ?_⟩
    intro ab hab t ht0 ht1
    obtain ⟨s, hs, hown, z, hz, _, _, b1, b2⟩ := r5 ab hab t ht0 ht1
    exact ⟨s, hs, hown, z, hz, b1, b2⟩

example := ms_roundtrip_growth_real_of_hyps (sa := MigExample.exSa) (g := MigExample.growBranch1) (N0 := 1)
  (by decide +kernel) growBranch1_acc

#print axioms Demes.Theorems.regrow_real_close
#print axioms Demes.Theorems.regrow_real_close_anchor
#print axioms Demes.Theorems.regrow_real_rel
#print axioms Demes.Theorems.regrow_real_exact
#print axioms Demes.Theorems.growthEq_real
#print axioms Demes.Theorems.graph_segOK
#print axioms Demes.Theorems.graph_segGrowth_mem
#print axioms Demes.Theorems.segReal_eq_expoReal
#print axioms Demes.Theorems.ms_roundtrip_growth_real
#print axioms Demes.Theorems.ms_roundtrip_growth_real_exact

end Demes.Theorems
