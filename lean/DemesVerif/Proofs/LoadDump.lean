/-
  Proofs for C16 — strict JSON output, "Infinity" strings, refusal of nulls
  (Model `DemesVerif/Model/LoadDump.lean`, Spec `DemesVerif/Spec/C16.lean`).
-/
import DemesVerif.Spec.C16
namespace Demes.Proofs
open Demes Demes.Spec

/-! ### induction on documents -/

theorem value_induct {P : Value → Prop}
    (hnull : P .null) (hbool : ∀ b, P (.bool b)) (hnum : ∀ n, P (.num n)) (hstr : ∀ s, P (.str s))
    (hlist : ∀ xs : List Value, (∀ x ∈ xs, P x) → P (.list xs))
    (hobj : ∀ kvs : List (String × Value), (∀ kv ∈ kvs, P kv.2) → P (.obj kvs)) :
    ∀ v, P v := by
  intro v
  refine Value.rec (motive_1 := P) (motive_2 := fun xs => ∀ x ∈ xs, P x)
    (motive_3 := fun kvs => ∀ kv ∈ kvs, P kv.2) (motive_4 := fun kv => P kv.2)
    hnull hbool hnum hstr hlist hobj ?_ ?_ ?_ ?_ ?_ v
  · intro x hx; cases hx
  · intro h t ih1 ih2 x hx
    rcases List.mem_cons.mp hx with rfl | hx
    · exact ih1
    · exact ih2 x hx
  · intro x hx; cases hx
  · intro h t ih1 ih2 x hx
    rcases List.mem_cons.mp hx with rfl | hx
    · exact ih1
    · exact ih2 x hx
  · intro k v ih; exact ih

/-! ### the Model's null search, as `List.all` -/

theorem noNullList_eq (xs : List Value) : noNullList xs = xs.all noNullVal := by
  induction xs with
  | nil => simp only [noNullList, List.all_nil]
  | cons x xs ih => simp only [noNullList, List.all_cons, ih]

theorem noNullObj_eq (kvs : List (String × Value)) :
    noNullObj kvs = kvs.all (fun kv => noNullVal kv.2) := by
  induction kvs with
  | nil => simp only [noNullObj, List.all_nil]
  | cons kv kvs ih => obtain ⟨k, v⟩ := kv; simp only [noNullObj, List.all_cons, ih]

theorem noNullVal_list (xs : List Value) : noNullVal (.list xs) = xs.all noNullVal := by
  simp only [noNullVal, noNullList_eq]

theorem noNullVal_obj (kvs : List (String × Value)) :
    noNullVal (.obj kvs) = kvs.all (fun kv => noNullVal kv.2) := by
  simp only [noNullVal, noNullObj_eq]

theorem hasNonFiniteL_eq (xs : List Value) : hasNonFiniteL xs = xs.any hasNonFinite := by
  induction xs with
  | nil => simp only [hasNonFiniteL, List.any_nil]
  | cons x xs ih => simp only [hasNonFiniteL, List.any_cons, ih]

theorem hasNonFiniteO_eq (kvs : List (String × Value)) :
    hasNonFiniteO kvs = kvs.any (fun kv => hasNonFinite kv.2) := by
  induction kvs with
  | nil => simp only [hasNonFiniteO, List.any_nil]
  | cons kv kvs ih => obtain ⟨k, v⟩ := kv; simp only [hasNonFiniteO, List.any_cons, ih]

theorem hasNonFinite_list (xs : List Value) : hasNonFinite (.list xs) = xs.any hasNonFinite := by
  simp only [hasNonFinite, hasNonFiniteL_eq]

theorem hasNonFinite_obj (kvs : List (String × Value)) :
    hasNonFinite (.obj kvs) = kvs.any (fun kv => hasNonFinite kv.2) := by
  simp only [hasNonFinite, hasNonFiniteO_eq]

/-! ### the recursive searches find exactly what is reachable -/

theorem reach_of_noNullVal_false : ∀ v, noNullVal v = false → Reach v .null := by
  apply value_induct
  · intro _; exact Reach.here _
  · intro b h; simp [noNullVal] at h
  · intro n h; simp [noNullVal] at h
  · intro s h; simp [noNullVal] at h
  · intro xs ih h
    rw [noNullVal_list, List.all_eq_false] at h
    obtain ⟨x, hx, hn⟩ := h
    exact Reach.elem hx (ih x hx (by simpa using hn))
  · intro kvs ih h
    rw [noNullVal_obj, List.all_eq_false] at h
    obtain ⟨kv, hkv, hn⟩ := h
    exact Reach.field (k := kv.1) (x := kv.2) hkv (ih kv hkv (by simpa using hn))

theorem noNullVal_false_of_reach {v w : Value} (h : Reach v w) : w = .null → noNullVal v = false := by
  induction h with
  | here v => intro h; subst h; simp only [noNullVal]
  | elem hx _ ih =>
    intro hw
    rw [noNullVal_list, List.all_eq_false]
    exact ⟨_, hx, by simp [ih hw]⟩
  | field hx _ ih =>
    intro hw
    rw [noNullVal_obj, List.all_eq_false]
    exact ⟨_, hx, by simp [ih hw]⟩

/-- the Model's recursive search (`assert_no_nulls`) fails exactly when a null is reachable,
through any nesting of lists and mappings -/
theorem noNullVal_false_iff (v : Value) : noNullVal v = false ↔ Reach v .null :=
  ⟨reach_of_noNullVal_false v, fun h => noNullVal_false_of_reach h rfl⟩

theorem noNullVal_true_iff (v : Value) : noNullVal v = true ↔ ¬ Reach v .null := by
  rw [← noNullVal_false_iff]; simp

theorem reach_of_hasNonFinite : ∀ v, hasNonFinite v = true →
    ∃ n, Reach v (.num n) ∧ nonFiniteNum n = true := by
  apply value_induct
  · intro h; simp [hasNonFinite] at h
  · intro b h; simp [hasNonFinite] at h
  · intro n h; exact ⟨n, Reach.here _, by simpa [hasNonFinite] using h⟩
  · intro s h; simp [hasNonFinite] at h
  · intro xs ih h
    rw [hasNonFinite_list, List.any_eq_true] at h
    obtain ⟨x, hx, hn⟩ := h
    obtain ⟨n, hr, hn⟩ := ih x hx hn
    exact ⟨n, Reach.elem hx hr, hn⟩
  · intro kvs ih h
    rw [hasNonFinite_obj, List.any_eq_true] at h
    obtain ⟨kv, hkv, hn⟩ := h
    obtain ⟨n, hr, hn⟩ := ih kv hkv hn
    exact ⟨n, Reach.field (k := kv.1) (x := kv.2) hkv hr, hn⟩

theorem hasNonFinite_of_reach {v w : Value} (h : Reach v w) :
    ∀ n, w = .num n → nonFiniteNum n = true → hasNonFinite v = true := by
  induction h with
  | here v => intro n h hn; subst h; simpa [hasNonFinite] using hn
  | elem hx _ ih =>
    intro n hw hn
    rw [hasNonFinite_list, List.any_eq_true]
    exact ⟨_, hx, ih n hw hn⟩
  | field hx _ ih =>
    intro n hw hn
    rw [hasNonFinite_obj, List.any_eq_true]
    exact ⟨_, hx, ih n hw hn⟩

/-- `hasNonFinite` is true exactly when an `inf`, `-inf` or `nan` number is reachable -/
theorem hasNonFinite_iff (v : Value) :
    hasNonFinite v = true ↔ ∃ n, Reach v (.num n) ∧ (n = .pinf ∨ n = .ninf ∨ n = .nan) := by
  constructor
  · intro h
    obtain ⟨n, hr, hn⟩ := reach_of_hasNonFinite v h
    refine ⟨n, hr, ?_⟩
    cases n <;> simp [nonFiniteNum] at hn ⊢
  · rintro ⟨n, hr, hn⟩
    refine hasNonFinite_of_reach hr n rfl ?_
    rcases hn with rfl | rfl | rfl <;> rfl

/-! ### `List.mapM` in `Except` -/

theorem mapM_nil_ok {α β} (f : α → Except Err β) : ([] : List α).mapM f = .ok [] := by
  simp only [List.mapM_nil, pure, Except.pure]

theorem mapM_cons_ok {α β} (f : α → Except Err β) (x : α) (xs : List α) (zs : List β) :
    (x :: xs).mapM f = .ok zs ↔ ∃ y ys, f x = .ok y ∧ xs.mapM f = .ok ys ∧ zs = y :: ys := by
  rw [List.mapM_cons]
  cases hx : f x with
  | error e => simp [bind, Except.bind]
  | ok y =>
    cases hxs : xs.mapM f with
    | error e => simp [bind, Except.bind]
    | ok ys =>
      simp only [bind, Except.bind, pure, Except.pure, Except.ok.injEq]
      constructor
      · intro h; exact ⟨y, ys, rfl, rfl, h.symm⟩
      · rintro ⟨y', ys', rfl, rfl, rfl⟩; rfl

theorem mapM_ok_index {α β} (f : α → Except Err β) : ∀ (xs : List α) (ys : List β),
    xs.mapM f = .ok ys →
    ys.length = xs.length ∧ ∀ (i : Nat) x, xs[i]? = some x → ∃ y, ys[i]? = some y ∧ f x = .ok y := by
  intro xs
  induction xs with
  | nil =>
    intro ys h
    rw [mapM_nil_ok] at h
    cases h
    exact ⟨rfl, by intro i x hx; simp at hx⟩
  | cons x xs ih =>
    intro zs h
    obtain ⟨y, ys, hy, hys, rfl⟩ := (mapM_cons_ok f x xs zs).mp h
    obtain ⟨hl, hi⟩ := ih ys hys
    refine ⟨by simp [hl], ?_⟩
    intro i a ha
    cases i with
    | zero => simp at ha; subst ha; exact ⟨y, by simp, hy⟩
    | succ i => simp at ha; simpa using hi i a ha

theorem mapM_error_of_mem {α β} (f : α → Except Err β) : ∀ (xs : List α) (x : α) (e : Err),
    x ∈ xs → f x = .error e → ∃ e', xs.mapM f = .error e' := by
  intro xs
  induction xs with
  | nil => intro x e hx; cases hx
  | cons a xs ih =>
    intro x e hx hf
    rw [List.mapM_cons]
    cases ha : f a with
    | error e' => exact ⟨e', by simp [bind, Except.bind]⟩
    | ok y =>
      rcases List.mem_cons.mp hx with rfl | hx
      · rw [ha] at hf; cases hf
      · obtain ⟨e', he'⟩ := ih x e hx hf
        exact ⟨e', by simp [bind, Except.bind, he']⟩

theorem mapM_map_ok_self {α β} (f : β → Except Err α) (g : α → β) : ∀ (xs : List α),
    (∀ x ∈ xs, f (g x) = .ok x) → (xs.map g).mapM f = .ok xs := by
  intro xs
  induction xs with
  | nil => intro _; exact mapM_nil_ok f
  | cons x xs ih =>
    intro h
    rw [List.map_cons, mapM_cons_ok]
    exact ⟨x, xs, h x (by simp), ih (fun a ha => h a (by simp [ha])), rfl⟩

/-! ### positions: `v'` is `v` converted at the positions `S` -/

/-- `v'` is `v` with the values at the positions in `S` passed through `convInfinity`, and
nothing else changed -/
structure Conv (S : Path → Prop) (v v' : Value) : Prop where
  on : ∀ p, S p → at? v' p = (at? v p).map convInfinity
  off : ∀ p, (∀ q, S q → ¬ p <+: q) → at? v' p = at? v p
  towards : ∀ p, (∃ q, S q ∧ p <+: q ∧ p ≠ q) → (at? v' p).map outline = (at? v p).map outline

theorem conv_congr {S T : Path → Prop} {v v' : Value} (h : ∀ p, S p ↔ T p) (c : Conv S v v') :
    Conv T v v' := by
  have : S = T := funext fun p => propext (h p)
  rw [← this]; exact c

theorem at?_nil (v : Value) : at? v [] = some v := rfl

theorem at?_cons (v : Value) (s : Step) (p : Path) :
    at? v (s :: p) = match child? v s with | some x => at? x p | none => none := rfl

theorem child?_convInfinity (v : Value) (s : Step) : child? (convInfinity v) s = child? v s := by
  cases v <;> try rfl
  rename_i str
  simp only [convInfinity]
  split <;> rfl

theorem conv_leaf {S : Path → Prop} (v : Value) (h : ∀ p, S p ↔ p = []) :
    Conv S v (convInfinity v) where
  on := by intro p hp; rw [(h p).mp hp]; rfl
  off := by
    intro p hp
    cases p with
    | nil => exact absurd (List.prefix_refl _) (hp [] ((h []).mpr rfl))
    | cons s r => rw [at?_cons, at?_cons, child?_convInfinity]
  towards := by
    rintro p ⟨q, hq, hpq, hne⟩
    rw [(h q).mp hq] at hpq hne
    exact absurd (List.prefix_nil.mp hpq) hne

theorem conv_same {S : Path → Prop} (v : Value) (h : ∀ p, S p → at? v p = none) : Conv S v v where
  on := by intro p hp; rw [h p hp]; rfl
  off := by intro p _; rfl
  towards := by intro p _; rfl

theorem child?_obj_key (kvs : List (String × Value)) (i : Nat) (k : String) :
    child? (.obj kvs) (.key i k) = match kvs[i]? with
      | some (k', x) => if k' = k then some x else none
      | none => none := rfl

theorem conv_obj {S : Path → Prop} {kvs kvs' : List (String × Value)}
    (hlen : kvs'.length = kvs.length) (hnil : ¬ S [])
    (hch : ∀ (i : Nat) k x, kvs[i]? = some (k, x) →
      ∃ x', kvs'[i]? = some (k, x') ∧ Conv (fun p => S (.key i k :: p)) x x') :
    Conv S (.obj kvs) (.obj kvs') := by
  have hnone : ∀ i : Nat, kvs[i]? = none → kvs'[i]? = none := by
    intro i h
    rw [List.getElem?_eq_none_iff] at h ⊢; omega
  -- a common analysis of one step
  have step : ∀ (s : Step) (r : Path) (R : Option Value → Option Value → Prop),
      R none none →
      (∀ i k x x', s = .key i k → kvs[i]? = some (k, x) → kvs'[i]? = some (k, x') →
        Conv (fun p => S (.key i k :: p)) x x' → R (at? x' r) (at? x r)) →
      R (at? (.obj kvs') (s :: r)) (at? (.obj kvs) (s :: r)) := by
    intro s r R h0 h1
    rw [at?_cons, at?_cons]
    cases s with
    | idx i => exact h0
    | key i k =>
      rw [child?_obj_key, child?_obj_key]
      cases hi : kvs[i]? with
      | none => rw [hnone i hi]; exact h0
      | some kv =>
        obtain ⟨k0, x⟩ := kv
        obtain ⟨x', hx', hc⟩ := hch i k0 x hi
        rw [hx']
        by_cases hk : k0 = k
        · subst hk; simp only [if_true]; exact h1 i k0 x x' rfl hi hx' hc
        · simp only [hk, if_false]; exact h0
  refine ⟨?_, ?_, ?_⟩
  · intro p hp
    cases p with
    | nil => exact absurd hp hnil
    | cons s r =>
      refine step s r (fun a b => a = b.map convInfinity) rfl ?_
      intro i k x x' hs _ _ hc
      subst hs; exact hc.on r hp
  · intro p hp
    cases p with
    | nil =>
      rw [at?_nil, at?_nil]
      have : kvs' = kvs := by
        apply List.ext_getElem?
        intro i
        cases hi : kvs[i]? with
        | none => exact hnone i hi
        | some kv =>
          obtain ⟨k0, x⟩ := kv
          obtain ⟨x', hx', hc⟩ := hch i k0 x hi
          have := hc.off [] (fun q hq => absurd List.nil_prefix (hp _ hq))
          rw [at?_nil, at?_nil] at this
          cases this; exact hx'
      rw [this]
    | cons s r =>
      refine step s r (fun a b => a = b) rfl ?_
      intro i k x x' hs _ _ hc
      subst hs
      refine hc.off r (fun q hq hrq => hp _ hq ?_)
      exact (List.prefix_cons_inj _).mpr hrq
  · rintro p ⟨q, hq, hpq, hne⟩
    cases p with
    | nil =>
      rw [at?_nil, at?_nil]
      simp only [Option.map_some, outline, Option.some.injEq, Outline.obj.injEq]
      apply List.ext_getElem?
      intro i
      rw [List.getElem?_map, List.getElem?_map]
      cases hi : kvs[i]? with
      | none => rw [hnone i hi]
      | some kv =>
        obtain ⟨k0, x⟩ := kv
        obtain ⟨x', hx', _⟩ := hch i k0 x hi
        rw [hx']; rfl
    | cons s r =>
      refine step s r (fun a b => a.map outline = b.map outline) rfl ?_
      intro i k x x' hs _ _ hc
      subst hs
      cases q with
      | nil => exact absurd hpq (by simp)
      | cons s' q' =>
        obtain ⟨rfl, hrq⟩ := List.cons_prefix_cons.mp hpq
        exact hc.towards r ⟨q', hq, hrq, fun h => hne (by rw [h])⟩


theorem child?_list_idx (xs : List Value) (i : Nat) : child? (.list xs) (.idx i) = xs[i]? := rfl

theorem conv_list {S : Path → Prop} {xs xs' : List Value}
    (hlen : xs'.length = xs.length) (hnil : ¬ S [])
    (hch : ∀ (i : Nat) x, xs[i]? = some x →
      ∃ x', xs'[i]? = some x' ∧ Conv (fun p => S (.idx i :: p)) x x') :
    Conv S (.list xs) (.list xs') := by
  have hnone : ∀ i : Nat, xs[i]? = none → xs'[i]? = none := by
    intro i h
    rw [List.getElem?_eq_none_iff] at h ⊢; omega
  have step : ∀ (s : Step) (r : Path) (R : Option Value → Option Value → Prop),
      R none none →
      (∀ i x x', s = .idx i → xs[i]? = some x → xs'[i]? = some x' →
        Conv (fun p => S (.idx i :: p)) x x' → R (at? x' r) (at? x r)) →
      R (at? (.list xs') (s :: r)) (at? (.list xs) (s :: r)) := by
    intro s r R h0 h1
    rw [at?_cons, at?_cons]
    cases s with
    | key i k => exact h0
    | idx i =>
      rw [child?_list_idx, child?_list_idx]
      cases hi : xs[i]? with
      | none => rw [hnone i hi]; exact h0
      | some x =>
        obtain ⟨x', hx', hc⟩ := hch i x hi
        rw [hx']
        exact h1 i x x' rfl hi hx' hc
  refine ⟨?_, ?_, ?_⟩
  · intro p hp
    cases p with
    | nil => exact absurd hp hnil
    | cons s r =>
      refine step s r (fun a b => a = b.map convInfinity) rfl ?_
      intro i x x' hs _ _ hc
      subst hs; exact hc.on r hp
  · intro p hp
    cases p with
    | nil =>
      rw [at?_nil, at?_nil]
      have : xs' = xs := by
        apply List.ext_getElem?
        intro i
        cases hi : xs[i]? with
        | none => exact hnone i hi
        | some x =>
          obtain ⟨x', hx', hc⟩ := hch i x hi
          have := hc.off [] (fun q hq => absurd List.nil_prefix (hp _ hq))
          rw [at?_nil, at?_nil] at this
          cases this; exact hx'
      rw [this]
    | cons s r =>
      refine step s r (fun a b => a = b) rfl ?_
      intro i x x' hs _ _ hc
      subst hs
      refine hc.off r (fun q hq hrq => hp _ hq ?_)
      exact (List.prefix_cons_inj _).mpr hrq
  · rintro p ⟨q, hq, hpq, hne⟩
    cases p with
    | nil =>
      rw [at?_nil, at?_nil]
      simp only [Option.map_some, outline, hlen]
    | cons s r =>
      refine step s r (fun a b => a.map outline = b.map outline) rfl ?_
      intro i x x' hs _ _ hc
      subst hs
      cases q with
      | nil => exact absurd hpq (by simp)
      | cons s' q' =>
        obtain ⟨rfl, hrq⟩ := List.cons_prefix_cons.mp hpq
        exact hc.towards r ⟨q', hq, hrq, fun h => hne (by rw [h])⟩

/-! ### the Model's `_unstringify_infinities`, level by level -/

theorem unstringifyStart_entry (k : String) (x : Value) :
    (if (k, x).1 = "start_time" then
      match (k, x).2 with
      | .str s => if s = infinityStr then ((k, x).1, Value.num .pinf) else (k, x)
      | _ => (k, x)
    else (k, x)) = (k, if k = "start_time" then convInfinity x else x) := by
  by_cases hk : k = "start_time"
  · simp only [hk, if_true]
    cases x <;> simp only [convInfinity]
    rename_i s
    by_cases hs : s = "Infinity" <;> simp [hs, infinityStr]
  · simp only [hk, if_false]

theorem unstringifyStart_getElem? (kvs : Obj) (i : Nat) :
    (unstringifyStart kvs)[i]? =
      (kvs[i]?).map (fun kv => (kv.1, if kv.1 = "start_time" then convInfinity kv.2 else kv.2)) := by
  unfold unstringifyStart
  rw [List.getElem?_map]
  congr 1
  funext kv
  obtain ⟨k, x⟩ := kv
  exact unstringifyStart_entry k x

/-- the positions `start_time` inside a deme / migration / defaults dictionary -/
def startKeyPos (p : Path) : Prop := ∃ b, p = [.key b "start_time"]

theorem conv_start (kvs : Obj) : Conv startKeyPos (.obj kvs) (.obj (unstringifyStart kvs)) := by
  apply conv_obj
  · simp [unstringifyStart]
  · rintro ⟨b, h⟩; cases h
  · intro i k x hi
    rw [unstringifyStart_getElem?, hi]
    refine ⟨_, rfl, ?_⟩
    by_cases hk : k = "start_time"
    · simp only [hk, if_true]
      apply conv_leaf
      intro p
      simp only [startKeyPos, List.cons.injEq, Step.key.injEq, and_true]
      constructor
      · rintro ⟨b, _, h⟩; exact h
      · intro h; exact ⟨i, rfl, h⟩
    · simp only [hk, if_false]
      apply conv_same
      rintro p ⟨b, h⟩
      simp only [List.cons.injEq, Step.key.injEq] at h
      exact absurd h.1.2 hk

/-- the positions `[j].start_time` inside a `demes` / `migrations` list -/
def itemsPos (p : Path) : Prop := ∃ j b, p = [.idx j, .key b "start_time"]

theorem conv_items (v v' : Value) (h : unstringifyItems v = .ok v') : Conv itemsPos v v' := by
  have same : ∀ w : Value, (∀ xs, w ≠ .list xs) → Conv itemsPos w w := by
    intro w hw
    apply conv_same
    rintro p ⟨j, b, rfl⟩
    rw [at?_cons]
    cases w <;> try rfl
    exact absurd rfl (hw _)
  cases v with
  | list xs =>
    simp only [unstringifyItems, bind, Except.bind] at h
    split at h
    · cases h
    · rename_i ys hys
      simp only [pure, Except.pure, Except.ok.injEq] at h
      subst h
      obtain ⟨hl, hi⟩ := mapM_ok_index _ _ _ hys
      apply conv_list hl
      · rintro ⟨j, b, h⟩; cases h
      · intro i x hx
        obtain ⟨y, hy, hf⟩ := hi i x hx
        refine ⟨y, hy, ?_⟩
        cases x <;> simp only [pure, Except.pure, Except.ok.injEq, reduceCtorEq] at hf
        subst hf
        refine conv_congr ?_ (conv_start _)
        intro p
        simp only [startKeyPos, itemsPos, List.cons.injEq, Step.idx.injEq]
        constructor
        · rintro ⟨b, h⟩; exact ⟨i, b, rfl, h⟩
        · rintro ⟨j, b, _, h⟩; exact ⟨b, h⟩
  | obj kvs =>
    simp only [unstringifyItems] at h
    split at h
    · simp only [pure, Except.pure, Except.ok.injEq] at h; subst h
      exact same _ (by intro xs h; cases h)
    · cases h
  | str s =>
    simp only [unstringifyItems] at h
    split at h
    · simp only [pure, Except.pure, Except.ok.injEq] at h; subst h
      exact same _ (by intro xs h; cases h)
    · cases h
  | null => simp [unstringifyItems, typeErr] at h
  | bool b => simp [unstringifyItems, typeErr] at h
  | num n => simp [unstringifyItems, typeErr] at h


/-- the positions `deme.start_time` / `migration.start_time` inside `defaults` -/
def defaultsPos (p : Path) : Prop :=
  ∃ c b, p = [.key c "deme", .key b "start_time"] ∨ p = [.key c "migration", .key b "start_time"]

/-- what `_unstringify_infinities` does to one top-level entry -/
def unstrEntry (kv : String × Value) : Except Err (String × Value) :=
  if kv.1 = "demes" || kv.1 = "migrations" then do
    let v ← unstringifyItems kv.2; pure (kv.1, v)
  else if kv.1 = "defaults" then do
    let v ← unstringifyDefaults kv.2; pure (kv.1, v)
  else pure kv

theorem unstringifyInfinities_eq (data : Obj) :
    unstringifyInfinities data =
      if Obj.contains "demes" data = true then data.mapM unstrEntry else keyErr "demes" := by
  unfold unstringifyInfinities
  by_cases hc : Obj.contains "demes" data = true
  · simp only [hc, Bool.not_true, Bool.false_eq_true, if_false, if_true, bind, Except.bind, pure,
      Except.pure]
    rfl
  · simp only [hc, Bool.not_false, if_true, Bool.false_eq_true, if_false, bind, Except.bind, keyErr]

theorem unstringifyInfinities_ok {data data' : Obj} (h : unstringifyInfinities data = .ok data') :
    Obj.contains "demes" data = true ∧ data.mapM unstrEntry = .ok data' := by
  rw [unstringifyInfinities_eq] at h
  by_cases hc : Obj.contains "demes" data = true
  · rw [if_pos hc] at h; exact ⟨hc, h⟩
  · rw [if_neg hc] at h; cases h

/-- what `_unstringify_infinities` does to one entry of `defaults` -/
def unstrDefEntry (kv : String × Value) : Except Err (String × Value) :=
  if kv.1 = "migration" || kv.1 = "deme" then
    match kv.2 with
    | .obj inner => pure (kv.1, Value.obj (unstringifyStart inner))
    | _ => (.error ⟨.other, "AttributeError: no attribute 'get'"⟩ : Except Err (String × Value))
  else pure kv

theorem unstringifyDefaults_obj (kvs : Obj) (v' : Value)
    (h : unstringifyDefaults (.obj kvs) = .ok v') :
    ∃ kvs', kvs.mapM unstrDefEntry = .ok kvs' ∧ v' = .obj kvs' := by
  simp only [unstringifyDefaults, bind, Except.bind] at h
  split at h
  · cases h
  · rename_i ys hys
    simp only [pure, Except.pure, Except.ok.injEq] at h
    exact ⟨ys, hys, h.symm⟩

theorem unstrDefEntry_ok {k : String} {x : Value} {y : String × Value}
    (h : unstrDefEntry (k, x) = .ok y) :
    (k ≠ "deme" ∧ k ≠ "migration" ∧ y = (k, x)) ∨
    ((k = "deme" ∨ k = "migration") ∧ ∃ inner, x = .obj inner ∧ y = (k, .obj (unstringifyStart inner))) := by
  unfold unstrDefEntry at h
  by_cases hk : k = "migration" ∨ k = "deme"
  · have : ((k, x).1 = "migration" || (k, x).1 = "deme") = true := by simpa using hk
    rw [if_pos this] at h
    cases x <;> simp only [pure, Except.pure, Except.ok.injEq, reduceCtorEq] at h
    exact Or.inr ⟨hk.symm, _, rfl, h.symm⟩
  · have : ¬ ((k, x).1 = "migration" || (k, x).1 = "deme") = true := by simpa using hk
    rw [if_neg this] at h
    simp only [pure, Except.pure, Except.ok.injEq] at h
    have hk' := not_or.mp hk
    exact Or.inl ⟨hk'.2, hk'.1, h.symm⟩

theorem conv_defaults (v v' : Value) (h : unstringifyDefaults v = .ok v') :
    Conv defaultsPos v v' := by
  have same : ∀ w : Value, (∀ kvs, w ≠ .obj kvs) → Conv defaultsPos w w := by
    intro w hw
    apply conv_same
    rintro p ⟨c, b, rfl | rfl⟩ <;>
    · rw [at?_cons]
      cases w <;> try rfl
      exact absurd rfl (hw _)
  cases v with
  | obj kvs =>
    obtain ⟨kvs', hm, rfl⟩ := unstringifyDefaults_obj kvs v' h
    obtain ⟨hl, hi⟩ := mapM_ok_index _ _ _ hm
    apply conv_obj hl
    · rintro ⟨c, b, h | h⟩ <;> cases h
    · intro i k x hx
      obtain ⟨y, hy, hf⟩ := hi i (k, x) hx
      rcases unstrDefEntry_ok hf with ⟨hk1, hk2, rfl⟩ | ⟨hk, inner, rfl, rfl⟩
      · refine ⟨x, hy, ?_⟩
        apply conv_same
        rintro p ⟨c, b, h | h⟩ <;>
        · simp only [List.cons.injEq, Step.key.injEq] at h
          first | exact absurd h.1.2 hk1 | exact absurd h.1.2 hk2
      · refine ⟨_, hy, ?_⟩
        refine conv_congr ?_ (conv_start _)
        intro p
        simp only [startKeyPos, defaultsPos, List.cons.injEq, Step.key.injEq]
        constructor
        · rintro ⟨b, h⟩
          rcases hk with hk | hk
          · exact ⟨i, b, Or.inl ⟨⟨rfl, hk⟩, h⟩⟩
          · exact ⟨i, b, Or.inr ⟨⟨rfl, hk⟩, h⟩⟩
        · rintro ⟨c, b, ⟨_, h⟩ | ⟨_, h⟩⟩ <;> exact ⟨b, h⟩
  | list xs =>
    simp only [unstringifyDefaults] at h
    split at h
    · simp [typeErr] at h
    · simp only [pure, Except.pure, Except.ok.injEq] at h; subst h
      exact same _ (by intro kvs h; cases h)
  | str s =>
    simp only [unstringifyDefaults, pure, Except.pure, Except.ok.injEq] at h; subst h
    exact same _ (by intro kvs h; cases h)
  | null => simp [unstringifyDefaults, typeErr] at h
  | bool b => simp [unstringifyDefaults, typeErr] at h
  | num n => simp [unstringifyDefaults, typeErr] at h


theorem startTimePos_cons (s : Step) (p : Path) :
    StartTimePos (s :: p) ↔
      ∃ a k, s = .key a k ∧
        (((k = "demes" ∨ k = "migrations") ∧ itemsPos p) ∨ (k = "defaults" ∧ defaultsPos p)) := by
  constructor
  · intro h
    cases h with
    | deme a i b => exact ⟨a, _, rfl, Or.inl ⟨Or.inl rfl, i, b, rfl⟩⟩
    | migration a i b => exact ⟨a, _, rfl, Or.inl ⟨Or.inr rfl, i, b, rfl⟩⟩
    | defaultsDeme a c b => exact ⟨a, _, rfl, Or.inr ⟨rfl, c, b, Or.inl rfl⟩⟩
    | defaultsMigration a c b => exact ⟨a, _, rfl, Or.inr ⟨rfl, c, b, Or.inr rfl⟩⟩
  · rintro ⟨a, k, rfl, ⟨rfl | rfl, i, b, rfl⟩ | ⟨rfl, c, b, rfl | rfl⟩⟩
    · exact .deme a i b
    · exact .migration a i b
    · exact .defaultsDeme a c b
    · exact .defaultsMigration a c b

theorem unstrEntry_ok {k : String} {x : Value} {y : String × Value}
    (h : unstrEntry (k, x) = .ok y) :
    ((k = "demes" ∨ k = "migrations") ∧ ∃ v', unstringifyItems x = .ok v' ∧ y = (k, v')) ∨
    (k = "defaults" ∧ ∃ v', unstringifyDefaults x = .ok v' ∧ y = (k, v')) ∨
    (k ≠ "demes" ∧ k ≠ "migrations" ∧ k ≠ "defaults" ∧ y = (k, x)) := by
  unfold unstrEntry at h
  by_cases hk : k = "demes" ∨ k = "migrations"
  · have : ((k, x).1 = "demes" || (k, x).1 = "migrations") = true := by simpa using hk
    rw [if_pos this] at h
    simp only [bind, Except.bind] at h
    split at h
    · cases h
    · rename_i v' hv'
      simp only [pure, Except.pure, Except.ok.injEq] at h
      exact Or.inl ⟨hk, v', hv', h.symm⟩
  · have : ¬ ((k, x).1 = "demes" || (k, x).1 = "migrations") = true := by simpa using hk
    rw [if_neg this] at h
    have hk' := not_or.mp hk
    by_cases hd : k = "defaults"
    · have : (k, x).1 = "defaults" := hd
      rw [if_pos this] at h
      simp only [bind, Except.bind] at h
      split at h
      · cases h
      · rename_i v' hv'
        simp only [pure, Except.pure, Except.ok.injEq] at h
        exact Or.inr (Or.inl ⟨hd, v', hv', h.symm⟩)
    · have : ¬ (k, x).1 = "defaults" := hd
      rw [if_neg this] at h
      simp only [pure, Except.pure, Except.ok.injEq] at h
      exact Or.inr (Or.inr ⟨hk'.1, hk'.2, hd, h.symm⟩)

theorem conv_top (data data' : Obj) (h : unstringifyInfinities data = .ok data') :
    Conv StartTimePos (.obj data) (.obj data') := by
  obtain ⟨_, hm⟩ := unstringifyInfinities_ok h
  obtain ⟨hl, hi⟩ := mapM_ok_index _ _ _ hm
  apply conv_obj hl
  · intro h; cases h
  · intro i k x hx
    obtain ⟨y, hy, hf⟩ := hi i (k, x) hx
    rcases unstrEntry_ok hf with ⟨hk, v', hv', rfl⟩ | ⟨hk, v', hv', rfl⟩ | ⟨h1, h2, h3, rfl⟩
    · refine ⟨v', hy, conv_congr ?_ (conv_items _ _ hv')⟩
      intro p
      rw [startTimePos_cons]
      constructor
      · intro hp; exact ⟨i, k, rfl, Or.inl ⟨hk, hp⟩⟩
      · rintro ⟨a, k', hs, ⟨_, hp⟩ | ⟨hk', _⟩⟩
        · exact hp
        · cases hs
          subst hk'
          rcases hk with hk | hk <;> exact absurd hk (by decide)
    · refine ⟨v', hy, conv_congr ?_ (conv_defaults _ _ hv')⟩
      intro p
      rw [startTimePos_cons]
      constructor
      · intro hp; exact ⟨i, k, rfl, Or.inr ⟨hk, hp⟩⟩
      · rintro ⟨a, k', hs, ⟨hk', _⟩ | ⟨_, hp⟩⟩
        · cases hs
          subst hk
          rcases hk' with hk | hk <;> exact absurd hk (by decide)
        · exact hp
    · refine ⟨x, hy, ?_⟩
      apply conv_same
      intro p hp
      rw [startTimePos_cons] at hp
      obtain ⟨a, k', hs, ⟨hk' | hk', _⟩ | ⟨hk', _⟩⟩ := hp <;> cases hs
      · exact absurd hk' h1
      · exact absurd hk' h2
      · exact absurd hk' h3

/-- **C16.3** what a loader changes: after a successful `_unstringify_infinities`,
* the value at each start-time position is the old one passed through `convInfinity` (the
  string `"Infinity"` becomes `+inf`, anything else stays),
* the value at every position that does not lead to a start-time position is unchanged,
* the containers on the way to a start-time position keep their outline (kind, length, keys in
  order). -/
theorem unstringify_only_start_times (data data' : Obj)
    (h : unstringifyInfinities data = .ok data') :
    (data'.map (·.1) = data.map (·.1)) ∧
    (∀ p, StartTimePos p → at? (.obj data') p = (at? (.obj data) p).map convInfinity) ∧
    (∀ p, AwayFromStartTimes p → at? (.obj data') p = at? (.obj data) p) ∧
    (∀ p, TowardsStartTime p →
      (at? (.obj data') p).map outline = (at? (.obj data) p).map outline) := by
  have c := conv_top data data' h
  refine ⟨?_, c.on, c.off, c.towards⟩
  have := c.towards [] ⟨_, StartTimePos.deme 0 0 0, List.nil_prefix, by simp⟩
  simpa [at?_nil, outline] using this


/-! ### positions that are away from the start times -/

theorem away_top (a : Nat) (k : String) (r : Path) (h1 : k ≠ "demes") (h2 : k ≠ "migrations")
    (h3 : k ≠ "defaults") : AwayFromStartTimes (.key a k :: r) := by
  intro q hq hpq
  cases q with
  | nil => simp at hpq
  | cons s q' =>
    obtain ⟨rfl, _⟩ := List.cons_prefix_cons.mp hpq
    obtain ⟨a', k', hs, ⟨hk' | hk', _⟩ | ⟨hk', _⟩⟩ := (startTimePos_cons _ _).mp hq <;> cases hs
    · exact h1 hk'
    · exact h2 hk'
    · exact h3 hk'

theorem away_field (s1 s2 : Step) (b : Nat) (k : String) (r : Path) (hk : k ≠ "start_time") :
    AwayFromStartTimes (s1 :: s2 :: .key b k :: r) := by
  intro q hq hpq
  cases hq <;>
  · simp only [List.cons_prefix_cons, Step.key.injEq] at hpq
    exact hk hpq.2.2.1.2

theorem away_below (q r : Path) (s : Step) (hq : StartTimePos q) :
    AwayFromStartTimes (q ++ s :: r) := by
  intro q' hq' hpq
  have := List.IsPrefix.length_le hpq
  cases hq <;> cases hq' <;> simp at this

/-- the string "Infinity" anywhere else stays a string -/
theorem unstringify_keeps_other_strings (data data' : Obj)
    (h : unstringifyInfinities data = .ok data') (p : Path) (hp : AwayFromStartTimes p)
    (hs : at? (.obj data) p = some (.str "Infinity")) :
    at? (.obj data') p = some (.str "Infinity") := by
  rw [(unstringify_only_start_times data data' h).2.2.1 p hp, hs]

/-- a start-time position holding the string "Infinity" holds `+inf` afterwards, and a
start-time position holding anything else is unchanged -/
theorem unstringify_at_start_time (data data' : Obj)
    (h : unstringifyInfinities data = .ok data') (p : Path) (hp : StartTimePos p) :
    (at? (.obj data) p = some (.str "Infinity") → at? (.obj data') p = some (.num .pinf)) ∧
    (at? (.obj data) p ≠ some (.str "Infinity") → at? (.obj data') p = at? (.obj data) p) := by
  have := (unstringify_only_start_times data data' h).2.1 p hp
  constructor
  · intro hs; rw [this, hs]; rfl
  · intro hs
    rw [this]
    cases hv : at? (.obj data) p with
    | none => rfl
    | some v =>
      rw [hv] at hs
      cases v <;> try rfl
      rename_i s
      have : s ≠ "Infinity" := fun h => hs (by rw [h])
      simp [convInfinity, this]

/-- the two `defaults` positions are converted -/
theorem unstringify_defaults (data data' : Obj) (h : unstringifyInfinities data = .ok data')
    (a c b : Nat) (k : String) (hk : k = "deme" ∨ k = "migration")
    (hs : at? (.obj data) [.key a "defaults", .key c k, .key b "start_time"]
            = some (.str "Infinity")) :
    at? (.obj data') [.key a "defaults", .key c k, .key b "start_time"] = some (.num .pinf) := by
  refine (unstringify_at_start_time data data' h _ ?_).1 hs
  rcases hk with rfl | rfl
  · exact .defaultsDeme a c b
  · exact .defaultsMigration a c b

/-! ### `load_asdict` -/

theorem loadAsdictValue_obj (data : Obj) :
    loadAsdictValue (.obj data) =
      match noNullValues data with
      | .error e => .error e
      | .ok _ => match unstringifyInfinities data with
        | .error e => .error e
        | .ok data' => .ok (.obj data') := by
  simp only [loadAsdictValue, bind, Except.bind, pure, Except.pure]
  cases noNullValues data <;> cases unstringifyInfinities data <;> rfl

theorem loadAsdictValue_obj_ok {data : Obj} {v : Value} (h : loadAsdictValue (.obj data) = .ok v) :
    noNullValues data = .ok () ∧ ∃ data', unstringifyInfinities data = .ok data' ∧ v = .obj data' := by
  rw [loadAsdictValue_obj] at h
  cases hn : noNullValues data with
  | error e => rw [hn] at h; cases h
  | ok u =>
    rw [hn] at h
    cases hu : unstringifyInfinities data with
    | error e => rw [hu] at h; cases h
    | ok data' =>
      rw [hu] at h
      simp only [Except.ok.injEq] at h
      exact ⟨rfl, data', rfl, h.symm⟩

theorem loadAsdictValue_not_obj (v : Value) (h : ∀ kvs, v ≠ .obj kvs) :
    ∃ e, loadAsdictValue v = .error e := by
  cases v <;> first | exact ⟨_, rfl⟩ | exact absurd rfl (h _)

/-! ### nulls -/

theorem noNullValues_ok_iff (data : Obj) :
    noNullValues data = .ok () ↔ ∀ kv ∈ data, kv.1 ≠ "metadata" → noNullVal kv.2 = true := by
  unfold noNullValues
  rw [noNullObj_eq]
  by_cases h : (data.filter (fun kv => kv.1 ≠ "metadata")).all (fun kv => noNullVal kv.2) = true
  · rw [if_pos h]
    simp only [List.all_eq_true, List.mem_filter, decide_eq_true_eq, and_imp] at h
    exact ⟨fun _ => h, fun _ => rfl⟩
  · rw [if_neg h]
    simp only [List.all_eq_true, List.mem_filter, decide_eq_true_eq, and_imp] at h
    simp only [valueErr, reduceCtorEq, false_iff]
    exact h

theorem noNullValues_ok_or_error (data : Obj) :
    noNullValues data = .ok () ∨ ∃ e, noNullValues data = .error e := by
  unfold noNullValues
  split
  · exact Or.inl rfl
  · exact Or.inr ⟨_, rfl⟩

/-- **C16.4** the null check passes exactly when no null is reachable from a top-level entry
other than `metadata`, at any nesting depth of lists and mappings -/
theorem nonull_iff (data : Obj) :
    noNullValues data = .ok () ↔ hasNullOutsideMetadata data = false := by
  rw [noNullValues_ok_iff, hasNullOutsideMetadata_eq_false]
  unfold NullOutsideMetadata
  constructor
  · rintro h ⟨k, v, hm, hk, hr⟩
    have := h (k, v) hm hk
    rw [noNullVal_true_iff] at this
    exact this hr
  · intro h kv hm hk
    rw [noNullVal_true_iff]
    intro hr
    exact h ⟨kv.1, kv.2, hm, hk, hr⟩

theorem nonull_error_iff (data : Obj) :
    (∃ e, noNullValues data = .error e) ↔ hasNullOutsideMetadata data = true := by
  constructor
  · rintro ⟨e, he⟩
    cases hb : hasNullOutsideMetadata data with
    | true => rfl
    | false => rw [(nonull_iff data).mpr hb] at he; cases he
  · intro hb
    rcases noNullValues_ok_or_error data with h | h
    · rw [(nonull_iff data).mp h] at hb; cases hb
    · exact h

/-- two documents that agree outside `metadata` get the same verdict -/
theorem nonull_metadata_ignored (data data' : Obj)
    (h : Obj.erase "metadata" data = Obj.erase "metadata" data') :
    noNullValues data = noNullValues data' := by
  unfold noNullValues
  unfold Obj.erase at h
  rw [h]

theorem erase_set_metadata (m : Value) (data : Obj) :
    Obj.erase "metadata" (Obj.set "metadata" m data) = Obj.erase "metadata" data := by
  induction data with
  | nil => simp [Obj.set, Obj.erase]
  | cons kv rest ih =>
    obtain ⟨k, v⟩ := kv
    unfold Obj.set
    by_cases hk : k = "metadata"
    · simp [hk, Obj.erase]
    · simp only [hk, if_false]
      unfold Obj.erase at ih ⊢
      simp only [List.filter_cons, ih]

/-- setting (or adding) the `metadata` entry to anything never changes the verdict -/
theorem nonull_metadata_set (data : Obj) (m : Value) :
    noNullValues (Obj.set "metadata" m data) = noNullValues data :=
  nonull_metadata_ignored _ _ (erase_set_metadata m data)

/-- entries other than `demes`, `migrations`, `defaults` come back from the loader unchanged,
at the same place — in particular `metadata`, nulls inside it included -/
theorem load_preserves_entry (data : Obj) (v : Value) (h : loadAsdictValue (.obj data) = .ok v)
    (k : String) (h1 : k ≠ "demes") (h2 : k ≠ "migrations") (h3 : k ≠ "defaults") :
    ∃ data', v = .obj data' ∧ data'.length = data.length ∧
      ∀ (i : Nat) m, data[i]? = some (k, m) → data'[i]? = some (k, m) := by
  obtain ⟨_, data', hu, rfl⟩ := loadAsdictValue_obj_ok h
  obtain ⟨_, hm⟩ := unstringifyInfinities_ok hu
  obtain ⟨hl, hi⟩ := mapM_ok_index _ _ _ hm
  refine ⟨data', rfl, hl, ?_⟩
  intro i m him
  obtain ⟨y, hy, hf⟩ := hi i (k, m) him
  rcases unstrEntry_ok hf with ⟨hk | hk, _⟩ | ⟨hk, _⟩ | ⟨_, _, _, rfl⟩
  · exact absurd hk h1
  · exact absurd hk h2
  · exact absurd hk h3
  · exact hy

theorem lookup_mapM_unstrEntry (k : String) (h1 : k ≠ "demes") (h2 : k ≠ "migrations")
    (h3 : k ≠ "defaults") : ∀ (data data' : Obj), data.mapM unstrEntry = .ok data' →
    Obj.lookup k data' = Obj.lookup k data := by
  intro data
  induction data with
  | nil => intro data' h; rw [mapM_nil_ok] at h; cases h; rfl
  | cons kv rest ih =>
    intro data' h
    obtain ⟨y, ys, hy, hys, rfl⟩ := (mapM_cons_ok _ _ _ _).mp h
    obtain ⟨k0, x⟩ := kv
    have ih' := ih ys hys
    rcases unstrEntry_ok hy with ⟨hk, v', _, rfl⟩ | ⟨hk, v', _, rfl⟩ | ⟨_, _, _, rfl⟩
    · have : k0 ≠ k := by rintro rfl; rcases hk with hk | hk; exact h1 hk; exact h2 hk
      simp only [Obj.lookup, this, if_false, ih']
    · have : k0 ≠ k := by rintro rfl; exact h3 hk
      simp only [Obj.lookup, this, if_false, ih']
    · simp only [Obj.lookup, ih']

/-- the loader hands back `data["metadata"]` as it was (nulls inside preserved) -/
theorem load_preserves_metadata (data : Obj) (v : Value) (h : loadAsdictValue (.obj data) = .ok v) :
    ∃ data', v = .obj data' ∧ Obj.lookup "metadata" data' = Obj.lookup "metadata" data := by
  obtain ⟨_, data', hu, rfl⟩ := loadAsdictValue_obj_ok h
  obtain ⟨_, hm⟩ := unstringifyInfinities_ok hu
  exact ⟨data', rfl, lookup_mapM_unstrEntry "metadata" (by decide) (by decide) (by decide) _ _ hm⟩

/-! ### every loading entry point refuses nulls outside `metadata` -/

/-- **C16.5** -/
theorem load_rejects_null (data : Obj) (h : hasNullOutsideMetadata data = true) :
    ∃ e, loadAsdictValue (.obj data) = .error e := by
  obtain ⟨e, he⟩ := (nonull_error_iff data).mpr h
  exact ⟨e, by rw [loadAsdictValue_obj, he]⟩

theorem loadAsdict_rejects_null {Text} (c : Codec Text) (fmt : Format) (t : Text) (data : Obj)
    (hp : c.par fmt t = some (.obj data)) (h : hasNullOutsideMetadata data = true) :
    ∃ e, loadAsdict c fmt t = .error e := by
  obtain ⟨e, he⟩ := load_rejects_null data h
  exact ⟨e, by simp only [loadAsdict, hp, he]⟩

theorem load_rejects_null_graph {Text} (c : Codec Text) (fmt : Format) (t : Text) (data : Obj)
    (hp : c.par fmt t = some (.obj data)) (h : hasNullOutsideMetadata data = true) :
    ∃ e, load c fmt t = .error e := by
  obtain ⟨e, he⟩ := loadAsdict_rejects_null c fmt t data hp h
  exact ⟨e, by simp only [load, he, bind, Except.bind]⟩

theorem loadAll_rejects_null {Text} (c : Codec Text) (t : Text) (vs : List Value) (data : Obj)
    (hp : c.parAll t = some vs) (hmem : .obj data ∈ vs) (h : hasNullOutsideMetadata data = true) :
    ∃ e, loadAll c t = .error e := by
  obtain ⟨e, he⟩ := load_rejects_null data h
  simp only [loadAll, hp]
  exact mapM_error_of_mem _ vs (.obj data) e hmem (by simp only [he, bind, Except.bind])


/-! ### what `Graph.asdict` / `Graph.asdict_simplified` can emit -/

/-- no null and no non-finite number inside -/
structure Clean (v : Value) : Prop where
  noNull : noNullVal v = true
  finite : hasNonFinite v = false

theorem clean_str (s : String) : Clean (.str s) := ⟨rfl, rfl⟩
theorem clean_numV (q : Q) : Clean (numV q) := ⟨rfl, rfl⟩

theorem clean_list (xs : List Value) (h : ∀ x ∈ xs, Clean x) : Clean (.list xs) := by
  constructor
  · rw [noNullVal_list, List.all_eq_true]; exact fun x hx => (h x hx).noNull
  · rw [hasNonFinite_list, List.any_eq_false]; exact fun x hx => by simp [(h x hx).finite]

theorem clean_obj (kvs : List (String × Value)) (h : ∀ kv ∈ kvs, Clean kv.2) : Clean (.obj kvs) := by
  constructor
  · rw [noNullVal_obj, List.all_eq_true]; exact fun x hx => (h x hx).noNull
  · rw [hasNonFinite_obj, List.any_eq_false]; exact fun x hx => by simp [(h x hx).finite]

theorem clean_strsV (xs : List String) : Clean (strsV xs) := by
  apply clean_list
  intro x hx
  obtain ⟨s, _, rfl⟩ := List.mem_map.mp hx
  exact clean_str s

theorem clean_numsV (xs : List Q) : Clean (numsV xs) := by
  apply clean_list
  intro x hx
  obtain ⟨s, _, rfl⟩ := List.mem_map.mp hx
  exact clean_numV s

/-! a small calculus for "every element of a list built with `++` and `if` satisfies `P`" -/

def AllP {α} (P : α → Prop) (l : List α) : Prop := ∀ x ∈ l, P x

theorem allP_nil {α} {P : α → Prop} : AllP P [] ↔ True := by simp [AllP]
theorem allP_cons {α} {P : α → Prop} {a : α} {l : List α} : AllP P (a :: l) ↔ P a ∧ AllP P l := by
  simp [AllP]
theorem allP_append {α} {P : α → Prop} {l1 l2 : List α} :
    AllP P (l1 ++ l2) ↔ AllP P l1 ∧ AllP P l2 := by
  simp only [AllP, List.mem_append]
  exact ⟨fun h => ⟨fun x hx => h x (Or.inl hx), fun x hx => h x (Or.inr hx)⟩,
    fun h x hx => hx.elim (h.1 x) (h.2 x)⟩
theorem allP_ite {α} {P : α → Prop} {c : Prop} [Decidable c] {l1 l2 : List α} :
    AllP P (if c then l1 else l2) ↔ (c → AllP P l1) ∧ (¬ c → AllP P l2) := by
  split <;> simp [*]
theorem allP_optField {α} {P : String × Value → Prop} {k : String} {o : Option α} {f : α → Value} :
    AllP P (optField k o f) ↔ ∀ a, o = some a → P (k, f a) := by
  cases o <;> simp [optField, AllP]

/-- split an `AllP` goal over a literal list expression into one goal per possible element -/
macro "allp" : tactic =>
  `(tactic| (simp only [allP_append, allP_cons, allP_ite, allP_nil, allP_optField, and_true,
               implies_true]
             repeat' apply And.intro))

theorem clean_epoch (e : Epoch) : Clean (Epoch.asdict e) := by
  apply clean_obj
  show AllP (fun kv : String × Value => Clean kv.2) _
  allp <;> intros <;> first | trivial | exact clean_numV _ | exact clean_str _

theorem clean_epoch_simplified (e : Epoch) : Clean (Epoch.simplified e) := by
  apply clean_obj
  show AllP (fun kv : String × Value => Clean kv.2) _
  allp <;> intros <;> first | trivial | exact clean_numV _ | exact clean_str _

theorem clean_pulse (p : Pulse) : Clean (Pulse.asdict p) := by
  apply clean_obj
  show AllP (fun kv : String × Value => Clean kv.2) _
  allp <;> intros <;> first | trivial | exact clean_numV _ | exact clean_str _ | exact clean_strsV _ | exact clean_numsV _

theorem clean_list_map {α} (f : α → Value) (xs : List α) (h : ∀ a, Clean (f a)) :
    Clean (.list (xs.map f)) := by
  apply clean_list
  intro x hx
  obtain ⟨a, _, rfl⟩ := List.mem_map.mp hx
  exact h a

/-- an entry of a deme / migration dictionary as the library emits it: `start_time` carries a
time (`timeV`: a finite number or `+inf`), every other entry is clean -/
def GoodEntry (kv : String × Value) : Prop :=
  (kv.1 = "start_time" ∧ ∃ t, kv.2 = timeV t) ∨ (kv.1 ≠ "start_time" ∧ Clean kv.2)

def GoodDict (v : Value) : Prop := ∃ kvs, v = .obj kvs ∧ AllP GoodEntry kvs

theorem good_start (t : ETime) : GoodEntry ("start_time", timeV t) := Or.inl ⟨rfl, t, rfl⟩
theorem good_other (k : String) (v : Value) (hk : k ≠ "start_time") (hv : Clean v) :
    GoodEntry (k, v) := Or.inr ⟨hk, hv⟩

macro "good_entries" : tactic =>
  `(tactic| (allp <;> intros <;> first
      | trivial
      | exact good_start _
      | (refine good_other _ _ ?_ (clean_str _); decide)
      | (refine good_other _ _ ?_ (clean_numV _); decide)
      | (refine good_other _ _ ?_ (clean_strsV _); decide)
      | (refine good_other _ _ ?_ (clean_numsV _); decide)
      | (refine good_other _ _ ?_ (clean_list_map _ _ clean_epoch); decide)
      | (refine good_other _ _ ?_ (clean_list_map _ _ clean_epoch_simplified); decide)))

theorem good_deme (d : Deme) : GoodDict (Deme.asdict d) := by
  refine ⟨_, rfl, ?_⟩
  good_entries

theorem good_deme_simplified (g : Graph) (d : Deme) : GoodDict (Deme.simplified g d) := by
  refine ⟨_, rfl, ?_⟩
  good_entries

theorem good_migration (m : Migration) : GoodDict (Migration.asdict m) := by
  refine ⟨_, rfl, ?_⟩
  good_entries

theorem good_smig (m : SMig) : GoodDict (SMig.asdict m) := by
  refine ⟨_, rfl, ?_⟩
  good_entries

theorem good_amig (m : AMig) : GoodDict (AMig.asdict m) := by
  refine ⟨_, rfl, ?_⟩
  good_entries


/-! ### `_stringify_infinities` on the library's own dictionaries -/

/-- what `_stringify_infinities` does to one entry of a deme / migration dictionary -/
def strStartEntry (kv : String × Value) : String × Value :=
  if kv.1 = "start_time" then
    match kv.2 with
    | .num n => if n.isInf then (kv.1, Value.str infinityStr) else kv
    | _ => kv
  else kv

def unstrStartEntry (kv : String × Value) : String × Value :=
  if kv.1 = "start_time" then
    match kv.2 with
    | .str s => if s = infinityStr then (kv.1, Value.num .pinf) else kv
    | _ => kv
  else kv

theorem stringifyStart_eq (kvs : Obj) : stringifyStart kvs = kvs.map strStartEntry := rfl
theorem unstringifyStart_eq (kvs : Obj) : unstringifyStart kvs = kvs.map unstrStartEntry := rfl

theorem strStartEntry_good (kv : String × Value) (h : GoodEntry kv) :
    (strStartEntry kv).1 = kv.1 ∧ Clean (strStartEntry kv).2 ∧
      unstrStartEntry (strStartEntry kv) = kv := by
  obtain ⟨k, v⟩ := kv
  rcases h with ⟨hk, t, ht⟩ | ⟨hk, hc⟩
  · simp only at hk ht
    subst hk ht
    cases t with
    | fin q => exact ⟨rfl, ⟨rfl, rfl⟩, rfl⟩
    | inf => exact ⟨rfl, ⟨rfl, rfl⟩, rfl⟩
  · simp only at hk hc
    have e : strStartEntry (k, v) = (k, v) := by
      unfold strStartEntry; rw [if_neg (show ¬ (k, v).1 = "start_time" from hk)]
    rw [e]
    refine ⟨rfl, hc, ?_⟩
    unfold unstrStartEntry; rw [if_neg (show ¬ (k, v).1 = "start_time" from hk)]

theorem stringifyStart_good (kvs : Obj) (h : AllP GoodEntry kvs) :
    Clean (.obj (stringifyStart kvs)) ∧ unstringifyStart (stringifyStart kvs) = kvs := by
  constructor
  · apply clean_obj
    intro kv hkv
    rw [stringifyStart_eq] at hkv
    obtain ⟨kv0, h0, rfl⟩ := List.mem_map.mp hkv
    exact (strStartEntry_good kv0 (h kv0 h0)).2.1
  · rw [stringifyStart_eq, unstringifyStart_eq, List.map_map]
    conv => rhs; rw [← List.map_id kvs]
    apply List.map_congr_left
    intro kv hkv
    exact (strStartEntry_good kv (h kv hkv)).2.2

/-- what `_stringify_infinities` does to one element of `demes` / `migrations` -/
def strItem (x : Value) : Value := match x with | .obj kvs => .obj (stringifyStart kvs) | y => y

theorem stringifyItems_list (xs : List Value) : stringifyItems (.list xs) = .list (xs.map strItem) := rfl

theorem strItem_good (x : Value) (h : GoodDict x) :
    Clean (strItem x) ∧
    (match strItem x with
      | .obj kvs => pure (Value.obj (unstringifyStart kvs))
      | _ => (.error ⟨.other, "AttributeError: item has no attribute 'get'"⟩ : Except Err Value))
      = .ok x := by
  obtain ⟨kvs, rfl, hk⟩ := h
  obtain ⟨h1, h2⟩ := stringifyStart_good kvs hk
  refine ⟨h1, ?_⟩
  simp only [strItem, h2]
  rfl

theorem stringifyItems_good (xs : List Value) (h : ∀ x ∈ xs, GoodDict x) :
    Clean (stringifyItems (.list xs)) ∧ unstringifyItems (stringifyItems (.list xs)) = .ok (.list xs) := by
  rw [stringifyItems_list]
  constructor
  · apply clean_list
    intro y hy
    obtain ⟨x, hx, rfl⟩ := List.mem_map.mp hy
    exact (strItem_good x (h x hx)).1
  · simp only [unstringifyItems]
    rw [mapM_map_ok_self _ strItem xs (fun x hx => (strItem_good x (h x hx)).2)]
    rfl

/-- a top-level entry as the library emits it -/
def TopGood (kv : String × Value) : Prop :=
  ((kv.1 = "demes" ∨ kv.1 = "migrations") ∧ ∃ xs, kv.2 = .list xs ∧ ∀ x ∈ xs, GoodDict x) ∨
  kv.1 = "metadata" ∨
  (kv.1 ≠ "demes" ∧ kv.1 ≠ "migrations" ∧ kv.1 ≠ "defaults" ∧ kv.1 ≠ "metadata" ∧ Clean kv.2)

def strEntry (kv : String × Value) : String × Value :=
  if kv.1 = "demes" || kv.1 = "migrations" then (kv.1, stringifyItems kv.2) else kv

theorem stringifyInfinities_eq (data : Obj) : stringifyInfinities data = data.map strEntry := rfl

theorem strEntry_key (kv : String × Value) : (strEntry kv).1 = kv.1 := by
  unfold strEntry; split <;> rfl

theorem strEntry_good (kv : String × Value) (h : TopGood kv) :
    (kv.1 ≠ "metadata" → Clean (strEntry kv).2) ∧ unstrEntry (strEntry kv) = .ok kv := by
  obtain ⟨k, v⟩ := kv
  rcases h with ⟨hk, xs, hv, hx⟩ | hk | ⟨h1, h2, h3, h4, hc⟩
  · simp only at hk hv
    subst hv
    have hb : ((k, Value.list xs).1 = "demes" || (k, Value.list xs).1 = "migrations") = true := by
      simpa using hk
    obtain ⟨c, r⟩ := stringifyItems_good xs hx
    have e : strEntry (k, .list xs) = (k, stringifyItems (.list xs)) := by
      unfold strEntry; rw [if_pos hb]
    rw [e]
    refine ⟨fun _ => c, ?_⟩
    unfold unstrEntry
    rw [if_pos hb]
    simp only [r, bind, Except.bind, pure, Except.pure]
  · simp only at hk
    subst hk
    exact ⟨fun h => absurd rfl h, rfl⟩
  · simp only at h1 h2 h3 h4 hc
    have hb : ¬ (((k, v).1 = "demes" || (k, v).1 = "migrations") = true) := by simp [h1, h2]
    have e : strEntry (k, v) = (k, v) := by unfold strEntry; rw [if_neg hb]
    rw [e]
    refine ⟨fun _ => hc, ?_⟩
    unfold unstrEntry
    rw [if_neg hb, if_neg (show ¬ (k, v).1 = "defaults" from h3)]
    rfl

theorem contains_iff_ld (k : String) (d : Obj) : Obj.contains k d = true ↔ ∃ v, (k, v) ∈ d := by
  unfold Obj.contains
  induction d with
  | nil => simp [Obj.lookup]
  | cons kv rest ih =>
    obtain ⟨k', v'⟩ := kv
    unfold Obj.lookup
    by_cases hk : k' = k
    · subst hk; simp
    · simp only [hk, if_false, ih, List.mem_cons, Prod.mk.injEq]
      constructor
      · rintro ⟨v, hv⟩; exact ⟨v, Or.inr hv⟩
      · rintro ⟨v, ⟨h, _⟩ | hv⟩
        · exact absurd h.symm hk
        · exact ⟨v, hv⟩

theorem contains_stringify (k : String) (d : Obj) :
    Obj.contains k d = true → Obj.contains k (stringifyInfinities d) = true := by
  rw [contains_iff_ld, contains_iff_ld, stringifyInfinities_eq]
  rintro ⟨v, hv⟩
  refine ⟨(strEntry (k, v)).2, ?_⟩
  have := List.mem_map_of_mem (f := strEntry) hv
  have e : strEntry (k, v) = (k, (strEntry (k, v)).2) := Prod.ext (strEntry_key _) rfl
  rw [← e]; exact this

/-- everything the three consequences need, for a top-level dictionary of the emitted shape -/
theorem top_good (kvs : Obj) (h : AllP TopGood kvs) (hd : Obj.contains "demes" kvs = true) :
    hasNonFinite (.obj (Obj.erase "metadata" (stringifyInfinities kvs))) = false ∧
    noNullObj ((stringifyInfinities kvs).filter (fun kv => kv.1 ≠ "metadata")) = true ∧
    unstringifyInfinities (stringifyInfinities kvs) = .ok kvs := by
  have hclean : ∀ kv ∈ (stringifyInfinities kvs).filter (fun kv => kv.1 ≠ "metadata"), Clean kv.2 := by
    intro kv hkv
    rw [List.mem_filter, stringifyInfinities_eq] at hkv
    obtain ⟨hm, hne⟩ := hkv
    obtain ⟨kv0, h0, rfl⟩ := List.mem_map.mp hm
    rw [strEntry_key] at hne
    exact (strEntry_good kv0 (h kv0 h0)).1 (by simpa using hne)
  refine ⟨?_, ?_, ?_⟩
  · exact (clean_obj _ hclean).finite
  · have := (clean_obj _ hclean).noNull
    simpa only [noNullVal] using this
  · rw [unstringifyInfinities_eq, if_pos (contains_stringify _ _ hd), stringifyInfinities_eq]
    exact mapM_map_ok_self _ _ _ (fun kv hkv => (strEntry_good kv (h kv hkv)).2)


theorem top_other (k : String) (v : Value) (h1 : k ≠ "demes") (h2 : k ≠ "migrations")
    (h3 : k ≠ "defaults") (h4 : k ≠ "metadata") (hc : Clean v) : TopGood (k, v) :=
  Or.inr (Or.inr ⟨h1, h2, h3, h4, hc⟩)

theorem top_items {α} (k : String) (f : α → Value) (xs : List α) (hk : k = "demes" ∨ k = "migrations")
    (h : ∀ a, GoodDict (f a)) : TopGood (k, .list (xs.map f)) := by
  refine Or.inl ⟨hk, _, rfl, ?_⟩
  intro x hx
  obtain ⟨a, _, rfl⟩ := List.mem_map.mp hx
  exact h a

theorem top_metadata (v : Value) : TopGood ("metadata", v) := Or.inr (Or.inl rfl)

macro "top_entry" : tactic =>
  `(tactic| (first
      | trivial
      | exact top_metadata _
      | (refine top_other _ _ ?_ ?_ ?_ ?_ (clean_str _) <;> decide)
      | (refine top_other _ _ ?_ ?_ ?_ ?_ (clean_numV _) <;> decide)
      | (refine top_other _ _ ?_ ?_ ?_ ?_ (clean_strsV _) <;> decide)
      | (refine top_other _ _ ?_ ?_ ?_ ?_ (clean_list_map _ _ clean_pulse) <;> decide)
      | exact top_items _ _ _ (Or.inl rfl) good_deme
      | exact top_items _ _ _ (Or.inl rfl) (good_deme_simplified _)
      | exact top_items _ _ _ (Or.inr rfl) good_migration))

theorem asdict_top (g : Graph) :
    ∃ kvs, g.asdict = .obj kvs ∧ AllP TopGood kvs ∧ Obj.contains "demes" kvs = true := by
  refine ⟨_, rfl, ?_, ?_⟩
  · allp <;> intros <;> top_entry
  · rw [contains_iff_ld]; exact ⟨.list (g.demes.map Deme.asdict), by simp⟩

theorem top_migs (sym : List SMig) (asym : List AMig) :
    TopGood ("migrations", .list (sym.map SMig.asdict ++ asym.map AMig.asdict)) := by
  refine Or.inl ⟨Or.inr rfl, _, rfl, ?_⟩
  intro x hx
  rcases List.mem_append.mp hx with hx | hx
  · obtain ⟨a, _, rfl⟩ := List.mem_map.mp hx; exact good_smig a
  · obtain ⟨a, _, rfl⟩ := List.mem_map.mp hx; exact good_amig a

theorem asdictSimplified_top (g : Graph) :
    ∃ kvs, g.asdictSimplified = .obj kvs ∧ AllP TopGood kvs ∧ Obj.contains "demes" kvs = true := by
  unfold Graph.asdictSimplified
  generalize simplifyMigrations g = sm
  obtain ⟨sym, asym⟩ := sm
  refine ⟨_, rfl, ?_, ?_⟩
  · allp <;> intros <;> first
      | exact top_migs _ _
      | top_entry
  · rw [contains_iff_ld]
    exact ⟨.list (g.demes.map (Deme.simplified g)), by simp⟩


/-! ### the dictionaries `dump` hands to the serialiser -/

theorem dumpValue_obj (s : Bool) (g : Graph) :
    ∃ kvs, dumpValue .yaml s g = .obj kvs ∧ dumpValue .json s g = .obj (stringifyInfinities kvs) ∧
      (if s then g.asdictSimplified else g.asdict) = .obj kvs ∧
      AllP TopGood kvs ∧ Obj.contains "demes" kvs = true := by
  cases s
  · obtain ⟨kvs, h, h1, h2⟩ := asdict_top g
    exact ⟨kvs, by simp only [dumpValue, Bool.false_eq_true, if_false, h],
      by simp only [dumpValue, Bool.false_eq_true, if_false, h], by simpa using h, h1, h2⟩
  · obtain ⟨kvs, h, h1, h2⟩ := asdictSimplified_top g
    exact ⟨kvs, by simp only [dumpValue, if_true, h], by simp only [dumpValue, if_true, h],
      by simpa using h, h1, h2⟩

/-- **C16.1** strict JSON: outside `metadata`, the dictionary written as JSON contains no
`inf`, `-inf` or `nan` (both the full and the simplified form) -/
theorem stringify_no_inf (g : Graph) (simplified : Bool) :
    ∃ kvs, dumpValue .json simplified g = .obj kvs ∧
      hasNonFinite (.obj (Obj.erase "metadata" kvs)) = false := by
  obtain ⟨kvs, _, hj, _, h1, h2⟩ := dumpValue_obj simplified g
  exact ⟨_, hj, (top_good kvs h1 h2).1⟩

theorem goodEntry_noNull (kv : String × Value) (h : GoodEntry kv) : noNullVal kv.2 = true := by
  rcases h with ⟨_, t, ht⟩ | ⟨_, hc⟩
  · rw [ht]; rfl
  · exact hc.noNull

theorem goodDict_noNull (x : Value) (h : GoodDict x) : noNullVal x = true := by
  obtain ⟨kvs, rfl, hk⟩ := h
  rw [noNullVal_obj, List.all_eq_true]
  exact fun kv hkv => goodEntry_noNull kv (hk kv hkv)

theorem topGood_noNull (kv : String × Value) (h : TopGood kv) (hm : kv.1 ≠ "metadata") :
    noNullVal kv.2 = true := by
  rcases h with ⟨_, xs, hv, hx⟩ | hk | ⟨_, _, _, _, hc⟩
  · rw [hv, noNullVal_list, List.all_eq_true]
    exact fun x hx' => goodDict_noNull x (hx x hx')
  · exact absurd hk hm
  · exact hc.noNull

/-- `asdict` / `asdict_simplified` never emit a null outside `metadata`, before or after the
infinities are stringified -/
theorem dump_no_null (g : Graph) (simplified : Bool) (fmt : Format) :
    ∃ kvs, dumpValue fmt simplified g = .obj kvs ∧
      noNullObj (kvs.filter (fun kv => kv.1 ≠ "metadata")) = true ∧
      noNullValues kvs = .ok () ∧ hasNullOutsideMetadata kvs = false := by
  obtain ⟨kvs, hy, hj, _, h1, h2⟩ := dumpValue_obj simplified g
  have key : ∀ d : Obj, noNullObj (d.filter (fun kv => kv.1 ≠ "metadata")) = true →
      noNullObj (d.filter (fun kv => kv.1 ≠ "metadata")) = true ∧
      noNullValues d = .ok () ∧ hasNullOutsideMetadata d = false := by
    intro d hd
    have : noNullValues d = .ok () := by unfold noNullValues; rw [if_pos hd]; rfl
    exact ⟨hd, this, (nonull_iff d).mp this⟩
  cases fmt
  · refine ⟨kvs, hy, key kvs ?_⟩
    rw [noNullObj_eq, List.all_eq_true]
    intro kv hkv
    rw [List.mem_filter] at hkv
    exact topGood_noNull kv (h1 kv hkv.1) (by simpa using hkv.2)
  · exact ⟨_, hj, key _ (top_good kvs h1 h2).2.1⟩

/-- **C16.2** reading back what `_stringify_infinities` wrote restores the dictionary -/
theorem unstringify_stringify (g : Graph) (simplified : Bool) :
    ∃ kvs, (if simplified then g.asdictSimplified else g.asdict) = .obj kvs ∧
      unstringifyInfinities (stringifyInfinities kvs) = .ok kvs := by
  obtain ⟨kvs, _, _, h, h1, h2⟩ := dumpValue_obj simplified g
  exact ⟨kvs, h, (top_good kvs h1 h2).2.2⟩

/-- the loader applied to the JSON dictionary gives back the YAML dictionary (the one with
real infinities) -/
theorem load_dump_json (g : Graph) (simplified : Bool) :
    loadAsdictValue (dumpValue .json simplified g) = .ok (dumpValue .yaml simplified g) := by
  obtain ⟨kvs, hy, hj, _, h1, h2⟩ := dumpValue_obj simplified g
  obtain ⟨_, hn, hu⟩ := top_good kvs h1 h2
  have : noNullValues (stringifyInfinities kvs) = .ok () := by
    unfold noNullValues; rw [if_pos hn]; rfl
  rw [hj, hy, loadAsdictValue_obj, this, hu]

/-- every `load_asdict` entry point, JSON or YAML parser alike -/
theorem loadAsdict_dump_json {Text} (c : Codec Text) (fmt : Format) (t : Text) (g : Graph)
    (simplified : Bool) (hp : c.par fmt t = some (dumpValue .json simplified g)) :
    loadAsdict c fmt t = .ok (dumpValue .yaml simplified g) := by
  simp only [loadAsdict, hp, load_dump_json]

theorem load_dump_json_graph {Text} (c : Codec Text) (fmt : Format) (t : Text) (g : Graph)
    (simplified : Bool) (hp : c.par fmt t = some (dumpValue .json simplified g)) :
    load c fmt t = resolve (dumpValue .yaml simplified g) := by
  simp only [load, loadAsdict_dump_json c fmt t g simplified hp, bind, Except.bind]

theorem loadAll_dump_json {Text} (c : Codec Text) (t : Text) (gs : List Graph) (simplified : Bool)
    (hp : c.parAll t = some (gs.map (dumpValue .json simplified))) :
    loadAll c t = gs.mapM (fun g => resolve (dumpValue .yaml simplified g)) := by
  simp only [loadAll, hp]
  clear hp
  induction gs with
  | nil => rfl
  | cons g gs ih =>
    rw [List.map_cons, List.mapM_cons, List.mapM_cons, ih, load_dump_json]
    rfl


/-! ### when `_unstringify_infinities` succeeds -/

theorem mapM_ok_of_forall {α β} (f : α → Except Err β) : ∀ (xs : List α),
    (∀ x ∈ xs, ∃ y, f x = .ok y) → ∃ ys, xs.mapM f = .ok ys := by
  intro xs
  induction xs with
  | nil => intro _; exact ⟨[], mapM_nil_ok f⟩
  | cons x xs ih =>
    intro h
    obtain ⟨y, hy⟩ := h x (by simp)
    obtain ⟨ys, hys⟩ := ih (fun a ha => h a (by simp [ha]))
    exact ⟨y :: ys, (mapM_cons_ok f x xs _).mpr ⟨y, ys, hy, hys, rfl⟩⟩

theorem mapM_ne_error {α β} (f : α → Except Err β) (xs : List α)
    (h : ∀ x ∈ xs, ∃ y, f x = .ok y) {e : Err} (he : xs.mapM f = .error e) : False := by
  obtain ⟨ys, hys⟩ := mapM_ok_of_forall f xs h
  rw [hys] at he; cases he

theorem unstringifyItems_list_ok (xs : List Value) (h : ∀ x ∈ xs, ∃ kvs, x = .obj kvs) :
    ∃ v', unstringifyItems (.list xs) = .ok v' := by
  cases hm : unstringifyItems (.list xs) with
  | ok v => exact ⟨v, rfl⟩
  | error e =>
    exfalso
    simp only [unstringifyItems, bind, Except.bind] at hm
    split at hm
    · rename_i e' he
      refine mapM_ne_error _ xs ?_ he
      intro x hx
      obtain ⟨kvs, rfl⟩ := h x hx
      exact ⟨_, rfl⟩
    · cases hm

theorem unstringifyDefaults_obj_ok (kvs : Obj)
    (h : ∀ k w, (k, w) ∈ kvs → k = "deme" ∨ k = "migration" → ∃ inner, w = .obj inner) :
    ∃ v', unstringifyDefaults (.obj kvs) = .ok v' := by
  cases hm : unstringifyDefaults (.obj kvs) with
  | ok v => exact ⟨v, rfl⟩
  | error e =>
    exfalso
    simp only [unstringifyDefaults, bind, Except.bind] at hm
    split at hm
    · rename_i e' he
      refine mapM_ne_error _ kvs ?_ he
      rintro ⟨k', w⟩ hw
      by_cases hk' : k' = "migration" ∨ k' = "deme"
      · obtain ⟨inner, rfl⟩ := h k' w hw hk'.symm
        have hb : ((k', Value.obj inner).1 = "migration" || (k', Value.obj inner).1 = "deme") = true := by
          simpa using hk'
        rw [if_pos hb]
        exact ⟨_, rfl⟩
      · have hb : ¬ (((k', w).1 = "migration" || (k', w).1 = "deme") = true) := by simpa using hk'
        rw [if_neg hb]
        exact ⟨_, rfl⟩
    · cases hm

theorem unstringify_succeeds (data : Obj) (h : WellShaped data) :
    ∃ data', unstringifyInfinities data = .ok data' := by
  rw [unstringifyInfinities_eq, if_pos h.demes]
  apply mapM_ok_of_forall
  rintro ⟨k, v⟩ hkv
  unfold unstrEntry
  by_cases hk : k = "demes" ∨ k = "migrations"
  · have hb : ((k, v).1 = "demes" || (k, v).1 = "migrations") = true := by simpa using hk
    rw [if_pos hb]
    obtain ⟨xs, rfl, hx⟩ := h.items k v hkv hk
    obtain ⟨ys, hys⟩ := unstringifyItems_list_ok xs hx
    exact ⟨(k, ys), by simp only [hys, bind, Except.bind, pure, Except.pure]⟩
  · have hb : ¬ (((k, v).1 = "demes" || (k, v).1 = "migrations") = true) := by simpa using hk
    rw [if_neg hb]
    by_cases hd : k = "defaults"
    · rw [if_pos (show (k, v).1 = "defaults" from hd)]
      subst hd
      obtain ⟨kvs, rfl, hx⟩ := h.defaults v hkv
      obtain ⟨ys, hys⟩ := unstringifyDefaults_obj_ok kvs hx
      exact ⟨("defaults", ys), by simp only [hys, bind, Except.bind, pure, Except.pure]⟩
    · rw [if_neg (show ¬ (k, v).1 = "defaults" from hd)]
      exact ⟨_, rfl⟩

/-! ### a decidable equality test on documents (for the concrete examples) -/

mutual
def veq : Value → Value → Bool
  | .null, .null => true
  | .bool a, .bool b => a == b
  | .num a, .num b => decide (a = b)
  | .str a, .str b => decide (a = b)
  | .list xs, .list ys => veqL xs ys
  | .obj xs, .obj ys => veqO xs ys
  | _, _ => false
def veqL : List Value → List Value → Bool
  | [], [] => true
  | x :: xs, y :: ys => veq x y && veqL xs ys
  | _, _ => false
def veqO : List (String × Value) → List (String × Value) → Bool
  | [], [] => true
  | (k, x) :: xs, (k', y) :: ys => decide (k = k') && veq x y && veqO xs ys
  | _, _ => false
end

theorem veqL_sound (xs : List Value) (ih : ∀ x ∈ xs, ∀ w, veq x w = true → x = w) :
    ∀ ys, veqL xs ys = true → xs = ys := by
  induction xs with
  | nil => intro ys h; cases ys <;> simp [veqL] at h ⊢
  | cons x xs ihx =>
    intro ys h
    cases ys with
    | nil => simp [veqL] at h
    | cons y ys =>
      simp only [veqL, Bool.and_eq_true] at h
      rw [ih x (by simp) y h.1, ihx (fun a ha => ih a (by simp [ha])) ys h.2]

theorem veqO_sound (xs : List (String × Value)) (ih : ∀ kv ∈ xs, ∀ w, veq kv.2 w = true → kv.2 = w) :
    ∀ ys, veqO xs ys = true → xs = ys := by
  induction xs with
  | nil => intro ys h; cases ys <;> simp [veqO] at h ⊢
  | cons x xs ihx =>
    intro ys h
    obtain ⟨k, x⟩ := x
    cases ys with
    | nil => simp [veqO] at h
    | cons y ys =>
      obtain ⟨k', y⟩ := y
      simp only [veqO, Bool.and_eq_true, decide_eq_true_eq] at h
      have h1 := ih (k, x) (by simp) y h.1.2
      simp only at h1
      rw [h.1.1, h1, ihx (fun a ha => ih a (by simp [ha])) ys h.2]

theorem veq_sound : ∀ v w, veq v w = true → v = w := by
  apply value_induct
  · intro w h; cases w <;> simp [veq] at h ⊢
  · intro b w h; cases w <;> simp [veq] at h ⊢; exact h
  · intro n w h; cases w <;> simp [veq] at h ⊢; exact h
  · intro s w h; cases w <;> simp [veq] at h ⊢; exact h
  · intro xs ih w h
    cases w <;> simp only [veq, Bool.false_eq_true] at h
    rw [veqL_sound xs ih _ h]
  · intro kvs ih w h
    cases w <;> simp only [veq, Bool.false_eq_true] at h
    rw [veqO_sound kvs ih _ h]

/-- `r` is `.ok v` -/
def okEq (r : Except Err Value) (v : Value) : Bool :=
  match r with
  | .ok w => veq w v
  | .error _ => false

theorem okEq_sound {r : Except Err Value} {v : Value} (h : okEq r v = true) : r = .ok v := by
  cases r with
  | error e => simp [okEq] at h
  | ok w => rw [veq_sound w v h]

def isError {α} (r : Except Err α) : Bool :=
  match r with
  | .ok _ => false
  | .error _ => true

theorem isError_iff {α} (r : Except Err α) : isError r = true ↔ ∃ e, r = .error e := by
  cases r <;> simp [isError]


theorem stringify_no_inf_entries (g : Graph) (simplified : Bool) :
    ∃ kvs, dumpValue .json simplified g = .obj kvs ∧
      ∀ k v, (k, v) ∈ kvs → k ≠ "metadata" → hasNonFinite v = false := by
  obtain ⟨kvs, h, hf⟩ := stringify_no_inf g simplified
  refine ⟨kvs, h, ?_⟩
  intro k v hm hk
  rw [hasNonFinite_obj, List.any_eq_false] at hf
  have := hf (k, v) (by
    unfold Obj.erase
    rw [List.mem_filter]
    exact ⟨hm, by simpa using hk⟩)
  simpa using this

/-- a document without its top-level `metadata` entry -/
def outsideMetadata (v : Value) : Value :=
  match v with
  | .obj kvs => .obj (Obj.erase "metadata" kvs)
  | v => v

theorem noNullValues_ok_of (data : Obj)
    (h : noNullObj (data.filter (fun kv => kv.1 ≠ "metadata")) = true) : noNullValues data = .ok () := by
  unfold noNullValues; rw [if_pos h]; rfl

/-! ### concrete objects for the non-vacuity examples of C16 -/

def c16Epoch : Epoch :=
  { startTime := .inf, endTime := 0, startSize := 100, endSize := 100, sizeFunction := "constant",
    selfingRate := 0, cloningRate := 0 }

/-- two demes alive since forever, `A` with a later size change, and a migration `A → C` that
also started infinitely long ago; the description and a metadata entry are the string
"Infinity", the metadata holds a null and an infinite number -/
def c16Graph : Graph :=
  { description := "Infinity", timeUnits := "generations", generationTime := 1, doi := [],
    metadata := [("note", .str "Infinity"), ("a", .null), ("x", .num .pinf)],
    demes := [
      { name := "A", description := "", startTime := .inf, ancestors := [], proportions := [],
        epochs := [{ c16Epoch with endTime := 10 },
                   { c16Epoch with startTime := .fin 10, startSize := 50, endSize := 50 }] },
      { name := "C", description := "", startTime := .inf, ancestors := [], proportions := [],
        epochs := [c16Epoch] }],
    migrations := [{ source := "A", dest := "C", startTime := .inf, endTime := 0, rate := 1/10 }],
    pulses := [],
    index := [("A", 0), ("C", 1)] }

def c16EpochV (endT size : Q) : Value :=
  .obj [("end_time", numV endT), ("start_size", numV size), ("end_size", numV size),
        ("size_function", .str "constant"), ("selfing_rate", numV 0), ("cloning_rate", numV 0)]

/-- what `dump(..., format="json")` hands to `json.dump` for `c16Graph` (full form), with the
value `st` at the three start-time positions -/
def c16Doc (st : Value) : Value :=
  .obj [("description", .str "Infinity"), ("time_units", .str "generations"),
        ("generation_time", numV 1), ("doi", .list []),
        ("metadata", .obj [("note", .str "Infinity"), ("a", .null), ("x", .num .pinf)]),
        ("demes", .list [
          .obj [("name", .str "A"), ("description", .str ""), ("start_time", st),
                ("ancestors", .list []), ("proportions", .list []),
                ("epochs", .list [c16EpochV 10 100, c16EpochV 0 50])],
          .obj [("name", .str "C"), ("description", .str ""), ("start_time", st),
                ("ancestors", .list []), ("proportions", .list []),
                ("epochs", .list [c16EpochV 0 100])]]),
        ("migrations", .list [
          .obj [("source", .str "A"), ("dest", .str "C"), ("start_time", st),
                ("end_time", numV 0), ("rate", numV (1/10))]]),
        ("pulses", .list [])]

/-- a hand-written document with "Infinity" in many places, start times and others -/
def c16Input (st : Value) : Obj :=
  [("description", .str "Infinity"), ("time_units", .str "Infinity"),
   ("doi", .list [.str "Infinity"]),
   ("metadata", .obj [("start_time", .str "Infinity"),
                      ("demes", .list [.obj [("start_time", .str "Infinity")]])]),
   ("defaults", .obj [("epoch", .obj [("start_time", .str "Infinity"), ("start_size", .str "Infinity")]),
                      ("deme", .obj [("start_time", st), ("description", .str "Infinity")]),
                      ("migration", .obj [("start_time", st), ("rate", .str "Infinity")]),
                      ("pulse", .obj [("time", .str "Infinity")])]),
   ("demes", .list [
      .obj [("name", .str "Infinity"), ("description", .str "Infinity"), ("start_time", st),
            ("epochs", .list [.obj [("start_time", .str "Infinity"), ("start_size", .str "Infinity"),
                                    ("end_time", .str "Infinity")]]),
            ("defaults", .obj [("epoch", .obj [("start_time", .str "Infinity")])])],
      .obj [("name", .str "B"), ("start_time", .num (.fin 5)), ("ancestors", .list [.str "Infinity"])]]),
   ("migrations", .list [
      .obj [("source", .str "Infinity"), ("dest", .str "B"), ("start_time", st),
            ("end_time", .str "Infinity"), ("rate", .str "Infinity")]]),
   ("pulses", .list [.obj [("sources", .list [.str "Infinity"]), ("dest", .str "B"),
                           ("time", .str "Infinity"), ("start_time", .str "Infinity")]])]

/-- `doi: [[null]]`: a null two lists deep -/
def c16NullDoc : Obj :=
  [("time_units", .str "generations"), ("doi", .list [.list [.null]]),
   ("demes", .list [.obj [("name", .str "A"), ("epochs", .list [.obj [("start_size", numV 1)]])]])]

/-- `metadata: {a: null, b: [null, {c: null}]}`: nulls only inside metadata -/
def c16MetaDoc : Obj :=
  [("time_units", .str "generations"),
   ("metadata", .obj [("a", .null), ("b", .list [.null, .obj [("c", .null)]])]),
   ("demes", .list [.obj [("name", .str "A"), ("epochs", .list [.obj [("start_size", numV 1)]])]])]

/-- `c16Graph` with its name index emptied (not a valid graph): the simplified form cannot infer
the migration's start time from the demes and keeps it -/
def c16Loose : Graph := { c16Graph with index := [] }

end Demes.Proofs
