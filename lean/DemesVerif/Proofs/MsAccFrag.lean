/-
  C09, first sentence — acceptance of the `to_ms` output by `from_ms`: every time group of the command
  `to_ms` prints for a valid ms-expressible graph of constant sizes with tame pulses satisfies `groupFrag`
  (`groupsFrag_finalEvs`, `groupsFrag_toMs`):

  * every option is in the fragment `fragCmd` (positive sizes, non-negative migration entries, a split
    fraction strictly between 0 and 1, `-es` / `-ej` at positive times, indices `≥ 1`);
  * no time group changes the size of a population it joins (`noSizeAtJoinG`): the size options of
    population `k+1` are at end times of epochs of deme `k`, which lie strictly before the deme's start time,
    the time of its `-ej`;
  * no lineage movement of a group goes from a population to itself: a deme is not its own ancestor, the
    source of a pulse is not its destination.

  Same skeleton as `MsRT.goodGroup_group` → `goodGroups_groups` → `tame_finalEvs` → `tame_toMs`.
-/
import DemesVerif.Proofs.MsAccDefs
import DemesVerif.Proofs.MsRTTame2
import DemesVerif.Proofs.MsRT3Tame
set_option linter.unusedSimpArgs false
set_option linter.unusedVariables false
namespace Demes.Proofs.MsAcc
open Demes Demes.Ms Demes.Spec Demes.Spec.C07 Demes.Spec.C09
open Demes.Spec.MsSem (Cmd Parsed isMove)
open Demes.Spec.C08 (groupOps groupOpsAux flushOp isSplitC cmdGroups)
open Demes.Proofs.ToMs Demes.Proofs.MsRT

/-! ### the signs `EvRT` does not record -/

/-- a size is positive; a split keeps a fraction strictly between 0 and 1 -/
def FragEv : Event Growth → Prop
  | .popSizeChange _ _ _ (.fin y) => 0 < y
  | .split _ _ _ (.fin y) => 0 < y ∧ y < 1
  | _ => True

theorem fragEv_scale (N0 : Q) {e : Event Growth} (h : FragEv e) : FragEv (scaleEv N0 e) := by
  cases e with
  | popSizeChange o t i x => cases x <;> exact h
  | split o t i p => cases p <;> exact h
  | _ => trivial

/-- an option record of the fragment `EvRT` with the signs of `FragEv` is a `fragCmd` -/
theorem fragCmd_of {e : Event Growth} (h : EvRT e) (hs : FragEv e) : fragCmd (cmdOfG e) = true := by
  cases e with
  | popSizeChange o t i x =>
    obtain ⟨_, hi, q, y, rfl, hq, rfl, _⟩ := h
    have hy : 0 < y := hs
    have hi' : 1 ≤ i.toNat := by omega
    simp only [cmdOfG, fragCmd, Bool.and_eq_true, decide_eq_true_eq]
    exact ⟨⟨hq, hi'⟩, hy⟩
  | migEntryChange o t i j x =>
    obtain ⟨_, hi, hj, q, y, rfl, hq, rfl, hy⟩ := h
    have hi' : 1 ≤ i.toNat := by omega
    have hj' : 1 ≤ j.toNat := by omega
    simp only [cmdOfG, fragCmd, Bool.and_eq_true, decide_eq_true_eq]
    exact ⟨⟨⟨hq, hi'⟩, hj'⟩, hy⟩
  | split o t i p =>
    obtain ⟨_, hi, q, y, rfl, hq, rfl, _, _⟩ := h
    have hy : 0 < y ∧ y < 1 := hs
    have hi' : 1 ≤ i.toNat := by omega
    simp only [cmdOfG, fragCmd, Bool.and_eq_true, decide_eq_true_eq]
    exact ⟨⟨⟨hq, hi'⟩, hy.1⟩, hy.2⟩
  | join o t i j =>
    obtain ⟨_, hi, hj, q, rfl, hq⟩ := h
    have hi' : 1 ≤ i.toNat := by omega
    have hj' : 1 ≤ j.toNat := by omega
    simp only [cmdOfG, fragCmd, Bool.and_eq_true, decide_eq_true_eq]
    exact ⟨⟨hq, hi'⟩, hj'⟩
  | growthRateChange => exact h.elim
  | popGrowthRateChange => exact h.elim
  | sizeChange => exact h.elim
  | migRateChange => exact h.elim
  | migMatrixChange => exact h.elim

theorem tailProp_pos {d : Deme} (hpos : ∀ p ∈ d.proportions, 0 < p) {k : Nat} (hk : k < d.proportions.length) :
    0 < tailProp d k := by
  have hpk : d.proportions[k]? = some d.proportions[k] := List.getElem?_eq_getElem hk
  have hp : 0 < d.proportions[k] := hpos _ (List.getElem_mem _)
  have hge := sumFrom_ge hpos hpk
  have hden : 0 < sumFrom d.proportions k := by grind
  have hg : d.proportions.getD k 0 = d.proportions[k] := by simp [List.getD, hpk]
  unfold tailProp
  rw [hg]
  exact (InGen.div_pos hden).2 hp

/-- only the first clause of `PulsesTame` (every pulse proportion below one) is used -/
theorem fragEv_rawEvs3 {g : Graph} (c : Clauses g) (hx : MsExpressible g = true) (hpb : PulsesBelowOne g = true)
    {N0 : Q} (hN : 0 < N0) {ev : Event Growth} (h : ev ∈ rawEvs g N0) : FragEv ev := by
  cases ev with
  | popSizeChange o t i x =>
    cases x with
    | fin y =>
      show 0 < y
      rcases mem_rawEvs h with h | h | h
      · obtain ⟨dj, hdj, e, he, h'⟩ := mem_sizeEvsAll h
        have hm : dj.1 ∈ g.demes := mem_zipIdx_fst hdj
        have hok := epochOk_of_valid c hx hm he
        rcases h' with h' | h'
        · cases h'
          exact (InGen.div_pos hN).2 hok.endSize
        · cases h'
      · have := splitJoin_ancEvs h; cases this
      · have := migKind_migEvs h; cases this
    | _ => trivial
  | split o t i p =>
    cases p with
    | fin y =>
      have h0 : 0 < y := splitPos_rawEvs3 c hx hpb h
      refine ⟨h0, ?_⟩
      rcases mem_rawEvs h with h | h | h
      · obtain ⟨_, _, _, _, h'⟩ := mem_sizeEvsAll h
        rcases h' with h' | h' <;> cases h'
      · rcases mem_ancEvs _ _ h with ⟨d, n', hd, h'⟩ | ⟨p, n', hp, h'⟩
        · have hdo := demeAncOk_of_valid c (mem_dps_deme hd)
          obtain ⟨ak, hak, hne, hp⟩ := split_mem_ancDemeEvs _ _ h'
          have hlt := (mem_zipIdx_anc hak).2
          cases hp
          have := tailProp_pos hdo.pos (k := ak.2) (by rw [hdo.len]; exact hlt)
          grind
        · have hpm := mem_dps_pulse hp
          obtain ⟨p0, hp0, hpos, _⟩ := (pulseOk_of_valid c hx hpm).prop
          have hhd : p.proportions.headD 0 = p0 := by
            cases hpp : p.proportions with
            | nil => simp [hpp] at hp0
            | cons x xs => simp [hpp] at hp0 ⊢; exact hp0
          simp only [pulseEvs, List.mem_cons, List.not_mem_nil, or_false] at h'
          rcases h' with h' | h'
          · cases h'
            rw [hhd]; grind
          · cases h'
      · have := migKind_migEvs h; cases this
    | _ => trivial
  | _ => trivial

theorem fragEv_rawEvs {g : Graph} (c : Clauses g) (hx : MsExpressible g = true) (hpt : PulsesTame g = true)
    {N0 : Q} (hN : 0 < N0) {ev : Event Growth} (h : ev ∈ rawEvs g N0) : FragEv ev :=
  fragEv_rawEvs3 c hx (pulsesBelowOne_of_tame hpt) hN h

/-! ### a size option and the `-ej` of its population are at different times -/

theorem cmdOfG_join_inv {a : Event Growth} {t : Q} {i j : Nat} (h : cmdOfG a = .join t i j) :
    ∃ o ta ia ja, a = .join o ta ia ja ∧ i = ia.toNat := by
  cases a with
  | popSizeChange o t i x => cases x <;> cases h
  | migEntryChange o t i j x => cases x <;> cases h
  | split o t i p => cases p <;> cases h
  | join o ta ia ja => cases h; exact ⟨o, ta, ia, ja, rfl, rfl⟩
  | _ => cases h

theorem cmdOfG_setSize_inv {b : Event Growth} {t : Q} {i : Nat} {x : Q} {r : Bool} (h : cmdOfG b = .setSize t i x r) :
    ∃ o tb ib, b = .popSizeChange o tb ib (.fin x) ∧ i = ib.toNat := by
  cases b with
  | popSizeChange o t i x =>
    cases x with
    | fin y => cases h; exact ⟨o, t, i, rfl, rfl⟩
    | _ => cases h
  | migEntryChange o t i j x => cases x <;> cases h
  | split o t i p => cases p <;> cases h
  | _ => cases h

theorem scale_join_inv {N0 : Q} {y : Event Growth} {o : String} {t : Num} {i j : Int}
    (h : scaleEv N0 y = .join o t i j) : ∃ t', y = .join o t' i j := by
  cases y <;> simp [scaleEv, Event.setT] at h
  obtain ⟨rfl, _, rfl, rfl⟩ := h
  exact ⟨_, rfl⟩

theorem scale_size_inv {N0 : Q} {y : Event Growth} {o : String} {t : Num} {i : Int} {x : Num}
    (h : scaleEv N0 y = .popSizeChange o t i x) : ∃ t', y = .popSizeChange o t' i x := by
  cases y <;> simp [scaleEv, Event.setT] at h
  obtain ⟨rfl, _, rfl, rfl⟩ := h
  exact ⟨_, rfl⟩

section
variable {g : Graph} (c : Clauses g) (hx : MsExpressible g = true) {N0 : Q} (hN : 0 < N0)
include c hx hN

/-- the `-ej` of population `i` and a size option of population `i` of the command are at different times -/
theorem size_join_time {a b : Event Growth} (ha : a ∈ finalEvs g N0) (hb : b ∈ finalEvs g N0)
    {t t' : Q} {i j i' : Nat} {x : Q} {r : Bool} (hja : cmdOfG a = .join t i j) (hsb : cmdOfG b = .setSize t' i' x r)
    (hii : i' = i) : evT a ≠ evT b := by
  have h4 : (0 : Q) < 4 * N0 := by grind
  obtain ⟨o, ta, ia, ja, rfl, rfl⟩ := cmdOfG_join_inv hja
  obtain ⟨o', tb, ib, rfl, rfl⟩ := cmdOfG_setSize_inv hsb
  have hia := join_pos_finalEvs c hx ha o ta ia ja rfl
  obtain ⟨ya, hya, hsa⟩ := finalEvs_mem c hx ha
  obtain ⟨yb, hyb, hsb'⟩ := finalEvs_mem c hx hb
  obtain ⟨ta', rfl⟩ := scale_join_inv hsa.symm
  obtain ⟨tb', rfl⟩ := scale_size_inv hsb'.symm
  obtain ⟨hib1, hib2, d, q, hd, hq, hlt⟩ := targetTime c hx hyb rfl (i := ib) (by simp [targets])
  have hiab : ia = ib := by omega
  subst hiab
  obtain ⟨d', q', hd', hst, hta⟩ := joinTime c hx hya hib1 hib2
  rw [hd] at hd'
  cases hd'
  rw [hst] at hlt
  have hqq : q < q' := hlt
  simp only [Event.t] at hq
  subst hq hta
  have e1 : evT (Event.join o ta ia ja) = q' / (4 * N0) := by
    rw [hsa]; exact evT_of_good (t_scale rfl)
  have e2 : evT (Event.popSizeChange o' tb ia (Num.fin x)) = q / (4 * N0) := by
    rw [hsb']; exact evT_of_good (t_scale rfl)
  rw [e1, e2]
  intro heq
  have := (InGen.div_eq_div h4).1 heq
  grind

end

theorem noSizeAtJoinG_of {grp : List (Event Growth)}
    (h : ∀ a ∈ grp, ∀ b ∈ grp, ∀ (t t' : Q) (i j i' : Nat) (x : Q) (r : Bool),
      cmdOfG a = .join t i j → cmdOfG b = .setSize t' i' x r → i' ≠ i) :
    noSizeAtJoinG (grp.map cmdOfG) = true := by
  unfold noSizeAtJoinG
  rw [List.all_eq_true]
  intro cm hcm
  obtain ⟨a, ha, rfl⟩ := List.mem_map.1 hcm
  split
  · rename_i t i j heq
    rw [List.all_eq_true]
    intro dm hdm
    obtain ⟨b, hb, rfl⟩ := List.mem_map.1 hdm
    split
    · rename_i t' i' x r heq'
      simp only [bne_iff_ne, ne_eq]
      exact h a ha b hb t t' i j i' x r heq heq'
    · rfl
  · rfl

/-! ### no lineage movement from a population to itself -/

section
variable {g : Graph} (c : Clauses g) (hx : MsExpressible g = true)
include c hx

theorem dpMoves_irrefl : ∀ (xs : List DemeOrPulse), (∀ x ∈ xs, InGraph g x) →
    ∀ o ∈ dpMoves g xs, o.1 ≠ o.2.1
  | [], _, o, ho => by simp [dpMoves] at ho
  | .deme d :: r, hm, o, ho => by
    simp only [dpMoves, List.mem_append] at ho
    rcases ho with ho | ho
    · have hd : d ∈ g.demes := hm _ List.mem_cons_self
      obtain ⟨h1, ak, hak, h2⟩ := mem_demeMoves _ ho
      obtain ⟨anc, hanc, hlt, _⟩ := ancestor_facts c hd (mem_zipIdx_anc hak).1
      rw [h1, h2]
      intro heq
      have : d.name = ak.1 := toNat_idOf_inj (demeId_isSome_of_mem c hd) (demeId_isSome_of_findDeme c hanc) heq
      rw [← this, findDeme_of_mem c hd] at hanc
      cases hanc
      exact et_lt_irrefl' hlt (et_le_refl _)
    · exact dpMoves_irrefl r (fun x hx' => hm x (List.mem_cons_of_mem _ hx')) o ho
  | .pulse p :: r, hm, o, ho => by
    simp only [dpMoves, List.mem_cons] at ho
    rcases ho with rfl | ho
    · have hp : p ∈ g.pulses := hm _ List.mem_cons_self
      obtain ⟨s, hs, hsid⟩ := (pulseOk_of_valid c hx hp).src
      have hdest := (pulseOk_of_valid c hx hp).dest
      obtain ⟨_, _, _, _, hnc, _⟩ := pulse_facts c hp
      simp only [pulseMove, hs, List.headD_cons]
      intro heq
      have : p.dest = s := toNat_idOf_inj hdest hsid heq
      rw [hs, this] at hnc
      simp at hnc
    · exact dpMoves_irrefl r (fun x hx' => hm x (List.mem_cons_of_mem _ hx')) o ho

end

/-! ### every time group is in the fragment -/

section
variable {g : Graph} (c : Clauses g) (hx : MsExpressible g = true) (hcs : ConstSizes g = true)
  (hpb : PulsesBelowOne g = true) {N0 : Q} (hN : 0 < N0)
include c hx hcs hpb hN

/-- every option of the command is a `fragCmd` -/
theorem fragCmd_finalEvs3 {e : Event Growth} (he : e ∈ finalEvs g N0) : fragCmd (cmdOfG e) = true := by
  refine fragCmd_of (evRT_finalEvs c hx hcs hN e he) ?_
  obtain ⟨e', he', rfl⟩ := List.mem_map.1 he
  exact fragEv_scale N0 (fragEv_rawEvs3 c hx hpb hN ((mem_sortBy _).1 he'))

/-- one time group of the command, read after the options `pre` -/
theorem groupFrag_group3 {pre grp post : List (Event Growth)} (hF : finalEvs g N0 = pre ++ grp ++ post)
    (hne : grp ≠ []) (hsame : ∀ a ∈ grp, ∀ b ∈ grp, evT a = evT b)
    (hpre : ∀ a ∈ pre, ∀ b ∈ grp, evT a < evT b) (hpost : ∀ a ∈ grp, ∀ b ∈ post, evT a < evT b) :
    groupFrag (g.demes.length + ((pre.map cmdOfG).filter isSplitC).length) (grp.map cmdOfG) = true := by
  obtain ⟨h0, tl, rfl⟩ : ∃ h0 tl, grp = h0 :: tl := by
    cases grp with
    | nil => exact absurd rfl hne
    | cons h0 tl => exact ⟨h0, tl, rfl⟩
  have hT : timeOf N0 (h0 :: tl) / (4 * N0) = evT h0 := by
    simp only [ToMs.timeOf, List.head?_cons, Option.map_some, Option.getD_some]
    exact mul_div_cancel_left4 hN _
  have b1 : ∀ a ∈ pre, evT a < timeOf N0 (h0 :: tl) / (4 * N0) := fun a ha => by
    rw [hT]; exact hpre a ha h0 List.mem_cons_self
  have b2 : ∀ a ∈ h0 :: tl, evT a = timeOf N0 (h0 :: tl) / (4 * N0) := fun a ha => by
    rw [hT]; exact hsame a ha h0 List.mem_cons_self
  have b3 : ∀ b ∈ post, timeOf N0 (h0 :: tl) / (4 * N0) < evT b := fun b hb => by
    rw [hT]; exact hpost h0 List.mem_cons_self b hb
  obtain ⟨_, hgrp⟩ := group_parts c hx hN (T := timeOf N0 (h0 :: tl)) hF b1 b2 b3
  have hcount : g.demes.length + ((pre.map cmdOfG).filter isSplitC).length
      = ancCount g.demes.length (dpsLt g (timeOf N0 (h0 :: tl))) := by
    have := count_pre c hx hN (T := timeOf N0 (h0 :: tl)) hF b1 b2 b3
    rw [runP_len] at this
    have hlen : (s0Of N0 g.demes.length).pops.length = g.demes.length := by simp [s0Of]
    rw [hlen] at this
    rw [count_splitC, this]
  have hmem : ∀ e ∈ h0 :: tl, e ∈ finalEvs g N0 := fun e he => by
    rw [hF]; exact List.mem_append_left _ (List.mem_append_right _ he)
  unfold groupFrag
  simp only [Bool.and_eq_true]
  refine ⟨⟨?_, ?_⟩, ?_⟩
  · rw [List.all_eq_true]
    intro cm hcm
    obtain ⟨e, he, rfl⟩ := List.mem_map.1 hcm
    exact fragCmd_finalEvs3 c hx hcs hpb hN (hmem e he)
  · apply noSizeAtJoinG_of
    intro a ha b hb t t' i j i' x r hja hsb hii
    exact size_join_time c hx hN (hmem a ha) (hmem b hb) hja hsb hii (hsame a ha b hb)
  · rw [hcount]
    unfold groupOps
    rw [groupOpsAux_filter, hgrp, groupOps_ancEvs, List.all_eq_true]
    intro o ho
    simp only [bne_iff_ne, ne_eq]
    refine dpMoves_irrefl c hx _ ?_ o ho
    intro x hx'
    exact (goodXs_dps c).mem x (List.mem_filter.1 hx').1

/-- the time groups `G`, read after the options `pre` -/
theorem groupsFrag_groups3 : ∀ (G : List (List (Event Growth))) (pre : List (Event Growth)),
    finalEvs g N0 = pre ++ G.flatten → GroupsOK G →
    (∀ a ∈ pre, ∀ grp ∈ G, ∀ b ∈ grp, evT a < evT b) →
    groupsFrag (g.demes.length + ((pre.map cmdOfG).filter isSplitC).length) (G.map (List.map cmdOfG)) = true
  | [], _, _, _, _ => rfl
  | grp :: rest, pre, hF, hok, hsep => by
    have hinc := List.pairwise_cons.1 hok.inc
    obtain ⟨hne, hsame⟩ := hok.same grp List.mem_cons_self
    have hF' : finalEvs g N0 = pre ++ grp ++ rest.flatten := by rw [hF]; simp
    have hpost : ∀ a ∈ grp, ∀ b ∈ rest.flatten, evT a < evT b := by
      intro a ha b hb
      obtain ⟨g2, hg2, hb2⟩ := List.mem_flatten.1 hb
      exact hinc.1 g2 hg2 a ha b hb2
    have h1 := groupFrag_group3 c hx hcs hpb hN hF' hne hsame
      (fun a ha b hb => hsep a ha grp List.mem_cons_self b hb) hpost
    have h2 := groupsFrag_groups3 rest (pre ++ grp) (by rw [hF'])
      ⟨hinc.2, fun g2 hg2 => hok.same g2 (List.mem_cons_of_mem _ hg2)⟩ (by
        intro a ha g2 hg2 b hb
        rcases List.mem_append.1 ha with ha | ha
        · exact hsep a ha g2 (List.mem_cons_of_mem _ hg2) b hb
        · exact hinc.1 g2 hg2 a ha b hb)
    simp only [List.map_append, List.filter_append, List.length_append, ← Nat.add_assoc] at h2
    simp only [List.map_cons, groupsFrag, Bool.and_eq_true]
    exact ⟨h1, h2⟩

end

/-! the same from `PulsesTame` -/
section
variable {g : Graph} (c : Clauses g) (hx : MsExpressible g = true) (hcs : ConstSizes g = true)
  (hpt : PulsesTame g = true) {N0 : Q} (hN : 0 < N0)
include c hx hcs hpt hN

/-- every option of the command is a `fragCmd` -/
theorem fragCmd_finalEvs {e : Event Growth} (he : e ∈ finalEvs g N0) : fragCmd (cmdOfG e) = true :=
  fragCmd_finalEvs3 c hx hcs (pulsesBelowOne_of_tame hpt) hN he

/-- one time group of the command, read after the options `pre` -/
theorem groupFrag_group {pre grp post : List (Event Growth)} (hF : finalEvs g N0 = pre ++ grp ++ post)
    (hne : grp ≠ []) (hsame : ∀ a ∈ grp, ∀ b ∈ grp, evT a = evT b)
    (hpre : ∀ a ∈ pre, ∀ b ∈ grp, evT a < evT b) (hpost : ∀ a ∈ grp, ∀ b ∈ post, evT a < evT b) :
    groupFrag (g.demes.length + ((pre.map cmdOfG).filter isSplitC).length) (grp.map cmdOfG) = true :=
  groupFrag_group3 c hx hcs (pulsesBelowOne_of_tame hpt) hN hF hne hsame hpre hpost

/-- the time groups `G`, read after the options `pre` -/
theorem groupsFrag_groups : ∀ (G : List (List (Event Growth))) (pre : List (Event Growth)),
    finalEvs g N0 = pre ++ G.flatten → GroupsOK G →
    (∀ a ∈ pre, ∀ grp ∈ G, ∀ b ∈ grp, evT a < evT b) →
    groupsFrag (g.demes.length + ((pre.map cmdOfG).filter isSplitC).length) (G.map (List.map cmdOfG)) = true :=
  groupsFrag_groups3 c hx hcs (pulsesBelowOne_of_tame hpt) hN

end

/-- every time group of the command `to_ms` prints for a valid ms-expressible constant-size graph whose pulse
proportions are below one satisfies `groupFrag` -/
theorem groupsFrag_finalEvs3 {g : Graph} (c : ToMs.Clauses g) (hx : MsExpressible g = true) (hcs : ConstSizes g = true)
    (hpb : PulsesBelowOne g = true) {N0 : Q} (hN : 0 < N0) (samples : Option (List Int)) :
    groupsFrag (prOf (ToMs.headerOf g samples) (ToMs.finalEvs g N0)).npop
      (Demes.Spec.C08.cmdGroups (prOf (ToMs.headerOf g samples) (ToMs.finalEvs g N0))) = true := by
  have hn : (prOf (headerOf g samples) (finalEvs g N0)).npop = g.demes.length := by
    show ((headerOf g samples).map (·.1)).getD 1 = g.demes.length
    unfold headerOf
    have := demes_pos c
    by_cases h1 : g.demes.length > 1
    · simp [h1]
    · simp [h1]; omega
  rw [hn, cmdGroups_prOf _ _ (evRT_finalEvs c hx hcs hN) (sorted_finalEvs c hx hN)]
  have := groupsFrag_groups3 c hx hcs hpb hN (groupsByTime (finalEvs g N0)) []
    (by rw [flatten_groupsByTime]; rfl) (groupsOK_groupsByTime _ (sorted_byQ_finalEvs c hx hN))
    (fun a ha => by cases ha)
  simpa using this

/-- every time group of the command `to_ms` prints for a valid ms-expressible constant-size graph with tame
pulses satisfies `groupFrag` -/
theorem groupsFrag_finalEvs {g : Graph} (c : ToMs.Clauses g) (hx : MsExpressible g = true) (hcs : ConstSizes g = true)
    (hpt : PulsesTame g = true) {N0 : Q} (hN : 0 < N0) (samples : Option (List Int)) :
    groupsFrag (prOf (ToMs.headerOf g samples) (ToMs.finalEvs g N0)).npop
      (Demes.Spec.C08.cmdGroups (prOf (ToMs.headerOf g samples) (ToMs.finalEvs g N0))) = true :=
  groupsFrag_finalEvs3 c hx hcs (pulsesBelowOne_of_tame hpt) hN samples

/-- `groupsFrag_finalEvs3` for the command of `to_ms graph`: hypotheses on the graph itself, `PulsesBelowOne`
instead of `PulsesTame` -/
theorem groupsFrag_toMs3 {graph : Graph} (hv : validGraph graph = true) (hx : MsExpressible graph = true)
    (hcs : ConstSizes graph = true) (hpb : PulsesBelowOne graph = true) {N0 : Q} (hN : 0 < N0)
    (samples : Option (List Int)) :
    groupsFrag (prOf (ToMs.headerOf (inGenerations graph) samples) (ToMs.finalEvs (inGenerations graph) N0)).npop
      (Demes.Spec.C08.cmdGroups (prOf (ToMs.headerOf (inGenerations graph) samples) (ToMs.finalEvs (inGenerations graph) N0)))
        = true :=
  groupsFrag_finalEvs3 (clauses_of_valid (InGen.inGenerations_valid graph hv)) (by rw [expr_inGen]; exact hx)
    (by rw [constSizes_inGen]; exact hcs) (by rw [pulsesBelowOne_inGen_of_valid hv]; exact hpb) hN samples

/-- `groupsFrag_finalEvs` for the command of `to_ms graph`: hypotheses on the graph itself -/
theorem groupsFrag_toMs {graph : Graph} (hv : validGraph graph = true) (hx : MsExpressible graph = true)
    (hcs : ConstSizes graph = true) (hpt : PulsesTame graph = true) {N0 : Q} (hN : 0 < N0) (samples : Option (List Int)) :
    groupsFrag (prOf (ToMs.headerOf (inGenerations graph) samples) (ToMs.finalEvs (inGenerations graph) N0)).npop
      (Demes.Spec.C08.cmdGroups (prOf (ToMs.headerOf (inGenerations graph) samples) (ToMs.finalEvs (inGenerations graph) N0)))
        = true :=
  groupsFrag_toMs3 hv hx hcs (pulsesBelowOne_of_tame hpt) hN samples

/-! ### `groupsFrag` is not vacuous: it fails on hand-written groups -/

/-- a size change of a population joined in the same group -/
example : groupsFrag 2 [[.setSize 1 2 1 true, .join 1 2 1]] = false := by decide +kernel
/-- … and the same options in different groups pass -/
example : groupsFrag 2 [[.setSize 1 1 1 true, .join 1 2 1]] = true := by decide +kernel
/-- a lineage movement from population 2 to itself (`-es 1 1 1` is not in the fragment either) -/
example : groupsFrag 2 [[.split 1 1 1, .join 1 2 2]] = false := by decide +kernel
example : groupsFrag 2 [[.split 1 1 (1/2), .join 1 2 2]] = false := by decide +kernel
example : groupsFrag 2 [[.split 1 1 (1/2), .join 1 3 2]] = true := by decide +kernel
/-- a size that is not positive; a negative migration entry; a split fraction of 1 -/
example : groupsFrag 2 [[.setSize 0 1 0 false]] = false := by decide +kernel
example : groupsFrag 2 [[.setMigEntry 0 1 2 (-1)]] = false := by decide +kernel
example : groupsFrag 2 [[.split 1 1 1, .join 1 3 2]] = false := by decide +kernel

#print axioms fragCmd_finalEvs
#print axioms groupFrag_group
#print axioms groupsFrag_finalEvs
#print axioms groupsFrag_toMs
#print axioms groupsFrag_toMs3

end Demes.Proofs.MsAcc
