/-
  C09 (acceptance), after the event loop — the migration clauses V8, V9, V10 of the explicit graph
  `docGraph tab doc` of a well-formed document (`DocWF doc`).
-/
import DemesVerif.Proofs.MsAccFinishDefs
namespace Demes.Proofs.MsAcc
open Demes Demes.Ms Demes.Spec Demes.Spec.C08 Demes.Proofs.FromMs

/-! ## small order facts -/

theorem qmax_le_of_le {a b x : Q} (ha : a ≤ x) (hb : b ≤ x) : qmax a b ≤ x := by
  unfold qmax; split <;> assumption

theorem le_etime_min {x a b : ETime} (ha : x ≤ a) (hb : x ≤ b) : x ≤ ETime.min a b := by
  unfold ETime.min; split <;> assumption

/-! ## V8 -/

/-- the body of V8 for one migration whose endpoints resolve -/
theorem v8_body {s d : Deme} {m : Migration}
    (hlt : ETime.fin m.endTime < m.startTime)
    (hs : s.endTime ≤ m.endTime) (hd : d.endTime ≤ m.endTime)
    (hss : m.startTime ≤ s.startTime) (hds : m.startTime ≤ d.startTime)
    (h0 : 0 ≤ m.rate) (h1 : m.rate ≤ 1) :
    (match coexist s d with
      | (lo, hi) => decide (ETime.fin m.endTime < m.startTime) && decide (lo ≤ m.endTime)
        && decide (m.startTime ≤ hi) && decide (0 ≤ m.rate) && decide (m.rate ≤ 1)) = true := by
  unfold coexist
  simp only [Bool.and_eq_true, decide_eq_true_eq]
  exact ⟨⟨⟨⟨hlt, qmax_le_of_le hs hd⟩, le_etime_min hss hds⟩, h0⟩, h1⟩

theorem docwf_v8 {doc : MsDoc} (h : DocWF doc) (tab : List (Sz × Q)) : v8 (docGraph tab doc) = true := by
  unfold v8
  rw [List.all_eq_true]
  intro m' hm'
  obtain ⟨m, hm, rfl⟩ := List.mem_map.1 (show m' ∈ doc.migrations.map docMig from hm')
  obtain ⟨q, dj, hdj, dk, hdk, hsrc, hdst, hne, hq, hq0, hq1, hlt, hje, hke, hjs, hks⟩ :=
    h.migs.shape m hm
  have hfs : findDeme (docGraph tab doc) (docMig m).source = some (docDeme tab dk) := by
    show findDeme _ m.source = _
    rw [hsrc]; exact findDeme_doc tab h.nodup hdk
  have hfd : findDeme (docGraph tab doc) (docMig m).dest = some (docDeme tab dj) := by
    show findDeme _ m.dest = _
    rw [hdst]; exact findDeme_doc tab h.nodup hdj
  have hne' : ((docMig m).source != (docMig m).dest) = true := by
    show (m.source != m.dest) = true
    rw [hsrc, hdst, bne_iff_ne]
    exact fun e => hne e.symm
  have hrate : (docMig m).rate = q := by
    show rateQ m.rate = q
    rw [hq]; rfl
  rw [hne', hfs, hfd, Bool.true_and]
  refine v8_body (s := docDeme tab dk) (d := docDeme tab dj) (m := docMig m) hlt ?_ ?_ hks hjs ?_ ?_
  · rw [docDeme_endTime]; exact hke
  · rw [docDeme_endTime]; exact hje
  · rw [hrate]; exact hq0
  · rw [hrate]; exact hq1

/-! ## V9 -/

theorem pairwiseB_map {α β} (r : β → β → Bool) (f : α → β) :
    ∀ {l : List α}, l.Pairwise (fun a b => r (f a) (f b) = true) → pairwiseB r (l.map f) = true := by
  intro l
  induction l with
  | nil => intro _; rfl
  | cons x xs ih =>
    intro hp
    rw [List.pairwise_cons] at hp
    rw [List.map_cons]
    unfold pairwiseB
    rw [Bool.and_eq_true, List.all_eq_true]
    refine ⟨?_, ih hp.2⟩
    intro b hb
    obtain ⟨a, ha, rfl⟩ := List.mem_map.1 hb
    exact hp.1 a ha

theorem v9_rel {a b : BMigration}
    (h : a.source = b.source → a.dest = b.dest →
      ¬ (ETime.fin b.endTime < a.startTime ∧ ETime.fin a.endTime < b.startTime)) :
    (!((docMig a).source == (docMig b).source && (docMig a).dest == (docMig b).dest)
      || disjoint (docMig a) (docMig b)) = true := by
  show (!(a.source == b.source && a.dest == b.dest)
      || !(decide (ETime.fin b.endTime < a.startTime) && decide (ETime.fin a.endTime < b.startTime))) = true
  by_cases hs : a.source = b.source
  · by_cases hd : a.dest = b.dest
    · have := h hs hd
      simp only [Bool.or_eq_true, Bool.not_eq_true', Bool.and_eq_false_iff, decide_eq_false_iff_not]
      right
      by_cases h1 : ETime.fin b.endTime < a.startTime
      · exact Or.inr (fun h2 => this ⟨h1, h2⟩)
      · exact Or.inl h1
    · have : (a.dest == b.dest) = false := by rw [beq_eq_false_iff_ne]; exact hd
      rw [this]; simp
  · have : (a.source == b.source) = false := by rw [beq_eq_false_iff_ne]; exact hs
    rw [this]; simp

theorem docwf_v9 {doc : MsDoc} (h : DocWF doc) (tab : List (Sz × Q)) : v9 (docGraph tab doc) = true := by
  unfold v9
  show pairwiseB _ (doc.migrations.map docMig) = true
  apply pairwiseB_map
  exact h.migs.disjoint.imp (fun hab => v9_rel hab)

/-! ## V10 -/

/-- the total ingress of the explicit graph is the sum of `DMigsWF.ingress` -/
theorem ingressAt_doc (tab : List (Sz × Q)) (doc : MsDoc) (n : String) (t : Q) :
    ingressAt (docGraph tab doc) n t
      = qsumS ((doc.migrations.filter (fun m => decide (m.dest = n) && covers t m)).map
          (fun m => rateQ m.rate)) := by
  unfold ingressAt
  show qsumS (((doc.migrations.map docMig).filter _).map _) = _
  rw [List.filter_map, List.map_map]
  congr 1
  have hf : ((fun m : Migration => m.dest == n && activeAt m t) ∘ docMig)
      = (fun m : BMigration => decide (m.dest = n) && covers t m) := by
    funext m
    show (m.dest == n && (decide (ETime.fin t < m.startTime) && decide (m.endTime ≤ t)))
      = (decide (m.dest = n) && (decide (m.endTime ≤ t) && decide (ETime.fin t < m.startTime)))
    rw [Bool.and_comm (decide (ETime.fin t < m.startTime))]
    congr 1
  rw [hf]
  rfl

theorem docwf_ingress {doc : MsDoc} (h : DocWF doc) (tab : List (Sz × Q)) {d : BDeme}
    (hd : d ∈ doc.demes) (t : Q) : ingressOk (ingressAt (docGraph tab doc) d.name t) = true := by
  rw [ingressAt_doc]
  exact h.migs.ingress d hd t

theorem docwf_v10 {doc : MsDoc} (h : DocWF doc) (tab : List (Sz × Q)) : v10 (docGraph tab doc) = true := by
  unfold v10
  rw [List.all_eq_true]
  intro t _
  rw [List.all_eq_true]
  intro d' hd'
  obtain ⟨d, hd, rfl⟩ := List.mem_map.1 (show d' ∈ doc.demes.map (docDeme tab) from hd')
  exact docwf_ingress h tab hd t

#print axioms docwf_v8
#print axioms docwf_v9
#print axioms docwf_v10

end Demes.Proofs.MsAcc
