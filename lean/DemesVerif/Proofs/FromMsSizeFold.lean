/-
  C08, stage `build_sizes` — from one event to the whole event loop: time groups
  (`itertools.groupby` ↔ the interpreter's groups), the stable sort of the events by time, and
  the initial states.
-/
import DemesVerif.Proofs.FromMsSizeSim
import Mathlib.Data.List.SplitBy
namespace Demes.Proofs.FromMs
open Demes Demes.Ms Demes.Spec.MsSem Demes.Spec.C08
open Demes.Proofs.RV (bind_ok pure_ok)

/-- `cmdOf` with a default (only used on records for which `cmdOf` is defined) -/
def cmdOfD (e : Event Num) : Cmd := (cmdOf e).getD (.setGrowthAll 0 0)

/-- `cmdOf` is defined on the record -/
def HasCmd (e : Event Num) : Prop := cmdOf e = some (cmdOfD e)

theorem hasCmd_of {e : Event Num} {c : Cmd} (h : cmdOf e = some c) : HasCmd e ∧ cmdOfD e = c := by
  unfold HasCmd cmdOfD; rw [h]; exact ⟨rfl, rfl⟩

theorem cmdOf_t {e : Event Num} {c : Cmd} (h : cmdOf e = some c) : e.t = .fin c.t := by
  cases e with
  | growthRateChange o t alpha => obtain ⟨tq, a, rfl, rfl, rfl⟩ := cmdOf_growthAll h; rfl
  | popGrowthRateChange o t i alpha => obtain ⟨tq, a, rfl, rfl, rfl⟩ := cmdOf_growth h; rfl
  | sizeChange o t x => obtain ⟨tq, a, rfl, rfl, rfl⟩ := cmdOf_sizeAll h; rfl
  | popSizeChange o t i x => obtain ⟨tq, a, rfl, rfl, rfl⟩ := cmdOf_size h; rfl
  | migRateChange o t x => obtain ⟨tq, a, rfl, rfl, rfl⟩ := cmdOf_migAll h; rfl
  | migEntryChange o t i j r => obtain ⟨tq, a, rfl, rfl, rfl⟩ := cmdOf_migEntry h; rfl
  | migMatrixChange o t npop mm => obtain ⟨tq, rfl, rfl⟩ := cmdOf_migMatrix h; rfl
  | split o t i p => obtain ⟨tq, a, rfl, rfl, rfl⟩ := cmdOf_split h; rfl
  | join o t i j => obtain ⟨tq, rfl, rfl⟩ := cmdOf_join h; rfl

/-! ## the events of one time group -/

theorem events_sizeSim {N0 T' : Q} : ∀ (evs : List (Event Num)) {T : Q} {s s' : BState} {g g' : GState} {σ σ' : St}
    {L L' : List (Nat × Row)}, SizeSim T s σ → T ≤ T' → (∀ e ∈ evs, HasCmd e) →
    (∀ e ∈ evs, 4 * N0 * (cmdOfD e).t = T') →
    evs.foldlM (stepEvent N0 T') (s, g) = .ok (s', g') →
    (evs.map cmdOfD).foldlM (Spec.MsSem.step N0) (σ, L) = .ok (σ', L') →
    ∃ T'', T'' ≤ T' ∧ SizeSim T'' s' σ' := by
  intro evs
  induction evs with
  | nil =>
    intro T s s' g g' σ σ' L L' h hT _ _ hm hs
    cases hm
    cases hs
    exact ⟨T, hT, h⟩
  | cons e evs ih =>
    intro T s s' g g' σ σ' L L' h hT hall htime hm hs
    rw [List.foldlM_cons] at hm
    obtain ⟨⟨s1, g1⟩, h1, hm⟩ := bind_ok.1 hm
    rw [List.map_cons, List.foldlM_cons] at hs
    obtain ⟨⟨σ1, L1⟩, hs1, hs⟩ := sbind_ok.1 hs
    have he := hall e (List.mem_cons_self ..)
    have ht := htime e (List.mem_cons_self ..)
    have h' := stepEvent_sizeSim h hT he ht.symm h1 hs1
    obtain ⟨T'', hle, hsim⟩ := ih h' (Rat.le_refl) (fun x hx => hall x (List.mem_cons_of_mem _ hx))
      (fun x hx => htime x (List.mem_cons_of_mem _ hx)) hm hs
    exact ⟨T'', hle, hsim⟩

/-! ## `applyParams` and the interpreter's `moves` do not touch the populations -/

theorem map_modify_proj {α β} (proj : α → β) (f : α → α) (hf : ∀ a, proj (f a) = proj a) (l : List α) (j : Nat) :
    (l.modify j f).map proj = l.map proj := by
  apply List.ext_getElem?
  intro i
  rw [List.getElem?_map, List.getElem?_map, List.getElem?_modify]
  by_cases hj : j = i
  · simp only [hj, if_true]
    cases l[i]? <;> simp [hf]
  · simp only [hj, if_false]
    cases l[i]? <;> rfl

theorem applyParams_epochs (time : Q) (s : BState) (g : GState) :
    (applyParams time s g).demes.map (fun d => (d.epochs, d.startTime)) = s.demes.map (fun d => (d.epochs, d.startTime))
    ∧ (applyParams time s g).numDemes = s.numDemes ∧ (applyParams time s g).joined = s.joined := by
  unfold applyParams
  generalize g.params = ps
  induction ps generalizing s with
  | nil => exact ⟨rfl, rfl, rfl⟩
  | cons x ps ih =>
    rw [List.foldl_cons]
    obtain ⟨j, k, p⟩ := x
    dsimp only
    split
    · exact ih s
    · split
      · obtain ⟨e1, e2, e3⟩ := ih { s with demes := s.demes.modify j _ }
        rw [e1, e2, e3]
        refine ⟨?_, rfl, rfl⟩
        show (s.demes.modify j _).map (fun d : BDeme => (d.epochs, d.startTime)) = _
        apply map_modify_proj
        intro a
        rfl
      · exact ih { s with pulses := _ }

theorem popRel_of_epochs {d d' : BDeme} {p : Pop} (he : d'.epochs = d.epochs) (hst : d'.startTime = d.startTime)
    (h : PopRel d p) : PopRel d' p := by
  refine ⟨?_, ?_, by rw [hst]; exact h.2.2⟩
  · intro t
    rw [← h.1 t]
    unfold demeSizeAt
    rw [he]
  · rw [← h.2.1]
    unfold curGrowth
    rw [he]

theorem SizeSim.of_epochs {T : Q} {s s' : BState} {σ σ' : St} (h : SizeSim T s σ)
    (he : s'.demes.map (fun d => (d.epochs, d.startTime)) = s.demes.map (fun d => (d.epochs, d.startTime)))
    (hn : s'.numDemes = s.numDemes)
    (hj : s'.joined = s.joined) (hp : σ'.pops = σ.pops) : SizeSim T s' σ' := by
  have hl : s'.demes.length = s.demes.length := by
    have := congrArg List.length he
    simpa using this
  refine ⟨by rw [hl, hp]; exact h.len, by rw [hn, hp]; exact h.num, by rw [hj, hn]; exact h.jlt, ?_⟩
  intro j d' p hd' hp'
  rw [hp] at hp'
  rw [hj]
  have hlt : j < s.demes.length := by rw [← hl]; exact (List.getElem?_eq_some_iff.mp hd').1
  have hd : s.demes[j]? = some s.demes[j] := List.getElem?_eq_getElem hlt
  have hee : d'.epochs = s.demes[j].epochs ∧ d'.startTime = s.demes[j].startTime := by
    have := congrArg (fun l => l[j]?) he
    simp only [List.getElem?_map, hd', hd, Option.map_some, Option.some.injEq, Prod.mk.injEq] at this
    exact this
  obtain ⟨r1, r2, r3, r4⟩ := h.rel j _ p hd hp'
  exact ⟨popRel_of_epochs hee.1 hee.2 r1, r2, r3, r4⟩

/-! ## one time group -/

theorem stepGroup_sizeSim {N0 T T' : Q} {s s' : BState} {σ σ' : St} {evs : List (Event Num)}
    (h : SizeSim T s σ) (hT : T ≤ T') (hall : ∀ e ∈ evs, HasCmd e) (htime : ∀ e ∈ evs, 4 * N0 * (cmdOfD e).t = T')
    (hm : Ms.stepGroup N0 s evs = .ok s') (hs : Spec.MsSem.stepGroup N0 σ (evs.map cmdOfD) = .ok σ') :
    SizeSim T' s' σ' := by
  unfold Ms.stepGroup at hm
  obtain ⟨t, ht, hm⟩ := bind_ok.1 hm
  dsimp only at hm
  obtain ⟨⟨s1, g1⟩, hfold, hm⟩ := bind_ok.1 hm
  cases hm
  unfold Spec.MsSem.stepGroup at hs
  dsimp only at hs
  obtain ⟨⟨σ1, L1⟩, hsfold, hs⟩ := sbind_ok.1 hs
  have hpops : σ'.pops = σ1.pops := by
    dsimp only at hs
    split at hs
    · rw [spure_ok] at hs
      subst hs
      split <;> rfl
    · rw [spure_ok] at hs
      subst hs
      rfl
  have htimeM : evs ≠ [] → 4 * N0 * t = T' := by
    intro hne
    cases evs with
    | nil => exact absurd rfl hne
    | cons e r =>
      have he := hall e (List.mem_cons_self ..)
      have := cmdOf_t he
      simp only [List.head?_cons, Option.map_some, Option.getD_some, this] at ht
      cases finArg_ok ht
      exact htime e (List.mem_cons_self ..)
  obtain ⟨e1, e2, e3⟩ := applyParams_epochs (4 * N0 * t) s1 g1
  have hsim1 : SizeSim T' s1 σ1 := by
    cases evs with
    | nil =>
      cases hfold
      cases hsfold
      exact h.mono hT
    | cons e r =>
      rw [htimeM (by simp)] at hfold
      obtain ⟨T'', hle, hsim⟩ := events_sizeSim (e :: r) h hT hall htime hfold hsfold
      exact hsim.mono hle
  exact hsim1.of_epochs e1 e2 e3 hpops

/-! ## all time groups -/

/-- the times of the groups are constant within a group and do not decrease -/
def TimesOK (N0 : Q) : Q → List (List Cmd) → Prop
  | _, [] => True
  | T, g :: rest => ∃ T', T ≤ T' ∧ (∀ c ∈ g, 4 * N0 * c.t = T') ∧ TimesOK N0 T' rest

theorem groups_sizeSim {N0 : Q} : ∀ (groups : List (List (Event Num))) {T : Q} {s s' : BState} {σ σ' : St},
    SizeSim T s σ → (∀ g ∈ groups, ∀ e ∈ g, HasCmd e) → TimesOK N0 T (groups.map (List.map cmdOfD)) →
    groups.foldlM (Ms.stepGroup N0) s = .ok s' →
    (groups.map (List.map cmdOfD)).foldlM (Spec.MsSem.stepGroup N0) σ = .ok σ' →
    ∃ T', SizeSim T' s' σ' := by
  intro groups
  induction groups with
  | nil =>
    intro T s s' σ σ' h _ _ hm hs
    cases hm
    cases hs
    exact ⟨T, h⟩
  | cons g rest ih =>
    intro T s s' σ σ' h hall ht hm hs
    rw [List.foldlM_cons] at hm
    obtain ⟨s1, h1, hm⟩ := bind_ok.1 hm
    rw [List.map_cons, List.foldlM_cons] at hs
    obtain ⟨σ1, hs1, hs⟩ := sbind_ok.1 hs
    obtain ⟨T', hle, htg, hrest⟩ := ht
    have h' := stepGroup_sizeSim h hle (hall g (List.mem_cons_self ..))
      (fun e he => htg _ (List.mem_map.mpr ⟨e, he, rfl⟩)) h1 hs1
    exact ih h' (fun g' hg' => hall g' (List.mem_cons_of_mem _ hg')) hrest hm hs

/-! ## grouping and sorting commute with `cmdOf` -/

theorem splitByLoop_map {α β} (f : α → β) (r1 : α → α → Bool) (r2 : β → β → Bool) (P : α → Prop)
    (hr : ∀ x y, P x → P y → r1 x y = r2 (f x) (f y)) :
    ∀ (l : List α) (a : α) (g : List α) (gs : List (List α)), P a → (∀ x ∈ l, P x) →
      List.splitBy.loop r2 (l.map f) (f a) (g.map f) (gs.map (List.map f))
        = (List.splitBy.loop r1 l a g gs).map (List.map f) := by
  intro l
  induction l with
  | nil => intro a g gs _ _; simp [List.splitBy.loop]
  | cons b l ih =>
    intro a g gs ha hl
    have hb := hl b (List.mem_cons_self ..)
    have hl' : ∀ x ∈ l, P x := fun x hx => hl x (List.mem_cons_of_mem _ hx)
    simp only [List.map_cons, List.splitBy.loop]
    rw [← hr a b ha hb]
    cases r1 a b
    · have := ih b [] ((a :: g).reverse :: gs) hb hl'
      simpa using this
    · have := ih b (a :: g) gs hb hl'
      simpa using this

theorem splitBy_map {α β} (f : α → β) (r1 : α → α → Bool) (r2 : β → β → Bool) (P : α → Prop)
    (hr : ∀ x y, P x → P y → r1 x y = r2 (f x) (f y)) (l : List α) (hl : ∀ x ∈ l, P x) :
    (l.map f).splitBy r2 = (l.splitBy r1).map (List.map f) := by
  cases l with
  | nil => rfl
  | cons a l =>
    have := splitByLoop_map f r1 r2 P hr l a [] [] (hl a (List.mem_cons_self ..))
      (fun x hx => hl x (List.mem_cons_of_mem _ hx))
    simpa [List.splitBy] using this

theorem hasCmd_t {e : Event Num} (h : HasCmd e) : e.t = .fin (cmdOfD e).t := cmdOf_t h

theorem sameT_cmd {x y : Event Num} (hx : HasCmd x) (hy : HasCmd y) :
    sameT x y = ((cmdOfD x).t == (cmdOfD y).t) := by
  unfold sameT
  rw [hasCmd_t hx, hasCmd_t hy]
  rfl

theorem insertBy_cmd (x : Event Num) (l : List (Event Num)) (hx : HasCmd x) (hl : ∀ y ∈ l, HasCmd y) :
    (insertBy (fun a b => Num.le a.t b.t) x l).map cmdOfD = insertCmd (cmdOfD x) (l.map cmdOfD) := by
  induction l with
  | nil => rfl
  | cons y ys ih =>
    have hy := hl y (List.mem_cons_self ..)
    simp only [insertBy, List.map_cons, insertCmd]
    have hle : Num.le x.t y.t = decide ((cmdOfD x).t ≤ (cmdOfD y).t) := by
      rw [hasCmd_t hx, hasCmd_t hy]; rfl
    by_cases hc : (cmdOfD x).t ≤ (cmdOfD y).t
    · simp only [hle, hc, decide_true, if_true, List.map_cons]
    · simp only [hle, hc, decide_false, Bool.false_eq_true, if_false, List.map_cons]
      rw [ih (fun z hz => hl z (List.mem_cons_of_mem _ hz))]

theorem insertBy_mem {α} (le : α → α → Bool) (x : α) (l : List α) (z : α) :
    z ∈ insertBy le x l ↔ z = x ∨ z ∈ l := by
  induction l with
  | nil => simp [insertBy]
  | cons y ys ih =>
    simp only [insertBy]
    split
    · simp
    · simp only [List.mem_cons, ih]
      tauto

theorem sortBy_mem {α} (le : α → α → Bool) (l : List α) (z : α) : z ∈ sortBy le l ↔ z ∈ l := by
  unfold sortBy
  induction l with
  | nil => simp
  | cons x xs ih => simp only [List.foldr_cons, insertBy_mem, ih, List.mem_cons]

theorem sortBy_cmd (l : List (Event Num)) (hl : ∀ y ∈ l, HasCmd y) :
    (sortBy (fun a b => Num.le a.t b.t) l).map cmdOfD = (l.map cmdOfD).foldr insertCmd [] := by
  induction l with
  | nil => rfl
  | cons x xs ih =>
    have hxs : ∀ y ∈ xs, HasCmd y := fun y hy => hl y (List.mem_cons_of_mem _ hy)
    show (insertBy _ x (sortBy _ xs)).map cmdOfD = _
    rw [insertBy_cmd x _ (hl x (List.mem_cons_self ..)) (fun y hy => hxs y ((sortBy_mem _ _ _).mp hy)), ih hxs]
    rfl

/-! ## the sorted events form non-decreasing constant-time groups -/

theorem insertCmd_sorted (c : Cmd) (l : List Cmd) (h : l.Pairwise (fun a b => a.t ≤ b.t)) :
    (insertCmd c l).Pairwise (fun a b => a.t ≤ b.t) := by
  induction l with
  | nil => exact List.pairwise_singleton _ _
  | cons d ds ih =>
    simp only [insertCmd]
    rw [List.pairwise_cons] at h
    split
    · rename_i hc
      refine List.pairwise_cons.mpr ⟨?_, List.pairwise_cons.mpr h⟩
      intro b hb
      rcases List.mem_cons.mp hb with rfl | hb
      · exact hc
      · exact Rat.le_trans hc (h.1 b hb)
    · rename_i hc
      refine List.pairwise_cons.mpr ⟨?_, ih h.2⟩
      intro b hb
      have hmem : b = c ∨ b ∈ ds := by
        clear ih h
        induction ds with
        | nil => simp [insertCmd] at hb; exact Or.inl hb
        | cons e es ihh =>
          simp only [insertCmd] at hb
          split at hb
          · simp only [List.mem_cons] at hb ⊢; tauto
          · simp only [List.mem_cons] at hb ⊢
            rcases hb with hb | hb
            · tauto
            · rcases ihh hb with h1 | h1 <;> tauto
      rcases hmem with rfl | hb
      · exact Rat.le_of_lt (Rat.not_le.mp hc)
      · exact h.1 b hb

theorem sortCmd_sorted (l : List Cmd) : (l.foldr insertCmd []).Pairwise (fun a b => a.t ≤ b.t) := by
  induction l with
  | nil => exact List.Pairwise.nil
  | cons c cs ih => exact insertCmd_sorted c _ ih

theorem insertCmd_mem (c : Cmd) (l : List Cmd) (z : Cmd) : z ∈ insertCmd c l → z = c ∨ z ∈ l := by
  induction l with
  | nil => intro h; simp [insertCmd] at h; exact Or.inl h
  | cons e es ih =>
    intro h
    simp only [insertCmd] at h
    split at h
    · simp only [List.mem_cons] at h ⊢; tauto
    · simp only [List.mem_cons] at h ⊢
      rcases h with h | h
      · tauto
      · rcases ih h with h1 | h1 <;> tauto

theorem sortCmd_mem (l : List Cmd) (z : Cmd) : z ∈ l.foldr insertCmd [] → z ∈ l := by
  induction l with
  | nil => intro h; exact h
  | cons c cs ih =>
    intro h
    rcases insertCmd_mem c _ z h with h | h
    · rw [h]; exact List.mem_cons_self ..
    · exact List.mem_cons_of_mem _ (ih h)

theorem timesOK_of_sorted {N0 : Q} (hN : 0 < N0) : ∀ (K : List (List Cmd)) (T : Q),
    (∀ g ∈ K, g ≠ [] ∧ ∀ x ∈ g, ∀ y ∈ g, x.t = y.t) → K.flatten.Pairwise (fun a b => a.t ≤ b.t) →
    (∀ c ∈ K.flatten, T ≤ 4 * N0 * c.t) → TimesOK N0 T K := by
  intro K
  induction K with
  | nil => intro T _ _ _; trivial
  | cons g rest ih =>
    intro T hK hp hT
    obtain ⟨hne, hconst⟩ := hK g (List.mem_cons_self ..)
    cases g with
    | nil => exact absurd rfl hne
    | cons c0 g0 =>
      refine ⟨4 * N0 * c0.t, hT c0 (by simp), ?_, ?_⟩
      · intro c hc
        rw [hconst c hc c0 (List.mem_cons_self ..)]
      · rw [List.flatten_cons, List.pairwise_append] at hp
        refine ih _ (fun g' hg' => hK g' (List.mem_cons_of_mem _ hg')) hp.2.1 ?_
        intro c hc
        have := hp.2.2 c0 (List.mem_cons_self ..) c hc
        have h4 : (0 : Q) ≤ 4 * N0 := by grind
        exact Rat.mul_le_mul_of_nonneg_left this h4

theorem splitBy_const (l : List Cmd) : ∀ g ∈ l.splitBy (fun a b => a.t == b.t),
    g ≠ [] ∧ ∀ x ∈ g, ∀ y ∈ g, x.t = y.t := by
  intro g hg
  refine ⟨List.ne_nil_of_mem_splitBy hg, ?_⟩
  have hc := List.isChain_of_mem_splitBy hg
  have hpw : g.Pairwise (fun x y => x.t = y.t) := by
    clear hg
    induction g with
    | nil => exact List.Pairwise.nil
    | cons a r ih =>
      have hr : List.IsChain (fun x y => (x.t == y.t) = true) r := hc.tail
      refine List.pairwise_cons.mpr ⟨?_, ih hr⟩
      have hall : ∀ (r : List Cmd) (a : Cmd), List.IsChain (fun x y => (x.t == y.t) = true) (a :: r) →
          ∀ b ∈ r, a.t = b.t := by
        intro r
        induction r with
        | nil => intro a _ b hb; cases hb
        | cons c r ihr =>
          intro a hc b hb
          rw [List.isChain_cons_cons] at hc
          have hac : a.t = c.t := by simpa using hc.1
          rcases List.mem_cons.mp hb with rfl | hb
          · exact hac
          · rw [hac]; exact ihr c hc.2 b hb
      exact hall r a hc
  intro x hx y hy
  rcases List.mem_iff_getElem.mp hx with ⟨i, hi, rfl⟩
  rcases List.mem_iff_getElem.mp hy with ⟨j, hj, rfl⟩
  rcases Nat.lt_trichotomy i j with h | h | h
  · exact List.pairwise_iff_getElem.mp hpw i j hi hj h
  · subst h; rfl
  · exact (List.pairwise_iff_getElem.mp hpw j i hj hi h).symm

/-! ## the whole event loop -/

theorem agree_list : ∀ (l : List (Event Num)) (cs : List Cmd), l.map cmdOf = cs.map some →
    cs = l.map cmdOfD ∧ ∀ e ∈ l, HasCmd e := by
  intro l
  induction l with
  | nil =>
    intro cs h
    cases cs with
    | nil => exact ⟨rfl, fun e he => by cases he⟩
    | cons _ _ => cases h
  | cons e l ih =>
    intro cs h
    cases cs with
    | nil => cases h
    | cons c cs =>
      simp only [List.map_cons, List.cons.injEq] at h
      obtain ⟨h1, h2⟩ := ih cs h.2
      obtain ⟨k1, k2⟩ := hasCmd_of h.1
      refine ⟨by rw [List.map_cons, k2, ← h1], ?_⟩
      intro x hx
      rcases List.mem_cons.mp hx with rfl | hx
      · exact k1
      · exact h2 x hx

theorem initPop_fst (args : Args) : (initPop args).1 = (match args.structure_ with | none => 1 | some st => st.npop.toNat) := by
  unfold initPop
  cases args.structure_ with
  | none => rfl
  | some st =>
    dsimp only
    split <;> rfl

theorem initial_sizeSim (args : Args) (pr : Parsed) (N0 : Q) (h : ArgsAgree args pr) :
    SizeSim 0 (initState args N0) (initSt pr N0) := by
  have hn : (initPop args).1 = pr.npop := by rw [initPop_fst]; exact h.npop
  refine ⟨by simp [initState, initSt, hn], by simp [initState, initSt, hn],
    (fun j (hj : j ∈ ([] : List Nat)) => by cases hj), ?_⟩
  intro j d p hd hp
  have hd' : ((List.range (initPop args).1).map (fun j => newDeme N0 0 j))[j]? = some d := hd
  have hp' : (List.replicate pr.npop (newPop N0 0))[j]? = some p := hp
  rw [List.getElem?_map] at hd'
  rw [List.getElem?_replicate] at hp'
  split at hp'
  · injection hp' with hp'
    subst hp'
    cases hr : (List.range (initPop args).1)[j]? with
    | none => rw [hr] at hd'; cases hd'
    | some k =>
      rw [hr] at hd'
      simp only [Option.map_some, Option.some.injEq] at hd'
      subst hd'
      exact ⟨newDeme_rel N0 0 k, (fun sg (hs : sg ∈ ([] : List Seg)) => by cases hs), Rat.le_refl, rfl⟩
  · cases hp'

/-- **the event loop, as far as populations and sizes are concerned**: the final Builder state and
the final interpreter state correspond -/
theorem buildState_sizeSim {args : Args} {pr : Parsed} {N0 : Q} {s : BState} {σ : St}
    (ha : ArgsAgree args pr) (hm : buildState args N0 = .ok s) (hs : runState pr N0 = .ok σ) :
    ∃ T, SizeSim T s σ := by
  unfold buildState at hm
  split at hm
  · exact (RV.valueErr_bind_ok.1 hm).elim
  rename_i hN
  have hN : 0 < N0 := by grind
  obtain ⟨_, _, hm⟩ := bind_ok.1 hm
  obtain ⟨hi1, hi2⟩ := agree_list _ _ ha.initial
  obtain ⟨he1, he2⟩ := agree_list _ _ ha.events
  -- all records of the loop have an ms option
  have hall : ∀ e ∈ args.initialState ++ sortBy (fun a b => Num.le a.t b.t) args.demographicEvents, HasCmd e := by
    intro e he
    rcases List.mem_append.mp he with he | he
    · exact hi2 e he
    · exact he2 e ((sortBy_mem _ _ _).mp he)
  -- the interpreter's groups are the images of the Builder's groups
  have hgroups : cmdGroups pr = (eventGroups args).map (List.map cmdOfD) := by
    unfold cmdGroups eventGroups
    rw [hi1, he1, ← sortBy_cmd _ he2, ← List.map_append]
    exact splitBy_map cmdOfD sameT (fun a b => a.t == b.t) HasCmd (fun x y hx hy => sameT_cmd hx hy) _ hall
  unfold runState at hs
  rw [hgroups] at hs
  refine groups_sizeSim (eventGroups args) (initial_sizeSim args pr N0 ha) ?_ ?_ hm hs
  · intro g hg e he
    apply hall
    have : e ∈ (eventGroups args).flatten := List.mem_flatten.mpr ⟨g, hg, he⟩
    unfold eventGroups at this
    rwa [List.flatten_splitBy] at this
  · rw [← hgroups]
    unfold cmdGroups
    apply timesOK_of_sorted hN _ 0 (splitBy_const _)
    · rw [List.flatten_splitBy, List.pairwise_append]
      refine ⟨?_, sortCmd_sorted _, ?_⟩
      · apply List.pairwise_of_forall_mem_list
        intro a ha' b hb'
        rw [ha.initial0 a ha', ha.initial0 b hb']
      · intro a ha' b hb'
        rw [ha.initial0 a ha']
        exact ha.nonneg b (sortCmd_mem _ _ hb')
    · intro c hc
      rw [List.flatten_splitBy] at hc
      have h0 : 0 ≤ c.t := by
        rcases List.mem_append.mp hc with hc | hc
        · rw [ha.initial0 c hc]
        · exact ha.nonneg c (sortCmd_mem _ _ hc)
      have h4 : (0 : Q) ≤ 4 * N0 := by grind
      have := Rat.mul_le_mul_of_nonneg_left h0 h4
      simpa using this

/-- **`build_sizes`.**  At the end of the event loop the Builder and the ms interpreter have the
same number of populations; deme `j` and population `j+1` have the same size at every time
(`none` on both sides before the population exists) and the same current growth rate; and deme
`j` is marked as joined exactly when population `j+1` has been joined. -/
theorem build_sizes {args : Args} {pr : Parsed} {N0 : Q} {s : BState} {σ : St}
    (ha : ArgsAgree args pr) (hm : buildState args N0 = .ok s) (hs : runState pr N0 = .ok σ) :
    s.demes.length = σ.pops.length ∧ s.numDemes = σ.pops.length ∧
    ∀ (j : Nat) (d : BDeme) (p : Pop), s.demes[j]? = some d → σ.pops[j]? = some p →
      (∀ t, demeSizeAt d t = popSizeAt p t) ∧ curGrowth d = p.growth ∧ d.startTime = p.hi
      ∧ s.joined.contains j = !alive p := by
  obtain ⟨T, h⟩ := buildState_sizeSim ha hm hs
  refine ⟨h.len, h.num, ?_⟩
  intro j d p hd hp
  obtain ⟨r1, _, _, r4⟩ := h.rel j d p hd hp
  exact ⟨r1.1, r1.2.1, r1.2.2, r4⟩

end Demes.Proofs.FromMs
