/-
  C07 — the run of `msSemG` on the emitted command does not fail (`okEv_finalEvs`).
-/
import DemesVerif.Proofs.ToMsAlive2
set_option linter.unusedSimpArgs false
set_option linter.unusedVariables false
namespace Demes.Proofs.ToMs
open Demes Demes.Ms Demes.Spec Demes.Spec.C07 Demes.Proofs.RV

/-! ### positions of the graph's demes -/

theorem idx_idOf {g : Graph} (c : Clauses g) {name : String} {d : Deme} (h : findDeme g name = some d) :
    1 ≤ idOf g name ∧ idOf g name ≤ (g.demes.length : Int) ∧ g.demes[idx (idOf g name)]? = some d := by
  obtain ⟨j, hj, hd⟩ := demeId_of_findDeme (nodup_names c) h
  have hlt := lt_of_demeId hj
  unfold idOf idx
  rw [hj]
  simp only [Option.getD_some]
  refine ⟨by omega, by omega, ?_⟩
  have : ((j : Int) + 1 - 1).toNat = j := by omega
  rw [this]; exact hd

theorem idx_succ (i : Nat) : idx ((i + 1 : Nat) : Int) = i := by unfold idx; omega

theorem et_lt_of_le_of_ne {a b : ETime} (h1 : a ≤ b) (h2 : a ≠ b) : a < b := by
  cases a <;> cases b <;>
    simp only [InGen.fin_lt_fin, InGen.fin_le_fin, InGen.le_inf, InGen.inf_lt, InGen.inf_le_fin, InGen.fin_lt_inf,
      ne_eq, ETime.fin.injEq] at * <;>
    first | trivial | grind | exact absurd rfl h2

theorem et_lt_of_le_of_lt {a b c : ETime} (h1 : a ≤ b) (h2 : b < c) : a < c := by
  cases a <;> cases b <;> cases c <;>
    simp only [InGen.fin_lt_fin, InGen.fin_le_fin, InGen.le_inf, InGen.inf_lt, InGen.inf_le_fin, InGen.fin_lt_inf] at * <;>
    grind

/-! ### times of the options, per kind -/

theorem mem_rawEvs {g : Graph} {N0 : Q} {y : Event Growth} (h : y ∈ rawEvs g N0) :
    y ∈ sizeEvsAll N0 g.demes.zipIdx ∨ y ∈ ancEvs g g.demes.length (dps g) ∨ y ∈ migEvs N0 g := by
  simp only [rawEvs, List.mem_append] at h
  rcases h with (h | h) | h
  · exact Or.inl h
  · exact Or.inr (Or.inl h)
  · exact Or.inr (Or.inr h)

theorem targets_scale (N0 : Q) (e : Event Growth) : targets (scaleEv N0 e) = targets e := by cases e <;> rfl

theorem isJoinOf_scale (N0 : Q) (i : Int) (e : Event Growth) : isJoinOf i (scaleEv N0 e) = isJoinOf i e := by
  cases e <;> rfl

/-- an option that is not `-es` / `-ej` addresses graph populations strictly before their start time -/
theorem targetTime {g : Graph} (c : Clauses g) (hx : MsExpressible g = true) {N0 : Q} {y : Event Growth}
    (hy : y ∈ rawEvs g N0) (hsj : isSplitJoin y = false) {i : Int} (hi : i ∈ targets y) :
    1 ≤ i ∧ i ≤ (g.demes.length : Int) ∧ ∃ d q, g.demes[idx i]? = some d ∧ y.t = .fin q ∧ ETime.fin q < d.startTime := by
  rcases mem_rawEvs hy with h | h | h
  · obtain ⟨dj, hdj, e', he', h'⟩ := mem_sizeEvsAll h
    have hget : g.demes[dj.2]? = some dj.1 := by
      have := (List.mem_zipIdx_iff_getElem?.1 hdj); simpa using this
    have hlt : dj.2 < g.demes.length := (List.getElem?_eq_some_iff.mp hget).1
    have hdm : dj.1 ∈ g.demes := List.mem_of_getElem? hget
    have h5 := c.h5
    simp only [v5, List.all_eq_true, Bool.and_eq_true] at h5
    obtain ⟨hf, _⟩ := contiguous_facts _ _ (h5 dj.1 hdm).2
    have hlt' := et_lt_of_lt_of_le (hf e' he').1 (hf e' he').2
    have hi' : i = ((dj.2 + 1 : Nat) : Int) := by
      rcases h' with rfl | rfl <;> simpa [targets] using hi
    subst hi'
    refine ⟨by omega, by omega, dj.1, e'.endTime, by rw [idx_succ]; exact hget, ?_, hlt'⟩
    rcases h' with rfl | rfl <;> rfl
  · rw [splitJoin_ancEvs h] at hsj; cases hsj
  · simp only [migEvs, List.mem_append, migOffs, migOns, List.mem_map, List.mem_filter] at h
    have hf : MigFacts g := migFacts_of c.h1 c.h6 c.h8 c.h9
    have key : ∀ m ∈ g.migrations, ∀ name ∈ [m.dest, m.source], ∃ d, findDeme g name = some d ∧
        ETime.fin m.endTime < d.startTime ∧ m.startTime ≤ d.startTime := by
      intro m hm name hname
      obtain ⟨s, d, hs, hd, hlt, _⟩ := hf.mig m hm
      have h8 := c.h8
      simp only [v8, List.all_eq_true] at h8
      have h8m := h8 m hm
      rw [hs, hd] at h8m
      simp only [Bool.and_eq_true, decide_eq_true_eq, coexist] at h8m
      have hC : m.startTime ≤ ETime.min s.startTime d.startTime := of_decide_eq_true h8m.2.1.1.2
      obtain ⟨h1, h2⟩ := et_le_min hC
      simp only [List.mem_cons, List.not_mem_nil, or_false] at hname
      rcases hname with rfl | rfl
      · exact ⟨d, hd, et_lt_of_lt_of_le hlt h2, h2⟩
      · exact ⟨s, hs, et_lt_of_lt_of_le hlt h1, h1⟩
    rcases h with ⟨m, ⟨hm, hc⟩, rfl⟩ | ⟨m, hm, rfl⟩
    · simp only [migOff, targets, List.mem_cons, List.not_mem_nil, or_false] at hi
      cases hst : m.startTime with
      | inf => simp [offCond, hst, ETime.isInf] at hc
      | fin q =>
        simp only [offCond, Bool.and_eq_true, decide_eq_true_eq, Bool.not_eq_true'] at hc
        have hname : ∃ name ∈ [m.dest, m.source], i = idOf g name ∧ m.startTime ≠ startOf g name := by
          rcases hi with rfl | rfl
          · exact ⟨m.dest, by simp, rfl, hc.1.2⟩
          · exact ⟨m.source, by simp, rfl, hc.2⟩
        obtain ⟨name, hn, rfl, hne⟩ := hname
        obtain ⟨d, hd, _, hle⟩ := key m hm name hn
        obtain ⟨h1, h2, h3⟩ := idx_idOf c hd
        have hso : startOf g name = d.startTime := by
          simp [startOf, RV.deme?_eq_findDeme c.h0, hd]
        rw [hso] at hne
        refine ⟨h1, h2, d, q, h3, by simp [migOff, Event.t, hst, Num.ofETime], ?_⟩
        rw [← hst]; exact et_lt_of_le_of_ne hle hne
    · simp only [migOn, targets, List.mem_cons, List.not_mem_nil, or_false] at hi
      have hname : ∃ name ∈ [m.dest, m.source], i = idOf g name := by
        rcases hi with rfl | rfl
        · exact ⟨m.dest, by simp, rfl⟩
        · exact ⟨m.source, by simp, rfl⟩
      obtain ⟨name, hn, rfl⟩ := hname
      obtain ⟨d, hd, hlt, _⟩ := key m hm name hn
      obtain ⟨h1, h2, h3⟩ := idx_idOf c hd
      exact ⟨h1, h2, d, m.endTime, h3, rfl, hlt⟩

/-- the `-ej` of a graph population is scheduled at its deme's start time -/
theorem joinTime {g : Graph} (c : Clauses g) (hx : MsExpressible g = true) {N0 : Q} {o : String} {t : Num} {i j : Int}
    (hy : Event.join o t i j ∈ rawEvs g N0) (h1 : 1 ≤ i) (h2 : i ≤ (g.demes.length : Int)) :
    ∃ d q, g.demes[idx i]? = some d ∧ d.startTime = .fin q ∧ t = .fin q := by
  rcases mem_rawEvs hy with h | h | h
  · have := sizeKind_sizeEvsAll h; cases this
  · rcases join_mem_ancEvs _ _ h with hlt | ⟨d, hd, hid, ht⟩
    · omega
    · have hdm := mem_dps_deme hd
      obtain ⟨q, hq, _⟩ := (evGood_rawEvs c hx hy).time
      simp only [Event.t] at hq
      obtain ⟨_, _, h3⟩ := idx_idOf c (findDeme_of_mem c hdm)
      rw [← hid] at h3
      cases hst : d.startTime with
      | inf => rw [ht, hst] at hq; cases hq
      | fin st =>
        rw [ht, hst] at hq
        simp only [Num.ofETime, Num.fin.injEq] at hq
        exact ⟨d, st, h3, hst, by rw [ht, hst]; rfl⟩
  · have := migKind_migEvs h; cases this

/-! ### the initial state and the populations created by splits -/

def s0Of (N0 : Q) (n : Nat) : StG :=
  { pops := List.replicate n { lo := 0, upd := [⟨0, some N0, some .zero⟩] },
    mat := List.replicate n (List.replicate n 0),
    snaps := [(0, List.replicate n (List.replicate n 0))] }

def isSplitFin : Event Growth → Bool
  | .split _ _ _ (.fin _) => true
  | _ => false

theorem stepP_len (N0 : Q) (s : StG) (e : Event Growth) :
    (stepP N0 s e).pops.length = s.pops.length + (if isSplitFin e then 1 else 0) := by
  cases e with
  | popSizeChange o t i x => cases x <;> simp [stepP, updPop, isSplitFin]
  | migEntryChange o t i j r => cases r <;> simp [stepP, StG.snap, isSplitFin]
  | split o t i p => cases p <;> simp [stepP, StG.snap, isSplitFin]
  | popGrowthRateChange => simp [stepP, updPop, isSplitFin]
  | join => simp [stepP, updPop, StG.snap, isSplitFin]
  | _ => simp [stepP, isSplitFin]

theorem runP_len (N0 : Q) : ∀ (evs : List (Event Growth)) (s : StG),
    (runP N0 s evs).pops.length = s.pops.length + (evs.filter isSplitFin).length
  | [], _ => rfl
  | e :: r, s => by
    rw [runP_cons, runP_len N0 r, stepP_len, List.filter_cons]
    split <;> simp <;> omega

theorem stepP_split_new (N0 : Q) (s : StG) (o : String) (t : Num) (i : Int) (y : Q) :
    (stepP N0 s (.split o t i (.fin y))).pops[s.pops.length]?
      = some { lo := 4 * N0 * evT (.split o t i (.fin y)), upd := [⟨4 * N0 * evT (.split o t i (.fin y)), some N0, some .zero⟩] } := by
  simp [stepP, StG.snap]

/-! ### aliveness -/

theorem alive_orig {N0 : Q} {n0 : Nat} {pre : List (Event Growth)} {i : Int} (h1 : 1 ≤ i) (h2 : i ≤ (n0 : Int))
    (hno : ∀ x ∈ pre, isJoinIdx (idx i) x = false) : AliveIn (runP N0 (s0Of N0 n0) pre) i := by
  have hlt : idx i < n0 := by unfold idx; omega
  have h0 : (s0Of N0 n0).pops[idx i]? = some { lo := 0, upd := [⟨0, some N0, some .zero⟩] } := by
    simp [s0Of, List.getElem?_replicate, hlt]
  refine ⟨h1, _, runP_pops_get pre h0, ?_⟩
  have : pre.filter (isJoinIdx (idx i)) = [] := by
    rw [List.filter_eq_nil_iff]; intro x hx; simp [hno x hx]
  simp [hiFrom, this]

theorem isJoinIdx_of {i : Int} (h1 : 1 ≤ i) {x : Event Growth}
    (hpos : ∀ o t i' j, x = .join o t i' j → 1 ≤ i') (h : isJoinIdx (idx i) x = true) : isJoinOf i x = true := by
  cases x with
  | join o t i' j =>
    have := hpos o t i' j rfl
    have h' : (i' - 1).toNat = (i - 1).toNat := of_decide_eq_true h
    simp only [isJoinOf, decide_eq_true_eq]
    omega
  | _ => simp [isJoinIdx] at h

/-! ### the `-es` / `-ej` options of the emitted command -/

theorem finalEvs_mem {g : Graph} (c : Clauses g) (hx : MsExpressible g = true) {N0 : Q} {x : Event Growth}
    (h : x ∈ finalEvs g N0) : ∃ y ∈ rawEvs g N0, x = scaleEv N0 y := by
  obtain ⟨y, hy, rfl⟩ := List.mem_map.1 h
  exact ⟨y, (mem_sortBy _).1 hy, rfl⟩

theorem ancEvOk_scale {n0 : Nat} {N0 : Q} {y : Event Growth} (h : AncEvOk n0 y) : AncEvOk n0 (scaleEv N0 y) := by
  cases y with
  | split o t i p =>
    obtain ⟨⟨q, rfl⟩, h2⟩ := h
    exact ⟨⟨_, rfl⟩, h2⟩
  | join o t i j =>
    obtain ⟨⟨q, rfl⟩, h2⟩ := h
    exact ⟨⟨_, rfl⟩, h2⟩
  | _ => exact h.elim

theorem finalEvs_anc {g : Graph} (c : Clauses g) (hx : MsExpressible g = true) {N0 : Q} {x : Event Growth}
    (h : x ∈ finalEvs g N0) (hsj : isSplitJoin x = true) :
    ∃ y ∈ ancEvs g g.demes.length (dps g), x = scaleEv N0 y ∧ AncEvOk g.demes.length y := by
  obtain ⟨y, hy, rfl⟩ := finalEvs_mem c hx h
  rw [isSplitJoin_scale] at hsj
  rcases mem_rawEvs hy with h' | h' | h'
  · rw [not_splitJoin_of_size (sizeKind_sizeEvsAll h')] at hsj; cases hsj
  · exact ⟨y, h', rfl, ancEvOk_ancEvs c hx _ _ (Nat.le_refl _) (goodXs_dps c).mem h'⟩
  · rw [not_splitJoin_of_mig (migKind_migEvs h')] at hsj; cases hsj

theorem join_pos_finalEvs {g : Graph} (c : Clauses g) (hx : MsExpressible g = true) {N0 : Q} {x : Event Growth}
    (h : x ∈ finalEvs g N0) : ∀ o t i' j, x = .join o t i' j → 1 ≤ i' := by
  intro o t i' j hxe
  subst hxe
  obtain ⟨y, _, hy, hok⟩ := finalEvs_anc c hx h rfl
  have := ancEvOk_scale (N0 := N0) hok
  rw [← hy] at this
  exact this.2.1

end Demes.Proofs.ToMs
