/-
  C09, first sentence — non-vacuity of `groupsFrag_toMs`: concrete graphs that meet its hypotheses, with
  the conclusion checked in the kernel on the parsed command itself (both through `prOf` and through the
  parser of the string interpreter on the rendered command).
-/
import DemesVerif.Proofs.MsAccFrag
import DemesVerif.Proofs.MsRTExamples
namespace Demes.Proofs.MsAcc
open Demes Demes.Ms Demes.Spec Demes.Spec.C07 Demes.Spec.C09
open Demes.Spec.MsSem (parse)
open Demes.Spec.C08 (cmdGroups)
open Demes.Proofs.ToMs Demes.Proofs.MsRT
open Demes.Proofs.MsPrint (tableCodec growthStr twoDemePulse branchMig)

/-- the hypotheses of `groupsFrag_toMs`, decided -/
def fragHyps (g : Graph) (N0 : Q) : Bool :=
  validGraph g && MsExpressible g && ConstSizes g && PulsesTame g && decide (0 < N0)

/-- the conclusion of `groupsFrag_toMs` (`samples = none`), decided -/
def fragConcl (g : Graph) (N0 : Q) : Bool :=
  groupsFrag (prOf (headerOf (inGenerations g) none) (finalEvs (inGenerations g) N0)).npop
    (cmdGroups (prOf (headerOf (inGenerations g) none) (finalEvs (inGenerations g) N0)))

/-- the same on what `MsSem.parse` reads off the command `toMs` prints -/
def fragParsed (g : Graph) (N0 : Q) : Bool :=
  match toMs g N0 none with
  | .ok toks =>
    match parse (renderG tableCodec growthStr toks) with
    | .ok pr => groupsFrag pr.npop (cmdGroups pr)
    | .error _ => false
  | .error _ => false

theorem fragConcl_of_hyps {g : Graph} {N0 : Q} (h : fragHyps g N0 = true) : fragConcl g N0 = true := by
  simp only [fragHyps, Bool.and_eq_true, decide_eq_true_eq] at h
  obtain ⟨⟨⟨⟨h1, h2⟩, h3⟩, h4⟩, h5⟩ := h
  exact groupsFrag_toMs h1 h2 h3 h4 h5 none

/-- an admixture with two ancestors (`-es` / `-ej` / `-ej` in one group), a graph in years whose ancestor
changes size when its descendant starts (`-en` and `-ej` of different populations in one group), a pulse
of proportion 1/2, a branch with a migration: the hypotheses hold … -/
example : [admixture, twoEpochs, twoDemePulse (1/2), branchMig].all (fragHyps · 1) = true := by decide +kernel
example : fragHyps admixture 2 = true := by decide +kernel

/-- … and so does the conclusion, evaluated -/
example : fragConcl admixture 1 = true := by decide +kernel
example : fragConcl twoEpochs 1 = true := by decide +kernel
example : fragConcl (twoDemePulse (1/2)) 1 = true := by decide +kernel
example : fragConcl branchMig 1 = true := by decide +kernel
example : fragParsed admixture 1 = true := by decide +kernel
example : fragParsed twoEpochs 1 = true := by decide +kernel
example : fragParsed (twoDemePulse (1/2)) 1 = true := by decide +kernel
example : fragParsed admixture 2 = true := by decide +kernel

/-- the theorem at work -/
example : fragConcl admixture 2 = true := fragConcl_of_hyps (by decide +kernel)

/-- the groups of `twoEpochs`: `-en 1.0 1 2.0` and `-ej 1.0 2 1` share a group and name different populations -/
example : cmdGroups (prOf (headerOf (inGenerations twoEpochs) none) (finalEvs (inGenerations twoEpochs) 1))
    = [[.setSize 0 2 (1/2) false], [.setMigEntry (1/2) 2 1 (1/4)], [.setSize 1 1 2 true, .join 1 2 1]] := by
  decide +kernel

/-- `PulsesTame` is needed for `fragCmd`: the command of `twoDemePulse 1` (a pulse of proportion 1) has `-es t i 0` -/
example : validGraph (twoDemePulse 1) = true ∧ MsExpressible (twoDemePulse 1) = true
    ∧ ConstSizes (twoDemePulse 1) = true ∧ PulsesTame (twoDemePulse 1) = false
    ∧ fragConcl (twoDemePulse 1) 1 = false := by decide +kernel

#print axioms fragConcl_of_hyps

end Demes.Proofs.MsAcc
