/-
  Proofs for C06, part 3: the validators of `Graph.fromdict` on the numbers `Graph.asdict`
  emits, `Num` against `ETime` comparisons, and name lookup through the index.
-/
import DemesVerif.Proofs.AsdictRead
import DemesVerif.Proofs.MatRates
namespace Demes.Proofs.Asdict
open Demes Demes.Spec Obj Value

theorem pure_bind' {α β} (a : α) (f : α → Except Err β) : ((pure a : Except Err α) >>= f) = f a := rfl

/-! ### validators -/

theorem intOrFloat_numV (x : Q) : intOrFloat (numV x) = .ok (.fin x) := rfl
theorem intOrFloat_timeV (t : ETime) : intOrFloat (timeV t) = .ok (Num.ofETime t) := by cases t <;> rfl

theorem num_le_fin (a b : Q) : Num.le (.fin a) (.fin b) = decide (a ≤ b) := rfl
theorem num_lt_fin (a b : Q) : Num.lt (.fin a) (.fin b) = decide (a < b) := rfl

theorem posFiniteQ_numV {x : Q} (h : 0 < x) : posFiniteQ (numV x) = .ok x := by
  have h' : ¬ x ≤ 0 := by grind
  simp only [posFiniteQ, intOrFloat_numV, bind_ok, vPositive, Num.zero, num_le_fin, decide_eq_true_eq,
    if_neg h', pure_eq_ok, vFinite, Num.isInf, toQ]
  rfl

theorem nonNegFiniteQ_numV {x : Q} (h : 0 ≤ x) : nonNegFiniteQ (numV x) = .ok x := by
  have h' : ¬ x < 0 := by grind
  simp only [nonNegFiniteQ, intOrFloat_numV, bind_ok, vNonNegative, Num.zero, num_lt_fin, decide_eq_true_eq,
    if_neg h', pure_eq_ok, vFinite, Num.isInf, toQ]
  rfl

theorem unitQ_numV {x : Q} (h0 : 0 ≤ x) (h1 : x ≤ 1) : unitQ (numV x) = .ok x := by
  simp only [unitQ, intOrFloat_numV, bind_ok, vUnitInterval, Num.zero, Num.one, num_le_fin,
    decide_eq_true h0, decide_eq_true h1, Bool.and_self, if_true, pure_eq_ok, toQ]

theorem unitExLoQ_numV {x : Q} (h0 : 0 < x) (h1 : x ≤ 1) : unitExLoQ (numV x) = .ok x := by
  simp only [unitExLoQ, intOrFloat_numV, bind_ok, vUnitIntervalExLo, Num.zero, Num.one, num_le_fin, num_lt_fin,
    decide_eq_true h0, decide_eq_true h1, Bool.and_self, if_true, pure_eq_ok, toQ]

/-! ### `Num` comparisons on times -/

theorem num_lt_ofETime (a b : ETime) : Num.lt (Num.ofETime a) (Num.ofETime b) = decide (a < b) := by
  cases a <;> cases b <;> rfl
theorem num_le_ofETime (a b : ETime) : Num.le (Num.ofETime a) (Num.ofETime b) = decide (a ≤ b) := by
  cases a <;> cases b <;> rfl
theorem num_le_fin_ofETime (x : Q) (b : ETime) : Num.le (.fin x) (Num.ofETime b) = decide (ETime.fin x ≤ b) :=
  num_le_ofETime (.fin x) b
theorem num_le_ofETime_fin (a : ETime) (x : Q) : Num.le (Num.ofETime a) (.fin x) = decide (a ≤ ETime.fin x) :=
  num_le_ofETime a (.fin x)
theorem num_lt_ofETime_fin (a : ETime) (x : Q) : Num.lt (Num.ofETime a) (.fin x) = decide (a < ETime.fin x) :=
  num_lt_ofETime a (.fin x)
theorem isInf_ofETime (a : ETime) : (Num.ofETime a).isInf = a.isInf := by cases a <;> rfl
theorem toETime_ofETime (a : ETime) : toETime (Num.ofETime a) = .ok a := by cases a <;> rfl
theorem et_not_le_of_lt {a b : ETime} (h : a < b) : ¬ b ≤ a := by
  cases a <;> cases b <;> simp only [LE.le, LT.lt, ETime.le, ETime.lt] at * <;> grind

/-! ### name lookup: with the index `mkIndex demes`, `graph[name]` is the first deme of that name -/

theorem idx_find (a : String) : ∀ (l : List Deme) (k : Nat),
    (((l.zipIdx k).map (fun (dm, i) => (dm.name, i))).find? (fun kv => kv.1 = a)).map (·.2)
      = (l.findIdx? (fun d => d.name = a)).map (· + k) := by
  intro l
  induction l with
  | nil => intro k; rfl
  | cons d ds ih =>
    intro k
    rw [List.zipIdx_cons, List.map_cons, List.find?_cons, List.findIdx?_cons]
    by_cases h : d.name = a
    · simp only [h, decide_true, Option.map_some, Nat.zero_add, if_true]
    · simp only [h, decide_false, Bool.false_eq_true, if_false]
      rw [ih (k + 1), Option.map_map]
      congr 1
      funext i
      simp only [Function.comp]
      omega

theorem getElem?_findIdx? {α} (p : α → Bool) : ∀ (l : List α),
    (match l.findIdx? p with | some i => l[i]? | none => none) = l.find? p := by
  intro l
  induction l with
  | nil => rfl
  | cons x xs ih =>
    rw [List.findIdx?_cons, List.find?_cons]
    by_cases h : p x = true
    · simp only [h, if_true, List.getElem?_cons_zero]
    · simp only [h, Bool.false_eq_true, if_false]
      rw [← ih]
      cases xs.findIdx? p with
      | none => rfl
      | some i => simp only [Option.map_some, List.getElem?_cons_succ]

theorem deme?_eq (G : Graph) (hG : G.index = mkIndex G.demes) (a : String) :
    G.deme? a = G.demes.find? (fun d => d.name = a) := by
  unfold Graph.deme? Graph.indexLookup
  rw [hG, mkIndex, idx_find, ← getElem?_findIdx?]
  cases G.demes.findIdx? (fun d => d.name = a) <;> rfl

theorem hasName_eq (G : Graph) (hG : G.index = mkIndex G.demes) (a : String) :
    G.hasName a = G.demes.any (fun d => d.name = a) := by
  unfold Graph.hasName Graph.indexLookup
  rw [hG, mkIndex, idx_find, Option.isSome_map, List.findIdx?_isSome]


theorem hasName_of_deme? {G : Graph} {a : String} {d : Deme} (h : G.deme? a = some d) :
    G.hasName a = true := by
  unfold Graph.deme? at h
  unfold Graph.hasName
  cases hi : G.indexLookup a with
  | none => rw [hi] at h; cases h
  | some i => rfl

theorem qsum_eq (xs : List Q) : qsum xs = qsumS xs := by
  unfold qsum qsumS; rw [foldl_add_eq]; unfold qsumS; grind

/-! ### allowed-field checks and lists of mappings -/

theorem checkAllowed_ok (d : Obj) (allowed : List String) (h : ∀ k ∈ Obj.keys d, k ∈ allowed) :
    checkAllowed d allowed = .ok () := by
  unfold checkAllowed
  apply forM_ok
  intro kv hkv
  have : allowed.contains kv.1 = true :=
    List.contains_iff_mem.2 (h kv.1 (List.mem_map_of_mem hkv))
  simp only [this, if_true]; rfl

theorem mapM_instObj {α} (f : α → Value) (o : α → Obj) (hf : ∀ x, f x = .obj (o x)) (l : List α) :
    (l.map f).mapM instObj = .ok (l.map o) :=
  mapM_map_ok _ _ _ _ (fun x _ => by rw [hf]; rfl)

end Demes.Proofs.Asdict
