/-
  C08, time 0 — what `-es` / `-ej` at time 0 leave in the Builder state.  A `-ej` at time 0 gives a
  deme `start_time = 0`; a `-es` at time 0 that moves lineages gives a pulse at time 0.  Either is a
  `ZeroMark`: it survives the rest of the event loop and the finishing steps, and `resolve` rejects
  the document (a deme's `start_time` and a pulse's `time` must be positive).  No Spec-side
  hypothesis: this is about `from_ms` alone.
-/
import DemesVerif.Proofs.FromMsApplyFinal
namespace Demes.Proofs.FromMs
open Demes Demes.Ms Demes.Spec Demes.Spec.MsSem Demes.Spec.C08

/-- a pulse at time 0, or a joined population whose deme starts at time 0 -/
def ZeroMark (s : BState) : Prop :=
  (∃ p ∈ s.pulses.getD [], p.time = 0) ∨
  (∃ (j : Nat) (d : BDeme), s.demes[j]? = some d ∧ d.startTime = .fin 0 ∧ s.joined.contains j = true)

/-- every joined population has a deme -/
def JLt (s : BState) : Prop := ∀ j, s.joined.contains j = true → j < s.demes.length

/-! ## one option -/

theorem stepEvent_jlt {N0 time : Q} {s s' : BState} {g g' : GState} {ev : Event Num}
    (hj : JLt s) (hm : stepEvent N0 time (s, g) ev = .ok (s', g')) : JLt s' := by
  by_cases hsp : isSplit ev = true
  · cases ev with
    | split o t i p =>
      rw [stepEvent_split] at hm
      obtain ⟨pid, _, hm⟩ := RV.bind_ok.1 hm
      obtain ⟨q, _, hm⟩ := RV.bind_ok.1 hm
      split at hm
      · exact (assertionErr_bind_ok.1 hm).elim
      · cases hm
        intro j hjj
        have := hj j hjj
        show j < (s.demes ++ [newDeme N0 time s.numDemes]).length
        rw [List.length_append]; omega
    | _ => cases hsp
  · have hsp' : isSplit ev = false := by simpa using hsp
    by_cases hjo : isJoinEv ev = true
    · cases ev with
      | join o t i j =>
        rw [stepEvent_join] at hm
        obtain ⟨popI, hI, hm⟩ := RV.bind_ok.1 hm
        obtain ⟨popJ, hJ, hm⟩ := RV.bind_ok.1 hm
        obtain ⟨s1, h1, hm⟩ := RV.bind_ok.1 hm
        cases hm
        obtain ⟨d, d', hd, hfd, rfl⟩ := modifyDeme_ok h1
        obtain ⟨f1, _, f3, _⟩ := joinMatrix_frame { s with demes := s.demes.set popI d' } time popI
        intro k hk
        show k < (joinMatrix { s with demes := s.demes.set popI d' } time popI).demes.length
        rw [f1]
        show k < (s.demes.set popI d').length
        rw [List.length_set]
        have hk' : ((joinMatrix { s with demes := s.demes.set popI d' } time popI).joined ++ [popI]).contains k = true := hk
        rw [f3, contains_append_single] at hk'
        rcases Bool.or_eq_true_iff.mp hk' with hk' | hk'
        · exact hj k hk'
        · have : k = popI := of_decide_eq_true hk'
          rw [this]
          exact (List.getElem?_eq_some_iff.mp hd).1
      | _ => cases hjo
    · have hjo' : isJoinEv ev = false := by simpa using hjo
      obtain ⟨f1, _, f3, _⟩ := stepEvent_nonmove_frame hsp' hjo' hm
      intro k hk
      rw [f1] at hk
      rw [f3]
      exact hj k hk

theorem stepEvent_zeroMark {N0 time : Q} {s s' : BState} {g g' : GState} {ev : Event Num}
    (hj : JLt s) (hz : ZeroMark s) (hm : stepEvent N0 time (s, g) ev = .ok (s', g')) : ZeroMark s' := by
  obtain ⟨hp, hd⟩ := stepEvent_joined hj hm
  rcases hz with ⟨p, hpm, ht⟩ | ⟨j, d, hjd, hst, hjj⟩
  · exact Or.inl ⟨p, by rw [hp]; exact hpm, ht⟩
  · obtain ⟨a, b⟩ := hd j hjj
    exact Or.inr ⟨j, d, by rw [b]; exact hjd, hst, a⟩

/-- `-ej` at time 0 -/
theorem stepEvent_join_zero {N0 : Q} {s s' : BState} {g g' : GState} {o : String} {t : Num} {i j : Int}
    (hm : stepEvent N0 0 (s, g) (.join o t i j) = .ok (s', g')) : ZeroMark s' := by
  rw [stepEvent_join] at hm
  obtain ⟨popI, hI, hm⟩ := RV.bind_ok.1 hm
  obtain ⟨popJ, hJ, hm⟩ := RV.bind_ok.1 hm
  obtain ⟨s1, h1, hm⟩ := RV.bind_ok.1 hm
  cases hm
  obtain ⟨d, d', hd, hfd, rfl⟩ := modifyDeme_ok h1
  obtain ⟨f1, _, f3, _⟩ := joinMatrix_frame { s with demes := s.demes.set popI d' } 0 popI
  have hlt : popI < s.demes.length := (List.getElem?_eq_some_iff.mp hd).1
  refine Or.inr ⟨popI, d', ?_, ?_, ?_⟩
  · show (joinMatrix { s with demes := s.demes.set popI d' } 0 popI).demes[popI]? = some d'
    rw [f1]
    show (s.demes.set popI d')[popI]? = some d'
    rw [List.getElem?_set]; simp [hlt]
  · rw [joinDeme_ok hfd]
  · show ((joinMatrix { s with demes := s.demes.set popI d' } 0 popI).joined ++ [popI]).contains popI = true
    rw [contains_append_single]; simp

/-! ## the options of one group, `applyParams`, all groups -/

theorem events_zeroMark {N0 time : Q} : ∀ (evs : List (Event Num)) {s s' : BState} {g g' : GState},
    JLt s → evs.foldlM (stepEvent N0 time) (s, g) = .ok (s', g') →
    JLt s' ∧ (ZeroMark s → ZeroMark s') ∧ (time = 0 → (∃ e ∈ evs, isJoinEv e = true) → ZeroMark s') := by
  intro evs
  induction evs with
  | nil =>
    intro s s' g g' hj hm
    cases hm
    exact ⟨hj, id, fun _ ⟨e, he, _⟩ => by cases he⟩
  | cons e evs ih =>
    intro s s' g g' hj hm
    rw [List.foldlM_cons] at hm
    obtain ⟨⟨s1, g1⟩, h1, hm⟩ := RV.bind_ok.1 hm
    have hj1 := stepEvent_jlt hj h1
    obtain ⟨a1, a2, a3⟩ := ih hj1 hm
    refine ⟨a1, fun hz => a2 (stepEvent_zeroMark hj hz h1), ?_⟩
    intro ht ⟨x, hx, hxj⟩
    rcases List.mem_cons.mp hx with rfl | hx
    · apply a2
      cases x with
      | join o t i j => subst ht; exact stepEvent_join_zero h1
      | _ => cases hxj
    · exact a3 ht ⟨x, hx, hxj⟩

theorem apFold_joined (time : Q) (g : GState) : ∀ (ps : List (Nat × Nat × Q)) (s : BState),
    (ps.foldl (apStep time g) s).joined = s.joined := by
  intro ps
  induction ps with
  | nil => intro s; rfl
  | cons e ps ih =>
    intro s
    rw [List.foldl_cons, ih, apStep_cases]
    split
    · rfl
    · split <;> rfl

theorem applyParams_zeroMark (time : Q) (s : BState) (g : GState) :
    (JLt s → JLt (applyParams time s g)) ∧ (ZeroMark s → ZeroMark (applyParams time s g)) := by
  rw [applyParams_eq]
  obtain ⟨a1, _, a3, a4⟩ := apFold time g g.params s
  have a5 := apFold_joined time g g.params s
  constructor
  · intro hj k hk
    rw [a5] at hk
    rw [a3]
    exact hj k hk
  · rintro (⟨p, hp, ht⟩ | ⟨j, d, hd, hst, hjj⟩)
    · exact Or.inl ⟨p, by rw [a1]; exact List.mem_append_left _ hp, ht⟩
    · refine Or.inr ⟨j, _, a4 j d hd, ?_, by rw [a5]; exact hjj⟩
      split
      · exact hst
      · exact hst

theorem stepGroup_zeroMark {N0 : Q} {s s' : BState} {group : List (Event Num)}
    (hj : JLt s) (h : Ms.stepGroup N0 s group = .ok s') :
    JLt s' ∧ (ZeroMark s → ZeroMark s') ∧
    ((group.head?.map Event.t).getD (.fin 0) = .fin 0 → (∃ e ∈ group, isJoinEv e = true) → ZeroMark s') := by
  obtain ⟨t, s1, g1, ht, hfold, rfl⟩ := stepGroup_ok h
  obtain ⟨a1, a2, a3⟩ := events_zeroMark group hj hfold
  obtain ⟨b1, b2⟩ := applyParams_zeroMark (4 * N0 * t) s1 g1
  refine ⟨b1 a1, fun hz => b2 (a2 hz), ?_⟩
  intro h0 hex
  rw [h0] at ht
  have : t = 0 := by
    have := finArg_ok ht
    injection this with this
    exact this.symm
  apply b2
  apply a3 _ hex
  rw [this]
  exact Rat.mul_zero _

theorem groups_zeroMark {N0 : Q} : ∀ (groups : List (List (Event Num))) {s s' : BState},
    JLt s → groups.foldlM (Ms.stepGroup N0) s = .ok s' →
    JLt s' ∧ (ZeroMark s → ZeroMark s') ∧
    ((∃ gr ∈ groups, (gr.head?.map Event.t).getD (.fin 0) = .fin 0 ∧ ∃ e ∈ gr, isJoinEv e = true) → ZeroMark s') := by
  intro groups
  induction groups with
  | nil =>
    intro s s' hj hm
    cases hm
    exact ⟨hj, id, fun ⟨gr, hgr, _⟩ => by cases hgr⟩
  | cons gr groups ih =>
    intro s s' hj hm
    rw [List.foldlM_cons] at hm
    obtain ⟨s1, h1, hm⟩ := RV.bind_ok.1 hm
    obtain ⟨a1, a2, a3⟩ := stepGroup_zeroMark hj h1
    obtain ⟨b1, b2, b3⟩ := ih a1 hm
    refine ⟨b1, fun hz => b2 (a2 hz), ?_⟩
    rintro ⟨x, hx, hx0, hxj⟩
    rcases List.mem_cons.mp hx with rfl | hx
    · exact b2 (a3 hx0 hxj)
    · exact b3 ⟨x, hx, hx0, hxj⟩

/-! ## the groups of the command -/

theorem numEq_imp_eq {a b : Num} (h : numEq a b = true) : a = b := by
  cases a <;> cases b <;> simp [numEq] at h ⊢
  exact h

/-- the options of one `groupby` group have the same time -/
theorem sameT_group {l : List (Event Num)} {gr : List (Event Num)} (hg : gr ∈ l.splitBy sameT) :
    ∀ x ∈ gr, ∀ y ∈ gr, x.t = y.t := by
  have hc := List.isChain_of_mem_splitBy hg
  have hpw : gr.Pairwise (fun x y => x.t = y.t) := by
    clear hg
    induction gr with
    | nil => exact List.Pairwise.nil
    | cons a r ih =>
      have hr : List.IsChain (fun x y => sameT x y = true) r := hc.tail
      refine List.pairwise_cons.mpr ⟨?_, ih hr⟩
      have hall : ∀ (r : List (Event Num)) (a : Event Num), List.IsChain (fun x y => sameT x y = true) (a :: r) →
          ∀ b ∈ r, a.t = b.t := by
        intro r
        induction r with
        | nil => intro a _ b hb; cases hb
        | cons c r ihr =>
          intro a hc b hb
          rw [List.isChain_cons_cons] at hc
          have hac : a.t = c.t := numEq_imp_eq hc.1
          rcases List.mem_cons.mp hb with rfl | hb
          · exact hac
          · rw [hac]; exact ihr c hc.2 b hb
      exact hall r a hc
  intro x hx y hy
  rcases List.mem_iff_getElem.mp hx with ⟨i, hi, rfl⟩
  rcases List.mem_iff_getElem.mp hy with ⟨j, hj, rfl⟩
  rcases Nat.lt_trichotomy i j with h | h | h
  · exact List.pairwise_iff_getElem.mp hpw i j hi hj h
  · subst h; rfl
  · exact (List.pairwise_iff_getElem.mp hpw j i hj hi h).symm

theorem initState_jlt (args : Args) (N0 : Q) : JLt (initState args N0) := by
  intro j hj
  cases hj

/-- the invariants at the end of the event loop -/
theorem buildState_zeroMark {args : Args} {N0 : Q} {s : BState} (h : buildState args N0 = .ok s) :
    JLt s ∧ ((∃ gr ∈ eventGroups args, (gr.head?.map Event.t).getD (.fin 0) = .fin 0 ∧ ∃ e ∈ gr, isJoinEv e = true) →
      ZeroMark s) := by
  unfold buildState at h
  split at h
  · exact (RV.valueErr_bind_ok.1 h).elim
  · obtain ⟨_, _, h⟩ := RV.bind_ok.1 h
    obtain ⟨a1, _, a3⟩ := groups_zeroMark (eventGroups args) (initState_jlt args N0) h
    exact ⟨a1, a3⟩

/-- **an `-ej` at time 0 marks the final Builder state** -/
theorem buildState_join_zero {args : Args} {N0 : Q} {s : BState} (h : buildState args N0 = .ok s)
    (hj : ∃ e ∈ args.demographicEvents, isJoinEv e = true ∧ e.t = .fin 0) : ZeroMark s := by
  obtain ⟨e, he, hej, het⟩ := hj
  apply (buildState_zeroMark h).2
  have hmem : e ∈ (eventGroups args).flatten := by
    unfold eventGroups
    rw [List.flatten_splitBy]
    exact List.mem_append_right _ ((sortBy_mem _ _ _).mpr he)
  obtain ⟨gr, hgr, heg⟩ := List.mem_flatten.mp hmem
  refine ⟨gr, hgr, ?_, e, heg, hej⟩
  cases gr with
  | nil => cases heg
  | cons a r =>
    simp only [List.head?_cons, Option.map_some, Option.getD_some]
    rw [sameT_group hgr a (List.mem_cons_self ..) e heg, het]

/-! ## `resolve` rejects a marked state -/

/-- a graph that `from_ms` returns comes from an unmarked Builder state -/
theorem not_zeroMark_of_ok {c : List String} {N0 : Q} {mg : MsGraph} {args : Args} {s : BState}
    (h : fromMs c N0 none = .ok mg) (hargs : parseKnownArgs c = .ok args)
    (hs : buildState args N0 = .ok s) : ¬ ZeroMark s := by
  obtain ⟨args', s', hargs', hs', hf⟩ := fromMs_buildState h
  rw [hargs] at hargs'
  cases hargs'
  rw [hs] at hs'
  cases hs'
  obtain ⟨_, _, hb⟩ := fromMs_none_ok h
  have hres := (buildGraph_ok hb).2.2
  have hn := buildState_names hs
  obtain ⟨hperm, _, hP, _⟩ := graph_state_views hf hres hn
  have hv := fromMs_valid h
  simp only [validGraph, validData, Bool.and_eq_true] at hv
  have hv3 : v3 mg.graph = true := hv.2.1.1.1.1.1.1.1.1.1.2
  have hv11 : v11 mg.graph = true := hv.2.1.1.2
  rintro (⟨p, hp, ht⟩ | ⟨j, d, hd, hst, _⟩)
  · -- a pulse at time 0
    have hmem : bp2p p ∈ ((s.pulses.getD []).filter (fun p => decide (p.time = 0))).map bp2p :=
      List.mem_map.mpr ⟨p, List.mem_filter.mpr ⟨hp, by simpa using ht⟩, rfl⟩
    rw [← hP 0, List.mem_reverse] at hmem
    have hg := (List.mem_filter.mp hmem).1
    unfold v11 at hv11
    rw [List.all_eq_true] at hv11
    have := hv11 _ hg
    simp only [Bool.and_eq_true, decide_eq_true_eq] at this
    have hpos : (0 : Q) < (bp2p p).time := this.1.2
    have : (bp2p p).time = 0 := ht
    rw [this] at hpos
    exact Rat.lt_irrefl hpos
  · -- a deme that starts at time 0
    have hdm : d ∈ s.demes := List.mem_of_getElem? hd
    have hnt : nonTransient d = true := by
      unfold nonTransient; rw [hst]; simp
    have hmem : viewB d ∈ mg.graph.demes.map viewG :=
      hperm.symm.subset (List.mem_map.mpr ⟨d, List.mem_filter.mpr ⟨hdm, hnt⟩, rfl⟩)
    obtain ⟨D, hD, e⟩ := List.mem_map.mp hmem
    have hDs : D.startTime = .fin 0 := by
      have : (viewG D).startTime = (viewB d).startTime := by rw [e]
      exact this.trans hst
    unfold v3 at hv3
    rw [List.all_eq_true] at hv3
    have := hv3 D hD
    simp only [Bool.and_eq_true, decide_eq_true_eq] at this
    have hpos : ETime.fin 0 < D.startTime := this.2
    rw [hDs] at hpos
    exact Rat.lt_irrefl hpos

/-- **`from_ms` rejects every command with an `-ej` at time 0** (without `deme_names`) -/
theorem fromMs_rejects_join_at_zero_none {c : List String} {N0 : Q} {args : Args}
    (hargs : parseKnownArgs c = .ok args)
    (hj : ∃ e ∈ args.demographicEvents, isJoinEv e = true ∧ e.t = .fin 0) :
    ∃ err, fromMs c N0 none = .error err := by
  cases h : fromMs c N0 none with
  | error err => exact ⟨err, rfl⟩
  | ok mg =>
    obtain ⟨args', s, hargs', hs, _⟩ := fromMs_buildState h
    rw [hargs] at hargs'
    cases hargs'
    exact (not_zeroMark_of_ok h hargs hs (buildState_join_zero hs hj)).elim

end Demes.Proofs.FromMs
