/-
  C09, round trip: transfer of `popEquiv` to sizes at every time.

  * `graphSem_tiles`: the populations of the demography of a valid graph tile their lifetimes
    (`Tiles`) and carry no explicit growth rate;
  * `sizeAt_of_popEquiv`: two populations that are `popEquiv` (agreement at the cut points only)
    and tile their lifetimes have the same size at every time of the lifetime.
-/
import DemesVerif.Proofs.MsRTDefs
import DemesVerif.Proofs.FromMsPostSem
import DemesVerif.Proofs.FromMsPostPop
import DemesVerif.Proofs.FromMsSizes
import Mathlib.Tactic.Ring
namespace Demes.Proofs.MsRT.Tr
open Demes Demes.Ms Demes.Spec Demes.Spec.MsSem Demes.Spec.C08 Demes.Spec.C09
open Demes.Proofs.MsRT
open Demes.Proofs.FromMs (graphSemWith_parts graphPop smapM_pointwise sortKey_perm segOwns_iff
  mulExp_mulExp mulExp_neg_zero sbind_ok spure_ok)

/-! ## `Tiles` -/

theorem tiles_single (s : Seg) (h : ETime.fin s.t0 < s.t1) : Tiles s.t0 [s] s.t1 := by
  refine ⟨rfl, h, ?_⟩
  cases hb : s.t1 with
  | fin b => exact rfl
  | inf => exact ⟨rfl, rfl⟩

theorem tiles_append : ∀ {A : List Seg} {lo b : Q} {B : List Seg} {hi : ETime},
    Tiles lo A (.fin b) → Tiles b B hi → Tiles lo (A ++ B) hi
  | [], lo, b, B, hi, hA, hB => by
    have : ETime.fin b = .fin lo := hA
    injection this with this
    subst this
    exact hB
  | a :: r, lo, b, B, hi, hA, hB => by
    obtain ⟨h1, h2, h3⟩ := hA
    refine ⟨h1, h2, ?_⟩
    cases hb : a.t1 with
    | inf =>
      rw [hb] at h3
      exact absurd h3.2 (by intro h; cases h)
    | fin c =>
      rw [hb] at h3
      exact tiles_append (A := r) h3 hB

theorem tiles_lower : ∀ {A : List Seg} {lo : Q} {hi : ETime}, Tiles lo A hi → ∀ s ∈ A, lo ≤ s.t0
  | [], _, _, _, s, hs => by cases hs
  | a :: r, lo, hi, h, s, hs => by
    obtain ⟨h1, h3, h4⟩ := h
    rcases List.mem_cons.mp hs with rfl | hs
    · rw [h1]
    · cases hb : a.t1 with
      | inf => rw [hb] at h4; rw [h4.1] at hs; cases hs
      | fin b =>
        rw [hb] at h3 h4
        have := tiles_lower h4 s hs
        have h3' : lo < b := h3
        grind

/-- inside the lifetime exactly one segment of a tiling owns a time -/
theorem tiles_owner : ∀ {A : List Seg} {lo : Q} {hi : ETime} {t : Q}, Tiles lo A hi → lo ≤ t → ETime.fin t < hi →
    ∃ sa, A.filter (segOwns · t) = [sa] ∧ sa ∈ A ∧ sa.t0 ≤ t ∧ ETime.fin t < sa.t1
  | [], lo, hi, t, h, h1, h2 => by
    have h' : hi = .fin lo := h
    rw [h'] at h2
    have : t < lo := h2
    grind
  | a :: r, lo, hi, t, h, hlo, hhi => by
    obtain ⟨h1, h3, h4⟩ := h
    by_cases hown : ETime.fin t < a.t1
    · have ho : segOwns a t = true := (segOwns_iff a t).mpr ⟨by rw [h1]; exact hlo, hown⟩
      refine ⟨a, ?_, List.mem_cons_self .., by rw [h1]; exact hlo, hown⟩
      rw [List.filter_cons, if_pos ho]
      congr 1
      apply List.filter_eq_nil_iff.mpr
      intro s hs hso
      obtain ⟨hs1, _⟩ := (segOwns_iff s t).mp hso
      cases hb : a.t1 with
      | inf => rw [hb] at h4; rw [h4.1] at hs; cases hs
      | fin b =>
        rw [hb] at h4 hown
        have := tiles_lower h4 s hs
        have : t < b := hown
        grind
    · cases hb : a.t1 with
      | inf => rw [hb] at hown; exact absurd trivial hown
      | fin b =>
        rw [hb] at hown h4
        have hbt : b ≤ t := by
          have : ¬ t < b := hown
          grind
        obtain ⟨sa, e1, e2, e3, e4⟩ := tiles_owner h4 hbt hhi
        have ho : segOwns a t = false := by
          cases hq : segOwns a t with
          | false => rfl
          | true =>
            have := ((segOwns_iff a t).mp hq).2
            rw [hb] at this
            exact absurd this hown
        refine ⟨sa, ?_, List.mem_cons_of_mem _ e2, e3, e4⟩
        rw [List.filter_cons, ho]
        exact e1

/-! ## the demography of a valid graph -/

/-- the segment `graphSem` shows for an epoch -/
def eSeg (sz : Q → Sz) (e : Epoch) : Seg :=
  { t0 := e.endTime, t1 := e.startTime, size := sz e.endSize, growth := none,
    sizeOld := some (sz e.startSize), fn := e.sizeFunction }

theorem contiguous_tiles (sz : Q → Sz) : ∀ (es : List Epoch) (start : ETime), contiguous start es = true → es ≠ [] →
    Tiles ((es.getLast?.map (·.endTime)).getD 0) (es.reverse.map (eSeg sz)) start
  | [], _, _, hne => absurd rfl hne
  | e :: es, start, h, _ => by
    unfold contiguous at h
    simp only [Bool.and_eq_true, decide_eq_true_eq, beq_iff_eq] at h
    obtain ⟨⟨hs, hlt⟩, hc⟩ := h
    have hsingle : Tiles e.endTime [eSeg sz e] start := by
      have := tiles_single (eSeg sz e) hlt
      rw [← hs]
      exact this
    cases hes : es with
    | nil => exact hsingle
    | cons e' r =>
      have hne : es ≠ [] := by rw [hes]; exact List.cons_ne_nil _ _
      have ih := contiguous_tiles sz es (.fin e.endTime) hc hne
      rw [← hes, List.getLast?_cons, List.reverse_cons, List.map_append]
      have hl : (es.getLast?.getD e) ∈ es.getLast? := by
        cases hq : es.getLast? with
        | none => exact absurd (List.getLast?_eq_none_iff.mp hq) hne
        | some x => rfl
      have : (Option.map (fun x => x.endTime) (some (es.getLast?.getD e))).getD 0
          = (Option.map (fun x => x.endTime) es.getLast?).getD 0 := by
        cases hq : es.getLast? with
        | none => exact absurd (List.getLast?_eq_none_iff.mp hq) hne
        | some x => rfl
      rw [this]
      exact tiles_append ih hsingle

theorem mapM_mem {α β} {f : α → Except String β} {l : List α} {l' : List β} (h : l.mapM f = .ok l') :
    ∀ y ∈ l', ∃ x ∈ l, f x = .ok y := by
  obtain ⟨hl, hi⟩ := smapM_pointwise h
  intro y hy
  obtain ⟨i, hlt, hiy⟩ := List.getElem_of_mem hy
  have hlt' : i < l.length := by rw [← hl]; exact hlt
  obtain ⟨d', hd', hf⟩ := hi i l[i] (List.getElem?_eq_getElem hlt')
  rw [List.getElem?_eq_getElem hlt] at hd'
  injection hd' with hd'
  exact ⟨l[i], List.getElem_mem hlt', by rw [hf, ← hd', hiy]⟩

/-- the populations of the demography of a valid graph tile their lifetimes, and carry no explicit growth -/
theorem graphSem_tiles {sz : Q → Demes.Ms.Sz} {g : Graph} {names : Option (List String)} {D : Demes.Spec.MsSem.DemogSem}
    (hv : Demes.Spec.validGraph g = true) (h : Demes.Spec.MsSem.graphSemWith sz g names = .ok D) :
    ∀ p ∈ D.pops, Tiles p.lo p.segs p.hi ∧ ∀ s ∈ p.segs, s.growth = none := by
  obtain ⟨pops0, _, hp0, hpops, _, _⟩ := graphSemWith_parts h
  have h5 := (Demes.Proofs.validGraph_clauses hv).2.2.2.2.2.1
  intro p hp
  rw [hpops] at hp
  obtain ⟨x, hx, rfl⟩ := List.mem_map.mp hp
  have hx' := (sortKey_perm _).mem_iff.mp hx
  obtain ⟨p', hp', rfl⟩ := List.mem_map.mp hx'
  obtain ⟨d, hd, hgp⟩ := mapM_mem hp0 p' hp'
  unfold graphPop at hgp
  obtain ⟨id, _, hgp⟩ := sbind_ok.1 hgp
  rw [spure_ok] at hgp
  subst hgp
  unfold v5 at h5
  have h5d := List.all_eq_true.mp h5 d hd
  simp only [Bool.and_eq_true, Bool.not_eq_true', List.isEmpty_eq_false_iff] at h5d
  refine ⟨?_, ?_⟩
  · exact contiguous_tiles sz d.epochs d.startTime h5d.2 h5d.1
  · intro s hs
    obtain ⟨e, _, rfl⟩ := List.mem_map.mp hs
    rfl

/-- non-vacuity: the example graph is valid and has a demography with two populations -/
example : validGraph Demes.Proofs.exampleGraph = true
    ∧ (graphSemWith Sz.ofQ Demes.Proofs.exampleGraph none).toOption.map (fun D => D.pops.map (fun p => (p.lo, p.hi, p.segs.length)))
        = some [(0, .inf, 1), (0, .fin 40, 1)] := by
  decide +kernel

/-! ## from the cut points to every time -/

/-- the value of a segment at `t` from its value at an earlier time `c` of the segment -/
theorem segValue_extrap {s : Seg} {g c t : Q} (hr : segRate s = some g) (h1 : s.t0 ≤ c) (h2 : c ≤ t) :
    segValue s t = (segValue s c).map (fun v => v.mulExp (-g * (t - c))) := by
  unfold segValue
  rw [hr]
  by_cases ht : t = s.t0
  · have hc : c = s.t0 := by grind
    rw [if_pos ht, if_pos hc, ht, hc]
    simp only [Option.map_some]
    rw [mulExp_neg_zero]
  · rw [if_neg ht]
    by_cases hc : c = s.t0
    · rw [if_pos hc, hc]
      rfl
    · rw [if_neg hc]
      simp only [Option.map_some]
      rw [mulExp_mulExp]
      congr 2
      ring

theorem max_cases (x y : Q) : (max x y = x ∧ y ≤ x) ∨ (max x y = y ∧ x ≤ y) := by
  by_cases h : x ≤ y
  · exact Or.inr ⟨by grind, h⟩
  · exact Or.inl ⟨by grind, by grind⟩

/-- two populations that are `popEquiv` and tile their lifetimes have the same size at EVERY time of the lifetime -/
theorem sizeAt_of_popEquiv (a r : Demes.Spec.MsSem.PopSem) (he : Demes.Spec.C08.popEquiv a r = true)
    (ha : Tiles a.lo a.segs a.hi) (hr : Tiles r.lo r.segs r.hi) :
    ∀ t, r.lo ≤ t → ETime.fin t < r.hi → Demes.Spec.C09.sizeAt a t = Demes.Spec.C09.sizeAt r t := by
  intro t hlo hhi
  unfold popEquiv at he
  simp only [Bool.and_eq_true, decide_eq_true_eq, List.all_eq_true] at he
  obtain ⟨⟨⟨_, elo⟩, ehi⟩, hall⟩ := he
  -- the owners of `t`
  obtain ⟨sa, fa, ma, a1, a2⟩ := tiles_owner (t := t) ha (by rw [elo]; exact hlo) (by rw [ehi]; exact hhi)
  obtain ⟨sr, fr, mr, r1, r2⟩ := tiles_owner (t := t) hr hlo hhi
  have la := tiles_lower ha sa ma
  have lr := tiles_lower hr sr mr
  rw [elo] at la
  -- the cut point
  have hex : ∃ c, c ∈ cuts a r ∧ sa.t0 ≤ c ∧ sr.t0 ≤ c ∧ c ≤ t ∧ r.lo ≤ c := by
    have hin : ∀ c, (c = sa.t0 ∨ c = sr.t0) → r.lo ≤ c → c ≤ t → c ∈ cuts a r := by
      intro c hc hl ht
      unfold cuts
      apply List.mem_cons_of_mem
      apply List.mem_filter.mpr
      refine ⟨?_, ?_⟩
      · apply List.mem_append.mpr
        rcases hc with rfl | rfl
        · exact Or.inl (List.mem_map.mpr ⟨sa, ma, rfl⟩)
        · exact Or.inr (List.mem_map.mpr ⟨sr, mr, rfl⟩)
      · simp only [Bool.and_eq_true, decide_eq_true_eq]
        refine ⟨hl, ?_⟩
        cases hh : r.hi with
        | inf => trivial
        | fin b =>
          rw [hh] at hhi
          have : t < b := hhi
          show c < b
          grind
    rcases max_cases sa.t0 sr.t0 with ⟨_, hle⟩ | ⟨_, hle⟩
    · exact ⟨sa.t0, hin _ (Or.inl rfl) la a1, Rat.le_refl, hle, a1, la⟩
    · exact ⟨sr.t0, hin _ (Or.inr rfl) lr r1, hle, Rat.le_refl, r1, lr⟩
  obtain ⟨c, hc, ca, cr, ct, cl⟩ := hex
  have lt_c : ∀ {x : ETime}, ETime.fin t < x → ETime.fin c < x := by
    intro x hx
    cases x with
    | inf => trivial
    | fin b =>
      have : t < b := hx
      show c < b
      grind
  -- the owners of `c` are the owners of `t`
  have fa' : a.segs.filter (segOwns · c) = [sa] := by
    obtain ⟨s', f', _, _, _⟩ := tiles_owner (t := c) ha (by rw [elo]; exact cl) (by rw [ehi]; exact lt_c hhi)
    have : sa ∈ a.segs.filter (segOwns · c) :=
      List.mem_filter.mpr ⟨ma, (segOwns_iff sa c).mpr ⟨ca, lt_c a2⟩⟩
    rw [f'] at this
    rw [f', List.mem_singleton.mp this]
  have fr' : r.segs.filter (segOwns · c) = [sr] := by
    obtain ⟨s', f', _, _, _⟩ := tiles_owner (t := c) hr cl (lt_c hhi)
    have : sr ∈ r.segs.filter (segOwns · c) :=
      List.mem_filter.mpr ⟨mr, (segOwns_iff sr c).mpr ⟨cr, lt_c r2⟩⟩
    rw [f'] at this
    rw [f', List.mem_singleton.mp this]
  have hcut := hall c hc
  rw [fa', fr'] at hcut
  simp only [Bool.and_eq_true, decide_eq_true_eq] at hcut
  obtain ⟨⟨⟨_, hval⟩, hsome⟩, hrate⟩ := hcut
  obtain ⟨g, hg⟩ := Option.isSome_iff_exists.mp hsome
  unfold C09.sizeAt
  rw [fa, fr]
  show segValue sa t = segValue sr t
  rw [segValue_extrap hg ca ct, segValue_extrap (hrate ▸ hg) cr ct, hval]

/-- an ms-side population cut at time 10 -/
def exA : PopSem :=
  { id := 1, lo := 0, hi := .inf,
    segs := [{ t0 := 0, t1 := .fin 10, size := Sz.ofQ 100, growth := some 0, sizeOld := some (Sz.ofQ 100), fn := "" },
             { t0 := 10, t1 := .inf, size := Sz.ofQ 100, growth := some 0, sizeOld := some (Sz.ofQ 100), fn := "" }] }

/-- the graph-side population with a single constant epoch -/
def exR : PopSem :=
  { id := 1, lo := 0, hi := .inf,
    segs := [{ t0 := 0, t1 := .inf, size := Sz.ofQ 100, growth := none, sizeOld := some (Sz.ofQ 100), fn := "constant" }] }

/-- non-vacuity: two differently cut populations that are `popEquiv` and tile their lifetimes -/
example : popEquiv exA exR = true ∧ Tiles exA.lo exA.segs exA.hi ∧ Tiles exR.lo exR.segs exR.hi :=
  ⟨by decide +kernel, ⟨rfl, by decide +kernel, rfl, by decide +kernel, rfl, rfl⟩, ⟨rfl, by decide +kernel, rfl, rfl⟩⟩

example : C09.sizeAt exA 25 = C09.sizeAt exR 25 :=
  sizeAt_of_popEquiv exA exR (by decide +kernel)
    ⟨rfl, by decide +kernel, rfl, by decide +kernel, rfl, rfl⟩ ⟨rfl, by decide +kernel, rfl, rfl⟩ 25 (by decide +kernel) trivial

#print axioms graphSem_tiles
#print axioms sizeAt_of_popEquiv

end Demes.Proofs.MsRT.Tr
