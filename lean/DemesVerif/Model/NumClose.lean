/-
  Further vocabulary of the translator (harness/extract_tables.py, groups "GuardsClose",
  "GuardsViews", "GuardsIO"): what `math.isclose`, `+` and `sum` mean on document numbers.
  Nothing of the Model proper depends on this file; the generated files and
  `Theorems/TablesGuards*.lean` do.
-/
import DemesVerif.Model.NumGuards
namespace Demes
namespace Num

/-- `math.isclose(a, b, rel_tol=r, abs_tol=t)` for finite tolerances `r`, `t` (the Model never passes
others): `a == b`, or both finite and `|a-b| <= max(r*max(|a|,|b|), t)`.  Equal infinities are close;
an infinity is close to nothing else; NaN is close to nothing. -/
def isclose : Num → Num → Num → Num → Bool
  | fin a, fin b, fin r, fin t => iscloseQ a b r t
  | pinf, pinf, _, _ => true
  | ninf, ninf, _, _ => true
  | _, _, _, _ => false

/-- IEEE `+` -/
def add : Num → Num → Num
  | nan, _ => nan
  | _, nan => nan
  | pinf, ninf => nan
  | ninf, pinf => nan
  | pinf, _ => pinf
  | _, pinf => pinf
  | ninf, _ => ninf
  | _, ninf => ninf
  | fin a, fin b => fin (a + b)

/-- Python's `sum(xs)`: `0 + x₁ + x₂ + …` from the left -/
def pysum (xs : List Num) : Num := xs.foldl add (fin 0)

/-- Python's `==` on two lists of numbers: same length and elementwise IEEE `==` -/
def pyListEq : List Num → List Num → Bool
  | [], [] => true
  | a :: as, b :: bs => eqIEEE a b && pyListEq as bs
  | _, _ => false

end Num
end Demes
