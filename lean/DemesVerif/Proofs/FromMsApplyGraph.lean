/-
  C08, link C (movements) — the movement part of `graphSem`, time by time, on what `graphSem` looks
  at in demes and pulses (`DView`, `Pulse`); it only depends on the deme list up to a permutation
  that keeps the order of the demes with a common start time.
-/
import DemesVerif.Proofs.FromMsApplyFinish
namespace Demes.Proofs.FromMs
open Demes Demes.Ms Demes.Spec Demes.Spec.MsSem Demes.Spec.C08

def rowOfV (names : List String) (d : DView) : Except String (Nat × Row) := do
  let id ← popId names d.name
  pure (id, ([(id, (1 : Q))] : Row))

def pulseStepV (names : List String) (L : List (Nat × Row)) (p : Pulse) : Except String (List (Nat × Row)) := do
  let dest ← popId names p.dest
  let srcs ← p.sources.mapM (popId names)
  pure (pulseRows dest srcs p.proportions L)

def bornStepV (names : List String) (L : List (Nat × Row)) (d : DView) : Except String (List (Nat × Row)) := do
  let me ← popId names d.name
  let ancs ← d.ancestors.mapM (popId names)
  pure (bornRows me ancs d.proportions L)

def rowC (T : Q) (d : DView) : Bool := decide (d.endTime < T) && decide (ETime.fin T ≤ d.startTime)
def bornC (T : Q) (d : DView) : Bool := decide (d.startTime = ETime.fin T)

/-- the movement rows of time `T` from deme views and the pulses of time `T` in the order in which
they are applied -/
def viewMoves (names : List String) (T : Q) (dvs : List DView) (pvs : List Pulse) :
    Except String (List (Nat × Row)) := do
  let L0 ← (dvs.filter (rowC T)).mapM (rowOfV names)
  let L1 ← pvs.foldlM (pulseStepV names) L0
  (dvs.filter (bornC T)).foldlM (bornStepV names) L1

/-- the movement of time `T` as `graphSem` computes it -/
def graphMoveAt (names : List String) (g : Graph) (T : Q) : Except String Move := do
  let rowsD := g.demes.filter (fun d => decide (d.endTime < T) && decide (ETime.fin T ≤ d.startTime))
  let L0 ← rowsD.mapM (fun d => do let id ← popId names d.name; pure (id, ([(id, (1 : Q))] : Row)))
  let ps := (g.pulses.filter (fun p => p.time = T)).reverse
  let L1 ← ps.foldlM (fun (L : List (Nat × Row)) (p : Pulse) => do
    let dest ← popId names p.dest
    let srcs ← p.sources.mapM (popId names)
    let tot := p.proportions.foldl (· + ·) 0
    pure (L.map (fun (ir : Nat × Row) =>
      let m := ir.2.get dest
      if m = 0 then ir else
      (ir.1, (srcs.zip p.proportions).foldl (fun (r : Row) sp => r.add sp.1 (m * sp.2)) (ir.2.set dest (m * (1 - tot)))))) ) L0
  let born := g.demes.filter (fun d => d.startTime = ETime.fin T)
  let L2 ← born.foldlM (fun (L : List (Nat × Row)) (d : Deme) => do
    let me ← popId names d.name
    let ancs ← d.ancestors.mapM (popId names)
    pure (L.map (fun (ir : Nat × Row) =>
      let m := ir.2.get me
      if m = 0 then ir else
      (ir.1, (ancs.zip d.proportions).foldl (fun (r : Row) ap => r.add ap.1 (m * ap.2)) (ir.2.set me 0))))) L1
  pure ({ time := T, rows := canonRows L2 } : Move)

/-- the event times of a graph, increasing, as `graphSem` lists them -/
def graphTimes (g : Graph) : List Q :=
  ((g.pulses.map (·.time) ++ g.demes.filterMap (fun d => match d.startTime with | .fin t => some t | .inf => none)).foldr
    (fun t acc => if acc.contains t then acc else Demes.Ms.insertBy (fun a b => decide (a ≤ b)) t acc) [])

theorem graphMoveAt_eq (names : List String) (g : Graph) (T : Q) :
    graphMoveAt names g T = (viewMoves names T (g.demes.map viewG) ((g.pulses.filter (fun p => p.time = T)).reverse))
      >>= fun L => pure ({ time := T, rows := canonRows L } : Move) := by
  unfold graphMoveAt viewMoves
  simp only [List.filter_map, List.mapM_map, List.foldlM_map, bind_assoc]
  rfl

theorem groupMoves_view (names : List String) (T : Q) (demes : List BDeme) (pulses : List BPulse) :
    groupMoves names T demes pulses
      = viewMoves names T ((demes.filter nonTransient).map viewB) ((pulses.filter (fun p => p.time = T)).map bp2p) := by
  unfold groupMoves viewMoves
  simp only [List.filter_map, List.mapM_map, List.foldlM_map]
  rfl

/-- `graphSem` computes its movements with `graphMoveAt` at the times `graphTimes` -/
theorem graphSemWith_moves {sz : Q → Sz} {g : Graph} {names : List String} {sem : DemogSem}
    (h : graphSemWith sz g (some names) = .ok sem) :
    ∃ ms, (graphTimes g).mapM (graphMoveAt names g) = .ok ms ∧ sem.moves = ms.filter (fun m => !m.rows.isEmpty) := by
  unfold graphSemWith at h
  obtain ⟨pops, _, h⟩ := sbind_ok.1 h
  obtain ⟨raw, _, h⟩ := sbind_ok.1 h
  obtain ⟨ms, hms, h⟩ := sbind_ok.1 h
  rw [spure_ok] at h
  subst h
  exact ⟨ms, hms, rfl⟩

theorem mapM_ok_of_forall {α β} {f : α → Except String β} : ∀ (l : List α), (∀ a ∈ l, ∃ b, f a = .ok b) →
    ∃ bs, l.mapM f = .ok bs := by
  intro l
  induction l with
  | nil => intro _; exact ⟨[], rfl⟩
  | cons a l ih =>
    intro h
    obtain ⟨b, hb⟩ := h a (List.mem_cons_self ..)
    obtain ⟨bs, hbs⟩ := ih (fun a' ha' => h a' (List.mem_cons_of_mem _ ha'))
    exact ⟨b :: bs, by rw [List.mapM_cons, hb, hbs]; rfl⟩

theorem bind_pure_ok {α β} {x : Except String α} {a : α} {F : α → β} (h : x = .ok a) :
    (x >>= fun m => pure (F m)) = .ok (F a) := by rw [h]; rfl

/-- conversely: if every deme and migration name is a population and the movements exist, the
demography of the graph exists and has these movements -/
theorem graphSemWith_ok {sz : Q → Sz} {g : Graph} {names : List String} {ms : List Move}
    (hd : ∀ d ∈ g.demes, ∃ i, popId names d.name = .ok i)
    (hm : ∀ m ∈ g.migrations, (∃ i, popId names m.dest = .ok i) ∧ ∃ j, popId names m.source = .ok j)
    (hms : (graphTimes g).mapM (graphMoveAt names g) = .ok ms) :
    ∃ sem, graphSemWith sz g (some names) = .ok sem ∧ sem.moves = ms.filter (fun m => !m.rows.isEmpty) := by
  unfold graphSemWith
  dsimp only [Option.getD_some]
  obtain ⟨pops, hpops⟩ := mapM_ok_of_forall g.demes (f := fun d => do
      let id ← popId names d.name
      let segs := d.epochs.reverse.map (fun (e : Epoch) =>
        ({ t0 := e.endTime, t1 := e.startTime, size := sz e.endSize, growth := none,
           sizeOld := some (sz e.startSize), fn := e.sizeFunction } : Seg))
      pure ({ id := id, lo := d.endTime, hi := d.startTime, segs := segs } : PopSem)) (by
    intro d hd'
    obtain ⟨i, hi⟩ := hd d hd'
    exact ⟨_, by rw [hi]; rfl⟩)
  obtain ⟨raw, hraw⟩ := mapM_ok_of_forall g.migrations (f := fun m => do
      pure ({ dest := ← popId names m.dest, source := ← popId names m.source, t0 := m.endTime, t1 := m.startTime,
              rate := m.rate } : MigSeg)) (by
    intro m hm'
    obtain ⟨⟨i, hi⟩, ⟨j, hj⟩⟩ := hm m hm'
    exact ⟨_, by rw [hi, hj]; rfl⟩)
  rw [hpops, ok_bind, hraw, ok_bind]
  exact ⟨_, bind_pure_ok (x := (graphTimes g).mapM (graphMoveAt names g)) hms, rfl⟩

/-! ## the movement rows do not depend on the order of the rows -/

/-- a step that either fails whatever the rows, or maps every row by a function that keeps the
row's key -/
def RowStep {α} (step : List (Nat × Row) → α → Except String (List (Nat × Row))) : Prop :=
  ∀ x, (∃ h : Nat × Row → Nat × Row, (∀ ir, (h ir).1 = ir.1) ∧ ∀ L, step L x = .ok (L.map h))
    ∨ (∀ L, ∃ e, step L x = .error e)

theorem rowStep_fold {α} {step : List (Nat × Row) → α → Except String (List (Nat × Row))} (hs : RowStep step) :
    ∀ (xs : List α) (L R : List (Nat × Row)), xs.foldlM step L = .ok R →
    ∃ H : Nat × Row → Nat × Row, (∀ ir, (H ir).1 = ir.1) ∧ ∀ L', xs.foldlM step L' = .ok (L'.map H) := by
  intro xs
  induction xs with
  | nil => intro L R _; exact ⟨id, fun _ => rfl, fun L' => by rw [List.map_id]; rfl⟩
  | cons x xs ih =>
    intro L R h
    rw [List.foldlM_cons] at h
    obtain ⟨L1, h1, h2⟩ := sbind_ok.1 h
    rcases hs x with ⟨hf, hk, hall⟩ | herr
    · obtain ⟨H, hH, hallH⟩ := ih L1 R h2
      refine ⟨H ∘ hf, fun ir => by simp [hH, hk], fun L' => ?_⟩
      rw [List.foldlM_cons, hall L', ok_bind, hallH, List.map_map]
    · obtain ⟨e, he⟩ := herr L
      rw [he] at h1; cases h1

theorem pulseStep_rowStep (names : List String) : RowStep (pulseStepV names) := by
  intro p
  unfold pulseStepV
  cases h1 : popId names p.dest with
  | error e => right; intro L; exact ⟨e, rfl⟩
  | ok dest =>
    cases h2 : p.sources.mapM (popId names) with
    | error e => right; intro L; exact ⟨e, rfl⟩
    | ok srcs =>
      left
      refine ⟨_, ?_, fun L => rfl⟩
      intro ir
      dsimp only
      split <;> rfl

theorem bornStep_rowStep (names : List String) : RowStep (bornStepV names) := by
  intro d
  unfold bornStepV
  cases h1 : popId names d.name with
  | error e => right; intro L; exact ⟨e, rfl⟩
  | ok me =>
    cases h2 : d.ancestors.mapM (popId names) with
    | error e => right; intro L; exact ⟨e, rfl⟩
    | ok ancs =>
      left
      refine ⟨_, ?_, fun L => rfl⟩
      intro ir
      dsimp only
      split <;> rfl

theorem mapM_perm {α β} {f : α → Except String β} {l l' : List α} (hp : l.Perm l') :
    ∀ r, l.mapM f = .ok r → ∃ r', l'.mapM f = .ok r' ∧ r.Perm r' := by
  induction hp with
  | nil => intro r h; exact ⟨r, h, List.Perm.refl _⟩
  | cons x _ ih =>
    intro r h
    rw [List.mapM_cons] at h
    obtain ⟨y, hy, h⟩ := sbind_ok.1 h
    obtain ⟨ys, hys, h⟩ := sbind_ok.1 h
    rw [spure_ok] at h
    subst h
    obtain ⟨ys', hys', hp'⟩ := ih ys hys
    exact ⟨y :: ys', by rw [List.mapM_cons, hy, hys']; rfl, List.Perm.cons y hp'⟩
  | swap x y l =>
    intro r h
    rw [List.mapM_cons, List.mapM_cons] at h
    obtain ⟨b, hb, h⟩ := sbind_ok.1 h
    obtain ⟨r1, hr1, h⟩ := sbind_ok.1 h
    obtain ⟨a, ha, hr1⟩ := sbind_ok.1 hr1
    obtain ⟨r2, hr2, hr1⟩ := sbind_ok.1 hr1
    rw [spure_ok] at h hr1
    subst h hr1
    exact ⟨a :: b :: r2, by rw [List.mapM_cons, List.mapM_cons, ha, hb, hr2]; rfl, List.Perm.swap a b r2⟩
  | trans _ _ ih1 ih2 =>
    intro r h
    obtain ⟨r1, h1, p1⟩ := ih1 r h
    obtain ⟨r2, h2, p2⟩ := ih2 r1 h1
    exact ⟨r2, h2, p1.trans p2⟩

theorem popId_inj {names : List String} {a b : String} {k : Nat} (ha : popId names a = .ok k)
    (hb : popId names b = .ok k) : a = b := by
  unfold popId at ha hb
  cases h1 : names.findIdx? (fun x => decide (x = a)) with
  | none => rw [h1] at ha; cases ha
  | some i =>
    cases h2 : names.findIdx? (fun x => decide (x = b)) with
    | none => rw [h2] at hb; cases hb
    | some j =>
      rw [h1] at ha; rw [h2] at hb
      have hi : i + 1 = k := by cases ha; rfl
      have hj : j + 1 = k := by cases hb; rfl
      have hij : i = j := by omega
      subst hij
      rw [List.findIdx?_eq_some_iff_getElem] at h1 h2
      obtain ⟨hl, e1, _⟩ := h1
      obtain ⟨_, e2, _⟩ := h2
      simp only [decide_eq_true_eq] at e1 e2
      rw [← e1, ← e2]

theorem rows_keys_nodup {names : List String} : ∀ (ds : List DView) (L0 : List (Nat × Row)),
    (ds.map (·.name)).Nodup →
    ds.mapM (rowOfV names) = .ok L0 →
    (L0.map (·.1)).Nodup ∧ ∀ ir ∈ L0, ∃ d ∈ ds, popId names d.name = .ok ir.1 := by
  intro ds
  induction ds with
  | nil => intro L0 _ h; cases h; exact ⟨List.nodup_nil, fun ir h => by cases h⟩
  | cons d ds ih =>
    intro L0 hnd h
    rw [List.mapM_cons] at h
    obtain ⟨y, hy, h⟩ := sbind_ok.1 h
    obtain ⟨ys, hys, h⟩ := sbind_ok.1 h
    rw [spure_ok] at h
    subst h
    obtain ⟨id, hid, hy⟩ := sbind_ok.1 hy
    rw [spure_ok] at hy
    subst hy
    rw [List.map_cons, List.nodup_cons] at hnd
    obtain ⟨i1, i2⟩ := ih ys hnd.2 hys
    refine ⟨?_, ?_⟩
    · rw [List.map_cons, List.nodup_cons]
      refine ⟨?_, i1⟩
      intro hmem
      obtain ⟨ir, hir, e⟩ := List.mem_map.mp hmem
      obtain ⟨d', hd', hp⟩ := i2 ir hir
      dsimp only at e
      rw [e] at hp
      have := popId_inj hp hid
      exact hnd.1 (List.mem_map.mpr ⟨d', hd', this⟩)
    · intro ir hir
      rcases List.mem_cons.mp hir with rfl | hir
      · exact ⟨d, List.mem_cons_self .., hid⟩
      · obtain ⟨d', hd', hp⟩ := i2 ir hir
        exact ⟨d', List.mem_cons_of_mem _ hd', hp⟩

/-- the movement rows of a time are the same, up to the order of the rows, for two listings of the
demes that are permutations of each other and list the demes starting at that time in the same
order -/
theorem viewMoves_perm {names : List String} {T : Q} {A B : List DView} {pvs : List Pulse}
    (hp : B.Perm A)
    (hst : B.filter (bornC T) = A.filter (bornC T))
    (hnd : (A.map (·.name)).Nodup) {L : List (Nat × Row)} (h : viewMoves names T A pvs = .ok L) :
    ∃ L', viewMoves names T B pvs = .ok L' ∧ canonRows L' = canonRows L := by
  unfold viewMoves at h ⊢
  obtain ⟨L0, h0, h⟩ := sbind_ok.1 h
  obtain ⟨L1, h1, h2⟩ := sbind_ok.1 h
  obtain ⟨H1, k1, a1⟩ := rowStep_fold (pulseStep_rowStep names) _ _ _ h1
  obtain ⟨H2, k2, a2⟩ := rowStep_fold (bornStep_rowStep names) _ _ _ h2
  have e1 : L1 = L0.map H1 := by have := a1 L0; rw [h1] at this; exact Except.ok.inj this
  have e2 : L = L1.map H2 := by have := a2 L1; rw [h2] at this; exact Except.ok.inj this
  obtain ⟨L0', h0', p0⟩ := mapM_perm (hp.symm.filter (rowC T)) L0 h0
  refine ⟨(L0'.map H1).map H2, ?_, ?_⟩
  · rw [h0', ok_bind, a1 L0', ok_bind, hst, a2]
  · rw [e2, e1]
    apply canonRows_perm ((p0.symm.map H1).map H2)
    have hk : ((L0'.map H1).map H2).map (·.1) = L0'.map (·.1) := by
      simp [List.map_map, Function.comp_def, k1, k2]
    rw [hk]
    have hnd0 : (L0.map (·.1)).Nodup := by
      apply (rows_keys_nodup _ L0 _ h0).1
      exact List.Nodup.sublist (List.Sublist.map _ List.filter_sublist) hnd
    exact (p0.map (·.1)).nodup hnd0

end Demes.Proofs.FromMs
