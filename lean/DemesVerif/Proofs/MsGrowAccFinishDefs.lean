/-
  C09 §8 (acceptance with exponential epochs), after the event loop — shared definitions.

  `DocWFV doc`: `MsAcc.DocWF` with the exactness of the sizes dropped (a size is `coef · exp(expo)` with
  `coef > 0`) and "the oldest epoch is constant" kept only for a deme that starts at infinity.  The
  structures `MsAcc.DAncWF`, `MsAcc.DMigsWF`, `MsAcc.DPulseWF` do not mention sizes and are reused.

  `TabPos tab doc`: the placeholder table gives every size of the document with a positive coefficient
  a positive rational; it holds of `placeholders doc` (`tabPos_placeholders`).
-/
import DemesVerif.Proofs.MsAccFinishDefs
import DemesVerif.Proofs.MsGrowAccDefs
import DemesVerif.Proofs.FromMsPostTable
namespace Demes.Proofs.MsGrow
open Demes Demes.Ms Demes.Spec Demes.Spec.C08 Demes.Proofs.FromMs
open Demes.Proofs.MsAcc (DAncWF DMigsWF DPulseWF DocShape docGraph docDeme)

/-! ## the well-formed document -/

/-- a deme of the document (`D`: all demes of the document), sizes symbolic -/
structure DDemeWFV (D : List BDeme) (d : BDeme) : Prop where
  ident : isIdentifier d.name = true
  ne : d.epochs ≠ []
  sizes : ∀ e ∈ d.epochs, 0 < e.endSize.coef
  closed : ∀ e ∈ d.epochs, e.growthRate = none ∧ ∃ z, e.startSize = some z ∧ 0 < z.coef
  headInf : d.startTime = .inf → ∀ e r, d.epochs = e :: r → e.startSize = some e.endSize
  times : (d.epochs.map (·.endTime)).Pairwise (fun a b => b < a)
  last0 : 0 ≤ bEndTime d
  headLt : ∀ e r, d.epochs = e :: r → ETime.fin e.endTime < d.startTime
  inf : d.startTime = .inf → d.ancestors = none ∧ d.proportions = none
  fin : ∀ Tj, d.startTime = .fin Tj → 0 < Tj ∧ DAncWF D Tj d

/-- **the well-formed document**, sizes symbolic -/
structure DocWFV (doc : MsDoc) : Prop where
  ne : doc.demes ≠ []
  nodup : (doc.demes.map (·.name)).Nodup
  sorted : doc.demes.Pairwise (fun a b => b.startTime ≤ a.startTime)
  demes : ∀ d ∈ doc.demes, DDemeWFV doc.demes d
  migs : DMigsWF doc.demes doc.migrations
  pulses : ∀ p ∈ doc.pulses.getD [], DPulseWF doc.demes p

theorem ddemeWFV_of {D : List BDeme} {d : BDeme} (h : MsAcc.DDemeWF D d) : DDemeWFV D d where
  ident := h.ident
  ne := h.ne
  sizes := fun e he => (h.sizes e he).2
  closed := fun e he => by
    obtain ⟨h1, z, h2, _, h3⟩ := h.closed e he
    exact ⟨h1, z, h2, h3⟩
  headInf := fun _ => h.headEq
  times := h.times
  last0 := h.last0
  headLt := h.headLt
  inf := h.inf
  fin := h.fin

theorem docWFV_of {doc : MsDoc} (h : MsAcc.DocWF doc) : DocWFV doc :=
  ⟨h.ne, h.nodup, h.sorted, fun d hd => ddemeWFV_of (h.demes d hd), h.migs, h.pulses⟩

theorem docShape_of_wfV {doc : MsDoc} (h : DocWFV doc) : DocShape doc := by
  refine ⟨h.ne, fun d hd => (h.demes d hd).ne, ?_, fun d hd e he => ((h.demes d hd).closed e he).1, ?_, ?_⟩
  · intro d hd e he
    obtain ⟨_, z, hz, _⟩ := (h.demes d hd).closed e he
    rw [hz]; rfl
  · intro m hm
    obtain ⟨q, _, _, _, _, _, _, _, hq, _⟩ := h.migs.shape m hm
    exact ⟨q, hq⟩
  · intro m hm
    obtain ⟨q, dj, hdj, dk, hdk, hs, hd, _⟩ := h.migs.shape m hm
    exact ⟨hs ▸ List.mem_map.2 ⟨dk, hdk, rfl⟩, hd ▸ List.mem_map.2 ⟨dj, hdj, rfl⟩⟩

/-! ## the sizes of the document and the placeholder table -/

theorem endSize_mem_sizes {doc : MsDoc} {d : BDeme} (hd : d ∈ doc.demes) {e : BEpoch} (he : e ∈ d.epochs) :
    e.endSize ∈ doc.sizes := by
  unfold MsDoc.sizes
  rw [List.mem_flatMap]
  refine ⟨d, hd, ?_⟩
  rw [List.mem_flatMap]
  exact ⟨e, he, List.mem_cons_self⟩

theorem startSize_mem_sizes {doc : MsDoc} {d : BDeme} (hd : d ∈ doc.demes) {e : BEpoch} (he : e ∈ d.epochs)
    {z : Sz} (hz : e.startSize = some z) : z ∈ doc.sizes := by
  unfold MsDoc.sizes
  rw [List.mem_flatMap]
  refine ⟨d, hd, ?_⟩
  rw [List.mem_flatMap]
  refine ⟨e, he, List.mem_cons_of_mem _ ?_⟩
  rw [hz]
  exact List.mem_cons_self

/-- the placeholder table gives every size of the document with a positive coefficient a positive
rational -/
def TabPos (tab : List (Sz × Q)) (doc : MsDoc) : Prop := ∀ z ∈ doc.sizes, 0 < z.coef → 0 < szToQ tab z

/-- the table `buildGraph` uses: an exact size is its coefficient; a symbolic one gets
`exactMax + 1 + index` with `exactMax ≥ 1` -/
theorem tabPos_placeholders (doc : MsDoc) : TabPos (placeholders doc) doc := by
  intro s hs hpos
  by_cases hx : s.expo = 0
  · have hex : s.isExact = true := by simp [Sz.isExact, hx]
    simp only [szToQ, hex, if_true]
    exact hpos
  · have hex : s.isExact = false := by simp [Sz.isExact, hx]
    have hm : s ∈ (doc.sizes.filter (fun s => !s.isExact)).eraseDups :=
      List.mem_eraseDups.2 (List.mem_filter.2 ⟨hs, by simp [hex]⟩)
    obtain ⟨i, _, hl⟩ := lookup_zipIdx_map
      (fun n : Nat => (doc.sizes.filter Sz.isExact).foldl (fun m s => qmax m s.coef) 1 + 1 + (n : Q))
      _ 0 s hm
    have hge := (foldl_qmax_ge (fun s : Sz => s.coef) (doc.sizes.filter Sz.isExact) 1).1
    have hi : (0 : Q) ≤ ((0 + i : Nat) : Q) := Rat.natCast_nonneg
    simp only [szToQ, hex, placeholders] at hl ⊢
    simp only [Bool.false_eq_true, if_false, hl, Option.getD_some]
    grind

/-- a table that is positive on the document (in particular: any table, when the sizes are exact) -/
theorem tabPos_of_exact (tab : List (Sz × Q)) {doc : MsDoc} (h : ∀ z ∈ doc.sizes, z.expo = 0) :
    TabPos tab doc := by
  intro z hz hpos
  rw [MsAcc.szToQ_exact tab (h z hz)]
  exact hpos

end Demes.Proofs.MsGrow
