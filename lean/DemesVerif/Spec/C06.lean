/-
  Spec definitions for C06 — what "only plain numbers, strings, lists and mappings" means for
  a document.
-/
import DemesVerif.Model.Value
namespace Demes

/-- a number a JSON/YAML writer can spell: a rational or `+∞` (never NaN, never `−∞`) -/
def Num.plain : Num → Bool
  | .fin _ => true
  | .pinf => true
  | .ninf => false
  | .nan => false

mutual
/-- built from `null`, numbers, strings, lists and mappings only: no `bool` anywhere (Python's
`attr.asdict` hands every leaf to `coerce_types`, which turns a `bool` into an `int`).  The
numbers are arbitrary (the user's `metadata` may contain any float). -/
def Value.plain : Value → Bool
  | .null => true
  | .bool _ => false
  | .num _ => true
  | .str _ => true
  | .list xs => plainL xs
  | .obj kvs => plainO kvs
def Value.plainL : List Value → Bool
  | [] => true
  | x :: xs => Value.plain x && plainL xs
def Value.plainO : List (String × Value) → Bool
  | [] => true
  | (_, v) :: r => Value.plain v && plainO r
end

mutual
/-- `plain`, and moreover every number is a rational or `+∞` -/
def Value.plainStd : Value → Bool
  | .null => true
  | .bool _ => false
  | .num n => n.plain
  | .str _ => true
  | .list xs => plainStdL xs
  | .obj kvs => plainStdO kvs
def Value.plainStdL : List Value → Bool
  | [] => true
  | x :: xs => Value.plainStd x && plainStdL xs
def Value.plainStdO : List (String × Value) → Bool
  | [] => true
  | (_, v) :: r => Value.plainStd v && plainStdO r
end

end Demes
