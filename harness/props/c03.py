"""C03 — documents that break any specification rule are rejected, never resolved."""
from __future__ import annotations

import os

from props.resolve_common import *  # noqa: F401,F403

RULE = ("rule-targeted and random structural mutants (values exactly on, just inside, just outside each bound; deleted / retyped "
        "/ null / renamed / unknown fields at every level; invalid defaults that are never used) of generated valid models, through "
        "dict / YAML / JSON / Builder; accept/reject compared with the Lean Model, accepted results validated by Spec.validGraph, "
        "and un-mutated valid models must be accepted; a case is one mutant; non-trivial = not identical to its parent; distinct by document")
ASSUMPTIONS = ["numbers dyadic except the injected specials; bool in a numeric position is generated (the Model treats it as Python does) "
               "but the specification's verdict on it is not asserted (DESIGN §9)"]
EXPLANATION = ("Theorems resolve_valid (accepted => every rule of the data model holds, so a document whose resolution would break a rule "
               "is rejected), resolve_asdict (no spurious rejection of machine-data-model documents), tables_* (field lists and "
               "defaults validators regenerated from the source equal the Model's) over the Lean Model; Model tied to the code by exact "
               "agreement of accept/reject on every mutant in every route.")


def defaults_sweep(ctx):
    """every field of every defaults table x every listed value, unused (no item relies on it) —
    'invalid defaults even when unused'; small and exhaustive over gen_mutations' table"""
    import gen_mutations as GM
    docs = []
    table = {
        "deme": [("start_time", [-1, 0, "Infinity", math.inf, math.nan, 8, -math.inf]), ("ancestors", [["1x"], "A", [1], [], ["A"]]),
                 ("proportions", [[0], [1.5], [0.5, 0.5], ["a"], [], [1], [0.6, 0.6]]), ("description", [1, None, "d"]), ("zzz", [1])],
        "migration": [("rate", [-0.5, 2, "x", 0.25, 0, 1, math.nan]), ("start_time", [-1, math.inf, 0, math.nan]), ("end_time", [math.inf, -1, 0]),
                      ("source", ["1x", 3, "A"]), ("dest", ["1x", "A"]), ("demes", [["1x"], "AB", [], ["A", "B"]]), ("zzz", [1])],
        "pulse": [("time", [0, math.inf, -1, 8, math.nan]), ("proportions", [[], [0.6, 0.6], [0], [0.5], [1], [1, 2 ** -40], [0.5, 0.5], [1.5]]),
                  ("sources", [[], ["1x"], "A", ["A"]]), ("dest", ["1x", 1, "A"]), ("zzz", [1])],
        "epoch": [("end_time", [math.inf, -1, "0", 0]), ("start_size", [0, math.inf, -5, 100]), ("end_size", [0, 100, math.inf]),
                  ("selfing_rate", [1.5, -0.1, 0.5, 0, 1]), ("cloning_rate", [2, 0.5, -1]), ("size_function", [1, None, "linear", "bogus"]), ("zzz", [1])],
    }
    base = {"time_units": "generations", "demes": [
        {"name": "A", "description": "", "start_time": math.inf, "ancestors": [], "proportions": [],
         "epochs": [{"end_time": 0, "start_size": 100, "end_size": 100, "size_function": "constant", "selfing_rate": 0, "cloning_rate": 0}]},
        {"name": "B", "description": "", "start_time": math.inf, "ancestors": [], "proportions": [],
         "epochs": [{"end_time": 0, "start_size": 100, "end_size": 100, "size_function": "constant", "selfing_rate": 0, "cloning_rate": 0}]}]}
    for sec, rows in table.items():
        for k, vals in rows:
            for v in vals:
                d = copy.deepcopy(base)
                d["defaults"] = {sec: {k: v}}
                docs.append((d, f"defaults_sweep:{sec}.{k}"))
                d2 = copy.deepcopy(base)
                d2["demes"][0].setdefault("defaults", {})
                if sec == "epoch":
                    d2["demes"][0]["defaults"] = {"epoch": {k: v}}
                    docs.append((d2, f"defaults_sweep:deme.epoch.{k}"))
                    # the top-level default shadowed in EVERY deme by a valid deme-level default for the same field
                    # (it is then used by nothing, and is still subject to validation)
                    valid = {"end_time": 0, "start_size": 100, "end_size": 100, "selfing_rate": 0, "cloning_rate": 0, "size_function": "constant"}
                    if k in valid:
                        d3 = copy.deepcopy(base)
                        d3["defaults"] = {"epoch": {k: v}}
                        for dm in d3["demes"]:
                            dm["defaults"] = {"epoch": {k: valid[k]}}
                        docs.append((d3, f"defaults_sweep:epoch.{k} (shadowed by deme-level defaults)"))
    # each document is resolved twice, the second time in the REVERSE order of the list: the verdict on a document
    # must not depend on which documents the process has resolved before it (a value that is valid for one field,
    # e.g. defaults.migration.start_time 0, is invalid for another, defaults.deme.start_time 0)
    docs = docs + [(copy.deepcopy(d), t + " (second pass, reverse order)") for d, t in reversed(docs)]
    reps = model_resolve(ctx, [d for d, _ in docs])
    for (d, t), rep in zip(docs, reps):
        code = impl.resolve(d)
        ctx.count(show(canon_doc(d)), True, tags=[t.split(".")[0], "accepted" if code[0] == "ok" else "rejected:" + code[1]])
        compare_with_model(ctx, d, code, rep)
        ok = spec_defaults_ok(d)
        if code[0] == "ok" and not ok:
            ctx.violation("a document with an invalid (unused) default is resolved: " + t.split(":")[1], {"document": show(canon_doc(d))},
                          python=py_repro(d, "g"))
        if code[0] != "ok" and ok:
            ctx.violation("a valid document with a valid unused default is rejected: " + t.split(":")[1], {"document": show(canon_doc(d))})


def null_outside_metadata(doc):
    """a None anywhere in the document except inside a top-level `metadata` mapping"""
    def walk(v):
        if v is None:
            return True
        if isinstance(v, dict):
            return any(walk(x) for x in v.values())
        if isinstance(v, list):
            return any(walk(x) for x in v)
        return False
    if not isinstance(doc, dict):
        return False
    return any(walk(v) for k, v in doc.items() if k != "metadata")


def accepted_without_assertions(doc):
    """does `python -O` (assert statements removed) resolve the document?"""
    import subprocess, sys
    code = ("import json, sys, demes\n"
            "try:\n    demes.Graph.fromdict(json.loads(sys.stdin.read()))\n    print('ACCEPTED')\n"
            "except Exception as e:\n    print('REJECTED', type(e).__name__)\n")
    try:
        p = subprocess.run([sys.executable, "-O", "-c", code], input=json.dumps(doc).encode(), stdout=subprocess.PIPE, stderr=subprocess.DEVNULL,
                           timeout=60, env=dict(os.environ))
        return p.stdout.decode().startswith("ACCEPTED")
    except Exception:  # noqa: BLE001
        return False


def _num(v):
    return isinstance(v, (int, float)) and not isinstance(v, bool) and not (isinstance(v, float) and math.isnan(v))


def _ident(v):
    return isinstance(v, str) and v.isidentifier()


def spec_defaults_ok(doc):
    """the specification's rules for the defaults sections, written independently of the library
    (bool in a numeric position is not generated here)"""
    def names(v, nonempty=False):
        return isinstance(v, list) and all(_ident(x) for x in v) and (len(v) > 0 or not nonempty)

    def props(v, nonempty=False, sum_le_one=False):
        return (isinstance(v, list) and all(_num(x) and 0 < x <= 1 for x in v) and (len(v) > 0 or not nonempty)
                and (not sum_le_one or sum(v) <= 1))

    rules = {
        "deme": {"description": lambda v: isinstance(v, str), "start_time": lambda v: _num(v) and v > 0, "ancestors": names, "proportions": props},
        "migration": {"rate": lambda v: _num(v) and 0 <= v <= 1, "start_time": lambda v: _num(v) and v >= 0,
                      "end_time": lambda v: _num(v) and 0 <= v < math.inf, "source": _ident, "dest": _ident, "demes": names},
        "pulse": {"sources": lambda v: names(v, True), "dest": _ident, "time": lambda v: _num(v) and 0 < v < math.inf,
                  "proportions": lambda v: props(v, True, True)},
        "epoch": {"end_time": lambda v: _num(v) and 0 <= v < math.inf, "start_size": lambda v: _num(v) and 0 < v < math.inf,
                  "end_size": lambda v: _num(v) and 0 < v < math.inf, "selfing_rate": lambda v: _num(v) and 0 <= v <= 1,
                  "cloning_rate": lambda v: _num(v) and 0 <= v <= 1, "size_function": lambda v: isinstance(v, str)},
    }

    def check(sec, dct):
        for k, v in dct.items():
            if k not in rules[sec] or not rules[sec][k](v):
                return False
        return True

    for sec, dct in doc.get("defaults", {}).items():
        if not check(sec, dct):
            return False
    for dm in doc["demes"]:
        for sec, dct in dm.get("defaults", {}).items():
            if sec != "epoch" or not check(sec, dct):
                return False
    # a default that IS used changes the model: the sweep's base demes spell every field out, but a
    # migration/pulse default never applies (no migrations/pulses), and deme/epoch defaults are shadowed
    return True


def _ident_ranges(pred):
    out, lo = [], None
    for c in range(128, 0x110000):
        ok = not (0xD800 <= c <= 0xDFFF) and pred(chr(c))
        if ok and lo is None:
            lo = c
        if not ok and lo is not None:
            out.append((lo, c - 1)); lo = None
    return out


def identifier_stream(ctx):
    """deme names beyond ASCII: the Model's `isIdentifier` (ASCII rule + the interpreter's XID_Start / XID_Continue
    range tables, proved equal to the regenerated ones in Theorems/TablesIdent.lean) against `str.isidentifier` of the
    interpreter that runs the library, code point by code point (every scalar value in the thorough tier; in the quick
    tier everything below U+3100, the two neighbours of every range boundary, and a random sample), on random short
    strings, and through Graph.fromdict on one-deme documents carrying the name"""
    rng = ctx.rng
    if ctx.tier == "quick":
        cps = set(range(0, 0x3100))
        for tab in (_ident_ranges(lambda ch: ch.isidentifier()), _ident_ranges(lambda ch: ("a" + ch).isidentifier())):
            for lo, hi in tab:
                cps.update((lo - 1, lo, hi, hi + 1))
        cps.update(rng.randrange(0x110000) for _ in range(20000))
    else:
        cps = set(range(0x110000))
        ctx.exhaustive = True
    cps = sorted(c for c in cps if 0 <= c < 0x110000 and not 0xD800 <= c <= 0xDFFF and c != 0)
    pool = [c for c in cps if c < 0x3100] + [0x2118, 0x212E, 0x309B, 0xFF10, 0xFF3F, 0x10000, 0x1F600, 0xE0100, 0x1D7CE, 0x16FE4]
    names = [chr(c) for c in cps] + ["a" + chr(c) for c in cps]
    names += ["".join(chr(rng.choice(pool)) for _ in range(rng.randint(1, 4))) for _ in range(20000 if ctx.tier == "quick" else 200000)]
    names += ["", "_", "__", "a", "1", "a1", "1a", "for", "None", "a b", "a-b", "π", "Δx", "名前", "a\u0301", "\u0301a", "x٣", "٣x", "a·b", "·", "a²", "℘", "a\u00a0b", "😀", "a😀"]
    CH = 50000
    bad = 0
    for i in range(0, len(names), CH):
        chunk = names[i:i + CH]
        rep = ctx.driver.batch([{"op": "is_identifier", "names": chunk}])[0]
        got = rep.get("ok")
        if not isinstance(got, list) or len(got) != len(chunk):
            ctx.disagreement("is_identifier", {"names": chunk[:3]}, "a list of booleans", rep)
            return
        for nm, g in zip(chunk, got):
            ctx.compared += 1
            if g != nm.isidentifier():
                bad += 1
                if bad <= 5:
                    ctx.disagreement("is_identifier", {"name": nm, "code_points": [hex(ord(ch)) for ch in nm]}, nm.isidentifier(), g)
    ctx.count("identifier classes: %d strings" % len(names), True, tags=["op:identifier_classes"])
    # the rule itself on the real resolver: a one-deme document is resolved iff its name is an identifier
    sample = [n for n in names[-25:]] + rng.sample(names, 150)
    docs = [{"time_units": "generations", "demes": [{"name": nm, "epochs": [{"start_size": 1}]}]} for nm in sample]
    reps = model_resolve(ctx, docs)
    for nm, d, rep in zip(sample, docs, reps):
        code = impl.resolve(d)
        ctx.count(show(canon_doc(d)), True, tags=["op:identifier_name", "accepted" if code[0] == "ok" else "rejected:" + code[1]])
        compare_with_model(ctx, d, code, rep)
        if (code[0] == "ok") != nm.isidentifier():
            ctx.violation("a deme name that is " + ("not " if code[0] == "ok" else "") + "a valid Python identifier is " + ("accepted" if code[0] == "ok" else "rejected"),
                          {"document": show(canon_doc(d))}, python=py_repro(d, "g"))


def must_refuse_corpus(ctx):
    """fixed documents that break one rule in a way random mutation reaches rarely; the verdict "must be refused" is the
    Spec's (driver op `accepts`), not the harness's"""
    three = [{"name": x, "epochs": [{"start_size": 100, "end_time": 0}]} for x in "ABC"]
    docs = []
    for order in ((0, 1, 2), (0, 2, 1), (2, 1, 0), (1, 0, 2)):
        migs = [{"source": "C", "dest": "A", "rate": 0.5}, {"source": "B", "dest": "A", "rate": 0.75, "start_time": 200, "end_time": 100},
                {"source": "B", "dest": "A", "rate": 0.125, "start_time": 100, "end_time": 0}]
        docs.append(({"time_units": "generations", "demes": copy.deepcopy(three), "migrations": [migs[i] for i in order]}, "ingress above one in one window of a pair"))
    # a deme whose start time lies outside the lifetime of an ancestor that is NOT listed first
    old_young = [{"name": "old", "epochs": [{"start_size": 100, "end_time": 0}]},
                 {"name": "young", "ancestors": ["old"], "start_time": 50, "epochs": [{"start_size": 100, "end_time": 0}]},
                 {"name": "extinct", "ancestors": ["old"], "start_time": 90, "epochs": [{"start_size": 100, "end_time": 70}]}]
    for anc, st in ((["old", "young"], 60), (["old", "extinct"], 60), (["old", "young", "extinct"], 80), (["old", "extinct", "young"], 40)):
        docs.append(({"time_units": "generations", "demes": copy.deepcopy(old_young) + [
            {"name": "child", "ancestors": anc, "proportions": [0.5] + [0.5 / (len(anc) - 1)] * (len(anc) - 1), "start_time": st,
             "epochs": [{"start_size": 10, "end_time": 0}]}]}, "start time outside the lifetime of a later-listed ancestor"))
    acc = ctx.driver.batch([{"op": "accepts", "doc": enc(d)} for d, _ in docs])
    reps = model_resolve(ctx, [d for d, _ in docs])
    for (d, why), a, rep in zip(docs, acc, reps):
        code = impl.resolve(d)
        ctx.count(show(canon_doc(d)), True, tags=["op:must_refuse", "accepted" if code[0] == "ok" else "rejected:" + code[1]])
        compare_with_model(ctx, d, code, rep)
        if a.get("wf") and a.get("ok") is False and code[0] == "ok":
            ctx.violation(f"a document the specification rejects is resolved ({why})", {"document": show(canon_doc(d))}, python=py_repro(d, "g"))
        if a.get("ok") is True:
            raise RuntimeError(f"must-refuse corpus: the Spec accepts a document meant to be invalid ({why})")


def run(ctx):
    n = 400 if ctx.tier == "quick" else 5000
    must_refuse_corpus(ctx)
    defaults_sweep(ctx)
    identifier_stream(ctx)
    done = 0
    while done < n and ctx.time_left() > 10:
        models = gen_models(ctx, min(100, n - done), max_demes=5 if ctx.tier == "quick" else 8)
        done += len(models)
        docs, meta = [], []
        for m in models:
            base = G.spell(m, ctx.rng, level=ctx.rng.choice([0, 0.5, 1]))
            docs.append(base); meta.append(("parent", base))
            for _ in range(6):
                md, t = M.mutate(base, ctx.rng)
                docs.append(md); meta.append((t, base))
            # second migration for one ordered pair, inside the coexistence interval
            for _ in range(3):
                ov = G.overlap_variant(m, ctx.rng)
                if ov is not None:
                    docs.append(G.spell(ov[0], ctx.rng, level=ctx.rng.choice([0, 0.5])))
                    meta.append(("overlap:" + ("overlapping" if ov[1] else "disjoint"), base))
        reps = model_resolve(ctx, docs)
        acc = ctx.driver.batch([{"op": "accepts", "doc": enc(d)} for d in docs])
        graphs, gdocs = [], []
        for (d, (t, base), rep), a in zip(zip(docs, meta, reps), acc):
            routes = ["dict", "builder_fromdict"]
            if ctx.rng.random() < 0.35 or null_outside_metadata(d):
                routes.append("yaml")
                if json_safe(d):
                    routes.append("json")
            try:
                res = route_results(d, tuple(routes))
            except Exception:  # noqa: BLE001
                res = {"dict": impl.resolve(d)}
            code = res["dict"]
            if t != "parent" and isinstance(base, dict) and isinstance(d, dict) and ctx.rng.random() < 0.4:
                # the same document reached by editing Builder.data in place after a successful resolve() of its parent
                res["builder_edit_after_resolve"] = builder_edit_route(base, d)
            ctx.count(show(canon_doc(d)), t != "parent", tags=[("op:" + t.split("+")[0].split(":")[0]), "accepted" if code[0] == "ok" else "rejected:" + code[1]])
            compare_with_model(ctx, d, code, rep)
            if code[0] == "err" and code[1] == "AssertionError" and json_safe(d) and accepted_without_assertions(d):
                ctx.violation("a document the specification rejects is refused only by an assert statement: with assertions disabled (python -O) it is resolved",
                              {"document": show(canon_doc(d)), "interpreter": "python -O"}, python=py_repro(d, "g").replace("/venv/bin/python -c", "/venv/bin/python -O -c"))
            # the independent validator written from the specification (Spec.accepts = schemaOK, fill, validGraph;
            # theorem resolve_ok_iff ties it to the Model) against the REAL code, both directions
            if a.get("wf") and "ok" in a and a["ok"] != (code[0] == "ok"):
                ctx.violation(("a document the specification rejects is resolved" if code[0] == "ok" else
                               "a document the specification accepts is rejected") + f" (mutation {t.split('+')[0].split(':')[0]})",
                              {"document": show(canon_doc(d))}, detail={"spec": {k: a.get(k) for k in ("schema", "ok")},
                              "failing_clauses": (a.get("fill") or {}).get("failing")}, python=py_repro(d, "g"))
            if a.get("ok") and code[0] == "ok" and not canon_eq(code[1], dec(a["fill"]["asdict"])):
                ctx.violation("the resolved dictionary differs from the specification's fill-in", {"document": show(canon_doc(d))})
            if t == "overlap:overlapping" and code[0] == "ok":
                ctx.violation("a document with two migrations for one ordered pair overlapping in time is resolved", {"document": show(canon_doc(d))}, python=py_repro(d, "g.migrations"))
            if t == "parent" and code[0] != "ok":
                ctx.violation("a valid model is rejected", {"document": show(canon_doc(d))}, python=py_repro(d, "g"))
            # the routes must agree on accept/reject (YAML/JSON refuse nulls that a dict may carry: skip documents with None)
            has_none = "null" in json.dumps(show(canon_doc(d))) or '"Infinity"' in json.dumps(d, default=str)
            # (the text routes read the STRING "Infinity" in a start-time position as infinity, by design
            # — C16 — while a dict carrying that string is rightly rejected: not a disagreement of routes)
            for r, c in res.items():
                if r in ("yaml", "json") and null_outside_metadata(d) and c[0] == "ok":
                    ctx.violation(f"a document with a null outside metadata is resolved through the {r} text route",
                                  {"document": show(canon_doc(d)), "route": r})
                if r in ("yaml", "json") and has_none:
                    continue
                if (c[0] == "ok") != (code[0] == "ok"):
                    ctx.violation(f"route {r} {'accepts' if c[0] == 'ok' else 'rejects'} a document that Graph.fromdict {'rejects' if c[0] == 'ok' else 'accepts'}",
                                  {"document": show(canon_doc(d)), "route": r})
                if c[0] == "ok":
                    graphs.append(c[2]); gdocs.append({"route": r, "document": show(canon_doc(d))})
        check_valid(ctx, graphs, "accepted mutant", gdocs)


def replay(ctx, payload):
    from props.c01 import plain_doc
    doc = plain_doc(payload["input"]["document"])
    for r, c in route_results(doc).items():
        print(r, c[:2] if c[0] == "err" else "accepted")
    print("model:", {k: v for k, v in model_resolve(ctx, [doc])[0].items() if k != "ok"})
    return 0
