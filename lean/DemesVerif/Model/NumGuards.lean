/-
  Vocabulary of the guard translator (harness/extract_tables.py, group "Guards").

  `Generated/Guards.lean` renders every comparison of the library's numeric guard conditions
  with the functions of `Model/Num.lean` (`Num.lt`, `Num.le`, `Num.isInf`) and the ones below.
  All follow Python on floats/ints: a comparison with NaN is false, `!=` is the negation of `==`.
-/
import DemesVerif.Model.Num
namespace Demes
namespace Num

/-- Python/IEEE `==` on document numbers (`nan == x` is false for every `x`, `nan` included) -/
def eqIEEE : Num → Num → Bool
  | nan, _ => false
  | _, nan => false
  | pinf, pinf => true
  | ninf, ninf => true
  | fin a, fin b => decide (a = b)
  | _, _ => false

/-- Python's `max(a, b)`: `b` if `b > a`, else `a` -/
def pymax (a b : Num) : Num := if Num.lt a b then b else a

/-- Python's `min(a, b)`: `b` if `b < a`, else `a` -/
def pymin (a b : Num) : Num := if Num.lt b a then b else a

end Num
end Demes
