/-
  Vocabulary of the translator (harness/extract_tables.py, group "GuardsDemeEpochs"): what `xs[i]` means for an
  integer index.  Nothing of the Model proper depends on this file; the generated file and
  `Theorems/TablesGuardsDemeEpochs.lean` do.
-/
namespace Demes

/-- Python's `xs[i]` on a list: counted from the end when `i` is negative; `none` = `IndexError` -/
def pyGetItem? {α} (xs : List α) (i : Int) : Option α :=
  if 0 ≤ i then xs[i.toNat]?
  else if (-i).toNat ≤ xs.length then xs[xs.length - (-i).toNat]? else none

end Demes
