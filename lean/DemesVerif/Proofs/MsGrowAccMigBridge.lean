/-
  C09 §8, acceptance with exponential epochs — the migration part: the Builder's matrix history at the end
  of the event loop of `from_ms` on the command `to_ms` emits for a graph with exponential epochs, in closed
  form (`Proofs/MsAccMigBridge.lean` without `ConstSizes`; the growth rates of `-g` / `-eg` are read by an
  arbitrary `gv : Growth → Q` with `gv Growth.zero = 0`).
-/
import DemesVerif.Proofs.MsAccMigBridge
import DemesVerif.Proofs.MsGrowBridge
import DemesVerif.Proofs.MsGrowTame
set_option linter.unusedSimpArgs false
set_option linter.unusedVariables false
namespace Demes.Proofs.MsGrow
open Demes Demes.Ms Demes.Spec Demes.Spec.C07 Demes.Spec.C09 Demes.Proofs.RV Demes.Proofs.ToMs
open Demes.Proofs.FromMs
open Demes.Spec.MsSem (St Pop Mat matGet)
open Demes.Spec.C08 (ArgsAgree runState cmdGroups initSt mmRateAt snapRateAt scaleRate bEndTime)
open Demes.Proofs.MsAcc (snapRateAt_run mmRateAt_of_hist header_npop gRate matAt_gRate buildState_end0)
open Demes.Proofs.MsRT (sorted_finalEvs')

section
variable {g : Graph} (c : Clauses g) (hx : MsExpressible g = true) {N0 : Q} (hN : 0 < N0)
  (gv : Growth → Q) (hz : gv Growth.zero = 0)
include c hx hN hz

/-- the string interpreter accepts the command; its final state is the embedding of a typed state with
the populations, matrix and snapshots of the pure run -/
theorem runState_finalEvsV (samples : Option (List Int)) :
    ∃ sG : StG, runState (prOfV gv (headerOf g samples) (finalEvs g N0)) N0 = .ok (embedStV gv N0 sG)
      ∧ CoreEq sG (runP N0 (s0Of N0 g.demes.length) (finalEvs g N0)) := by
  have he := evG_finalEvs c hx hN
  have hs := sorted_finalEvs' c hx hN
  have hflat := flatten_groupsByTime (finalEvs g N0)
  obtain ⟨sG, hrun, hcore, _⟩ := groups_ok (N0 := N0) (groupsByTime (finalEvs g N0)) (s0Of N0 g.demes.length)
    (fun pre e post h => by
      rw [hflat] at h
      exact okEv_finalEvs c hx hN h)
  rw [hflat] at hcore
  refine ⟨sG, ?_, hcore⟩
  unfold runState
  rw [cmdGroups_prOfV gv _ _ he hs, initSt_embedV hz, header_npop c samples,
    groups_embedV hz (groupsByTime (finalEvs g N0)) _ sG (fun grp hg e hm => he e (by
      rw [← hflat]; exact List.mem_flatten.2 ⟨grp, hg, hm⟩)) hrun]

variable {samples : Option (List Int)} {args : Args} {s : BState}
  (ha : ArgsAgree args (prOfV gv (headerOf g samples) (finalEvs g N0))) (hb : buildState args N0 = .ok s)
include ha hb

/-- shape of the matrix history -/
theorem mm_shapeV :
    s.mmList.length = s.mmEndTimes.length ∧ (∀ m ∈ s.mmList, Dim s.numDemes m) ∧ g.demes.length ≤ s.numDemes := by
  obtain ⟨sG, hrs, hcore⟩ := runState_finalEvsV c hx hN gv hz samples
  obtain ⟨h1, h2, h3, _⟩ := build_migrations ha hb hrs
  refine ⟨h1, h2, ?_⟩
  rw [h3]
  show g.demes.length ≤ (sG.pops.map (embedPopGV gv N0)).length
  rw [List.length_map, hcore.1]
  have := runP_pops_length N0 (finalEvs g N0) (s0Of N0 g.demes.length)
  simpa [s0Of] using this

/-- **the matrix history in closed form**: off the diagonal, the entry in force at `t ≥ 0` is
`4·N0·gRate g j k t`; nothing is in force before time `0` -/
theorem mmRateAt_finalEvsV {j k : Nat} (hjk : j ≠ k) (t : Q) :
    mmRateAt s.mmList s.mmEndTimes j k t = if 0 ≤ t then some (.fin (4 * N0 * gRate g j k t)) else none := by
  obtain ⟨sG, hrs, hcore⟩ := runState_finalEvsV c hx hN gv hz samples
  obtain ⟨_, _, _, hist⟩ := build_migrations ha hb hrs
  have he := evG_finalEvs c hx hN
  have h := hist j k t hjk
  have hsn : (embedStV gv N0 sG).snaps = (runP N0 (s0Of N0 g.demes.length) (finalEvs g N0)).snaps := hcore.2.2
  rw [hsn, snapRateAt_run hN (fun e hm => evT_nonneg (he e hm))] at h
  rw [mmRateAt_of_hist hN h]
  by_cases ht : 0 ≤ t
  · rw [if_pos ht, if_pos ht, Option.map_some, matAt_gRate c hx hN hjk ht]
  · rw [if_neg ht, if_neg ht]
    rfl

/-- the deme of the Builder that is deme `j` of the graph: its oldest epoch ends at `0`, its start time
is the graph's -/
theorem deme_finalEvsV {j : Nat} {dj : Deme} (hj : g.demes[j]? = some dj) :
    ∃ D, s.demes[j]? = some D ∧ bEndTime D = 0 ∧ D.startTime = dj.startTime := by
  obtain ⟨sG, hrs, hcore⟩ := runState_finalEvsV c hx hN gv hz samples
  have hjlt : j < g.demes.length := (List.getElem?_eq_some_iff.mp hj).1
  have hn : (initPop args).1 = g.demes.length := by
    rw [initPop_fst]
    exact ha.npop.trans (header_npop c samples)
  obtain ⟨e1, e2⟩ := buildState_end0 hb
  rw [hn] at e1 e2
  have hD : s.demes[j]? = some s.demes[j] := List.getElem?_eq_getElem (by omega)
  generalize s.demes[j] = D at hD
  refine ⟨D, hD, e2 j D hjlt hD, ?_⟩
  -- the typed population
  have h0 : (s0Of N0 g.demes.length).pops[j]? = some { lo := 0, upd := [⟨0, some N0, some .zero⟩] } := by
    simp [s0Of, List.getElem?_replicate, hjlt]
  have hp := runP_pops_get (N0 := N0) (finalEvs g N0) h0
  rw [hiFrom_finalEvs c hx hN hj] at hp
  have hp' : (embedStV gv N0 sG).pops[j]? = some (embedPopGV gv N0
      { lo := 0, hi := dj.startTime, upd := [⟨0, some N0, some .zero⟩] ++ (finalEvs g N0).filterMap (updOf? N0 j) }) := by
    show (sG.pops.map (embedPopGV gv N0))[j]? = _
    rw [List.getElem?_map, hcore.1, hp]
    rfl
  obtain ⟨_, _, hrel⟩ := build_sizes ha hb hrs
  obtain ⟨_, _, hst, _⟩ := hrel j D _ hD hp'
  rw [hst, embedPopGV_hi]

end

#print axioms runState_finalEvsV
#print axioms mm_shapeV
#print axioms mmRateAt_finalEvsV
#print axioms deme_finalEvsV

end Demes.Proofs.MsGrow
