"""C16 — JSON output is strict; infinity travels as "Infinity"; nulls are refused."""
from __future__ import annotations

import io
import os
import tempfile

from props.resolve_common import *  # noqa: F401,F403

RULE = ("(a) generated valid graphs dumped as JSON (both styles): text re-parsed with a strict parser that rejects NaN/Infinity "
        "tokens, loaded back by every loader in JSON and as YAML; (b) documents with the string 'Infinity' placed in each recognised "
        "start-time position (demes, migrations, defaults.deme, defaults.migration) and in names/descriptions/doi/metadata/epoch and "
        "pulse fields, through load, loads, load_asdict, loads_asdict, load_all and the CLI, both formats; (c) a null injected at every "
        "position of valid documents, through every entry point; a case is one (document, entry point); non-trivial = contains an "
        "infinite start time, an 'Infinity' string or a null")
ASSUMPTIONS = ["ruamel.yaml / json text codecs are exercised, not modelled (the Model starts from the parsed dictionary)"]
EXPLANATION = ("Theorems stringify_no_inf, unstringify_stringify, load_dump_json(+ loadAsdict/load/loadAll forms), unstringify_only_start_times, "
               "unstringify_at_start_time, unstringify_defaults, unstringify_keeps_other_strings, nonull_iff (any nesting), "
               "nonull_metadata_ignored, load_preserves_metadata, load_rejects_null (every entry point of the Model) over the Lean Model of "
               "load_dump.py; Model tied to the code by exact comparison of _no_null_values/_unstringify_infinities and of the dictionary "
               "handed to the serialiser.")


def strict_json(text):
    def bad(tok):
        raise ValueError("non-standard JSON token " + tok)
    return json.loads(text, parse_constant=bad)


def entry_points(text, fmt):
    """(name, callable) pairs for every loader"""
    out = []
    out.append(("loads_asdict", lambda: demes.loads_asdict(text, format=fmt)))
    out.append(("loads", lambda: demes.loads(text, format=fmt).asdict()))
    out.append(("load_asdict(stream)", lambda: demes.load_asdict(io.StringIO(text), format=fmt)))
    out.append(("load(stream)", lambda: demes.load(io.StringIO(text), format=fmt).asdict()))
    if fmt == "yaml":
        out.append(("load_all", lambda: [g.asdict() for g in demes.load_all(io.StringIO(text))]))
    return out


def cli_accepts(text):
    """`demes parse <file>` in-process: True when it exits normally (status 0)"""
    import contextlib
    import demes.__main__ as M
    fd, path = tempfile.mkstemp(suffix=".yaml", dir=os.path.join(os.path.dirname(os.path.dirname(os.path.dirname(os.path.abspath(__file__)))), "evidence"))
    try:
        with os.fdopen(fd, "w") as fh:
            fh.write(text)
        buf = io.StringIO()
        try:
            with contextlib.redirect_stdout(buf), contextlib.redirect_stderr(io.StringIO()):
                M.cli(["parse", path])
            return True
        except SystemExit as e:
            return e.code in (0, None)
        except Exception:  # noqa: BLE001
            return False
    finally:
        os.unlink(path)


def inject_null(doc, rng):
    d = copy.deepcopy(doc)
    ps = [p for p in M.paths(d) if p]
    p = rng.choice(ps)
    par, k = M.parent(d, p)
    wrap = rng.random()
    par[k] = None if wrap < 0.6 else ([None] if wrap < 0.75 else ([[None]] if wrap < 0.9 else {"a": [None]}))
    return d, p


def run(ctx):
    n = 150 if ctx.tier == "quick" else 2000
    done = 0
    while done < n and ctx.time_left() > 10:
        batch = gen_valid_graphs(ctx, min(60, n - done), corpus=True)
        done += len(batch)
        # ---- (a) strict JSON and the round trip of infinities
        reqs = []
        for doc, g, _ in batch:
            ga = enc(g.asdict())
            for simp in (True, False):
                reqs.append({"op": "dump_value", "graph": ga, "format": "json", "simplified": simp})
        reps = ctx.driver.batch(reqs)
        for i, (doc, g, _) in enumerate(batch):
            for j, simp in enumerate((True, False)):
                text = demes.dumps(g, format="json", simplified=simp)
                has_inf = any(math.isinf(d.start_time) for d in g.demes) or any(math.isinf(m.start_time) for m in g.migrations)
                ctx.count({"graph": show(canon(g.asdict())), "simplified": simp}, has_inf, tags=["json_dump"])
                ctx.compared += 1
                case = {"document": show(canon_doc(doc)), "simplified": simp}
                try:
                    parsed = strict_json(text)
                except ValueError as e:
                    ctx.violation(f"JSON output is not strict: {e}", case, python=py_repro(doc, f"demes.dumps(g, format='json', simplified={simp})"))
                    continue
                r = reps[2 * i + j]
                if "ok" not in r or not canon_eq(canon(parsed), dec(r["ok"])):
                    ctx.disagreement("dump_value(json)", case, show(canon(parsed)), r)
                if not simp:
                    for dm, d0 in zip(parsed["demes"], g.demes):
                        if math.isinf(d0.start_time) and dm["start_time"] != "Infinity":
                            ctx.violation("infinite deme start_time is not written as \"Infinity\"", case)
                    for mm, m0 in zip(parsed["migrations"], g.migrations):
                        if math.isinf(m0.start_time) and mm["start_time"] != "Infinity":
                            ctx.violation("infinite migration start_time is not written as \"Infinity\"", case)
                for fmt in ("json", "yaml"):  # JSON text read by the JSON loaders and by the YAML loaders
                    for name, fn in entry_points(text, fmt):
                        try:
                            out = fn()
                        except Exception as e:  # noqa: BLE001
                            ctx.violation(f"{name}(format={fmt}) fails on the library's own JSON output ({type(e).__name__})", case)
                            continue
                        if name.startswith("loads") and not name.endswith("asdict") or name.startswith("load("):
                            if not canon_eq(canon(out), canon(g.asdict())) and not same_modulo_migration_order(out, g.asdict()):
                                ctx.violation(f"{name}(format={fmt}) of the JSON dump is a different graph", case)
        # ---- (a2) non-finite numbers that _stringify_infinities does not touch (metadata): the JSON
        # writers must refuse them, or at least never print a non-standard token
        for doc, g, _ in batch[:8]:
            for bad in ({"x": math.inf}, {"x": [1, {"y": -math.inf}]}, {"x": math.nan}):
                d = g.asdict(); d["metadata"] = copy.deepcopy(bad)
                g2 = demes.Graph.fromdict(d)
                for simp in (True, False):
                    case = {"document": show(canon_doc(d)), "simplified": simp}
                    ctx.count({"graph": show(canon(d)), "simplified": simp, "nonfinite": True}, True, tags=["json_dump_nonfinite_metadata"])
                    outs = []
                    try:
                        outs.append(("dumps", demes.dumps(g2, format="json", simplified=simp)))
                    except ValueError:
                        pass
                    fd, path = tempfile.mkstemp(suffix=".json"); os.close(fd)
                    try:
                        demes.dump(g2, path, format="json", simplified=simp)
                        outs.append(("dump", open(path).read()))
                    except ValueError:
                        pass
                    finally:
                        os.unlink(path)
                    for name, text in outs:
                        try:
                            strict_json(text)
                        except ValueError as e:
                            ctx.violation(f"JSON output is not strict: {e}", case, python=py_repro(d, f"demes.{name}(g, format='json', simplified={simp})"))
        # ---- (b) "Infinity" strings
        docs_b = []
        for doc, g, _ in batch[: max(10, len(batch) // 3)]:
            d = g.asdict()
            stringify_doc(d)
            where = ctx.rng.choice(["defaults.deme", "defaults.migration", "name", "description", "doi", "metadata", "epoch.end_time",
                                    "epoch.start_size", "pulse.time", "migration.end_time", "migration.rate", "deme.description", "time_units", "none"])
            exp_string = True
            if where == "defaults.deme":
                d["defaults"] = {"deme": {"start_time": "Infinity"}}
            elif where == "defaults.migration":
                d["defaults"] = {"migration": {"start_time": "Infinity"}}
            elif where == "name":
                ctx.rng.choice(d["demes"])["name"] = "Infinity"
            elif where == "description":
                d["description"] = "Infinity"
            elif where == "doi":
                d["doi"] = ["Infinity"]
            elif where == "metadata":
                d["metadata"] = {"start_time": "Infinity", "demes": [{"start_time": "Infinity"}]}
            elif where == "deme.description":
                ctx.rng.choice(d["demes"])["description"] = "Infinity"
            elif where == "time_units":
                d["time_units"] = "Infinity"; d["generation_time"] = 2 if d["generation_time"] == 1 else d["generation_time"]
            elif where.startswith("epoch."):
                ctx.rng.choice(ctx.rng.choice(d["demes"])["epochs"])[where.split(".")[1]] = "Infinity"
            elif where == "pulse.time" and d["pulses"]:
                d["pulses"][0]["time"] = "Infinity"
            elif where.startswith("migration.") and d["migrations"]:
                d["migrations"][0][where.split(".")[1]] = "Infinity"
            docs_b.append((d, where))
        reps = ctx.driver.batch([{"op": "load_asdict_value", "doc": enc(d)} for d, _ in docs_b])
        for (d, where), r in zip(docs_b, reps):
            for fmt in ("json", "yaml"):
                text = json.dumps(d) if fmt == "json" else yaml_text(d)
                ctx.count({"doc": show(canon_doc(d)), "fmt": fmt}, True, tags=["infinity_string:" + where])
                try:
                    out = demes.loads_asdict(text, format=fmt)
                    code = ("ok", canon(out))
                except Exception as e:  # noqa: BLE001
                    code = ("err", type(e).__name__)
                ctx.compared += 1
                if (code[0] == "ok") != ("ok" in r) or (code[0] == "ok" and not canon_eq(code[1], dec(r["ok"]))):
                    ctx.disagreement("load_asdict_value", {"document": show(canon_doc(d)), "format": fmt}, code if code[0] == "err" else show(code[1]), r)
                if code[0] == "ok":
                    why = infinity_positions_ok(d, out)
                    if why:
                        ctx.violation("'Infinity' handling: " + why, {"document": show(canon_doc(d)), "format": fmt, "where": where})
        # ---- (c) nulls
        docs_c = []
        for doc, g, _ in batch[: max(10, len(batch) // 2)]:
            base = ctx.rng.choice([g.asdict(), g.asdict_simplified(), doc])
            base = stringify_doc(copy.deepcopy(base))
            if not json_safe(base):
                continue
            for _ in range(4):
                d, p = inject_null(base, ctx.rng)
                docs_c.append((d, p))
        reps = ctx.driver.batch([{"op": "load_asdict_value", "doc": enc(d)} for d, _ in docs_c])
        for (d, p), r in zip(docs_c, reps):
            outside = p[0] != "metadata"
            for fmt in ("json", "yaml"):
                text = json.dumps(d) if fmt == "json" else yaml_text(d)
                for name, fn in entry_points(text, fmt):
                    ctx.count({"doc": show(canon_doc(d)), "fmt": fmt, "entry": name}, True, tags=["null:" + ("outside" if outside else "metadata")])
                    try:
                        out = fn()
                        ok = True
                    except Exception:  # noqa: BLE001
                        ok = False
                    if name == "loads_asdict":
                        ctx.compared += 1
                        if ok != ("ok" in r):
                            ctx.disagreement("load_asdict_value(null)", {"document": show(canon_doc(d)), "format": fmt}, ok, r)
                    if outside and ok:
                        ctx.violation(f"{name}(format={fmt}) accepts a document with a null outside metadata", {"document": show(canon_doc(d)), "path": list(p), "format": fmt})
                    if name == "loads_asdict" and fmt == "yaml" and ctx.rng.random() < 0.3:
                        ctx.count({"doc": show(canon_doc(d)), "entry": "cli"}, True, tags=["null:cli"])
                        if outside and cli_accepts(text):
                            ctx.violation("the CLI (demes parse) accepts a document with a null outside metadata", {"document": show(canon_doc(d)), "path": list(p)})
                    if not outside and name == "loads_asdict":
                        if not ok:
                            ctx.violation("a null inside metadata is refused", {"document": show(canon_doc(d)), "path": list(p), "format": fmt})
                        elif not canon_eq(canon(out.get("metadata")), canon(d.get("metadata"))):
                            ctx.violation("metadata is not preserved by the loader", {"document": show(canon_doc(d)), "path": list(p), "format": fmt})


def same_modulo_migration_order(a, b):
    a = copy.deepcopy(a); b = copy.deepcopy(b)
    key = lambda m: json.dumps(show(canon(m)), sort_keys=True)
    a["migrations"] = sorted(a["migrations"], key=key); b["migrations"] = sorted(b["migrations"], key=key)
    return canon_eq(canon(a), canon(b))


def yaml_text(d):
    s = io.StringIO()
    demes.load_dump._dump_yaml_fromdict(copy.deepcopy(d), s)
    return s.getvalue()


def infinity_positions_ok(before, after):
    """the string is converted exactly at the four kinds of start-time position"""
    def walk(b, a, path):
        if isinstance(b, dict) and isinstance(a, dict):
            if list(b) != list(a):
                return f"keys changed at {path}"
            for k in b:
                w = walk(b[k], a[k], path + (k,))
                if w:
                    return w
            return None
        if isinstance(b, list) and isinstance(a, list):
            if len(a) != len(b):
                return f"length changed at {path}"
            for i, (x, y) in enumerate(zip(b, a)):
                w = walk(x, y, path + (i,))
                if w:
                    return w
            return None
        start_pos = (len(path) == 3 and path[0] in ("demes", "migrations") and path[2] == "start_time") or \
                    (len(path) == 3 and path[0] == "defaults" and path[1] in ("deme", "migration") and path[2] == "start_time")
        if b == "Infinity" and start_pos:
            return None if (isinstance(a, float) and math.isinf(a) and a > 0) else f"'Infinity' at {path} was not read as infinity"
        if isinstance(b, float) and isinstance(a, float) and math.isnan(a) and math.isnan(b):
            return None
        if type(a) != type(b) or a != b:
            return f"value at {path} changed from {b!r} to {a!r}"
        return None
    return walk(before, after, ())


def replay(ctx, payload):
    from props.c01 import plain_doc
    d = payload["input"]["document"]
    print(json.dumps(d)[:2000])
    return 0
