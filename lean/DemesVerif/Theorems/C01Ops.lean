/-
  C01 — every graph the library hands out is valid: the other entry points.
  Loading text (`load`, `load_all` over any text codec), resolving a dict (`resolve`, which is also
  `Builder.resolve`: the builder only assembles the dict), converting to generations and renaming
  demes all return graphs accepted by the independent validator.
-/
import DemesVerif.Theorems.C01
import DemesVerif.Theorems.C11
import DemesVerif.Theorems.C15
import DemesVerif.Model.LoadDump
namespace Demes.Theorems
open Demes Demes.Spec

/-- `demes.load` / `demes.loads` (any format, any text codec) -/
theorem load_valid {Text : Type} (c : Codec Text) (fmt : Format) (t : Text) (g : Graph)
    (h : load c fmt t = .ok g) : validGraph g = true := by
  unfold load at h
  cases hv : loadAsdict c fmt t with
  | error e => rw [hv] at h; cases h
  | ok v => rw [hv] at h; exact resolve_valid v g h

theorem mapM_ok_mem {α β : Type} (f : α → Except Err β) :
    ∀ (xs : List α) (ys : List β), xs.mapM f = .ok ys → ∀ y ∈ ys, ∃ x ∈ xs, f x = .ok y := by
  intro xs
  induction xs with
  | nil =>
    intro ys h y hy
    simp [List.mapM_nil, pure, Except.pure] at h
    subst h; cases hy
  | cons x xs ih =>
    intro ys h y hy
    rw [List.mapM_cons] at h
    cases hx : f x with
    | error e => rw [hx] at h; cases h
    | ok b =>
      rw [hx] at h
      cases hr : xs.mapM f with
      | error e => rw [hr] at h; cases h
      | ok bs =>
        rw [hr] at h
        have : ys = b :: bs := by
          simp [bind, Except.bind, pure, Except.pure] at h; exact h.symm
        subst this
        cases hy with
        | head => exact ⟨x, List.mem_cons_self, hx⟩
        | tail _ hy' =>
          obtain ⟨x', hx', hfx'⟩ := ih bs hr y hy'
          exact ⟨x', List.mem_cons_of_mem _ hx', hfx'⟩

/-- `demes.load_all`, consumed to the end: every graph of the stream -/
theorem loadAll_valid {Text : Type} (c : Codec Text) (t : Text) (gs : List Graph)
    (h : loadAll c t = .ok gs) : ∀ g ∈ gs, validGraph g = true := by
  unfold loadAll at h
  cases hp : c.parAll t with
  | none => rw [hp] at h; cases h
  | some vs =>
    rw [hp] at h
    intro g hg
    obtain ⟨v, _, hv⟩ := mapM_ok_mem _ vs gs h g hg
    cases hl : loadAsdictValue v with
    | error e => simp [hl, bind, Except.bind] at hv
    | ok v' =>
      simp [hl, bind, Except.bind] at hv
      exact resolve_valid v' g hv

/-- `Graph.in_generations()` of a graph the library handed out -/
theorem resolve_inGenerations_valid (d : Value) (g : Graph) (h : resolve d = .ok g) :
    validGraph (inGenerations g) = true :=
  inGenerations_valid g (resolve_valid d g h)

/-- the renaming underlying `Graph.rename_demes()`, on a graph the library handed out, for every
injective renaming to identifiers -/
theorem resolve_rename_valid (d : Value) (g : Graph) (h : resolve d = .ok g) (r : Renaming)
    (hok : RenameOK g r) : validGraph (renameDemes g r) = true :=
  rename_valid g r (resolve_valid d g h) hok

/-- `Graph.rename_demes()` (with its validation of the resulting names, repair of F23) of a graph
the library handed out: whatever it returns is valid — for EVERY renaming -/
theorem resolve_renameChecked_valid (d : Value) (g : Graph) (h : resolve d = .ok g) (r : Renaming)
    (g' : Graph) (hr : renameDemesChecked g r = .ok g') : validGraph g' = true :=
  renameChecked_valid g r g' (resolve_valid d g h) hr

/-- non-vacuity: the checked function accepts renamings of valid graphs (and see the examples of
`Theorems/C15.lean`, section 6) -/
example : validGraph Proofs.exampleGraph = true
    ∧ (renameDemesChecked Proofs.exampleGraph [("A", "B"), ("B", "A")]).toOption.isSome = true := by
  decide +kernel

end Demes.Theorems
