/-
  C07 — the populations `msSemG` reports for the emitted command.
-/
import DemesVerif.Proofs.ToMsSemSizes
set_option linter.unusedSimpArgs false
set_option linter.unusedVariables false
namespace Demes.Proofs.ToMs
open Demes Demes.Ms Demes.Spec Demes.Spec.C07 Demes.Proofs.RV
open Demes.Spec.MsSem

/-! ### populations created by splits are joined where they are created -/

/-- every population beyond the first `n0` has been joined at its creation time -/
def NewDead (n0 : Nat) (s : StG) : Prop := ∀ k p, n0 ≤ k → s.pops[k]? = some p → p.hi = .fin p.lo

/-- the `-es` / `-ej` options still to come: either a well-numbered list, or — between an `-es`
and its `-ej` — the `-ej t n+1 j` followed by a well-numbered list -/
def Pending (N0 : Q) (n0 : Nat) (s : StG) (F : List (Event Growth)) : Prop :=
  (NewDead n0 s ∧ wellNumbered n0 s.pops.length F = true)
  ∨ (∃ n o t j R p, s.pops.length = n + 1 ∧ F = .join o t ((n + 1 : Nat) : Int) j :: R
      ∧ wellNumbered n0 (n + 1) R = true ∧ n0 ≤ n
      ∧ s.pops[n]? = some p ∧ p.lo = 4 * N0 * evT (.join o t ((n + 1 : Nat) : Int) j)
      ∧ ∀ k p', n0 ≤ k → k ≠ n → s.pops[k]? = some p' → p'.hi = .fin p'.lo)

theorem stepP_pops_other {N0 : Q} {s : StG} {e : Event Growth} {n0 : Nat}
    (hsj : isSplitJoin e = false) (ht : ∀ i ∈ targets e, idx i < n0) :
    (stepP N0 s e).pops.length = s.pops.length ∧ ∀ k, n0 ≤ k → (stepP N0 s e).pops[k]? = s.pops[k]? := by
  cases e with
  | popSizeChange o t i x =>
    have hi := ht i (by simp [targets])
    cases x with
    | fin y =>
      refine ⟨by simp [stepP, updPop], fun k hk => ?_⟩
      simp only [stepP, updPop]
      rw [List.getElem?_modify]
      have : idx i ≠ k := by omega
      simp [this]
    | _ => exact ⟨rfl, fun _ _ => rfl⟩
  | popGrowthRateChange o t i a =>
    have hi := ht i (by simp [targets])
    refine ⟨by simp [stepP, updPop], fun k hk => ?_⟩
    simp only [stepP, updPop]
    rw [List.getElem?_modify]
    have : idx i ≠ k := by omega
    simp [this]
  | migEntryChange o t i j r => cases r <;> exact ⟨rfl, fun _ _ => rfl⟩
  | split => simp [isSplitJoin] at hsj
  | join => simp [isSplitJoin] at hsj
  | growthRateChange => exact ⟨rfl, fun _ _ => rfl⟩
  | sizeChange => exact ⟨rfl, fun _ _ => rfl⟩
  | migRateChange => exact ⟨rfl, fun _ _ => rfl⟩
  | migMatrixChange => exact ⟨rfl, fun _ _ => rfl⟩

theorem pending_run {N0 : Q} {n0 : Nat} : ∀ (L : List (Event Growth)) (s : StG),
    (∀ e ∈ L, isSplitJoin e = false → ∀ i ∈ targets e, idx i < n0) →
    (∀ e ∈ L, isSplitEv e = true → isSplitFin e = true) →
    n0 ≤ s.pops.length →
    Pending N0 n0 s (L.filter isSplitJoin) → NewDead n0 (runP N0 s L)
  | [], s, _, _, _, hp => by
    rcases hp with ⟨h, _⟩ | ⟨n, o, t, j, R, p, _, hF, _⟩
    · exact h
    · simp at hF
  | e :: L, s, hnsj, hfin, hlen, hp => by
    rw [runP_cons]
    have hnsj' : ∀ e' ∈ L, isSplitJoin e' = false → ∀ i ∈ targets e', idx i < n0 :=
      fun e' he' => hnsj e' (List.mem_cons_of_mem _ he')
    have hfin' : ∀ e' ∈ L, isSplitEv e' = true → isSplitFin e' = true :=
      fun e' he' => hfin e' (List.mem_cons_of_mem _ he')
    cases hsj : isSplitJoin e with
    | false =>
      obtain ⟨hl, hget⟩ := stepP_pops_other (N0 := N0) (s := s) hsj (hnsj e List.mem_cons_self hsj)
      apply pending_run L _ hnsj' hfin' (by rw [hl]; exact hlen)
      rw [List.filter_cons, hsj] at hp
      simp only [Bool.false_eq_true, if_false] at hp
      rcases hp with ⟨hd, hw⟩ | ⟨n, o, t, j, R, p, hln, hF, hw, hn, hpn, hlo, hoth⟩
      · left
        refine ⟨fun k p hk hp' => hd k p hk (by rw [← hget k hk]; exact hp'), by rw [hl]; exact hw⟩
      · right
        refine ⟨n, o, t, j, R, p, by rw [hl]; exact hln, hF, hw, hn, by rw [hget n hn]; exact hpn, hlo, ?_⟩
        intro k p' hk hkn hp'
        exact hoth k p' hk hkn (by rw [← hget k hk]; exact hp')
    | true =>
      rw [List.filter_cons, hsj] at hp
      simp only [if_true] at hp
      cases e with
      | split o t i p =>
        obtain ⟨y, rfl⟩ : ∃ y, p = .fin y := by
          have := hfin _ List.mem_cons_self rfl
          cases p <;> simp [isSplitFin] at this
          exact ⟨_, rfl⟩
        rcases hp with ⟨hd, hw⟩ | ⟨n, o', t', j, R, p', _, hF, _⟩
        · -- the next `-es`/`-ej` option must be the `-ej` of the new population
          cases hR : L.filter isSplitJoin with
          | nil => rw [hR] at hw; simp [wellNumbered] at hw
          | cons e2 R =>
            rw [hR] at hw
            cases e2 with
            | join o2 t2 i2 j2 =>
              rw [wellNumbered_split] at hw
              simp only [Bool.and_eq_true, beq_iff_eq, decide_eq_true_eq] at hw
              obtain ⟨⟨⟨⟨⟨⟨htt, hi2⟩, _⟩, _⟩, _⟩, _⟩, hwr⟩ := hw
              apply pending_run L _ hnsj' hfin' (by simp [stepP, StG.snap]; omega)
              right
              refine ⟨s.pops.length, o2, t2, j2, R, _, by simp [stepP, StG.snap], ?_, hwr, hlen,
                stepP_split_new N0 s o t i y, ?_, ?_⟩
              · rw [hR, hi2]; simp
              · simp [evT, Event.t, htt]
              · intro k p' hk hkn hp'
                have hlt : k < s.pops.length := by
                  have := (List.getElem?_eq_some_iff.mp hp').1
                  simp [stepP, StG.snap] at this
                  omega
                simp only [stepP, StG.snap] at hp'
                rw [List.getElem?_append_left hlt] at hp'
                exact hd k p' hk hp'
            | _ => simp [wellNumbered] at hw
        · cases hF
      | join o t i j =>
        rcases hp with ⟨hd, hw⟩ | ⟨n, o', t', j', R, p', hln, hF, hw, hn, hpn, hlo, hoth⟩
        · rw [wellNumbered_join] at hw
          simp only [Bool.and_eq_true, decide_eq_true_eq] at hw
          obtain ⟨⟨⟨⟨hi1, hi2⟩, _⟩, _⟩, hwr⟩ := hw
          have hidx : idx i < n0 := by unfold idx; omega
          apply pending_run L _ hnsj' hfin' (by simp [stepP, StG.snap, updPop]; exact hlen)
          left
          refine ⟨?_, by simp [stepP, StG.snap, updPop]; exact hwr⟩
          intro k p hk hp'
          simp only [stepP, StG.snap, updPop] at hp'
          rw [List.getElem?_modify] at hp'
          have : idx i ≠ k := by omega
          simp only [this, if_false] at hp'
          exact hd k p hk (by simpa using hp')
        · simp only [List.cons.injEq, Event.join.injEq] at hF
          obtain ⟨⟨rfl, rfl, rfl, rfl⟩, rfl⟩ := hF
          apply pending_run L _ hnsj' hfin' (by simp [stepP, StG.snap, updPop]; exact hlen)
          left
          have hidxn : idx ((n + 1 : Nat) : Int) = n := idx_succ n
          refine ⟨?_, by simp [stepP, StG.snap, updPop, hln]; exact hw⟩
          intro k p hk hp'
          simp only [stepP, StG.snap, updPop, hidxn] at hp'
          rw [List.getElem?_modify] at hp'
          by_cases hkn : n = k
          · subst hkn
            rw [hpn] at hp'
            simp only [if_true, Option.map_eq_map, Option.map_some, Option.some.injEq] at hp'
            rw [← hp']
            simp only [hlo]
          · simp only [hkn, if_false] at hp'
            exact hoth k p hk (fun h => hkn h.symm) (by simpa using hp')
      | _ => simp [isSplitJoin] at hsj

/-! ### the updates of a graph population -/

theorem filterMap_filter_of {α β} (f : α → Option β) (p : α → Bool) (l : List α)
    (h : ∀ x ∈ l, (f x).isSome = true → p x = true) : l.filterMap f = (l.filter p).filterMap f := by
  induction l with
  | nil => rfl
  | cons x l ih =>
    have ih' := ih (fun y hy => h y (List.mem_cons_of_mem _ hy))
    by_cases hp : p x = true
    · simp [List.filter_cons, hp, List.filterMap_cons, ih']
    · have : f x = none := by
        cases hf : f x with
        | none => rfl
        | some v => exact absurd (h x List.mem_cons_self (by simp [hf])) hp
      simp [List.filter_cons, hp, List.filterMap_cons, this, ih']

theorem filterMap_eq_map_of {α β} (f : α → Option β) (h : α → β) (l : List α)
    (hf : ∀ x ∈ l, f x = some (h x)) : l.filterMap f = l.map h := by
  induction l with
  | nil => rfl
  | cons x l ih =>
    simp [List.filterMap_cons, hf x List.mem_cons_self, ih (fun y hy => hf y (List.mem_cons_of_mem _ hy))]

theorem updOf_isSome {g : Graph} (c : Clauses g) (hx : MsExpressible g = true) {N0 : Q} {k : Nat} {x : Event Growth}
    (hxf : x ∈ finalEvs g N0) (h : (updOf? N0 k x).isSome = true) : isSizeEvOf ((k + 1 : Nat) : Int) x = true := by
  obtain ⟨y, hy, rfl⟩ := finalEvs_mem c hx hxf
  have hkey : ∀ i, i ∈ targets y → isSplitJoin y = false → idx i = k → i = ((k + 1 : Nat) : Int) := by
    intro i hi hsj hik
    obtain ⟨h1, _, _⟩ := targetTime c hx hy hsj hi
    unfold idx at hik
    omega
  cases y with
  | popSizeChange o t i x' =>
    cases x' with
    | fin v =>
      simp only [scaleEv, Event.setT, updOf?] at h
      split at h
      · rename_i hik
        simp [scaleEv, Event.setT, isSizeEvOf, hkey i (by simp [targets]) rfl hik]
      · cases h
    | _ => simp [scaleEv, Event.setT, updOf?] at h
  | popGrowthRateChange o t i a =>
    simp only [scaleEv, Event.setT, updOf?] at h
    split at h
    · rename_i hik
      simp [scaleEv, Event.setT, isSizeEvOf, hkey i (by simp [targets]) rfl hik]
    · cases h
  | _ => simp [scaleEv, Event.setT, updOf?] at h

theorem updOf_scale {N0 : Q} (hN : 0 < N0) {k : Nat} {size : Q} {growth : Growth} {es : List Epoch} {y : Event Growth}
    (hy : y ∈ sizeEvs N0 ((k + 1 : Nat) : Int) size growth es) :
    updOf? N0 k (scaleEv N0 y) = some (updClean N0 y) := by
  have h4 : (0 : Q) < 4 * N0 := by grind
  obtain ⟨e, _, h'⟩ := mem_sizeEvs _ _ _ hy
  rcases h' with rfl | rfl
  · simp only [scaleEv, Event.setT, Event.t, numDivQ, updOf?, idx_succ, if_true, evT, updClean, mul_div_cancel4 hN,
      numPos_fin]
    congr 2
    by_cases hp : 0 < e.endTime
    · simp [hp, (InGen.div_pos h4).2 hp]
    · have : ¬ 0 < e.endTime / (4 * N0) := fun h => hp ((InGen.div_pos h4).1 h)
      simp [hp, this]
  · simp only [scaleEv, Event.setT, Event.t, numDivQ, updOf?, idx_succ, if_true, evT, updClean, mul_div_cancel4 hN]

theorem filterMap_updOf_finalEvs {g : Graph} (c : Clauses g) (hx : MsExpressible g = true) {N0 : Q} (hN : 0 < N0)
    {k : Nat} {d : Deme} (hd : g.demes[k]? = some d) :
    (finalEvs g N0).filterMap (updOf? N0 k)
      = (sizeEvs N0 ((k + 1 : Nat) : Int) N0 .zero d.epochs.reverse).map (updClean N0) := by
  rw [filterMap_filter_of _ (isSizeEvOf ((k + 1 : Nat) : Int)) _ (fun x hxf h => updOf_isSome c hx hxf h),
    finalEvs_filter_size c hx hN hd, List.filterMap_map]
  exact filterMap_eq_map_of _ _ _ (fun y hy => updOf_scale hN hy)

/-! ### the end of a graph population -/

theorem lastJoin_ancDemeEvs {g : Graph} {d : Deme} {a : String} {k : Nat} :
    ∀ (aks : List (String × Nat)) (n : Nat), (a, k) ∈ aks → k = d.ancestors.length - 1 →
      Event.join "" (Num.ofETime d.startTime) (idOf g d.name) (idOf g a) ∈ ancDemeEvs g d n aks
  | [], _, h, _ => by cases h
  | (a', k') :: r, n, h, hk => by
    simp only [ancDemeEvs]
    rcases List.mem_cons.1 h with h | h
    · cases h
      simp [hk]
    · split
      · exact List.mem_cons_of_mem _ (lastJoin_ancDemeEvs r n h hk)
      · exact List.mem_cons_of_mem _ (List.mem_cons_of_mem _ (lastJoin_ancDemeEvs r (n + 1) h hk))

theorem lastJoin_ancEvs {g : Graph} {d : Deme} (hne : d.ancestors ≠ []) :
    ∀ (xs : List DemeOrPulse) (n : Nat), DemeOrPulse.deme d ∈ xs →
      ∃ a, Event.join "" (Num.ofETime d.startTime) (idOf g d.name) (idOf g a) ∈ ancEvs g n xs
  | [], _, h => by cases h
  | x :: r, n, h => by
    rcases List.mem_cons.1 h with h1 | h2
    · subst h1
      have hlen : 0 < d.ancestors.length := List.length_pos_iff.mpr hne
      have hlast : d.ancestors[d.ancestors.length - 1]? = some (d.ancestors[d.ancestors.length - 1]'(by omega)) :=
        List.getElem?_eq_getElem (by omega)
      refine ⟨d.ancestors[d.ancestors.length - 1]'(by omega), ?_⟩
      rw [ancEvs]
      apply List.mem_append_left
      apply lastJoin_ancDemeEvs _ _ _ rfl
      rw [List.mem_zipIdx_iff_getElem?]
      simpa using hlast
    · cases x with
      | deme d' =>
        obtain ⟨a, ha⟩ := lastJoin_ancEvs hne r _ h2
        exact ⟨a, by rw [ancEvs]; exact List.mem_append_right _ ha⟩
      | pulse p =>
        obtain ⟨a, ha⟩ := lastJoin_ancEvs hne r _ h2
        exact ⟨a, by rw [ancEvs]; exact List.mem_append_right _ ha⟩

theorem mem_dps_of_deme {g : Graph} {d : Deme} (h : d ∈ g.demes) : DemeOrPulse.deme d ∈ dps g := by
  rw [dps, mem_sortBy]
  exact List.mem_append_right _ (List.mem_map.2 ⟨d, h, rfl⟩)

theorem hiFrom_finalEvs {g : Graph} (c : Clauses g) (hx : MsExpressible g = true) {N0 : Q} (hN : 0 < N0)
    {k : Nat} {d : Deme} (hd : g.demes[k]? = some d) :
    hiFrom N0 .inf (finalEvs g N0) k = d.startTime := by
  have hdm : d ∈ g.demes := List.mem_of_getElem? hd
  have hklt : k < g.demes.length := (List.getElem?_eq_some_iff.mp hd).1
  unfold hiFrom
  cases hl : ((finalEvs g N0).filter (isJoinIdx k)).getLast? with
  | some x =>
    have hxm := List.mem_filter.1 (List.mem_of_getLast? hl)
    obtain ⟨y, hy, rfl⟩ := finalEvs_mem c hx hxm.1
    cases y with
    | join o t i j =>
      have hpos := join_pos_finalEvs c hx hxm.1 o _ i j rfl
      have hik : idx i = k := by simpa [isJoinIdx, scaleEv, Event.setT] using hxm.2
      have hi : i = ((k + 1 : Nat) : Int) := by unfold idx at hik; omega
      subst hi
      obtain ⟨d', q, hd', hst, ht⟩ := joinTime c hx hy (by omega) (by omega)
      rw [idx_succ, hd] at hd'
      cases hd'
      simp only [scaleEv, Event.setT, Event.t, ht, numDivQ, evT, mul_div_cancel4 hN, hst]
    | _ => simp [isJoinIdx, scaleEv, Event.setT] at hxm
  | none =>
    have hnil : (finalEvs g N0).filter (isJoinIdx k) = [] := by simpa using hl
    simp only []
    cases hst : d.startTime with
    | inf => rfl
    | fin st =>
      exfalso
      have hok := demeAncOk_of_valid c hdm
      have hne : d.ancestors ≠ [] := by
        have h3 := c.h3
        simp only [v3, List.all_eq_true, Bool.and_eq_true, decide_eq_true_eq, beq_iff_eq] at h3
        have := (h3 d hdm).1.2
        rw [hst] at this
        intro h0; rw [h0] at this; simp [ETime.isInf] at this
      obtain ⟨a, ha⟩ := lastJoin_ancEvs (g := g) hne (dps g) g.demes.length (mem_dps_of_deme hdm)
      have hraw : Event.join "" (Num.ofETime d.startTime) (idOf g d.name) (idOf g a) ∈ rawEvs g N0 := by
        simp only [rawEvs, List.mem_append]; exact Or.inl (Or.inr ha)
      have hfin : scaleEv N0 (Event.join "" (Num.ofETime d.startTime) (idOf g d.name) (idOf g a)) ∈ finalEvs g N0 := by
        rw [finalEvs_eq c hx]
        exact List.mem_map.2 ⟨_, (mem_sortBy _).2 hraw, rfl⟩
      have hidx : idx (idOf g d.name) = k := by
        have := demeId_of_getElem (nodup_names c) hd
        simp [idOf, idx, this]
      have : scaleEv N0 (Event.join "" (Num.ofETime d.startTime) (idOf g d.name) (idOf g a)) ∈
          (finalEvs g N0).filter (isJoinIdx k) :=
        List.mem_filter.2 ⟨hfin, by simp [scaleEv, Event.setT, isJoinIdx, hidx]⟩
      rw [hnil] at this
      cases this

end Demes.Proofs.ToMs
