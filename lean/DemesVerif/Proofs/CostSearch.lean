/-
  C20, part 2: the instrumented search of `Model/Cost.lean` computes the same result as
  `simplifyMigrations`; counting lemmas for `combinations`.
-/
import DemesVerif.Proofs.CostPoly
import Mathlib.Data.Nat.Choose.Basic
namespace Demes.Proofs
open Demes Demes.Cost Demes.Spec

/-! ### instrumented = uninstrumented -/

theorem foldl_fst {α β γ} (f : β → α → β) (fc : β × γ → α → β × γ)
    (h : ∀ b t a, (fc (b, t) a).1 = f b a) :
    ∀ (l : List α) (b : β) (t : γ), (l.foldl fc (b, t)).1 = l.foldl f b
  | [], _, _ => rfl
  | a :: l, b, t => by
    simp only [List.foldl_cons]
    have e : fc (b, t) a = ((fc (b, t) a).1, (fc (b, t) a).2) := rfl
    rw [e, foldl_fst f fc h l, h]

theorem tryCombinationsC_fst (k : RateKey) (sets : List (List String)) (st : SearchState) :
    (tryCombinationsC k sets st).1 = tryCombinations k sets st := by
  unfold tryCombinationsC tryCombinations
  apply foldl_fst
  intro b t a
  obtain ⟨st, c⟩ := b
  simp only []
  split <;> rfl

theorem searchLoopC_fst (k : RateKey) : ∀ (fuel : Nat) (allDemes : List String) (i : Nat) (st : SearchState),
    (searchLoopC k fuel allDemes i st).1 = searchLoop k fuel allDemes i st
  | 0, _, _, _ => rfl
  | fuel + 1, allDemes, i, st => by
    simp only [searchLoopC, searchLoop]
    split
    · rw [← tryCombinationsC_fst]
      generalize tryCombinationsC k (combinations allDemes i) st = r
      obtain ⟨⟨st', c⟩, t⟩ := r
      cases c
      · simp [searchLoopC_fst k fuel]
      · simp [searchLoopC_fst k fuel]
    · rfl

theorem classesC_fst (classes : List (RateKey × List (String × String))) (ams : List AMig) :
    (classesC classes ams).1 = classes.foldl (fun (acc : List SMig × List AMig) kv =>
      let (k, pairs) := kv
      if pairs.length = 1 then acc
      else
        let allDemes := collapseDemes pairs
        let st := searchLoop k (pairs.length + allDemes.length + 2) allDemes allDemes.length
          { symmetric := acc.1, asymmetric := acc.2, pairs := pairs }
        (st.symmetric, st.asymmetric)) ([], ams) := by
  unfold classesC
  apply foldl_fst
  intro b t a
  obtain ⟨k, pairs⟩ := a
  simp only []
  split
  · rfl
  · simp only [searchLoopC_fst]

/-- the instrumented search returns exactly `simplifyMigrations g` -/
theorem simplifyMigrationsC_fst (g : Graph) : (simplifyMigrationsC g).1 = simplifyMigrations g := by
  unfold simplifyMigrationsC simplifyMigrations
  rw [classesC_fst]

/-! ### `combinations` -/

theorem length_combinations {α} : ∀ (xs : List α) (k : Nat),
    (combinations xs k).length = Nat.choose xs.length k
  | _, 0 => by simp [combinations]
  | [], k + 1 => by simp [combinations]
  | x :: xs, k + 1 => by
    simp only [combinations, List.length_append, List.length_map, List.length_cons,
      length_combinations xs k, length_combinations xs (k + 1), Nat.choose_succ_succ]

theorem combinations_sublist {α} : ∀ (xs : List α) (k : Nat) (c : List α),
    c ∈ combinations xs k → c.Sublist xs ∧ c.length = k
  | _, 0, c, h => by
    simp only [combinations, List.mem_singleton] at h
    subst h; simp
  | [], k + 1, c, h => by simp [combinations] at h
  | x :: xs, k + 1, c, h => by
    simp only [combinations, List.mem_append, List.mem_map] at h
    rcases h with ⟨c', hc', rfl⟩ | h
    · have := combinations_sublist xs k c' hc'
      exact ⟨List.Sublist.cons_cons x this.1, by simp [this.2]⟩
    · have := combinations_sublist xs (k + 1) c h
      exact ⟨List.Sublist.cons x this.1, this.2⟩

end Demes.Proofs
