/-
  C05 — final assembly: `Graph.fromdict` (Model `resolve`) accepts the simplified form
  `Graph.asdict_simplified` (Model `Graph.asdictSimplified`) of every valid graph and rebuilds
  the graph, with the migrations in a possibly different order (symmetric groups first) and the
  metadata passed through `coerce_types`.
-/
import DemesVerif.Proofs.SimplifyResolve
import DemesVerif.Proofs.AsdictResolve
import DemesVerif.Proofs.ResolveValid
namespace Demes.Proofs.C05
open Demes Demes.Spec Demes.Obj

/-! ### the top level of the simplified document -/

/-- the fields of `Graph.asdictSimplified g` -/
def simpTopObj (g : Graph) : Obj :=
  (if g.description.isEmpty then [] else [("description", .str g.description)])
    ++ [("time_units", .str g.timeUnits), ("generation_time", numV g.generationTime)]
    ++ (if g.doi.isEmpty then [] else [("doi", strsV g.doi)])
    ++ (if g.metadata.isEmpty then [] else [("metadata", .obj (coerceO g.metadata))])
    ++ [("demes", .list (g.demes.map (Deme.simplified g)))]
    ++ (if g.migrations.isEmpty then [] else
          [("migrations", .list ((simplifyMigrations g).1.map SMig.asdict
                                  ++ (simplifyMigrations g).2.map AMig.asdict))])
    ++ (if g.pulses.isEmpty then [] else [("pulses", .list (g.pulses.map Pulse.asdict))])

theorem asdictSimplified_eq (g : Graph) : Graph.asdictSimplified g = .obj (simpTopObj g) := rfl

theorem lookup_opt (k k' : String) (c : Prop) [Decidable c] (v : Value) :
    lookup k (if c then [] else [(k', v)]) = if c then none else if k' = k then some v else none := by
  by_cases h : c <;> simp [h, lookup]

theorem top_description (g : Graph) :
    lookup "description" (simpTopObj g)
      = if g.description.isEmpty = true then none else some (.str g.description) := by
  simp [simpTopObj, lookup_append, lookup_cons, lookup_opt]

theorem top_time_units (g : Graph) : lookup "time_units" (simpTopObj g) = some (.str g.timeUnits) := by
  simp [simpTopObj, lookup_append, lookup_cons, lookup_opt]

theorem top_generation_time (g : Graph) :
    lookup "generation_time" (simpTopObj g) = some (numV g.generationTime) := by
  simp [simpTopObj, lookup_append, lookup_cons, lookup_opt]

theorem top_doi (g : Graph) :
    lookup "doi" (simpTopObj g) = if g.doi.isEmpty = true then none else some (strsV g.doi) := by
  simp [simpTopObj, lookup_append, lookup_cons, lookup_opt]

theorem top_metadata (g : Graph) :
    lookup "metadata" (simpTopObj g)
      = if g.metadata.isEmpty = true then none else some (.obj (coerceO g.metadata)) := by
  simp [simpTopObj, lookup_append, lookup_cons, lookup_opt]

theorem top_defaults (g : Graph) : lookup "defaults" (simpTopObj g) = none := by
  simp [simpTopObj, lookup_append, lookup_cons, lookup_opt]

theorem top_demes (g : Graph) :
    lookup "demes" (simpTopObj g) = some (.list (g.demes.map (Deme.simplified g))) := by
  simp [simpTopObj, lookup_append, lookup_cons, lookup_opt]

theorem top_migrations (g : Graph) :
    lookup "migrations" (simpTopObj g)
      = if g.migrations.isEmpty = true then none else
          some (.list ((simplifyMigrations g).1.map SMig.asdict ++ (simplifyMigrations g).2.map AMig.asdict)) := by
  simp [simpTopObj, lookup_append, lookup_cons, lookup_opt]

theorem top_pulses (g : Graph) :
    lookup "pulses" (simpTopObj g)
      = if g.pulses.isEmpty = true then none else some (.list (g.pulses.map Pulse.asdict)) := by
  simp [simpTopObj, lookup_append, lookup_cons, lookup_opt]

theorem top_keys_allowed (g : Graph) : ∀ kv ∈ simpTopObj g, allowedTop.contains kv.1 = true := by
  intro kv h
  simp only [simpTopObj, List.mem_append, List.mem_cons, List.mem_ite_nil_left,
    List.not_mem_nil, or_false] at h
  rcases h with (((((⟨_, h⟩ | h | h) | ⟨_, h⟩) | ⟨_, h⟩) | h) | ⟨_, h⟩) | ⟨_, h⟩ <;>
    subst h <;> dsimp only <;> decide

/-! ### invariance of V8, V9, V10 under a permutation of the migration list -/

/-- `g` with its migration list replaced -/
def setMigs (g : Graph) (ms : List Migration) : Graph := { g with migrations := ms }

theorem v8_perm {g : Graph} {ms : List Migration} (hp : ms.Perm g.migrations) :
    v8 (setMigs g ms) = v8 g := by
  unfold v8
  exact hp.all_eq

theorem v9_rel_symm (a b : Migration)
    (h : (!(a.source == b.source && a.dest == b.dest) || disjoint a b) = true) :
    (!(b.source == a.source && b.dest == a.dest) || disjoint b a) = true := by
  simp only [Bool.or_eq_true, Bool.not_eq_true', Bool.and_eq_false_iff, beq_eq_false_iff_ne,
    disjoint, decide_eq_false_iff_not] at h ⊢
  rcases h with (h | h) | h
  · exact Or.inl (Or.inl (fun e => h e.symm))
  · exact Or.inl (Or.inr (fun e => h e.symm))
  · rcases h with h | h
    · exact Or.inr (Or.inr h)
    · exact Or.inr (Or.inl h)

theorem v9_perm {g : Graph} {ms : List Migration} (hp : ms.Perm g.migrations) :
    v9 (setMigs g ms) = v9 g := by
  unfold v9
  rw [Bool.eq_iff_iff, pairwiseB_iff, pairwiseB_iff]
  exact hp.pairwise_iff (fun {a b} h => v9_rel_symm a b h)

theorem qsumS_perm {l₁ l₂ : List Q} (hp : l₁.Perm l₂) : qsumS l₁ = qsumS l₂ := by
  induction hp with
  | nil => rfl
  | cons x _ ih => simp only [qsumS_cons, ih]
  | swap x y l => simp only [qsumS_cons]; grind
  | trans _ _ ih1 ih2 => exact ih1.trans ih2

theorem ingressAt_perm {g : Graph} {ms : List Migration} (hp : ms.Perm g.migrations)
    (dest : String) (t : Q) : ingressAt (setMigs g ms) dest t = ingressAt g dest t := by
  unfold ingressAt
  exact qsumS_perm ((hp.filter _).map _)

theorem mem_boundaries_perm {g : Graph} {ms : List Migration} (hp : ms.Perm g.migrations) (t : Q) :
    t ∈ boundaries (setMigs g ms) ↔ t ∈ boundaries g := by
  unfold boundaries
  simp only [List.mem_cons, List.mem_append]
  show _ ∨ _ ∈ List.map _ ms ∨ _ ∈ List.filterMap _ ms ↔ _
  rw [(hp.map _).mem_iff, (hp.filterMap _).mem_iff]

theorem v10_perm {g : Graph} {ms : List Migration} (hp : ms.Perm g.migrations) :
    v10 (setMigs g ms) = v10 g := by
  rw [Bool.eq_iff_iff, v10_iff, v10_iff]
  constructor
  · intro h t ht d hd
    rw [← ingressAt_perm hp]
    exact h t ((mem_boundaries_perm hp t).2 ht) d hd
  · intro h t ht d hd
    rw [ingressAt_perm hp]
    exact h t ((mem_boundaries_perm hp t).1 ht) d hd

/-- `_check_migration_rates` passes on the graph with permuted migrations -/
theorem checkMigrationRates_perm {g : Graph} (h1 : v1 g = true) (h6 : v6 g = true)
    (h8 : v8 g = true) (h9 : v9 g = true) (h10 : v10 g = true)
    {ms : List Migration} (hp : ms.Perm g.migrations) :
    checkMigrationRates (setMigs g ms) = .ok () :=
  (checkMigrationRates_iff_v10' (setMigs g ms) h1 h6 ((v8_perm hp).trans h8) ((v9_perm hp).trans h9)).2
    ((v10_perm hp).trans h10)

/-- the rate check reads only the demes, the name index and the migrations -/
theorem checkMigrationRates_congr (G G' : Graph) (hd : G'.demes = G.demes) (hi : G'.index = G.index)
    (hm : G'.migrations = G.migrations) : checkMigrationRates G' = checkMigrationRates G := by
  obtain ⟨a1, a2, a3, a4, a5, a6, a7, a8, a9⟩ := G
  obtain ⟨b1, b2, b3, b4, b5, b6, b7, b8, b9⟩ := G'
  simp only at hd hi hm
  subst hd hi hm
  rfl

/-! ### the header -/

open Demes.Proofs.Asdict in
theorem resolveHeader_simplified (g : Graph) (h13 : v13 g = true) :
    resolveHeader (simpTopObj g) = .ok (hdr g) := by
  simp only [v13, Bool.and_eq_true, Bool.not_eq_true', decide_eq_true_eq, Bool.or_eq_true, bne_iff_ne, ne_eq,
    beq_iff_eq, List.all_eq_true] at h13
  obtain ⟨⟨⟨a1, a2⟩, a3⟩, a4⟩ := h13
  have l3 : lookupNN "generation_time" (simpTopObj g) = some (numV g.generationTime) :=
    lookupNN_of_lookup (top_generation_time g) (by simp [numV])
  have hdesc : (lookup "description" (simpTopObj g)).getD (.str "") = .str g.description := by
    rw [top_description]
    by_cases h : g.description.isEmpty = true
    · rw [if_pos h, String.isEmpty_iff.1 h]; rfl
    · rw [if_neg h]; rfl
  have hdoi0 : (lookup "doi" (simpTopObj g)).getD (.list []) = strsV g.doi := by
    rw [top_doi]
    by_cases h : g.doi.isEmpty = true
    · rw [if_pos h, List.isEmpty_iff.1 h]; rfl
    · rw [if_neg h]; rfl
  have hmeta : (lookup "metadata" (simpTopObj g)).getD (.obj []) = .obj (coerceO g.metadata) := by
    rw [top_metadata]
    by_cases h : g.metadata.isEmpty = true
    · rw [if_pos h, List.isEmpty_iff.1 h]; rfl
    · rw [if_neg h]; rfl
  have hdoi : (g.doi.map Value.str).mapM (fun v => do
      let s ← instStr v
      if s.isEmpty then valueErr "doi must be a non-empty string" else pure s) = .ok g.doi :=
    mapM_map_ok_id _ _ _ (fun s hs => by
      simp only [instStr_str, bind_ok, a4 s hs, Bool.false_eq_true, ↓reduceIte]; rfl)
  have hgt : (decide (g.timeUnits = "generations") && decide (g.generationTime ≠ 1)) = false := by
    rcases a3 with h | h
    · simp only [h, decide_false, Bool.false_and]
    · simp only [h, ne_eq, not_true_eq_false, decide_false, Bool.and_false]
  unfold resolveHeader
  simp only [hdesc, top_time_units, l3, hdoi0, hmeta, instStr_str, bind_ok, pure_bind', a1, Bool.false_eq_true,
    ↓reduceIte, Asdict.posFiniteQ_numV a2, strsV, instList_list, hdoi, instObj_obj, Option.isNone_some, Bool.and_false,
    Option.getD_some, hgt]
  rfl

/-! ### the three lists of mappings -/

theorem popDemes_simplified (g : Graph) :
    popObjList (simpTopObj g) "demes" none = .ok (g.demes.map (demeSimplifiedObj g)) := by
  simp only [popObjList, top_demes, Asdict.instList_list, ok_bind]
  exact mapM_ok_map instObj (Deme.simplified g) (demeSimplifiedObj g) g.demes (fun _ _ => rfl)

theorem simplifyMigrations_nil (g : Graph) (h : g.migrations = []) : simplifyMigrations g = ([], []) := by
  unfold simplifyMigrations
  rw [h]
  rfl

theorem popMigrations_simplified (g : Graph) :
    popObjList (simpTopObj g) "migrations" (some [])
      = .ok ((simplifyMigrations g).1.map smigObj ++ (simplifyMigrations g).2.map amigObj) := by
  by_cases h : g.migrations.isEmpty = true
  · simp only [popObjList, top_migrations, if_pos h]
    rw [simplifyMigrations_nil g (List.isEmpty_iff.1 h)]
    rfl
  · simp only [popObjList, top_migrations, if_neg h, Asdict.instList_list, ok_bind]
    rw [List.mapM_append,
      mapM_ok_map instObj SMig.asdict smigObj _ (fun _ _ => rfl),
      mapM_ok_map instObj AMig.asdict amigObj _ (fun _ _ => rfl)]
    rfl

open Demes.Proofs.Asdict in
theorem popPulses_simplified (g : Graph) :
    popObjList (simpTopObj g) "pulses" (some []) = .ok (g.pulses.map pulseObj) := by
  by_cases h : g.pulses.isEmpty = true
  · simp only [popObjList, top_pulses, if_pos h]
    rw [List.isEmpty_iff.1 h]
    rfl
  · simp only [popObjList, top_pulses, if_neg h, Asdict.instList_list, ok_bind]
    exact mapM_ok_map instObj Pulse.asdict pulseObj g.pulses (fun _ _ => rfl)

/-! ### the pulse loop, on any graph under construction that holds `g`'s demes -/

open Demes.Proofs.Asdict in
theorem pulseOk_congr {G G' : Graph} {p : Pulse} {dd : Deme} (h : ∀ a, G'.deme? a = G.deme? a)
    (hp : PulseOk G p dd) : PulseOk G' p dd :=
  ⟨by rw [h]; exact hp.dst, fun s hs => by rw [h]; exact hp.srcs s hs, hp.notEnd, hp.srcIds, hp.dstId,
    hp.nonempty, hp.pos, hp.props, hp.notDest, hp.nodup, hp.len, hp.sum⟩

open Demes.Proofs.Asdict in
theorem pulses_loop_on {g : Graph} (h1 : v1 g = true) (h11 : v11 g = true) (G : Graph)
    (hG : ∀ ps a, ({ G with pulses := ps } : Graph).deme? a = findDeme g a) :
    ∀ (rest pre : List Pulse), g.pulses = pre ++ rest →
      (rest.map pulseObj).foldlM (resolvePulse []) { G with pulses := pre }
        = .ok { G with pulses := g.pulses } := by
  intro rest
  induction rest with
  | nil => intro pre hs; rw [hs, List.append_nil]; rfl
  | cons p rest ih =>
    intro pre hs
    obtain ⟨dd, hok⟩ := pulseOk_of_valid (pre := pre) h1 h11
      (show p ∈ g.pulses by rw [hs]; exact List.mem_append_right _ List.mem_cons_self)
    have hok' : PulseOk { G with pulses := pre } p dd :=
      pulseOk_congr (fun a => by rw [hG, withPulses_deme?]) hok
    rw [List.map_cons, List.foldlM_cons, resolvePulse_ok _ p dd hok', bind_ok]
    exact ih (pre ++ [p]) (by rw [hs, List.append_assoc]; rfl)

/-! ### the assembly -/

/-- The clauses of `validGraph` used, one by one.  The migrations come back in the order of
`expandAll (simplifyMigrations g)` (symmetric groups first). -/
theorem simplify_resolves_of_clauses (g : Graph) (h0 : v0 g = true) (h1 : v1 g = true) (h2 : v2 g = true)
    (h3 : v3 g = true) (h4 : v4 g = true) (h5 : v5 g = true) (h6 : v6 g = true) (h8 : v8 g = true)
    (h9 : v9 g = true) (h10 : v10 g = true) (h11 : v11 g = true) (h12 : v12 g = true)
    (h13 : v13 g = true) :
    ∃ ms : List Migration, ms.Perm g.migrations
      ∧ ms.map (stripBounds g) = expandAll (simplifyMigrations g)
      ∧ resolve (Graph.asdictSimplified g)
          = .ok { g with migrations := ms, metadata := coerceO g.metadata } := by
  have e1 : (g.demes.map (demeSimplifiedObj g)).foldlM (resolveDeme [] []) (Asdict.hdr g)
      = .ok { Asdict.hdr g with demes := g.demes, index := g.index } :=
    resolveDemes_simplified g (Asdict.hdr g) h0 h1 h2 h3 h4 h5 h6 rfl rfl
  obtain ⟨ms, hperm, hmap, e2⟩ := resolveMigrations_simplified g
    { Asdict.hdr g with demes := g.demes, index := g.index } h0 h1 h6 h8 h9 rfl rfl rfl
  refine ⟨ms, hperm, hmap, ?_⟩
  have hrates : checkMigrationRates
      { Asdict.hdr g with demes := g.demes, index := g.index, migrations := ms } = .ok () :=
    (checkMigrationRates_congr (setMigs g ms) _ rfl rfl rfl).trans
      (checkMigrationRates_perm h1 h6 h8 h9 h10 hperm)
  have e3 : (g.pulses.map Asdict.pulseObj).foldlM (resolvePulse [])
      { Asdict.hdr g with demes := g.demes, index := g.index, migrations := ms }
      = .ok { Asdict.hdr g with demes := g.demes, index := g.index, migrations := ms, pulses := g.pulses } :=
    pulses_loop_on h1 h11 { Asdict.hdr g with demes := g.demes, index := g.index, migrations := ms }
      (fun ps a => deme?_eq_findDeme
        { Asdict.hdr g with demes := g.demes, index := g.index, migrations := ms, pulses := ps } h0 a)
      g.pulses [] rfl
  have hne : g.demes.isEmpty = false := by
    simp only [v1, Bool.and_eq_true, Bool.not_eq_true'] at h1; exact h1.1.1
  have p1 : checkAllowed [] allowedDefaults = .ok () := rfl
  have p3 : ∀ t, checkDefaults [] t = .ok () := fun _ => rfl
  rw [asdictSimplified_eq]
  unfold resolve
  simp only [Asdict.instObj_obj, ok_bind, checkAllowed_ok _ _ (top_keys_allowed g), popObject, top_defaults,
    lookup_nil, pure_bind, p1, p3, resolveHeader_simplified g h13, popDemes_simplified,
    popMigrations_simplified, popPulses_simplified, List.isEmpty_map, hne, Bool.false_eq_true, if_false,
    e1, e2, hrates, e3]
  rw [Asdict.sortPulses_sorted g.pulses h12]
  rfl

theorem simplify_resolves (g : Graph) (hv : validGraph g = true) :
    ∃ ms : List Migration, ms.Perm g.migrations ∧
      resolve (Graph.asdictSimplified g)
        = .ok { g with migrations := ms, metadata := coerceO g.metadata } := by
  obtain ⟨h0, h1, h2, h3, h4, h5, h6, h8, h9, h10, h11, h12, h13⟩ := Asdict.clauses_of_valid hv
  obtain ⟨ms, hp, _, hr⟩ := simplify_resolves_of_clauses g h0 h1 h2 h3 h4 h5 h6 h8 h9 h10 h11 h12 h13
  exact ⟨ms, hp, hr⟩

theorem simplify_accepted (g : Graph) (hv : validGraph g = true) :
    (resolve (Graph.asdictSimplified g)).toOption.isSome = true := by
  obtain ⟨ms, _, h⟩ := simplify_resolves g hv
  rw [h]; rfl

theorem simplify_resolves_valid (g : Graph) (hv : validGraph g = true) :
    ∃ g', resolve (Graph.asdictSimplified g) = .ok g' ∧ validGraph g' = true := by
  obtain ⟨ms, _, h⟩ := simplify_resolves g hv
  exact ⟨_, h, Proofs.resolve_valid _ _ h⟩

theorem simplify_same_model (g : Graph) (hv : validGraph g = true) :
    ∃ g', resolve (Graph.asdictSimplified g) = .ok g'
      ∧ g'.demes = g.demes ∧ g'.pulses = g.pulses
      ∧ g'.description = g.description ∧ g'.timeUnits = g.timeUnits
      ∧ g'.generationTime = g.generationTime ∧ g'.doi = g.doi
      ∧ g'.metadata = coerceO g.metadata ∧ g'.index = g.index
      ∧ g'.migrations.Perm g.migrations := by
  obtain ⟨ms, hp, h⟩ := simplify_resolves g hv
  exact ⟨_, h, rfl, rfl, rfl, rfl, rfl, rfl, rfl, rfl, hp⟩

/-- with `bool`-free metadata the only difference is the order of the migrations -/
theorem simplify_resolves_plain (g : Graph) (hv : validGraph g = true) (hm : Value.plainO g.metadata = true) :
    ∃ ms : List Migration, ms.Perm g.migrations ∧
      resolve (Graph.asdictSimplified g) = .ok { g with migrations := ms } := by
  obtain ⟨ms, hp, h⟩ := simplify_resolves g hv
  rw [Asdict.coerceO_of_plain _ hm] at h
  exact ⟨ms, hp, h⟩

/-- both forms of the document resolve to the same model -/
theorem simplify_agrees_with_asdict (g : Graph) (hv : validGraph g = true) :
    ∃ g₁ g₂, resolve (Graph.asdictSimplified g) = .ok g₁ ∧ resolve (Graph.asdict g) = .ok g₂
      ∧ g₁.migrations.Perm g₂.migrations ∧ g₁ = { g₂ with migrations := g₁.migrations } := by
  obtain ⟨ms, hp, h⟩ := simplify_resolves g hv
  exact ⟨_, _, h, Asdict.resolve_asdict g hv, hp, rfl⟩

end Demes.Proofs.C05
