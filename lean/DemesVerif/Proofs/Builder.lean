/-
  Proofs for the Builder route, part 3 — the property clauses: validity of what `Builder.resolve`
  returns (C01), the three entry routes agree (C02), the argument conventions (`None`,
  `"Infinity"`), histories (C18).
-/
import DemesVerif.Proofs.BuilderEquiv
import DemesVerif.Proofs.ResolveValid
namespace Demes.Proofs.BuilderRoute
open Demes Demes.Obj Demes.Spec Demes.Spec.BuilderRoute Demes.Builder Demes.Proofs

/-! ### C01 -/

theorem builder_resolve_valid (calls : List BuilderCall) (g : Graph)
    (h : Builder.resolve calls = .ok g) : validGraph g = true :=
  resolve_valid _ g h

/-! ### C02: a Builder-expressible document entered through Builder calls -/

theorem builderForm_unpack {d : Obj} (h : builderForm d = true) :
    keysWithin (headerKeys ++ ["demes", "migrations", "pulses"]) d = true
    ∧ contains "time_units" d = true
    ∧ noNullAt ["description", "generation_time", "doi", "defaults", "metadata"] d = true
    ∧ sectionForm "demes" demeForm true d = true
    ∧ sectionForm "migrations" migrationForm false d = true
    ∧ sectionForm "pulses" pulseForm false d = true := by
  simpa [builderForm, Bool.and_eq_true, and_assoc] using h

theorem enteredDoc_eq_canonDoc {d : Obj} (h : builderForm d = true) : enteredDoc d = canonDoc d := by
  obtain ⟨_, htu, hnn, hd, hm, hp⟩ := builderForm_unpack h
  unfold enteredDoc canonDoc canonSection
  rw [specHeader_eq_pick d htu hnn]
  have e1 : (sectionItems "demes" d).map (fun o => Value.obj
      (specDeme ((lookup "name" o).getD .null) (lookup "description" o) (lookup "ancestors" o)
        (lookup "proportions" o) (lookup "start_time" o) (lookup "epochs" o) (lookup "defaults" o)))
      = (sectionItems "demes" d).map (fun o => Value.obj (pick demeKeys o)) :=
    List.map_congr_left (fun o ho => by rw [specDeme_eq_pick o (sectionForm_items hd o ho)])
  have e2 : (sectionItems "migrations" d).map (fun o => Value.obj
      (specMigration (lookup "rate" o) (lookup "demes" o) (lookup "source" o) (lookup "dest" o)
        (lookup "start_time" o) (lookup "end_time" o)))
      = (sectionItems "migrations" d).map (fun o => Value.obj (pick migrationKeys o)) :=
    List.map_congr_left (fun o ho => by rw [specMigration_eq_pick o (sectionForm_items hm o ho)])
  have e3 : (sectionItems "pulses" d).map (fun o => Value.obj
      (specPulse (lookup "sources" o) (lookup "dest" o) (lookup "proportions" o) (lookup "time" o)))
      = (sectionItems "pulses" d).map (fun o => Value.obj (pick pulseKeys o)) :=
    List.map_congr_left (fun o ho => by rw [specPulse_eq_pick o (sectionForm_items hp o ho)])
  rw [e1, e2, e3]

/-- the data dictionary built from a Builder-expressible document is the document with its keys
in the Builder's order (exact, key order included) -/
theorem run_callsOfDoc_canon {d : Obj} (h : builderForm d = true) :
    run (callsOfDoc d) = canonDoc d := by
  rw [run_callsOfDoc, enteredDoc_eq_canonDoc h]

theorem keys_sectionEntry_subset (k : String) (items : List Value) :
    ∀ k' ∈ keys (sectionEntry k items), k' = k := by
  cases items <;> simp [sectionEntry, keys]

theorem keys_canonDoc_subset (d : Obj) :
    ∀ k ∈ keys (canonDoc d), k ∈ headerKeys ++ ["demes", "migrations", "pulses"] := by
  intro k hk
  simp only [canonDoc, canonSection, keys, List.map_append, List.mem_append] at hk
  rcases hk with ((hk | hk) | hk) | hk
  · exact List.mem_append_left _ (keys_pick_subset headerKeys d k hk)
  · rw [keys_sectionEntry_subset _ _ k hk]; decide
  · rw [keys_sectionEntry_subset _ _ k hk]; decide
  · rw [keys_sectionEntry_subset _ _ k hk]; decide

theorem lookup_canonDoc_header (d : Obj) : ∀ k ∈ headerKeys, lookup k (canonDoc d) = lookup k d := by
  intro k hk
  have hne : ∀ (k' : String) (items : List Value), k' ∉ headerKeys →
      lookup k (sectionEntry k' items) = none := by
    intro k' items hk'
    rw [lookup_sectionEntry]
    have : k' ≠ k := fun e => hk' (e ▸ hk)
    simp [this]
  simp only [canonDoc, canonSection, lookup_append, lookup_pick, hk, if_true,
    hne "demes" _ (by decide), hne "migrations" _ (by decide), hne "pulses" _ (by decide)]
  cases lookup k d <;> rfl

theorem lookup_canonDoc_section (d : Obj) :
    lookup "demes" (canonDoc d) = lookup "demes" (canonSection "demes" demeKeys d)
    ∧ lookup "migrations" (canonDoc d) = lookup "migrations" (canonSection "migrations" migrationKeys d)
    ∧ lookup "pulses" (canonDoc d) = lookup "pulses" (canonSection "pulses" pulseKeys d) := by
  refine ⟨?_, ?_, ?_⟩ <;>
  · simp only [canonDoc, canonSection, lookup_append, lookup_pick, lookup_sectionEntry, headerKeys]
    simp
    try (split <;> simp)

theorem demeForm_equiv (o : Obj) (h : demeForm o = true) :
    ObjEquiv allowedDemeInner (pick demeKeys o) o := by
  simp only [demeForm, Bool.and_eq_true] at h
  exact objEquiv_pick demeKeys allowedDemeInner o (by decide) h.1.1.1

theorem migrationForm_equiv (o : Obj) (h : migrationForm o = true) :
    ObjEquiv allowedMigration (pick migrationKeys o) o := by
  simp only [migrationForm, Bool.and_eq_true] at h
  exact objEquiv_pick migrationKeys allowedMigration o (by decide) h.1.1

theorem pulseForm_equiv (o : Obj) (h : pulseForm o = true) :
    ObjEquiv allowedPulse (pick pulseKeys o) o := by
  simp only [pulseForm, Bool.and_eq_true] at h
  exact objEquiv_pick pulseKeys allowedPulse o (by decide) h.1

/-- the canonical form resolves exactly like the document -/
theorem resolve_canonDoc {d : Obj} (h : builderForm d = true) :
    Demes.resolve (.obj (canonDoc d)) = Demes.resolve (.obj d) := by
  obtain ⟨hk, _, _, hd, hm, hp⟩ := builderForm_unpack h
  obtain ⟨ld, lm, lp⟩ := lookup_canonDoc_section d
  rw [resolve_eq_resolveWith, resolve_eq_resolveWith]
  rw [resolveWith_congr_demes _ _ _
    (secRel_section "demes" demeKeys allowedDemeInner demeForm true none d (canonDoc d) hd ld
      demeForm_equiv (.inl ⟨rfl, rfl⟩))]
  rw [resolveWith_congr_migrations _ _ _
    (secRel_section "migrations" migrationKeys allowedMigration migrationForm false (some []) d
      (canonDoc d) hm lm migrationForm_equiv (.inr rfl))]
  rw [resolveWith_congr_pulses _ _ _
    (secRel_section "pulses" pulseKeys allowedPulse pulseForm false (some []) d
      (canonDoc d) hp lp pulseForm_equiv (.inr rfl))]
  apply resolveWith_congr_data _ _ _ _ _ _ (lookup_canonDoc_header d)
  have hsub : ∀ k ∈ headerKeys ++ ["demes", "migrations", "pulses"], k ∈ allowedTop := by decide
  have h1 : checkAllowed (canonDoc d) allowedTop = .ok () :=
    (checkAllowed_ok_iff _ _).2 (fun k hk' => hsub k (keys_canonDoc_subset d k hk'))
  have h2 : checkAllowed d allowedTop = .ok () :=
    (checkAllowed_ok_iff _ _).2 (fun k hk' => hsub k (keysWithin_mem hk k hk'))
  rw [h1, h2]

/-- **builder_equiv_dict**: a Builder-expressible document entered through Builder calls resolves
exactly like the document itself — the same graph, or the same error. -/
theorem builder_equiv_dict {d : Obj} (h : builderForm d = true) :
    Builder.resolve (callsOfDoc d) = Demes.resolve (.obj d) := by
  unfold Builder.resolve
  rw [run_callsOfDoc_canon h, resolve_canonDoc h]

/-! ### a document written in the Builder's order is rebuilt exactly -/

theorem pick_nil_obj (ks : List String) : pick ks [] = [] := by
  induction ks with
  | nil => rfl
  | cons k ks ih =>
    have : pick (k :: ks) [] = field k (lookup k []) ++ pick ks [] := by simp [pick]
    rw [this, ih]; rfl

theorem pick_cons_of_not_mem {k : String} {ks : List String} (hk : k ∉ ks) (v : Value) (o : Obj) :
    pick ks ((k, v) :: o) = pick ks o := by
  induction ks with
  | nil => rfl
  | cons k' ks ih =>
    have h1 : ∀ o', pick (k' :: ks) o' = field k' (lookup k' o') ++ pick ks o' := by
      intro o'; simp [pick]
    have hne : ¬ k = k' := fun e => hk (e ▸ List.mem_cons_self)
    rw [h1, h1, ih (fun h => hk (List.mem_cons_of_mem _ h)), lookup_cons, if_neg hne]

theorem pick_eq_self {ks : List String} (hnd : ks.Nodup) {o : Obj} (hs : (keys o).Sublist ks) :
    pick ks o = o := by
  induction ks generalizing o with
  | nil =>
    cases o with
    | nil => rfl
    | cons kv o => simp [keys] at hs
  | cons k ks ih =>
    rw [List.nodup_cons] at hnd
    have hp : pick (k :: ks) o = field k (lookup k o) ++ pick ks o := by simp [pick]
    cases o with
    | nil => exact pick_nil_obj _
    | cons kv o =>
      obtain ⟨k1, v1⟩ := kv
      simp only [keys, List.map_cons] at hs
      cases hs with
      | cons _ hs' =>
        -- `k` is skipped: it is not a key of the object
        have hk : k ∉ keys ((k1, v1) :: o) := fun hm => hnd.1 (hs'.subset hm)
        rw [hp, (lookup_eq_none_iff k _).2 hk]
        exact ih hnd.2 hs'
      | cons_cons _ hs' =>
        rw [hp, lookup_cons, if_pos rfl, pick_cons_of_not_mem hnd.1, ih hnd.2 hs']
        rfl

theorem canonSection_eq_field (k : String) (ks : List String) (hnd : ks.Nodup) (form : Obj → Bool)
    (ne : Bool) (d : Obj) (hform : sectionForm k form ne d = true)
    (hord : (match lookup k d with
      | some (.list xs) => !xs.isEmpty && xs.all (fun x => match x with
          | .obj o => (keys o).isSublist ks | _ => false)
      | _ => true) = true) :
    canonSection k ks d = field k (lookup k d) := by
  unfold canonSection sectionItems
  unfold sectionForm at hform
  split at hform
  · rename_i hl; simp [hl, sectionEntry, field]
  · rename_i xs hl
    simp only [Bool.and_eq_true, List.all_eq_true] at hform
    have hxs := filterMap_asObj_of_all (form := form) hform.1
    simp only [hl, Bool.and_eq_true, Bool.not_eq_true', List.all_eq_true] at hord ⊢
    have hmap : (xs.filterMap Value.asObj?).map (fun o => Value.obj (pick ks o)) = xs := by
      conv => rhs; rw [hxs]
      apply List.map_congr_left
      intro o ho
      have hx : Value.obj o ∈ xs := by rw [hxs]; exact List.mem_map_of_mem ho
      have := hord.2 _ hx
      simp only [List.isSublist_iff_sublist] at this
      rw [pick_eq_self hnd this]
    rw [hmap]
    cases xs with
    | nil => simp at hord
    | cons x xs => simp [sectionEntry, field]
  · cases hform

/-- a Builder-expressible document written in the Builder's key order, without empty sections, is
rebuilt exactly by its Builder calls -/
theorem canonDoc_eq_self {d : Obj} (h : builderForm d = true) (ho : builderOrdered d = true) :
    canonDoc d = d := by
  obtain ⟨_, _, _, hd, hm, hp⟩ := builderForm_unpack h
  simp only [builderOrdered, Bool.and_eq_true, List.isSublist_iff_sublist] at ho
  obtain ⟨⟨⟨hsub, od⟩, om⟩, op⟩ := ho
  have hall : (headerKeys ++ ["demes", "migrations", "pulses"]).Nodup := by decide
  conv => rhs; rw [← pick_eq_self hall hsub]
  unfold canonDoc
  rw [canonSection_eq_field "demes" demeKeys (by decide) demeForm true d hd od,
    canonSection_eq_field "migrations" migrationKeys (by decide) migrationForm false d hm om,
    canonSection_eq_field "pulses" pulseKeys (by decide) pulseForm false d hp op]
  simp [pick, List.flatMap_append]

theorem builder_roundtrip_exact {d : Obj} (h : builderForm d = true) (ho : builderOrdered d = true) :
    run (callsOfDoc d) = d := by
  rw [run_callsOfDoc_canon h, canonDoc_eq_self h ho]

/-! ### `None` is "not given" -/

theorem notNull_idem (x : Option Value) : notNull (notNull x) = notNull x := by
  cases x with
  | none => rfl
  | some v => cases v <;> rfl

theorem step_noneAsAbsent (data : Obj) (c : BuilderCall) :
    Builder.step data (noneAsAbsent c) = Builder.step data c := by
  cases c <;>
    simp [Builder.step, noneAsAbsent, nullToNone, initData_eq, demeDict_eq, migrationDict_eq, pulseDict_eq,
      specHeader, specDeme, specMigration, specPulse, notNull_idem]

theorem builder_none_is_absent (calls : List BuilderCall) :
    run (calls.map noneAsAbsent) = run calls := by
  unfold run
  rw [List.foldl_map]
  congr 1
  funext data c
  exact step_noneAsAbsent data c

/-- …whereas `None` for `demes` / `source` / `dest` is stored -/
theorem migrationDict_none_kept (rate source dest demes startTime endTime : Option Value) :
    lookup "demes" (migrationDict rate (some .null) source dest startTime endTime) = some .null
    ∧ lookup "demes" (migrationDict rate none source dest startTime endTime) = none
    ∧ lookup "source" (migrationDict rate demes (some .null) dest startTime endTime) = some .null
    ∧ lookup "source" (migrationDict rate demes none dest startTime endTime) = none
    ∧ lookup "dest" (migrationDict rate demes source (some .null) startTime endTime) = some .null
    ∧ lookup "dest" (migrationDict rate demes source none startTime endTime) = none := by
  simp only [migrationDict_eq, specMigration, lookup_append, lookup_field]
  simp

theorem checkAllowed_append (a b : Obj) (al : List String) (ha : checkAllowed a al = .ok ())
    (hb : checkAllowed b al = .ok ()) : checkAllowed (a ++ b) al = .ok () := by
  rw [checkAllowed_ok_iff] at *
  intro k hk
  simp only [keys, List.map_append, List.mem_append] at hk
  rcases hk with hk | hk
  · exact ha k hk
  · exact hb k hk

theorem checkAllowed_field (k : String) (x : Option Value) (al : List String) (hk : k ∈ al) :
    checkAllowed (field k x) al = .ok () := by
  rw [checkAllowed_ok_iff]
  intro k' hk'
  rw [keys_field_subset k x k' hk']; exact hk

theorem checkAllowed_specMigration (rate demes source dest startTime endTime : Option Value) :
    checkAllowed (specMigration rate demes source dest startTime endTime) allowedMigration = .ok () := by
  unfold specMigration
  repeat' apply checkAllowed_append
  all_goals exact checkAllowed_field _ _ _ (by decide)

/-- what a stored `None` does at resolution: the field counts as omitted *and* the default of
`defaults.migration` for it is not applied -/
theorem resolveMigration_null_hides_default (k : String)
    (hk : k = "demes" ∨ k = "source" ∨ k = "dest") (D : Obj) (g : Graph) (m1 m0 : Obj)
    (hc1 : checkAllowed m1 allowedMigration = .ok ()) (hc0 : checkAllowed m0 allowedMigration = .ok ())
    (h1 : lookup k m1 = some .null) (h0 : lookup k m0 = none)
    (hne : ∀ k', k' ≠ k → lookup k' m1 = lookup k' m0) :
    resolveMigration D g m1 = resolveMigration (erase k D) g m0 := by
  have hl : ∀ k', lookupNN k' (insertDefaults m1 D) = lookupNN k' (insertDefaults m0 (erase k D)) := by
    intro k'
    simp only [lookupNN, lookup_insertDefaults, lookup_erase]
    by_cases e : k' = k
    · subst e; simp [h1, h0]
    · have e' : ¬ k = k' := fun x => e x.symm
      simp [hne k' e, e']
  have hr : lookup "rate" (insertDefaults m1 D) = lookup "rate" (insertDefaults m0 (erase k D)) := by
    have e : "rate" ≠ k := by rcases hk with rfl | rfl | rfl <;> decide
    have e' : ¬ k = "rate" := fun x => e x.symm
    simp only [lookup_insertDefaults, lookup_erase, hne "rate" e, e', if_false]
  unfold resolveMigration
  simp only [hc1, hc0, hl, hr]

theorem builder_none_kept_demes (D : Obj) (g : Graph) (rate source dest startTime endTime : Option Value) :
    resolveMigration D g (migrationDict rate (some .null) source dest startTime endTime)
      = resolveMigration (erase "demes" D) g (migrationDict rate none source dest startTime endTime) := by
  apply resolveMigration_null_hides_default "demes" (.inl rfl)
  · rw [migrationDict_eq]; exact checkAllowed_specMigration ..
  · rw [migrationDict_eq]; exact checkAllowed_specMigration ..
  · exact (migrationDict_none_kept rate source dest none startTime endTime).1
  · exact (migrationDict_none_kept rate source dest none startTime endTime).2.1
  · intro k' hk'
    have : ¬ "demes" = k' := fun e => hk' e.symm
    simp [migrationDict_eq, specMigration, lookup_append, lookup_field, this]

theorem builder_none_kept_source (D : Obj) (g : Graph) (rate demes dest startTime endTime : Option Value) :
    resolveMigration D g (migrationDict rate demes (some .null) dest startTime endTime)
      = resolveMigration (erase "source" D) g (migrationDict rate demes none dest startTime endTime) := by
  apply resolveMigration_null_hides_default "source" (.inr (.inl rfl))
  · rw [migrationDict_eq]; exact checkAllowed_specMigration ..
  · rw [migrationDict_eq]; exact checkAllowed_specMigration ..
  · exact (migrationDict_none_kept rate none dest demes startTime endTime).2.2.1
  · exact (migrationDict_none_kept rate none dest demes startTime endTime).2.2.2.1
  · intro k' hk'
    have : ¬ "source" = k' := fun e => hk' e.symm
    simp [migrationDict_eq, specMigration, lookup_append, lookup_field, this]

theorem builder_none_kept_dest (D : Obj) (g : Graph) (rate demes source startTime endTime : Option Value) :
    resolveMigration D g (migrationDict rate demes source (some .null) startTime endTime)
      = resolveMigration (erase "dest" D) g (migrationDict rate demes source none startTime endTime) := by
  apply resolveMigration_null_hides_default "dest" (.inr (.inr rfl))
  · rw [migrationDict_eq]; exact checkAllowed_specMigration ..
  · rw [migrationDict_eq]; exact checkAllowed_specMigration ..
  · exact (migrationDict_none_kept rate source none demes startTime endTime).2.2.2.2.1
  · exact (migrationDict_none_kept rate source none demes startTime endTime).2.2.2.2.2
  · intro k' hk'
    have : ¬ "dest" = k' := fun e => hk' e.symm
    simp [migrationDict_eq, specMigration, lookup_append, lookup_field, this]

/-! ### `"Infinity"` -/

theorem infinityString_idem (v : Value) : infinityString (infinityString v) = infinityString v := by
  cases v with
  | str s => by_cases h : s = "Infinity" <;> simp [infinityString, h]
  | _ => rfl

theorem notNull_map_infinityString (x : Option Value) :
    (notNull (x.map infinityString)).map infinityString = (notNull x).map infinityString := by
  cases x with
  | none => rfl
  | some v =>
    cases v with
    | str s => by_cases h : s = "Infinity" <;> simp [infinityString, notNull, h]
    | _ => simp [infinityString, notNull]

theorem step_infinityAsNumber (data : Obj) (c : BuilderCall) :
    Builder.step data (infinityAsNumber c) = Builder.step data c := by
  cases c <;>
    simp [Builder.step, infinityAsNumber, demeDict_eq, migrationDict_eq, specDeme, specMigration,
      notNull_map_infinityString]

theorem builder_infinity_string (calls : List BuilderCall) :
    run (calls.map infinityAsNumber) = run calls := by
  unfold run
  rw [List.foldl_map]
  congr 1
  funext data c
  exact step_infinityAsNumber data c

/-- everywhere else a given value is stored as it is (so the string `"Infinity"` stays a string) -/
theorem builder_values_verbatim (v : Value) (hv : v ≠ .null) :
    (∀ rate demes source dest startTime,
      lookup "end_time" (migrationDict rate demes source dest startTime (some v)) = some v)
    ∧ (∀ demes source dest startTime endTime,
      lookup "rate" (migrationDict (some v) demes source dest startTime endTime) = some v)
    ∧ (∀ sources dest proportions, lookup "time" (pulseDict sources dest proportions (some v)) = some v)
    ∧ (∀ name description ancestors proportions startTime defaults,
      lookup "epochs" (demeDict name description ancestors proportions startTime (some v) defaults) = some v)
    ∧ (∀ name description ancestors proportions startTime epochs,
      lookup "defaults" (demeDict name description ancestors proportions startTime epochs (some v)) = some v)
    ∧ (∀ description timeUnits generationTime doi metadata,
      lookup "defaults" (initData description timeUnits generationTime doi (some v) metadata) = some v) := by
  have hn : notNull (some v) = some v := by cases v <;> simp_all [notNull]
  refine ⟨?_, ?_, ?_, ?_, ?_, ?_⟩ <;> intros <;>
    simp [migrationDict_eq, pulseDict_eq, demeDict_eq, initData_eq, specMigration, specPulse,
      specDeme, specHeader, lookup_append, lookup_field, lookup_cons, hn]

/-! ### C18: histories -/

theorem runFrom_obj (d : Obj) (cs : List BuilderCall) : runFrom (.obj d) cs = .obj (cs.foldl Builder.step d) := by
  induction cs generalizing d with
  | nil => rfl
  | cons c cs ih =>
    have : stepV (.obj d) c = .obj (Builder.step d c) := by cases c <;> rfl
    rw [runFrom, List.foldl_cons, this]
    exact ih _

theorem outcomesFrom_append (data : Value) (cs more : List BuilderCall) :
    outcomesFrom data (cs ++ more) = outcomesFrom data cs ++ outcomesFrom (runFrom data cs) more := by
  induction cs generalizing data with
  | nil => rfl
  | cons c cs ih =>
    simp only [List.cons_append, outcomesFrom, runFrom, List.foldl_cons]
    cases output data c with
    | none => exact ih _
    | some r => simp only [List.cons_append]; rw [ih]; rfl

theorem resolvePoints_concat (cs : List BuilderCall) (c : BuilderCall) :
    resolvePoints (cs ++ [c])
      = resolvePoints cs ++ (match c with | .resolve => [cs.length] | _ => []) := by
  unfold resolvePoints
  rw [List.length_append, List.length_singleton, List.range_succ, List.filter_append]
  congr 1
  · apply List.filter_congr
    intro i hi
    rw [List.mem_range] at hi
    rw [List.getElem?_append_left hi]
  · simp only [List.filter_cons, List.filter_nil, List.getElem?_append_right (Nat.le_refl _),
      Nat.sub_self, List.getElem?_cons_zero]
    cases c <;> rfl

theorem mem_resolvePoints_lt {cs : List BuilderCall} {i : Nat} (h : i ∈ resolvePoints cs) :
    i < cs.length := by
  unfold resolvePoints at h
  exact List.mem_range.1 (List.mem_filter.1 h).1

theorem outcomesFrom_eq (data : Value) (calls : List BuilderCall) :
    outcomesFrom data calls
      = (resolvePoints calls).map (fun i => Demes.resolve (runFrom data (calls.take i))) := by
  have aux : ∀ cs : List BuilderCall, outcomesFrom data cs.reverse
      = (resolvePoints cs.reverse).map (fun i => Demes.resolve (runFrom data (cs.reverse.take i))) := by
    intro cs
    induction cs with
    | nil => rfl
    | cons c cs ih =>
      rw [List.reverse_cons, outcomesFrom_append, ih, resolvePoints_concat, List.map_append]
      congr 1
      · apply List.map_congr_left
        intro i hi
        rw [List.take_append_of_le_length (Nat.le_of_lt (mem_resolvePoints_lt hi))]
      · cases c <;> simp [outcomesFrom, output]
  have := aux calls.reverse
  rwa [List.reverse_reverse] at this

/-- **builder_history**: the `k`-th `resolve` of a history returns `Graph.fromdict` of the data
accumulated by the calls before it -/
theorem builder_history (calls : List BuilderCall) :
    outcomes calls = (resolvePoints calls).map (fun i => Builder.resolve (calls.take i)) := by
  unfold outcomes
  rw [outcomesFrom_eq]
  apply List.map_congr_left
  intro i _
  rw [runFrom_obj]
  rfl

/-- later calls do not change earlier results -/
theorem builder_history_stable (calls more : List BuilderCall) :
    outcomes (calls ++ more) = outcomes calls ++ outcomesFrom (.obj (run calls)) more := by
  unfold outcomes
  rw [outcomesFrom_append, runFrom_obj]
  rfl

/-- the same, started from `Builder.fromdict(data)` -/
theorem builder_fromdict_history (data : Value) (calls : List BuilderCall) :
    outcomesFrom (fromdict data) calls
      = (resolvePoints calls).map (fun i => Demes.resolve (runFrom data (calls.take i))) :=
  outcomesFrom_eq data calls

end Demes.Proofs.BuilderRoute
