/-
  The Model's accessors (`Model/Accessors.lean`) are the meaning of the expressions generated from the source
  (`Generated/Accessors.lean`); stated in `Theorems/TablesAccessors.lean`.
-/
import DemesVerif.Model.Accessors
import DemesVerif.Generated.Accessors
namespace Demes.Proofs.Accessors
open Demes

/-! ### the generated expressions -/

theorem pyGetItem_neg_one {α} (xs : List α) : pyGetItem? xs (-1) = xs.getLast? := by
  unfold pyGetItem?
  rw [List.getLast?_eq_getElem?]
  have h1 : ¬ ((0 : Int) ≤ -1) := by decide
  have h2 : (-(-1 : Int)).toNat = 1 := by decide
  rw [if_neg h1, h2]
  split
  · rfl
  · rename_i h
    have : xs.length = 0 := by omega
    rw [this]
    cases xs with
    | nil => rfl
    | cons _ _ => simp at this

theorem gen_epoch_time_span (e : Epoch) :
    Generated.epoch_time_span (Num.ofETime e.startTime) (Num.fin e.endTime) = Num.ofETime e.timeSpan := by
  unfold Generated.epoch_time_span Epoch.timeSpan
  cases e.startTime <;> rfl

theorem gen_deme_end_time (d : Deme) :
    Generated.deme_end_time (fun e : Epoch => Num.fin e.endTime) d.epochs = d.endTimeAcc.toOption.map Num.fin := by
  unfold Generated.deme_end_time Deme.endTimeAcc
  rw [pyGetItem_neg_one]
  cases d.epochs.getLast? <;> rfl

theorem gen_deme_time_span (d : Deme) :
    Generated.deme_time_span (Num.ofETime d.startTime)
        (Generated.deme_end_time (fun e : Epoch => Num.fin e.endTime) d.epochs)
      = d.timeSpan.toOption.map Num.ofETime := by
  rw [gen_deme_end_time]
  unfold Generated.deme_time_span Deme.timeSpan
  cases d.endTimeAcc with
  | error e => rfl
  | ok q => cases hs : d.startTime <;> simp [Except.toOption, bind, Except.bind, pure, Except.pure, ETime.subQ, Num.ofETime, Num.sub]

theorem gen_graph_getitem (g : Graph) (n : String) :
    Generated.graph_getitem g.index n = g.indexLookup n := rfl

theorem getItem_of_gen (g : Graph) (n : String) :
    Graph.getItem g n =
      match Generated.graph_getitem g.index n with
      | none => keyErr n
      | some i =>
        match g.demes[i]? with
        | some d => .ok d
        | none => .error ⟨.other, "name index points outside the deme list"⟩ := by
  unfold Graph.getItem Generated.graph_getitem pyDictGet?
  cases g.index.find? (fun kv => decide (kv.1 = n)) <;> rfl

theorem gen_graph_contains (g : Graph) (n : String) :
    Generated.graph_contains n g.index = Graph.contains g n := rfl

end Demes.Proofs.Accessors
