/-
  C09 §9 — the statements about the wider fragment `C08.Tame2` on the PRINTED command of `to_ms`
  (`toMs_output_tame2`, `toMs_output_tame2V`), and what holds of the round trip for EVERY command `from_ms`
  accepts, whatever the pulses: everything `SemRefines` asks except the lineage movements
  (`ms_roundtrip_sizes_migs`, `ms_roundtrip_growth_sizes_migs`; C08's `fromMs_sizes_migs_sem`, which needs no
  fragment, in place of `fromMs_sem_plain`).
-/
import DemesVerif.Proofs.MsTame2Groups
import DemesVerif.Proofs.MsTame2Grow
import DemesVerif.Proofs.MsRTNorm
import DemesVerif.Proofs.MsGrowAccFinal
set_option linter.unusedSimpArgs false
set_option linter.unusedVariables false
namespace Demes.Proofs.MsTame2
open Demes Demes.Ms Demes.Spec Demes.Spec.C07 Demes.Spec.C09
open Demes.Spec.MsSem (DemogSem PopSem msSem graphSem graphSemWith parse)
open Demes.Spec.C08 (semEquiv semEquivSizesMigs popEquiv SemAgree resultSem Tame' Tame2 PlainTokens)
open Demes.Proofs.ToMs (clauses_of_valid headerOf finalEvs expr_inGen graphSem_ok gSem)
open Demes.Proofs.MsRT (toMs_bridge semRefines_embed semRefines_of_equiv embedPop_tiles gSem_ids Tiles)

/-! ### `Tame2` of the printed command -/

/-- **the printed command of a graph of constant sizes**: the ms parser reads it as a command `pr` for which
`Tame2 pr = Tame' pr`, and `Tame2 pr` holds exactly when the pulses are `PulsesTame` -/
theorem toMs_output_tame2 (c : NumCodec) (sa : Growth → String) {g : Graph} (hv : validGraph g = true)
    (hx : MsExpressible g = true) (hcs : ConstSizes g = true) {N0 : Q} (hN : 0 < N0)
    {samples : Option (List Int)} (hs : samplesOk g samples = true) {toks : List (Tok Growth)}
    (htoks : toMs g N0 samples = .ok toks) (hc : CodecCovers c toks) :
    ∃ pr, parse (renderG c sa toks) = .ok pr ∧ Tame2 pr = Tame' pr ∧ (Tame2 pr = true ↔ PulsesTame g = true) := by
  obtain ⟨_, _, _, b4, _⟩ := toMs_bridge c sa hv hx hcs hN hs htoks hc
  exact ⟨_, b4, tame2_eq_tame_toMs hv hx hcs hN samples, tame2_iff_pulsesTame_toMs hv hx hcs hN samples⟩

/-- the same with exponential epochs -/
theorem toMs_output_tame2V (c : NumCodec) (sa : Growth → String) {g : Graph} (hv : validGraph g = true)
    (hx : MsExpressible g = true) {N0 : Q} (hN : 0 < N0)
    {samples : Option (List Int)} (hs : samplesOk g samples = true) {toks : List (Tok Growth)}
    (htoks : toMs g N0 samples = .ok toks) (hc : CodecCovers c toks)
    (hsa : GrowthPrinter sa (epochGrowths g N0)) :
    ∃ pr, parse (renderG c sa toks) = .ok pr ∧ Tame2 pr = Tame' pr ∧ (Tame2 pr = true ↔ PulsesTame g = true) := by
  obtain ⟨_, _, _, b4, _⟩ := MsGrow.toMs_bridgeV c sa hv hx hN hs htoks hc hsa
  exact ⟨_, b4, Grow.tame2_eq_tame_toMs (growthVal sa) hv hx hN samples,
    Grow.tame2_iff_pulsesTame_toMs (growthVal sa) hv hx hN samples⟩

/-! ### `SemRefines` without the lineage movements -/

theorem sizesMigs_of_refines {A gs : DemogSem} (h : SemRefines A gs) : SemRefinesSizesMigs A gs :=
  ⟨h.ids, h.lives, h.sizes, h.migs⟩

/-- `SemRefines` is `SemRefinesSizesMigs` and the clause on the lineage movements -/
theorem refines_iff {A gs : DemogSem} :
    SemRefines A gs ↔ SemRefinesSizesMigs A gs ∧ C07.restrictMoves gs A.moves = some gs.moves :=
  ⟨fun h => ⟨sizesMigs_of_refines h, h.moves⟩, fun h => ⟨h.1.ids, h.1.lives, h.1.sizes, h.1.migs, h.2⟩⟩

/-- C08's `semEquivSizesMigs` transports everything but the lineage movements -/
theorem sizesMigs_of_equiv {A B gs : DemogSem} (he : semEquivSizesMigs A B = true) (hr : SemRefines A gs)
    (hA : ∀ p ∈ A.pops, Tiles p.lo p.segs p.hi) (hB : ∀ p ∈ B.pops, Tiles p.lo p.segs p.hi) :
    SemRefinesSizesMigs B gs := by
  have he' : semEquiv A { B with moves := A.moves } = true := by
    rw [Demes.Proofs.FromMs.semEquiv_split]
    have : semEquivSizesMigs A { B with moves := A.moves } = semEquivSizesMigs A B := rfl
    rw [this, he]
    simp
  have := semRefines_of_equiv he' hr hA hB
  exact ⟨this.ids, this.lives, this.sizes, this.migs⟩

/-- C08 without a fragment, on plain command lines -/
theorem fromMs_sizes_migs_plain {c : List String} {N0 : Q} {mg : MsGraph} {sem : DemogSem} {pr : Demes.Spec.MsSem.Parsed}
    (h : fromMs c N0 none = .ok mg) (hsem : msSem c N0 = .ok sem) (hpl : PlainTokens c = true)
    (hpr : parse c = .ok pr) : ∃ rs, resultSem mg = .ok rs ∧ semEquivSizesMigs sem rs = true := by
  obtain ⟨args, _, hargs, _, _⟩ := Demes.Proofs.FromMs.fromMs_buildState h
  have hp := Demes.Proofs.FromMsParse.parsersAgree_of_plain hpl hargs hpr
  exact Demes.Proofs.FromMs.fromMs_sizes_migs_sem_total h hsem hp

/-- **graph → ms → graph without the lineage movements**, exact ancestry proportions: for every valid
ms-expressible graph of constant sizes — no condition on the pulses — whose printed command `from_ms` accepts -/
theorem ms_roundtrip_sizes_migs_exact (c : NumCodec) (sa : Growth → String) {g : Graph} (hv : validGraph g = true)
    (hx : MsExpressible g = true) (hex : ExactProportions g = true) (hcs : ConstSizes g = true)
    {N0 : Q} (hN : 0 < N0) {samples : Option (List Int)} (hs : samplesOk g samples = true)
    {toks : List (Tok Growth)} (htoks : toMs g N0 samples = .ok toks) (hc : CodecCovers c toks)
    {mg : MsGraph} (hfrom : fromMs (renderG c sa toks) N0 none = .ok mg) :
    ∃ sem rs gs, msSem (renderG c sa toks) N0 = .ok sem ∧ resultSem mg = .ok rs
      ∧ graphSem (inGenerations g) none = .ok gs
      ∧ semEquivSizesMigs sem rs = true ∧ SemRefines sem gs ∧ SemRefinesSizesMigs rs gs := by
  obtain ⟨toks', cmd, semG, gs, h1, h2, h3, h4, h5⟩ := Demes.Proofs.ToMs.toMs_sem hv hx hex hN hs
  have : toks' = toks := by rw [htoks] at h1; cases h1; rfl
  subst this
  obtain ⟨b1, b2, b3, b4, b5⟩ := toMs_bridge c sa hv hx hcs hN hs htoks hc
  have hcmd : cmd = ⟨headerOf (inGenerations g) samples, finalEvs (inGenerations g) N0⟩ := by
    rw [b2] at h2; cases h2; rfl
  subst hcmd
  obtain ⟨hsem, _, hwf, hchron, hdim⟩ := b5 semG h3
  have cl := clauses_of_valid (InGen.inGenerations_valid g hv)
  have hx' : MsExpressible (inGenerations g) = true := by rw [expr_inGen]; exact hx
  have hgs : gs = gSem (inGenerations g) := by
    rw [graphSem_ok cl hx'] at h4; cases h4; rfl
  have htiles := MsRT.Tr.graphSem_tiles (InGen.inGenerations_valid g hv)
    (show graphSemWith Sz.ofQ (inGenerations g) none = .ok gs from h4)
  have hrefA : SemRefines (embedSem semG) gs :=
    semRefines_embed semG gs h5 hwf hchron hdim htiles (by rw [hgs]; exact gSem_ids cl)
  obtain ⟨rs, hrs, heq⟩ := fromMs_sizes_migs_plain hfrom hsem b3 b4
  have hA : ∀ p ∈ (embedSem semG).pops, Tiles p.lo p.segs p.hi := by
    intro p hp
    simp only [embedSem] at hp
    obtain ⟨q, hq, rfl⟩ := List.mem_map.1 hp
    exact (embedPop_tiles (hwf q hq)).1
  have hB : ∀ p ∈ rs.pops, Tiles p.lo p.segs p.hi := fun p hp =>
    (MsRT.Tr.graphSem_tiles (Demes.Proofs.FromMs.fromMs_valid hfrom)
      (show graphSemWith mg.size mg.graph _ = .ok rs from hrs) p hp).1
  exact ⟨embedSem semG, rs, gs, hsem, hrs, h4, heq, hrefA, sizesMigs_of_equiv heq hrefA hA hB⟩

/-- **graph → ms → graph without the lineage movements, for every valid ms-expressible graph of constant sizes
whose printed command `from_ms` accepts** (no condition on the pulses, none on the ancestry proportions: the
comparison is with `normalizeProportions g`) -/
theorem ms_roundtrip_sizes_migs (c : NumCodec) (sa : Growth → String) {g : Graph} (hv : validGraph g = true)
    (hx : MsExpressible g = true) (hcs : ConstSizes g = true)
    {N0 : Q} (hN : 0 < N0) {samples : Option (List Int)} (hs : samplesOk g samples = true)
    {toks : List (Tok Growth)} (htoks : toMs g N0 samples = .ok toks) (hc : CodecCovers c toks)
    {mg : MsGraph} (hfrom : fromMs (renderG c sa toks) N0 none = .ok mg) :
    ∃ sem rs gs, msSem (renderG c sa toks) N0 = .ok sem ∧ resultSem mg = .ok rs
      ∧ graphSem (inGenerations (normalizeProportions g)) none = .ok gs
      ∧ semEquivSizesMigs sem rs = true ∧ SemRefines sem gs ∧ SemRefinesSizesMigs rs gs :=
  ms_roundtrip_sizes_migs_exact c sa (ToMsNorm.validGraph_norm hv) (by rw [ToMsNorm.expr_norm]; exact hx)
    (ToMsNorm.exact_norm (clauses_of_valid hv).h4) (by rw [MsRT.constSizes_norm]; exact hcs) hN
    (samples := samples) (by rw [ToMsNorm.samplesOk_norm]; exact hs)
    (by rw [ToMsNorm.toMs_norm hv hx hN hs]; exact htoks) hc hfrom

/-! ### the same with exponential epochs -/

/-- **graph → ms → graph with exponential epochs, without the lineage movements**, exact ancestry proportions -/
theorem ms_roundtrip_growth_sizes_migs_exact (c : NumCodec) (sa : Growth → String) {g : Graph} (hv : validGraph g = true)
    (hx : MsExpressible g = true) (hex : ExactProportions g = true)
    {N0 : Q} (hN : 0 < N0) {samples : Option (List Int)} (hs : samplesOk g samples = true)
    {toks : List (Tok Growth)} (htoks : toMs g N0 samples = .ok toks) (hc : CodecCovers c toks)
    (hsa : GrowthPrinter sa (epochGrowths g N0))
    {mg : MsGraph} (hfrom : fromMs (renderG c sa toks) N0 none = .ok mg) :
    ∃ sem rs gs, msSem (renderG c sa toks) N0 = .ok sem ∧ resultSem mg = .ok rs
      ∧ graphSem (inGenerations g) none = .ok gs
      ∧ semEquivSizesMigs sem rs = true
      ∧ SemRefines sem (regrow (growthVal sa) N0 gs) ∧ SemRefinesSizesMigs rs (regrow (growthVal sa) N0 gs) := by
  have cl := clauses_of_valid (InGen.inGenerations_valid g hv)
  have hx' : MsExpressible (inGenerations g) = true := by rw [expr_inGen]; exact hx
  have hex' : ExactProportions (inGenerations g) = true := by rw [ToMs.exact_inGen]; exact hex
  obtain ⟨b1, b2, b3, b4, b5⟩ := MsGrow.toMs_bridgeV c sa hv hx hN hs htoks hc hsa
  obtain ⟨semG, hsemG, _, _, _⟩ := ToMs.msSemG_finalEvs cl hx' hN samples
  obtain ⟨hsem, hwf, hchron, hdim⟩ := b5 semG hsemG
  have hrefA : SemRefines (embedSemV (growthVal sa) N0 semG) (regrow (growthVal sa) N0 (gSem (inGenerations g))) :=
    MsGrow.semRefines_embedV cl hx' hex' hN hsa.zero (fun G => G ∈ epochGrowths g N0)
      (fun d hd e he => MsGrow.mem_epochGrowths hd he) (fun G G' h1 h2 h3 => hsa.congr G h1 G' h2 h3)
      samples hsemG hwf hchron hdim
  obtain ⟨rs, hrs, heq⟩ := fromMs_sizes_migs_plain hfrom hsem b3 b4
  have hA : ∀ p ∈ (embedSemV (growthVal sa) N0 semG).pops, Tiles p.lo p.segs p.hi := by
    intro p hp
    simp only [embedSemV] at hp
    obtain ⟨q, hq, rfl⟩ := List.mem_map.1 hp
    exact (MsGrow.embedPopV_tiles (growthVal sa) N0 (hwf q hq)).1
  have hB : ∀ p ∈ rs.pops, Tiles p.lo p.segs p.hi := fun p hp =>
    (MsRT.Tr.graphSem_tiles (Demes.Proofs.FromMs.fromMs_valid hfrom)
      (show graphSemWith mg.size mg.graph _ = .ok rs from hrs) p hp).1
  exact ⟨_, rs, _, hsem, hrs, graphSem_ok cl hx', heq, hrefA, sizesMigs_of_equiv heq hrefA hA hB⟩

/-- **graph → ms → graph with exponential epochs, without the lineage movements, for every valid ms-expressible
graph whose printed command `from_ms` accepts** -/
theorem ms_roundtrip_growth_sizes_migs (c : NumCodec) (sa : Growth → String) {g : Graph} (hv : validGraph g = true)
    (hx : MsExpressible g = true)
    {N0 : Q} (hN : 0 < N0) {samples : Option (List Int)} (hs : samplesOk g samples = true)
    {toks : List (Tok Growth)} (htoks : toMs g N0 samples = .ok toks) (hc : CodecCovers c toks)
    (hsa : GrowthPrinter sa (epochGrowths g N0))
    {mg : MsGraph} (hfrom : fromMs (renderG c sa toks) N0 none = .ok mg) :
    ∃ sem rs gs, msSem (renderG c sa toks) N0 = .ok sem ∧ resultSem mg = .ok rs
      ∧ graphSem (inGenerations (normalizeProportions g)) none = .ok gs
      ∧ semEquivSizesMigs sem rs = true
      ∧ SemRefines sem (regrow (growthVal sa) N0 gs) ∧ SemRefinesSizesMigs rs (regrow (growthVal sa) N0 gs) :=
  ms_roundtrip_growth_sizes_migs_exact c sa (ToMsNorm.validGraph_norm hv) (by rw [ToMsNorm.expr_norm]; exact hx)
    (ToMsNorm.exact_norm (clauses_of_valid hv).h4) hN
    (samples := samples) (by rw [ToMsNorm.samplesOk_norm]; exact hs)
    (by rw [ToMsNorm.toMs_norm hv hx hN hs]; exact htoks) hc (by rw [MsGrow.epochGrowths_norm]; exact hsa) hfrom

#print axioms ms_roundtrip_growth_sizes_migs_exact
#print axioms ms_roundtrip_growth_sizes_migs
#print axioms toMs_output_tame2
#print axioms toMs_output_tame2V
#print axioms ms_roundtrip_sizes_migs_exact
#print axioms ms_roundtrip_sizes_migs

end Demes.Proofs.MsTame2
