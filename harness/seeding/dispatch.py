#!/usr/bin/env python3
"""poll out_*/notes.json; evaluate every (prop, k) once, at most one evaluation per copy at a time"""
import glob, json, os, subprocess, sys, time
done = set()
running = {}   # copy -> (Popen, job)
log = open("/tmp/seed8/dispatch.log", "a")
def ready():
    out = []
    for f in sorted(glob.glob("/tmp/seed8/out_C*/notes.json")):
        prop = f.split("out_")[1].split("/")[0]
        try:
            notes = json.load(open(f))
        except Exception:
            continue
        for x in notes:
            k = x.get("k")
            if os.path.exists(f"/tmp/seed8/out_{prop}/change_{k}.diff") and os.path.exists(f"/tmp/seed8/out_{prop}/demo_{k}.py"):
                out.append((prop, k))
    return out
t_end = time.time() + float(sys.argv[1]) if len(sys.argv) > 1 else time.time() + 7200
while time.time() < t_end:
    for n in list(running):
        p, job = running[n]
        if p.poll() is not None:
            log.write(p.stdout.read().decode(errors="replace")); log.flush()
            del running[n]
    busy_props = {job[0] for _, job in running.values()}
    for job in ready():
        if job in done or job[0] in busy_props:
            continue
        free = [n for n in (1, 2, 3) if n not in running]
        if not free:
            break
        n = free[0]
        done.add(job); busy_props.add(job[0])
        running[n] = (subprocess.Popen(["python3", "/tmp/seed8/eval.py", str(n), job[0], str(job[1])], cwd="/tmp/seed8", stdout=subprocess.PIPE, stderr=subprocess.STDOUT), job)
    if len(done) >= 40 and not running:
        break
    time.sleep(10)
log.write("dispatcher finished\n"); log.flush()
