/-
  C09 — "Graph to ms and back preserves the model … Every ms option string the library prints
  parses back to an option of the same kind with the same indices and the same values (exactly
  for non-negative numbers, to ten decimal places for negative ones, which are printed in
  fixed-point form)."

  What the Model does with numbers.  `Event.print` / `Structure.print` (`__str__`) emit abstract
  tokens (`Tok`): flag, integer, number (`Num`: exact rational or IEEE special), raw string.  How
  a number token becomes characters is `float_str` = `str(a)` / `format(a, ".10f")`, i.e.
  `float.__repr__`: below the Model.  The parser side (`parseKnownArgs`, `pyFloat`) works on
  strings and reads a decimal string as its exact rational value.  Hence the explicit number
  codec hypothesis `Spec.C09.NumCodec` (`Spec/C09.lean`): a printing function `str` with a domain
  `dom` such that on `dom`
    * a number that is not negative (`≥ 0`, `inf`, `nan`) is printed without a leading `-` and
      `float` gives it back *exactly*;
    * a negative finite number is printed `-d…d.dddddddddd` (ten decimals) and `float` of that is
      a non-positive number within `5·10⁻¹¹`.
  The domain is needed because no finite decimal string denotes e.g. 1/3 exactly; on the real
  side it is "the doubles" (`float(repr(x)) == x`).  `Proofs.MsPrint.tableCodec` is a concrete
  instance (zero, dyadic values, 1e-12, 1e12, 1e±300, negative values, `inf`, `nan`), so the
  hypothesis is satisfiable.  Integers need no hypothesis: `str(i)` is `toString i` and
  `int(str(i)) = i` is proved.  `codecEvent c e` says every number of `e` is in the codec's
  domain, no number is `-inf`, and the time is not NaN; `validEvent e` is what the `attrs`
  validators of the record enforce.

  First sentence ("graph to ms and back preserves the model"): §4 (one deme; the F6 counterexample;
  closed instances) and §5 — the composition of C07 and C08 through a bridge between the two ms
  interpreters, for graphs of constant sizes: `toMs_msSem_bridge`, `ms_roundtrip_sem_partial`,
  `toMs_output_tame`, `ms_roundtrip_sem_tame`, with the witnesses for the hypotheses that are forced; §6 —
  acceptance: `from_ms` accepts the command `to_ms` prints (`ms_roundtrip_accepts`, with the stage theorems
  `toMs_output_parses`, `buildState_never_raises`, `toMs_output_buildState_ok`, `toMs_output_finishDoc_ok`), hence
  the round trip without the acceptance hypothesis (`ms_roundtrip_sem`); §7 — "with the same N0 and the same
  deme names": `ms_roundtrip_names_accepts`, `ms_roundtrip_names` (by name; the ORDER of the demes is that of the
  graph only when it lists its demes by start time: `ms_roundtrip_names_order_counterexample` / `_partial`), on
  top of the invariance of the observable under renaming (`graphSem_rename_invariant`).
  §9 — the wider fragment `Tame2` of C08 against `to_ms` output: `Tame2 = Tame'` there, both exactly `PulsesTame`
  (`toMs_output_tame2`), so the order clause of `PulsesTame` cannot be weakened through `Tame2`; pulse chains are
  outside and, by evaluation, converted correctly (`ms_roundtrip_chains_outside_tame2`); without any condition on the
  pulses everything but the lineage movements comes back, given acceptance (`ms_roundtrip_sizes_migs`).
  §10 — the third fragment `Tame3` of C08 contains the chains: with `PulsesBelowOne g` (every pulse proportion below one)
  in the place of `PulsesTame g`, the printed command is in `Tame3` (`toMs_output_tame3`), `from_ms` accepts it
  (`ms_roundtrip_accepts3`), and the round trip holds (`ms_roundtrip_sem_all3`, `ms_roundtrip_growth_sem_all3`,
  `ms_roundtrip_names3`); the only hypothesis left on the pulses is F6's.

  Chain printer ↔ parser ↔ source: `parser_arity_matches_printer` (the printer emits as many
  tokens as `Ms.arity` demands), `dest_matches_table`, and `Tables.tables_ms_model_arity` /
  `Tables.tables_ms_model_dest` (`Theorems/TablesMsModel.lean`: `Ms.arity` and the destination
  lists equal the table regenerated from `build_parser` in the Python source).
-/
import DemesVerif.Proofs.MsPrint
import DemesVerif.Proofs.MsRoundTripExamples
import DemesVerif.Proofs.MsRTExamples
import DemesVerif.Proofs.MsRTTameExamples
import DemesVerif.Proofs.MsRTNormExamples
import DemesVerif.Proofs.MsAccExamples
import DemesVerif.Proofs.MsAccValidators
import DemesVerif.Proofs.MsNamesExamples
import DemesVerif.Proofs.MsGrowExamples
import DemesVerif.Proofs.MsTame2Examples
import DemesVerif.Proofs.MsRT3Final
import DemesVerif.Theorems.TablesMsModel
namespace Demes.Theorems
open Demes Demes.Ms Demes.Spec.C09
open Demes.Proofs.MsPrint (tableCodec growthStr twoDemePulse branchMig roundTripSem maRecord nanTimeRecord)

/-! ## 1. Printed tokens are never taken for option flags -/

/-- No printed numeric token is classified as an option flag by the Model's `classify`
(`_parse_optional`): a number that is not negative does not begin with `-`; a negative finite
number is printed in fixed-point form, which argparse's negative-number rule
(`^-\d+$|^-\d*\.\d+$`, the parser having no option that looks like a negative number) takes for
an argument; integers (`str(i)`, negative ones included) and the `x` of a matrix diagonal are
arguments too. -/
theorem printed_numbers_are_not_flags (c : NumCodec) :
    (∀ x, c.ok x → classify (c.str x) = .ok .arg) ∧
    (∀ i : Int, classify (toString i) = .ok .arg) ∧
    classify "x" = .ok .arg :=
  Proofs.MsPrint.printed_numbers_are_not_flags c

/-- Why the fixed-point form matters: the exponent form of a negative number is neither a
negative number nor an option for argparse (the option before it would miss an argument). -/
theorem negative_exponent_form_is_not_an_argument :
    classify "-1e-05" = .ok .unknown ∧ classify "-0.0000100000" = .ok .arg :=
  Proofs.MsPrint.negative_exponent_form_is_not_an_argument

/-- `int(str(i)) = i` -/
theorem int_round_trip (i : Int) : cInt (toString i) = .ok i := Proofs.MsPrint.cInt_toString i

/-! ## 2. print → parse -/

/-- **Every option record except `MigrationMatrixChange` with `t = 0`.**  For every constructor
of `Event` (`-G`/`-eG`, `-g`/`-eg`, `-eN`, `-n`/`-en`, `-eM`, `-m`/`-em`, `-ema`, `-es`, `-ej`): whatever
`str(e)` prints, `parse_known_args` of it succeeds and holds exactly one option, in the list the
flag is registered for (`initial_state` when `t = 0`, `demographic_events` when `t > 0`, for the
options that have both forms), nothing else (no structure, no unknown tokens); that option is of
the same kind, made by the printed flag, with the same time and indices, the same values in
every position that cannot be negative, a `numClose` growth rate (equal when not negative,
within `5·10⁻¹¹` when negative), and for `-ema` the same `npop` and an entrywise `numClose`
matrix with the `x` diagonal read as 0. -/
theorem print_parse_option_partial (c : NumCodec) (e : Event Num) (hv : validEvent e) (hc : codecEvent c e)
    (hne : ¬ (isMigMatrix e = true ∧ numPos e.t = false))
    (toks : List (Tok Num)) (hprint : e.print = .ok toks) :
    ∃ e', parseKnownArgs (render c toks) = .ok (Args.single (destOf e) e') ∧ sameOption (flagOf e) e e' :=
  Proofs.MsPrint.print_parse_option_partial c e hv hc hne toks hprint

/-- Exactness: a record without a negative growth rate that is not a migration matrix comes back
identical (with `opt` the printed flag). -/
theorem print_parse_option_exact (c : NumCodec) (e : Event Num) (hv : validEvent e) (hc : codecEvent c e)
    (hm : isMigMatrix e = false) (ha : alphaNonNeg e)
    (toks : List (Tok Num)) (hprint : e.print = .ok toks) :
    parseKnownArgs (render c toks) = .ok (Args.single (destOf e) (withOpt e (flagOf e))) :=
  Proofs.MsPrint.print_parse_option_exact c e hv hc hm ha toks hprint

/-- every record that is not a migration matrix does print (`M` of a matrix may raise) -/
theorem print_succeeds (e : Event Num) (hm : isMigMatrix e = false) : ∃ toks, e.print = .ok toks :=
  Proofs.MsPrint.print_succeeds e hm

/-- **`-I npop n₁ … [rate]`**, with a rate (`rate > 0` is printed last and read back by the
`len(n) == npop + 1` rule of `from_nargs`) and without (`rate = 0`): the same `Structure` comes
back and nothing else.  The sample strings must be argument-like … -/
theorem print_parse_structure (c : NumCodec) (s : Structure) (hv : validStructure s)
    (hc : c.ok s.rate) (hnan : s.rate ≠ .nan) (hn : ∀ x ∈ s.n, classify x = .ok .arg) :
    parseKnownArgs (render c s.print) = .ok { structure_ := some s } :=
  Proofs.MsPrint.pp_structure c s hv hc hnan hn

/-- … which the integers `to_ms` prints are. -/
theorem print_parse_structure_samples (c : NumCodec) (s : Structure) (samples : List Int)
    (hv : validStructure s) (hc : c.ok s.rate) (hnan : s.rate ≠ .nan) (hn : s.n = samples.map toString) :
    parseKnownArgs (render c s.print) = .ok { structure_ := some s } :=
  Proofs.MsPrint.pp_structure_samples c s samples hv hc hnan hn

/-! ### the `-ma` case (F20) -/

/-- **F20, concrete.**  `MigrationMatrixChange(0, 2, ["x", "1.0", "0.5", "x"])` is a valid record
inside the codec's domain; it prints `-ma 2 x 1.0 0.5 x`; `-ma` takes no `npop`, so the parser
makes a record with `npop = 1` and the five strings as entries: not the same option. -/
theorem print_parse_ma_counterexample :
    validEvent maRecord ∧ codecEvent tableCodec maRecord ∧
    ∃ toks, maRecord.print = .ok toks ∧ render tableCodec toks = ["-ma", "2", "x", "1.0", "0.5", "x"] ∧
      parseKnownArgs (render tableCodec toks) =
        .ok { initialState := [.migMatrixChange "-ma" (.fin 0) 1 ["2", "x", "1.0", "0.5", "x"]] } ∧
      ¬ ∃ e', parseKnownArgs (render tableCodec toks) = .ok (Args.single (destOf maRecord) e')
            ∧ sameOption (flagOf maRecord) maRecord e' :=
  Proofs.MsPrint.print_parse_ma_counterexample

/-- **F20, in general.**  No `MigrationMatrixChange` with `t = 0` parses back from its printed
form, whatever `npop` and the entries (the parsed entry list is one longer than `npop²`). -/
theorem print_parse_ma_never (c : NumCodec) (o : String) (t : Num) (npop : Int) (mm : List String)
    (hc : codecEvent c (.migMatrixChange o t npop mm)) (hp : numPos t = false)
    (toks : List (Tok Num)) (hprint : (Event.migMatrixChange o t npop mm).print = .ok toks) :
    ¬ ∃ e', parseKnownArgs (render c toks) = .ok (Args.single .initialState e')
          ∧ sameOption "-ma" (.migMatrixChange o t npop mm) e' :=
  Proofs.MsPrint.print_parse_ma_never c o t npop mm hc hp toks hprint

/-! ### edge cases outside the hypotheses (why they are hypotheses) -/

/-- A NaN time passes `non_negative` but `t > 0` is false: `PopulationSizeChange(nan, 1, 1.0)`
prints `-n 1 1.0` and comes back with `t = 0`. -/
theorem print_parse_nan_time_counterexample :
    validEvent nanTimeRecord ∧
    ∃ toks, nanTimeRecord.print = .ok toks ∧ render tableCodec toks = ["-n", "1", "1.0"] ∧
      parseKnownArgs (render tableCodec toks) = .ok { initialState := [.popSizeChange "-n" (.fin 0) 1 (.fin 1)] } ∧
      ¬ ∃ e', parseKnownArgs (render tableCodec toks) = .ok (Args.single (destOf nanTimeRecord) e')
            ∧ sameOption (flagOf nanTimeRecord) nanTimeRecord e' :=
  Proofs.MsPrint.print_parse_nan_time_counterexample

/-- A matrix entry `-inf` (entries are not validated) is printed `-inf`, an unknown option for
argparse: `-ema` stops collecting there and the rest of the matrix is left over. -/
theorem print_parse_ema_ninf_counterexample :
    (parseKnownArgs ["-ema", "1.0", "2", "x", "-inf", "0.0", "x"]).toOption.map
        (fun a => (a.demographicEvents, a.unknown))
      = some ([.migMatrixChange "-ema" (.fin 1) 2 ["x"]], ["-inf", "0.0", "x"]) :=
  Proofs.MsPrint.print_parse_ema_ninf_counterexample

/-! ## 3. The printer against the arity table, and the table against the source -/

/-- For every constructor, the printed option is a flag followed by exactly as many argument
tokens as `Ms.arity` demands for that flag (`nargs = k`), or at least one (`nargs = '+'`: `-ma`,
`-ema`); no argument token is a flag.  (Any growth-rate type: also the records of `to_ms`.) -/
theorem parser_arity_matches_printer {α} (e : Event α) (toks : List (Tok α)) (h : e.print = .ok toks) :
    matchesArity toks :=
  Proofs.MsPrint.parser_arity_matches_printer e toks h

/-- the same for `-I` (`nargs = '+'`) -/
theorem parser_arity_matches_printer_structure {α} (s : Structure) : matchesArity (s.print (α := α)) :=
  Proofs.MsPrint.structure_arity s

/-- the list the printed record is sent to is the one registered for the printed flag -/
theorem dest_matches_table {α} (e : Event α) :
    (destOf e = .initialState ↔ flagOf e ∈ ["-n", "-g", "-G", "-m", "-ma"]) ∧
    (destOf e = .demographicEvents ↔ flagOf e ∈ ["-eG", "-eg", "-eN", "-en", "-eM", "-em", "-ema", "-es", "-ej"]) :=
  Proofs.MsPrint.dest_matches_table e

/-- … and `Ms.arity` / the two destination lists are those of `build_parser` in the Python source
(regenerated table; proved in `Theorems/TablesMsModel.lean`).  Printer ↔ parser ↔ source. -/
theorem parser_tables_match_source :
    ((Pinned.msParser.filter (fun r => r.1 ≠ "-f")).map (fun r => (r.1, r.2.1)))
        = Ms.arity.map (fun a => (a.1, Tables.nargsText a.2)) ∧
    ((Pinned.msParser.filter (fun r => r.2.2.2.1 = "'demographic_events'")).map (·.1))
      = ["-eG", "-eg", "-eN", "-en", "-eM", "-em", "-ema", "-es", "-ej"] ∧
    ((Pinned.msParser.filter (fun r => r.2.2.2.1 = "'initial_state'")).map (·.1))
      = ["-n", "-g", "-G", "-m", "-ma"] :=
  ⟨Tables.tables_ms_model_arity, Tables.tables_ms_model_dest⟩

/-! ## 4. Graph → ms → graph (first sentence; partial) -/

/-- **One deme of constant size.**  For a graph whose only deme has one constant-size epoch
(size `N > 0`, from the infinite past to the present; any time units, description, rates), and
any `N0 > 0`: `to_ms` succeeds; `from_ms` of the printed command with the same `N0` and the
deme's name succeeds and gives a graph in generations with that one deme, the same lifetime and
the same size — exactly (`(N/N0)·N0 = N` in the Model's rationals; no symbolic size remains).
Description and selfing/cloning rates are not expressible in ms and come back as defaults.
The deme's name must be an identifier (as it is in every valid graph): since the repair of F23
`rename_demes`, hence `from_ms(…, deme_names=…)`, rejects any other name
(`C08.fromMs_bad_names_rejected`). -/
theorem toMs_fromMs_structure (c : NumCodec) (sa : Growth → String) (g : Graph) (name desc : String)
    (N sr cr N0 : Q) (hN : 0 < N) (hN0 : 0 < N0) (hid : isIdentifier name = true)
    (hd : g.demes = [constDeme name desc N sr cr]) (hm : g.migrations = []) (hp : g.pulses = [])
    (hc : N0 ≠ N → c.ok (.fin (N / N0))) :
    ∃ toks mg, toMs g N0 none = .ok toks ∧ fromMs (renderG c sa toks) N0 (some [name]) = .ok mg ∧
      mg.graph.timeUnits = "generations" ∧ mg.graph.generationTime = 1 ∧
      mg.graph.demes = [constDeme name "" N 0 0] ∧ mg.graph.migrations = [] ∧ mg.graph.pulses = [] ∧
      mg.table = [] :=
  Proofs.MsPrint.toMs_fromMs_structure c sa g name desc N sr cr N0 hN hN0 hid hd hm hp hc

/-- **F6.**  The general round trip is false: a valid two-deme graph with a pulse of proportion
1 (`A → B` at time 4, `N0 = 1`) is printed `-I 2 0 0 -es 1.0 2 0.0 -ej 1.0 3 1`, and `from_ms`
of that command fails. -/
theorem ms_roundtrip_pulse1_counterexample :
    Spec.validGraph (twoDemePulse 1) = true ∧
    (toMs (twoDemePulse 1) 1 none).toOption.map (renderG tableCodec growthStr)
      = some ["-I", "2", "0", "0", "-es", "1.0", "2", "0.0", "-ej", "1.0", "3", "1"] ∧
    (fromMs ["-I", "2", "0", "0", "-es", "1.0", "2", "0.0", "-ej", "1.0", "3", "1"] 1 (some ["A", "B"])).toOption.isSome
      = false :=
  Proofs.MsPrint.ms_roundtrip_pulse1_counterexample

/-- The same graph with proportion 1/2 goes round: `from_ms(to_ms(g))` denotes the same
demography (independent `graphSem`). -/
theorem ms_roundtrip_pulse_half :
    Spec.validGraph (twoDemePulse (1/2)) = true ∧
    (roundTripSem (twoDemePulse (1/2)) 1 ["A", "B"]).isSome = true ∧
    roundTripSem (twoDemePulse (1/2)) 1 ["A", "B"]
      = (Spec.MsSem.graphSem (inGenerations (twoDemePulse (1/2))) (some ["A", "B"])).toOption :=
  Proofs.MsPrint.ms_roundtrip_pulse_half

/-- Ancestry (`-ej`), sizes (`-n`) and a migration (`-m`) go round on a concrete graph. -/
theorem ms_roundtrip_branch_migration :
    Spec.validGraph branchMig = true ∧
    (toMs branchMig 1 none).toOption.map (renderG tableCodec growthStr)
      = some ["-I", "2", "0", "0", "-n", "1", "2.0", "-n", "2", "0.5", "-m", "2", "1", "0.5", "-ej", "1.0", "2", "1"] ∧
    (roundTripSem branchMig 1 ["A", "B"]).isSome = true ∧
    roundTripSem branchMig 1 ["A", "B"]
      = (Spec.MsSem.graphSem (inGenerations branchMig) (some ["A", "B"])).toOption :=
  Proofs.MsPrint.ms_roundtrip_branch_migration

/-! ## 5. Graph → ms → graph, by composing C07 and C08 (first sentence; partial)

**The statement at full strength** — for every valid ms-expressible graph `g` and `N0 > 0`,
`from_ms(to_ms(g, N0), N0)` returns a graph that describes the demography of `g` — is FALSE:
`ms_roundtrip_pulse1_counterexample` above (F6: a pulse of proportion 1 is printed `-es t d 0.0 -ej …`
and `from_ms` rejects the command).  What is proved is the composition of

* C07 (`toMs_sem_partial`): the typed command `to_ms` emits, read by the interpreter `C07.msSemG`
  (typed option records, symbolic growth rates), denotes the demography of `g`;
* C08 (`fromMs_sem_plain`): the graph `from_ms` builds from a plain command line in the fragment
  `Tame'` denotes the demography the interpreter `MsSem.msSem` (strings, rational growth rates) gives
  the command;
* the **bridge** between the two interpreters (`toMs_msSem_bridge`): on the command `to_ms` prints for
  a graph of constant sizes, `msSem` of the printed strings is the image under `embedSem` of `msSemG`
  of the typed records.  A non-zero growth rate `-ln(r)/dt` is a real number that `to_ms` prints as a
  rounded decimal: the bridge for it needs real analysis and float rounding, hence `ConstSizes`.

"Describes the demography of `g`" is `Spec.C09.SemRefines rs gs` (Spec/C09.lean): `rs` is the observable
of the returned graph read with "population `k` is `deme{k}`" (`C08.resultSem`), `gs` the observable of
`g` in generations read with "population `k` is the `k`-th deme" (`MsSem.graphSem`); the same
populations in the same order, each ending where the graph's deme starts; at EVERY time of a deme's
lifetime the same size; the same migration rates on the lifetimes; the same lineage movements
restricted to the lifetimes.  (An ms population exists from time 0, a deme may end before the
present: nothing is, or can be, said about the returned graph before a deme's `end_time`.) -/

open Demes.Spec.C07 (MsExpressible samplesOk ExactProportions normalizeProportions parseCmd msSemG)
open Demes.Spec.C08 (PlainTokens Tame' resultSem semEquiv)
open Demes.Spec.MsSem (msSem graphSem)
open Demes.Proofs.MsRT (roundTripHyps admixture twoEpochs roundTripAgainst refinesAt branchMigSize branchMigRate branchMigTime)

/-- **The bridge (stage 1).**  For a valid ms-expressible graph of constant sizes (`ConstSizes`: every
epoch has equal start and end sizes, so no `-g` / `-eg` is emitted), `N0 > 0`, well-formed `samples`,
and a number codec that covers the numbers of the command `to_ms` emits: the typed command reads
back (`parseCmd`) as a command `cmd` to which the typed interpreter gives a meaning `semG` without
growth rates; the printed command line is plain (`PlainTokens`, the domain on which argparse and the
parser of the ms interpreter agree); and the string interpreter gives the printed command the meaning
`embedSem semG` — the update lists of `semG` evaluated into constant segments, its matrix snapshots
run-length encoded into the migration step function, its lineage movements unchanged. -/
theorem toMs_msSem_bridge (c : NumCodec) (sa : Growth → String) {g : Graph} (hv : Spec.validGraph g = true)
    (hx : MsExpressible g = true) (hcs : ConstSizes g = true) {N0 : Q} (hN : 0 < N0)
    {samples : Option (List Int)} (hs : samplesOk g samples = true) {toks : List (Tok Growth)}
    (htoks : toMs g N0 samples = .ok toks) (hc : CodecCovers c toks) :
    ∃ cmd semG, parseCmd toks = some cmd ∧ msSemG cmd N0 = .ok semG ∧ GrowthFree semG = true
      ∧ PlainTokens (renderG c sa toks) = true
      ∧ msSem (renderG c sa toks) N0 = .ok (embedSem semG) :=
  Proofs.MsRT.toMs_msSem_bridge c sa hv hx hcs hN hs htoks hc

/-- **Graph → ms → graph (stage 2).**  Let `g` be a valid ms-expressible graph of constant sizes whose
ancestry proportions sum to exactly one (C07's hypothesis), `N0 > 0`, and `c` a number codec that
covers the numbers of the command `to_ms` emits.  If `from_ms` accepts the printed command (a
hypothesis: F6) and the command lies in the fragment `Tame'` on which C08 proves the lineage
movements, then: the printed command has a meaning `sem` under the ms interpreter; the returned graph
has an observable `rs`, equivalent to `sem` (C08's `semEquiv`); the graph `g` has an observable `gs`;
and both `sem` and `rs` describe the demography `gs` of `g` on the lifetimes of its demes. -/
theorem ms_roundtrip_sem_partial (c : NumCodec) (sa : Growth → String) {g : Graph} (hv : Spec.validGraph g = true)
    (hx : MsExpressible g = true) (hex : ExactProportions g = true) (hcs : ConstSizes g = true)
    {N0 : Q} (hN : 0 < N0) {samples : Option (List Int)} (hs : samplesOk g samples = true)
    {toks : List (Tok Growth)} (htoks : toMs g N0 samples = .ok toks) (hc : CodecCovers c toks)
    {mg : MsGraph} (hfrom : fromMs (renderG c sa toks) N0 none = .ok mg)
    {pr : Spec.MsSem.Parsed} (hpr : Spec.MsSem.parse (renderG c sa toks) = .ok pr) (ht : Tame' pr = true) :
    ∃ sem rs gs, msSem (renderG c sa toks) N0 = .ok sem ∧ resultSem mg = .ok rs
      ∧ graphSem (inGenerations g) none = .ok gs
      ∧ semEquiv sem rs = true ∧ SemRefines sem gs ∧ SemRefines rs gs :=
  Proofs.MsRT.ms_roundtrip_sem_partial c sa hv hx hex hcs hN hs htoks hc hfrom hpr ht

/-- **`Tame'` from a condition on the graph (stage 3a).**  If moreover the pulses are tame
(`PulsesTame`: every proportion below one; of two pulses at the same time the one listed first does
not go into the source of the one listed later), the command `to_ms` prints is read by the ms parser
as a command in `Tame'` … -/
theorem toMs_output_tame (c : NumCodec) (sa : Growth → String) {g : Graph} (hv : Spec.validGraph g = true)
    (hx : MsExpressible g = true) (hcs : ConstSizes g = true) (hpt : PulsesTame g = true) {N0 : Q} (hN : 0 < N0)
    {samples : Option (List Int)} (hs : samplesOk g samples = true) {toks : List (Tok Growth)}
    (htoks : toMs g N0 samples = .ok toks) (hc : CodecCovers c toks) :
    ∃ pr, Spec.MsSem.parse (renderG c sa toks) = .ok pr ∧ Tame' pr = true :=
  Proofs.MsRT.toMs_tame c sa hv hx hcs hpt hN hs htoks hc

/-- … so that the round trip holds with conditions on the graph only, plus acceptance by `from_ms`. -/
theorem ms_roundtrip_sem_tame (c : NumCodec) (sa : Growth → String) {g : Graph} (hv : Spec.validGraph g = true)
    (hx : MsExpressible g = true) (hex : ExactProportions g = true) (hcs : ConstSizes g = true)
    (hpt : PulsesTame g = true)
    {N0 : Q} (hN : 0 < N0) {samples : Option (List Int)} (hs : samplesOk g samples = true)
    {toks : List (Tok Growth)} (htoks : toMs g N0 samples = .ok toks) (hc : CodecCovers c toks)
    {mg : MsGraph} (hfrom : fromMs (renderG c sa toks) N0 none = .ok mg) :
    ∃ sem rs gs, msSem (renderG c sa toks) N0 = .ok sem ∧ resultSem mg = .ok rs
      ∧ graphSem (inGenerations g) none = .ok gs
      ∧ semEquiv sem rs = true ∧ SemRefines sem gs ∧ SemRefines rs gs :=
  Proofs.MsRT.ms_roundtrip_sem_tame c sa hv hx hex hcs hpt hN hs htoks hc hfrom

/-- **Without `ExactProportions`.**  `to_ms` renormalises the ancestry proportions of a deme, so the
command it emits is the one it emits for `normalizeProportions g` (Spec/C07Sem.lean: every deme's
proportions divided by their sum; C07's `toMs_sem`, `normalizeProportions_close`).  For every valid
ms-expressible graph of constant sizes the conclusion of `ms_roundtrip_sem_partial` holds with the
demography `gs` of the normalised graph. -/
theorem ms_roundtrip_sem_norm (c : NumCodec) (sa : Growth → String) {g : Graph} (hv : Spec.validGraph g = true)
    (hx : MsExpressible g = true) (hcs : ConstSizes g = true)
    {N0 : Q} (hN : 0 < N0) {samples : Option (List Int)} (hs : samplesOk g samples = true)
    {toks : List (Tok Growth)} (htoks : toMs g N0 samples = .ok toks) (hc : CodecCovers c toks)
    {mg : MsGraph} (hfrom : fromMs (renderG c sa toks) N0 none = .ok mg)
    {pr : Spec.MsSem.Parsed} (hpr : Spec.MsSem.parse (renderG c sa toks) = .ok pr) (ht : Tame' pr = true) :
    ∃ sem rs gs, msSem (renderG c sa toks) N0 = .ok sem ∧ resultSem mg = .ok rs
      ∧ graphSem (inGenerations (normalizeProportions g)) none = .ok gs
      ∧ semEquiv sem rs = true ∧ SemRefines sem gs ∧ SemRefines rs gs :=
  Proofs.MsRT.ms_roundtrip_sem_norm c sa hv hx hcs hN hs htoks hc hfrom hpr ht

/-- … and with `Tame'` replaced by the graph condition `PulsesTame`. -/
theorem ms_roundtrip_sem_tame_norm (c : NumCodec) (sa : Growth → String) {g : Graph} (hv : Spec.validGraph g = true)
    (hx : MsExpressible g = true) (hcs : ConstSizes g = true) (hpt : PulsesTame g = true)
    {N0 : Q} (hN : 0 < N0) {samples : Option (List Int)} (hs : samplesOk g samples = true)
    {toks : List (Tok Growth)} (htoks : toMs g N0 samples = .ok toks) (hc : CodecCovers c toks)
    {mg : MsGraph} (hfrom : fromMs (renderG c sa toks) N0 none = .ok mg) :
    ∃ sem rs gs, msSem (renderG c sa toks) N0 = .ok sem ∧ resultSem mg = .ok rs
      ∧ graphSem (inGenerations (normalizeProportions g)) none = .ok gs
      ∧ semEquiv sem rs = true ∧ SemRefines sem gs ∧ SemRefines rs gs :=
  Proofs.MsRT.ms_roundtrip_sem_tame_norm c sa hv hx hcs hpt hN hs htoks hc hfrom

/-! ### the hypotheses that are forced, with their witnesses

* acceptance by `from_ms` (F6): `ms_roundtrip_acceptance_counterexample` — every other hypothesis of
  `ms_roundtrip_sem_partial` holds for `twoDemePulse 1` and `from_ms` rejects the command.  On the
  graphs of constant sizes tried (size change of an ancestor at its descendant's start, extinct
  demes, several pulses at one time, pulses at a deme's start, migrations that start late or stop
  early, three ancestors, years) no other rejection was found; that `from_ms` accepts the `to_ms`
  output of every `PulsesTame` graph of constant sizes is proved in §6 (`ms_roundtrip_accepts`), which
  discharges this hypothesis (`ms_roundtrip_sem`).
* `PulsesTame` is what `Tame'` needs of the graph (`toMs_tame_needs_pulse_order`,
  `toMs_tame_needs_pulse_below_one`); `Tame'` itself is the fragment on which C08 proves the lineage
  movements — sufficient, not necessary (`Proofs.MsRT.tame_not_necessary`: pulses `A → B`, `B → C` at
  one time are outside `PulsesTame` and `Tame'`, and go round correctly; so did, by evaluation outside
  the kernel, all 216 triples of same-time pulses between three constant demes).
* `ExactProportions` is C07's hypothesis (`toMs_sem_counterexample`) for the comparison with the graph
  as stored; `ms_roundtrip_sem_norm` / `ms_roundtrip_sem_tame_norm` do without it, comparing with the
  graph whose ancestry proportions are normalised.
* `ConstSizes` is forced by the method, not by a counterexample: see the head of this section. -/

/-- **acceptance is a hypothesis (F6).** -/
theorem ms_roundtrip_acceptance_counterexample :
    Spec.validGraph (twoDemePulse 1) = true ∧ MsExpressible (twoDemePulse 1) = true
    ∧ ExactProportions (twoDemePulse 1) = true ∧ ConstSizes (twoDemePulse 1) = true
    ∧ (match toMs (twoDemePulse 1) 1 none with
       | .ok toks => decide (CodecCovers tableCodec toks)
           && (msSem (renderG tableCodec growthStr toks) 1).toOption.isSome
           && !(fromMs (renderG tableCodec growthStr toks) 1 none).toOption.isSome
           && ((Spec.MsSem.parse (renderG tableCodec growthStr toks)).toOption.map Tame' == some false)
       | .error _ => false) = true
    ∧ PulsesTame (twoDemePulse 1) = false ∧ roundTripHyps (twoDemePulse 1) 1 = false :=
  Proofs.MsRT.acceptance_counterexample

open Demes.Proofs.MsRT (tameGraph chainPulses fullPulse prOf) in
/-- the order condition of `PulsesTame` is needed for `Tame'`: pulses `A → B` (listed first), `B → C` at
one time, every proportion below one: the graph is valid, ms-expressible, of constant sizes, not
`PulsesTame`, and the command `to_ms` prints (as the ms parser reads it) is outside `Tame'` -/
theorem toMs_tame_needs_pulse_order :
    Spec.validGraph (tameGraph chainPulses) = true ∧ MsExpressible (tameGraph chainPulses) = true
      ∧ ConstSizes (tameGraph chainPulses) = true ∧ PulsesTame (tameGraph chainPulses) = false
      ∧ Tame' (prOf (Proofs.ToMs.headerOf (inGenerations (tameGraph chainPulses)) none)
          (Proofs.ToMs.finalEvs (inGenerations (tameGraph chainPulses)) 1)) = false :=
  Proofs.MsRT.tame_needs_pulse_order

open Demes.Proofs.MsRT (tameGraph chainPulses fullPulse prOf) in
/-- the "below one" condition of `PulsesTame` is needed for `Tame'` (F6): a pulse of proportion 1 -/
theorem toMs_tame_needs_pulse_below_one :
    Spec.validGraph (tameGraph fullPulse) = true ∧ MsExpressible (tameGraph fullPulse) = true
      ∧ ConstSizes (tameGraph fullPulse) = true ∧ PulsesTame (tameGraph fullPulse) = false
      ∧ Tame' (prOf (Proofs.ToMs.headerOf (inGenerations (tameGraph fullPulse)) none)
          (Proofs.ToMs.finalEvs (inGenerations (tameGraph fullPulse)) 1)) = false :=
  Proofs.MsRT.tame_needs_pulse_below_one

/-! ## 6. Acceptance: `from_ms` accepts what `to_ms` prints (first sentence; the hypothesis of §5 discharged)

**The statement at full strength** — `from_ms` accepts the command `to_ms` prints for every valid
ms-expressible graph — is FALSE (`ms_roundtrip_accepts_counterexample_pulse1`: F6, a pulse of proportion 1).
What is proved: acceptance for every valid ms-expressible graph of constant sizes with tame pulses, through
the stages of `from_ms`:

1. `toMs_output_parses` — argparse (`parse_known_args`, which runs the converters and validators of every option
   record: `toMs_output_validators_ok`) accepts the printed command and reads the options the ms interpreter's
   parser reads (`ArgsAgree`);
2. `buildState_never_raises` (for EVERY command, not only `to_ms` output) — the event loop of `build_graph`
   (`convert_population_id`, `epoch_resolve`, the `-es` / `-ej` bookkeeping and its assertion, the matrices)
   raises nowhere on a command the ms interpreter runs; with the bridge of §5: `toMs_output_buildState_ok`;
3. `toMs_output_finishDoc_ok` — the final Builder state satisfies an invariant (`Proofs.MsAcc.AccInv`: epochs
   with positive exact sizes and strictly decreasing end times; a joined deme's open epoch ends before its
   start time or the deme is transient; ancestors exist at the start time and start strictly later, the
   proportions are positive and sum to one; pulses have one source different from the destination, a
   proportion in `(0, 1]`, a time inside both lifetimes; `Proofs.MsAcc.MigWF`: matrix entries are non-zero only
   inside both lifetimes, at most `4·N0`, rows sum to at most `4·N0` up to the tolerance of the validation),
   so that "resolve/remove growth_rate in oldest epochs", `_add_migrations_from_matrices`,
   `_remove_transient_demes` (its three assertions) and `_sort_demes_by_ancestry` succeed, and the document
   `build_graph` hands to `Builder.resolve` denotes an explicit graph (`Proofs.MsAcc.docGraph`, the value of the
   fill-in function `Spec.fill` of C03 on the document) that satisfies every clause V0–V13;
4. C03's completeness (`resolve_of_fill`): `resolve` returns that graph.

`ConstSizes` is forced by the method (see §5), `PulsesTame` by F6 for its first clause; its second clause (the
order of same-time pulses) is what the fragment `Tame'` of C08 needs — sufficient, not necessary, for
acceptance (`ms_roundtrip_accepts_order_not_necessary`).  `ExactProportions` is not needed for acceptance
(`to_ms` renormalises, and the proportions `from_ms` writes sum to exactly one). -/

open Demes.Proofs.MsAcc (prG acceptHyps accepted admixMig)

/-- **Stage 1: the parser.**  argparse accepts the printed command; what it reads agrees with what the
parser of the ms interpreter reads (`prG g N0 samples`: the header and the option records of `to_ms`, see
`Proofs/MsAccParse.lean`): the same number of populations, the same initial-state options and events. -/
theorem toMs_output_parses (c : NumCodec) (sa : Growth → String) {g : Graph} (hv : Spec.validGraph g = true)
    (hx : MsExpressible g = true) (hcs : ConstSizes g = true) {N0 : Q} (hN : 0 < N0)
    {samples : Option (List Int)} (hs : samplesOk g samples = true) {toks : List (Tok Growth)}
    (htoks : toMs g N0 samples = .ok toks) (hc : CodecCovers c toks) :
    ∃ args, parseKnownArgs (renderG c sa toks) = .ok args ∧ Spec.C08.ArgsAgree args (prG g N0 samples)
      ∧ Spec.MsSem.parse (renderG c sa toks) = .ok (prG g N0 samples) :=
  Proofs.MsAcc.toMs_output_parses c sa hv hx hcs hN hs htoks hc

/-- **Stage 1, the validators.**  Every option record argparse builds from the printed command passes the
validators of its class (`validEvent`: non-negative time, positive population indices, non-negative size /
rate, split fraction in the unit interval). -/
theorem toMs_output_validators_ok (c : NumCodec) (sa : Growth → String) {g : Graph} (hv : Spec.validGraph g = true)
    (hx : MsExpressible g = true) (hcs : ConstSizes g = true) {N0 : Q} (hN : 0 < N0)
    {samples : Option (List Int)} (hs : samplesOk g samples = true) {toks : List (Tok Growth)}
    (htoks : toMs g N0 samples = .ok toks) (hc : CodecCovers c toks) :
    ∃ args, parseKnownArgs (renderG c sa toks) = .ok args
      ∧ ∀ e ∈ args.initialState ++ args.demographicEvents, validEvent e :=
  Proofs.MsAcc.toMs_output_validators_ok c sa hv hx hcs hN hs htoks hc

/-- **Stage 2, in general: the event loop of `build_graph` never raises on a command the ms interpreter
runs.**  For every command on which argparse and the interpreter's parser agree (`ArgsAgree`, e.g. every plain
command line, `C08.parsers_agree`) and every `N0 > 0`: if the ms interpreter runs the command to the end
(`runState`: every option addresses a population that exists and has not been joined, matrices have the right
size), then `buildState` — the whole event loop with `convert_population_id`, `epoch_resolve`, the assertion
`lm[new_pid] == 0`, `matrixOf`, `finArg` — succeeds.  (The failures of `from_ms` on commands with a meaning —
F4, F6 — happen after the loop, in `resolve`.) -/
theorem buildState_never_raises {args : Args} {pr : Spec.MsSem.Parsed} {N0 : Q} {σ : Spec.MsSem.St} (hN : 0 < N0)
    (ha : Spec.C08.ArgsAgree args pr) (hs : Spec.C08.runState pr N0 = .ok σ) :
    ∃ s, Proofs.FromMs.buildState args N0 = .ok s :=
  Proofs.MsAcc.buildState_progress hN ha hs

/-- **Stage 2 at `to_ms`.** -/
theorem toMs_output_buildState_ok (c : NumCodec) (sa : Growth → String) {g : Graph} (hv : Spec.validGraph g = true)
    (hx : MsExpressible g = true) (hcs : ConstSizes g = true) {N0 : Q} (hN : 0 < N0)
    {samples : Option (List Int)} (hs : samplesOk g samples = true) {toks : List (Tok Growth)}
    (htoks : toMs g N0 samples = .ok toks) (hc : CodecCovers c toks) :
    ∃ args σ s, parseKnownArgs (renderG c sa toks) = .ok args ∧ Spec.C08.ArgsAgree args (prG g N0 samples)
      ∧ Spec.C08.runState (prG g N0 samples) N0 = .ok σ ∧ Proofs.FromMs.buildState args N0 = .ok s :=
  Proofs.MsAcc.toMs_output_buildState_ok c sa hv hx hcs hN hs htoks hc

/-- **Stages 3 and 4: after the event loop.**  `finishDoc` succeeds on the final state of the event loop,
and `resolve` accepts the document it assembles (with whatever placeholder table for symbolic sizes — there
are none here) and returns a valid graph. -/
theorem toMs_output_finishDoc_ok (c : NumCodec) (sa : Growth → String) {g : Graph} (hv : Spec.validGraph g = true)
    (hx : MsExpressible g = true) (hcs : ConstSizes g = true) (hpt : PulsesTame g = true) {N0 : Q} (hN : 0 < N0)
    {samples : Option (List Int)} (hs : samplesOk g samples = true) {toks : List (Tok Growth)}
    (htoks : toMs g N0 samples = .ok toks) (hc : CodecCovers c toks) :
    ∃ args s doc, parseKnownArgs (renderG c sa toks) = .ok args ∧ Proofs.FromMs.buildState args N0 = .ok s
      ∧ Proofs.FromMs.finishDoc N0 s = .ok doc
      ∧ ∀ tab, ∃ g', Demes.resolve (doc.toValue tab) = .ok g' ∧ Spec.validGraph g' = true := by
  obtain ⟨args, s, _, doc, h1, h2, _, _, _, h3, _, h4, h5⟩ :=
    Proofs.MsAcc.toMs_output_finishDoc_ok c sa hv hx hcs hpt hN hs htoks hc
  exact ⟨args, s, doc, h1, h2, h3, fun tab => ⟨_, h5 tab, h4 tab⟩⟩

/-- **Acceptance.**  For every valid ms-expressible graph `g` of constant sizes whose pulses are tame, every
`N0 > 0`, well-formed `samples`, and number codec that covers the numbers of the command: `from_ms` accepts
the command `to_ms` prints. -/
theorem ms_roundtrip_accepts (c : NumCodec) (sa : Growth → String) {g : Graph} (hv : Spec.validGraph g = true)
    (hx : MsExpressible g = true) (hcs : ConstSizes g = true) (hpt : PulsesTame g = true) {N0 : Q} (hN : 0 < N0)
    {samples : Option (List Int)} (hs : samplesOk g samples = true) {toks : List (Tok Growth)}
    (htoks : toMs g N0 samples = .ok toks) (hc : CodecCovers c toks) :
    ∃ mg, fromMs (renderG c sa toks) N0 none = .ok mg := by
  obtain ⟨mg, h, _⟩ := Proofs.MsAcc.ms_roundtrip_accepts c sa hv hx hcs hpt hN hs htoks hc
  exact ⟨mg, h⟩

/-- **Graph → ms → graph.**  `ms_roundtrip_sem_tame` without its acceptance hypothesis: for a valid
ms-expressible graph `g` of constant sizes with exact ancestry proportions and tame pulses, `N0 > 0`, and a
codec that covers the numbers of the command, `from_ms(to_ms(g, N0), N0)` returns a graph `mg`; the printed
command has a meaning `sem` under the ms interpreter, equivalent (`semEquiv`) to the observable `rs` of the
returned graph; and both describe the demography `gs` of `g` on the lifetimes of its demes (`SemRefines`). -/
theorem ms_roundtrip_sem (c : NumCodec) (sa : Growth → String) {g : Graph} (hv : Spec.validGraph g = true)
    (hx : MsExpressible g = true) (hex : ExactProportions g = true) (hcs : ConstSizes g = true)
    (hpt : PulsesTame g = true)
    {N0 : Q} (hN : 0 < N0) {samples : Option (List Int)} (hs : samplesOk g samples = true)
    {toks : List (Tok Growth)} (htoks : toMs g N0 samples = .ok toks) (hc : CodecCovers c toks) :
    ∃ mg sem rs gs, fromMs (renderG c sa toks) N0 none = .ok mg
      ∧ msSem (renderG c sa toks) N0 = .ok sem ∧ resultSem mg = .ok rs
      ∧ graphSem (inGenerations g) none = .ok gs
      ∧ semEquiv sem rs = true ∧ SemRefines sem gs ∧ SemRefines rs gs :=
  Proofs.MsAcc.ms_roundtrip_sem c sa hv hx hex hcs hpt hN hs htoks hc

/-- **Graph → ms → graph, for every valid ms-expressible graph of constant sizes with tame pulses.**  No
hypothesis on the ancestry proportions and none on `from_ms`: `from_ms(to_ms(g, N0), N0)` returns a graph
`mg`; the printed command has a meaning `sem` under the ms interpreter, equivalent to the observable `rs` of
`mg`; and both describe the demography of `normalizeProportions g` — `g` itself when its ancestry proportions
sum to exactly 1 (`normalizeProportions_exact`), and otherwise `g` with every proportion moved by at most a
relative 1e-9/(1-1e-9) (`normalizeProportions_close`), because `to_ms` renormalises.
(`ms_roundtrip_accepts` + `ms_roundtrip_sem_tame_norm`.) -/
theorem ms_roundtrip_sem_all (c : NumCodec) (sa : Growth → String) {g : Graph} (hv : Spec.validGraph g = true)
    (hx : MsExpressible g = true) (hcs : ConstSizes g = true) (hpt : PulsesTame g = true)
    {N0 : Q} (hN : 0 < N0) {samples : Option (List Int)} (hs : samplesOk g samples = true)
    {toks : List (Tok Growth)} (htoks : toMs g N0 samples = .ok toks) (hc : CodecCovers c toks) :
    ∃ mg sem rs gs, fromMs (renderG c sa toks) N0 none = .ok mg
      ∧ msSem (renderG c sa toks) N0 = .ok sem ∧ resultSem mg = .ok rs
      ∧ graphSem (inGenerations (normalizeProportions g)) none = .ok gs
      ∧ semEquiv sem rs = true ∧ SemRefines sem gs ∧ SemRefines rs gs := by
  obtain ⟨mg, hfrom⟩ := ms_roundtrip_accepts c sa hv hx hcs hpt hN hs htoks hc
  obtain ⟨sem, rs, gs, h1, h2, h3, h4, h5, h6⟩ :=
    ms_roundtrip_sem_tame_norm c sa hv hx hcs hpt hN hs htoks hc hfrom
  exact ⟨mg, sem, rs, gs, hfrom, h1, h2, h3, h4, h5, h6⟩

/-! ### the hypothesis `PulsesTame`, with its witnesses -/

/-- **`PulsesTame` cannot be dropped (F6).**  `twoDemePulse 1` (a pulse of proportion 1) is valid,
ms-expressible, of constant sizes, with exact proportions; the codec covers its command
`-I 2 0 0 -es 1.0 2 0.0 -ej 1.0 3 1`; and `from_ms` rejects that command (`accepted`: `from_ms` of the rendered
`to_ms` output succeeds).  It is not `PulsesTame`. -/
theorem ms_roundtrip_accepts_counterexample_pulse1 :
    Spec.validGraph (twoDemePulse 1) = true ∧ MsExpressible (twoDemePulse 1) = true ∧ ConstSizes (twoDemePulse 1) = true
    ∧ ExactProportions (twoDemePulse 1) = true ∧ PulsesTame (twoDemePulse 1) = false
    ∧ (match toMs (twoDemePulse 1) 1 none with
       | .ok toks => decide (CodecCovers tableCodec toks)
       | .error _ => false) = true
    ∧ accepted (twoDemePulse 1) 1 = false :=
  Proofs.MsAcc.accepts_counterexample_pulse1

/-- the second clause of `PulsesTame` (of two pulses at one time the one listed first does not go into the
source of the one listed later) is sufficient, not necessary, for acceptance: pulses `A → B` (listed first),
`B → C` at one time, proportions 1/2 — not `PulsesTame`, accepted -/
theorem ms_roundtrip_accepts_order_not_necessary :
    Spec.validGraph Proofs.MsRT.chainGraph = true ∧ PulsesTame Proofs.MsRT.chainGraph = false
    ∧ Proofs.MsRT.chainGraph.pulses.all (fun p => p.proportions.all (fun x => decide (x < 1))) = true
    ∧ accepted Proofs.MsRT.chainGraph 1 = true :=
  Proofs.MsAcc.accepts_order_not_necessary

/-- A remark on the tolerance of the validation: a valid graph may have a total migration rate into a deme
above one, within `1e-9` (`ingressOk`); `to_ms` / `from_ms` carry the rates over exactly, so the returned
graph has the same total and passes the same check — which is why the invariant of the matrix history is
stated with `ingressOk` and not with `≤ 4·N0`: for three constant demes with migrations into `C` at rates `1/2`
and `1/2 + 10⁻¹⁰` every hypothesis holds, and at the end of the event loop (`N0 = 1`) the rates into
population 3 sum to `4 + 4·10⁻¹⁰`. -/
theorem ingress_tolerance_witness :
    ∃ g args s, Spec.validGraph g = true ∧ MsExpressible g = true ∧ ConstSizes g = true ∧ PulsesTame g = true
      ∧ Spec.C08.ArgsAgree args (Proofs.MsRT.prOf (Proofs.ToMs.headerOf g none) (Proofs.ToMs.finalEvs g 1))
      ∧ Proofs.FromMs.buildState args 1 = .ok s ∧ Proofs.MsAcc.MigWF 1 s
      ∧ ¬ (Spec.qsumS (Proofs.MsAcc.ingressRow s 2 0) ≤ 4 * 1) :=
  Proofs.MsAcc.ingress_le_counterexample

/-! ### non-vacuity of §6 -/

/-- every hypothesis of `ms_roundtrip_accepts` (`acceptHyps`, Proofs/MsAccExamples.lean: valid, ms-expressible,
constant sizes, tame pulses, `N0 > 0`, `to_ms` succeeds, `tableCodec` covers the command) holds for: a branch
with a migration; an admixture with two ancestors (`-es` creates a population that `from_ms` removes as a
transient deme); a pulse of proportion 1/2; a graph in years whose ancestor changes size when its descendant
starts (`-en` and `-ej` at one time) with a migration that starts late; the admixture with three migrations,
two of them into one deme with total rate exactly one (`-em` switched on and off); also with `N0 = 2` -/
example : acceptHyps branchMig 1 = true := by decide +kernel
example : acceptHyps admixture 1 = true := by decide +kernel
example : acceptHyps admixture 2 = true := by decide +kernel
example : acceptHyps (twoDemePulse (1/2)) 1 = true := by decide +kernel
example : acceptHyps twoEpochs 1 = true := by decide +kernel
example : acceptHyps admixMig 1 = true := by decide +kernel

/-- `acceptHyps` is the list of hypotheses, and the theorems apply -/
example {g : Graph} {N0 : Q} (h : acceptHyps g N0 = true) : accepted g N0 = true :=
  Proofs.MsAcc.accepted_of_hyps h
example := Proofs.MsAcc.roundTrip_of_acceptHyps (g := admixture) (N0 := 1) (by decide +kernel) (by decide +kernel)

/-- the conclusion evaluated independently of the theorem; and it is not vacuous: it fails for the F6 graph -/
example : [branchMig, admixture, twoDemePulse (1/2), twoEpochs, admixMig].map (fun g => accepted g 1)
    = [true, true, true, true, true] := by decide +kernel
example : accepted (twoDemePulse 1) 1 = false := by decide +kernel

/-- the hypotheses of the general `buildState_never_raises` on a concrete command (not a `to_ms` output: `-en`
before a split, a pulse, a join) -/
example : ∃ args pr σ s, parseKnownArgs Proofs.MsAcc.exTokens = .ok args ∧ Spec.MsSem.parse Proofs.MsAcc.exTokens = .ok pr
    ∧ Spec.C08.ArgsAgree args pr ∧ Spec.C08.runState pr 1 = .ok σ ∧ Proofs.FromMs.buildState args 1 = .ok s := by
  have h := Proofs.MsAcc.exTokens_ok
  cases ha : parseKnownArgs Proofs.MsAcc.exTokens with
  | error e => rw [ha] at h; cases h
  | ok args =>
    cases hp : Spec.MsSem.parse Proofs.MsAcc.exTokens with
    | error e => rw [ha, hp] at h; cases h
    | ok pr =>
      rw [ha, hp] at h
      simp only [Bool.and_eq_true] at h
      have hag := Spec.C08.argsAgree_of_B h.1
      cases hr : Spec.C08.runState pr 1 with
      | error e => rw [hr] at h; exact absurd h.2 (by simp [Except.toOption])
      | ok σ =>
        obtain ⟨s, hs⟩ := buildState_never_raises (by decide +kernel) hag hr
        exact ⟨args, pr, σ, s, rfl, rfl, hag, hr, hs⟩

/-! ## 8. Graph → ms → graph with exponential epochs (first sentence, "up to the precision of the printed numbers")

§§5–6 need `ConstSizes`.  Here exponential epochs are allowed.  `to_ms` prints an exponential epoch as `-g i α` /
`-eg t i α`, `α = -ln(start/end)/dt` in `4·N0` units — the symbolic `Growth` of the Model, turned into characters
by a printer `sa : Growth → String` that is outside the Model (`float_str` of a double).  The parsers read the
string back as the rational `growthVal sa G`, and `from_ms` rebuilds the older size of the epoch as
`size · exp(-α'·Δt)`.  The hypothesis on the printer is `Spec.C09.GrowthPrinter sa (epochGrowths g N0)`: on the
growth rates of the epochs of `g`, the printed string reads as a finite number (`float`), is an argument for
argparse (`printed_numbers_are_not_flags`: not taken for an option), the rate `0` is printed as a string that
reads as `0`, and the printed value depends on the real number only (`Growth.eq`).

**What is proved.**  Everything that does not depend on the VALUE of a growth rate is exact
(`ms_roundtrip_growth_accepts`, `ms_roundtrip_growth_sem_all`): `from_ms` accepts the command; the returned graph
has the populations of `g` in the same order with the same lifetimes, the same migration step function and the
same lineage movements; and its size function is that of `g` with every growth rate replaced by its printed
value — `Spec.C09.regrow`: each exponential epoch grows at the printed rate from the size at its recent end,
which is exact where `-en` sets it (at a jump of the size, and at a deme's recent end) and is the size reached
where the size is continuous.  Hence (`SemRefinesUpToGrowth`) the sizes are those of `g` at every time `exactAt`:
throughout the constant epochs that are not preceded — towards the present, since the last jump of the size — by
an exponential epoch, and at the recent end of the first exponential epoch of such a run.  The real-number
estimate for the other times (relative error at most `exp(ε·Δ) - 1`) is `Theorems/C09Real.lean`.

**What is false** (`growth_roundtrip_sizes_counterexample`, `…_boundaries_…`, `…_zero_…`, `…_congr_…`): the sizes do
not come back exactly — not even those of a constant epoch that is older than an exponential one with a
continuous junction (no `-en` is printed there; the real library returns `300.0000000245671` for `300`); the epoch
boundaries do not come back when two rates are printed alike; `GrowthPrinter.zero` and `.congr` cannot be
dropped. -/

open Demes.Proofs.MsGrow (growHyps acceptedV roundTripAgainstV roundTripEpochs shrink saShrink twoRates saSame eqRates
  saLn2 saIncongr saBadZero)
open Demes.Proofs.MsGrow.MigExample (growBranch1)

/-- **The bridge with growth rates.**  For a valid ms-expressible graph (exponential epochs allowed), `N0 > 0`,
well-formed `samples`, a number codec that covers the numbers of the command and a growth printer: the typed
command reads back as a command `cmd` to which the typed interpreter gives a meaning `semG`; the printed command
line is plain; and the string interpreter gives it the meaning `embedSemV (growthVal sa) N0 semG` — the update
lists of `semG` evaluated into segments with every symbolic growth rate `G` read as `growthVal sa G`, the matrix
snapshots run-length encoded, the lineage movements unchanged. -/
theorem toMs_msSem_bridge_growth (c : NumCodec) (sa : Growth → String) {g : Graph} (hv : Spec.validGraph g = true)
    (hx : MsExpressible g = true) {N0 : Q} (hN : 0 < N0)
    {samples : Option (List Int)} (hs : samplesOk g samples = true) {toks : List (Tok Growth)}
    (htoks : toMs g N0 samples = .ok toks) (hc : CodecCovers c toks)
    (hsa : GrowthPrinter sa (epochGrowths g N0)) :
    ∃ cmd semG, parseCmd toks = some cmd ∧ msSemG cmd N0 = .ok semG
      ∧ PlainTokens (renderG c sa toks) = true
      ∧ msSem (renderG c sa toks) N0 = .ok (embedSemV (growthVal sa) N0 semG) := by
  obtain ⟨_, b2, b3, _, b5⟩ := Proofs.MsGrow.toMs_bridgeV c sa hv hx hN hs htoks hc hsa
  obtain ⟨semG, hsemG, _⟩ := Proofs.ToMs.msSemG_finalEvs
    (Proofs.ToMs.clauses_of_valid (Proofs.InGen.inGenerations_valid g hv))
    (by rw [Proofs.ToMs.expr_inGen]; exact hx) hN samples
  exact ⟨_, semG, b2, hsemG, b3, (b5 semG hsemG).1⟩

/-- **Acceptance.**  For every valid ms-expressible graph `g` whose pulses are tame (exponential epochs
allowed), every `N0 > 0`, well-formed `samples`, number codec that covers the numbers of the command and
growth printer: `from_ms` accepts the command `to_ms` prints, and the graph it returns is valid.  (The new
ingredients: the epoch bookkeeping of `-g` / `-eg` keeps every size of the form `coef·exp(expo)` with
`coef > 0`; "growth rate for infinite-length epoch is invalid" cannot happen because the oldest epoch of a deme
without ancestors is constant, V6/V7, so the last `-eg` of its population prints the rate `0`.) -/
theorem ms_roundtrip_growth_accepts (c : NumCodec) (sa : Growth → String) {g : Graph} (hv : Spec.validGraph g = true)
    (hx : MsExpressible g = true) (hpt : PulsesTame g = true) {N0 : Q} (hN : 0 < N0)
    {samples : Option (List Int)} (hs : samplesOk g samples = true) {toks : List (Tok Growth)}
    (htoks : toMs g N0 samples = .ok toks) (hc : CodecCovers c toks)
    (hsa : GrowthPrinter sa (epochGrowths g N0)) :
    ∃ mg, fromMs (renderG c sa toks) N0 none = .ok mg ∧ Spec.validGraph mg.graph = true := by
  obtain ⟨mg, h1, _, h3⟩ := Proofs.MsGrow.ms_roundtrip_growth_accepts c sa hv hx hpt hN hs htoks hc hsa
  exact ⟨mg, h1, h3⟩

/-- **Graph → ms → graph with exponential epochs.**  For every valid ms-expressible graph `g` with tame pulses,
`N0 > 0`, codec and growth printer as above: `from_ms(to_ms(g, N0), N0)` returns a graph `mg`; the printed command
has a meaning `sem` under the ms interpreter, equivalent (C08's `semEquiv`) to the observable `rs` of `mg`; with
`gs` the demography of `normalizeProportions g` (of `g` itself when its ancestry proportions sum to exactly one:
`to_ms` renormalises), both `sem` and `rs` describe EXACTLY (`SemRefines`: populations, order, lifetimes, sizes at
every time, migration rates, lineage movements) the demography `regrow (growthVal sa) N0 gs` — `gs` with every
growth rate replaced by its printed value — and therefore describe `gs` up to the values of the growth rates
(`SemRefinesUpToGrowth`: `SemRefines` with the size clause asked at the times `exactAt` only). -/
theorem ms_roundtrip_growth_sem_all (c : NumCodec) (sa : Growth → String) {g : Graph} (hv : Spec.validGraph g = true)
    (hx : MsExpressible g = true) (hpt : PulsesTame g = true)
    {N0 : Q} (hN : 0 < N0) {samples : Option (List Int)} (hs : samplesOk g samples = true)
    {toks : List (Tok Growth)} (htoks : toMs g N0 samples = .ok toks) (hc : CodecCovers c toks)
    (hsa : GrowthPrinter sa (epochGrowths g N0)) :
    ∃ mg sem rs gs, fromMs (renderG c sa toks) N0 none = .ok mg
      ∧ msSem (renderG c sa toks) N0 = .ok sem ∧ resultSem mg = .ok rs
      ∧ graphSem (inGenerations (normalizeProportions g)) none = .ok gs
      ∧ semEquiv sem rs = true
      ∧ SemRefines sem (regrow (growthVal sa) N0 gs) ∧ SemRefines rs (regrow (growthVal sa) N0 gs)
      ∧ SemRefinesUpToGrowth sem gs ∧ SemRefinesUpToGrowth rs gs :=
  Proofs.MsGrow.ms_roundtrip_growth_sem_all c sa hv hx hpt hN hs htoks hc hsa

/-- the same against `g` as stored, when its ancestry proportions sum to exactly one -/
theorem ms_roundtrip_growth_sem (c : NumCodec) (sa : Growth → String) {g : Graph} (hv : Spec.validGraph g = true)
    (hx : MsExpressible g = true) (hex : ExactProportions g = true) (hpt : PulsesTame g = true)
    {N0 : Q} (hN : 0 < N0) {samples : Option (List Int)} (hs : samplesOk g samples = true)
    {toks : List (Tok Growth)} (htoks : toMs g N0 samples = .ok toks) (hc : CodecCovers c toks)
    (hsa : GrowthPrinter sa (epochGrowths g N0)) :
    ∃ mg sem rs gs, fromMs (renderG c sa toks) N0 none = .ok mg
      ∧ msSem (renderG c sa toks) N0 = .ok sem ∧ resultSem mg = .ok rs
      ∧ graphSem (inGenerations g) none = .ok gs
      ∧ semEquiv sem rs = true
      ∧ SemRefines sem (regrow (growthVal sa) N0 gs) ∧ SemRefines rs (regrow (growthVal sa) N0 gs)
      ∧ SemRefinesUpToGrowth sem gs ∧ SemRefinesUpToGrowth rs gs :=
  Proofs.MsGrow.ms_roundtrip_growth_sem c sa hv hx hex hpt hN hs htoks hc hsa

/-- **Where the sizes are exact.**  At a time `exactAt` of the lifetime of a population of a graph's demography
(its segments tile the lifetime and carry no explicit growth rate, as `graphSem` of a valid graph gives them) the
demography with replaced growth rates has the graph's own size, whatever the printed values (`gv` with
`gv 0 = 0`): a constant epoch keeps the rate `0`, and the size it starts from is exact as long as no exponential
epoch came before it since the last `-en`. -/
theorem regrow_exact_at {gv : Growth → Q} (hz : gv Growth.zero = 0) (N0 : Q) {p : Spec.MsSem.PopSem}
    (htiles : Proofs.MsRT.Tiles p.lo p.segs p.hi) (hg : ∀ s ∈ p.segs, s.growth = none) {t : Q} (hlo : p.lo ≤ t)
    (hhi : ETime.fin t < p.hi) (hex : exactAt p t = true) :
    (Spec.C09.sizeAt p t).isSome = true ∧ Spec.C09.sizeAt (regrowPop gv N0 p) t = Spec.C09.sizeAt p t :=
  Proofs.MsGrow.exact_sizeAt hz N0 htiles hg hlo hhi hex

/-! ### what is false, with its witnesses (`growHyps sa g N0`, Proofs/MsGrowExamples.lean: every hypothesis of
`ms_roundtrip_growth_sem_all` with the codec `tableCodec`, decided) -/

/-- **The statement with the sizes of `g` itself (`SemRefines rs gs`) is FALSE**, and so is "every epoch that is
constant in `g` comes back with exactly its size".  `growBranch1` (deme `A`: constant 1 until 8 generations ago,
then 1 → 2; deme `B` branching off at 4 with a migration; `N0 = 1`; the rate `ln(2)/2` printed
`0.34657359027997264`) satisfies every hypothesis; the returned graph has the graph's size at time 0 (second
component of `roundTripAgainstV`: the sizes of `g` sampled at the given times) but not at time 5, inside the
exponential epoch, nor at time 9, inside the CONSTANT epoch older than it: the size is continuous at time 8, so
`to_ms` prints no `-en` there and the constant epoch inherits `2·exp(-α'·2)`, `α'` the printed rate.  Replayed on the
real library with sizes 300 → 100: the constant epoch comes back as `300.0000000245671`.  The last component lists
`exactAt` at the times 0, 3, 5, 9 for the two demes. -/
theorem growth_roundtrip_sizes_counterexample :
    growHyps Proofs.MsGrow.MigExample.exSa growBranch1 1 = true
    ∧ (roundTripAgainstV Proofs.MsGrow.MigExample.exSa growBranch1 1 [0]).map (·.2) = some true
    ∧ (roundTripAgainstV Proofs.MsGrow.MigExample.exSa growBranch1 1 [5]).map (·.2) = some false
    ∧ (roundTripAgainstV Proofs.MsGrow.MigExample.exSa growBranch1 1 [9]).map (·.2) = some false
    ∧ ((graphSem (inGenerations growBranch1) none).toOption.map (fun gs =>
        gs.pops.map (fun p => [0, 3, 5, 9].map (exactAt p)))) = some [[true, false, false, false], [true, true, false, false]] :=
  Proofs.MsGrow.growth_roundtrip_sizes_counterexample

/-- **"The same epoch boundaries" is false.**  `twoRates` has three epochs with two different rates and continuous
sizes; with a printer that prints the two rates as the same string every hypothesis holds, `from_ms` sees no
change of rate at the boundary, and the returned graph has two epochs.  (Replayed on the real library: two
negative rates that agree to ten decimals — 400 → 200 → 100·(1 + 10⁻¹⁰) — come back as one exponential epoch.) -/
theorem growth_roundtrip_boundaries_counterexample :
    growHyps saSame twoRates 1 = true
    ∧ (twoRates.demes.map (·.epochs.length)) = [3]
    ∧ (roundTripEpochs saSame twoRates 1).map (fun ds => ds.map (·.length)) = some [2] :=
  Proofs.MsGrow.growth_roundtrip_boundaries_counterexample

/-- **`GrowthPrinter.zero` is forced.**  With the rate `0` printed as `1.0` every other hypothesis holds for
`growBranch1`, and `from_ms` rejects the command. -/
theorem growth_roundtrip_zero_counterexample :
    Spec.validGraph growBranch1 = true ∧ MsExpressible growBranch1 = true ∧ PulsesTame growBranch1 = true
    ∧ (epochGrowths growBranch1 1).all (fun G => (match pyFloat (saBadZero G) with | some (.fin _) => true | _ => false)
          && (match classify (saBadZero G) with | .ok .arg => true | _ => false)) = true
    ∧ growthVal saBadZero .zero = 1
    ∧ acceptedV saBadZero growBranch1 1 = false :=
  Proofs.MsGrow.growth_roundtrip_zero_counterexample

/-- **`GrowthPrinter.congr` is forced** (for the comparison with `regrow`, not for acceptance).  `eqRates` has the
same rate in its two exponential epochs, computed from different (ratio, span) pairs; `to_ms` prints it once.  A
printer whose output depends on the pair satisfies everything but `congr`; `from_ms` accepts, and the returned graph
grows at the printed rate of the recent epoch throughout (first component of `roundTripAgainstV`: the sizes of
`regrow`, `true` at time 2, `false` at time 8). -/
theorem growth_roundtrip_congr_counterexample :
    growthPrinterB saIncongr (epochGrowths eqRates 1) = false
    ∧ (epochGrowths eqRates 1).all (fun G => (match pyFloat (saIncongr G) with | some (.fin _) => true | _ => false)
          && (match classify (saIncongr G) with | .ok .arg => true | _ => false)) = true
    ∧ growthVal saIncongr .zero = 0
    ∧ acceptedV saIncongr eqRates 1 = true
    ∧ (roundTripAgainstV saIncongr eqRates 1 [2]).map (·.1) = some true
    ∧ (roundTripAgainstV saIncongr eqRates 1 [8]).map (·.1) = some false :=
  Proofs.MsGrow.growth_roundtrip_congr_counterexample

/-! ### non-vacuity of §8 -/

/-- every hypothesis (`growHyps`) holds for: a deme growing 1 → 2 with a second deme branching off and a
migration (`N0 = 1`; not of constant sizes); a shrinking deme (negative rate, printed in fixed-point form); two
different rates in a row; the same rate twice -/
example : growHyps Proofs.MsGrow.MigExample.exSa growBranch1 1 = true ∧ ConstSizes growBranch1 = false := by
  decide +kernel
example : growHyps saShrink shrink 1 = true ∧ growHyps saSame twoRates 1 = true ∧ growHyps saLn2 eqRates 1 = true := by
  decide +kernel

/-- `growHyps` is the list of hypotheses, and the theorems apply -/
example {sa : Growth → String} {g : Graph} {N0 : Q} (h : growHyps sa g N0 = true) : acceptedV sa g N0 = true :=
  Proofs.MsGrow.acceptedV_of_hyps h
example := Proofs.MsGrow.growRoundTrip_of_hyps (sa := Proofs.MsGrow.MigExample.exSa) (g := growBranch1) (N0 := 1)
  (by decide +kernel)

/-- the printed commands, and the rates read back -/
example : (toMs growBranch1 1 none).toOption.map (renderG tableCodec Proofs.MsGrow.MigExample.exSa)
    = some ["-I", "2", "0", "0", "-n", "1", "2.0", "-g", "1", "0.34657359027997264", "-n", "2", "0.5",
       "-m", "2", "1", "0.5", "-ej", "1.0", "2", "1", "-eg", "2.0", "1", "0.0"] := by decide +kernel
example : (toMs shrink 1 none).toOption.map (renderG tableCodec saShrink)
    = some ["-g", "1", "-0.3465735903", "-eg", "2.0", "1", "0.0"]
    ∧ growthVal saShrink (.sym 2 2) = -3465735903 / 10 ^ 10 := by decide +kernel

/-- the conclusions evaluated independently of the theorems: `from_ms` accepts, and the returned graph — sampled
at times in every epoch — has the sizes of the graph with the printed growth rates (`regrow`) -/
example : [acceptedV Proofs.MsGrow.MigExample.exSa growBranch1 1, acceptedV saShrink shrink 1, acceptedV saSame twoRates 1,
    acceptedV saLn2 eqRates 1] = [true, true, true, true] := by decide +kernel
example : (roundTripAgainstV Proofs.MsGrow.MigExample.exSa growBranch1 1 [0, 1, 3, 4, 7, 8, 9, 100]).map (·.1) = some true
    ∧ (roundTripAgainstV saShrink shrink 1 [0, 5, 8, 20]).map (·.1) = some true := by decide +kernel

/-- the graph that comes back for `growBranch1` (end time, start size, end size, size function of every epoch):
the exponential epoch of `deme1` has exactly the original END size 2 and the symbolic start size
`2·exp(-0.34657359027997264/4 · 8)`, which the older constant epoch inherits -/
example : roundTripEpochs Proofs.MsGrow.MigExample.exSa growBranch1 1
    = some [[(8, ⟨2, -(34657359027997264 / 10 ^ 17) / 4 * 8⟩, ⟨2, -(34657359027997264 / 10 ^ 17) / 4 * 8⟩, "constant"),
             (0, ⟨2, -(34657359027997264 / 10 ^ 17) / 4 * 8⟩, ⟨2, 0⟩, "exponential")],
            [(0, ⟨1/2, 0⟩, ⟨1/2, 0⟩, "constant")]] := by decide +kernel

/-! ## 9. The wider fragment `Tame2` of C08 against the commands `to_ms` prints (the order clause of `PulsesTame`)

`PulsesTame g` (§5) has two clauses: every pulse proportion is below one (forced: F6), and of two pulses at one time
the one listed first does not go into the source of the one listed later.  The second clause came from the method:
it is what the fragment `Tame'` of C08 asks of the command.  C08 has since proved its refinement on a wider fragment,
`Tame2` (`Theorems/C08.lean` §11): a population may be split or joined after it has received lineages in the same time
group, provided it received them BY A JOIN (`q = 1`).  This section determines what that buys for `to_ms`.

**Nothing.**  In a command of `to_ms` the moves of one time `T` are, in command order: the pulses of time `T`, last
listed first, each an `-es`/`-ej` pair that moves the fraction `q` = the pulse's proportion from the destination to the
source; then the demes that start at `T`, each a run of such pairs that ends with the join to the last ancestor.  In a
valid graph the source of a pulse does not start at the pulse's time and an ancestor starts strictly before its
descendant, so the target of a move is never a deme that starts at `T`: the only "source after target" of a `to_ms`
group is a pulse into the source of a pulse listed later (`Proofs.MsTame2.nsat_dpMoves_iff`) — deme starts together with
pulses at one time, pulses into a newborn deme, pulses into or out of its ancestors are all inside `Tame'` already.  And
for a pulse chain the earlier move is never a join: `Tame2` itself asks `0 < p` of every `-es t i p`, here `p = 1 -
proportion`, so `q < 1`.  Hence, group by group, `GoodGroup2 = GoodGroup` (`Proofs.MsTame2.group_both`), and:

* `toMs_output_tame2` / `toMs_output_tame2_growth` — the parser reads the printed command of a valid ms-expressible
  graph as a command `pr` with `Tame2 pr = Tame' pr`, and `Tame2 pr` holds EXACTLY when `PulsesTame g` does.  So
  `PulsesTame` is not only sufficient for the fragments, it is necessary for both: there is no weaker graph condition
  `PulsesTame2` to be had from `Tame2`, and no separate definition is made.
* `ms_roundtrip_sem_all_tame2` / `ms_roundtrip_growth_sem_all_tame2` — `ms_roundtrip_sem_all` / `ms_roundtrip_growth_sem_all`
  with `PulsesTame g` replaced by "the printed command is in `Tame2`" (the same hypothesis, by the above): `from_ms`
  accepts and the round trip holds.
* What is outside (`ms_roundtrip_chains_outside_tame2`): pulse chains — proportions below one, valid, ms-expressible;
  outside `PulsesTame`, `Tame'` and `Tame2` — are accepted and, by evaluation, converted correctly, lineage movements
  included (`from_ms` writes both moves as pulses, in command order, and they compose as the `-es`/`-ej` pairs do; a
  newborn deme gets its whole row of the lineage-movement matrix as ancestry).  Replayed on the real library
  (`demes.from_ms(demes.to_ms(g, N0=1), N0=1, deme_names=…)`): the same commands and the same graphs as the Model's; for
  the two-pulse chain `Graph.isclose` holds, for the chains that end in a newborn deme the movement matrices agree and
  `isclose` fails only because the pulse into the newborn deme is folded into its ancestry.  A random search on the
  real library (20 000 graphs with one to four same-time pulses, deme starts with one to three ancestors, demes that
  end at that time; 1 630 of them with pulse chains, 1 119 of those with a deme born at the time) found no rejection
  and no wrong lineage movement (movement matrices of the two graphs compared at every time of the graph).  No counterexample
  with proportions below one is known; the order clause stays a hypothesis of the METHOD.
* What holds without the clause (`ms_roundtrip_sizes_migs`, `ms_roundtrip_growth_sizes_migs`): for EVERY valid
  ms-expressible graph — no condition on the pulses — whose printed command `from_ms` accepts, the command has a
  meaning `sem` that describes the demography of the graph completely (`SemRefines sem gs`, lineage movements included:
  C07 needs no fragment), and the returned graph has the populations, lifetimes, sizes at every time and migration rates
  of the graph (`Spec.C09.SemRefinesSizesMigs rs gs`: `SemRefines` without its last clause; C08's `fromMs_sizes_migs_sem`
  needs no fragment either).  What is missing for the chains is (a) acceptance — proved in §6 on `Tame'` only — and (b)
  `rs.moves = sem.moves`, which needs C08's link C on a fragment that contains them.  A candidate (evaluated, not
  proved): "every move of the group is between populations that exist before the group, and no population that is
  joined in the group is the target of a move of the group" — every group of a `to_ms` command with proportions below
  one has this shape; on the 1 500 625 commands `-I 3 1 1 1` + four options out of `-es 1.0 i 0.5` (`i ≤ 5`), `-ej 1.0 i j`
  (`i ≠ j ≤ 6`), of which both sides accept 8 685, it contains 21 commands outside `Tame2`, all converted correctly. -/

open Demes.Spec.C08 (Tame2 semEquivSizesMigs)
open Demes.Proofs.MsTame2 (fragsOf fourDemes startPulses startPulsesChain longChain sizesMigsHyps roundTripNoMoves
  refinesNoMovesAt returned)

/-- **`Tame2` of the printed command is `Tame'`, and is `PulsesTame` of the graph** (constant sizes).  For a valid
ms-expressible graph of constant sizes, `N0 > 0`, well-formed `samples` and a codec that covers the numbers of the
command: the ms parser reads the printed command as a command `pr`; `pr` is in the wider fragment `Tame2` if and only
if it is in `Tame'` (as Booleans: `Tame2 pr = Tame' pr`); and that is the case if and only if the pulses of the graph
are tame. -/
theorem toMs_output_tame2 (c : NumCodec) (sa : Growth → String) {g : Graph} (hv : Spec.validGraph g = true)
    (hx : MsExpressible g = true) (hcs : ConstSizes g = true) {N0 : Q} (hN : 0 < N0)
    {samples : Option (List Int)} (hs : samplesOk g samples = true) {toks : List (Tok Growth)}
    (htoks : toMs g N0 samples = .ok toks) (hc : CodecCovers c toks) :
    ∃ pr, Spec.MsSem.parse (renderG c sa toks) = .ok pr ∧ Tame2 pr = Tame' pr
      ∧ (Tame2 pr = true ↔ PulsesTame g = true) :=
  Proofs.MsTame2.toMs_output_tame2 c sa hv hx hcs hN hs htoks hc

/-- the same with exponential epochs (hypotheses of §8) -/
theorem toMs_output_tame2_growth (c : NumCodec) (sa : Growth → String) {g : Graph} (hv : Spec.validGraph g = true)
    (hx : MsExpressible g = true) {N0 : Q} (hN : 0 < N0)
    {samples : Option (List Int)} (hs : samplesOk g samples = true) {toks : List (Tok Growth)}
    (htoks : toMs g N0 samples = .ok toks) (hc : CodecCovers c toks)
    (hsa : GrowthPrinter sa (epochGrowths g N0)) :
    ∃ pr, Spec.MsSem.parse (renderG c sa toks) = .ok pr ∧ Tame2 pr = Tame' pr
      ∧ (Tame2 pr = true ↔ PulsesTame g = true) :=
  Proofs.MsTame2.toMs_output_tame2V c sa hv hx hN hs htoks hc hsa

/-- **Graph → ms → graph on the wider fragment** (constant sizes): `ms_roundtrip_sem_all` with `PulsesTame g` replaced
by "the printed command, as the ms parser reads it, is in `Tame2`".  `from_ms` accepts the command, and the returned
graph describes the demography of `normalizeProportions g`. -/
theorem ms_roundtrip_sem_all_tame2 (c : NumCodec) (sa : Growth → String) {g : Graph} (hv : Spec.validGraph g = true)
    (hx : MsExpressible g = true) (hcs : ConstSizes g = true)
    {N0 : Q} (hN : 0 < N0) {samples : Option (List Int)} (hs : samplesOk g samples = true)
    {toks : List (Tok Growth)} (htoks : toMs g N0 samples = .ok toks) (hc : CodecCovers c toks)
    {pr : Spec.MsSem.Parsed} (hpr : Spec.MsSem.parse (renderG c sa toks) = .ok pr) (ht : Tame2 pr = true) :
    ∃ mg sem rs gs, fromMs (renderG c sa toks) N0 none = .ok mg
      ∧ msSem (renderG c sa toks) N0 = .ok sem ∧ resultSem mg = .ok rs
      ∧ graphSem (inGenerations (normalizeProportions g)) none = .ok gs
      ∧ semEquiv sem rs = true ∧ SemRefines sem gs ∧ SemRefines rs gs :=
  Proofs.MsTame2.ms_roundtrip_sem_all_tame2 c sa hv hx hcs hN hs htoks hc hpr ht

/-- **Graph → ms → graph on the wider fragment, with exponential epochs**: `ms_roundtrip_growth_sem_all` with
`PulsesTame g` replaced by "the printed command is in `Tame2`". -/
theorem ms_roundtrip_growth_sem_all_tame2 (c : NumCodec) (sa : Growth → String) {g : Graph} (hv : Spec.validGraph g = true)
    (hx : MsExpressible g = true)
    {N0 : Q} (hN : 0 < N0) {samples : Option (List Int)} (hs : samplesOk g samples = true)
    {toks : List (Tok Growth)} (htoks : toMs g N0 samples = .ok toks) (hc : CodecCovers c toks)
    (hsa : GrowthPrinter sa (epochGrowths g N0))
    {pr : Spec.MsSem.Parsed} (hpr : Spec.MsSem.parse (renderG c sa toks) = .ok pr) (ht : Tame2 pr = true) :
    ∃ mg sem rs gs, fromMs (renderG c sa toks) N0 none = .ok mg
      ∧ msSem (renderG c sa toks) N0 = .ok sem ∧ resultSem mg = .ok rs
      ∧ graphSem (inGenerations (normalizeProportions g)) none = .ok gs
      ∧ semEquiv sem rs = true
      ∧ SemRefines sem (regrow (growthVal sa) N0 gs) ∧ SemRefines rs (regrow (growthVal sa) N0 gs)
      ∧ SemRefinesUpToGrowth sem gs ∧ SemRefinesUpToGrowth rs gs :=
  Proofs.MsTame2.ms_roundtrip_growth_sem_all_tame2 c sa hv hx hN hs htoks hc hsa hpr ht

/-- **Graph → ms → graph without the lineage movements, for every graph `from_ms` accepts** (constant sizes; NO
condition on the pulses).  Let `g` be a valid ms-expressible graph of constant sizes, `N0 > 0`, and `c` a codec that
covers the numbers of the command `to_ms` prints.  If `from_ms` accepts the command (a hypothesis: F6; discharged on
`PulsesTame` by `ms_roundtrip_accepts`), then the command has a meaning `sem` under the ms interpreter, the returned
graph has an observable `rs`, and with `gs` the demography of `normalizeProportions g`: `sem` and `rs` agree on
populations, lifetimes, sizes, growth rates and migrations (C08's `semEquivSizesMigs`); `sem` describes `gs` completely
(`SemRefines`, lineage movements included); and `rs` describes `gs` in everything but the lineage movements
(`SemRefinesSizesMigs`: the same populations in the same order, the same lifetimes, the deme's size at EVERY time of its
lifetime, the same migration rates). -/
theorem ms_roundtrip_sizes_migs (c : NumCodec) (sa : Growth → String) {g : Graph} (hv : Spec.validGraph g = true)
    (hx : MsExpressible g = true) (hcs : ConstSizes g = true)
    {N0 : Q} (hN : 0 < N0) {samples : Option (List Int)} (hs : samplesOk g samples = true)
    {toks : List (Tok Growth)} (htoks : toMs g N0 samples = .ok toks) (hc : CodecCovers c toks)
    {mg : MsGraph} (hfrom : fromMs (renderG c sa toks) N0 none = .ok mg) :
    ∃ sem rs gs, msSem (renderG c sa toks) N0 = .ok sem ∧ resultSem mg = .ok rs
      ∧ graphSem (inGenerations (normalizeProportions g)) none = .ok gs
      ∧ semEquivSizesMigs sem rs = true ∧ SemRefines sem gs ∧ SemRefinesSizesMigs rs gs :=
  Proofs.MsTame2.ms_roundtrip_sizes_migs c sa hv hx hcs hN hs htoks hc hfrom

/-- the same with exponential epochs (hypotheses of §8), against the demography with the printed growth rates -/
theorem ms_roundtrip_growth_sizes_migs (c : NumCodec) (sa : Growth → String) {g : Graph} (hv : Spec.validGraph g = true)
    (hx : MsExpressible g = true)
    {N0 : Q} (hN : 0 < N0) {samples : Option (List Int)} (hs : samplesOk g samples = true)
    {toks : List (Tok Growth)} (htoks : toMs g N0 samples = .ok toks) (hc : CodecCovers c toks)
    (hsa : GrowthPrinter sa (epochGrowths g N0))
    {mg : MsGraph} (hfrom : fromMs (renderG c sa toks) N0 none = .ok mg) :
    ∃ sem rs gs, msSem (renderG c sa toks) N0 = .ok sem ∧ resultSem mg = .ok rs
      ∧ graphSem (inGenerations (normalizeProportions g)) none = .ok gs
      ∧ semEquivSizesMigs sem rs = true
      ∧ SemRefines sem (regrow (growthVal sa) N0 gs) ∧ SemRefinesSizesMigs rs (regrow (growthVal sa) N0 gs) :=
  Proofs.MsTame2.ms_roundtrip_growth_sizes_migs c sa hv hx hN hs htoks hc hsa hfrom

/-- `SemRefines` is `SemRefinesSizesMigs` together with the clause on the lineage movements -/
theorem semRefines_iff_sizesMigs_and_moves {A gs : Spec.MsSem.DemogSem} :
    SemRefines A gs ↔ SemRefinesSizesMigs A gs ∧ Spec.C07.restrictMoves gs A.moves = some gs.moves :=
  Proofs.MsTame2.refines_iff

/-! ### the boundary, with its witnesses -/

/-- **inside all three**: `fourDemes startPulses` — demes `A`, `B`, `C` from the infinite past, `D` born at time 4 from
`A` and `B`; at time 4 a pulse `C → D` into the newborn deme, a pulse `C → A` into one of its ancestors, a pulse `B → C`
out of the other, listed in this order — is valid, ms-expressible, `PulsesTame`; its command is in `Tame'` and `Tame2`
(`fragsOf`: the pair); the round trip is right. -/
theorem ms_roundtrip_starts_with_pulses_inside :
    Spec.validGraph (fourDemes startPulses) = true ∧ MsExpressible (fourDemes startPulses) = true
    ∧ PulsesTame (fourDemes startPulses) = true ∧ fragsOf (fourDemes startPulses) 1 = some (true, true)
    ∧ roundTripAgainst (fourDemes startPulses) (fourDemes startPulses) 1 [0, 3, 4, 5] = some true :=
  Proofs.MsTame2.starts_with_pulses_inside

/-- **outside all three, and converted correctly**: pulse chains.  `chainGraph` (`A → B`, `B → C` at one time);
`fourDemes startPulsesChain` (the pulses of `startPulses` with `B → C` listed first: it goes into the source of the
other two); `fourDemes longChain` (`A → B`, `B → C`, `C → D` at the time `D` is born).  Every proportion is below one;
the graphs are valid, ms-expressible, of constant sizes, NOT `PulsesTame`; their commands are outside `Tame'` and
outside `Tame2`; `from_ms` accepts them (`accepted`); and the returned graph passes `refinesAt` — sizes, migrations AND
lineage movements — against the graph. -/
theorem ms_roundtrip_chains_outside_tame2 :
    [Proofs.MsRT.chainGraph, fourDemes startPulsesChain, fourDemes longChain].all
        (fun g => Spec.validGraph g && MsExpressible g && ConstSizes g
          && g.pulses.all (fun p => p.proportions.all (fun x => decide (x < 1))) && !PulsesTame g) = true
    ∧ [Proofs.MsRT.chainGraph, fourDemes startPulsesChain, fourDemes longChain].map (fun g => fragsOf g 1)
        = [some (false, false), some (false, false), some (false, false)]
    ∧ [Proofs.MsRT.chainGraph, fourDemes startPulsesChain, fourDemes longChain].map (fun g => accepted g 1)
        = [true, true, true]
    ∧ roundTripAgainst Proofs.MsRT.chainGraph Proofs.MsRT.chainGraph 1 [0, 3, 4, 5] = some true
    ∧ roundTripAgainst (fourDemes startPulsesChain) (fourDemes startPulsesChain) 1 [0, 3, 4, 5] = some true
    ∧ roundTripAgainst (fourDemes longChain) (fourDemes longChain) 1 [0, 3, 4, 5] = some true :=
  Proofs.MsTame2.chains_outside_tame2

/-- **outside all three, and rejected (F6)**: a pulse of proportion 1 -/
theorem ms_roundtrip_full_pulse_outside_tame2 :
    PulsesTame (twoDemePulse 1) = false ∧ fragsOf (twoDemePulse 1) 1 = some (false, false)
    ∧ accepted (twoDemePulse 1) 1 = false
    ∧ PulsesTame (Proofs.MsRT.tameGraph Proofs.MsRT.fullPulse) = false :=
  Proofs.MsTame2.full_pulse_outside

/-! ### non-vacuity of §9 -/

/-- the hypotheses of `toMs_output_tame2` are those of `toMs_output_tame` without `PulsesTame` (`roundTripHyps`,
`acceptHyps` imply them); both sides of its equivalence occur: `fragsOf` evaluates `(Tame' pr, Tame2 pr)` -/
example : [branchMig, admixture, twoDemePulse (1/2), fourDemes startPulses].map (fun g => (PulsesTame g, fragsOf g 1))
    = [(true, some (true, true)), (true, some (true, true)), (true, some (true, true)), (true, some (true, true))] := by
  decide +kernel
example : (PulsesTame Proofs.MsRT.chainGraph, fragsOf Proofs.MsRT.chainGraph 1) = (false, some (false, false)) := by
  decide +kernel

/-- the hypotheses of `ms_roundtrip_sizes_migs` (`sizesMigsHyps`: valid, ms-expressible, constant sizes, `N0 > 0`,
the codec covers the command, `from_ms` accepts it — nothing about the pulses) hold for the chain graphs, and for
graphs with tame pulses; not for the F6 graph; and the theorem applies -/
example : [Proofs.MsRT.chainGraph, fourDemes startPulsesChain, fourDemes longChain, fourDemes startPulses, branchMig].all
    (fun g => sizesMigsHyps g 1) = true := by decide +kernel
example : sizesMigsHyps (twoDemePulse 1) 1 = false := by decide +kernel
example := Proofs.MsTame2.sizesMigs_of_hyps (g := fourDemes longChain) (N0 := 1) (by decide +kernel)

/-- `refinesNoMovesAt ts` is the decidable consequence of `SemRefinesSizesMigs` that samples the sizes at the times
`ts`; the conclusion evaluated independently of the theorem (`roundTripNoMoves`), and it is not vacuous: it fails
against the chain graph with other deme sizes -/
example {A gs : Spec.MsSem.DemogSem} (h : SemRefinesSizesMigs A gs) (ts : List Q) : refinesNoMovesAt A gs ts = true :=
  Proofs.MsTame2.refinesNoMovesAt_of h ts
example : roundTripNoMoves (fourDemes longChain) (fourDemes longChain) 1 [0, 3, 4, 5] = some true
    ∧ roundTripNoMoves Proofs.MsRT.chainGraph Proofs.MsRT.chainGraph 1 [0, 3, 4, 5] = some true
    ∧ roundTripNoMoves Proofs.MsRT.chainGraph (Proofs.MsTame2.threeDemes Proofs.MsRT.chainGraph.pulses) 1 [0] = some false := by
  decide +kernel

/-- the printed command of the three-pulse chain, and what comes back: `D` gets its whole row of the
lineage-movement matrix as ancestry (the pulse `C → D` at its start time is folded in: 25/64 = 1/8·1/2 + 7/8·3/4·1/2,
7/32 = 7/8·1/4), the other two pulses come back as pulses in the graph's order.  The real library prints the same
command and returns the same graph (proportions 0.390625, 0.390625, 0.21875). -/
example : (toMs (fourDemes longChain) 1 none).toOption.map (renderG tableCodec growthStr)
    = some ["-I", "4", "0", "0", "0", "0", "-n", "2", "2.0", "-n", "3", "3.0", "-n", "4", "0.5",
            "-es", "1.0", "4", "0.125", "-ej", "1.0", "5", "3", "-es", "1.0", "3", "0.25", "-ej", "1.0", "6", "2",
            "-es", "1.0", "2", "0.5", "-ej", "1.0", "7", "1", "-es", "1.0", "4", "0.5", "-ej", "1.0", "8", "1",
            "-ej", "1.0", "4", "2"] := by decide +kernel
example : (returned (fourDemes longChain) 1).map (fun g' => g'.demes.map (fun d => (d.name, d.ancestors, d.proportions)))
    = some [("deme1", [], []), ("deme2", [], []), ("deme3", [], []),
            ("deme4", ["deme1", "deme2", "deme3"], [25/64, 25/64, 7/32])] := by decide +kernel
example : (returned (fourDemes longChain) 1).map (fun g' => g'.pulses.map (fun p => (p.sources, p.dest, p.proportions)))
    = some [(["deme1"], "deme2", [1/2]), (["deme2"], "deme3", [3/4])] := by decide +kernel

/-! ## 10. The third fragment `Tame3` of C08: chains of pulses — the order clause of `PulsesTame` removed

§9 left the order clause of `PulsesTame` as a hypothesis of the method: the chains of pulses (a pulse into the source of
a pulse listed later, at one time) lie outside `Tame'` and `Tame2`, although `from_ms` converts them correctly.  C08 now
proves its refinement on a third fragment, `Tame3` (`Theorems/C08.lean` §12): in every time group, (1) every move goes
out of a population that existed before the group (the population an `-es` creates for the `-ej` right after it does
not count), (2) no population **joined** in the group is the target of a move of the group, (3) `0 < p ≤ 1` for every
`-es`.  A chain of pulses has this shape — both moves are `-es`/`-ej` pairs with `q < 1`, nothing is joined — and so has
every time group `to_ms` writes for a graph whose pulse proportions are below one: the only joins are the last ancestors
of the demes that start at the time, and in a valid graph neither a pulse nor an ancestry goes into a deme that starts at
that very time (`Proofs.MsRT.jnt_dpMoves`).

So with `PulsesBelowOne g` (Spec/C09.lean: every pulse proportion is below one — the first clause of `PulsesTame`, which is
forced by F6) in the place of `PulsesTame g`:

* `toMs_output_tame3` / `toMs_output_tame3_growth` — the parser reads the printed command as a command in `Tame3`;
* `ms_roundtrip_accepts3` / `ms_roundtrip_growth_accepts3` — `from_ms` accepts it (the acceptance invariants of §6 used the
  fragment only to know that the target of a move is still alive at the end of its group, and that a row of the
  lineage-movement matrix that keeps nothing at home belongs to a joined population: the first is clause (2), the second
  holds for every list of moves);
* `ms_roundtrip_sem3`, `ms_roundtrip_sem_all3`, `ms_roundtrip_growth_sem_all3`, `ms_roundtrip_names3` — the theorems of §§6–8
  with `PulsesTame g` replaced by `PulsesBelowOne g`.

After this the only hypothesis on the pulses is "every proportion is below one" (F6: `ms_roundtrip_full_pulse_outside3`). -/

open Demes.Spec.C08 (Tame3)
open Demes.Proofs.MsRT3 (acceptHyps3 growHyps3 frags3Of saChain)

/-- **`Tame3` of the printed command from `PulsesBelowOne` of the graph** (constant sizes).  For a valid ms-expressible
graph of constant sizes whose pulse proportions are below one, `N0 > 0`, well-formed `samples` and a codec that covers
the numbers of the command: the ms parser reads the printed command as a command in `Tame3`. -/
theorem toMs_output_tame3 (c : NumCodec) (sa : Growth → String) {g : Graph} (hv : Spec.validGraph g = true)
    (hx : MsExpressible g = true) (hcs : ConstSizes g = true) (hpb : PulsesBelowOne g = true) {N0 : Q} (hN : 0 < N0)
    {samples : Option (List Int)} (hs : samplesOk g samples = true) {toks : List (Tok Growth)}
    (htoks : toMs g N0 samples = .ok toks) (hc : CodecCovers c toks) :
    ∃ pr, Spec.MsSem.parse (renderG c sa toks) = .ok pr ∧ Tame3 pr = true :=
  Proofs.MsRT3.toMs_tame3 c sa hv hx hcs hpb hN hs htoks hc

/-- the same with exponential epochs (hypotheses of §8) -/
theorem toMs_output_tame3_growth (c : NumCodec) (sa : Growth → String) {g : Graph} (hv : Spec.validGraph g = true)
    (hx : MsExpressible g = true) (hpb : PulsesBelowOne g = true) {N0 : Q} (hN : 0 < N0)
    {samples : Option (List Int)} (hs : samplesOk g samples = true) {toks : List (Tok Growth)}
    (htoks : toMs g N0 samples = .ok toks) (hc : CodecCovers c toks)
    (hsa : GrowthPrinter sa (epochGrowths g N0)) :
    ∃ pr, Spec.MsSem.parse (renderG c sa toks) = .ok pr ∧ Tame3 pr = true :=
  Proofs.MsRT3.toMs_tame3V c sa hv hx hpb hN hs htoks hc hsa

/-- `PulsesTame` implies `PulsesBelowOne` (it is its first clause) -/
theorem pulsesBelowOne_of_pulsesTame {g : Graph} (h : PulsesTame g = true) : PulsesBelowOne g = true :=
  Proofs.MsRT.pulsesBelowOne_of_tame h

/-- **Acceptance.**  `ms_roundtrip_accepts` with `PulsesBelowOne g` in place of `PulsesTame g`: `from_ms` accepts the
command `to_ms` prints for every valid ms-expressible graph of constant sizes whose pulse proportions are below one. -/
theorem ms_roundtrip_accepts3 (c : NumCodec) (sa : Growth → String) {g : Graph} (hv : Spec.validGraph g = true)
    (hx : MsExpressible g = true) (hcs : ConstSizes g = true) (hpb : PulsesBelowOne g = true) {N0 : Q} (hN : 0 < N0)
    {samples : Option (List Int)} (hs : samplesOk g samples = true) {toks : List (Tok Growth)}
    (htoks : toMs g N0 samples = .ok toks) (hc : CodecCovers c toks) :
    ∃ mg, fromMs (renderG c sa toks) N0 none = .ok mg := by
  obtain ⟨mg, h, _⟩ := Proofs.MsRT3.ms_roundtrip_accepts3 c sa hv hx hcs hpb hN hs htoks hc
  exact ⟨mg, h⟩

/-- **Acceptance with exponential epochs**: `ms_roundtrip_growth_accepts` with `PulsesBelowOne g`; the returned graph is
valid. -/
theorem ms_roundtrip_growth_accepts3 (c : NumCodec) (sa : Growth → String) {g : Graph} (hv : Spec.validGraph g = true)
    (hx : MsExpressible g = true) (hpb : PulsesBelowOne g = true) {N0 : Q} (hN : 0 < N0)
    {samples : Option (List Int)} (hs : samplesOk g samples = true) {toks : List (Tok Growth)}
    (htoks : toMs g N0 samples = .ok toks) (hc : CodecCovers c toks) (hsa : GrowthPrinter sa (epochGrowths g N0)) :
    ∃ mg, fromMs (renderG c sa toks) N0 none = .ok mg ∧ Spec.validGraph mg.graph = true := by
  obtain ⟨mg, h, _, hvalid⟩ := Proofs.MsRT3.ms_roundtrip_growth_accepts3 c sa hv hx hpb hN hs htoks hc hsa
  exact ⟨mg, h, hvalid⟩

/-- **Graph → ms → graph** with exact ancestry proportions: `ms_roundtrip_sem` with `PulsesBelowOne g` in place of
`PulsesTame g`. -/
theorem ms_roundtrip_sem3 (c : NumCodec) (sa : Growth → String) {g : Graph} (hv : Spec.validGraph g = true)
    (hx : MsExpressible g = true) (hex : ExactProportions g = true) (hcs : ConstSizes g = true)
    (hpb : PulsesBelowOne g = true)
    {N0 : Q} (hN : 0 < N0) {samples : Option (List Int)} (hs : samplesOk g samples = true)
    {toks : List (Tok Growth)} (htoks : toMs g N0 samples = .ok toks) (hc : CodecCovers c toks) :
    ∃ mg sem rs gs, fromMs (renderG c sa toks) N0 none = .ok mg
      ∧ msSem (renderG c sa toks) N0 = .ok sem ∧ resultSem mg = .ok rs
      ∧ graphSem (inGenerations g) none = .ok gs
      ∧ semEquiv sem rs = true ∧ SemRefines sem gs ∧ SemRefines rs gs :=
  Proofs.MsRT3.ms_roundtrip_sem3 c sa hv hx hex hcs hpb hN hs htoks hc

/-- **Graph → ms → graph, for every valid ms-expressible graph of constant sizes whose pulse proportions are below
one** — chains of pulses at one time included.  `ms_roundtrip_sem_all` with `PulsesBelowOne g` in place of `PulsesTame g`:
`from_ms(to_ms(g, N0), N0)` returns a graph `mg`; the printed command has a meaning `sem` under the ms interpreter,
equivalent to the observable `rs` of `mg`; and both describe the demography of `normalizeProportions g` on the lifetimes
of its demes (`SemRefines`: populations, lifetimes, sizes at every time, migration rates, lineage movements). -/
theorem ms_roundtrip_sem_all3 (c : NumCodec) (sa : Growth → String) {g : Graph} (hv : Spec.validGraph g = true)
    (hx : MsExpressible g = true) (hcs : ConstSizes g = true) (hpb : PulsesBelowOne g = true)
    {N0 : Q} (hN : 0 < N0) {samples : Option (List Int)} (hs : samplesOk g samples = true)
    {toks : List (Tok Growth)} (htoks : toMs g N0 samples = .ok toks) (hc : CodecCovers c toks) :
    ∃ mg sem rs gs, fromMs (renderG c sa toks) N0 none = .ok mg
      ∧ msSem (renderG c sa toks) N0 = .ok sem ∧ resultSem mg = .ok rs
      ∧ graphSem (inGenerations (normalizeProportions g)) none = .ok gs
      ∧ semEquiv sem rs = true ∧ SemRefines sem gs ∧ SemRefines rs gs :=
  Proofs.MsRT3.ms_roundtrip_sem_all3 c sa hv hx hcs hpb hN hs htoks hc

/-- **Graph → ms → graph with exponential epochs**: `ms_roundtrip_growth_sem_all` with `PulsesBelowOne g` in place of
`PulsesTame g`. -/
theorem ms_roundtrip_growth_sem_all3 (c : NumCodec) (sa : Growth → String) {g : Graph} (hv : Spec.validGraph g = true)
    (hx : MsExpressible g = true) (hpb : PulsesBelowOne g = true)
    {N0 : Q} (hN : 0 < N0) {samples : Option (List Int)} (hs : samplesOk g samples = true)
    {toks : List (Tok Growth)} (htoks : toMs g N0 samples = .ok toks) (hc : CodecCovers c toks)
    (hsa : GrowthPrinter sa (epochGrowths g N0)) :
    ∃ mg sem rs gs, fromMs (renderG c sa toks) N0 none = .ok mg
      ∧ msSem (renderG c sa toks) N0 = .ok sem ∧ resultSem mg = .ok rs
      ∧ graphSem (inGenerations (normalizeProportions g)) none = .ok gs
      ∧ semEquiv sem rs = true
      ∧ SemRefines sem (regrow (growthVal sa) N0 gs) ∧ SemRefines rs (regrow (growthVal sa) N0 gs)
      ∧ SemRefinesUpToGrowth sem gs ∧ SemRefinesUpToGrowth rs gs :=
  Proofs.MsRT3.ms_roundtrip_growth_sem_all3 c sa hv hx hpb hN hs htoks hc hsa

/-- **Graph → ms → graph with the same `N0` and the same deme names**: `ms_roundtrip_names` (§7) with `PulsesBelowOne g`
in place of `PulsesTame g`. -/
theorem ms_roundtrip_names3 (c : NumCodec) (sa : Growth → String) {g : Graph} (hv : Spec.validGraph g = true)
    (hx : MsExpressible g = true) (hcs : ConstSizes g = true) (hpb : PulsesBelowOne g = true)
    {N0 : Q} (hN : 0 < N0) {samples : Option (List Int)} (hs : samplesOk g samples = true)
    {toks : List (Tok Growth)} (htoks : toMs g N0 samples = .ok toks) (hc : CodecCovers c toks) :
    ∃ mg mg' sem rs gs, fromMs (renderG c sa toks) N0 none = .ok mg
      ∧ fromMs (renderG c sa toks) N0 (some (g.demes.map (·.name))) = .ok mg'
      ∧ mg'.graph = renameDemes mg.graph (Proofs.FromMs.nameMap (g.demes.map (·.name)))
      ∧ mg'.table = mg.table ∧ mg'.doc = mg.doc
      ∧ Spec.validGraph mg'.graph = true ∧ mg'.graph.timeUnits = "generations" ∧ mg'.graph.generationTime = 1
      ∧ (mg'.graph.demes.map (·.name)).Perm (g.demes.map (·.name))
      ∧ (StartsSorted g = true → mg'.graph.demes.map (·.name) = g.demes.map (·.name))
      ∧ msSem (renderG c sa toks) N0 = .ok sem
      ∧ resultSem mg = .ok rs ∧ Spec.C08.resultSemNamed mg' (g.demes.map (·.name)) = .ok rs
      ∧ graphSem (inGenerations (normalizeProportions g)) none = .ok gs
      ∧ semEquiv sem rs = true ∧ SemRefines sem gs ∧ SemRefines rs gs :=
  Proofs.MsRT3.ms_roundtrip_names3 c sa hv hx hcs hpb hN hs htoks hc

/-! ### the boundary, with its witnesses -/

/-- **the chains of pulses are inside.**  `chainGraph` (`A → B`, `B → C` at one time), `fourDemes startPulsesChain`,
`fourDemes longChain` (§9): every hypothesis of `ms_roundtrip_sem_all3` holds (`acceptHyps3`: valid, ms-expressible, constant
sizes, `PulsesBelowOne`, `N0 > 0`, `to_ms` succeeds, the codec covers the command); the graphs are not `PulsesTame`; the
printed commands are outside `Tame'` and `Tame2` and inside `Tame3` (`frags3Of`: the triple); and the conclusion, evaluated
independently of the theorem: `from_ms` accepts, and the returned graph passes `refinesAt` — sizes, migrations and lineage
movements — against the graph. -/
theorem ms_roundtrip_chains_inside_tame3 :
    [Proofs.MsRT.chainGraph, fourDemes startPulsesChain, fourDemes longChain].all
        (fun g => acceptHyps3 g 1 && !PulsesTame g) = true
    ∧ [Proofs.MsRT.chainGraph, fourDemes startPulsesChain, fourDemes longChain].map (fun g => frags3Of g 1)
        = [some (false, false, true), some (false, false, true), some (false, false, true)]
    ∧ [Proofs.MsRT.chainGraph, fourDemes startPulsesChain, fourDemes longChain].map (fun g => accepted g 1)
        = [true, true, true]
    ∧ roundTripAgainst Proofs.MsRT.chainGraph Proofs.MsRT.chainGraph 1 [0, 3, 4, 5] = some true
    ∧ roundTripAgainst (fourDemes startPulsesChain) (fourDemes startPulsesChain) 1 [0, 3, 4, 5] = some true
    ∧ roundTripAgainst (fourDemes longChain) (fourDemes longChain) 1 [0, 3, 4, 5] = some true :=
  Proofs.MsRT3.chains_inside

/-- **outside, and rejected (F6)**: a pulse of proportion 1 — valid, ms-expressible, of constant sizes; `PulsesBelowOne`
fails; the printed command `-I 2 0 0 -es 1.0 2 0.0 -ej 1.0 3 1` is outside `Tame'`, `Tame2` and `Tame3`; `from_ms` rejects it -/
theorem ms_roundtrip_full_pulse_outside3 :
    Spec.validGraph (twoDemePulse 1) = true ∧ MsExpressible (twoDemePulse 1) = true ∧ ConstSizes (twoDemePulse 1) = true
    ∧ PulsesBelowOne (twoDemePulse 1) = false ∧ acceptHyps3 (twoDemePulse 1) 1 = false
    ∧ frags3Of (twoDemePulse 1) 1 = some (false, false, false)
    ∧ accepted (twoDemePulse 1) 1 = false :=
  Proofs.MsRT3.full_pulse_outside3

/-! ### non-vacuity of §10 -/

/-- `acceptHyps3` is the list of hypotheses, and the theorems apply — to the chains … -/
example {g : Graph} {N0 : Q} (h : acceptHyps3 g N0 = true) : accepted g N0 = true :=
  Proofs.MsRT3.accepted_of_hyps3 h
example := Proofs.MsRT3.roundTrip3_of_hyps (g := Proofs.MsRT.chainGraph) (N0 := 1) (by decide +kernel)
example := Proofs.MsRT3.roundTrip3_of_hyps (g := fourDemes longChain) (N0 := 1) (by decide +kernel)
example := Proofs.MsRT3.names3_of_hyps (g := fourDemes startPulsesChain) (N0 := 1) (by decide +kernel)
/-- … and to the graphs of §§5–9, which are `PulsesTame` -/
example : [branchMig, admixture, twoDemePulse (1/2), twoEpochs, admixMig, fourDemes startPulses].map
    (fun g => (acceptHyps3 g 1, frags3Of g 1))
    = [(true, some (true, true, true)), (true, some (true, true, true)), (true, some (true, true, true)),
       (true, some (true, true, true)), (true, some (true, true, true)), (true, some (true, true, true))] := by
  decide +kernel

/-- with exponential epochs: `growChain` (`chainGraph` with an exponential epoch in `B`) meets every hypothesis of
`ms_roundtrip_growth_sem_all3` (`growHyps3`), is neither of constant sizes nor `PulsesTame`; the theorem applies, and the
conclusion evaluated: `from_ms` accepts, the returned graph has the sizes of the graph with the printed growth rates -/
example : growHyps3 saChain Proofs.MsGrow.growChain 1 = true ∧ ConstSizes Proofs.MsGrow.growChain = false
    ∧ PulsesTame Proofs.MsGrow.growChain = false := by
  have h := Proofs.MsRT3.growChain_growHyps3
  exact ⟨h.1, h.2.1, h.2.2.1⟩
example := Proofs.MsRT3.growRoundTrip3_of_hyps (sa := saChain) (g := Proofs.MsGrow.growChain) (N0 := 1)
  Proofs.MsRT3.growChain_growHyps3.1
example : acceptedV saChain Proofs.MsGrow.growChain 1 = true
    ∧ (roundTripAgainstV saChain Proofs.MsGrow.growChain 1 [0, 3, 4, 5, 9, 10, 11]).map (·.1) = some true := by
  decide +kernel

/-- with the names of the graph: the named result has the names of `g`, in `g`'s order, and passes `refinesAt` -/
example : Proofs.MsNames.namedRoundTripNames (fourDemes longChain) 1 = some ["A", "B", "C", "D"]
    ∧ Proofs.MsNames.namedRoundTripOk (fourDemes longChain) 1 [0, 3, 4, 5] = true
    ∧ Proofs.MsNames.namedRoundTripOk Proofs.MsRT.chainGraph 1 [0, 3, 4, 5] = true := by decide +kernel

/-! ## Non-vacuity (§§1–5) -/

/-- the codec hypothesis is satisfiable: `tableCodec` is a `NumCodec`; these numbers are in its
domain and printed as CPython prints them -/
example : tableCodec.ok (.fin (1 / 10 ^ 12)) ∧ tableCodec.str (.fin (1 / 10 ^ 12)) = "1e-12" ∧
    tableCodec.ok (.fin (10 ^ 300)) ∧ tableCodec.str (.fin (10 ^ 300)) = "1e+300" ∧
    tableCodec.ok (.fin (-1 / 3)) ∧ tableCodec.str (.fin (-1 / 3)) = "-0.3333333333" ∧
    tableCodec.ok .pinf ∧ tableCodec.ok .nan ∧ ¬ tableCodec.ok .ninf := by decide +kernel

/-- `-eg` with a negative growth rate that has ten decimals: hypotheses hold, exact round trip -/
example :
    let e : Event Num := .popGrowthRateChange "" (.fin (1/2)) 2 (.fin (-866433976 / 10 ^ 10))
    (validEvent e ∧ codecEvent tableCodec e) ∧
    e.print.toOption.map (render tableCodec) = some ["-eg", "0.5", "2", "-0.0866433976"] ∧
    (parseKnownArgs ["-eg", "0.5", "2", "-0.0866433976"]).toOption.map
        (fun a => (a.structure_, a.initialState, a.demographicEvents, a.unknown))
      = some (none, [], [.popGrowthRateChange "-eg" (.fin (1/2)) 2 (.fin (-866433976 / 10 ^ 10))], []) :=
  ⟨⟨⟨Proofs.MsPrint.vT_fin _ (by decide +kernel), by decide, rfl⟩, by decide +kernel, by decide, by decide +kernel⟩,
    by decide +kernel, by decide +kernel⟩

/-- `-g` (`t = 0`) with growth rate `-1/3`: comes back as `-0.3333333333`, within `5·10⁻¹¹` -/
example :
    let e : Event Num := .popGrowthRateChange "" (.fin 0) 1 (.fin (-1/3))
    (validEvent e ∧ codecEvent tableCodec e) ∧
    e.print.toOption.map (render tableCodec) = some ["-g", "1", "-0.3333333333"] ∧
    (parseKnownArgs ["-g", "1", "-0.3333333333"]).toOption.map (fun a => (a.initialState, a.demographicEvents, a.unknown))
      = some ([.popGrowthRateChange "-g" (.fin 0) 1 (.fin (-3333333333 / 10 ^ 10))], [], []) ∧
    qabs ((-1/3 : Q) - (-3333333333 / 10 ^ 10)) ≤ tenDecimals :=
  ⟨⟨⟨rfl, by decide, rfl⟩, by decide +kernel, by decide, by decide +kernel⟩, by decide +kernel, by decide +kernel,
    by decide +kernel⟩

/-- very small and very large values: `-eN 1e-12 1e+300` -/
example :
    let e : Event Num := .sizeChange "" (.fin (1 / 10 ^ 12)) (.fin (10 ^ 300))
    (validEvent e ∧ codecEvent tableCodec e) ∧
    e.print.toOption.map (render tableCodec) = some ["-eN", "1e-12", "1e+300"] ∧
    (parseKnownArgs ["-eN", "1e-12", "1e+300"]).toOption.map (fun a => (a.initialState, a.demographicEvents, a.unknown))
      = some ([], [.sizeChange "-eN" (.fin (1 / 10 ^ 12)) (.fin (10 ^ 300))], []) :=
  ⟨⟨⟨Proofs.MsPrint.vT_fin _ (by decide +kernel), Proofs.MsPrint.vNonNeg_fin _ (by decide +kernel)⟩,
      by decide +kernel, by decide +kernel⟩, by decide +kernel, by decide +kernel⟩

/-- `-ema` with `x` diagonals: the strings change (`1` ↦ `1.0`), the matrix does not -/
example :
    let e : Event Num := .migMatrixChange "" (.fin 1) 2 ["x", "1", "0.5", "x"]
    e.print.toOption.map (render tableCodec) = some ["-ema", "1.0", "2", "x", "1.0", "0.5", "x"] ∧
    (parseKnownArgs ["-ema", "1.0", "2", "x", "1.0", "0.5", "x"]).toOption.map
        (fun a => (a.initialState, a.demographicEvents, a.unknown))
      = some ([], [.migMatrixChange "-ema" (.fin 1) 2 ["x", "1.0", "0.5", "x"]], []) ∧
    (matrixOf 2 ["x", "1", "0.5", "x"]).toOption = (matrixOf 2 ["x", "1.0", "0.5", "x"]).toOption ∧
    (matrixOf 2 ["x", "1", "0.5", "x"]).toOption = some [[.fin 0, .fin 1], [.fin (1/2), .fin 0]] := by
  decide +kernel

/-- `-I` with a rate and without -/
example :
    (parseKnownArgs (render tableCodec (Structure.print ⟨2, ["3", "0"], .fin (1/2)⟩))).toOption.map
        (fun a => (a.structure_, a.unknown)) = some (some ⟨2, ["3", "0"], .fin (1/2)⟩, []) ∧
    render tableCodec (Structure.print ⟨2, ["3", "0"], .fin (1/2)⟩) = ["-I", "2", "3", "0", "0.5"] ∧
    (parseKnownArgs (render tableCodec (Structure.print ⟨2, ["3", "0"], .fin 0⟩))).toOption.map
        (fun a => (a.structure_, a.unknown)) = some (some ⟨2, ["3", "0"], .fin 0⟩, []) ∧
    render tableCodec (Structure.print ⟨2, ["3", "0"], .fin 0⟩) = ["-I", "2", "3", "0"] := by decide +kernel

/-- the single-deme round trip on a concrete graph (`N = 2`, `N0 = 1`, codec value `2.0`) -/
example : tableCodec.ok (.fin ((2 : Q) / 1)) := by decide +kernel

/-- **`ms_roundtrip_sem_partial` / `ms_roundtrip_sem_tame`**: every hypothesis (`roundTripHyps`,
Proofs/MsRTExamples.lean: valid, ms-expressible, exact proportions, constant sizes, `N0 > 0`, `to_ms`
succeeds, `tableCodec` covers the command, `from_ms` accepts it, the parsed command is in `Tame'`) holds
for: a branch with a migration; an admixture with two ancestors (three demes); a pulse of proportion
1/2; a graph in years whose ancestor changes size when its descendant starts, with a migration
(`-en` and `-ej` at one time); also with `N0 = 2` — and the graph condition `PulsesTame` holds too -/
example : roundTripHyps branchMig 1 = true := by decide +kernel
example : roundTripHyps admixture 1 = true := by decide +kernel
example : roundTripHyps admixture 2 = true := by decide +kernel
example : roundTripHyps (twoDemePulse (1/2)) 1 = true := by decide +kernel
example : roundTripHyps twoEpochs 1 = true := by decide +kernel
example : [branchMig, admixture, twoDemePulse (1/2), twoEpochs].all PulsesTame = true := by decide +kernel

/-- `roundTripHyps` is the list of hypotheses, and the theorem applies -/
example {g : Graph} {N0 : Q} (h : roundTripHyps g N0 = true) :
    Spec.validGraph g = true ∧ MsExpressible g = true ∧ ExactProportions g = true ∧ ConstSizes g = true ∧ 0 < N0 ∧
    ∃ toks mg pr, toMs g N0 none = .ok toks ∧ CodecCovers tableCodec toks
      ∧ fromMs (renderG tableCodec growthStr toks) N0 none = .ok mg
      ∧ Spec.MsSem.parse (renderG tableCodec growthStr toks) = .ok pr ∧ Tame' pr = true :=
  Proofs.MsRT.roundTripHyps_spec h
example := Proofs.MsRT.roundTrip_of_hyps (g := admixture) (N0 := 1) (by decide +kernel)

/-- **`ms_roundtrip_sem_norm` / `ms_roundtrip_sem_tame_norm`**: every hypothesis (`roundTripHypsNorm`:
`roundTripHyps` without `ExactProportions`) holds for `admixtureInexact` — `admixture` with the
proportions of `C` equal to `[1/2 - 2⁻⁴¹, 1/2 - 2⁻⁴¹]`, sum `1 - 2⁻⁴⁰` — which does not have exact
proportions and whose normalisation is `admixture`; `to_ms` prints the command of `admixture` -/
example : Proofs.MsRT.roundTripHypsNorm Proofs.MsRT.admixtureInexact 1 = true
    ∧ ExactProportions Proofs.MsRT.admixtureInexact = false
    ∧ PulsesTame Proofs.MsRT.admixtureInexact = true
    ∧ (normalizeProportions Proofs.MsRT.admixtureInexact).demes = admixture.demes := by decide +kernel
example {g : Graph} {N0 : Q} (h : Proofs.MsRT.roundTripHypsNorm g N0 = true) :
    Spec.validGraph g = true ∧ MsExpressible g = true ∧ ConstSizes g = true ∧ 0 < N0 ∧
    ∃ toks mg pr, toMs g N0 none = .ok toks ∧ CodecCovers tableCodec toks
      ∧ fromMs (renderG tableCodec growthStr toks) N0 none = .ok mg
      ∧ Spec.MsSem.parse (renderG tableCodec growthStr toks) = .ok pr ∧ Tame' pr = true :=
  Proofs.MsRT.roundTripHypsNorm_spec h
example := Proofs.MsRT.roundTripNorm_of_hyps (g := Proofs.MsRT.admixtureInexact) (N0 := 1) (by decide +kernel)
example : (toMs Proofs.MsRT.admixtureInexact 1 none).toOption.map (renderG tableCodec growthStr)
    = (toMs admixture 1 none).toOption.map (renderG tableCodec growthStr) := by decide +kernel

/-- the admixture as `to_ms` prints it -/
example : (toMs admixture 1 none).toOption.map (renderG tableCodec growthStr)
    = some ["-I", "3", "0", "0", "0", "-n", "1", "2.0", "-n", "3", "0.5", "-es", "1.0", "3", "0.5", "-ej", "1.0", "4", "1",
            "-ej", "1.0", "3", "2", "-ej", "2.0", "2", "1"] := by decide +kernel

/-- **the conclusion `SemRefines` is not vacuous.**  `refinesAt A gs ts` is the decidable consequence of
`SemRefines A gs` that samples the sizes at the times `ts`; `roundTripAgainst g g' N0 ts` evaluates it for
the graph `from_ms` returns for the command of `g`, against the demography of `g'`.  The round trip of
`branchMig` / `admixture` / `twoEpochs` passes against the graph itself, and the round trip of
`branchMig` fails against `branchMig` with another size for `A`, another migration rate, or an
earlier start of `B`. -/
example {A gs : Spec.MsSem.DemogSem} (h : SemRefines A gs) (ts : List Q) : refinesAt A gs ts = true :=
  Proofs.MsRT.refinesAt_of_refines h ts
example : roundTripAgainst branchMig branchMig 1 [0, 1, 2, 4, 5, 100] = some true := by decide +kernel
example : roundTripAgainst admixture admixture 1 [0, 1, 4, 5, 8, 9] = some true := by decide +kernel
example : roundTripAgainst twoEpochs twoEpochs 1 [0, 1, 2, 3, 4, 5] = some true := by decide +kernel
example : [branchMigSize, branchMigRate, branchMigTime].all Spec.validGraph = true
    ∧ [branchMigSize, branchMigRate, branchMigTime].map (fun g' => roundTripAgainst branchMig g' 1 [0])
        = [some false, some false, some false] := by decide +kernel

/-! ## 7. Graph → ms → graph with the same deme names (first sentence: "… with the same N0 and the same deme names")

§§5–6 call `from_ms` without `deme_names`: population `k` comes back as the deme `deme{k}`.  Here `from_ms` is
called with `deme_names` = the names of the demes of `g`, in `g`'s order — which is `to_ms`'s population order
(C07 `toMs_numbering`).  In the Model (`Ms.fromMs`), as in the source, this is the call without names followed by
the two checks of `from_ms` (`len(set(deme_names)) == len(graph.demes)`; `remap_deme_names`: the keys
`deme1 … deme{len(deme_names)}` are exactly the graph's deme names) and `Graph.rename_demes` with the map
`deme{k} ↦ deme_names[k-1]` and its validation.  The populations `to_ms` creates with `-es` (admixtures, pulses)
are joined at the time they are created, `from_ms` drops them as transient demes BEFORE the renaming, so the
number of names wanted is the number of demes of `g`.

Three things are proved:

1. the observable of a graph does not depend on what the demes are called (`graphSem_rename_invariant`,
   `graphSem_rename_invariant_own_order`), nor on populations that have no deme (`graphSem_extra_populations`);
2. `from_ms` accepts the names of `g` (`ms_roundtrip_names_accepts`);
3. the returned graph is valid, in generations, has exactly the deme names of `g`, and its observable read with
   "population `k` is the deme called like the `k`-th deme of `g`" is — as a value — the observable `rs` of §§5–6,
   so that every conclusion of `ms_roundtrip_sem_all` holds for it (`ms_roundtrip_names`).

**What is false**: "the demes come back in `g`'s order".  `from_ms` sorts its demes by start time (oldest first,
stable: `_sort_demes_by_ancestry`), and a valid graph need not list its demes that way
(`ms_roundtrip_names_order_counterexample`; the names are on the right demes, the list is permuted).  With the
excluding hypothesis `StartsSorted g` the order is `g`'s (`ms_roundtrip_names_order_partial`).

**What is harmless**: names of `g` that look like the placeholders (`deme2`, `deme1` in swapped positions; `deme4`,
the name of a transient population): `rename_demes` applies the map simultaneously, and the transient populations
are gone when it is applied (`ms_roundtrip_names_placeholder_clash_harmless`). -/

open Demes.Spec.MsSem (graphSemWith) in
/-- **The observable does not depend on the names.**  For a valid graph `g`, a renaming `r` that
`Graph.rename_demes` accepts (`renameDemesChecked g r = .ok g'`: any map — partial, swaps, chains — after which
the names are distinct identifiers), any size decoder `sz` and any list `names` of population names ("population
`k` is the deme called `names[k-1]`"): the renamed graph read with the renamed list has the observable of `g` read
with `names` — the same sizes, migration step function and lineage movements, or no observable on both sides (some
deme is not in the list; outcomes are compared by `toOption` because the error message quotes the name).  The
hypothesis: `r` does not give a listed name that is not a deme the new name of a deme, nor two listed positions of
different demes the same name (it is needed: see the example below). -/
theorem graphSem_rename_invariant (sz : Q → Sz) (g g' : Graph) (r : Renaming) (names : List String)
    (hv : Spec.validGraph g = true) (hr : renameDemesChecked g r = .ok g')
    (hinj : ∀ x ∈ names, ∀ d ∈ g.demes, r.apply x = r.apply d.name → x = d.name) :
    (graphSemWith sz g' (some (names.map r.apply))).toOption = (graphSemWith sz g (some names)).toOption :=
  Proofs.MsNames.graphSem_rename_checked hv hr hinj

open Demes.Spec.MsSem (graphSemWith) in
/-- … in particular, read in the graph's own deme order (`names = none`: population `k` is the `k`-th deme),
without any hypothesis on the renaming beyond its acceptance. -/
theorem graphSem_rename_invariant_own_order (sz : Q → Sz) (g g' : Graph) (r : Renaming)
    (hv : Spec.validGraph g = true) (hr : renameDemesChecked g r = .ok g') :
    (graphSemWith sz g' none).toOption = (graphSemWith sz g none).toOption :=
  Proofs.MsNames.graphSem_rename_checked_none hv hr

open Demes.Spec.MsSem (graphSemWith) in
/-- Population names after a list that contains every deme of a valid graph change nothing (populations
without a deme: the transient ones of `from_ms`, which `resultSem` lists and `msGraphSem … (some names)` does not). -/
theorem graphSem_extra_populations (sz : Q → Sz) (g : Graph) (names extra : List String)
    (hv : Spec.validGraph g = true) (hn : ∀ d ∈ g.demes, d.name ∈ names) :
    (graphSemWith sz g (some (names ++ extra))).toOption = (graphSemWith sz g (some names)).toOption :=
  Proofs.MsNames.graphSem_extra extra hv hn

/-- **`from_ms` accepts the names of `g`.**  Under the hypotheses of `ms_roundtrip_accepts`: `from_ms` of the
command `to_ms` prints, with the same `N0` and `deme_names` = the names of the demes of `g` in `g`'s order,
succeeds — as many names as `from_ms` has demes left after dropping the transient ones; they are distinct
identifiers because `g` is valid. -/
theorem ms_roundtrip_names_accepts (c : NumCodec) (sa : Growth → String) {g : Graph} (hv : Spec.validGraph g = true)
    (hx : MsExpressible g = true) (hcs : ConstSizes g = true) (hpt : PulsesTame g = true) {N0 : Q} (hN : 0 < N0)
    {samples : Option (List Int)} (hs : samplesOk g samples = true) {toks : List (Tok Growth)}
    (htoks : toMs g N0 samples = .ok toks) (hc : CodecCovers c toks) :
    ∃ mg', fromMs (renderG c sa toks) N0 (some (g.demes.map (·.name))) = .ok mg' :=
  Proofs.MsNames.ms_roundtrip_names_accepts c sa hv hx hcs hpt hN hs htoks hc

/-- **Graph → ms → graph with the same `N0` and the same deme names.**  For every valid ms-expressible graph `g`
of constant sizes with tame pulses, every `N0 > 0`, well-formed `samples`, and number codec that covers the
numbers of the command: `from_ms(to_ms(g, N0), N0)` returns `mg` and `from_ms(to_ms(g, N0), N0, deme_names)` with
the names of `g` returns `mg'`, which is `mg` renamed by `deme{k} ↦ k-th name of g`; `mg'.graph` is valid, in
generations (`generation_time` 1), and its deme names are exactly those of `g` (as a list up to order; in `g`'s
order when `g` lists its demes by non-increasing start time).  The observable of `mg'` read with "population `k`
is the deme called like the `k`-th deme of `g`" (`resultSemNamed`; this is how `graphSem (inGenerations …) none`
numbers the populations of `g`) exists and is THE SAME VALUE `rs` as the observable of `mg` read with "population
`k` is `deme{k}`"; hence the conclusions of `ms_roundtrip_sem_all`: `rs` is equivalent to the meaning `sem` of the
command, and both describe the demography `gs` of `normalizeProportions g` on the lifetimes of its demes
(`SemRefines`: same populations, lifetimes, sizes at every time, migration rates, lineage movements). -/
theorem ms_roundtrip_names (c : NumCodec) (sa : Growth → String) {g : Graph} (hv : Spec.validGraph g = true)
    (hx : MsExpressible g = true) (hcs : ConstSizes g = true) (hpt : PulsesTame g = true)
    {N0 : Q} (hN : 0 < N0) {samples : Option (List Int)} (hs : samplesOk g samples = true)
    {toks : List (Tok Growth)} (htoks : toMs g N0 samples = .ok toks) (hc : CodecCovers c toks) :
    ∃ mg mg' sem rs gs, fromMs (renderG c sa toks) N0 none = .ok mg
      ∧ fromMs (renderG c sa toks) N0 (some (g.demes.map (·.name))) = .ok mg'
      ∧ mg'.graph = renameDemes mg.graph (Proofs.FromMs.nameMap (g.demes.map (·.name)))
      ∧ mg'.table = mg.table ∧ mg'.doc = mg.doc
      ∧ Spec.validGraph mg'.graph = true ∧ mg'.graph.timeUnits = "generations" ∧ mg'.graph.generationTime = 1
      ∧ (mg'.graph.demes.map (·.name)).Perm (g.demes.map (·.name))
      ∧ (StartsSorted g = true → mg'.graph.demes.map (·.name) = g.demes.map (·.name))
      ∧ msSem (renderG c sa toks) N0 = .ok sem
      ∧ resultSem mg = .ok rs ∧ Spec.C08.resultSemNamed mg' (g.demes.map (·.name)) = .ok rs
      ∧ graphSem (inGenerations (normalizeProportions g)) none = .ok gs
      ∧ semEquiv sem rs = true ∧ SemRefines sem gs ∧ SemRefines rs gs :=
  Proofs.MsNames.ms_roundtrip_names c sa hv hx hcs hpt hN hs htoks hc

open Demes.Proofs.MsNames (orderEx namedRoundTripNames namedRoundTripOk swapEx clashEx namedRoundTrip) in
/-- **"… in the order of `g`" is false.**  `orderEx` — `A` (size 2) and `C` (size 3) from the infinite past, `B`
(size 1) branching off `A` at time 4, listed `A`, `B`, `C` — satisfies every hypothesis of `ms_roundtrip_names`
(`acceptHyps`) and has exact proportions; `to_ms` prints `-I 3 0 0 0 -n 1 2.0 -n 3 3.0 -ej 1.0 2 1`; `from_ms` of
that with `deme_names = ["A", "B", "C"]` returns the demes in the order `A`, `C`, `B`.  Every name is on the right
deme (`namedRoundTripOk`: the conclusion of `ms_roundtrip_names`, evaluated); the graph is not `StartsSorted`.
The real `demes.from_ms(demes.to_ms(g, N0=1), N0=1, deme_names=["A","B","C"])` returns the same order
`['A', 'C', 'B']` (replayed), and `Graph.isclose`, which ignores the order of the demes, holds. -/
theorem ms_roundtrip_names_order_counterexample :
    acceptHyps orderEx 1 = true ∧ ExactProportions orderEx = true ∧ StartsSorted orderEx = false
    ∧ (toMs orderEx 1 none).toOption.map (renderG tableCodec growthStr)
        = some ["-I", "3", "0", "0", "0", "-n", "1", "2.0", "-n", "3", "3.0", "-ej", "1.0", "2", "1"]
    ∧ orderEx.demes.map (·.name) = ["A", "B", "C"]
    ∧ namedRoundTripNames orderEx 1 = some ["A", "C", "B"]
    ∧ namedRoundTripOk orderEx 1 [0, 1, 4, 5] = true :=
  Proofs.MsNames.names_order_counterexample

/-- **The order, with the excluding hypothesis.**  If `g` lists its demes by non-increasing start time
(`StartsSorted`, Spec/C09.lean), whatever `from_ms` returns for the printed command with the names of `g` has its
demes in `g`'s order. -/
theorem ms_roundtrip_names_order_partial (c : NumCodec) (sa : Growth → String) {g : Graph} (hv : Spec.validGraph g = true)
    (hx : MsExpressible g = true) (hcs : ConstSizes g = true) (hpt : PulsesTame g = true)
    {N0 : Q} (hN : 0 < N0) {samples : Option (List Int)} (hs : samplesOk g samples = true)
    {toks : List (Tok Growth)} (htoks : toMs g N0 samples = .ok toks) (hc : CodecCovers c toks)
    (hso : StartsSorted g = true) {mg' : MsGraph}
    (h : fromMs (renderG c sa toks) N0 (some (g.demes.map (·.name))) = .ok mg') :
    mg'.graph.demes.map (·.name) = g.demes.map (·.name) :=
  Proofs.MsNames.ms_roundtrip_names_order c sa hv hx hcs hpt hN hs htoks hc hso h

open Demes.Proofs.MsNames (namedRoundTripNames namedRoundTripOk swapEx clashEx namedRoundTrip) in
/-- **Names that collide with the placeholders are harmless** (instances of `ms_roundtrip_names`, evaluated).
`swapEx`: the root is called `deme2`, its descendant `deme1` — the name map is the swap, applied simultaneously,
and `deme2` is still the root.  `clashEx`: the admixture of §5 with `A` called `deme4` — the name of the transient
population `to_ms` creates with `-es` — and `C` called `deme5`.  Both go round with their names.  (Replayed on the
real code: the same graphs come back, `isclose` holds.) -/
theorem ms_roundtrip_names_placeholder_clash_harmless :
    acceptHyps swapEx 1 = true ∧ StartsSorted swapEx = true
    ∧ namedRoundTripNames swapEx 1 = some ["deme2", "deme1"] ∧ namedRoundTripOk swapEx 1 [0, 1, 4, 5] = true
    ∧ (namedRoundTrip swapEx 1).map (fun mg => mg.graph.demes.map (fun d => (d.name, d.startTime, d.ancestors)))
        = some [("deme2", .inf, []), ("deme1", .fin 4, ["deme2"])]
    ∧ acceptHyps clashEx 1 = true ∧ StartsSorted clashEx = true
    ∧ (toMs clashEx 1 none).toOption.map (renderG tableCodec growthStr)
        = some ["-I", "3", "0", "0", "0", "-n", "1", "2.0", "-n", "3", "0.5", "-es", "1.0", "3", "0.5", "-ej", "1.0", "4", "1",
                "-ej", "1.0", "3", "2", "-ej", "2.0", "2", "1"]
    ∧ namedRoundTripNames clashEx 1 = some ["deme4", "B", "deme5"] ∧ namedRoundTripOk clashEx 1 [0, 1, 4, 5, 8, 9] = true :=
  Proofs.MsNames.placeholder_names_harmless

/-! ### non-vacuity of §7 -/

open Demes.Proofs.MsNames (namedRoundTripNames namedRoundTripOk) in
/-- the hypotheses are those of §6 (`acceptHyps`, satisfied by the five graphs there with their names `A`, `B`,
`C`), and the theorem applies -/
example := Proofs.MsNames.names_of_acceptHyps (g := admixMig) (N0 := 1) (by decide +kernel)
example : [branchMig, admixture, twoDemePulse (1/2), twoEpochs, admixMig].all StartsSorted = true := by decide +kernel

open Demes.Proofs.MsNames (namedRoundTripNames namedRoundTripOk) in
/-- the conclusion evaluated independently of the theorem (`namedRoundTripOk`, Proofs/MsNamesExamples.lean: both
calls succeed; the named result is valid, in generations, with the names of `g`; its observable read with `g`'s
names equals the observable of the unnamed result and passes `refinesAt` against the demography of `g`) -/
example : [branchMig, admixture, twoDemePulse (1/2), twoEpochs, admixMig].map (fun g => namedRoundTripNames g 1)
    = [some ["A", "B"], some ["A", "B", "C"], some ["A", "B"], some ["A", "B"], some ["A", "B", "C"]] := by decide +kernel
open Demes.Proofs.MsNames (namedRoundTripOk) in
example : namedRoundTripOk branchMig 1 [0, 1, 2, 4, 5, 100] = true ∧ namedRoundTripOk admixture 1 [0, 1, 4, 5, 8, 9] = true
    ∧ namedRoundTripOk admixture 2 [0, 1, 4, 5, 8, 9] = true ∧ namedRoundTripOk (twoDemePulse (1/2)) 1 [0, 1, 4, 5] = true
    ∧ namedRoundTripOk twoEpochs 1 [0, 1, 2, 3, 4, 5] = true ∧ namedRoundTripOk admixMig 1 [0, 1, 2, 4, 5, 8, 9] = true := by
  decide +kernel

/-- … and it is not vacuous: the names of `branchMig` given in the other order put the names on the wrong demes,
and the observable read with `["A", "B"]` is not that of `branchMig` -/
example : (match fromMs ["-I", "2", "0", "0", "-n", "1", "2.0", "-n", "2", "0.5", "-m", "2", "1", "0.5", "-ej", "1.0", "2", "1"] 1
      (some ["B", "A"]), graphSem (inGenerations branchMig) none with
    | .ok mg', .ok gs => (Spec.C08.resultSemNamed mg' ["A", "B"]).toOption.map (fun rs' => refinesAt rs' gs [0])
    | _, _ => none) = some false := by decide +kernel

/-- `graphSem_rename_invariant_own_order` on the three-deme graph of C15 (ancestors, migrations, a two-source
pulse) and a 3-cycle of its names: hypotheses and conclusion (here even with equal error-free outcomes) -/
example : Spec.validGraph (inGenerations Proofs.exampleGraph3) = true
    ∧ (renameDemesChecked (inGenerations Proofs.exampleGraph3) [("A", "B"), ("B", "C"), ("C", "A")]).toOption.isSome = true
    ∧ (graphSem (inGenerations Proofs.exampleGraph3) none).toOption.isSome = true
    ∧ graphSem (renameDemes (inGenerations Proofs.exampleGraph3) [("A", "B"), ("B", "C"), ("C", "A")]) none
        = graphSem (inGenerations Proofs.exampleGraph3) none := by decide +kernel

/-- the injectivity hypothesis of `graphSem_rename_invariant` is needed: population list `A, X, B, C` (`X` has no
deme) and the renaming `X ↦ B` (accepted: no deme is renamed): the renamed list is `A, B, B, C`, `B` becomes
population 2 instead of 3, and the observable changes -/
example : Spec.validGraph (inGenerations Proofs.exampleGraph3) = true
    ∧ (renameDemesChecked (inGenerations Proofs.exampleGraph3) [("X", "B")]).toOption.isSome = true
    ∧ (graphSem (renameDemes (inGenerations Proofs.exampleGraph3) [("X", "B")])
        (some (["A", "X", "B", "C"].map (Renaming.apply [("X", "B")])))).toOption
      ≠ (graphSem (inGenerations Proofs.exampleGraph3) (some ["A", "X", "B", "C"])).toOption
    ∧ (graphSem (inGenerations Proofs.exampleGraph3) (some ["A", "X", "B", "C"])).toOption.isSome = true := by
  decide +kernel

end Demes.Theorems
