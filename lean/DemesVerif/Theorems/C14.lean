/-
  C14 — predecessor, successor and discrete-event views are exact views of ancestry.

  Spec side: `Spec/C14.lean` (`specBranches`, `specMergers`, `specAdmixtures`, `specSplits`,
  `splitsAgree`, `accountedChildren`), all defined by filtering the deme list and looking demes
  up by their own name.  Model side: `predecessors`, `successors`, `discreteEvents` of
  `Model/Views.lean`, which look demes up through the name index as the implementation does.
-/
import DemesVerif.Proofs.Events
namespace Demes.Theorems
open Demes Demes.Spec

/-- The predecessor map lists, in deme order, each deme with its ancestors in their listed
order. -/
theorem pred_is_ancestors (g : Graph) (hv : validGraph g = true) :
    predecessors g = g.demes.map (fun d => (d.name, d.ancestors)) :=
  Proofs.pred_is_ancestors g hv

/-- The successor map is the exact transpose: in deme order, each deme with the names of the
demes that list it as an ancestor, each once, in deme order. -/
theorem succ_is_transpose (g : Graph) (hv : validGraph g = true) :
    successors g = g.demes.map (fun d =>
      (d.name, (g.demes.filter (fun c => c.ancestors.contains d.name)).map (·.name))) :=
  Proofs.succ_is_transpose g hv

/-- Both maps have exactly the deme names as keys, in deme order. -/
theorem pred_succ_total (g : Graph) (hv : validGraph g = true) :
    (predecessors g).map (·.1) = g.demes.map (·.name)
      ∧ (successors g).map (·.1) = g.demes.map (·.name) :=
  Proofs.pred_succ_total g hv

/-- `discrete_demographic_events()` does not raise; it returns the pulse list unchanged, the
branches, mergers and admixtures exactly as specified (in deme order, with the deme's time,
parents and proportions), and the splits as specified up to the order of the split list and
of each children list (the children come out of a Python `set`). -/
theorem events_spec (g : Graph) (hv : validGraph g = true) :
    ∃ ev, discreteEvents g = some ev ∧ ev.pulses = g.pulses
      ∧ ev.branches = specBranches g ∧ ev.mergers = specMergers g
      ∧ ev.admixtures = specAdmixtures g ∧ splitsAgree ev.splits (specSplits g) :=
  Proofs.events_spec g hv

/-- Stronger form true of the Model: the split list is a permutation of the specified one,
each split carrying its children in deme order (the Model appends children in deme order;
only the order of the split list — first child encountered vs. parent order — differs). -/
theorem events_spec_ordered (g : Graph) (hv : validGraph g = true) :
    ∃ ev, discreteEvents g = some ev ∧ ev.pulses = g.pulses
      ∧ ev.branches = specBranches g ∧ ev.mergers = specMergers g
      ∧ ev.admixtures = specAdmixtures g ∧ ev.splits.Perm (specSplits g) :=
  Proofs.events_spec_ordered g hv

/-- The classification is exhaustive and exclusive (a statement about the Spec lists only):
the children of all specified splits, branches, mergers and admixtures, taken together with
multiplicity, are a rearrangement of the names of the demes that have at least one ancestor. -/
theorem events_partition (g : Graph) (hv : validGraph g = true) :
    (accountedChildren g).Perm
      ((g.demes.filter (fun d => !d.ancestors.isEmpty)).map (·.name)) :=
  Proofs.events_partition g hv

/-- Pointwise form: a deme with ancestors is the child of exactly one specified event, a deme
without ancestors of none. -/
theorem events_partition_count (g : Graph) (hv : validGraph g = true) (d : Deme)
    (hd : d ∈ g.demes) :
    (accountedChildren g).count d.name = if d.ancestors.isEmpty then 0 else 1 :=
  Proofs.events_partition_count g hv d hd

/-! ### non-vacuity

`Proofs.eventsGraph`: roots `A`, `X`; `X` splits into `Y`; `A` splits into `B` and `C`; `D`
branches off `B`; `E` is the merger of `C` and `D`; `F` is an admixture of `B` and `E`; one
migration, one pulse.  (The same graph built with the real library gives the same five
lists, the children of `A` coming out of the `set` as `['C', 'B']`.) -/

/-- the hypothesis of every theorem above is satisfiable -/
example : validGraph Proofs.eventsGraph = true := by decide +kernel

/-- the Model's answer on it: one split with two children, one with one, a branch, a merger,
an admixture, the pulse list unchanged -/
example :
    discreteEvents Proofs.eventsGraph = some {
      pulses := [{ sources := ["B"], dest := "E", time := 30, proportions := [1/2] }],
      splits := [{ parent := "X", children := ["Y"], time := 60 },
                 { parent := "A", children := ["B", "C"], time := 100 }],
      branches := [{ parent := "B", child := "D", time := .fin 80 }],
      mergers := [{ parents := ["C", "D"], proportions := [1/2, 1/2], child := "E", time := .fin 50 }],
      admixtures :=
        [{ parents := ["B", "E"], proportions := [1/4, 3/4], child := "F", time := .fin 20 }] } := by
  decide +kernel

/-- the Spec lists on it are non-empty; the split list is in parent order, which here differs
from the Model's order — the permutation in `events_spec` is necessary -/
example :
    specSplits Proofs.eventsGraph =
        [{ parent := "A", children := ["B", "C"], time := 100 },
         { parent := "X", children := ["Y"], time := 60 }]
    ∧ specBranches Proofs.eventsGraph = [{ parent := "B", child := "D", time := .fin 80 }]
    ∧ (specMergers Proofs.eventsGraph).map (·.child) = ["E"]
    ∧ (specAdmixtures Proofs.eventsGraph).map (·.child) = ["F"]
    ∧ accountedChildren Proofs.eventsGraph = ["B", "C", "Y", "D", "E", "F"] := by
  decide +kernel

/-- the two maps on it -/
example :
    predecessors Proofs.eventsGraph = [("A", []), ("X", []), ("Y", ["X"]), ("B", ["A"]),
      ("C", ["A"]), ("D", ["B"]), ("E", ["C", "D"]), ("F", ["B", "E"])]
    ∧ successors Proofs.eventsGraph = [("A", ["B", "C"]), ("X", ["Y"]), ("Y", []),
      ("B", ["D", "F"]), ("C", ["E"]), ("D", ["E"]), ("E", ["F"]), ("F", [])] := by
  decide +kernel

end Demes.Theorems
