/-
  C08, after the event loop (2): dividing every emitted rate by `4·N0` commutes with the sweep of
  `_add_migrations_from_matrices`.
-/
import DemesVerif.Proofs.FromMsPostMig
import Mathlib.Tactic.FieldSimp
namespace Demes.Proofs.FromMs
open Demes Demes.Ms Demes.Spec.MsSem Demes.Spec.C08

theorem activeRates_scale (names : List String) (N0 : Q) (migs : List BMigration) (j k : Nat) (t : Q) :
    activeRates names (migs.map (scaleMig N0)) j k t = (activeRates names migs j k t).map (scaleRate N0) := by
  unfold activeRates
  induction migs with
  | nil => rfl
  | cons m migs ih =>
    have h1 : pairIs names j k (scaleMig N0 m) = pairIs names j k m := rfl
    have h2 : covers t (scaleMig N0 m) = covers t m := rfl
    simp only [List.map_cons, List.filter_cons, h1]
    by_cases hp : pairIs names j k m = true
    · simp only [hp, if_true, List.filter_cons, h2]
      by_cases hc : covers t m = true
      · simp only [hc, if_true, List.map_cons]
        rw [ih]
        rfl
      · simp only [hc, Bool.false_eq_true, if_false]
        exact ih
    · simp only [hp, Bool.false_eq_true, if_false]
      exact ih

theorem numEq_scale_zero {N0 : Q} (hN : N0 ≠ 0) (r : Num) :
    numEq (scaleRate N0 r) (.fin 0) = numEq r (.fin 0) := by
  cases r with
  | fin q =>
    show ((q / (4 * N0)) == (0 : Q)) = (q == (0 : Q))
    have h4 : (4 * N0) ≠ 0 := by grind
    by_cases hq : q = 0
    · subst hq; simp
    · have : q / (4 * N0) ≠ 0 := by
        intro h
        apply hq
        rcases div_eq_zero_iff.mp h with h | h
        · exact h
        · exact absurd h h4
      simp [hq, this]
  | _ => rfl

theorem expectedRates_scale {N0 : Q} (hN : N0 ≠ 0) (x : Option Num) :
    (expectedRates x).map (scaleRate N0) = expectedRates (x.map (scaleRate N0)) := by
  cases x with
  | none => rfl
  | some r =>
    simp only [expectedRates, Option.map_some, numEq_scale_zero hN]
    split <;> rfl

/-- **(2) the division of the rates by `4·N0`** commutes with the sweep: the active rate of every
ordered pair at every time is the scaled matrix entry in force -/
theorem scale_rates {names : List String} {ml : List MM} {ts : List Q} {migs : List BMigration} {N0 : Q}
    (h : addMigrationsFromMatrices names ml ts = .ok migs) (hnd : names.Nodup)
    (hdec : ts.Pairwise (fun a b => b < a)) (hN : N0 ≠ 0) :
    ∀ j k, j < names.length → k < names.length → j ≠ k → ∀ t,
      activeRates names (migs.map (scaleMig N0)) j k t
        = expectedRates ((mmRateAt ml ts j k t).map (scaleRate N0)) := by
  intro j k hj hk hjk t
  rw [activeRates_scale, (addMigrations_sem h hnd hdec).2 j k hj hk hjk t, expectedRates_scale hN]

theorem scale_wf {names : List String} {migs : List BMigration} (N0 : Q) (h : MigsWF names migs) :
    MigsWF names (migs.map (scaleMig N0)) := by
  intro mg hmg
  obtain ⟨m, hm, rfl⟩ := List.mem_map.mp hmg
  exact h m hm

end Demes.Proofs.FromMs
