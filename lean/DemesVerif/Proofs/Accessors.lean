/-
  Proofs for the five read accessors (`Model/Accessors.lean`): `Epoch.time_span`, `Deme.end_time`,
  `Deme.time_span`, `Graph.__getitem__`, `Graph.__contains__` — on valid graphs (C01), after
  `rename_demes` (C15).  (The tie to the expressions generated from the source is in `Proofs/AccessorsTie.lean`, so that
  a change of the source breaks only `Theorems/TablesAccessors.lean`.)
-/
import DemesVerif.Model.Accessors
import DemesVerif.Proofs.SizeAt
import DemesVerif.Proofs.Rename
import DemesVerif.Proofs.ResolveDemes
namespace Demes.Proofs.Accessors
open Demes Demes.Spec Demes.Proofs

/-! ### the accessors and the total forms of `Model/Graph.lean` -/

theorem getItem_ok_iff (g : Graph) (n : String) (d : Deme) :
    Graph.getItem g n = .ok d ↔ g.deme? n = some d := by
  unfold Graph.getItem Graph.deme? Graph.indexLookup
  cases hf : g.index.find? (fun kv => decide (kv.1 = n)) with
  | none => simp [keyErr]
  | some kv =>
    simp only [Option.map_some]
    cases hd : g.demes[kv.2]? with
    | none => simp
    | some e => simp [pure, Except.pure]

theorem getItem_toOption (g : Graph) (n : String) : (Graph.getItem g n).toOption = g.deme? n := by
  cases h : Graph.getItem g n with
  | ok d => rw [((getItem_ok_iff g n d).1 h)]; rfl
  | error e =>
    cases h' : g.deme? n with
    | none => rfl
    | some d => rw [(getItem_ok_iff g n d).2 h'] at h; cases h

theorem contains_eq_hasName (g : Graph) (n : String) : Graph.contains g n = g.hasName n := by
  unfold Graph.contains Graph.hasName Graph.indexLookup
  rw [Option.isSome_map, Bool.eq_iff_iff, List.any_eq_true, List.find?_isSome]

theorem getItem_keyErr_of_not_contains (g : Graph) (n : String) (h : Graph.contains g n = false) :
    Graph.getItem g n = keyErr n := by
  unfold Graph.contains at h
  unfold Graph.getItem
  have : g.index.find? (fun kv => decide (kv.1 = n)) = none := by
    rw [List.find?_eq_none]
    intro kv hkv hk
    have : g.index.any (fun kv => decide (kv.1 = n)) = true := List.any_eq_true.2 ⟨kv, hkv, hk⟩
    rw [h] at this; cases this
  rw [this]

theorem getItem_contains (g : Graph) (n : String) (d : Deme) (h : Graph.getItem g n = .ok d) :
    Graph.contains g n = true := by
  cases hc : Graph.contains g n with
  | true => rfl
  | false => rw [getItem_keyErr_of_not_contains g n hc] at h; cases h

/-! ### valid graphs -/

theorem valid_v0 {g : Graph} (hv : validGraph g = true) : v0 g = true := by
  simp only [validGraph, Bool.and_eq_true] at hv; exact hv.1

theorem valid_nodup {g : Graph} (hv : validGraph g = true) : (g.demes.map (·.name)).Nodup := by
  simp only [validGraph, validData, v1, Bool.and_eq_true, decide_eq_true_eq] at hv
  exact hv.2.1.1.1.1.1.1.1.1.1.1.1.2

theorem valid_v3 {g : Graph} (hv : validGraph g = true) : v3 g = true := by
  simp only [validGraph, validData, Bool.and_eq_true] at hv
  exact hv.2.1.1.1.1.1.1.1.1.1.2

theorem valid_v5 {g : Graph} (hv : validGraph g = true) : v5 g = true := by
  simp only [validGraph, validData, Bool.and_eq_true] at hv
  exact hv.2.1.1.1.1.1.1.1.2

theorem valid_v6 {g : Graph} (hv : validGraph g = true) : v6 g = true := by
  simp only [validGraph, validData, Bool.and_eq_true] at hv
  exact hv.2.1.1.1.1.1.1.2

/-- `graph[d.name]` is `d` -/
theorem getItem_of_mem (g : Graph) (hv : validGraph g = true) {d : Deme} (hd : d ∈ g.demes) :
    Graph.getItem g d.name = .ok d :=
  (getItem_ok_iff g d.name d).2 (deme?_of_valid (valid_v0 hv) (valid_nodup hv) hd)

/-- what `graph[n]` returns is a deme of the graph, named `n` -/
theorem getItem_ok (g : Graph) (hv : validGraph g = true) {n : String} {d : Deme}
    (h : Graph.getItem g n = .ok d) : d ∈ g.demes ∧ d.name = n := by
  have h1 := (getItem_ok_iff g n d).1 h
  rw [RV.deme?_eq_findDeme (valid_v0 hv)] at h1
  unfold findDeme at h1
  exact ⟨List.mem_of_find?_eq_some h1, by simpa using List.find?_some h1⟩

theorem getItem_eq_iff (g : Graph) (hv : validGraph g = true) (n : String) (d : Deme) :
    Graph.getItem g n = .ok d ↔ d ∈ g.demes ∧ d.name = n :=
  ⟨getItem_ok g hv, fun ⟨hd, hn⟩ => hn ▸ getItem_of_mem g hv hd⟩

theorem getItem_succeeds_iff (g : Graph) (hv : validGraph g = true) (n : String) :
    (∃ d, Graph.getItem g n = .ok d) ↔ n ∈ g.demes.map (·.name) := by
  constructor
  · rintro ⟨d, h⟩
    obtain ⟨hd, rfl⟩ := getItem_ok g hv h
    exact List.mem_map_of_mem hd
  · intro h
    obtain ⟨d, hd, rfl⟩ := List.mem_map.1 h
    exact ⟨d, getItem_of_mem g hv hd⟩

theorem contains_iff (g : Graph) (hv : validGraph g = true) (n : String) :
    Graph.contains g n = true ↔ n ∈ g.demes.map (·.name) := by
  rw [contains_eq_hasName]
  exact hasName_iff_of_v0 (valid_v0 hv) n

theorem getItem_keyError (g : Graph) (hv : validGraph g = true) {n : String}
    (h : n ∉ g.demes.map (·.name)) : Graph.getItem g n = keyErr n := by
  apply getItem_keyErr_of_not_contains
  cases hc : Graph.contains g n with
  | false => rfl
  | true => exact (h ((contains_iff g hv n).1 hc)).elim

/-- the deme of a name is unique -/
theorem deme_unique (g : Graph) (hv : validGraph g = true) {d e : Deme} (hd : d ∈ g.demes) (he : e ∈ g.demes)
    (hn : d.name = e.name) : d = e := by
  have h1 := getItem_of_mem g hv hd
  have h2 := getItem_of_mem g hv he
  rw [hn, h2] at h1
  exact (Except.ok.inj h1).symm

/-- the index records, under the name of the deme at position `i`, the position `i` -/
theorem index_position (g : Graph) (hv : validGraph g = true) {i : Nat} {d : Deme} (hi : g.demes[i]? = some d) :
    g.indexLookup d.name = some i ∧ Graph.getItem g d.name = .ok d := by
  refine ⟨?_, getItem_of_mem g hv (List.mem_of_getElem? hi)⟩
  have h0 := (v0_iff g).1 (valid_v0 hv)
  unfold Graph.indexLookup
  rw [h0]
  unfold expectedIndex
  rw [expectedIndex_find g.demes 0 (valid_nodup hv) hi]
  simp

/-! ### end times and time spans -/

theorem deme_facts (g : Graph) (hv : validGraph g = true) {d : Deme} (hd : d ∈ g.demes) :
    d.epochs ≠ [] ∧ contiguous d.startTime d.epochs = true ∧ (∀ e ∈ d.epochs, 0 ≤ e.endTime)
      ∧ (d.ancestors.isEmpty = d.startTime.isInf) := by
  have h5 := valid_v5 hv
  have h6 := valid_v6 hv
  have h3 := valid_v3 hv
  simp only [v5, List.all_eq_true, Bool.and_eq_true, Bool.not_eq_true', List.isEmpty_eq_false_iff] at h5
  simp only [v6, List.all_eq_true, Bool.and_eq_true, decide_eq_true_eq] at h6
  simp only [v3, List.all_eq_true, Bool.and_eq_true, beq_iff_eq] at h3
  exact ⟨(h5 d hd).1, (h5 d hd).2, fun e he => (h6 d hd e he).2, (h3 d hd).1.2⟩

theorem endTimeAcc_of_last {d : Deme} {l : Epoch} (hl : d.epochs.getLast? = some l) :
    d.endTimeAcc = .ok l.endTime ∧ d.endTime = l.endTime := by
  unfold Deme.endTimeAcc Deme.endTime Deme.endTime?
  rw [hl]
  exact ⟨rfl, rfl⟩

theorem exists_last {α} {xs : List α} (h : xs ≠ []) : ∃ l, xs.getLast? = some l := by
  cases hl : xs.getLast? with
  | some l => exact ⟨l, rfl⟩
  | none => exact (h (List.getLast?_eq_none_iff.1 hl)).elim

/-- the accessor agrees with the Model's total `Deme.endTime` whenever there is an epoch -/
theorem endTimeAcc_eq (d : Deme) (h : d.epochs ≠ []) : d.endTimeAcc = .ok d.endTime := by
  obtain ⟨l, hl⟩ := exists_last h
  obtain ⟨h1, h2⟩ := endTimeAcc_of_last hl
  rw [h1, h2]

theorem endTimeAcc_nil (d : Deme) (h : d.epochs = []) :
    d.endTimeAcc = indexErr "list index out of range" := by
  unfold Deme.endTimeAcc; rw [h]; rfl

theorem timeSpan_eq (d : Deme) (h : d.epochs ≠ []) : d.timeSpan = .ok (d.startTime.subQ d.endTime) := by
  unfold Deme.timeSpan; rw [endTimeAcc_eq d h]; rfl

theorem last_lt_start {start : ETime} {es : List Epoch} (h : contiguous start es = true) {l : Epoch}
    (hl : es.getLast? = some l) : ETime.fin l.endTime < start := by
  obtain ⟨h1, h2⟩ := contiguous_mem h l (List.mem_of_getLast? hl)
  exact etime_lt_of_lt_of_le h1 h2

theorem subQ_pos {a : ETime} {b : Q} (h : ETime.fin b < a) : ETime.fin 0 < a.subQ b := by
  cases a with
  | inf => exact (fin_lt_inf _).2 trivial
  | fin q =>
    rw [fin_lt_fin] at h
    show ETime.fin 0 < ETime.fin (q - b)
    rw [fin_lt_fin]; linarith

theorem subQ_isInf (a : ETime) (b : Q) : (a.subQ b).isInf = a.isInf := by cases a <;> rfl

/-- on a valid graph `Deme.end_time` succeeds with the Model's `endTime`, the end of the last epoch, which is
non-negative -/
theorem valid_endTime (g : Graph) (hv : validGraph g = true) {d : Deme} (hd : d ∈ g.demes) :
    d.endTimeAcc = .ok d.endTime ∧ 0 ≤ d.endTime
      ∧ ∃ l, d.epochs.getLast? = some l ∧ d.endTime = l.endTime := by
  obtain ⟨hne, _, h6, _⟩ := deme_facts g hv hd
  obtain ⟨l, hl⟩ := exists_last hne
  obtain ⟨_, h2⟩ := endTimeAcc_of_last hl
  exact ⟨endTimeAcc_eq d hne, h2 ▸ h6 l (List.mem_of_getLast? hl), l, hl, h2⟩

theorem valid_timeSpan (g : Graph) (hv : validGraph g = true) {d : Deme} (hd : d ∈ g.demes) :
    d.timeSpan = .ok (d.startTime.subQ d.endTime) ∧ ETime.fin 0 < d.startTime.subQ d.endTime
      ∧ ((d.startTime.subQ d.endTime).isInf = d.ancestors.isEmpty) := by
  obtain ⟨hne, hc, _, h3⟩ := deme_facts g hv hd
  obtain ⟨l, hl⟩ := exists_last hne
  obtain ⟨_, h2⟩ := endTimeAcc_of_last hl
  refine ⟨timeSpan_eq d hne, subQ_pos (h2 ▸ last_lt_start hc hl), ?_⟩
  rw [subQ_isInf, h3]

theorem valid_epoch_timeSpan (g : Graph) (hv : validGraph g = true) {d : Deme} (hd : d ∈ g.demes)
    {e : Epoch} (he : e ∈ d.epochs) : ETime.fin 0 < e.timeSpan := by
  obtain ⟨_, hc, _, _⟩ := deme_facts g hv hd
  exact subQ_pos (contiguous_mem hc e he).1

def spanSum (es : List Epoch) : ETime := (es.map Epoch.timeSpan).foldr ETime.add (.fin 0)

theorem add_fin_zero (a : ETime) : ETime.add a (.fin 0) = a := by
  cases a with
  | inf => rfl
  | fin q => show ETime.fin (q + 0) = ETime.fin q; rw [Rat.add_zero]

theorem subQ_add (a : ETime) (b c : Q) : ETime.add (a.subQ b) (.fin (b - c)) = a.subQ c := by
  cases a with
  | inf => rfl
  | fin q =>
    show ETime.fin (q - b + (b - c)) = ETime.fin (q - c)
    congr 1; linarith

/-- the spans of a contiguous list of epochs add up to the span from its start to its last end -/
theorem spanSum_contiguous : ∀ (es : List Epoch) (start : ETime), contiguous start es = true →
    ∀ l, es.getLast? = some l → spanSum es = start.subQ l.endTime := by
  intro es
  induction es with
  | nil => intro _ _ l hl; simp at hl
  | cons x es ih =>
    intro start h l hl
    obtain ⟨c1, _, c3⟩ := (contiguous_cons _ _ _).1 h
    cases es with
    | nil =>
      simp only [List.getLast?_singleton, Option.some.injEq] at hl
      subst hl
      show ETime.add (x.startTime.subQ x.endTime) (.fin 0) = start.subQ x.endTime
      rw [add_fin_zero, c1]
    | cons y ys =>
      rw [List.getLast?_cons_cons] at hl
      have := ih (ETime.fin x.endTime) c3 l hl
      show ETime.add (x.startTime.subQ x.endTime) (spanSum (y :: ys)) = start.subQ l.endTime
      rw [this, c1]
      exact subQ_add start x.endTime l.endTime

theorem valid_spanSum (g : Graph) (hv : validGraph g = true) {d : Deme} (hd : d ∈ g.demes) :
    d.timeSpan = .ok (spanSum d.epochs) := by
  obtain ⟨hne, hc, _, _⟩ := deme_facts g hv hd
  obtain ⟨l, hl⟩ := exists_last hne
  obtain ⟨_, h2⟩ := endTimeAcc_of_last hl
  rw [timeSpan_eq d hne, spanSum_contiguous d.epochs d.startTime hc l hl, h2]

/-- finite case, as rationals -/
theorem valid_spanSum_fin (g : Graph) (hv : validGraph g = true) {d : Deme} (hd : d ∈ g.demes) {s : Q}
    (hs : d.startTime = .fin s) : spanSum d.epochs = .fin (s - d.endTime) := by
  have h1 := valid_spanSum g hv hd
  rw [(valid_timeSpan g hv hd).1, hs] at h1
  exact (Except.ok.inj h1).symm

/-! ### after `rename_demes` -/

theorem rename_getItem (g : Graph) (r : Renaming) (hr : RenameOK g r) {d : Deme} (hd : d ∈ g.demes) :
    Graph.getItem (renameDemes g r) (r.apply d.name) = .ok (renamedDeme r d)
      ∧ Graph.contains (renameDemes g r) (r.apply d.name) = true := by
  have h := (getItem_ok_iff _ _ _).2 (rename_lookup g r hr hd)
  exact ⟨h, getItem_contains _ _ _ h⟩

theorem rename_contains (g : Graph) (r : Renaming) (hr : RenameOK g r) (x : String) :
    Graph.contains (renameDemes g r) x = true ↔ ∃ d ∈ g.demes, x = r.apply d.name := by
  rw [contains_eq_hasName]; exact rename_hasName g r hr x

theorem rename_getItem_old_gone (g : Graph) (r : Renaming) (hr : RenameOK g r) {n : String}
    (hk : n ∈ r.map (·.1)) (hv : n ∉ r.map (·.2)) :
    Graph.getItem (renameDemes g r) n = keyErr n ∧ Graph.contains (renameDemes g r) n = false := by
  have h := (rename_old_name_gone g r hr hk hv).1
  rw [← contains_eq_hasName] at h
  exact ⟨getItem_keyErr_of_not_contains _ _ h, h⟩

theorem rename_getItem_unused (g : Graph) (r : Renaming) (hr : RenameOK g r) {x : String}
    (hn : x ∉ g.demes.map (·.name)) (hv : x ∉ r.map (·.2)) :
    Graph.getItem (renameDemes g r) x = keyErr x ∧ Graph.contains (renameDemes g r) x = false := by
  have h := (rename_unused_name g r hr hn hv).1
  rw [← contains_eq_hasName] at h
  exact ⟨getItem_keyErr_of_not_contains _ _ h, h⟩

end Demes.Proofs.Accessors
