/-
  Proofs for C13 — `Deme.size_at` (Model `sizeAt`) against the epoch size functions.
-/
import DemesVerif.Spec.C13
import Mathlib.Tactic.Linarith
import Mathlib.Algebra.Order.Field.Basic
namespace Demes.Proofs
open Demes Demes.Spec

/-! ### order facts on `ETime` -/

theorem fin_lt_fin (a b : Q) : (ETime.fin a < ETime.fin b) ↔ a < b := Iff.rfl
theorem fin_lt_inf (a : Q) : (ETime.fin a < ETime.inf) ↔ True := Iff.rfl
theorem inf_lt (x : ETime) : (ETime.inf < x) ↔ False := by cases x <;> exact Iff.rfl
theorem fin_le_fin (a b : Q) : (ETime.fin a ≤ ETime.fin b) ↔ a ≤ b := Iff.rfl
theorem le_inf (x : ETime) : (x ≤ ETime.inf) ↔ True := by cases x <;> exact Iff.rfl
theorem inf_le_fin (a : Q) : (ETime.inf ≤ ETime.fin a) ↔ False := Iff.rfl

theorem etime_le_refl (a : ETime) : a ≤ a := by
  cases a
  · exact (fin_le_fin _ _).2 (le_refl _)
  · exact (le_inf _).2 trivial

theorem etime_le_of_le_of_lt {a : ETime} {b : Q} {c : ETime}
    (h1 : a ≤ ETime.fin b) (h2 : ETime.fin b < c) : a ≤ c := by
  cases a <;> cases c
  · rw [fin_le_fin] at *; rw [fin_lt_fin] at h2; exact le_of_lt (lt_of_le_of_lt h1 h2)
  · exact (le_inf _).2 trivial
  · exact ((inf_le_fin _).1 h1).elim
  · exact (le_inf _).2 trivial

theorem etime_lt_of_lt_of_le {t : Q} {a b : ETime}
    (h1 : ETime.fin t < a) (h2 : a ≤ b) : ETime.fin t < b := by
  cases a <;> cases b
  · rw [fin_lt_fin] at *; rw [fin_le_fin] at h2; exact lt_of_lt_of_le h1 h2
  · exact (fin_lt_inf _).2 trivial
  · exact ((inf_le_fin _).1 h2).elim
  · exact (fin_lt_inf _).2 trivial

/-- no time lies both at-or-after `a`'s end and strictly before a start that is `≤ a`'s end -/
theorem etime_absurd {t x : Q} {s : ETime}
    (h1 : ETime.fin t < s) (h2 : s ≤ ETime.fin x) (h3 : x ≤ t) : False := by
  cases s
  · rw [fin_lt_fin] at h1; rw [fin_le_fin] at h2; linarith
  · exact (inf_le_fin _).1 h2

/-! ### contiguous epoch lists -/

theorem contiguous_cons (start : ETime) (e : Epoch) (es : List Epoch) :
    contiguous start (e :: es) = true ↔
      e.startTime = start ∧ ETime.fin e.endTime < e.startTime
        ∧ contiguous (ETime.fin e.endTime) es = true := by
  simp only [contiguous, Bool.and_eq_true, beq_iff_eq, decide_eq_true_eq, and_assoc]

/-- every epoch of a contiguous list is non-empty (`end < start`) and starts no earlier
than the list's start -/
theorem contiguous_mem {start : ETime} {es : List Epoch} (h : contiguous start es = true) :
    ∀ e ∈ es, ETime.fin e.endTime < e.startTime ∧ e.startTime ≤ start := by
  induction es generalizing start with
  | nil => intro e he; cases he
  | cons a es ih =>
    obtain ⟨h1, h2, h3⟩ := (contiguous_cons _ _ _).1 h
    intro e he
    rcases List.mem_cons.1 he with rfl | he
    · exact ⟨h2, h1 ▸ etime_le_refl _⟩
    · obtain ⟨i1, i2⟩ := ih h3 e he
      exact ⟨i1, etime_le_of_le_of_lt i2 (h1 ▸ h2)⟩

/-- two epochs of a contiguous list containing the same time are the same epoch -/
theorem contiguous_unique {start : ETime} {es : List Epoch} (h : contiguous start es = true)
    (t : Q) : ∀ a ∈ es, ∀ b ∈ es, inEpoch a t → inEpoch b t → a = b := by
  induction es generalizing start with
  | nil => intro a ha; cases ha
  | cons x es ih =>
    obtain ⟨_, _, h3⟩ := (contiguous_cons _ _ _).1 h
    intro a ha b hb hat hbt
    rcases List.mem_cons.1 ha with ha' | ha' <;> rcases List.mem_cons.1 hb with hb' | hb'
    · rw [ha', hb']
    · subst ha'
      exact (etime_absurd hbt.1 (contiguous_mem h3 b hb').2 hat.2).elim
    · subst hb'
      exact (etime_absurd hat.1 (contiguous_mem h3 a ha').2 hbt.2).elim
    · exact ih h3 a ha' b hb' hat hbt

/-- a time inside `(start, last end]` lies in some epoch of a contiguous list -/
theorem contiguous_exists {start : ETime} {es : List Epoch} (h : contiguous start es = true)
    {l : Epoch} (hl : es.getLast? = some l) {t : Q}
    (h1 : ETime.fin t < start) (h2 : l.endTime ≤ t) : ∃ e ∈ es, inEpoch e t := by
  induction es generalizing start with
  | nil => simp at hl
  | cons x es ih =>
    obtain ⟨c1, _, c3⟩ := (contiguous_cons _ _ _).1 h
    by_cases hx : x.endTime ≤ t
    · exact ⟨x, List.mem_cons_self, c1 ▸ h1, hx⟩
    · cases es with
      | nil =>
        simp only [List.getLast?_singleton, Option.some.injEq] at hl
        subst hl; exact (hx h2).elim
      | cons y ys =>
        rw [List.getLast?_cons_cons] at hl
        obtain ⟨e, he, hin⟩ := ih c3 hl ((fin_lt_fin _ _).2 (lt_of_not_ge hx))
        exact ⟨e, List.mem_cons_of_mem _ he, hin⟩

/-- the last epoch of a contiguous list has the smallest end time -/
theorem contiguous_last_le {start : ETime} {es : List Epoch} (h : contiguous start es = true)
    {l : Epoch} (hl : es.getLast? = some l) : ∀ e ∈ es, l.endTime ≤ e.endTime := by
  induction es generalizing start with
  | nil => simp at hl
  | cons x es ih =>
    obtain ⟨_, _, c3⟩ := (contiguous_cons _ _ _).1 h
    cases es with
    | nil =>
      simp only [List.getLast?_singleton, Option.some.injEq] at hl
      subst hl
      intro e he
      rw [List.mem_singleton] at he; subst he; exact le_refl _
    | cons y ys =>
      rw [List.getLast?_cons_cons] at hl
      intro e he
      rcases List.mem_cons.1 he with rfl | he
      · have hm := List.mem_of_getLast? hl
        have := contiguous_mem c3 l hm
        have h4 : ETime.fin l.endTime ≤ ETime.fin e.endTime :=
          etime_le_of_le_of_lt (etime_le_refl _) (etime_lt_of_lt_of_le this.1 this.2)
        exact (fin_le_fin _ _).1 h4
      · exact ih c3 hl e he

/-! ### what validity gives for one deme -/

/-- the V6 facts about one epoch that C13 uses -/
structure EpochOk (e : Epoch) : Prop where
  startPos : 0 < e.startSize
  endPos : 0 < e.endSize
  known : e.sizeFunction = "constant" ∨ e.sizeFunction = "exponential" ∨ e.sizeFunction = "linear"
  constEq : e.sizeFunction = "constant" → e.startSize = e.endSize
  infEq : e.startTime = ETime.inf → e.startSize = e.endSize

theorem valid_v5 {g : Graph} (hv : validGraph g = true) {d : Deme} (hd : d ∈ g.demes) :
    d.epochs ≠ [] ∧ contiguous d.startTime d.epochs = true := by
  simp only [validGraph, validData, Bool.and_eq_true] at hv
  have h5 := hv.2.1.1.1.1.1.1.1.2
  simp only [v5, List.all_eq_true, Bool.and_eq_true, Bool.not_eq_true', List.isEmpty_eq_false_iff] at h5
  exact h5 d hd

theorem valid_v6 {g : Graph} (hv : validGraph g = true) {d : Deme} (hd : d ∈ g.demes) :
    ∀ e ∈ d.epochs, EpochOk e := by
  simp only [validGraph, validData, Bool.and_eq_true] at hv
  have h6 := hv.2.1.1.1.1.1.1.2
  simp only [v6, List.all_eq_true, Bool.and_eq_true, decide_eq_true_eq, Bool.or_eq_true,
    bne_iff_ne, beq_iff_eq, Bool.not_eq_true', List.contains_iff_mem] at h6
  intro e he
  obtain ⟨⟨⟨⟨⟨⟨⟨⟨⟨a1, a2⟩, _⟩, _⟩, _⟩, _⟩, a3⟩, a4⟩, a5⟩, _⟩ := h6 d hd e he
  refine ⟨a1, a2, ?_, ?_, ?_⟩
  · simpa [sizeFunctionsS] using a3
  · intro hc; rcases a4 with h | h
    · exact (h hc).elim
    · exact h
  · intro hi; rcases a5 with h | h
    · rw [hi] at h; cases h
    · exact h

theorem endTime_eq {d : Deme} {l : Epoch} (hl : d.epochs.getLast? = some l) :
    d.endTime = l.endTime := by
  simp [Deme.endTime, Deme.endTime?, hl]

theorem exists_last {es : List Epoch} (h : es ≠ []) : ∃ l, es.getLast? = some l := by
  cases hl : es.getLast? with
  | none => exact (h (List.getLast?_eq_none_iff.1 hl)).elim
  | some l => exact ⟨l, rfl⟩

/-! ### the epoch search of `size_at` -/

/-- the loop test `epoch.start_time > time >= epoch.end_time` -/
abbrev epochTest (t : ETime) (e : Epoch) : Bool :=
  decide (t < e.startTime) && decide (ETime.fin e.endTime ≤ t)

theorem epochTest_fin (t : Q) (e : Epoch) : epochTest (ETime.fin t) e = true ↔ inEpoch e t := by
  simp only [epochTest, Bool.and_eq_true, decide_eq_true_eq, inEpoch, fin_le_fin]

theorem epochTest_inf (e : Epoch) : epochTest ETime.inf e = false := by
  simp only [epochTest, inf_lt, decide_false, Bool.false_and]

theorem find_epoch {start : ETime} {es : List Epoch} (h : contiguous start es = true) {t : Q}
    {e : Epoch} (he : e ∈ es) (hin : inEpoch e t) :
    es.find? (epochTest (ETime.fin t)) = some e := by
  cases hf : es.find? (epochTest (ETime.fin t)) with
  | none =>
    have := List.find?_eq_none.1 hf e he
    exact (this ((epochTest_fin t e).2 hin)).elim
  | some e' =>
    have h1 := (epochTest_fin t e').1 (List.find?_some hf)
    have h2 := List.mem_of_find?_eq_some hf
    rw [contiguous_unique h t e' h2 e he h1 hin]

theorem find_none {es : List Epoch} {t : Q} (h : ∀ e ∈ es, ¬ inEpoch e t) :
    es.find? (epochTest (ETime.fin t)) = none := by
  apply List.find?_eq_none.2
  intro e he hp
  exact h e he ((epochTest_fin t e).1 hp)

/-- value of `size_at` once the epoch is known -/
def epochValue (e : Epoch) (tq : Q) : SizeResult :=
  if closeDefault tq e.endTime || e.sizeFunction = "constant" || e.startSize = e.endSize then
    .exact e.endSize
  else match e.startTime with
    | .inf => if e.sizeFunction = "exponential" || e.sizeFunction = "linear" then .nan else .indexError
    | .fin s =>
      let dt := (s - tq) / (s - e.endTime)
      if e.sizeFunction = "exponential" then .expo e.startSize e.endSize dt
      else if e.sizeFunction = "linear" then .exact (e.startSize + (e.endSize - e.startSize) * dt)
      else .indexError

theorem sizeAt_fin (d : Deme) (t : Q) :
    sizeAt d (ETime.fin t) =
      match d.epochs.find? (epochTest (ETime.fin t)) with
      | none => .exact 0
      | some e => epochValue e t := by
  unfold sizeAt
  simp only [ETime.isInf, Bool.false_and, Bool.false_eq_true, if_false]
  rfl

theorem sizeAt_of_inEpoch {d : Deme} (hc : contiguous d.startTime d.epochs = true) {t : Q}
    {e : Epoch} (he : e ∈ d.epochs) (hin : inEpoch e t) :
    sizeAt d (ETime.fin t) = epochValue e t := by
  rw [sizeAt_fin, find_epoch hc he hin]

/-! ### the C13 statements -/

/-- an epoch of a valid deme that contains `t` witnesses that the deme is alive at `t` -/
theorem alive_of_inEpoch {g : Graph} (hv : validGraph g = true) {d : Deme} (hd : d ∈ g.demes)
    {e : Epoch} (he : e ∈ d.epochs) {t : Q} (hin : inEpoch e t) : alive d t := by
  obtain ⟨hne, hc⟩ := valid_v5 hv hd
  obtain ⟨l, hl⟩ := exists_last hne
  refine ⟨etime_lt_of_lt_of_le hin.1 (contiguous_mem hc e he).2, ?_⟩
  rw [endTime_eq hl]
  exact le_trans (contiguous_last_le hc hl e he) hin.2

theorem sizeAt_outside (g : Graph) (hv : validGraph g = true) (d : Deme) (hd : d ∈ g.demes)
    (t : Q) (ht : ¬ alive d t) : sizeAt d (ETime.fin t) = .exact 0 := by
  rw [sizeAt_fin, find_none]
  intro e he hin
  exact ht (alive_of_inEpoch hv hd he hin)

theorem sizeAt_outside_inf (g : Graph) (_hv : validGraph g = true) (d : Deme) (_hd : d ∈ g.demes)
    (hs : d.startTime ≠ ETime.inf) : sizeAt d ETime.inf = .exact 0 := by
  have hf : d.epochs.find? (epochTest ETime.inf) = none :=
    List.find?_eq_none.2 (fun e _ hp => by rw [epochTest_inf] at hp; cases hp)
  have hi : d.startTime.isInf = false := by
    cases h : d.startTime with
    | inf => exact (hs h).elim
    | fin s => rfl
  unfold sizeAt
  simp only [hi, Bool.and_false, Bool.false_eq_true, if_false]
  show (match d.epochs.find? (epochTest ETime.inf) with
    | none => SizeResult.exact 0
    | some _ => SizeResult.exact 0) = _
  rw [hf]

theorem sizeAt_inf (g : Graph) (hv : validGraph g = true) (d : Deme) (hd : d ∈ g.demes)
    (hs : d.startTime = ETime.inf) :
    ∃ e0, d.epochs.head? = some e0 ∧ sizeAt d ETime.inf = .exact e0.startSize := by
  obtain ⟨hne, _⟩ := valid_v5 hv hd
  cases hes : d.epochs with
  | nil => exact (hne hes).elim
  | cons e0 es =>
    refine ⟨e0, rfl, ?_⟩
    unfold sizeAt
    simp only [hs, hes, ETime.isInf, Bool.and_self, if_true, List.head?_cons]

theorem sizeAt_unique_epoch (g : Graph) (hv : validGraph g = true) (d : Deme) (hd : d ∈ g.demes)
    (t : Q) (ht : alive d t) :
    ∃ e, e ∈ d.epochs ∧ inEpoch e t ∧ ∀ e', e' ∈ d.epochs → inEpoch e' t → e' = e := by
  obtain ⟨hne, hc⟩ := valid_v5 hv hd
  obtain ⟨l, hl⟩ := exists_last hne
  obtain ⟨e, he, hin⟩ := contiguous_exists hc hl ht.1 (endTime_eq hl ▸ ht.2)
  exact ⟨e, he, hin, fun e' he' hin' => contiguous_unique hc t e' he' e he hin' hin⟩

theorem closeDefault_self (x : Q) : closeDefault x x = true := by
  simp [closeDefault, iscloseQ]

theorem inEpoch_end {g : Graph} (hv : validGraph g = true) {d : Deme} (hd : d ∈ g.demes)
    {e : Epoch} (he : e ∈ d.epochs) : inEpoch e e.endTime :=
  ⟨(contiguous_mem (valid_v5 hv hd).2 e he).1, le_refl _⟩

theorem sizeAt_near_end (g : Graph) (hv : validGraph g = true) (d : Deme) (hd : d ∈ g.demes)
    (e : Epoch) (he : e ∈ d.epochs) (t : Q) (hin : inEpoch e t)
    (hclose : closeDefault t e.endTime = true) : sizeAt d (ETime.fin t) = .exact e.endSize := by
  rw [sizeAt_of_inEpoch (valid_v5 hv hd).2 he hin]
  simp only [epochValue, hclose, Bool.true_or, if_true]

theorem sizeAt_end (g : Graph) (hv : validGraph g = true) (d : Deme) (hd : d ∈ g.demes)
    (e : Epoch) (he : e ∈ d.epochs) : sizeAt d (ETime.fin e.endTime) = .exact e.endSize :=
  sizeAt_near_end g hv d hd e he e.endTime (inEpoch_end hv hd he) (closeDefault_self _)

theorem sizeAt_interior (g : Graph) (hv : validGraph g = true) (d : Deme) (hd : d ∈ g.demes)
    (e : Epoch) (he : e ∈ d.epochs) (t : Q) (hin : inEpoch e t)
    (hfar : closeDefault t e.endTime = false) : sizeAt d (ETime.fin t) = specSize e t := by
  rw [sizeAt_of_inEpoch (valid_v5 hv hd).2 he hin]
  have ok := valid_v6 hv hd e he
  unfold epochValue specSize
  by_cases hq : e.sizeFunction = "constant" ∨ e.startSize = e.endSize
  · have : (closeDefault t e.endTime || decide (e.sizeFunction = "constant")
        || decide (e.startSize = e.endSize)) = true := by
      rcases hq with h | h <;> simp [h]
    rw [if_pos this, if_pos hq]
  · have : ¬ ((closeDefault t e.endTime || decide (e.sizeFunction = "constant")
        || decide (e.startSize = e.endSize)) = true) := by
      simp only [hfar, Bool.false_or, Bool.or_eq_true, decide_eq_true_eq]; exact hq
    rw [if_neg this, if_neg hq]
    cases hst : e.startTime with
    | inf => exact (hq (Or.inr (ok.infEq hst))).elim
    | fin s =>
      simp only []
      rcases ok.known with h | h | h
      · exact (hq (Or.inl h)).elim
      · simp only [h, if_true]
      · simp only [h, if_true]

/-! ### the interpolation parameter and the linear case -/

theorem sizeAt_dt_range (e : Epoch) (s : Q) (hs : e.startTime = ETime.fin s) (t : Q)
    (hin : inEpoch e t) :
    0 < (s - t) / (s - e.endTime) ∧ (s - t) / (s - e.endTime) ≤ 1 := by
  obtain ⟨h1, h2⟩ := hin
  rw [hs, fin_lt_fin] at h1
  have hd : 0 < s - e.endTime := by linarith
  constructor
  · exact div_pos (by linarith) hd
  · rw [div_le_one hd]; linarith

theorem dt_eq_one_at_end (e : Epoch) (s : Q) (h : e.endTime < s) :
    (s - e.endTime) / (s - e.endTime) = 1 :=
  div_self (by intro h0; linarith)

theorem qmin_le_left (a b : Q) : qmin a b ≤ a := by
  unfold qmin; split <;> [exact le_refl _; exact le_of_lt (lt_of_not_ge ‹_›)]
theorem qmin_le_right (a b : Q) : qmin a b ≤ b := by
  unfold qmin; split <;> [assumption; exact le_refl _]
theorem le_qmax_left (a b : Q) : a ≤ qmax a b := by
  unfold qmax; split <;> [assumption; exact le_refl _]
theorem le_qmax_right (a b : Q) : b ≤ qmax a b := by
  unfold qmax; split <;> [exact le_refl _; exact le_of_lt (lt_of_not_ge ‹_›)]

/-- a linear interpolation with parameter in `[0,1]` lies between its end points -/
theorem linear_between (n0 n1 dt : Q) (h0 : 0 ≤ dt) (h1 : dt ≤ 1) :
    qmin n0 n1 ≤ n0 + (n1 - n0) * dt ∧ n0 + (n1 - n0) * dt ≤ qmax n0 n1 := by
  rcases le_total n0 n1 with h | h
  · have hnn : 0 ≤ n1 - n0 := by linarith
    have a : 0 ≤ (n1 - n0) * dt := mul_nonneg hnn h0
    have b : (n1 - n0) * dt ≤ (n1 - n0) * 1 := mul_le_mul_of_nonneg_left h1 hnn
    exact ⟨by have := qmin_le_left n0 n1; linarith, by have := le_qmax_right n0 n1; linarith⟩
  · have hnn : 0 ≤ n0 - n1 := by linarith
    have a : 0 ≤ (n0 - n1) * dt := mul_nonneg hnn h0
    have b : (n0 - n1) * dt ≤ (n0 - n1) * 1 := mul_le_mul_of_nonneg_left h1 hnn
    exact ⟨by have := qmin_le_right n0 n1; linarith, by have := le_qmax_left n0 n1; linarith⟩

theorem sizeAt_linear_between (e : Epoch) (s : Q) (hs : e.startTime = ETime.fin s) (t : Q)
    (hin : inEpoch e t) :
    qmin e.startSize e.endSize ≤ e.startSize + (e.endSize - e.startSize) * ((s - t) / (s - e.endTime))
    ∧ e.startSize + (e.endSize - e.startSize) * ((s - t) / (s - e.endTime))
        ≤ qmax e.startSize e.endSize := by
  obtain ⟨h0, h1⟩ := sizeAt_dt_range e s hs t hin
  exact linear_between _ _ _ (le_of_lt h0) h1

/-- Every value `size_at` reports inside an epoch is either an exact number between the
epoch's start and end sizes, or the symbolic exponential interpolation between them with a
parameter in `(0,1]`. -/
theorem sizeAt_between (g : Graph) (hv : validGraph g = true) (d : Deme) (hd : d ∈ g.demes)
    (e : Epoch) (he : e ∈ d.epochs) (t : Q) (hin : inEpoch e t) :
    (∃ v, sizeAt d (ETime.fin t) = .exact v
        ∧ qmin e.startSize e.endSize ≤ v ∧ v ≤ qmax e.startSize e.endSize)
    ∨ (∃ dt, sizeAt d (ETime.fin t) = .expo e.startSize e.endSize dt ∧ 0 < dt ∧ dt ≤ 1
        ∧ e.sizeFunction = "exponential") := by
  cases hcl : closeDefault t e.endTime with
  | true =>
    exact Or.inl ⟨_, sizeAt_near_end g hv d hd e he t hin hcl, qmin_le_right _ _, le_qmax_right _ _⟩
  | false =>
    rw [sizeAt_interior g hv d hd e he t hin hcl]
    have ok := valid_v6 hv hd e he
    unfold specSize
    by_cases hq : e.sizeFunction = "constant" ∨ e.startSize = e.endSize
    · rw [if_pos hq]; exact Or.inl ⟨_, rfl, qmin_le_right _ _, le_qmax_right _ _⟩
    · rw [if_neg hq]
      cases hst : e.startTime with
      | inf => exact (hq (Or.inr (ok.infEq hst))).elim
      | fin s =>
        simp only []
        by_cases hx : e.sizeFunction = "exponential"
        · rw [if_pos hx]
          obtain ⟨h0, h1⟩ := sizeAt_dt_range e s hst t hin
          exact Or.inr ⟨_, rfl, h0, h1, hx⟩
        · rw [if_neg hx]
          exact Or.inl ⟨_, rfl, sizeAt_linear_between e s hst t hin⟩

/-! ### concrete graph for the non-vacuity examples -/

instance (e : Epoch) (t : Q) : Decidable (inEpoch e t) := by unfold inEpoch; infer_instance
instance (d : Deme) (t : Q) : Decidable (alive d t) := by unfold alive; infer_instance

def c13Epoch (s : ETime) (e n0 n1 : Q) (f : String) : Epoch :=
  { startTime := s, endTime := e, startSize := n0, endSize := n1, sizeFunction := f,
    selfingRate := 0, cloningRate := 0 }

/-- `A` (∞,0]: constant 100 on (∞,100], exponential 100→400 on (100,50], linear 400→200 on
(50,0].  `B` (80,20] branching from `A`: linear 50→150.  `C` (∞,0]: a single infinite epoch
labelled "exponential" with equal sizes (accepted by validation; the F16 shape). -/
def c13A : Deme :=
  { name := "A", description := "", startTime := .inf, ancestors := [], proportions := [],
    epochs := [c13Epoch .inf 100 100 100 "constant", c13Epoch (.fin 100) 50 100 400 "exponential",
               c13Epoch (.fin 50) 0 400 200 "linear"] }
def c13B : Deme :=
  { name := "B", description := "", startTime := .fin 80, ancestors := ["A"], proportions := [1],
    epochs := [c13Epoch (.fin 80) 20 50 150 "linear"] }
def c13C : Deme :=
  { name := "C", description := "", startTime := .inf, ancestors := [], proportions := [],
    epochs := [c13Epoch .inf 0 100 100 "exponential"] }

def c13Graph : Graph :=
  { description := "", timeUnits := "generations", generationTime := 1, doi := [], metadata := [],
    demes := [c13A, c13B, c13C], migrations := [], pulses := [],
    index := [("A", 0), ("B", 1), ("C", 2)] }

end Demes.Proofs
