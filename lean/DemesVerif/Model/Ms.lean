/-
  Model of demes/ms.py: the ms option records with their converters / validators and
  `__str__`, the argparse layer of `build_parser`, `build_graph`, `from_ms`, `to_ms`, and the
  `Builder` helpers they use (`add_deme`, `add_pulse`, `_add_migrations_from_matrices`,
  `_remove_transient_demes`, `_sort_demes_by_ancestry`, `resolve`).

  Numbers.  Graph quantities are exact rationals.  `math.exp` / `math.log` are never
  evaluated:
  * a population size is `coef * exp(expo)` (`Sz`); two sizes are equal iff both components
    are equal (exp of a non-zero rational is irrational), with `0 * exp(x) = 0`;
  * a growth rate computed by `to_ms` is the symbol `-ln(r)/dt` (`Growth`), equality decided
    by the rational identity `r₁^(a₂b₁) = r₂^(a₁b₂)`.
  Option arguments are `Num` (a rational or an IEEE special) because the validators of the
  option records let `inf` / `nan` through in some positions; `build_graph` is modelled for
  finite times, sizes and growth rates only (specials are modelled in migration-rate
  positions, where the library documents them: `x` entries of `-ma` and `-ema`).  A command outside
  that domain yields the error `outOfModel`, never a wrong answer.
-/
import DemesVerif.Model.Resolve
import DemesVerif.Model.Views
namespace Demes.Ms
open Demes

/-! ## Generic helpers -/

/-- stable insertion sort: `le x y` must be `key x ≤ key y`; an element is placed in front of
the elements it is `le` to, and elements are inserted from the right, so equal keys keep
their order (`list.sort(key=…)`). -/
def insertBy {α} (le : α → α → Bool) (x : α) : List α → List α
  | [] => [x]
  | y :: ys => if le x y then x :: y :: ys else y :: insertBy le x ys

def sortBy {α} (le : α → α → Bool) (xs : List α) : List α := xs.foldr (insertBy le) []

def outOfModel {α} (m : String) : Except Err α := .error ⟨.other, "OUT-OF-MODEL: " ++ m⟩
def assertionErr {α} (m : String) : Except Err α := .error ⟨.other, "AssertionError: " ++ m⟩
def otherErr {α} (m : String) : Except Err α := .error ⟨.other, m⟩

/-! ## Symbolic numbers -/

/-- `coef * exp(expo)` -/
structure Sz where
  coef : Q
  expo : Q
  deriving DecidableEq, Repr, Inhabited

namespace Sz
def ofQ (q : Q) : Sz := ⟨q, 0⟩
/-- `s * math.exp(x)`; `0 * exp(x) = 0` -/
def mulExp (s : Sz) (x : Q) : Sz := if s.coef = 0 then s else ⟨s.coef, s.expo + x⟩
def isExact (s : Sz) : Bool := s.expo = 0
end Sz

/-- a growth rate of `to_ms`: `0`, or `-math.log(r) / dt` with `r ≠ 1`, `r > 0`, `dt > 0` -/
inductive Growth where
  | zero
  | sym (r dt : Q)
  deriving DecidableEq, Repr, Inhabited

/-- `-ln(r₁)/dt₁ = -ln(r₂)/dt₂ ⟺ r₁^(a₂b₁) = r₂^(a₁b₂)` for `dtᵢ = aᵢ/bᵢ` (positive reals;
exponents divided by their gcd first) -/
def symEq (r1 dt1 r2 dt2 : Q) : Bool :=
  let m := dt2.num.natAbs * dt1.den     -- exponent of r1
  let n := dt1.num.natAbs * dt2.den     -- exponent of r2
  let g := Nat.gcd m n
  if g = 0 then r1 == r2 else r1 ^ (m / g) == r2 ^ (n / g)

def Growth.eq : Growth → Growth → Bool
  | .zero, .zero => true
  | .sym r1 d1, .sym r2 d2 => symEq r1 d1 r2 d2
  | _, _ => false

/-! ## IEEE helpers on `Num` -/

/-- Python `==` on floats -/
def numEq : Num → Num → Bool
  | .nan, _ => false
  | _, .nan => false
  | .fin a, .fin b => a == b
  | .pinf, .pinf => true
  | .ninf, .ninf => true
  | _, _ => false

/-- `x / d` for a positive rational `d` -/
def numDivQ (x : Num) (d : Q) : Num :=
  match x with
  | .fin q => .fin (q / d)
  | o => o

/-- `x * int(b)` -/
def numMulBool (x : Num) (b : Bool) : Num :=
  if b then x else
  match x with
  | .fin _ => .fin 0
  | _ => .nan

/-! ## `int()` and `float()` on strings (no underscores, no surrounding blanks) -/

def digitsVal : List Char → Option Nat
  | [] => none
  | cs => if cs.all Char.isDigit then some (cs.foldl (fun acc c => acc * 10 + (c.toNat - '0'.toNat)) 0) else none

def splitSign : List Char → Bool × List Char
  | '-' :: r => (true, r)
  | '+' :: r => (false, r)
  | r => (false, r)

/-- `int(s)` -/
def pyInt (s : String) : Option Int :=
  let (neg, ds) := splitSign s.toList
  (digitsVal ds).map (fun n => if neg then -(n : Int) else (n : Int))

def lower (cs : List Char) : List Char := cs.map Char.toLower

/-- `float(s)`; decimal strings denote their exact rational value (on the dyadic grid of
the exact stream this is the double Python obtains) -/
def pyFloat (s : String) : Option Num :=
  let (neg, body) := splitSign s.toList
  let lb := lower body
  if lb = "inf".toList || lb = "infinity".toList then some (if neg then .ninf else .pinf)
  else if lb = "nan".toList then some .nan
  else
    let (mant, ex) := lb.span (fun c => c ≠ 'e')
    let (ip, fp0) := mant.span (fun c => c ≠ '.')
    let fp := fp0.drop 1
    let dotOk := fp0.isEmpty || fp0.head? = some '.'
    if !(ip.all Char.isDigit && fp.all Char.isDigit && dotOk) || (ip.isEmpty && fp.isEmpty) then none
    else
      let iv := ip.foldl (fun acc c => acc * 10 + (c.toNat - '0'.toNat)) 0
      let fv := fp.foldl (fun acc c => acc * 10 + (c.toNat - '0'.toNat)) 0
      let m : Q := mkRat ((iv * 10 ^ fp.length + fv : Nat) : Int) (10 ^ fp.length)
      let e? : Option Int :=
        match ex with
        | [] => some 0
        | _ :: r =>
          let (eneg, ed) := splitSign r
          (digitsVal ed).map (fun n => if eneg then -(n : Int) else (n : Int))
      match e? with
      | none => none
      | some e =>
        let v : Q := if e ≥ 0 then m * ((10 : Q) ^ e.toNat) else m / ((10 : Q) ^ (-e).toNat)
        some (.fin (if neg then -v else v))

/-! ## Option records (`attr.define` classes of ms.py)

`α` is the type of growth-rate arguments: `Num` for parsed commands, `Growth` inside
`to_ms`.  `opt` is `option_strings[0]` (empty for a record built by `to_ms`). -/

structure Structure where
  npop : Int
  n : List String
  rate : Num
  deriving Repr, DecidableEq

inductive Event (α : Type) where
  | growthRateChange (opt : String) (t : Num) (alpha : α)
  | popGrowthRateChange (opt : String) (t : Num) (i : Int) (alpha : α)
  | sizeChange (opt : String) (t : Num) (x : Num)
  | popSizeChange (opt : String) (t : Num) (i : Int) (x : Num)
  | migRateChange (opt : String) (t : Num) (x : Num)
  | migEntryChange (opt : String) (t : Num) (i j : Int) (rate : Num)
  | migMatrixChange (opt : String) (t : Num) (npop : Int) (mm : List String)
  | split (opt : String) (t : Num) (i : Int) (p : Num)
  | join (opt : String) (t : Num) (i j : Int)
  deriving Repr, DecidableEq

namespace Event
def t {α} : Event α → Num
  | growthRateChange _ t _ => t | popGrowthRateChange _ t _ _ => t | sizeChange _ t _ => t
  | popSizeChange _ t _ _ => t | migRateChange _ t _ => t | migEntryChange _ t _ _ _ => t
  | migMatrixChange _ t _ _ => t | split _ t _ _ => t | join _ t _ _ => t

def setT {α} (e : Event α) (t : Num) : Event α :=
  match e with
  | growthRateChange o _ a => growthRateChange o t a
  | popGrowthRateChange o _ i a => popGrowthRateChange o t i a
  | sizeChange o _ x => sizeChange o t x
  | popSizeChange o _ i x => popSizeChange o t i x
  | migRateChange o _ x => migRateChange o t x
  | migEntryChange o _ i j r => migEntryChange o t i j r
  | migMatrixChange o _ n mm => migMatrixChange o t n mm
  | split o _ i p => split o t i p
  | join o _ i j => join o t i j

def kind {α} : Event α → String
  | growthRateChange .. => "GrowthRateChange" | popGrowthRateChange .. => "PopulationGrowthRateChange"
  | sizeChange .. => "SizeChange" | popSizeChange .. => "PopulationSizeChange"
  | migRateChange .. => "MigrationRateChange" | migEntryChange .. => "MigrationMatrixEntryChange"
  | migMatrixChange .. => "MigrationMatrixChange" | split .. => "Split" | join .. => "Join"
end Event

/-! ### validators (`positive`, `non_negative`, `finite`, `unit_interval` of demes.py) -/

def vPosInt (i : Int) : Except Err Unit := if i ≤ 0 then valueErr "must be greater than zero" else pure ()

/-- the `t` field of every `Event`: `converter=float, validator=non_negative` -/
def vT (t : Num) : Except Err Unit := vNonNegative t

def mkStructure (npop : Int) (n : List String) (rate : Num) : Except Err Structure := do
  vPosInt npop
  vNonNegative rate
  if (n.length : Int) ≠ npop then valueErr "sample configuration doesn't match number of demes"
  pure ⟨npop, n, rate⟩

def mkGrowthRateChange {α} (fin : α → Except Err Unit) (opt : String) (t : Num) (alpha : α) : Except Err (Event α) := do
  vT t; fin alpha; pure (.growthRateChange opt t alpha)
def mkPopGrowthRateChange {α} (fin : α → Except Err Unit) (opt : String) (t : Num) (i : Int) (alpha : α) : Except Err (Event α) := do
  vT t; vPosInt i; fin alpha; pure (.popGrowthRateChange opt t i alpha)
def mkSizeChange {α} (opt : String) (t x : Num) : Except Err (Event α) := do
  vT t; vNonNegative x; pure (.sizeChange opt t x)
def mkPopSizeChange {α} (opt : String) (t : Num) (i : Int) (x : Num) : Except Err (Event α) := do
  vT t; vPosInt i; vNonNegative x; pure (.popSizeChange opt t i x)
def mkMigRateChange {α} (opt : String) (t x : Num) : Except Err (Event α) := do
  vT t; vNonNegative x; pure (.migRateChange opt t x)
def mkMigEntryChange {α} (opt : String) (t : Num) (i j : Int) (rate : Num) : Except Err (Event α) := do
  vT t; vPosInt i; vPosInt j; vNonNegative rate; pure (.migEntryChange opt t i j rate)
def mkMigMatrixChange {α} (opt : String) (t : Num) (npop : Int) (mm : List String) : Except Err (Event α) := do
  vT t; vPosInt npop; pure (.migMatrixChange opt t npop mm)
def mkSplit {α} (opt : String) (t : Num) (i : Int) (p : Num) : Except Err (Event α) := do
  vT t; vPosInt i; vUnitInterval p; pure (.split opt t i p)
def mkJoin {α} (opt : String) (t : Num) (i j : Int) : Except Err (Event α) := do
  vT t; vPosInt i; vPosInt j; pure (.join opt t i j)

/-! ### converters on command-line strings -/

def cInt (s : String) : Except Err Int :=
  match pyInt s with
  | some i => pure i
  | none => valueErr s!"invalid literal for int(): '{s}'"

def cFloat (s : String) : Except Err Num :=
  match pyFloat s with
  | some x => pure x
  | none => valueErr s!"could not convert string to float: '{s}'"

/-- `Structure.from_nargs(*args)` on strings -/
def structureFromNargs (args : List String) : Except Err Structure :=
  match args with
  | [] => typeErr "from_nargs: missing npop"
  | npopS :: n => do
    let npop ← cInt npopS
    if (n.length : Int) = npop + 1 then
      let rate ← cFloat (n.getLast?.getD "")
      mkStructure npop n.dropLast rate
    else mkStructure npop n (.fin 0)

/-- `MigrationMatrixChange.M`: the square list-of-lists matrix; unparsable off-diagonal
entries become NaN, the diagonal is 0 whatever was written -/
def matrixOf (npop : Int) (mm : List String) : Except Err (List (List Num)) :=
  let n := npop.toNat
  if mm.length ≠ n * n then valueErr s!"Must be npop^2={n * n} migration matrix entries"
  else pure ((List.range n).map (fun j => (List.range n).map (fun k =>
    if j = k then Num.fin 0 else (pyFloat (mm.getD (j * n + k) "")).getD .nan)))

/-! ## `__str__` of the option records

A printed option is a list of tokens; how a float is rendered (`float_str`: `str(a)` for
`a ≥ 0`, `format(a, ".10f")` for `a < 0`) is below the Model (float residue) and is checked by
the harness on the real strings. -/

inductive Tok (α : Type) where
  | flag (s : String)
  | int (i : Int)
  | num (x : Num)
  | alpha (a : α)
  | raw (s : String)
  deriving Repr, DecidableEq

def numPos (t : Num) : Bool := Num.lt Num.zero t

def Structure.print {α} (s : Structure) : List (Tok α) :=
  [.flag "-I", .int s.npop] ++ s.n.map .raw ++ (if numPos s.rate then [.num s.rate] else [])

/-- `str(event)`; `M` of a `MigrationMatrixChange` may raise -/
def Event.print {α} (e : Event α) : Except Err (List (Tok α)) :=
  match e with
  | .growthRateChange _ t a => pure ((if numPos t then [.flag "-eG", .num t] else [.flag "-G"]) ++ [.alpha a])
  | .popGrowthRateChange _ t i a => pure ((if numPos t then [.flag "-eg", .num t] else [.flag "-g"]) ++ [.int i, .alpha a])
  | .sizeChange _ t x => pure [.flag "-eN", .num t, .num x]
  | .popSizeChange _ t i x => pure ((if numPos t then [.flag "-en", .num t] else [.flag "-n"]) ++ [.int i, .num x])
  | .migRateChange _ t x => pure [.flag "-eM", .num t, .num x]
  | .migEntryChange _ t i j r => pure ((if numPos t then [.flag "-em", .num t] else [.flag "-m"]) ++ [.int i, .int j, .num r])
  | .migMatrixChange _ t npop mm => do
    let m ← matrixOf npop mm
    let n := npop.toNat
    let entries : List (Tok α) := (List.range n).flatMap (fun j => (List.range n).map (fun k =>
      if j = k then Tok.raw "x" else Tok.num ((m.getD j []).getD k .nan)))
    pure ((if numPos t then [.flag "-ema", .num t] else [.flag "-ma"]) ++ [.int npop] ++ entries)
  | .split _ t i p => pure [.flag "-es", .num t, .int i, .num p]
  | .join _ t i j => pure [.flag "-ej", .num t, .int i, .int j]

/-! ## The argparse layer (`build_parser` + `parse_known_args`, CPython 3.12 argparse) -/

inductive Nargs where
  | fixed (n : Nat)
  | plus
  deriving Repr, DecidableEq

/-- the arity table of `build_parser` (checked against the regenerated table in
`Theorems/TablesMs.lean`); `-f`, `-h`, `--help` are registered but not modelled -/
def arity : List (String × Nargs) :=
  [("-I", .plus), ("-n", .fixed 2), ("-g", .fixed 2), ("-G", .fixed 1), ("-m", .fixed 3), ("-ma", .plus),
   ("-eG", .fixed 2), ("-eg", .fixed 3), ("-eN", .fixed 2), ("-en", .fixed 3), ("-eM", .fixed 2),
   ("-em", .fixed 4), ("-ema", .plus), ("-es", .fixed 3), ("-ej", .fixed 3)]

/-- `parser._option_string_actions` keys in registration order (`-h` and `--help` come from
`add_help=True`) -/
def registered : List String := ["-h", "--help", "-f"] ++ arity.map (·.1)

/-- `_negative_number_matcher`: `^-\d+$|^-\d*\.\d+$` -/
def looksNegativeNumber (s : String) : Bool :=
  match s.toList with
  | '-' :: r =>
    (!r.isEmpty && r.all Char.isDigit) ||
    (let (a, b) := r.span (fun c => c ≠ '.')
     a.all Char.isDigit && (match b with | '.' :: f => !f.isEmpty && f.all Char.isDigit | _ => false))
  | _ => false

inductive Cls where
  | arg                                           -- 'A'
  | opt (flag : String) (explicit : Option String) -- 'O', a registered option
  | unknown                                       -- 'O', no such option
  deriving Repr, DecidableEq

/-- char-list versions of `str.startswith`, `'=' in s`, `s.split('=', 1)` (they reduce in the
kernel, unlike the `String` primitives) -/
def startsWithL (s pre : String) : Bool := pre.toList.isPrefixOf s.toList
def hasEq (s : String) : Bool := s.toList.contains '='
def beforeEq (s : String) : List Char := (s.toList.span (fun c => c ≠ '=')).1
def afterEq (s : String) : String := String.ofList ((s.toList.span (fun c => c ≠ '=')).2.drop 1)

/-- `_get_option_tuples` -/
def optionTuples (s : String) : List (String × Option String) :=
  let cs := s.toList
  match cs with
  | c0 :: c1 :: _ =>
    if c0 = '-' && c1 = '-' then
      let pre := beforeEq s
      let ex : Option String := if hasEq s then some (afterEq s) else none
      (registered.filter (fun o => pre.isPrefixOf o.toList)).map (fun o => (o, ex))
    else
      registered.filterMap (fun o =>
        if o.toList = cs.take 2 then some (o, some (String.ofList (cs.drop 2)))
        else if startsWithL o s then some (o, none) else none)
  | _ => []

/-- `_parse_optional` -/
def classify (s : String) : Except Err Cls :=
  let cs := s.toList
  if cs.isEmpty then pure .arg
  else if cs.head? ≠ some '-' then pure .arg
  else if registered.contains s then pure (.opt s none)
  else if cs.length = 1 then pure .arg
  else
    let viaEq : Option Cls :=
      if hasEq s then
        match registered.find? (fun o => o.toList = beforeEq s) with
        | some o => some (.opt o (some (afterEq s)))
        | none => none
      else none
    match viaEq with
    | some c => pure c
    | none =>
      match optionTuples s with
      | [(o, ex)] => pure (.opt o ex)
      | _ :: _ :: _ => valueErr s!"ambiguous option: {s}"
      | [] =>
        if looksNegativeNumber s then pure .arg
        else if cs.contains ' ' then pure .arg
        else pure .unknown

structure Args where
  structure_ : Option Structure := none
  initialState : List (Event Num) := []
  demographicEvents : List (Event Num) := []
  unknown : List String := []
  deriving Repr

def arg (vs : List String) (k : Nat) : String := vs.getD k ""

/-- the `CoerceAction` of each option: build the record from the collected strings -/
def takeAction (a : Args) (flag : String) (vs : List String) : Except Err Args := do
  let fin (x : Num) : Except Err Unit := vFinite x
  let ini (e : Event Num) : Args := { a with initialState := a.initialState ++ [e] }
  let dem (e : Event Num) : Args := { a with demographicEvents := a.demographicEvents ++ [e] }
  if flag = "-I" then
    let s ← structureFromNargs vs
    pure { a with structure_ := some s }
  else if flag = "-n" then
    -- converters run before validators: int(i), float(x)
    let i ← cInt (arg vs 0); let x ← cFloat (arg vs 1)
    pure (ini (← mkPopSizeChange flag (.fin 0) i x))
  else if flag = "-g" then
    let i ← cInt (arg vs 0); let al ← cFloat (arg vs 1)
    pure (ini (← mkPopGrowthRateChange fin flag (.fin 0) i al))
  else if flag = "-G" then
    let al ← cFloat (arg vs 0)
    pure (ini (← mkGrowthRateChange fin flag (.fin 0) al))
  else if flag = "-m" then
    let i ← cInt (arg vs 0); let j ← cInt (arg vs 1); let r ← cFloat (arg vs 2)
    pure (ini (← mkMigEntryChange flag (.fin 0) i j r))
  else if flag = "-ma" then
    pure (ini (← mkMigMatrixChange flag (.fin 0) 1 vs))
  else if flag = "-eG" then
    let t ← cFloat (arg vs 0); let al ← cFloat (arg vs 1)
    pure (dem (← mkGrowthRateChange fin flag t al))
  else if flag = "-eg" then
    let t ← cFloat (arg vs 0); let i ← cInt (arg vs 1); let al ← cFloat (arg vs 2)
    pure (dem (← mkPopGrowthRateChange fin flag t i al))
  else if flag = "-eN" then
    let t ← cFloat (arg vs 0); let x ← cFloat (arg vs 1)
    pure (dem (← mkSizeChange flag t x))
  else if flag = "-en" then
    let t ← cFloat (arg vs 0); let i ← cInt (arg vs 1); let x ← cFloat (arg vs 2)
    pure (dem (← mkPopSizeChange flag t i x))
  else if flag = "-eM" then
    let t ← cFloat (arg vs 0); let x ← cFloat (arg vs 1)
    pure (dem (← mkMigRateChange flag t x))
  else if flag = "-em" then
    let t ← cFloat (arg vs 0); let i ← cInt (arg vs 1); let j ← cInt (arg vs 2); let r ← cFloat (arg vs 3)
    pure (dem (← mkMigEntryChange flag t i j r))
  else if flag = "-ema" then
    match vs with
    | tS :: npopS :: mm => do
      let t ← cFloat tS; let npop ← cInt npopS
      pure (dem (← mkMigMatrixChange flag t npop mm))
    | _ => typeErr "from_nargs() missing required positional argument"
  else if flag = "-es" then
    let t ← cFloat (arg vs 0); let i ← cInt (arg vs 1); let p ← cFloat (arg vs 2)
    pure (dem (← mkSplit flag t i p))
  else if flag = "-ej" then
    let t ← cFloat (arg vs 0); let i ← cInt (arg vs 1); let j ← cInt (arg vs 2)
    pure (dem (← mkJoin flag t i j))
  else outOfModel s!"option {flag} (-f reads a file, -h exits)"

/-- number of leading `'A'` entries -/
def leadingArgs : List Cls → Nat
  | .arg :: r => leadingArgs r + 1
  | _ => 0

/-- the main loop of `_parse_known_args` (the parser has no positionals, so every string not
consumed by an option is an extra); `fuel` = number of strings -/
def parseLoop : Nat → List (String × Cls) → Args → Except Err Args
  | 0, _, a => pure a
  | _, [], a => pure a
  | fuel + 1, (s, c) :: rest, a =>
    match c with
    | .arg => parseLoop fuel rest { a with unknown := a.unknown ++ [s] }
    | .unknown => parseLoop fuel rest { a with unknown := a.unknown ++ [s] }
    | .opt flag explicit =>
      match arity.lookup flag with
      | none => outOfModel s!"option {flag} (-f reads a file, -h exits)"
      | some na =>
        match explicit with
        | some ex =>
          -- `match_argument(action, 'A')`: only one-argument and `+` actions accept it
          if na = .fixed 1 || na = .plus then do
            let a ← takeAction a flag [ex]
            parseLoop fuel rest a
          else valueErr s!"argument {flag}: expected arguments (explicit argument ignored)"
        | none =>
          let avail := leadingArgs (rest.map (·.2))
          match na with
          | .fixed n =>
            if avail < n then valueErr s!"argument {flag}: expected {n} arguments"
            else do
              let a ← takeAction a flag ((rest.take n).map (·.1))
              parseLoop fuel (rest.drop n) a
          | .plus =>
            if avail = 0 then valueErr s!"argument {flag}: expected at least one argument"
            else do
              let a ← takeAction a flag ((rest.take avail).map (·.1))
              parseLoop fuel (rest.drop avail) a

/-- `build_parser().parse_known_args(command.split())` -/
def parseKnownArgs (tokens : List String) : Except Err Args := do
  if tokens.contains "--" then outOfModel "'--' separator"
  let cls ← tokens.mapM classify
  parseLoop tokens.length (tokens.zip cls) {}

/-! ## `build_graph` -/

/-- an epoch dict of the Builder (`growth_rate` is the temporary key) -/
structure BEpoch where
  endSize : Sz
  endTime : Q
  startSize : Option Sz := none
  growthRate : Option Q := none
  deriving Repr, DecidableEq, Inhabited

/-- a deme dict of the Builder -/
structure BDeme where
  name : String
  startTime : ETime
  epochs : List BEpoch
  ancestors : Option (List String) := none
  proportions : Option (List Q) := none
  deriving Repr, DecidableEq, Inhabited

structure BPulse where
  sources : List String
  dest : String
  time : Q
  proportions : List Q
  deriving Repr, DecidableEq

structure BMigration where
  source : String
  dest : String
  startTime : ETime
  endTime : Q
  rate : Num
  deriving Repr, DecidableEq

abbrev MM := List (List Num)

/-- the document handed to `Builder.resolve()` -/
structure MsDoc where
  demes : List BDeme
  migrations : List BMigration
  pulses : Option (List BPulse)
  numPops : Nat := 0          -- `num_demes` at the end of the event loop (diagnostic)
  deriving Repr

structure BState where
  numDemes : Nat
  mmList : List MM
  mmEndTimes : List Q
  joined : List Nat
  demes : List BDeme
  pulses : Option (List BPulse) := none
  deriving Repr

/-- per time group: `lineage_movements` and `split_join_params` -/
structure GState where
  lm : List (List Q)
  params : List (Nat × Nat × Q)
  deriving Repr

def demeName (j : Nat) : String := s!"deme{j + 1}"

def mmGet (m : MM) (j k : Nat) : Num := (m.getD j []).getD k (.fin 0)
def mmSet (m : MM) (j k : Nat) (v : Num) : MM :=
  m.modify j (fun row => row.set k v)

def lmGet (m : List (List Q)) (j k : Nat) : Q := (m.getD j []).getD k 0

/-- `convert_population_id` -/
def convertPopulationId (s : BState) (i : Int) : Except Err Nat :=
  if i < 1 || i > (s.numDemes : Int) then
    valueErr s!"Bad population ID '{i}': must be between 1 and num_demes ({s.numDemes})"
  else
    let pid := (i - 1).toNat
    if s.joined.contains pid then valueErr s!"Bad population ID '{i}': population previously joined with -ej"
    else pure pid

def curGrowth (d : BDeme) : Q := ((d.epochs.head?.bind (·.growthRate))).getD 0
def curEndSize (d : BDeme) : Sz := (d.epochs.head?.map (·.endSize)).getD (Sz.ofQ 0)

/-- `epoch_resolve(deme, time)`; the epoch returned is `epochs[0]` of the result -/
def epochResolve (d : BDeme) (time : Q) : Except Err BDeme :=
  match d.epochs with
  | [] => otherErr "IndexError"
  | epoch :: older =>
    if !(decide (ETime.fin time < d.startTime) && decide (epoch.endTime ≤ time)) then
      valueErr s!"time outside {d.name}'s existence interval"
    else if epoch.endTime < time then
      let growth := epoch.growthRate.getD 0
      let dt := time - epoch.endTime
      let sizeAtT := epoch.endSize.mulExp (-growth * dt)
      let epoch' : BEpoch := { epoch with growthRate := none, startSize := some sizeAtT }
      let newEpoch : BEpoch := { epoch with endSize := sizeAtT, endTime := time }
      pure { d with epochs := newEpoch :: epoch' :: older }
    else pure d

def modifyHead (d : BDeme) (f : BEpoch → BEpoch) : BDeme :=
  match d.epochs with
  | [] => d
  | e :: r => { d with epochs := f e :: r }

/-- `migration_matrix_at(time)`: afterwards `mm_list[0]` is the matrix to edit -/
def migrationMatrixAt (s : BState) (time : Q) : BState :=
  match s.mmList, s.mmEndTimes with
  | m :: _, e :: _ =>
    if e < time then { s with mmList := m :: s.mmList, mmEndTimes := time :: s.mmEndTimes } else s
  | _, _ => s

def setMM0 (s : BState) (m : MM) : BState := { s with mmList := m :: s.mmList.drop 1 }
def mm0 (s : BState) : MM := s.mmList.headD []

/-- apply `f` to every deme not in `joined`, left to right, stopping at the first error -/
def forLiveDemes (s : BState) (f : BDeme → Except Err BDeme) : Except Err BState := do
  let ds ← (s.demes.zipIdx).mapM (fun (dj : BDeme × Nat) =>
    if s.joined.contains dj.2 then pure dj.1 else f dj.1)
  pure { s with demes := ds }

def modifyDeme (s : BState) (pid : Nat) (f : BDeme → Except Err BDeme) : Except Err BState :=
  match s.demes[pid]? with
  | none => otherErr "IndexError"
  | some d => do
    let d' ← f d
    pure { s with demes := s.demes.set pid d' }

/-- a finite argument; specials in this position are outside the modelled domain -/
def finArg (what : String) (x : Num) : Except Err Q :=
  match x with
  | .fin q => pure q
  | _ => outOfModel s!"non-finite {what}"

/-- the body of the event loop for one event (`time = 4 * N0 * t`) -/
def stepEvent (N0 : Q) (time : Q) (sg : BState × GState) (ev : Event Num) : Except Err (BState × GState) := do
  let (s, g) := sg
  match ev with
  | .growthRateChange _ _ alpha =>
    let growthRate := (← finArg "alpha" alpha) / (4 * N0)
    let s ← forLiveDemes s (fun d =>
      if curGrowth d ≠ growthRate then do
        let d ← epochResolve d time
        pure (modifyHead d (fun e => { e with growthRate := some growthRate }))
      else pure d)
    pure (s, g)
  | .popGrowthRateChange _ _ i alpha =>
    let pid ← convertPopulationId s i
    let growthRate := (← finArg "alpha" alpha) / (4 * N0)
    let s ← modifyDeme s pid (fun d =>
      if curGrowth d ≠ growthRate then do
        let d ← epochResolve d time
        pure (modifyHead d (fun e => { e with growthRate := some growthRate }))
      else pure d)
    pure (s, g)
  | .sizeChange _ _ x =>
    let size := Sz.ofQ ((← finArg "x" x) * N0)
    let s ← forLiveDemes s (fun d =>
      if curGrowth d ≠ 0 || curEndSize d ≠ size then do
        let d ← epochResolve d time
        pure (modifyHead d (fun e => { e with growthRate := some 0, endSize := size }))
      else pure d)
    pure (s, g)
  | .popSizeChange opt _ i x =>
    let pid ← convertPopulationId s i
    let size := Sz.ofQ ((← finArg "x" x) * N0)
    let s ← modifyDeme s pid (fun d =>
      if curGrowth d ≠ 0 || curEndSize d ≠ size then do
        let d ← epochResolve d time
        pure (modifyHead d (fun e =>
          if opt = "-en" then { e with endSize := size, growthRate := some 0 } else { e with endSize := size }))
      else pure d)
    pure (s, g)
  | .migRateChange _ _ x =>
    let s := migrationMatrixAt s time
    let n := (mm0 s).length
    let v := numDivQ x ((s.numDemes : Q) - 1)
    let m := (List.range n).foldl (fun m j =>
      if s.joined.contains j then m else
      (List.range n).foldl (fun m k =>
        if j ≠ k && !s.joined.contains k then mmSet m j k v else m) m) (mm0 s)
    pure (setMM0 s m, g)
  | .migEntryChange _ _ i j rate =>
    let pidI ← convertPopulationId s i
    let pidJ ← convertPopulationId s j
    if pidI = pidJ then valueErr "Cannot set diagonal elements in migration matrix"
    let s := migrationMatrixAt s time
    pure (setMM0 s (mmSet (mm0 s) pidI pidJ rate), g)
  | .migMatrixChange opt _ npop mm =>
    let npop : Int := if opt = "-ma" then (s.numDemes : Int) else npop
    if npop ≠ (s.numDemes : Int) then
      valueErr s!"-ema 'npop' ({npop}) doesn't match the current number of demes ({s.numDemes})"
    let s := migrationMatrixAt s time
    let m ← matrixOf npop mm
    let m := s.joined.foldl (fun m j =>
      (List.range s.numDemes).foldl (fun m k =>
        if j ≠ k then mmSet (mmSet m j k (.fin 0)) k j (.fin 0) else m) m) m
    pure (setMM0 s m, g)
  | .join _ _ i j =>
    let popI ← convertPopulationId s i
    let popJ ← convertPopulationId s j
    let s ← modifyDeme s popI (fun d =>
      pure { d with startTime := .fin time, ancestors := some [demeName popJ] })
    -- `lm[pop_j] += lm[pop_i]; lm[pop_i] = 0` for every row
    let lm := g.lm.map (fun row =>
      let row := row.set popJ (row.getD popJ 0 + row.getD popI 0)
      row.set popI 0)
    -- the last `(g, h, q)` with `h == pop_i` is redirected to `pop_j`, else a new entry
    let rec redirect : List (Nat × Nat × Q) → Option (List (Nat × Nat × Q))
      | [] => none
      | (a, h, q) :: r =>
        match redirect r with
        | some r' => some ((a, h, q) :: r')
        | none => if h = popI then some ((a, popJ, q) :: r) else none
    let params := match redirect g.params with
      | some ps => ps
      | none => g.params ++ [(popI, popJ, 1)]
    let s := migrationMatrixAt s time
    let m := (List.range s.numDemes).foldl (fun m k =>
      if k ≠ popI then mmSet (mmSet m k popI (.fin 0)) popI k (.fin 0) else m) (mm0 s)
    let s := setMM0 s m
    pure ({ s with joined := s.joined ++ [popI] }, { lm := lm, params := params })
  | .split _ _ i p =>
    let pid ← convertPopulationId s i
    let p ← finArg "p" p       -- `unit_interval` has rejected every special
    let newPid := s.numDemes
    let newDeme : BDeme := { name := demeName newPid, startTime := .inf,
                             epochs := [{ endSize := Sz.ofQ N0, endTime := time }] }
    if g.lm.any (fun row => row.getD newPid 0 ≠ 0) then assertionErr "lm[new_pid] == 0"
    let lm := g.lm.map (fun row =>
      let row := row.set newPid ((1 - p) * row.getD pid 0)
      row.set pid (row.getD pid 0 * p))
    let params := g.params ++ [(pid, newPid, 1 - p)]
    let numDemes := s.numDemes + 1
    let mmList := s.mmList.map (fun m =>
      m.map (fun row => row ++ [Num.fin 0]) ++ [List.replicate numDemes (Num.fin 0)])
    pure ({ s with demes := s.demes ++ [newDeme], numDemes := numDemes, mmList := mmList },
          { lm := lm, params := params })

def isSplit {α} : Event α → Bool
  | .split .. => true
  | _ => false

/-- after the events of one time group: collapse `split_join_params` into ancestry or pulses -/
def applyParams (time : Q) (s : BState) (g : GState) : BState :=
  g.params.foldl (fun s (jkp : Nat × Nat × Q) =>
    let (j, k, p) := jkp
    let row := g.lm.getD j []
    let anc := (row.zipIdx).filter (fun (po : Q × Nat) => j ≠ po.2 && po.1 > 0)
    if anc.isEmpty then s
    else if lmGet g.lm j j = 0 then
      { s with demes := s.demes.modify j (fun d =>
          { d with ancestors := some (anc.map (fun po => demeName po.2)), proportions := some (anc.map (·.1)) }) }
    else
      { s with pulses := some (s.pulses.getD [] ++
          [{ sources := [demeName k], dest := demeName j, time := time, proportions := [p] }]) }) s

/-- one iteration of the `itertools.groupby` loop -/
def stepGroup (N0 : Q) (s : BState) (group : List (Event Num)) : Except Err BState := do
  let t ← finArg "t" ((group.head?.map Event.t).getD (.fin 0))
  let time := 4 * N0 * t
  let n := s.numDemes + (group.filter isSplit).length
  let lm : List (List Q) := (List.range n).map (fun j => (List.range n).map (fun k =>
    if j = k && j < s.numDemes then 1 else 0))
  let (s, g) ← group.foldlM (stepEvent N0 time) (s, { lm := lm, params := [] })
  pure (applyParams time s g)

/-- "Resolve/remove growth_rate in oldest epochs" -/
def finaliseGrowth (d : BDeme) : Except Err BDeme :=
  match d.epochs with
  | [] => otherErr "IndexError"
  | epoch :: older =>
    let growth := epoch.growthRate.getD 0
    if growth ≠ 0 then
      match d.startTime with
      | .inf => valueErr s!"{d.name}: growth rate for infinite-length epoch is invalid"
      | .fin st =>
        let dt := st - epoch.endTime
        pure { d with epochs := { epoch with growthRate := none, startSize := some (epoch.endSize.mulExp (-dt * growth)) } :: older }
    else pure { d with epochs := { epoch with growthRate := none, startSize := some epoch.endSize } :: older }

/-- state of the sweep of `Builder._add_migrations_from_matrices`: the migrations so far and
`current`: (j, k) ↦ index into the list of the migration being extended -/
structure MigSweep where
  migrations : List BMigration
  current : List ((Nat × Nat) × Nat)

def MigSweep.cell (names : List String) (startTime : ETime) (endTime : Q) (m : MM)
    (acc : MigSweep) (jk : Nat × Nat) : MigSweep :=
  let (j, k) := jk
  let rate := mmGet m j k
  let mk : BMigration := { source := names.getD k "", dest := names.getD j "", startTime := startTime, endTime := endTime, rate := rate }
  match acc.current.lookup (j, k) with
  | none =>
    if !numEq rate (.fin 0) then
      { migrations := acc.migrations ++ [mk], current := acc.current ++ [((j, k), acc.migrations.length)] }
    else acc
  | some idx =>
    if numEq rate (.fin 0) then { acc with current := acc.current.filter (fun c => c.1 ≠ (j, k)) }
    else if numEq ((acc.migrations[idx]?.map (·.rate)).getD .nan) rate then
      { acc with migrations := acc.migrations.modify idx (fun mg => { mg with endTime := endTime }) }
    else
      { migrations := acc.migrations ++ [mk],
        current := acc.current.map (fun c => if c.1 = (j, k) then ((j, k), acc.migrations.length) else c) }

/-- `Builder._add_migrations_from_matrices(mm_list, end_times)` -/
def addMigrationsFromMatrices (names : List String) (mmList : List MM) (endTimes : List Q) : Except Err (List BMigration) := do
  if mmList.length ≠ endTimes.length then assertionErr "len(mm_list) == len(end_times)"
  if names.isEmpty then assertionErr "len(deme_names) > 0"
  let n := names.length
  let (acc, _) ← (mmList.zip endTimes).foldlM (fun (st : MigSweep × ETime) (me : MM × Q) => do
    let (acc, startTime) := st
    let (m, endTime) := me
    if m.length ≠ n || m.any (fun row => row.length ≠ n) then assertionErr "matrix shape"
    let cells := (List.range n).flatMap (fun j => ((List.range n).filter (fun k => j ≠ k)).map (fun k => (j, k)))
    pure (cells.foldl (MigSweep.cell names startTime endTime m) acc, ETime.fin endTime)) (({ migrations := [], current := [] } : MigSweep), ETime.inf)
  pure acc.migrations

def lastEndTime (d : BDeme) : Q := (d.epochs.getLast?.map (·.endTime)).getD 0

/-- `Builder._remove_transient_demes()` -/
def removeTransientDemes (doc : MsDoc) : Except Err MsDoc := do
  if doc.demes.isEmpty then assertionErr "len(demes) > 0"
  let demes ← doc.demes.foldlM (fun (cur : List BDeme) (d : BDeme) =>
    match d.startTime with
    | .inf => pure cur
    | .fin st =>
      if st = 0 then pure cur
      else if st = lastEndTime d then do
        if (doc.pulses.getD []).any (fun p => p.sources.contains d.name || p.dest = d.name) then
          assertionErr "transient deme used by a pulse"
        if doc.migrations.any (fun m => m.source = d.name || m.dest = d.name) then
          assertionErr "transient deme used by a migration"
        if cur.any (fun o => (o.ancestors.getD []).contains d.name) then
          assertionErr "transient deme is an ancestor"
        -- `del self.data["demes"][j - num_removed]`: names are distinct, so this is the deme itself
        pure (cur.filter (fun o => o.name ≠ d.name))
      else pure cur) doc.demes
  pure { doc with demes := demes }

/-- `Builder._sort_demes_by_ancestry()`: stable sort by start_time, descending -/
def sortDemesByAncestry (ds : List BDeme) : List BDeme :=
  sortBy (fun a b => decide (b.startTime ≤ a.startTime)) ds

/-- events must have finite times for the stable sort / groupby to be modelled -/
def eventT (e : Event Num) : Except Err Q := finArg "t" e.t

def sameT (a b : Event Num) : Bool := numEq a.t b.t

/-- `build_graph(args, N0)` up to (not including) `b.resolve()` -/
def buildDoc (args : Args) (N0 : Q) : Except Err MsDoc := do
  -- every deme keeps an epoch of size `x * N0`, `x ≥ 0`: nothing resolves when `N0 ≤ 0`
  -- (and `alpha / (4 * N0)` divides by zero); the properties quantify over `N0 > 0`
  if N0 ≤ 0 then valueErr "N0 must be positive"
  let (numDemes, mm0) ← match args.structure_ with
    | none => pure (1, [[Num.fin 0]])
    | some st =>
      let n := st.npop.toNat
      if n > 1 then
        pure (n, (List.range n).map (fun k => (List.range n).map (fun j =>
          numMulBool (numDivQ st.rate ((n : Q) - 1)) (j ≠ k))))
      else pure (n, [[Num.fin 0]])
  let demes : List BDeme := (List.range numDemes).map (fun j =>
    { name := demeName j, startTime := .inf, epochs := [{ endSize := Sz.ofQ N0, endTime := 0 }] })
  let s0 : BState := { numDemes := numDemes, mmList := [mm0], mmEndTimes := [0], joined := [], demes := demes }
  let _ ← args.demographicEvents.mapM eventT
  let sorted := sortBy (fun a b => Num.le a.t b.t) args.demographicEvents
  let groups := (args.initialState ++ sorted).splitBy sameT
  let s ← groups.foldlM (stepGroup N0) s0
  let demes ← s.demes.mapM finaliseGrowth
  let migs ← addMigrationsFromMatrices (demes.map (·.name)) s.mmList s.mmEndTimes
  let migs := migs.map (fun m => { m with rate := numDivQ m.rate (4 * N0) })
  let doc : MsDoc := { demes := demes, migrations := migs, pulses := s.pulses, numPops := s.numDemes }
  let doc ← removeTransientDemes doc
  pure { doc with demes := sortDemesByAncestry doc.demes, pulses := doc.pulses.map List.reverse }

/-! ### handing the document to `Builder.resolve()`

`Graph.fromdict` looks at a size in four ways only: `positive`, `finite`, equality of an
epoch's `start_size` and `end_size` (inferred `size_function`, the constant-size rule for an
infinite epoch), and copying.  A symbolic size `c·exp(x)`, `c > 0`, `x ≠ 0`, is therefore
replaced by a fresh positive rational, distinct for distinct symbols and distinct from every
exact size of the document; `Demes.resolve` runs on that document and the symbols are put
back afterwards.  (In)equalities, signs and finiteness are preserved, so accept/reject and
the resolved structure are those of the symbolic document. -/

def MsDoc.sizes (doc : MsDoc) : List Sz :=
  doc.demes.flatMap (fun d => d.epochs.flatMap (fun e => e.endSize :: e.startSize.toList))

/-- the placeholder table: symbolic size ↦ fresh rational -/
def placeholders (doc : MsDoc) : List (Sz × Q) :=
  let all := doc.sizes
  let exactMax := (all.filter Sz.isExact).foldl (fun m s => qmax m s.coef) 1
  let syms := (all.filter (fun s => !s.isExact)).eraseDups
  (syms.zipIdx).map (fun (si : Sz × Nat) => (si.1, exactMax + 1 + (si.2 : Q)))

def szToQ (tab : List (Sz × Q)) (s : Sz) : Q :=
  if s.isExact then s.coef else (tab.lookup s).getD s.coef

def qToSz (tab : List (Sz × Q)) (q : Q) : Sz :=
  match tab.find? (fun e => e.2 = q) with
  | some e => e.1
  | none => Sz.ofQ q

def nV (q : Q) : Value := .num (.fin q)
def tV (t : ETime) : Value := .num (Num.ofETime t)

def BEpoch.toValue (tab : List (Sz × Q)) (e : BEpoch) : Value :=
  .obj ([("end_size", nV (szToQ tab e.endSize)), ("end_time", nV e.endTime)]
        ++ (match e.startSize with | some s => [("start_size", nV (szToQ tab s))] | none => [])
        ++ (match e.growthRate with | some g => [("growth_rate", nV g)] | none => []))

def BDeme.toValue (tab : List (Sz × Q)) (d : BDeme) : Value :=
  .obj ([("name", .str d.name), ("start_time", tV d.startTime),
         ("epochs", .list (d.epochs.map (BEpoch.toValue tab)))]
        ++ (match d.ancestors with | some a => [("ancestors", .list (a.map .str))] | none => [])
        ++ (match d.proportions with | some p => [("proportions", .list (p.map nV))] | none => []))

def BMigration.toValue (m : BMigration) : Value :=
  .obj [("source", .str m.source), ("dest", .str m.dest), ("start_time", tV m.startTime),
        ("end_time", nV m.endTime), ("rate", .num m.rate)]

def BPulse.toValue (p : BPulse) : Value :=
  .obj [("sources", .list (p.sources.map .str)), ("dest", .str p.dest), ("time", nV p.time),
        ("proportions", .list (p.proportions.map nV))]

/-- `b.data` as a document (`Builder()` starts from `dict(time_units="generations")`) -/
def MsDoc.toValue (tab : List (Sz × Q)) (doc : MsDoc) : Value :=
  .obj ([("time_units", .str "generations"), ("demes", .list (doc.demes.map (BDeme.toValue tab))),
         ("migrations", .list (doc.migrations.map BMigration.toValue))]
        ++ (match doc.pulses with | some ps => [("pulses", .list (ps.map BPulse.toValue))] | none => []))

/-- a resolved graph whose sizes are symbolic -/
structure MsGraph where
  graph : Graph                 -- sizes are rationals or placeholders
  table : List (Sz × Q)
  doc : MsDoc
  deriving Repr

def MsGraph.size (g : MsGraph) (q : Q) : Sz := qToSz g.table q

/-- `build_graph(args, N0)` -/
def buildGraph (args : Args) (N0 : Q) : Except Err MsGraph := do
  let doc ← buildDoc args N0
  let tab := placeholders doc
  let g ← Demes.resolve (doc.toValue tab)
  pure { graph := g, table := tab, doc := doc }

def insertStr (x : String) : List String → List String
  | [] => [x]
  | y :: ys => if x ≤ y then x :: y :: ys else y :: insertStr x ys

/-- `from_ms(command, N0=…, deme_names=…)` on the list `command.split()` -/
def fromMs (tokens : List String) (N0 : Q) (demeNames : Option (List String)) : Except Err MsGraph := do
  let args ← parseKnownArgs tokens
  let mg ← buildGraph args N0
  match demeNames with
  | none => pure mg
  | some names =>
    if names.eraseDups.length ≠ mg.graph.demes.length then
      valueErr s!"graph has {mg.graph.demes.length} unique demes, but deme_names has {names.eraseDups.length}"
    -- `dict(zip(("deme{j+1}" …), deme_names))`
    let nameMap : Renaming := (List.range names.length).zip names |>.map (fun (j, nm) => (demeName j, nm))
    -- `remap_deme_names`: the keys must be exactly the graph's deme names
    let keys := (nameMap.map (·.1)).foldr insertStr []
    let have_ := (mg.graph.demes.map (·.name)).foldr insertStr []
    if keys ≠ have_ then assertionErr "sorted(names.keys()) == sorted(deme names)"
    let g' ← renameDemesChecked mg.graph nameMap
    pure { mg with graph := g' }

/-! ## `to_ms` -/

/-- `get_growth_rate(epoch)` -/
def getGrowthRate (N0 : Q) (e : Epoch) : Except Err Growth := do
  if !(e.sizeFunction = "constant" || e.sizeFunction = "exponential") then
    valueErr "ms only supports constant or exponentially changing population sizes"
  if e.endSize ≠ e.startSize then
    match e.startTime with
    | .inf => outOfModel "infinite epoch with unequal sizes"
    | .fin st =>
      let dt := (st - e.endTime) / (4 * N0)
      pure (.sym (e.startSize / e.endSize) dt)
  else pure .zero

def finG (_ : Growth) : Except Err Unit := pure ()

/-- the size / growth events of one deme (epochs walked from the present) -/
def demeSizeEvents (N0 : Q) (j : Nat) (d : Deme) : Except Err (List (Event Growth)) := do
  let (_, _, evs) ← d.epochs.reverse.foldlM (fun (st : Q × Growth × List (Event Growth)) (e : Epoch) => do
    let (size, growth, evs) := st
    let (growth, evs) ←
      if size ≠ e.endSize then do
        if N0 = 0 then otherErr "ZeroDivisionError"
        let ev ← mkPopSizeChange "" (.fin e.endTime) (j : Int) (.fin (e.endSize / N0))
        -- "In ms, -en also sets the growth rate of the population to zero."
        pure (Growth.zero, evs ++ [ev])
      else pure (growth, evs)
    let alpha ← getGrowthRate N0 e
    let (growth, evs) ←
      if !(growth.eq alpha) then do
        let ev ← mkPopGrowthRateChange finG "" (.fin e.endTime) (j : Int) alpha
        pure (alpha, evs ++ [ev])
      else pure (growth, evs)
    pure (e.startSize, growth, evs)) (N0, Growth.zero, [])
  pure evs

inductive DemeOrPulse where
  | deme (d : Deme)
  | pulse (p : Pulse)

def DemeOrPulse.key : DemeOrPulse → ETime
  | .deme d => d.startTime
  | .pulse p => .fin p.time

def sumFrom (ps : List Q) (k : Nat) : Q := (ps.drop k).foldl (· + ·) 0

def demeId (g : Graph) (name : String) : Except Err Int :=
  match g.demeId? name with
  | some j => pure ((j : Int) + 1)
  | none => keyErr name

/-- the Split / Join walk over `demes_and_pulses`; the state is `num_demes` and the events -/
def ancestryEvents (g : Graph) (xs : List DemeOrPulse) (numDemes : Nat) : Except Err (List (Event Growth)) := do
  let (_, evs) ← xs.foldlM (fun (st : Nat × List (Event Growth)) (x : DemeOrPulse) =>
    match x with
    | .deme d =>
      (d.ancestors.zipIdx).foldlM (fun (st : Nat × List (Event Growth)) (ak : String × Nat) => do
        let (numDemes, evs) := st
        let (ancestor, k) := ak
        let ancId ← demeId g ancestor
        let pk ← match d.proportions[k]? with
          | some p => pure p
          | none => otherErr "IndexError"
        let den := sumFrom d.proportions k
        if den = 0 then otherErr "ZeroDivisionError"
        let proportion := pk / den
        let me ← demeId g d.name
        if k = d.ancestors.length - 1 then
          if !iscloseQ proportion 1 relTol 0 then assertionErr "math.isclose(proportion, 1)"
          let e ← mkJoin "" (Num.ofETime d.startTime) me ancId
          pure (numDemes, evs ++ [e])
        else
          let numDemes := numDemes + 1
          let e1 ← mkSplit "" (Num.ofETime d.startTime) me (.fin (1 - proportion))
          let e2 ← mkJoin "" (Num.ofETime d.startTime) (numDemes : Int) ancId
          pure (numDemes, evs ++ [e1, e2])) st
    | .pulse p => do
      let (numDemes, evs) := st
      let numDemes := numDemes + 1
      if p.sources.length > 1 then valueErr "Currently pulses with only a single source are supported"
      let dest ← demeId g p.dest
      let p0 ← match p.proportions.head? with
        | some x => pure x
        | none => otherErr "IndexError"
      let e1 ← mkSplit "" (.fin p.time) dest (.fin (1 - p0))
      let src ← match p.sources.head? with
        | some s => demeId g s
        | none => otherErr "IndexError"
      let e2 ← mkJoin "" (.fin p.time) (numDemes : Int) src
      pure (numDemes, evs ++ [e1, e2])) (numDemes, [])
  pure evs

def lookupDeme (g : Graph) (name : String) : Except Err Deme :=
  match g.deme? name with
  | some d => pure d
  | none => keyErr name

/-- the two migration passes -/
def migrationEvents (N0 : Q) (g : Graph) : Except Err (List (Event Growth)) := do
  let offs ← g.migrations.foldlM (fun (evs : List (Event Growth)) (m : Migration) => do
    let dd ← lookupDeme g m.dest
    let sd ← lookupDeme g m.source
    if !m.startTime.isInf && m.startTime ≠ dd.startTime && m.startTime ≠ sd.startTime then
      let e ← mkMigEntryChange "" (Num.ofETime m.startTime) (← demeId g m.dest) (← demeId g m.source) (.fin 0)
      pure (evs ++ [e])
    else pure evs) []
  let ons ← g.migrations.mapM (fun (m : Migration) => do
    mkMigEntryChange (α := Growth) "" (.fin m.endTime) (← demeId g m.dest) (← demeId g m.source) (.fin (4 * N0 * m.rate)))
  pure (offs ++ ons)

/-- `to_ms(graph, N0=…, samples=…)`: the command as a list of tokens (the real function
joins them with blanks) -/
def toMs (graph : Graph) (N0 : Q) (samples : Option (List Int)) : Except Err (List (Tok Growth)) := do
  let g := inGenerations graph
  let numDemes := g.demes.length
  match samples with
  | some s => if s.length ≠ numDemes then valueErr "samples must match the number of demes in the graph"
  | none => pure ()
  let cmd : List (Tok Growth) ←
    if numDemes > 1 then do
      let smp := samples.getD (List.replicate numDemes 0)
      let st ← mkStructure (numDemes : Int) (smp.map toString) (.fin 0)
      pure st.print
    else pure []
  let sizeEvs ← (g.demes.zipIdx).foldlM (fun (evs : List (Event Growth)) (dj : Deme × Nat) => do
    pure (evs ++ (← demeSizeEvents N0 (dj.2 + 1) dj.1))) []
  let demesAndPulses := sortBy (fun a b => decide (a.key ≤ b.key))
    (g.pulses.reverse.map DemeOrPulse.pulse ++ g.demes.map DemeOrPulse.deme)
  let ancEvs ← ancestryEvents g demesAndPulses numDemes
  let migEvs ← migrationEvents N0 g
  let events := sizeEvs ++ ancEvs ++ migEvs
  let events := sortBy (fun a b => Num.le a.t b.t) events
  if N0 = 0 && !events.isEmpty then otherErr "ZeroDivisionError"
  -- `event.t /= 4 * N0` (the attrs setter re-runs `non_negative`)
  let events ← events.mapM (fun e => do
    let t := numDivQ e.t (4 * N0)
    vT t
    pure (e.setT t))
  let toks ← events.mapM Event.print
  pure (cmd ++ toks.flatten)

/-! ## small sanity lemmas (closed instances; the witnesses of the known defects) -/

example : (fromMs ["-I", "2", "1", "1", "-ej", "1.0", "2", "1"] 1 none).toOption.map (fun g => g.graph.demes.map (·.name))
    = some ["deme1", "deme2"] := by decide +kernel

/-- F4: the same two options in the other order are rejected -/
example : (fromMs ["-I", "2", "1", "1", "-eN", "1.0", "2.0", "-ej", "1.0", "2", "1"] 1 none).toOption.isSome = false := by
  decide +kernel
example : (fromMs ["-I", "2", "1", "1", "-ej", "1.0", "2", "1", "-eN", "1.0", "2.0"] 1 none).toOption.isSome = true := by
  decide +kernel

/-- F5: one pulse of 1/2 into deme2 from deme3 is all that is left of two nested splits -/
example : (fromMs ["-I", "2", "1", "1", "-es", "1.0", "2", "0.5", "-es", "1.0", "3", "0.5"] 1 none).toOption.map
    (fun g => g.graph.pulses) = some [{ sources := ["deme3"], dest := "deme2", time := 4, proportions := [1 / 2] }] := by
  decide +kernel

/-- a size that went through `exp` stays symbolic: growth 1/4 per generation for 2 generations -/
example : (fromMs ["-g", "1", "1.0", "-eG", "0.5", "0"] 1 none).toOption.map
    (fun g => g.graph.demes.map (fun d => d.epochs.map (fun e => (g.size e.startSize, g.size e.endSize))))
    = some [[(⟨1, -1 / 2⟩, ⟨1, -1 / 2⟩), (⟨1, -1 / 2⟩, ⟨1, 0⟩)]] := by decide +kernel

/-- argparse: `-1e-3` is not a negative number for argparse, so `-eg` misses an argument -/
example : (parseKnownArgs ["-eg", "1", "1", "-1e-3"]).toOption.isSome = false := by decide +kernel
example : (parseKnownArgs ["-eg", "1", "1", "-0.001"]).toOption.map (·.demographicEvents.length) = some 1 := by
  decide +kernel

/-- equal growth rates from different (ratio, span) pairs: (1/4 over 2) = (1/2 over 1) -/
example : Growth.eq (.sym (1 / 4) 2) (.sym (1 / 2) 1) = true ∧ Growth.eq (.sym (1 / 4) 2) (.sym (1 / 2) 2) = false := by
  decide +kernel

/-- the F3 sawtooth: constant 100, then 100→200 twice -/
def sawtoothEpoch (s t : Q) (st : ETime) (fn : String) (e : Q) : Epoch :=
  { startTime := st, endTime := t, startSize := s, endSize := e, sizeFunction := fn, selfingRate := 0, cloningRate := 0 }

def sawtooth : Graph :=
  { description := "", timeUnits := "generations", generationTime := 1, doi := [], metadata := [],
    demes := [{ name := "A", description := "", startTime := .inf, ancestors := [], proportions := [],
                epochs := [sawtoothEpoch 100 8 .inf "constant" 100, sawtoothEpoch 100 4 (.fin 8) "exponential" 200,
                           sawtoothEpoch 100 0 (.fin 4) "exponential" 200] }],
    migrations := [], pulses := [], index := [("A", 0)] }

/-- `to_ms` of the sawtooth: the second `-en` is followed by an `-eg` again (F3 fixed in the code) -/
example : ((toMs sawtooth 1 none).toOption.map (fun ts => ts.filterMap (fun t => match t with | .flag s => some s | _ => none)))
    = some ["-n", "-g", "-en", "-eg", "-eg"] := by decide +kernel

end Demes.Ms
