/-
  C09, acceptance — non-vacuity of `addMigrations_ok` / `docMigsWF_of_migWF`: the state `build_graph`
  reaches on `-I 2 0 0 -m 2 1 0.5 -em 0.5 2 1 0.25 -ej 1.0 2 1` with `N0 = 1` satisfies `MigWF`, and the
  two migrations the sweep emits from it are well-formed.
-/
import DemesVerif.Proofs.MsAccDocMigs
namespace Demes.Proofs.MsAcc
open Demes Demes.Ms Demes.Spec Demes.Spec.MsSem Demes.Spec.C08 Demes.Proofs.FromMs

def exTokensDM : List String :=
  ["-I", "2", "0", "0", "-m", "2", "1", "0.5", "-em", "0.5", "2", "1", "0.25", "-ej", "1.0", "2", "1"]

/-- the matrix with the one entry `c` (into deme 2 from deme 1) -/
def exM (c : Q) : MM := [[.fin 0, .fin 0], [.fin c, .fin 0]]

/-- the state at the end of the event loop (times in units of `4·N0` generations) -/
def exState : BState :=
  { numDemes := 2, mmList := [exM 0, exM (1/4), exM (1/2)], mmEndTimes := [4, 2, 0], joined := [1],
    demes := [{ name := "deme1", startTime := .inf, epochs := [{ endSize := Sz.ofQ 1, endTime := 0 }] },
              { name := "deme2", startTime := .fin 4, epochs := [{ endSize := Sz.ofQ 1, endTime := 0 }],
                ancestors := some ["deme1"], proportions := some [1] }] }

/-- it is the state of the command -/
example : (parseKnownArgs exTokensDM >>= fun a => buildState a 1).toOption.map
        (fun s => (s.numDemes, s.mmList, s.mmEndTimes)) = some (exState.numDemes, exState.mmList, exState.mmEndTimes)
    ∧ (parseKnownArgs exTokensDM >>= fun a => buildState a 1).toOption.map
        (fun s => (s.joined, s.demes, s.pulses)) = some (exState.joined, exState.demes, exState.pulses) := by
  decide +kernel

theorem ok_of_toOption {ε α} {x : Except ε α} {a : α} (h : x.toOption = some a) : x = .ok a := by
  cases x with
  | error e => cases h
  | ok b => injection h with h; rw [h]

theorem exM_get (c : Q) (j k : Nat) : mmGet (exM c) j k = if j = 1 ∧ k = 0 then .fin c else .fin 0 := by
  rcases j with _ | _ | j <;> rcases k with _ | _ | k <;> simp [mmGet, exM]

theorem ex_rate (j k : Nat) (t : Q) : mmRateAt exState.mmList exState.mmEndTimes j k t =
    if 4 ≤ t then some (.fin 0) else if 2 ≤ t then some (if j = 1 ∧ k = 0 then .fin (1/4) else .fin 0)
    else if 0 ≤ t then some (if j = 1 ∧ k = 0 then .fin (1/2) else .fin 0) else none := by
  show (if 4 ≤ t then some (mmGet (exM 0) j k) else if 2 ≤ t then some (mmGet (exM (1/4)) j k)
    else if 0 ≤ t then some (mmGet (exM (1/2)) j k) else none) = _
  have h0 : mmGet (exM 0) j k = .fin 0 := by rw [exM_get]; split <;> rfl
  simp only [h0, exM_get]

theorem ex_entry (j k : Nat) (t : Q) : rowEntry exState j k t = 
    if j = 1 ∧ k = 0 then (if 4 ≤ t then 0 else if 2 ≤ t then 1/4 else if 0 ≤ t then 1/2 else 0) else 0 := by
  unfold rowEntry
  rw [ex_rate]
  by_cases h : j = 1 ∧ k = 0
  · simp only [h, and_self, if_true]
    split_ifs <;> rfl
  · simp only [h, if_false]
    split_ifs <;> rfl

theorem exState_migWF : MigWF 1 exState where
  len := rfl
  dims := by
    intro m hm
    simp only [exState, List.mem_cons, List.not_mem_nil, or_false] at hm
    rcases hm with rfl | rfl | rfl <;> (unfold Dim exM; decide)
  dec := by decide +kernel
  nonneg := by decide +kernel
  fin := by
    intro j k t r _ h
    rw [ex_rate] at h
    split_ifs at h <;> injection h with h <;> subst h
    all_goals first
      | exact ⟨0, rfl, by decide⟩
      | exact ⟨1/4, rfl, by decide +kernel⟩
      | exact ⟨1/2, rfl, by decide +kernel⟩
  alive := by
    intro j k t q _ h hq
    rw [ex_rate] at h
    have hd : exState.demes[1]? = some exState.demes[1] ∧ exState.demes[0]? = some exState.demes[0] := ⟨rfl, rfl⟩
    split_ifs at h with h4 h2 hjk h0 hjk <;> injection h with h <;> injection h with h
    all_goals first
      | exact absurd h.symm hq
      | (obtain ⟨rfl, rfl⟩ := hjk
         refine ⟨_, _, hd.1, hd.2, ?_, ?_, ?_, trivial⟩
         all_goals first
           | (show (0 : Q) ≤ t; grind)
           | (show t < 4; grind))
  le := by
    intro j k t q _ h
    rw [ex_rate] at h
    split_ifs at h <;> injection h with h <;> injection h with h <;> subst h <;> decide +kernel
  ingress := by
    intro j t
    rw [ingressRow_eq]
    simp only [ex_entry]
    show ingressOk (qsumS (((List.range 2).filter (fun k => k != j)).map _) / (4 * 1)) = true
    rcases j with _ | _ | j
    · show ingressOk (((0 : Q) + 0) / (4 * 1)) = true
      decide +kernel
    · show ingressOk (((if 4 ≤ t then (0 : Q) else if 2 ≤ t then 1/4 else if 0 ≤ t then 1/2 else 0) + 0) / (4 * 1)) = true
      split_ifs <;> decide +kernel
    · show ingressOk (((0 : Q) + (0 + 0)) / (4 * 1)) = true
      decide +kernel

theorem exState_nameInv : NameInv exState := by
  show exState.demes.map (·.name) = (List.range 2).map Ms.demeName
  decide +kernel

/-- **non-vacuity**: the hypotheses of `addMigrations_ok` and `docMigsWF_of_migWF` hold of `exState`; the sweep
emits the two migrations `deme1 → deme2` (rate `1/4` over `[2, 4)`, rate `1/2` over `[0, 2)`), and the scaled
list is well-formed -/
example : ∃ migs, addMigrationsFromMatrices (exState.demes.map (·.name)) exState.mmList exState.mmEndTimes = .ok migs
    ∧ migs.length = 2
    ∧ DocMigsWF exState (migs.map (fun m => { m with rate := numDivQ m.rate (4 * 1) })) := by
  obtain ⟨migs, h, hw⟩ := docMigs_of_migWF (N0 := 1) (by decide) exState_migWF exState_nameInv (by decide)
  refine ⟨migs, h, ?_, hw⟩
  have h' : addMigrationsFromMatrices (exState.demes.map (·.name)) exState.mmList exState.mmEndTimes
      = .ok [{ source := "deme1", dest := "deme2", startTime := .fin 4, endTime := 2, rate := .fin (1/4) },
             { source := "deme1", dest := "deme2", startTime := .fin 2, endTime := 0, rate := .fin (1/2) }] := by
    apply ok_of_toOption
    decide +kernel
  rw [h'] at h
  injection h with h
  rw [← h]
  rfl

end Demes.Proofs.MsAcc

#print axioms Demes.Proofs.MsAcc.exState_migWF
