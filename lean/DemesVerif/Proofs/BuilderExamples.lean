/-
  Concrete call sequences and documents for the non-vacuity examples and the counterexamples of
  the Builder route.
-/
import DemesVerif.Proofs.Builder
import DemesVerif.Proofs.FillExamples
import DemesVerif.Model.ValueEq
namespace Demes.Proofs.BuilderRoute
open Demes Demes.Obj Demes.Spec Demes.Spec.BuilderRoute Demes.Builder Demes.Proofs

def n (q : Q) : Value := .num (.fin q)
def ep (size : Q) : Value := .obj [("start_size", n size)]

/-- a three-deme model entered call by call: header with defaults and metadata, `None` passed
for several optional arguments, `start_time="Infinity"` given as a string, pulses added before the
migrations, a `resolve` in the middle and one at the end -/
def exCalls : List BuilderCall := [
  .init (some (.str "example")) (some (.str "years")) (some (n 25)) (some .null)
    (some (.obj [("migration", .obj [("rate", n (1/1000))])])) (some (.obj [("k", .str "v")])),
  .addDeme (.str "A") (some .null) none none (some (.str "Infinity")) (some (.list [ep 1000])) none,
  .addDeme (.str "B") none (some (.list [.str "A"])) (some .null) (some (n 1000))
    (some (.list [.obj [("end_time", n 500), ("start_size", n 100), ("end_size", n 400)],
                  .obj [("end_size", n 200), ("size_function", .str "linear")]])) none,
  .addDeme (.str "D") none none none none (some (.list [ep 10])) (some .null),
  .resolve,
  .addPulse (some (.list [.str "A"])) (some (.str "B")) (some (.list [n (1/10)])) (some (n 300)),
  .addMigration none (some (.list [.str "A", .str "D"])) none none (some (.str "Infinity")) (some .null),
  .addDeme (.str "C") none (some (.list [.str "A", .str "B"])) (some (.list [n (1/4), n (3/4)]))
    (some (n 200)) (some (.list [ep 50])) none,
  .addMigration (some (n (1/100))) (some .null) (some (.str "A")) (some (.str "C")) (some (n 100)) none,
  .resolve]

/-- the data dictionary those calls build: `pulses` before `migrations` (first use), no `doi`, no
`description` of A, `start_time` of A and of the first migration the number infinity, the explicit
`demes: null` of the second migration kept -/
def exData : Obj := [
  ("time_units", .str "years"), ("description", .str "example"), ("generation_time", n 25),
  ("defaults", .obj [("migration", .obj [("rate", n (1/1000))])]), ("metadata", .obj [("k", .str "v")]),
  ("demes", .list [
    .obj [("name", .str "A"), ("start_time", .num .pinf), ("epochs", .list [ep 1000])],
    .obj [("name", .str "B"), ("ancestors", .list [.str "A"]), ("start_time", n 1000),
          ("epochs", .list [.obj [("end_time", n 500), ("start_size", n 100), ("end_size", n 400)],
                            .obj [("end_size", n 200), ("size_function", .str "linear")]])],
    .obj [("name", .str "D"), ("epochs", .list [ep 10])],
    .obj [("name", .str "C"), ("ancestors", .list [.str "A", .str "B"]),
          ("proportions", .list [n (1/4), n (3/4)]), ("start_time", n 200), ("epochs", .list [ep 50])]]),
  ("pulses", .list [
    .obj [("sources", .list [.str "A"]), ("dest", .str "B"), ("proportions", .list [n (1/10)]),
          ("time", n 300)]]),
  ("migrations", .list [
    .obj [("demes", .list [.str "A", .str "D"]), ("start_time", .num .pinf)],
    .obj [("rate", n (1/100)), ("demes", .null), ("source", .str "A"), ("dest", .str "C"),
          ("start_time", n 100)]])]

/-- a Builder-expressible document with its keys *not* in the Builder's order (deme fields,
header fields, `pulses` before `demes`), an empty `migrations` list -/
def exDoc : Obj := [
  ("pulses", .list [
    .obj [("time", n 300), ("dest", .str "B"), ("sources", .list [.str "A"]),
          ("proportions", .list [n (1/10)])]]),
  ("description", .str "example"),
  ("demes", .list [
    .obj [("epochs", .list [ep 1000]), ("name", .str "A")],
    .obj [("start_time", n 1000), ("name", .str "B"), ("ancestors", .list [.str "A"]),
          ("epochs", .list [ep 100])]]),
  ("migrations", .list []),
  ("time_units", .str "generations")]

/-- the same in the Builder's order -/
def exDocOrdered : Obj := [
  ("time_units", .str "generations"), ("description", .str "example"),
  ("demes", .list [
    .obj [("name", .str "A"), ("epochs", .list [ep 1000])],
    .obj [("name", .str "B"), ("ancestors", .list [.str "A"]), ("start_time", n 1000),
          ("epochs", .list [ep 100])]]),
  ("pulses", .list [
    .obj [("sources", .list [.str "A"]), ("dest", .str "B"), ("proportions", .list [n (1/10)]),
          ("time", n 300)]])]

def oneDeme : Value := .list [.obj [("name", .str "A"), ("epochs", .list [ep 100])]]

/-- no `time_units`: `Graph.fromdict` refuses it, the Builder's constructor supplies the default -/
def exNoTimeUnits : Obj := [("demes", oneDeme)]
/-- `description: null` -/
def exNullDescription : Obj :=
  [("time_units", .str "generations"), ("description", .null), ("demes", oneDeme)]
/-- `start_time: "Infinity"` (a string) in a deme of a dict -/
def exInfinityInDict : Obj :=
  [("time_units", .str "generations"),
   ("demes", .list [.obj [("name", .str "A"), ("start_time", .str "Infinity"),
                          ("epochs", .list [ep 100])]])]
/-- `ancestors: null` under a `defaults.deme.ancestors`: the dict route keeps the `null` (which
hides the default: the deme B has no ancestors and an infinite start time), the Builder route
drops it (the default applies) -/
def exNullHidesDefault : Obj :=
  [("time_units", .str "generations"),
   ("defaults", .obj [("deme", .obj [("ancestors", .list [.str "A"])])]),
   ("demes", .list [
     .obj [("name", .str "A"), ("ancestors", .list []),
           ("epochs", .list [.obj [("start_size", n 100), ("end_time", n 50)]])],
     .obj [("name", .str "B"), ("ancestors", .null), ("epochs", .list [ep 100])]])]
/-- `demes: []` -/
def exEmptyDemes : Obj := [("time_units", .str "generations"), ("demes", .list [])]

/-- two demes and `defaults.migration.demes`, for the `None` sentinel -/
def sentinelCalls (demesArg : Option Value) : List BuilderCall := [
  .init none none none none
    (some (.obj [("migration", .obj [("demes", .list [.str "A", .str "B"])])])) none,
  .addDeme (.str "A") none none none none (some (.list [ep 100])) none,
  .addDeme (.str "B") none none none none (some (.list [ep 100])) none,
  .addMigration (some (n (1/10))) demesArg (some (.str "A")) (some (.str "B")) none none]

def twoDemes : List BuilderCall := [
  .addDeme (.str "A") none none none none (some (.list [ep 100])) none,
  .addDeme (.str "B") none none none none (some (.list [ep 100])) none]

end Demes.Proofs.BuilderRoute
