/-
  C09 §8 — acceptance of the `to_ms` output by `from_ms` for graphs with exponential epochs: every time
  group of the command `to_ms` prints for a valid ms-expressible graph with tame pulses satisfies `groupFragV`
  (`groupsFrag_finalEvsV`, `groupsFrag_toMsV`).  (`Proofs/MsAccFrag.lean` without `ConstSizes`.)

  * every option is in the fragment `fragCmdV` (positive sizes, any growth rate, non-negative migration
    entries, a split fraction strictly between 0 and 1, `-es` / `-ej` at positive times, indices `≥ 1`);
  * no time group changes the size or the growth rate of a population it joins (`noSizeAtJoinGV`): the size
    and growth options of population `k+1` are at end times of epochs of deme `k`, which lie strictly before
    the deme's start time, the time of its `-ej`;
  * no lineage movement of a group goes from a population to itself.
-/
import DemesVerif.Proofs.MsGrowAccDefs
import DemesVerif.Proofs.MsGrowTame
import DemesVerif.Proofs.MsAccFrag
set_option linter.unusedSimpArgs false
set_option linter.unusedVariables false
namespace Demes.Proofs.MsGrow
open Demes Demes.Ms Demes.Spec Demes.Spec.C07 Demes.Spec.C09
open Demes.Spec.MsSem (Cmd Parsed isMove)
open Demes.Spec.C08 (groupOps groupOpsAux flushOp isSplitC cmdGroups Tame')
open Demes.Proofs.ToMs
open Demes.Proofs.MsRT (dpMoves pulsesTame_inGen_of_valid pulsesBelowOne_of_tame pulsesBelowOne_inGen_of_valid)
open Demes.Proofs.MsAcc (FragEv fragEv_scale fragEv_rawEvs fragEv_rawEvs3 scale_join_inv scale_size_inv dpMoves_irrefl)

/-! ### the options of the fragment -/

/-- an option record of the fragment `EvG` with the signs of `FragEv` is a `fragCmdV` -/
theorem fragCmd_of (gv : Growth → Q) {e : Event Growth} (h : EvG e) (hs : FragEv e) : fragCmdV (cmdOfV gv e) = true := by
  cases e with
  | popSizeChange o t i x =>
    obtain ⟨_, hi, q, y, rfl, hq, rfl, _⟩ := h
    have hy : 0 < y := hs
    have hi' : 1 ≤ i.toNat := by omega
    simp only [cmdOfV, fragCmdV, Bool.and_eq_true, decide_eq_true_eq]
    exact ⟨⟨hq, hi'⟩, hy⟩
  | popGrowthRateChange o t i G =>
    obtain ⟨_, hi, q, rfl, hq⟩ := h
    have hi' : 1 ≤ i.toNat := by omega
    simp only [cmdOfV, fragCmdV, Bool.and_eq_true, decide_eq_true_eq]
    exact ⟨hq, hi'⟩
  | migEntryChange o t i j x =>
    obtain ⟨_, hi, hj, q, y, rfl, hq, rfl, hy⟩ := h
    have hi' : 1 ≤ i.toNat := by omega
    have hj' : 1 ≤ j.toNat := by omega
    simp only [cmdOfV, fragCmdV, Bool.and_eq_true, decide_eq_true_eq]
    exact ⟨⟨⟨hq, hi'⟩, hj'⟩, hy⟩
  | split o t i p =>
    obtain ⟨_, hi, q, y, rfl, hq, rfl, _, _⟩ := h
    have hy : 0 < y ∧ y < 1 := hs
    have hi' : 1 ≤ i.toNat := by omega
    simp only [cmdOfV, fragCmdV, Bool.and_eq_true, decide_eq_true_eq]
    exact ⟨⟨⟨hq, hi'⟩, hy.1⟩, hy.2⟩
  | join o t i j =>
    obtain ⟨_, hi, hj, q, rfl, hq⟩ := h
    have hi' : 1 ≤ i.toNat := by omega
    have hj' : 1 ≤ j.toNat := by omega
    simp only [cmdOfV, fragCmdV, Bool.and_eq_true, decide_eq_true_eq]
    exact ⟨⟨hq, hi'⟩, hj'⟩
  | growthRateChange => exact h.elim
  | sizeChange => exact h.elim
  | migRateChange => exact h.elim
  | migMatrixChange => exact h.elim

/-! ### a size / growth option and the `-ej` of its population are at different times -/

theorem cmdOfV_join_inv {gv : Growth → Q} {a : Event Growth} {t : Q} {i j : Nat} (h : cmdOfV gv a = .join t i j) :
    ∃ o ta ia ja, a = .join o ta ia ja ∧ i = ia.toNat := by
  cases a with
  | popSizeChange o t i x => cases x <;> cases h
  | migEntryChange o t i j x => cases x <;> cases h
  | split o t i p => cases p <;> cases h
  | join o ta ia ja => cases h; exact ⟨o, ta, ia, ja, rfl, rfl⟩
  | _ => cases h

theorem cmdOfV_setSize_inv {gv : Growth → Q} {b : Event Growth} {t : Q} {i : Nat} {x : Q} {r : Bool}
    (h : cmdOfV gv b = .setSize t i x r) :
    ∃ o tb ib, b = .popSizeChange o tb ib (.fin x) ∧ i = ib.toNat := by
  cases b with
  | popSizeChange o t i x =>
    cases x with
    | fin y => cases h; exact ⟨o, t, i, rfl, rfl⟩
    | _ => cases h
  | migEntryChange o t i j x => cases x <;> cases h
  | split o t i p => cases p <;> cases h
  | _ => cases h

theorem cmdOfV_setGrowth_inv {gv : Growth → Q} {b : Event Growth} {t : Q} {i : Nat} {a : Q}
    (h : cmdOfV gv b = .setGrowth t i a) :
    ∃ o tb ib G, b = .popGrowthRateChange o tb ib G ∧ i = ib.toNat := by
  cases b with
  | popSizeChange o t i x => cases x <;> cases h
  | popGrowthRateChange o t i G => cases h; exact ⟨o, t, i, G, rfl, rfl⟩
  | migEntryChange o t i j x => cases x <;> cases h
  | split o t i p => cases p <;> cases h
  | _ => cases h

section
variable {g : Graph} (c : Clauses g) (hx : MsExpressible g = true) {N0 : Q} (hN : 0 < N0)
include c hx hN

/-- the `-ej` of population `i` and an option `b` of the command that is not an `-es` / `-ej` and has `i`
among its populations are at different times -/
theorem target_join_time {o : String} {ta : Num} {ia ja : Int} {b : Event Growth}
    (ha : Event.join o ta ia ja ∈ finalEvs g N0) (hb : b ∈ finalEvs g N0)
    (hsj : isSplitJoin b = false) {ib : Int} (hib : ib ∈ targets b) (hii : ib.toNat = ia.toNat) :
    evT (Event.join o ta ia ja) ≠ evT b := by
  have h4 : (0 : Q) < 4 * N0 := by grind
  have hia := join_pos_finalEvs c hx ha o ta ia ja rfl
  obtain ⟨ya, hya, hsa⟩ := finalEvs_mem c hx ha
  obtain ⟨yb, hyb, hsb'⟩ := finalEvs_mem c hx hb
  obtain ⟨ta', rfl⟩ := MsAcc.scale_join_inv hsa.symm
  have hsj' : isSplitJoin yb = false := by
    rw [hsb'] at hsj
    cases yb <;> first | rfl | cases hsj
  have hib' : ib ∈ targets yb := by rw [hsb', targets_scale] at hib; exact hib
  obtain ⟨hib1, hib2, d, q, hd, hq, hlt⟩ := targetTime c hx hyb hsj' hib'
  have hiab : ia = ib := by omega
  subst hiab
  obtain ⟨d', q', hd', hst, hta⟩ := joinTime c hx hya hib1 hib2
  rw [hd] at hd'
  cases hd'
  rw [hst] at hlt
  have hqq : q < q' := hlt
  subst hta
  have e1 : evT (Event.join o ta ia ja) = q' / (4 * N0) := by
    rw [hsa]; exact evT_of_good (t_scale rfl)
  have e2 : evT b = q / (4 * N0) := by
    rw [hsb']; exact evT_of_good (t_scale hq)
  rw [e1, e2]
  intro heq
  have := (InGen.div_eq_div h4).1 heq
  grind

/-- the `-ej` of population `i` and a size option of population `i` of the command are at different times -/
theorem size_join_time {gv : Growth → Q} {a b : Event Growth} (ha : a ∈ finalEvs g N0) (hb : b ∈ finalEvs g N0)
    {t t' : Q} {i j i' : Nat} {x : Q} {r : Bool} (hja : cmdOfV gv a = .join t i j) (hsb : cmdOfV gv b = .setSize t' i' x r)
    (hii : i' = i) : evT a ≠ evT b := by
  obtain ⟨o, ta, ia, ja, rfl, rfl⟩ := cmdOfV_join_inv hja
  obtain ⟨o', tb, ib, rfl, rfl⟩ := cmdOfV_setSize_inv hsb
  exact target_join_time c hx hN ha hb rfl (ib := ib) (by simp [targets]) hii

/-- the `-ej` of population `i` and a growth option of population `i` of the command are at different times -/
theorem growth_join_time {gv : Growth → Q} {a b : Event Growth} (ha : a ∈ finalEvs g N0) (hb : b ∈ finalEvs g N0)
    {t t' : Q} {i j i' : Nat} {x : Q} (hja : cmdOfV gv a = .join t i j) (hsb : cmdOfV gv b = .setGrowth t' i' x)
    (hii : i' = i) : evT a ≠ evT b := by
  obtain ⟨o, ta, ia, ja, rfl, rfl⟩ := cmdOfV_join_inv hja
  obtain ⟨o', tb, ib, G, rfl, rfl⟩ := cmdOfV_setGrowth_inv hsb
  exact target_join_time c hx hN ha hb rfl (ib := ib) (by simp [targets]) hii

end

theorem noSizeAtJoinG_of (gv : Growth → Q) {grp : List (Event Growth)}
    (h : ∀ a ∈ grp, ∀ b ∈ grp, ∀ (t t' : Q) (i j i' : Nat) (x : Q) (r : Bool),
      cmdOfV gv a = .join t i j → cmdOfV gv b = .setSize t' i' x r → i' ≠ i)
    (h' : ∀ a ∈ grp, ∀ b ∈ grp, ∀ (t t' : Q) (i j i' : Nat) (x : Q),
      cmdOfV gv a = .join t i j → cmdOfV gv b = .setGrowth t' i' x → i' ≠ i) :
    noSizeAtJoinGV (grp.map (cmdOfV gv)) = true := by
  unfold noSizeAtJoinGV
  rw [List.all_eq_true]
  intro cm hcm
  obtain ⟨a, ha, rfl⟩ := List.mem_map.1 hcm
  split
  · rename_i t i j heq
    rw [List.all_eq_true]
    intro dm hdm
    obtain ⟨b, hb, rfl⟩ := List.mem_map.1 hdm
    split
    · rename_i t' i' x r heq'
      simp only [bne_iff_ne, ne_eq]
      exact h a ha b hb t t' i j i' x r heq heq'
    · rename_i t' i' x heq'
      simp only [bne_iff_ne, ne_eq]
      exact h' a ha b hb t t' i j i' x heq heq'
    · rfl
  · rfl

/-! ### every time group is in the fragment -/

section
variable (gv : Growth → Q) {g : Graph} (c : Clauses g) (hx : MsExpressible g = true)
  (hpb : PulsesBelowOne g = true) {N0 : Q} (hN : 0 < N0)
include c hx hpb hN

/-- every option of the command is a `fragCmdV` -/
theorem fragCmd_finalEvs3 {e : Event Growth} (he : e ∈ finalEvs g N0) : fragCmdV (cmdOfV gv e) = true := by
  refine fragCmd_of gv (evG_finalEvs c hx hN e he) ?_
  obtain ⟨e', he', rfl⟩ := List.mem_map.1 he
  exact fragEv_scale N0 (fragEv_rawEvs3 c hx hpb hN ((mem_sortBy _).1 he'))

/-- one time group of the command, read after the options `pre` -/
theorem groupFrag_group3 {pre grp post : List (Event Growth)} (hF : finalEvs g N0 = pre ++ grp ++ post)
    (hne : grp ≠ []) (hsame : ∀ a ∈ grp, ∀ b ∈ grp, evT a = evT b)
    (hpre : ∀ a ∈ pre, ∀ b ∈ grp, evT a < evT b) (hpost : ∀ a ∈ grp, ∀ b ∈ post, evT a < evT b) :
    groupFragV (g.demes.length + ((pre.map (cmdOfV gv)).filter isSplitC).length) (grp.map (cmdOfV gv)) = true := by
  obtain ⟨h0, tl, rfl⟩ : ∃ h0 tl, grp = h0 :: tl := by
    cases grp with
    | nil => exact absurd rfl hne
    | cons h0 tl => exact ⟨h0, tl, rfl⟩
  have hT : timeOf N0 (h0 :: tl) / (4 * N0) = evT h0 := by
    simp only [ToMs.timeOf, List.head?_cons, Option.map_some, Option.getD_some]
    exact mul_div_cancel_left4 hN _
  have b1 : ∀ a ∈ pre, evT a < timeOf N0 (h0 :: tl) / (4 * N0) := fun a ha => by
    rw [hT]; exact hpre a ha h0 List.mem_cons_self
  have b2 : ∀ a ∈ h0 :: tl, evT a = timeOf N0 (h0 :: tl) / (4 * N0) := fun a ha => by
    rw [hT]; exact hsame a ha h0 List.mem_cons_self
  have b3 : ∀ b ∈ post, timeOf N0 (h0 :: tl) / (4 * N0) < evT b := fun b hb => by
    rw [hT]; exact hpost h0 List.mem_cons_self b hb
  obtain ⟨_, hgrp⟩ := group_parts c hx hN (T := timeOf N0 (h0 :: tl)) hF b1 b2 b3
  have hcount : g.demes.length + ((pre.map (cmdOfV gv)).filter isSplitC).length
      = ancCount g.demes.length (dpsLt g (timeOf N0 (h0 :: tl))) := by
    have := count_pre c hx hN (T := timeOf N0 (h0 :: tl)) hF b1 b2 b3
    rw [runP_len] at this
    have hlen : (s0Of N0 g.demes.length).pops.length = g.demes.length := by simp [s0Of]
    rw [hlen] at this
    rw [count_splitC, this]
  have hmem : ∀ e ∈ h0 :: tl, e ∈ finalEvs g N0 := fun e he => by
    rw [hF]; exact List.mem_append_left _ (List.mem_append_right _ he)
  unfold groupFragV
  simp only [Bool.and_eq_true]
  refine ⟨⟨?_, ?_⟩, ?_⟩
  · rw [List.all_eq_true]
    intro cm hcm
    obtain ⟨e, he, rfl⟩ := List.mem_map.1 hcm
    exact fragCmd_finalEvs3 gv c hx hpb hN (hmem e he)
  · apply noSizeAtJoinG_of
    · intro a ha b hb t t' i j i' x r hja hsb hii
      exact size_join_time c hx hN (hmem a ha) (hmem b hb) hja hsb hii (hsame a ha b hb)
    · intro a ha b hb t t' i j i' x hja hsb hii
      exact growth_join_time c hx hN (hmem a ha) (hmem b hb) hja hsb hii (hsame a ha b hb)
  · rw [hcount]
    unfold groupOps
    rw [groupOpsAux_filter, hgrp, groupOps_ancEvs, List.all_eq_true]
    intro o ho
    simp only [bne_iff_ne, ne_eq]
    refine dpMoves_irrefl c hx _ ?_ o ho
    intro x hx'
    exact (goodXs_dps c).mem x (List.mem_filter.1 hx').1

/-- the time groups `G`, read after the options `pre` -/
theorem groupsFrag_groups3 : ∀ (G : List (List (Event Growth))) (pre : List (Event Growth)),
    finalEvs g N0 = pre ++ G.flatten → GroupsOK G →
    (∀ a ∈ pre, ∀ grp ∈ G, ∀ b ∈ grp, evT a < evT b) →
    groupsFragV (g.demes.length + ((pre.map (cmdOfV gv)).filter isSplitC).length) (G.map (List.map (cmdOfV gv))) = true
  | [], _, _, _, _ => rfl
  | grp :: rest, pre, hF, hok, hsep => by
    have hinc := List.pairwise_cons.1 hok.inc
    obtain ⟨hne, hsame⟩ := hok.same grp List.mem_cons_self
    have hF' : finalEvs g N0 = pre ++ grp ++ rest.flatten := by rw [hF]; simp
    have hpost : ∀ a ∈ grp, ∀ b ∈ rest.flatten, evT a < evT b := by
      intro a ha b hb
      obtain ⟨g2, hg2, hb2⟩ := List.mem_flatten.1 hb
      exact hinc.1 g2 hg2 a ha b hb2
    have h1 := groupFrag_group3 gv c hx hpb hN hF' hne hsame
      (fun a ha b hb => hsep a ha grp List.mem_cons_self b hb) hpost
    have h2 := groupsFrag_groups3 rest (pre ++ grp) (by rw [hF'])
      ⟨hinc.2, fun g2 hg2 => hok.same g2 (List.mem_cons_of_mem _ hg2)⟩ (by
        intro a ha g2 hg2 b hb
        rcases List.mem_append.1 ha with ha | ha
        · exact hsep a ha g2 (List.mem_cons_of_mem _ hg2) b hb
        · exact hinc.1 g2 hg2 a ha b hb)
    simp only [List.map_append, List.filter_append, List.length_append, ← Nat.add_assoc] at h2
    simp only [List.map_cons, groupsFragV, Bool.and_eq_true]
    exact ⟨h1, h2⟩

end

/-! the same from `PulsesTame` -/
section
variable (gv : Growth → Q) {g : Graph} (c : Clauses g) (hx : MsExpressible g = true)
  (hpt : PulsesTame g = true) {N0 : Q} (hN : 0 < N0)
include c hx hpt hN

/-- every option of the command is a `fragCmdV` -/
theorem fragCmd_finalEvs {e : Event Growth} (he : e ∈ finalEvs g N0) : fragCmdV (cmdOfV gv e) = true :=
  fragCmd_finalEvs3 gv c hx (pulsesBelowOne_of_tame hpt) hN he

/-- one time group of the command, read after the options `pre` -/
theorem groupFrag_group {pre grp post : List (Event Growth)} (hF : finalEvs g N0 = pre ++ grp ++ post)
    (hne : grp ≠ []) (hsame : ∀ a ∈ grp, ∀ b ∈ grp, evT a = evT b)
    (hpre : ∀ a ∈ pre, ∀ b ∈ grp, evT a < evT b) (hpost : ∀ a ∈ grp, ∀ b ∈ post, evT a < evT b) :
    groupFragV (g.demes.length + ((pre.map (cmdOfV gv)).filter isSplitC).length) (grp.map (cmdOfV gv)) = true :=
  groupFrag_group3 gv c hx (pulsesBelowOne_of_tame hpt) hN hF hne hsame hpre hpost

/-- the time groups `G`, read after the options `pre` -/
theorem groupsFrag_groups : ∀ (G : List (List (Event Growth))) (pre : List (Event Growth)),
    finalEvs g N0 = pre ++ G.flatten → GroupsOK G →
    (∀ a ∈ pre, ∀ grp ∈ G, ∀ b ∈ grp, evT a < evT b) →
    groupsFragV (g.demes.length + ((pre.map (cmdOfV gv)).filter isSplitC).length) (G.map (List.map (cmdOfV gv))) = true :=
  groupsFrag_groups3 gv c hx (pulsesBelowOne_of_tame hpt) hN

end

/-- every time group of the command `to_ms` prints for a valid ms-expressible graph whose pulse proportions are
below one satisfies `groupFragV` -/
theorem groupsFrag_finalEvsV3 (gv : Growth → Q) {g : Graph} (c : ToMs.Clauses g) (hx : MsExpressible g = true)
    (hpb : PulsesBelowOne g = true) {N0 : Q} (hN : 0 < N0) (samples : Option (List Int)) :
    groupsFragV (prOfV gv (ToMs.headerOf g samples) (ToMs.finalEvs g N0)).npop
      (Demes.Spec.C08.cmdGroups (prOfV gv (ToMs.headerOf g samples) (ToMs.finalEvs g N0))) = true := by
  have hn : (prOfV gv (headerOf g samples) (finalEvs g N0)).npop = g.demes.length := by
    show ((headerOf g samples).map (·.1)).getD 1 = g.demes.length
    unfold headerOf
    have := demes_pos c
    by_cases h1 : g.demes.length > 1
    · simp [h1]
    · simp [h1]; omega
  rw [hn, cmdGroups_prOfV gv _ _ (evG_finalEvs c hx hN) (sorted_finalEvs c hx hN)]
  have := groupsFrag_groups3 gv c hx hpb hN (groupsByTime (finalEvs g N0)) []
    (by rw [flatten_groupsByTime]; rfl) (groupsOK_groupsByTime _ (sorted_byQ_finalEvs c hx hN))
    (fun a ha => by cases ha)
  simpa using this

/-- every time group of the command `to_ms` prints for a valid ms-expressible graph with tame
pulses satisfies `groupFragV` -/
theorem groupsFrag_finalEvsV (gv : Growth → Q) {g : Graph} (c : ToMs.Clauses g) (hx : MsExpressible g = true)
    (hpt : PulsesTame g = true) {N0 : Q} (hN : 0 < N0) (samples : Option (List Int)) :
    groupsFragV (prOfV gv (ToMs.headerOf g samples) (ToMs.finalEvs g N0)).npop
      (Demes.Spec.C08.cmdGroups (prOfV gv (ToMs.headerOf g samples) (ToMs.finalEvs g N0))) = true :=
  groupsFrag_finalEvsV3 gv c hx (pulsesBelowOne_of_tame hpt) hN samples

/-- `groupsFrag_finalEvsV3` for the command of `to_ms graph`: hypotheses on the graph itself, `PulsesBelowOne`
instead of `PulsesTame` -/
theorem groupsFrag_toMsV3 (gv : Growth → Q) {graph : Graph} (hv : validGraph graph = true)
    (hx : MsExpressible graph = true) (hpb : PulsesBelowOne graph = true) {N0 : Q} (hN : 0 < N0)
    (samples : Option (List Int)) :
    groupsFragV (prOfV gv (ToMs.headerOf (inGenerations graph) samples) (ToMs.finalEvs (inGenerations graph) N0)).npop
      (Demes.Spec.C08.cmdGroups (prOfV gv (ToMs.headerOf (inGenerations graph) samples) (ToMs.finalEvs (inGenerations graph) N0)))
        = true :=
  groupsFrag_finalEvsV3 gv (clauses_of_valid (InGen.inGenerations_valid graph hv)) (by rw [expr_inGen]; exact hx)
    (by rw [pulsesBelowOne_inGen_of_valid hv]; exact hpb) hN samples

/-- `groupsFrag_finalEvsV` for the command of `to_ms graph`: hypotheses on the graph itself -/
theorem groupsFrag_toMsV (gv : Growth → Q) {graph : Graph} (hv : validGraph graph = true) (hx : MsExpressible graph = true)
    (hpt : PulsesTame graph = true) {N0 : Q} (hN : 0 < N0) (samples : Option (List Int)) :
    groupsFragV (prOfV gv (ToMs.headerOf (inGenerations graph) samples) (ToMs.finalEvs (inGenerations graph) N0)).npop
      (Demes.Spec.C08.cmdGroups (prOfV gv (ToMs.headerOf (inGenerations graph) samples) (ToMs.finalEvs (inGenerations graph) N0)))
        = true :=
  groupsFrag_toMsV3 gv hv hx (pulsesBelowOne_of_tame hpt) hN samples

/-! ### non-vacuity -/

/-- `EvG`, decided -/
def evGB : Event Growth → Bool
  | .popSizeChange o (.fin q) i (.fin y) => decide (o = "") && decide (1 ≤ i) && decide (0 ≤ q) && decide (0 ≤ y)
  | .popGrowthRateChange o (.fin q) i _ => decide (o = "") && decide (1 ≤ i) && decide (0 ≤ q)
  | .migEntryChange o (.fin q) i j (.fin y) =>
    decide (o = "") && decide (1 ≤ i) && decide (1 ≤ j) && decide (0 ≤ q) && decide (0 ≤ y)
  | .split o (.fin q) i (.fin y) => decide (o = "") && decide (1 ≤ i) && decide (0 < q) && decide (0 ≤ y) && decide (y ≤ 1)
  | .join o (.fin q) i j => decide (o = "") && decide (1 ≤ i) && decide (1 ≤ j) && decide (0 < q)
  | _ => false

theorem evG_of_evGB {e : Event Growth} (h : evGB e = true) : EvG e := by
  cases e with
  | popSizeChange o t i x =>
    cases t <;> cases x <;> simp only [evGB, Bool.and_eq_true, decide_eq_true_eq, Bool.false_eq_true] at h
    exact ⟨h.1.1.1, h.1.1.2, _, _, rfl, h.1.2, rfl, h.2⟩
  | popGrowthRateChange o t i G =>
    cases t <;> simp only [evGB, Bool.and_eq_true, decide_eq_true_eq, Bool.false_eq_true] at h
    exact ⟨h.1.1, h.1.2, _, rfl, h.2⟩
  | migEntryChange o t i j x =>
    cases t <;> cases x <;> simp only [evGB, Bool.and_eq_true, decide_eq_true_eq, Bool.false_eq_true] at h
    exact ⟨h.1.1.1.1, h.1.1.1.2, h.1.1.2, _, _, rfl, h.1.2, rfl, h.2⟩
  | split o t i p =>
    cases t <;> cases p <;> simp only [evGB, Bool.and_eq_true, decide_eq_true_eq, Bool.false_eq_true] at h
    exact ⟨h.1.1.1.1, h.1.1.1.2, _, _, rfl, h.1.1.2, rfl, h.1.2, h.2⟩
  | join o t i j =>
    cases t <;> simp only [evGB, Bool.and_eq_true, decide_eq_true_eq, Bool.false_eq_true] at h
    exact ⟨h.1.1.1, h.1.1.2, h.1.2, _, rfl, h.2⟩
  | growthRateChange => cases h
  | sizeChange => cases h
  | migRateChange => cases h
  | migMatrixChange => cases h

theorem evGB_of_evG {e : Event Growth} (h : EvG e) : evGB e = true := by
  cases e with
  | popSizeChange o t i x =>
    obtain ⟨ho, hi, q, y, rfl, hq, rfl, hy⟩ := h
    simp only [evGB, Bool.and_eq_true, decide_eq_true_eq]; exact ⟨⟨⟨ho, hi⟩, hq⟩, hy⟩
  | popGrowthRateChange o t i G =>
    obtain ⟨ho, hi, q, rfl, hq⟩ := h
    simp only [evGB, Bool.and_eq_true, decide_eq_true_eq]; exact ⟨⟨ho, hi⟩, hq⟩
  | migEntryChange o t i j x =>
    obtain ⟨ho, hi, hj, q, y, rfl, hq, rfl, hy⟩ := h
    simp only [evGB, Bool.and_eq_true, decide_eq_true_eq]; exact ⟨⟨⟨⟨ho, hi⟩, hj⟩, hq⟩, hy⟩
  | split o t i p =>
    obtain ⟨ho, hi, q, y, rfl, hq, rfl, hy0, hy1⟩ := h
    simp only [evGB, Bool.and_eq_true, decide_eq_true_eq]; exact ⟨⟨⟨⟨ho, hi⟩, hq⟩, hy0⟩, hy1⟩
  | join o t i j =>
    obtain ⟨ho, hi, hj, q, rfl, hq⟩ := h
    simp only [evGB, Bool.and_eq_true, decide_eq_true_eq]; exact ⟨⟨⟨ho, hi⟩, hj⟩, hq⟩
  | growthRateChange => exact h.elim
  | sizeChange => exact h.elim
  | migRateChange => exact h.elim
  | migMatrixChange => exact h.elim

/-- deme `A`: constant 100 until 10 generations ago, then exponential growth 100 → 200 until now; deme `B`
(constant 50) branches off `A` 4 generations ago and receives migrants from `A` -/
def growBranch : Graph :=
  { description := "", timeUnits := "generations", generationTime := 1, doi := [], metadata := [],
    demes := [{ name := "A", description := "", startTime := .inf, ancestors := [], proportions := [],
                epochs := [{ startTime := .inf, endTime := 10, startSize := 100, endSize := 100,
                             sizeFunction := "constant", selfingRate := 0, cloningRate := 0 },
                           { startTime := .fin 10, endTime := 0, startSize := 100, endSize := 200,
                             sizeFunction := "exponential", selfingRate := 0, cloningRate := 0 }] },
              { name := "B", description := "", startTime := .fin 4, ancestors := ["A"], proportions := [1],
                epochs := [{ startTime := .fin 4, endTime := 0, startSize := 50, endSize := 50,
                             sizeFunction := "constant", selfingRate := 0, cloningRate := 0 }] }],
    migrations := [{ source := "A", dest := "B", startTime := .fin 4, endTime := 0, rate := 1/8 }],
    pulses := [], index := [("A", 0), ("B", 1)] }

/-- the hypotheses of the theorems hold for `growBranch`, which is not of constant sizes -/
example : validGraph growBranch = true ∧ MsExpressible growBranch = true ∧ PulsesTame growBranch = true
    ∧ ConstSizes growBranch = false := by decide +kernel

/-- the command of `to_ms growBranch 100`: `-n 1 2.0 -g 1 α -n 2 0.5 -m 2 1 50.0 -ej 0.01 2 1 -eg 0.025 1 0`
(`α = -ln(1/2) / (1/40)`) -/
example : ToMs.finalEvs (inGenerations growBranch) 100
    = [.popSizeChange "" (.fin 0) 1 (.fin 2), .popGrowthRateChange "" (.fin 0) 1 (.sym (1/2) (1/40)),
       .popSizeChange "" (.fin 0) 2 (.fin (1/2)), .migEntryChange "" (.fin 0) 2 1 (.fin 50),
       .join "" (.fin (1/100)) 2 1, .popGrowthRateChange "" (.fin (1/40)) 1 .zero] := by
  decide +kernel

/-- it has growth options, and what the theorems state of it is checked directly -/
example : (alphasOf (ToMs.finalEvs (inGenerations growBranch) 100)).length = 2 := by decide +kernel
example : (ToMs.finalEvs (inGenerations growBranch) 100).all evGB = true := by decide +kernel
example : Tame' (prOfV (fun _ => 0) (ToMs.headerOf (inGenerations growBranch) none)
    (ToMs.finalEvs (inGenerations growBranch) 100)) = true := by decide +kernel
example : groupsFragV (prOfV (fun _ => 0) (ToMs.headerOf (inGenerations growBranch) none)
      (ToMs.finalEvs (inGenerations growBranch) 100)).npop
    (cmdGroups (prOfV (fun _ => 0) (ToMs.headerOf (inGenerations growBranch) none)
      (ToMs.finalEvs (inGenerations growBranch) 100))) = true := by decide +kernel

/-- … and obtained from the theorems -/
example : ∀ e ∈ ToMs.finalEvs (inGenerations growBranch) 100, EvG e :=
  evG_toMs (by decide +kernel) (by decide +kernel) (by decide +kernel)
example (gv : Growth → Q) := tame_toMsV gv (graph := growBranch) (N0 := 100) (by decide +kernel) (by decide +kernel)
  (by decide +kernel) (by decide +kernel) none
example (gv : Growth → Q) := groupsFrag_toMsV gv (graph := growBranch) (N0 := 100) (by decide +kernel) (by decide +kernel)
  (by decide +kernel) (by decide +kernel) none

/-! `groupsFragV` is not vacuous: it fails on hand-written groups -/

/-- a growth-rate change of a population joined in the same group -/
example : groupsFragV 2 [[.setGrowth 1 2 1, .join 1 2 1]] = false := by decide +kernel
/-- … and the same options on different populations pass -/
example : groupsFragV 2 [[.setGrowth 1 1 1, .join 1 2 1]] = true := by decide +kernel
/-- a growth rate of population 0; at a negative time -/
example : groupsFragV 2 [[.setGrowth 0 0 1]] = false := by decide +kernel
example : groupsFragV 2 [[.setGrowth (-1) 1 1]] = false := by decide +kernel
/-- the failures of `MsAcc.groupsFrag` remain -/
example : groupsFragV 2 [[.setSize 1 2 1 true, .join 1 2 1]] = false := by decide +kernel
example : groupsFragV 2 [[.split 1 1 (1/2), .join 1 2 2]] = false := by decide +kernel
example : groupsFragV 2 [[.setSize 0 1 0 false]] = false := by decide +kernel

#print axioms evG_of_evGB
#print axioms fragCmd_finalEvs
#print axioms groupFrag_group
#print axioms groupsFrag_finalEvsV
#print axioms groupsFrag_toMsV
#print axioms groupsFrag_toMsV3

end Demes.Proofs.MsGrow
