/-
  C09, first sentence — closed instances for `tame_finalEvs` / `evRT_finalEvs`: a graph that meets the
  hypotheses (two pulses at the time a deme with two ancestors is born, one of them into the newborn
  deme; a later pulse; a migration), and two graphs showing that each half of `PulsesTame` is needed.
-/
import DemesVerif.Proofs.MsRTTame2
import DemesVerif.Spec.Valid
namespace Demes.Proofs.MsRT
open Demes Demes.Ms Demes.Spec Demes.Spec.C07 Demes.Spec.C09
open Demes.Proofs.ToMs

/-- `C` is born at time 4 from `A` and `B` (which live on) -/
def admixDeme : Deme :=
  { name := "C", description := "", startTime := .fin 4, ancestors := ["A", "B"], proportions := [1/2, 1/2],
    epochs := [{ startTime := .fin 4, endTime := 0, startSize := 3, endSize := 3,
                 sizeFunction := "constant", selfingRate := 0, cloningRate := 0 }] }

def tameGraph (ps : List Pulse) : Graph :=
  { description := "", timeUnits := "generations", generationTime := 1, doi := [], metadata := [],
    demes := [constDeme "A" "" 1 0 0, constDeme "B" "" 2 0 0, admixDeme],
    migrations := [{ source := "A", dest := "B", startTime := .inf, endTime := 0, rate := 1/8 }],
    pulses := ps, index := [("A", 0), ("B", 1), ("C", 2)] }

/-- two pulses at time 4 (the second into the deme born at 4), one at time 2 -/
def okPulses : List Pulse :=
  [{ sources := ["A"], dest := "B", time := 4, proportions := [1/4] },
   { sources := ["A"], dest := "C", time := 4, proportions := [1/3] },
   { sources := ["B"], dest := "C", time := 2, proportions := [1/5] }]

/-- at time 4 the pulse listed first goes into `B`, the source of the pulse listed second -/
def chainPulses : List Pulse :=
  [{ sources := ["A"], dest := "B", time := 4, proportions := [1/4] },
   { sources := ["B"], dest := "C", time := 4, proportions := [1/3] }]

/-- a pulse of proportion 1 (F6) -/
def fullPulse : List Pulse :=
  [{ sources := ["A"], dest := "B", time := 4, proportions := [1] }]

/-- the hypotheses of `tame_toMs` / `evRT_toMs` are satisfiable -/
theorem tameGraph_hyps :
    validGraph (tameGraph okPulses) = true ∧ MsExpressible (tameGraph okPulses) = true
      ∧ ConstSizes (tameGraph okPulses) = true ∧ PulsesTame (tameGraph okPulses) = true := by decide +kernel

example : Demes.Spec.C08.Tame' (prOf (headerOf (inGenerations (tameGraph okPulses)) none)
    (finalEvs (inGenerations (tameGraph okPulses)) 1)) = true :=
  tame_toMs tameGraph_hyps.1 tameGraph_hyps.2.1 tameGraph_hyps.2.2.1 tameGraph_hyps.2.2.2 (by decide) none

example : ∀ e ∈ finalEvs (inGenerations (tameGraph okPulses)) 1, EvRT e :=
  evRT_toMs tameGraph_hyps.1 tameGraph_hyps.2.1 tameGraph_hyps.2.2.1 (by decide)

/-- the command of the example has `-es` / `-ej` options in two time groups, seven populations at the end -/
example : ((finalEvs (inGenerations (tameGraph okPulses)) 1).filter isSplitJoin).length = 9 := by decide +kernel

/-- **the second half of `PulsesTame` is needed**: a valid ms-expressible constant-size graph, all pulse
proportions below one, whose command is outside `Tame'` (`-es 1 3 … -ej 1 4 2 -es 1 2 …`: population 2
is split after it has received lineages at the same time) -/
theorem tame_needs_pulse_order :
    validGraph (tameGraph chainPulses) = true ∧ MsExpressible (tameGraph chainPulses) = true
      ∧ ConstSizes (tameGraph chainPulses) = true ∧ PulsesTame (tameGraph chainPulses) = false
      ∧ Demes.Spec.C08.Tame' (prOf (headerOf (inGenerations (tameGraph chainPulses)) none)
          (finalEvs (inGenerations (tameGraph chainPulses)) 1)) = false := by decide +kernel

/-- **the first half of `PulsesTame` is needed** (F6): a pulse of proportion 1 is printed `-es t i 0.0` -/
theorem tame_needs_pulse_below_one :
    validGraph (tameGraph fullPulse) = true ∧ MsExpressible (tameGraph fullPulse) = true
      ∧ ConstSizes (tameGraph fullPulse) = true ∧ PulsesTame (tameGraph fullPulse) = false
      ∧ Demes.Spec.C08.Tame' (prOf (headerOf (inGenerations (tameGraph fullPulse)) none)
          (finalEvs (inGenerations (tameGraph fullPulse)) 1)) = false := by decide +kernel

#print axioms tameGraph_hyps
#print axioms tame_needs_pulse_order
#print axioms tame_needs_pulse_below_one

end Demes.Proofs.MsRT
