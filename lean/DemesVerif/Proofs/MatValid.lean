/-
  C12: what `validGraph` gives, and the characterisation of the result of
  `migrationMatrices` on a valid graph.
-/
import DemesVerif.Proofs.MatFold
namespace Demes.Proofs
open Demes Demes.Spec

theorem pairwiseB_iff {α} (r : α → α → Bool) : ∀ l : List α,
    pairwiseB r l = true ↔ l.Pairwise (fun a b => r a b = true)
  | [] => by simp [pairwiseB]
  | x :: xs => by
    simp only [pairwiseB, Bool.and_eq_true, List.all_eq_true, List.pairwise_cons,
      pairwiseB_iff r xs]

theorem find?_congr' {α} {p q : α → Bool} : ∀ {l : List α}, (∀ x ∈ l, p x = q x) →
    l.find? p = l.find? q
  | [], _ => rfl
  | x :: xs, h => by
    rw [List.find?_cons, List.find?_cons, h x (by simp),
      find?_congr' (fun y hy => h y (by simp [hy]))]

/-- what C12 needs of the clauses V1, V6, V8, V9 -/
structure MigFacts (g : Graph) : Prop where
  nodup : (g.demes.map (·.name)).Nodup
  mig : ∀ m ∈ g.migrations, ∃ s d, findDeme g m.source = some s ∧ findDeme g m.dest = some d ∧
    ETime.fin m.endTime < m.startTime ∧ qmax s.endTime d.endTime ≤ m.endTime
  epochs : ∀ d ∈ g.demes, ∀ e ∈ d.epochs, 0 ≤ e.endTime
  disj : g.migrations.Pairwise (fun a b =>
    (!(a.source == b.source && a.dest == b.dest) || disjoint a b) = true)

/-- the clauses of `validGraph` used for C12 (the above and V10) -/
structure ValidFacts (g : Graph) : Prop extends MigFacts g where
  ingress : ∀ t ∈ boundaries g, ∀ d ∈ g.demes, ingressOk (ingressAt g d.name t) = true

theorem v10_iff (g : Graph) : v10 g = true ↔
    ∀ t ∈ boundaries g, ∀ d ∈ g.demes, ingressOk (ingressAt g d.name t) = true := by
  simp only [v10, List.all_eq_true]

theorem migFacts_of {g : Graph} (h1 : v1 g = true) (h6 : v6 g = true) (h8 : v8 g = true)
    (h9 : v9 g = true) : MigFacts g := by
  refine ⟨?_, ?_, ?_, ?_⟩
  · simp only [v1, Bool.and_eq_true, decide_eq_true_eq] at h1
    exact h1.2
  · intro m hm
    simp only [v8, List.all_eq_true] at h8
    have := h8 m hm
    simp only [Bool.and_eq_true] at this
    obtain ⟨_, this⟩ := this
    split at this
    · rename_i s d hs hd
      simp only [coexist, Bool.and_eq_true, decide_eq_true_eq] at this
      exact ⟨s, d, hs, hd, this.1.1.1.1, of_decide_eq_true this.1.1.1.2⟩
    · cases this
  · intro d hd e he
    simp only [v6, List.all_eq_true, Bool.and_eq_true, decide_eq_true_eq] at h6
    exact (h6 d hd e he).2
  · exact (pairwiseB_iff _ _).mp h9

theorem validFacts {g : Graph} (hv : validGraph g = true) : ValidFacts g := by
  simp only [validGraph, validData, Bool.and_eq_true] at hv
  obtain ⟨_, ⟨⟨⟨⟨⟨⟨⟨⟨⟨⟨⟨h1, _⟩, _⟩, _⟩, _⟩, h6⟩, h8⟩, h9⟩, h10⟩, _⟩, _⟩, _⟩⟩ := hv
  exact { toMigFacts := migFacts_of h1 h6 h8 h9, ingress := (v10_iff g).mp h10 }

theorem deme_end_nonneg {g : Graph} (hf : MigFacts g) {d : Deme} (hd : d ∈ g.demes) :
    0 ≤ d.endTime := by
  simp only [Deme.endTime, Deme.endTime?]
  cases h : d.epochs.getLast? with
  | none => simp
  | some e => simpa using hf.epochs d hd e (List.mem_of_getLast? h)

theorem mig_end_nonneg {g : Graph} (hf : MigFacts g) {m : Migration} (hm : m ∈ g.migrations) :
    0 ≤ m.endTime := by
  obtain ⟨s, d, hs, _, _, hlo⟩ := hf.mig m hm
  have := deme_end_nonneg hf (findDeme_some hs).1
  simp only [qmax] at hlo
  split at hlo <;> grind

theorem times_nonneg {g : Graph} (hf : MigFacts g) : ∀ x ∈ migrationTimes g.migrations, 0 ≤ x := by
  intro x hx
  obtain ⟨m, hm, h | h⟩ := (mem_migrationTimes _ _).mp hx
  · obtain ⟨_, _, _, _, hlt, _⟩ := hf.mig m hm
    have := mig_end_nonneg hf hm
    rw [h] at hlt
    simp only [fin_lt_fin] at hlt
    grind
  · rw [← h]; exact mig_end_nonneg hf hm

theorem get_zeroMatrix (n i j : Nat) : (zeroMatrix n).get i j = 0 := by
  simp only [Matrix.get, zeroMatrix, List.getD_eq_getElem?_getD, List.getElem?_replicate]
  split
  · simp only [Option.getD_some, List.getElem?_replicate]
    split <;> rfl
  · rfl

theorem good_of_valid {g : Graph} (hf : MigFacts g) {ends : List Q}
    (hmem : ∀ x, x ∈ migrationTimes g.migrations → x ∈ ends) {m : Migration}
    (hm : m ∈ g.migrations) : Good g ends m := by
  obtain ⟨s, d, hs, hd, _, _⟩ := hf.mig m hm
  obtain ⟨js, hjs, _⟩ := demeId_of_findDeme hf.nodup hs
  obtain ⟨jd, hjd, _⟩ := demeId_of_findDeme hf.nodup hd
  refine ⟨⟨?_, ?_⟩, ⟨js, hjs⟩, ⟨jd, hjd⟩⟩
  · exact hmem _ ((mem_migrationTimes _ _).mpr ⟨m, hm, Or.inr rfl⟩)
  · intro q hq
    exact hmem _ ((mem_migrationTimes _ _).mpr ⟨m, hm, Or.inl hq⟩)

theorem samePair_of_valid {g : Graph} (hf : MigFacts g) {ends : List Q}
    (hg : ∀ m ∈ g.migrations, Good g ends m) : g.migrations.Pairwise (SamePair g) := by
  refine List.Pairwise.imp_of_mem ?_ hf.disj
  intro a b ha hb hab h1 h2
  obtain ⟨_, ⟨s, hs⟩, ⟨d, hd⟩⟩ := hg a ha
  have hs' := hs; have hd' := hd
  rw [h1] at hs'; rw [h2] at hd'
  obtain ⟨x, hx, hxa⟩ := demeId_some hs
  obtain ⟨x', hx', hxb⟩ := demeId_some hs'
  obtain ⟨y, hy, hya⟩ := demeId_some hd
  obtain ⟨y', hy', hyb⟩ := demeId_some hd'
  rw [hx] at hx'; cases hx'
  rw [hy] at hy'; cases hy'
  simpa [← hxa, ← hxb, ← hya, ← hyb] using hab

/-- On a valid graph `migrationMatrices` succeeds with the expected end times, every matrix is
square of the size of the deme list, and every entry is the rate of the migration written
into it (`hit`), 0 if there is none. -/
theorem mm_main (g : Graph) (hf : MigFacts g) :
    ∃ mms, migrationMatrices g = .ok (mms, mmEndTimes g.migrations)
      ∧ mms.length = (mmEndTimes g.migrations).length
      ∧ (∀ mm ∈ mms, Shape g.demes.length mm)
      ∧ ∀ k mm i j, mms[k]? = some mm →
          mm.get i j = match g.migrations.find? (hit g (mmEndTimes g.migrations) k i j) with
            | some m => m.rate
            | none => 0 := by
  obtain ⟨_, _, hp, hmem⟩ := mmEndTimes_props g.migrations (times_nonneg hf)
  have hg : ∀ m ∈ g.migrations, Good g (mmEndTimes g.migrations) m :=
    fun m hm => good_of_valid hf (fun x hx => (hmem x).mpr (Or.inl hx)) hm
  have hinit : ∀ (k : Nat) mm, (List.replicate (mmEndTimes g.migrations).length
      (zeroMatrix g.demes.length))[k]? = some mm → mm = zeroMatrix g.demes.length := by
    intro k mm h
    exact (List.eq_of_mem_replicate (List.mem_of_getElem? h))
  obtain ⟨mms, hfold, hl, hsh, hget⟩ := fold_ok g (mmEndTimes g.migrations) hp g.migrations
    (List.replicate (mmEndTimes g.migrations).length (zeroMatrix g.demes.length))
    (by simp)
    (fun mm h => by rw [List.eq_of_mem_replicate h]; exact shape_zero _)
    hg (samePair_of_valid hf hg)
    (fun m _ k mm i j hk _ => by rw [hinit k mm hk]; exact get_zeroMatrix _ _ _)
  refine ⟨mms, ?_, hl, hsh, ?_⟩
  · have : migrationMatrices g =
        (g.migrations.foldlM (step g (mmEndTimes g.migrations))
          (List.replicate (mmEndTimes g.migrations).length (zeroMatrix g.demes.length))) >>=
          fun mms => pure (mms, mmEndTimes g.migrations) := rfl
    rw [this, hfold]; rfl
  · intro k mm i j hk
    have hk' : k < (mmEndTimes g.migrations).length := by
      rw [← hl]; exact (List.getElem?_eq_some_iff.mp hk).1
    have := hget k (zeroMatrix g.demes.length) mm i j
      (by simp [hk']) hk
    rw [get_zeroMatrix] at this; exact this

/-- the predicate of `rateAt` and the predicate "written into entry `(i, j)` of matrix `k`" agree -/
theorem hit_eq_rate_pred {g : Graph} (hf : MigFacts g) {ends : List Q} (hp : ends.Pairwise (· > ·))
    {t : Q} {k : Nat} (hk : intervalOf ends t = some k) {i j : Nat} {di dj : Deme}
    (hi : g.demes[i]? = some di) (hj : g.demes[j]? = some dj) {m : Migration}
    (hm : TimesIn ends m) :
    hit g ends k i j m = (m.source == dj.name && m.dest == di.name && activeAt m t) := by
  rw [Bool.eq_iff_iff]
  simp only [hit, Bool.and_eq_true, beq_iff_eq, demeId_eq_iff hf.nodup hi, demeId_eq_iff hf.nodup hj,
    cov_eq_active hp hk m hm]
  grind

/-- an entry of the matrix of the interval containing `t` is `rateAt … t` -/
theorem entry_eq {g : Graph} (hf : MigFacts g) {ends : List Q} (hp : ends.Pairwise (· > ·))
    (hmem : ∀ x, x ∈ ends ↔ (x ∈ migrationTimes g.migrations ∨ x = 0))
    {mms : List Matrix}
    (hget : ∀ k mm i j, mms[k]? = some mm →
          mm.get i j = match g.migrations.find? (hit g ends k i j) with
            | some m => m.rate
            | none => 0)
    {t : Q} {k : Nat} (hk : intervalOf ends t = some k) {mm : Matrix} (hmm : mms[k]? = some mm)
    {i j : Nat} {di dj : Deme} (hi : g.demes[i]? = some di) (hj : g.demes[j]? = some dj) :
    mm.get i j = rateAt g dj.name di.name t := by
  rw [hget k mm i j hmm, rateAt]
  have hc := find?_congr' (l := g.migrations) (p := hit g ends k i j)
    (q := fun m => m.source == dj.name && m.dest == di.name && activeAt m t)
    (fun m hm => hit_eq_rate_pred hf hp hk hi hj
      (good_of_valid hf (fun x hx => (hmem x).mpr (Or.inl hx)) hm).1)
  rw [hc]
  rfl

end Demes.Proofs
