/-
  C07 — `graphSem` on a valid graph in closed form.
-/
import DemesVerif.Proofs.ToMsSemRun
set_option linter.unusedSimpArgs false
set_option linter.unusedVariables false
namespace Demes.Proofs.ToMs
open Demes Demes.Ms Demes.Spec Demes.Spec.C07 Demes.Proofs.RV
open Demes.Spec.MsSem

/-! ### `Except String` loops -/

theorem mapM_okS {α β} {f : α → Except String β} {f' : α → β} :
    ∀ (l : List α), (∀ x ∈ l, f x = .ok (f' x)) → l.mapM f = .ok (l.map f')
  | [], _ => rfl
  | x :: l, h => by
    rw [List.mapM_cons, h x List.mem_cons_self, mapM_okS l (fun y hy => h y (List.mem_cons_of_mem _ hy))]
    rfl

theorem foldlM_okS {σ α} {f : σ → α → Except String σ} {f' : σ → α → σ} :
    ∀ (l : List α) (s : σ), (∀ s, ∀ x ∈ l, f s x = .ok (f' s x)) → l.foldlM f s = .ok (l.foldl f' s)
  | [], _, _ => rfl
  | x :: l, s, h => by
    rw [List.foldlM_cons, h s x List.mem_cons_self]
    simp only [bind, Except.bind, List.foldl_cons]
    exact foldlM_okS l _ (fun s y hy => h s y (List.mem_cons_of_mem _ hy))

/-! ### population numbers -/

def pidOf (g : Graph) (name : String) : Nat := (g.demeId? name).getD 0 + 1

theorem idOf_eq_pidOf (g : Graph) (name : String) : idOf g name = ((pidOf g name : Nat) : Int) := by
  simp [idOf, pidOf]

theorem popId_ok {g : Graph} (hn : (g.demes.map (·.name)).Nodup) {name : String} (h : (g.demeId? name).isSome = true) :
    popId (g.demes.map (·.name)) name = .ok (pidOf g name) := by
  cases hj : g.demeId? name with
  | none => rw [hj] at h; cases h
  | some j =>
    obtain ⟨d, hd, hname⟩ := demeId_some hj
    have hlt : j < g.demes.length := (List.getElem?_eq_some_iff.mp hd).1
    have hdj : g.demes[j] = d := (List.getElem?_eq_some_iff.mp hd).2
    have hfi : (g.demes.map (·.name)).findIdx? (· = name) = some j := by
      rw [List.findIdx?_eq_some_iff_getElem]
      refine ⟨by simpa using hlt, by simp [hdj, hname], ?_⟩
      intro k hk hp
      simp only [List.getElem_map, decide_eq_true_eq] at hp
      have hk' : k < g.demes.length := by omega
      have h1 : (g.demes.map (·.name))[k]? = (g.demes.map (·.name))[j]? := by
        simp [List.getElem?_map, List.getElem?_eq_getElem hk', List.getElem?_eq_getElem hlt, hp, hdj, hname]
      rw [List.getElem?_inj (by simpa using hk') hn] at h1
      omega
    simp [popId, hfi, pidOf, hj, pure, Except.pure]

/-! ### the closed form -/

def segOf (e : Epoch) : Seg :=
  { t0 := e.endTime, t1 := e.startTime, size := Sz.ofQ e.endSize, growth := none,
    sizeOld := some (Sz.ofQ e.startSize), fn := e.sizeFunction }

def gPopOf (g : Graph) (d : Deme) : PopSem :=
  { id := pidOf g d.name, lo := d.endTime, hi := d.startTime, segs := d.epochs.reverse.map segOf }

def gRaw (g : Graph) : List MigSeg :=
  g.migrations.map (fun m => { dest := pidOf g m.dest, source := pidOf g m.source, t0 := m.endTime, t1 := m.startTime, rate := m.rate })

def mergeStep (acc : List MigSeg) (m : MigSeg) : List MigSeg :=
  match acc.getLast? with
  | some last =>
    if last.t1 = ETime.fin m.t0 && last.rate = m.rate then acc.dropLast ++ [{ last with t1 := m.t1 }] else acc ++ [m]
  | none => [m]

def gMigsOf (raw : List MigSeg) (n : Nat) : List MigSeg :=
  (List.range n).flatMap (fun i => (List.range n).flatMap (fun j =>
    let mine := ((raw.filter (fun m => m.dest = i + 1 && m.source = j + 1 && m.rate ≠ 0)).foldr insertMig [])
    mine.foldl mergeStep []))

def gTimes (g : Graph) : List Q :=
  (g.pulses.map (·.time) ++ g.demes.filterMap (fun d => match d.startTime with | .fin t => some t | .inf => none)).foldr
    (fun t acc => if acc.contains t then acc else Demes.Ms.insertBy (fun a b => decide (a ≤ b)) t acc) []

def pulseRowStep (g : Graph) (L : List (Nat × Row)) (p : Pulse) : List (Nat × Row) :=
  L.map (fun (ir : Nat × Row) =>
    let m := ir.2.get (pidOf g p.dest)
    if m = 0 then ir else
    (ir.1, ((p.sources.map (pidOf g)).zip p.proportions).foldl (fun (r : Row) sp => r.add sp.1 (m * sp.2))
      (ir.2.set (pidOf g p.dest) (m * (1 - p.proportions.foldl (· + ·) 0)))))

def bornRowStep (g : Graph) (L : List (Nat × Row)) (d : Deme) : List (Nat × Row) :=
  L.map (fun (ir : Nat × Row) =>
    let m := ir.2.get (pidOf g d.name)
    if m = 0 then ir else
    (ir.1, ((d.ancestors.map (pidOf g)).zip d.proportions).foldl (fun (r : Row) ap => r.add ap.1 (m * ap.2))
      (ir.2.set (pidOf g d.name) 0)))

def gRowsAt (g : Graph) (T : Q) : List (Nat × Row) :=
  let L0 : List (Nat × Row) := (g.demes.filter (fun d => decide (d.endTime < T) && decide (ETime.fin T ≤ d.startTime))).map
    (fun d => (pidOf g d.name, [(pidOf g d.name, (1 : Q))]))
  let L1 := ((g.pulses.filter (fun p => p.time = T)).reverse).foldl (pulseRowStep g) L0
  (g.demes.filter (fun d => d.startTime = ETime.fin T)).foldl (bornRowStep g) L1

def gMoves (g : Graph) : List Move :=
  ((gTimes g).map (fun T => ({ time := T, rows := canonRows (gRowsAt g T) } : Move))).filter (fun m => !m.rows.isEmpty)

def gSem (g : Graph) : DemogSem :=
  { pops := (sortKey ((g.demes.map (gPopOf g)).map (fun p => (p.id, p)))).map (·.2),
    migs := gMigsOf (gRaw g) g.demes.length,
    moves := gMoves g }

/-! the do-block of `graphSemWith`, with its loop bodies named -/

def popM (names : List String) (d : Deme) : Except String PopSem := do
  let id ← popId names d.name
  let segs := d.epochs.reverse.map (fun (e : Epoch) =>
    ({ t0 := e.endTime, t1 := e.startTime, size := Sz.ofQ e.endSize, growth := none,
       sizeOld := some (Sz.ofQ e.startSize), fn := e.sizeFunction } : Seg))
  pure ({ id := id, lo := d.endTime, hi := d.startTime, segs := segs } : PopSem)

def rawM (names : List String) (m : Migration) : Except String MigSeg := do
  pure ({ dest := ← popId names m.dest, source := ← popId names m.source, t0 := m.endTime, t1 := m.startTime, rate := m.rate } : MigSeg)

def pulseM (names : List String) (L : List (Nat × Row)) (p : Pulse) : Except String (List (Nat × Row)) := do
  let dest ← popId names p.dest
  let srcs ← p.sources.mapM (popId names)
  let tot := p.proportions.foldl (· + ·) 0
  pure (L.map (fun (ir : Nat × Row) =>
    let m := ir.2.get dest
    if m = 0 then ir else
    (ir.1, (srcs.zip p.proportions).foldl (fun (r : Row) sp => r.add sp.1 (m * sp.2)) (ir.2.set dest (m * (1 - tot))))))

def bornM (names : List String) (L : List (Nat × Row)) (d : Deme) : Except String (List (Nat × Row)) := do
  let me ← popId names d.name
  let ancs ← d.ancestors.mapM (popId names)
  pure (L.map (fun (ir : Nat × Row) =>
    let m := ir.2.get me
    if m = 0 then ir else
    (ir.1, (ancs.zip d.proportions).foldl (fun (r : Row) ap => r.add ap.1 (m * ap.2)) (ir.2.set me 0))))

def row0M (names : List String) (d : Deme) : Except String (Nat × Row) := do
  let id ← popId names d.name
  pure (id, ([(id, (1 : Q))] : Row))

def moveM (g : Graph) (names : List String) (T : Q) : Except String Move := do
  let rowsD := g.demes.filter (fun d => decide (d.endTime < T) && decide (ETime.fin T ≤ d.startTime))
  let L0 ← rowsD.mapM (row0M names)
  let ps := (g.pulses.filter (fun p => p.time = T)).reverse
  let L1 ← ps.foldlM (pulseM names) L0
  let born := g.demes.filter (fun d => d.startTime = ETime.fin T)
  let L2 ← born.foldlM (bornM names) L1
  pure ({ time := T, rows := canonRows L2 } : Move)

theorem graphSem_eq (g : Graph) :
    graphSem g none = (do
      let names := g.demes.map (·.name)
      let pops ← g.demes.mapM (popM names)
      let pops := sortKey (pops.map (fun p => (p.id, p))) |>.map (·.2)
      let raw ← g.migrations.mapM (rawM names)
      let moves ← (gTimes g).mapM (moveM g names)
      pure { pops := pops, migs := gMigsOf raw names.length, moves := moves.filter (fun m => !m.rows.isEmpty) }) := rfl

theorem graphSem_ok {g : Graph} (c : Clauses g) (hx : MsExpressible g = true) : graphSem g none = .ok (gSem g) := by
  have hn := nodup_names c
  have hid : ∀ d ∈ g.demes, popId (g.demes.map (·.name)) d.name = .ok (pidOf g d.name) := fun d hd =>
    popId_ok hn (demeId_isSome_of_mem c hd)
  have hpops : g.demes.mapM (popM (g.demes.map (·.name))) = .ok (g.demes.map (gPopOf g)) := by
    apply mapM_okS
    intro d hd
    unfold popM
    rw [hid d hd]; rfl
  have hraw : g.migrations.mapM (rawM (g.demes.map (·.name))) = .ok (gRaw g) := by
    apply mapM_okS
    intro m hm
    have hok := migOk_of_valid c hm
    unfold rawM
    rw [popId_ok hn hok.destId, popId_ok hn hok.sourceId]; rfl
  have hmoves : (gTimes g).mapM (moveM g (g.demes.map (·.name)))
      = .ok ((gTimes g).map (fun T => ({ time := T, rows := canonRows (gRowsAt g T) } : Move))) := by
    apply mapM_okS
    intro T _
    unfold moveM
    have h0 : (g.demes.filter (fun (d : Deme) => decide (d.endTime < T) && decide (ETime.fin T ≤ d.startTime))).mapM
        (row0M (g.demes.map (·.name)))
        = .ok ((g.demes.filter (fun (d : Deme) => decide (d.endTime < T) && decide (ETime.fin T ≤ d.startTime))).map
          (fun (d : Deme) => (pidOf g d.name, ([(pidOf g d.name, (1 : Q))] : Row)))) := by
      apply mapM_okS
      intro d hd
      unfold row0M
      rw [hid d (List.mem_filter.1 hd).1]; rfl
    dsimp only
    rw [h0]
    simp only [bind, Except.bind]
    rw [foldlM_okS (f' := pulseRowStep g)]
    · simp only []
      rw [foldlM_okS (f' := bornRowStep g)]
      · rfl
      · intro L d hd
        have hdm := (List.mem_filter.1 hd).1
        have hok := demeAncOk_of_valid c hdm
        unfold bornM
        rw [hid d hdm, mapM_okS (f' := pidOf g) d.ancestors (fun a ha => popId_ok hn (hok.anc a ha))]
        rfl
    · intro L p hp
      have hpm : p ∈ g.pulses := (List.mem_filter.1 (List.mem_reverse.1 hp)).1
      have hok := pulseOk_of_valid c hx hpm
      obtain ⟨s, hs, hsid⟩ := hok.src
      unfold pulseM
      rw [popId_ok hn hok.dest, mapM_okS (f' := pidOf g) p.sources (fun a ha => by
        rw [hs] at ha; simp only [List.mem_singleton] at ha; subst ha; exact popId_ok hn hsid)]
      rfl
  rw [graphSem_eq]
  simp only [hpops, hraw, hmoves, bind, Except.bind, pure, Except.pure, gSem, gMoves, List.length_map]

end Demes.Proofs.ToMs
