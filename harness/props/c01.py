"""C01 — every graph the library hands out is a valid fully-resolved Demes model."""
from __future__ import annotations

from props.resolve_common import *  # noqa: F401,F403

RULE = ("documents = generated valid models in random spellings + rule-targeted/random mutants of them, entered as dict, "
        "YAML text, JSON text and Builder calls; every graph returned (also by in_generations, rename_demes, load_all) "
        "is fed to the independent Lean validator Spec.validGraph with its real name index; a case is one document/route; "
        "non-trivial = the document was accepted and has > 1 deme or a migration or a pulse; distinct by canonical document")
ASSUMPTIONS = ["exact stream: all numbers dyadic so that double arithmetic is exact; NaN/inf/bool/None are injected by the mutation stream",
               "from_ms graphs are validated in the C08 check (the ms Model)"]
EXPLANATION = ("Theorem resolve_valid (for EVERY document: resolve d = ok g -> Spec.validGraph g) with corollaries load_valid, "
               "loadAll_valid, resolve_inGenerations_valid, resolve_rename_valid over the Lean Model of Graph.fromdict; Model tied "
               "to the code by exact comparison of accept/reject, the resolved dictionary and the name index on every document; "
               "the independent validator is run on the code's own outputs.")


def run(ctx):
    n = 360 if ctx.tier == "quick" else 4000
    done = 0
    while done < n and ctx.time_left() > 10:
        models = gen_models(ctx, min(120, n - done), max_demes=6 if ctx.tier == "quick" else 9)
        done += len(models)
        docs, tags = [], []
        for m in models:
            d = G.spell(m, ctx.rng, level=ctx.rng.choice([0, 0.5, 1]))
            docs.append(d); tags.append("valid_model")
            for _ in range(3):
                md, t = M.mutate(d, ctx.rng)
                docs.append(md); tags.append("mutant:" + t.split(":")[0])
            for _ in range(2):
                ov = G.overlap_variant(m, ctx.rng)
                if ov is not None:
                    docs.append(G.spell(ov[0], ctx.rng, level=ctx.rng.choice([0, 0.5]))); tags.append("overlap_variant")
        reps = model_resolve(ctx, docs)
        graphs, gdocs = [], []
        acc_items = []
        for d, t, rep in zip(docs, tags, reps):
            routes = ("dict", "builder") if ctx.rng.random() < 0.7 else ("dict", "yaml", "json", "builder")
            if not json_safe(d):
                routes = tuple(r for r in routes if r != "json")
            res = route_results(d, routes)
            code = res["dict"]
            g = code[2]
            ctx.count(show(canon_doc(d)), code[0] == "ok" and (len(g.demes) > 1 or g.migrations or g.pulses),
                      tags=[t, "accepted" if code[0] == "ok" else "rejected:" + code[1]])
            compare_with_model(ctx, d, code, rep)
            for r, c in res.items():
                if c[0] == "ok":
                    graphs.append(c[2]); gdocs.append({"route": r, "document": show(canon_doc(d))})
            if g is not None:
                g2 = g.in_generations()
                graphs.append(g2); gdocs.append({"route": "in_generations", "document": show(canon_doc(d))})
                names = [x.name for x in g.demes]
                rot = dict(zip(names, names[1:] + names[:1])) if len(names) > 1 else {names[0]: names[0] + "_r"}
                g3 = g.rename_demes(rot)
                graphs.append(g3); gdocs.append({"route": "rename_demes", "names": rot, "document": show(canon_doc(d))})
                acc_items += accessor_items(ctx, g, g2, g3, rot)
        check_valid(ctx, graphs, "returned graph", gdocs)
        check_accessors(ctx, acc_items)


# ---- the read accessors: Epoch.time_span, Deme.end_time, Deme.time_span, Graph.__getitem__, Graph.__contains__ ----------------
# (Model/Accessors.lean through the driver op `accessors`; theorems in Theorems/C01Accessors.lean)

ABSENT_NAMES = ["", "δ", "人口_0", "e\u0301", "no such deme", "A ", "__getitem__", "\u00b7x"]


def accessor_items(ctx, g, g_gen, g_rot, rot):
    """(graph, route, replaced old names) for a returned graph and its derivatives; one more derivative renames a random
    non-empty subset of the demes to fresh (partly non-ASCII) names, so that replaced old names are really gone"""
    names = [x.name for x in g.demes]
    k = ctx.rng.randint(1, len(names))
    chosen = ctx.rng.sample(names, k)
    fresh = {}
    for i, n in enumerate(chosen):
        new = ctx.rng.choice(["ν", "new_", "Ω", "z"]) + n + str(i)
        while new in names or new in fresh.values():
            new += "_"
        fresh[n] = new
    import time as _time
    t0 = _time.time()
    items = [(g, "fromdict", [])]
    # the two derivatives C01 builds anyway: every other one (keeps the quick tier within its budget)
    if ctx.tier != "quick" or ctx.rng.random() < 0.5:
        items.append((g_gen, "in_generations", []))
    if ctx.tier != "quick" or ctx.rng.random() < 0.5:
        items.append((g_rot, "rename_demes(rotation)", list(rot)))
    try:
        items.append((g.rename_demes(fresh), "rename_demes(fresh)", list(fresh)))
        ctx.extra["accessors_seconds"] = round(ctx.extra.get("accessors_seconds", 0) + _time.time() - t0, 4)
    except Exception as e:  # noqa: BLE001   (fresh identifiers, distinct: must be accepted)
        ctx.violation("rename_demes refuses distinct fresh identifiers", {"graph": show(canon(g.asdict())), "names": fresh},
                      detail=f"{type(e).__name__}: {e}")
    return items


def outcome(f):
    try:
        return {"ok": f()}
    except Exception as e:  # noqa: BLE001
        return {"err": type(e).__name__, "msg": (e.args[0] if e.args else None)}


def code_accessors(g, probes):
    """what the REAL accessors return"""
    pos = {id(x): i for i, x in enumerate(g.demes)}
    demes_out = [{"end_time": outcome(lambda: x.end_time), "time_span": outcome(lambda: x.time_span),
                  "epochs": [e.time_span for e in x.epochs]} for x in g.demes]
    lookups = []
    for n in probes:
        got = outcome(lambda: g[n])
        if "ok" in got:
            got = {"ok": {"pos": pos.get(id(got["ok"]), -1), "name": got["ok"].name}}
        lookups.append({"get": got, "contains": outcome(lambda: n in g).get("ok")})
    return {"demes": demes_out, "lookups": lookups}


def same_accessors(code, model):
    """the Model's reply (wire JSON) against the code's values, exactly"""
    def num_eq(c, m):
        return canon_eq(canon(c), dec(m))

    def out_eq(c, m, val):
        if "ok" in c:
            return "ok" in m and val(c["ok"], m["ok"])
        return m.get("err") == c["err"] or (m.get("err") == "Error" and str(m.get("msg", "")).startswith(c["err"]))
    if len(code["demes"]) != len(model["demes"]) or len(code["lookups"]) != len(model["lookups"]):
        return False
    for c, m in zip(code["demes"], model["demes"]):
        if not (out_eq(c["end_time"], m["end_time"], num_eq) and out_eq(c["time_span"], m["time_span"], num_eq)
                and len(c["epochs"]) == len(m["epochs"]) and all(num_eq(a, b) for a, b in zip(c["epochs"], m["epochs"]))):
            return False
    for c, m in zip(code["lookups"], model["lookups"]):
        if c["contains"] is not m["contains"]:
            return False
        if not out_eq(c["get"], m["get"], lambda a, b: a == {"pos": int(dec(b["pos"])) if b["pos"] is not None else None, "name": b["name"]}):
            return False
        if "err" in c["get"] and (c["get"]["err"] != "KeyError" or c["get"]["msg"] != m["get"].get("msg")):
            return False
    return True


def accessor_oracle(g, ad, probes, code):
    """the property read directly off the real behaviour (`ad` = g.asdict()); returns a description of the first breach or None"""
    from fractions import Fraction
    names = [x.name for x in g.demes]
    for x, c in zip(g.demes, code["demes"]):
        et, ts = c["end_time"], c["time_span"]
        if "ok" not in et or "ok" not in ts:
            return f"raised: deme {x.name!r}: end_time / time_span raised: {et} {ts}"
        et, ts = et["ok"], ts["ok"]
        last = ad["demes"][names.index(x.name)]["epochs"][-1]["end_time"]
        if not (et == last and et >= 0 and math.isfinite(et)):
            return f"end_time: deme {x.name!r}: end_time {et!r} is not the finite, non-negative end {last!r} of its last epoch"
        if not (ts > 0 and ts == x.start_time - last and math.isinf(ts) == (len(x.ancestors) == 0)):
            return f"time_span: deme {x.name!r}: time_span {ts!r} (start {x.start_time!r}, end {last!r}, ancestors {x.ancestors!r})"
        if not all(s > 0 for s in c["epochs"]):
            return f"epoch time_span: deme {x.name!r}: an epoch's time_span is not positive: {c['epochs']!r}"
        if math.isinf(ts) != any(math.isinf(s) for s in c["epochs"]) or \
                (not math.isinf(ts) and sum(Fraction(s) for s in c["epochs"]) != Fraction(ts)):
            return f"sum of epoch time spans: deme {x.name!r}: the epochs' time spans {c['epochs']!r} do not add up to the deme's {ts!r}"
    for n, c in zip(probes, code["lookups"]):
        if n in names:
            i = names.index(n)
            if c["contains"] is not True or c["get"] != {"ok": {"pos": i, "name": n}}:
                return f"lookup of a deme name: name {n!r} of deme {i}: `in` gives {c['contains']!r}, lookup gives {c['get']!r}"
        elif c["contains"] is not False or c["get"].get("err") != "KeyError":
            return f"lookup of an absent name: {n!r} is not a deme name: `in` gives {c['contains']!r}, lookup gives {c['get']!r}"
    return None


def check_accessors(ctx, items):
    import time as _time
    t0 = _time.time()
    reqs, codes, probes_all, ads = [], [], [], []
    for g, _route, replaced in items:
        names = [x.name for x in g.demes]
        probes = list(names)
        for n in list(replaced) + ctx.rng.sample(ABSENT_NAMES, 3) + [""] + [names[-1] + "_", names[0][:-1], names[0].swapcase()]:
            if n not in probes:
                probes.append(n)
        probes_all.append(probes)
        codes.append(code_accessors(g, probes))
        ads.append(g.asdict())
        reqs.append({"op": "accessors", "graph": enc(ads[-1]), "index": index_of(g), "names": probes})
    reps = ctx.driver.batch(reqs)
    for (g, route, replaced), probes, code, rep, ad in zip(items, probes_all, codes, reps, ads):
        case = None
        ctx.compared += 1
        ctx.dist["accessors:" + route] += 1
        model = rep.get("ok")
        if model is None or not same_accessors(code, model):
            case = {"route": route, "graph": show(canon(ad)), "index": index_of(g), "names": probes}
            ctx.disagreement("accessors", case, show_acc(code), rep)
        bad = accessor_oracle(g, ad, probes, code)
        if bad is None and any(n in g for n in replaced if n not in [x.name for x in g.demes]):
            bad = "replaced old name: a replaced old name is still in the renamed graph"
        if bad is not None:
            case = case or {"route": route, "graph": show(canon(ad)), "index": index_of(g), "names": probes}
            ctx.violation("accessor of a returned graph disagrees with the data model: " + bad.split(":")[0], case, detail=bad,
                          python=("/venv/bin/python -c \"import demes, math; inf=math.inf; "
                                  f"g=demes.Graph.fromdict({ad!r}); "
                                  "print([(d.name, d.end_time, d.time_span, [e.time_span for e in d.epochs], d.name in g, g[d.name].name) for d in g.demes])\""))
    ctx.extra["accessors_seconds"] = round(ctx.extra.get("accessors_seconds", 0) + _time.time() - t0, 4)
    ctx.extra["accessors_graphs"] = ctx.extra.get("accessors_graphs", 0) + len(items)


def show_acc(code):
    def o(x):
        return {"ok": show(canon(x["ok"]))} if "ok" in x and not isinstance(x["ok"], dict) else x
    return {"demes": [{"end_time": o(c["end_time"]), "time_span": o(c["time_span"]), "epochs": show(canon(c["epochs"]))} for c in code["demes"]],
            "lookups": code["lookups"]}


def replay(ctx, payload):
    doc = payload["input"].get("document")
    print("implementation:", {r: c[:2] if c[0] == "err" else "accepted" for r, c in route_results(plain_doc(doc)).items()})
    print("model:", model_resolve(ctx, [plain_doc(doc)])[0])
    return 0


def plain_doc(shown):
    """inverse of wire.show for replay files"""
    from fractions import Fraction
    if isinstance(shown, str):
        if shown == "Infinity":
            return math.inf
        if shown == "-Infinity":
            return -math.inf
        if shown == "NaN":
            return math.nan
        if "/" in shown:
            try:
                return float(Fraction(shown))
            except ValueError:
                return shown
        return shown
    if isinstance(shown, list):
        return [plain_doc(x) for x in shown]
    if isinstance(shown, dict):
        return {k: plain_doc(v) for k, v in shown.items()}
    return shown
