/-
  Wire format between the Python harness and the Lean driver (one JSON value per line).

    null | true | false | "string" | [ ... ] | {"n": "p/q" | "inf" | "-inf" | "nan"}
    | {"o": [[key, value], ...]}         -- ordered mapping
-/
import Lean.Data.Json
import DemesVerif.Model.Dict
namespace Demes.Wire
open Lean

def parseRat (s : String) : Option Rat :=
  match s.splitOn "/" with
  | [a] => a.toInt?.map (fun i => (i : Rat))
  | [a, b] => do
    let i ← a.toInt?
    let d ← b.toNat?
    if d = 0 then none else some (mkRat i d)
  | _ => none

def parseNum (s : String) : Option Num :=
  if s = "inf" then some .pinf
  else if s = "-inf" then some .ninf
  else if s = "nan" then some .nan
  else (parseRat s).map Num.fin

def ratToString (q : Rat) : String :=
  if q.den = 1 then toString q.num else s!"{q.num}/{q.den}"

def numToString : Num → String
  | .fin q => ratToString q
  | .pinf => "inf"
  | .ninf => "-inf"
  | .nan => "nan"

partial def toValue (j : Json) : Except String Value :=
  match j with
  | .null => pure .null
  | .bool b => pure (.bool b)
  | .str s => pure (.str s)
  | .num n =>
    -- bare JSON numbers are accepted for convenience (integers / decimals)
    pure (.num (.fin (mkRat n.mantissa (10 ^ n.exponent))))
  | .arr xs => do
    let ys ← xs.toList.mapM toValue
    pure (.list ys)
  | .obj _ =>
    match j.getObjVal? "n" with
    | .ok (.str s) =>
      match parseNum s with
      | some n => pure (.num n)
      | none => throw s!"bad number {s}"
    | _ =>
      match j.getObjVal? "o" with
      | .ok (.arr kvs) => do
        let ys ← kvs.toList.mapM (fun kv =>
          match kv with
          | .arr #[.str k, v] => do let v' ← toValue v; pure (k, v')
          | _ => throw "bad pair")
        pure (.obj ys)
      | _ => throw "bad object"

partial def ofValue (v : Value) : Json :=
  match v with
  | .null => .null
  | .bool b => .bool b
  | .str s => .str s
  | .num n => Json.mkObj [("n", .str (numToString n))]
  | .list xs => .arr (xs.map ofValue).toArray
  | .obj kvs => Json.mkObj [("o", .arr (kvs.map (fun (k, v) => Json.arr #[.str k, ofValue v])).toArray)]

def qJ (q : Rat) : Json := Json.mkObj [("n", .str (ratToString q))]
def tJ (t : ETime) : Json := Json.mkObj [("n", .str (numToString (Num.ofETime t)))]

def errKindStr : ErrKind → String
  | .type => "TypeError" | .value => "ValueError" | .key => "KeyError" | .other => "Error"

def errJ (e : Err) : Json := Json.mkObj [("err", .str (errKindStr e.kind)), ("msg", .str e.msg)]
def okJ (j : Json) : Json := Json.mkObj [("ok", j)]

end Demes.Wire
