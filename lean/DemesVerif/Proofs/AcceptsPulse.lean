import DemesVerif.Proofs.AcceptsBasic
import DemesVerif.Proofs.FillDeme
namespace Demes.Proofs.Accepts
open Demes Demes.Obj Demes.Spec

/-- an early `if c then valueErr …` exit that was not taken -/
theorem ite_err_ok {α} {c : Prop} [Decidable c] {m : String} {jp : Unit → Except Err α} {r : α}
    (h : (if c then ((valueErr m : Except Err Unit) >>= jp) else jp ()) = .ok r) : ¬ c ∧ jp () = .ok r := by
  split at h
  · cases h
  · exact ⟨‹_›, h⟩

theorem addPulse_inv {g g' : Graph} {sv dv tv pv : Value} (h : addPulse g sv dv tv pv = .ok g') :
    ∃ srcVals sources dest time propVals proportions,
      instList sv = .ok srcVals ∧ srcVals.mapM (existingName g) = .ok sources ∧
      existingName g dv = .ok dest ∧ posFiniteQ tv = .ok time ∧ instList pv = .ok propVals ∧
      propVals.mapM unitExLoQ = .ok proportions ∧
      g' = { g with pulses := g.pulses ++ [{ sources, dest, time, proportions }] } := by
  unfold addPulse at h
  obtain ⟨srcVals, h1, h⟩ := Proofs.bind_ok h
  obtain ⟨sources, h2, h⟩ := Proofs.bind_ok h
  obtain ⟨dest, h3, h⟩ := Proofs.bind_ok h
  obtain ⟨_, _, h⟩ := Proofs.bind_ok h
  obtain ⟨destDeme, _, h⟩ := Proofs.bind_ok h
  obtain ⟨_, h⟩ := ite_err_ok h
  obtain ⟨_, _, h⟩ := Proofs.bind_ok h
  obtain ⟨_, h⟩ := ite_err_ok h
  obtain ⟨_, h⟩ := ite_err_ok h
  obtain ⟨_, h⟩ := ite_err_ok h
  obtain ⟨time, h4, h⟩ := Proofs.bind_ok h
  obtain ⟨propVals, h5, h⟩ := Proofs.bind_ok h
  obtain ⟨proportions, h6, h⟩ := Proofs.bind_ok h
  obtain ⟨_, h⟩ := ite_err_ok h
  obtain ⟨_, h⟩ := ite_err_ok h
  obtain ⟨_, h⟩ := ite_err_ok h
  split at h
  · cases h
  · cases h
    exact ⟨_, _, _, _, _, _, h1, h2, h3, h4, h5, h6, rfl⟩

/-- soundness of one iteration of the pulse loop -/
theorem resolvePulse_fill {PD : Obj} {g g' : Graph} {p : Obj} (h : resolvePulse PD g p = .ok g') :
    onlyFields pulseFields p = true ∧
      ∃ pu, fillPulse PD p = some pu ∧ g' = { g with pulses := g.pulses ++ [pu] } := by
  unfold resolvePulse at h
  obtain ⟨u, hca, h⟩ := Proofs.bind_ok h
  cases u
  refine ⟨by rw [pulseFields_eq]; exact (checkAllowed_iff_onlyFields p _).1 hca, ?_⟩
  simp only [Proofs.lookup_insertDefaults_eff] at h
  split at h
  · rename_i s d t pr hs hd ht hpr
    obtain ⟨srcVals, sources, dest, time, propVals, proportions, h1, h2, h3, h4, h5, h6, rfl⟩ :=
      addPulse_inv h
    refine ⟨{ sources, dest, time, proportions }, ?_, rfl⟩
    have e1 : strsOf s = some sources := by
      rw [strsOf_eq_some, listOf_eq_some.1 ((instList_ok_iff _ _).1 h1), (Proofs.mapM_existingName h2).1]
    have e2 : strOf d = some dest := strOf_eq_some.2 (Proofs.existingName_ok h3).1
    have e3 : finOf t = some time := ((posFiniteQ_ok_iff _ _).1 h4).1
    have e4 : finsOf pr = some proportions := by
      rw [listOf_eq_some.1 ((instList_ok_iff _ _).1 h5)]
      exact ((mapM_ok_iff unitExLoQ finOf _ unitExLoQ_ok_iff _ _).1 h6).1
    simp only [fillPulse, hs, hd, ht, hpr, Option.bind_some, e1, e2, e3, e4, bind, pure]
  · cases h

/-- `PulseOk` only looks at the demes and the name index -/
theorem pulseOk_congr {G G' : Graph} {p : Pulse} {dd : Deme} (h : Asdict.PulseOk G p dd)
    (hd : G'.demes = G.demes) (hi : G'.index = G.index) : Asdict.PulseOk G' p dd := by
  have e : ∀ a, G'.deme? a = G.deme? a := by
    intro a
    simp only [Graph.deme?, Graph.indexLookup, hd, hi]
  exact ⟨by rw [e]; exact h.dst, fun s hs => by rw [e]; exact h.srcs s hs, h.notEnd, h.srcIds, h.dstId,
    h.nonempty, h.pos, h.props, h.notDest, h.nodup, h.len, h.sum⟩

/-- `addPulse` on arbitrary raw values that read to the fields of `pu` -/
theorem addPulse_complete {g : Graph} {pu : Pulse} {dd : Deme} {sv dv tv pv : Value}
    (hs : strsOf sv = some pu.sources) (hd : strOf dv = some pu.dest) (ht : finOf tv = some pu.time)
    (hp : finsOf pv = some pu.proportions) (h : Asdict.PulseOk g pu dd) :
    addPulse g sv dv tv pv = .ok { g with pulses := g.pulses ++ [pu] } := by
  rw [strsOf_eq_some] at hs
  rw [strOf_eq_some] at hd
  subst hs hd
  obtain ⟨xs, hl, hxs⟩ := obind_some' hp
  rw [listOf_eq_some] at hl
  subst hl
  have e1 : (pu.sources.map Value.str).mapM (existingName g) = .ok pu.sources :=
    Asdict.mapM_map_ok_id _ _ _ (fun a ha => by
      obtain ⟨sd, h1, _⟩ := h.srcs a ha
      simp only [existingName, Asdict.hasName_of_deme? h1, if_true]; rfl)
  have e2 : existingName g (.str pu.dest) = .ok pu.dest := by
    simp only [existingName, Asdict.hasName_of_deme? h.dst, if_true]; rfl
  have a1 : tv.asNumRaw? = some (Num.fin pu.time) := asNumRaw_of_finOf ht
  have f1 : pu.sources.forM (fun s => discard (timeIntersection g s pu.dest (some tv))) = .ok () :=
    Asdict.forM_ok _ _ (fun s hs => by
      obtain ⟨sd, h1, h2, h3, _⟩ := h.srcs s hs
      simp only [timeIntersection, getDeme, h1, h.dst, Asdict.pure_bind', a1, Asdict.num_le_fin_ofETime,
        Asdict.num_le_fin, decide_eq_true h2, decide_eq_true h3, Bool.and_self, if_true]
      rfl)
  have f2 : pu.sources.forM (fun s => do
      let sd ← getDeme g s
      if some (Num.fin pu.time) = some (Num.ofETime sd.startTime) then
        valueErr "invalid pulse at source's start_time" else pure ()) = .ok () :=
    Asdict.forM_ok _ _ (fun s hs => by
      obtain ⟨sd, h1, _, _, h4⟩ := h.srcs s hs
      have : ¬ (some (Num.fin pu.time) = some (Num.ofETime sd.startTime)) := by
        rw [Option.some.injEq, Asdict.fin_eq_ofETime]; exact h4
      simp only [getDeme, h1, Asdict.pure_bind', if_neg this]; rfl)
  have hne : ¬ (some (Num.fin pu.time) = some (Num.fin dd.endTime)) := by
    rw [Option.some.injEq, Num.fin.injEq]; exact h.notEnd
  have hall : pu.sources.all isIdentifier = true := List.all_eq_true.2 h.srcIds
  have htime : posFiniteQ tv = .ok pu.time := (posFiniteQ_ok_iff _ _).2 ⟨ht, h.pos⟩
  have hprops : xs.mapM unitExLoQ = .ok pu.proportions :=
    (mapM_ok_iff unitExLoQ finOf _ unitExLoQ_ok_iff _ _).2 ⟨hxs, h.props⟩
  have hsum : ¬ (qsum pu.proportions > 1) := by rw [Asdict.qsum_eq]; have := h.sum; grind
  have hgd : getDeme g pu.dest = .ok dd := by simp only [getDeme, h.dst]; rfl
  unfold addPulse
  simp only [Asdict.instList_list, Asdict.bind_ok, e1, e2, f1, hgd, a1, if_neg hne, f2,
    hall, Bool.not_true, Bool.false_eq_true, ↓reduceIte, h.nonempty, h.dstId, htime, hprops,
    h.notDest, h.nodup, decide_true, h.len, ne_eq, not_true_eq_false, if_neg hsum]
  rfl

/-- completeness of one iteration -/
theorem resolvePulse_complete {PD : Obj} {g : Graph} {p : Obj} {pu : Pulse} {dd : Deme}
    (hca : onlyFields pulseFields p = true) (hf : fillPulse PD p = some pu)
    (hok : Asdict.PulseOk g pu dd) :
    resolvePulse PD g p = .ok { g with pulses := g.pulses ++ [pu] } := by
  unfold fillPulse at hf
  obtain ⟨sources, hs, hf⟩ := obind_some hf
  obtain ⟨dest, hd, hf⟩ := obind_some hf
  obtain ⟨time, ht, hf⟩ := obind_some hf
  obtain ⟨proportions, hp, hf⟩ := obind_some hf
  cases hf
  obtain ⟨sv, hs, hs'⟩ := obind_some' hs
  obtain ⟨dv, hd, hd'⟩ := obind_some' hd
  obtain ⟨tv, ht, ht'⟩ := obind_some' ht
  obtain ⟨pv, hp, hp'⟩ := obind_some' hp
  have hca' : checkAllowed p allowedPulse = .ok () := by
    rw [checkAllowed_iff_onlyFields, ← pulseFields_eq]; exact hca
  unfold resolvePulse
  simp only [hca', Asdict.bind_ok, Proofs.lookup_insertDefaults_eff, hs, hd, ht, hp]
  exact addPulse_complete hs' hd' ht' hp' hok

/-- the loops -/
theorem pulses_fill {PD : Obj} : ∀ (ps : List Obj) (g g' : Graph),
    ps.foldlM (resolvePulse PD) g = .ok g' →
    (∀ p ∈ ps, onlyFields pulseFields p = true) ∧
      ∃ pus, mapOpt (fillPulse PD) ps = some pus ∧ g' = { g with pulses := g.pulses ++ pus } := by
  intro ps
  induction ps with
  | nil =>
    intro g g' h
    cases h
    exact ⟨fun _ h => (by cases h), [], rfl, by simp only [List.append_nil]⟩
  | cons p ps ih =>
    intro g g' h
    rw [List.foldlM_cons] at h
    obtain ⟨g1, h1, h⟩ := Proofs.bind_ok h
    obtain ⟨hca, pu, hpu, rfl⟩ := resolvePulse_fill h1
    obtain ⟨hall, pus, hpus, rfl⟩ := ih _ _ h
    refine ⟨?_, pu :: pus, mapOpt_cons_some.2 ⟨pu, pus, hpu, hpus, rfl⟩, ?_⟩
    · intro q hq
      rcases List.mem_cons.1 hq with rfl | hq
      · exact hca
      · exact hall q hq
    · simp only [List.append_assoc, List.singleton_append]

theorem pulses_complete {PD : Obj} : ∀ (ps : List Obj) (pus : List Pulse) (g : Graph),
    (∀ p ∈ ps, onlyFields pulseFields p = true) → mapOpt (fillPulse PD) ps = some pus →
    (∀ pu ∈ pus, ∃ dd, Asdict.PulseOk g pu dd) →
    ps.foldlM (resolvePulse PD) g = .ok { g with pulses := g.pulses ++ pus } := by
  intro ps
  induction ps with
  | nil =>
    intro pus g _ hm _
    cases hm
    simp only [List.append_nil]
    rfl
  | cons p ps ih =>
    intro pus g hca hm hok
    obtain ⟨pu, pus', hpu, hpus, rfl⟩ := mapOpt_cons_some.1 hm
    obtain ⟨dd, hdd⟩ := hok pu List.mem_cons_self
    rw [List.foldlM_cons, resolvePulse_complete (hca p List.mem_cons_self) hpu hdd, Proofs.ok_bind,
      ih pus' _ (fun q hq => hca q (List.mem_cons_of_mem _ hq)) hpus
        (fun q hq => by
          obtain ⟨dq, hq'⟩ := hok q (List.mem_cons_of_mem _ hq)
          exact ⟨dq, pulseOk_congr hq' rfl rfl⟩)]
    simp only [List.append_assoc, List.singleton_append]

/-- non-vacuity of the reading hypotheses: a `bool` in a numeric position reads as 0/1, and a
missing field is taken from the defaults -/
example : fillPulse [("time", .bool true)]
      [("sources", .list [.str "a"]), ("dest", .str "b"), ("proportions", .list [.bool true])]
    = some { sources := ["a"], dest := "b", time := 1, proportions := [1] } := by decide +kernel


end Demes.Proofs.Accepts
