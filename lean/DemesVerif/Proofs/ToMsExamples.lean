/-
  C07 — concrete ms-expressible graphs for the non-vacuity examples.
-/
import DemesVerif.Spec.C07
namespace Demes.Proofs.ToMs
open Demes Demes.Ms Demes.Spec Demes.Spec.C07

def mkEpoch (st : ETime) (t s e : Q) (fn : String) : Epoch :=
  { startTime := st, endTime := t, startSize := s, endSize := e, sizeFunction := fn, selfingRate := 0, cloningRate := 0 }

/-- three demes in years (generation time 2): `A` with an exponential epoch, `B` branching off `A`,
`C` an admixture of `A` and `B`; a migration `A → B` switched on and off; a pulse `A → B` -/
def ex1 : Graph :=
  { description := "", timeUnits := "years", generationTime := 2, doi := [], metadata := [],
    demes := [
      { name := "A", description := "", startTime := .inf, ancestors := [], proportions := [],
        epochs := [mkEpoch .inf 120 100 100 "constant", mkEpoch (.fin 120) 0 100 200 "exponential"] },
      { name := "B", description := "", startTime := .fin 100, ancestors := ["A"], proportions := [1],
        epochs := [mkEpoch (.fin 100) 0 50 50 "constant"] },
      { name := "C", description := "", startTime := .fin 20, ancestors := ["A", "B"], proportions := [1/4, 3/4],
        epochs := [mkEpoch (.fin 20) 0 30 30 "constant"] }],
    migrations := [{ source := "A", dest := "B", startTime := .fin 80, endTime := 40, rate := 1/100 }],
    pulses := [{ sources := ["A"], dest := "B", time := 60, proportions := [1/10] }],
    index := [("A", 0), ("B", 1), ("C", 2)] }

/-- the same graph with a linear epoch -/
def ex1Linear : Graph :=
  { ex1 with demes := ex1.demes.map (fun d => { d with epochs := d.epochs.map (fun e =>
      if e.sizeFunction = "exponential" then { e with sizeFunction := "linear" } else e) }) }

/-- the same graph with a two-source pulse -/
def ex1TwoSources : Graph :=
  { ex1 with pulses := [{ sources := ["A", "C"], dest := "B", time := 10, proportions := [1/10, 1/10] }] }

/-- two demes: `B` splits off `A`, which goes extinct at the split -/
def exSplit : Graph :=
  { description := "", timeUnits := "generations", generationTime := 1, doi := [], metadata := [],
    demes := [
      { name := "A", description := "", startTime := .inf, ancestors := [], proportions := [],
        epochs := [mkEpoch .inf 50 100 100 "constant"] },
      { name := "B", description := "", startTime := .fin 50, ancestors := ["A"], proportions := [1],
        epochs := [mkEpoch (.fin 50) 0 200 200 "constant"] }],
    migrations := [], pulses := [], index := [("A", 0), ("B", 1)] }

/-- `ex1` with the admixture proportions of `C` summing to `1 + 2⁻⁴⁰` (valid: within 1e-9 of one) -/
def exInexact : Graph :=
  { ex1 with demes := ex1.demes.map (fun d =>
      if d.name = "C" then { d with proportions := [1/4, 3/4 + 1/1099511627776] } else d) }

end Demes.Proofs.ToMs
