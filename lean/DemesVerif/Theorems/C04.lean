/-
  C04 — dump then load reproduces the graph, in every format and style.

  Model: `DemesVerif/Model/LoadDump.lean` — `dump`, `dumpAll`, `load`, `loadAll` of
  demes/load_dump.py with the text layer (ruamel.yaml / `json`) abstracted into a `Codec Text`.
  The behaviour of that third-party layer enters ONLY through the hypothesis `CodecLaws c`
  (`Spec/C04.lean`), three laws stated on the smallest domain the theorems need:

  * `InCodecDomain fmt v`: `v = dumpValue fmt simplified g` for a valid graph `g` — the output of
    `Graph.asdict()` / `Graph.asdict_simplified()`, for JSON after `_stringify_infinities` and with
    `jsonSafe g` (no `inf`/`-inf`/`nan` inside the user's `metadata`, which `json.dump(...,
    allow_nan=False)` refuses to write);
  * `par_ser`: on that domain, serialising succeeds and parsing the text back with the parser of
    the same format returns the dictionary;
  * `parAll_serAll`: the same for a multi-document YAML stream of any length;
  * `yaml_reads_json`: the JSON text of such a dictionary parsed by the YAML parser is the same
    dictionary.

  `sameModel g g'`: `g'` equals `g` except that the migrations may come in another order (the
  same records as a multiset — only the simplified form reorders them) and `metadata` has gone
  through `coerce_types` (a `bool` became an `int`), exactly as in C05 / C06.  Hence
  (`sameModel_asdict`) the fully-resolved dictionaries are identical up to the order of the
  `migrations` list.

  Finding: the JSON round trip needs `jsonSafe g`; see `roundtrip_counterexample`.
-/
import DemesVerif.Proofs.RoundTrip
import DemesVerif.Proofs.SimplifyExamples
namespace Demes.Theorems
open Demes Demes.Spec

/-! ## what `sameModel` means -/

/-- field by field -/
theorem sameModel_iff (g g' : Graph) :
    sameModel g g' ↔
      g'.description = g.description ∧ g'.timeUnits = g.timeUnits
        ∧ g'.generationTime = g.generationTime ∧ g'.doi = g.doi
        ∧ g'.metadata = coerceO g.metadata ∧ g'.demes = g.demes
        ∧ g'.migrations.Perm g.migrations ∧ g'.pulses = g.pulses ∧ g'.index = g.index :=
  Proofs.sameModel_iff g g'

/-- the fully-resolved dictionaries are identical once the migrations are listed in the same
order -/
theorem sameModel_asdict {g g' : Graph} (h : sameModel g g') :
    Graph.asdict { g' with migrations := g.migrations } = Graph.asdict g :=
  Proofs.sameModel_asdict h

/-- the same model as a valid graph is valid -/
theorem sameModel_valid {g g' : Graph} (h : sameModel g g') (hv : validGraph g = true) :
    validGraph g' = true :=
  Proofs.sameModel_valid h hv

/-! ## the loader on the library's own YAML dictionary -/

/-- `load_asdict` applied to the dictionary written as YAML returns it unchanged: it has no null
outside `metadata` and no string "Infinity" at a start-time position (JSON counterpart:
`load_dump_json`, C16). -/
theorem load_dump_yaml (g : Graph) (simplified : Bool) :
    loadAsdictValue (dumpValue .yaml simplified g) = .ok (dumpValue .yaml simplified g) :=
  Proofs.load_dump_yaml g simplified

/-- resolving either dictionary of a valid graph gives the same model (C06 for the fully-resolved
form, C05 for the simplified form) -/
theorem resolve_dump_yaml (g : Graph) (hv : validGraph g = true) (simplified : Bool) :
    ∃ g', resolve (dumpValue .yaml simplified g) = .ok g' ∧ sameModel g g' :=
  Proofs.resolve_dump_yaml g hv simplified

/-! ## the domain of the codec laws -/

/-- the values `dump` / `dump_all` hand to the serialiser are in the domain of the laws — so the
hypothesis `CodecLaws` is used only where the harness tests it -/
theorem asdict_in_codec_domain (g : Graph) (hv : validGraph g = true) (fmt : Format)
    (simplified : Bool) (hj : fmt = .json → jsonSafe g = true) :
    InCodecDomain fmt (dumpValue fmt simplified g) :=
  Proofs.asdict_in_codec_domain g hv fmt simplified hj

/-- what the text layer is asked to handle: a mapping with a `demes` entry, no null outside
`metadata`, built from null, numbers, strings, lists and mappings only (no `bool`); for JSON
moreover no `inf`, `-inf` or `nan` anywhere -/
theorem codec_domain_shape (fmt : Format) (v : Value) (h : InCodecDomain fmt v) :
    ∃ kvs, v = .obj kvs ∧ Obj.contains "demes" kvs = true
      ∧ noNullObj (kvs.filter (fun kv => kv.1 ≠ "metadata")) = true
      ∧ (fmt = .json → hasNonFinite v = false) ∧ v.plain = true :=
  Proofs.codec_domain_shape fmt v h

/-- with JSON-safe metadata the whole JSON dictionary is strict (C16 gives "outside metadata") -/
theorem dump_json_strict (g : Graph) (simplified : Bool) (hj : jsonSafe g = true) :
    hasNonFinite (dumpValue .json simplified g) = false :=
  Proofs.dump_json_strict g simplified hj

/-! ## the round trips -/

/-- C04, single document — for every valid graph, format (YAML / JSON) and style (fully resolved /
simplified), `dump` succeeds and `load` of the text returns the same model.  For JSON the
metadata must be JSON-safe. -/
theorem roundtrip {Text} (c : Codec Text) (hc : CodecLaws c) (g : Graph) (hv : validGraph g = true)
    (fmt : Format) (simplified : Bool) (hj : fmt = .json → jsonSafe g = true) :
    ∃ t g', dump c fmt simplified g = some t ∧ load c fmt t = .ok g' ∧ sameModel g g' :=
  Proofs.roundtrip c hc g hv fmt simplified hj

/-- the same statement under the name the project's convention gives a theorem that carries an
excluding hypothesis (`hj`; its necessity is `roundtrip_counterexample`) -/
theorem roundtrip_partial {Text} (c : Codec Text) (hc : CodecLaws c) (g : Graph)
    (hv : validGraph g = true) (fmt : Format) (simplified : Bool)
    (hj : fmt = .json → jsonSafe g = true) :
    ∃ t g', dump c fmt simplified g = some t ∧ load c fmt t = .ok g' ∧ sameModel g g' :=
  Proofs.roundtrip c hc g hv fmt simplified hj

/-- for YAML nothing is asked of the metadata -/
theorem roundtrip_yaml {Text} (c : Codec Text) (hc : CodecLaws c) (g : Graph) (hv : validGraph g = true)
    (simplified : Bool) :
    ∃ t g', dump c .yaml simplified g = some t ∧ load c .yaml t = .ok g' ∧ sameModel g g' :=
  Proofs.roundtrip_yaml c hc g hv simplified

/-- The hypothesis `jsonSafe g` cannot be dropped: a codec satisfying the laws may — like the real
`json.dump(..., allow_nan=False)` — refuse to write a valid graph whose `metadata` holds an
infinite number (`Proofs.c16Graph`, metadata `{note: "Infinity", a: null, x: inf}`), in either
style; then there is no text to load back. -/
theorem roundtrip_counterexample :
    CodecLaws Proofs.strictCodec ∧ validGraph Proofs.c16Graph = true
      ∧ jsonSafe Proofs.c16Graph = false
      ∧ dump Proofs.strictCodec .json false Proofs.c16Graph = none
      ∧ dump Proofs.strictCodec .json true Proofs.c16Graph = none :=
  Proofs.roundtrip_counterexample

/-- C04, multi-document stream — for every list of valid graphs, of every length (0 included),
`dump_all` succeeds and `load_all` of the text returns, document by document, the same models. -/
theorem roundtrip_all {Text} (c : Codec Text) (hc : CodecLaws c) (simplified : Bool)
    (gs : List Graph) (hv : ∀ g ∈ gs, validGraph g = true) :
    ∃ t gs', dumpAll c simplified gs = some t ∧ loadAll c t = .ok gs'
      ∧ List.Forall₂ sameModel gs gs' :=
  Proofs.roundtrip_all c hc simplified gs hv

/-- C04, JSON through the YAML loader — the JSON text read with the YAML loader gives the same
model, indeed the same graph as the JSON loader. -/
theorem roundtrip_json_via_yaml {Text} (c : Codec Text) (hc : CodecLaws c) (g : Graph)
    (hv : validGraph g = true) (simplified : Bool) (hj : jsonSafe g = true) :
    ∃ t g', dump c .json simplified g = some t ∧ load c .yaml t = .ok g' ∧ sameModel g g'
      ∧ load c .json t = .ok g' :=
  Proofs.roundtrip_json_via_yaml c hc g hv simplified hj

/-! ## non-vacuity -/

section
open Proofs Proofs.C05

/-- `CodecLaws` is satisfiable: the identity codec (a text is the list of its documents) … -/
example : CodecLaws idCodec := idCodec_laws
/-- … and one whose JSON writer refuses non-finite numbers -/
example : CodecLaws strictCodec := strictCodec_laws

-- the hypotheses on the graph: `partial4` (C05) is valid and JSON-safe; so is `metaGraph'` below,
-- whose metadata holds a `bool`, a null and nested containers
def metaGraph' : Graph :=
  { exampleGraph with
    description := "with metadata", doi := ["10.1000/x"],
    metadata := [("flag", .bool true), ("none", .null), ("nested", .obj [("k", .list [.bool false, .str "Infinity"])])] }
example : validGraph partial4 = true ∧ jsonSafe partial4 = true := by decide +kernel
example : validGraph metaGraph' = true ∧ jsonSafe metaGraph' = true := by decide +kernel
example : validGraph c16Graph = true ∧ jsonSafe c16Graph = false := by decide +kernel

-- `sameModelB` is the Boolean form of `sameModel`
example (g g' : Graph) : sameModelB g g' = true ↔ sameModel g g' := sameModelB_iff g g'

/-- dump with `c`, load the text back with the loader `lfmt`, compare -/
def roundTripsB (c : Codec (List Value)) (fmt lfmt : Format) (simplified : Bool) (g : Graph) : Bool :=
  match dump c fmt simplified g with
  | none => false
  | some t => match load c lfmt t with
    | .ok g' => sameModelB g g'
    | .error _ => false

-- `roundtrip` instantiated with the identity codec, evaluated: all four format / style
-- combinations, and JSON through the YAML loader
example : roundTripsB idCodec .yaml .yaml false partial4 = true := by decide +kernel
example : roundTripsB idCodec .yaml .yaml true partial4 = true := by decide +kernel
example : roundTripsB idCodec .json .json false partial4 = true := by decide +kernel
example : roundTripsB idCodec .json .json true partial4 = true := by decide +kernel
example : roundTripsB idCodec .json .yaml true partial4 = true := by decide +kernel
example : roundTripsB strictCodec .json .json true metaGraph' = true := by decide +kernel
example : roundTripsB strictCodec .json .yaml false metaGraph' = true := by decide +kernel
-- YAML works for the graph with an infinite number in its metadata, JSON does not
example : roundTripsB strictCodec .yaml .yaml true c16Graph = true := by decide +kernel
example : roundTripsB strictCodec .json .json true c16Graph = false := by decide +kernel

-- the JSON dictionary really differs from the YAML one (infinite start times are the string
-- "Infinity"), and the simplified round trip really reorders the migrations
example : hasNonFinite (dumpValue .yaml false partial4) = true
    ∧ hasNonFinite (dumpValue .json false partial4) = false := by decide +kernel
example : (dump idCodec .json true partial4).bind (fun t => (load idCodec .json t).toOption.map
    (fun g' => g'.migrations != partial4.migrations)) = some true := by decide +kernel
-- metadata comes back coerced: the `bool`s as numbers, the null and the string untouched
example : (dump idCodec .json false metaGraph').bind (fun t => (load idCodec .json t).toOption.map
    (fun g' => decide (g'.metadata = [("flag", .num (.fin 1)), ("none", .null),
        ("nested", .obj [("k", .list [.num (.fin 0), .str "Infinity"])])]))) = some true := by
  decide +kernel

-- `roundtrip_all`: streams of length 0, 1 and 3
def streamTripsB (c : Codec (List Value)) (simplified : Bool) (gs : List Graph) : Bool :=
  match dumpAll c simplified gs with
  | none => false
  | some t => match loadAll c t with
    | .ok gs' => gs.length == gs'.length && (gs.zip gs').all (fun p => sameModelB p.1 p.2)
    | .error _ => false
example : streamTripsB idCodec true [] = true := by decide +kernel
example : streamTripsB idCodec false [partial4] = true := by decide +kernel
example : streamTripsB idCodec true [partial4, metaGraph', island3] = true := by decide +kernel

end

end Demes.Theorems
