/-
  Concrete documents for the non-vacuity examples and the counterexamples of C02.
-/
import DemesVerif.Proofs.FillSpell
import DemesVerif.Proofs.FillMig
import DemesVerif.Proofs.FillDeme
import DemesVerif.Proofs.FillPulse
import DemesVerif.Proofs.FillDoc
namespace Demes.Proofs
open Demes Demes.Obj Demes.Spec

theorem eq_ok_of_toOption {α} {x : Except Err α} {a : α} (h : x.toOption = some a) :
    x = .ok a := by
  cases x with
  | error e => cases h
  | ok b => cases h; rfl

/-- kind of the error, if any -/
def errKind? {α} (x : Except Err α) : Option ErrKind :=
  match x with
  | .error e => some e.kind
  | .ok _ => none

namespace C02

def n (q : Q) : Value := .num (.fin q)

/-! ### epoch defaults at two levels -/

/-- top-level `defaults.epoch` -/
def topEpoch : Obj := [("start_size", n 1000), ("selfing_rate", n (1/10))]
/-- deme-level `defaults.epoch` of deme B -/
def demeEpoch : Obj := [("start_size", n 500), ("cloning_rate", n (1/5))]
/-- the epochs of deme B as written -/
def epochsB : List Obj := [[("end_time", n 50)], [("start_size", n 700)]]
/-- … and as resolved (deme B starts at 200) -/
def resolvedB : List Epoch := [
  { startTime := .fin 200, endTime := 50, startSize := 500, endSize := 500,
    sizeFunction := "constant", selfingRate := 1/10, cloningRate := 1/5 },
  { startTime := .fin 50, endTime := 0, startSize := 700, endSize := 700,
    sizeFunction := "constant", selfingRate := 1/10, cloningRate := 1/5 }]

/-- the same epochs with every inferred field written out -/
def epochsBExplicit : List Obj := [
  [("end_time", n 50), ("size_function", .str "constant"), ("end_size", n 500)],
  [("start_size", n 700), ("end_time", n 0), ("end_size", n 700),
   ("size_function", .str "constant")]]

/-! ### a document: top-level and deme-level epoch defaults, inferred start times, a symmetric
migration among three demes, pulses out of order -/

def demesA : List Value := [
  .obj [("name", .str "X"), ("epochs", .list [.obj [("end_time", n 200)]])],
  .obj [("name", .str "A"), ("ancestors", .list [.str "X"]),
        ("epochs", .list [.obj [("end_time", n 100)], .obj [("end_size", n 2000)]])],
  .obj [("name", .str "B"), ("ancestors", .list [.str "X"]),
        ("defaults", .obj [("epoch", .obj demeEpoch)]),
        ("epochs", .list (epochsB.map Value.obj))],
  .obj [("name", .str "C"), ("ancestors", .list [.str "A"]), ("start_time", n 150)]]

def pulsesA : List Value := [
  .obj [("sources", .list [.str "A"]), ("dest", .str "B"), ("time", n 10),
        ("proportions", .list [n (1/10)])],
  .obj [("sources", .list [.str "B"]), ("dest", .str "C"), ("time", n 20),
        ("proportions", .list [n (1/10)])],
  .obj [("sources", .list [.str "C"]), ("dest", .str "A"), ("time", n 10),
        ("proportions", .list [n (1/10)])]]

/-- the symmetric migration among A, B, C -/
def symMig : Obj := [("demes", .list [.str "A", .str "B", .str "C"])]
/-- `defaults.migration` -/
def migDefaults : Obj := [("rate", n (1/100))]

def docOf (migrations : List Value) : Value := .obj [
  ("time_units", .str "generations"),
  ("defaults", .obj [("epoch", .obj topEpoch), ("migration", .obj migDefaults)]),
  ("demes", .list demesA),
  ("migrations", .list migrations),
  ("pulses", .list pulsesA)]

/-- the top-level object of the document without migrations -/
def dataA : Obj := match docOf [] with | .obj kvs => kvs | _ => []
/-- its `defaults` -/
def defaultsA : Obj := [("epoch", .obj topEpoch), ("migration", .obj migDefaults)]

/-- the document as a user would write it -/
def docA : Value := docOf [.obj symMig]

/-- the same document with the symmetric migration written out -/
def docAExpanded : Value :=
  docOf ((specSymmetricExpansion [Value.str "A", .str "B", .str "C"]).map
    (fun sd => .obj (asymmetricDict (some (n (1/100))) none none sd)))

def ep (e ss es : Q) (f : String) (self clone : Q) : Value := .obj [
  ("end_time", n e), ("start_size", n ss), ("end_size", n es), ("size_function", .str f),
  ("selfing_rate", n self), ("cloning_rate", n clone)]

def mig (s d : String) (st : Q) : Value := .obj [
  ("source", .str s), ("dest", .str d), ("start_time", n st), ("end_time", n 0),
  ("rate", n (1/100))]

/-- the same model with *nothing* left to resolution: no defaults, every field explicit, the
migrations written out with their bounds, the pulses in sorted order -/
def docB : Value := .obj [
  ("time_units", .str "generations"),
  ("generation_time", n 1),
  ("demes", .list [
    .obj [("name", .str "X"), ("description", .str ""), ("start_time", .num .pinf),
          ("ancestors", .list []), ("proportions", .list []),
          ("epochs", .list [ep 200 1000 1000 "constant" (1/10) 0])],
    .obj [("name", .str "A"), ("description", .str ""), ("start_time", n 200),
          ("ancestors", .list [.str "X"]), ("proportions", .list [n 1]),
          ("epochs", .list [ep 100 1000 1000 "constant" (1/10) 0,
                            ep 0 1000 2000 "exponential" (1/10) 0])],
    .obj [("name", .str "B"), ("description", .str ""), ("start_time", n 200),
          ("ancestors", .list [.str "X"]), ("proportions", .list [n 1]),
          ("epochs", .list [ep 50 500 500 "constant" (1/10) (1/5),
                            ep 0 700 700 "constant" (1/10) (1/5)])],
    .obj [("name", .str "C"), ("description", .str ""), ("start_time", n 150),
          ("ancestors", .list [.str "A"]), ("proportions", .list [n 1]),
          ("epochs", .list [ep 0 1000 1000 "constant" (1/10) 0])]]),
  ("migrations", .list [mig "A" "B" 200, mig "A" "C" 150, mig "B" "A" 200, mig "B" "C" 150,
                        mig "C" "A" 150, mig "C" "B" 150]),
  ("pulses", .list [
    .obj [("sources", .list [.str "B"]), ("dest", .str "C"), ("time", n 20),
          ("proportions", .list [n (1/10)])],
    .obj [("sources", .list [.str "A"]), ("dest", .str "B"), ("time", n 10),
          ("proportions", .list [n (1/10)])],
    .obj [("sources", .list [.str "C"]), ("dest", .str "A"), ("time", n 10),
          ("proportions", .list [n (1/10)])]])]

/-- the decidable part of a resolved graph (everything but `metadata`) -/
structure Summary where
  description : String
  timeUnits : String
  generationTime : Q
  doi : List String
  demes : List Deme
  migrations : List Migration
  pulses : List Pulse
  index : List (String × Nat)
  deriving DecidableEq

def summary (r : Except Err Graph) : Option Summary :=
  r.toOption.map (fun g => ⟨g.description, g.timeUnits, g.generationTime, g.doi, g.demes,
    g.migrations, g.pulses, g.index⟩)

/-- the graph after the deme loop of `docA` (no migrations or pulses yet) -/
def gDemes : Graph :=
  match resolve (.obj [("time_units", .str "generations"),
      ("defaults", .obj [("epoch", .obj topEpoch)]), ("demes", .list demesA)]) with
  | .ok g => g
  | .error _ => emptyGraph

/-- the graph after the deme loop and the first two demes only -/
def gXA : Graph :=
  match resolve (.obj [("time_units", .str "generations"),
      ("defaults", .obj [("epoch", .obj topEpoch)]), ("demes", .list (demesA.take 2))]) with
  | .ok g => g
  | .error _ => emptyGraph

def names3 : List Value := [.str "A", .str "B", .str "C"]

theorem names3_nonnull : ∀ v ∈ names3, v ≠ Value.null := by
  intro v hv
  simp only [names3, List.mem_cons, List.not_mem_nil, or_false] at hv
  rcases hv with rfl | rfl | rfl <;> exact fun h => nomatch h

end C02

/-! ### counterexamples -/

open C02 in
/-- If `defaults.migration` itself supplies `demes`, a symmetric migration (with its own explicit
`demes`) resolves, but its written-out asymmetric migrations inherit the default `demes` and are
rejected as "symmetric *or* asymmetric": the hypothesis `lookupNN "demes" D = none` of
`resolveMigration_symmetric_eq_asymmetric` cannot be dropped. -/
theorem resolveMigration_symmetric_eq_asymmetric_counterexample :
    ∃ (D : Obj) (g : Graph) (m : Obj) (names : List Value),
      checkAllowed m allowedMigration = .ok () ∧
      lookupNN "demes" (insertDefaults m D) = some (.list names) ∧
      lookupNN "source" (insertDefaults m D) = none ∧
      lookupNN "dest" (insertDefaults m D) = none ∧
      2 ≤ names.length ∧ (∀ v ∈ names, v ≠ Value.null) ∧
      (resolveMigration D g m).toBool = true ∧
      (((specSymmetricExpansion names).map
          (asymmetricDict (lookup "rate" (insertDefaults m D))
            (lookup "start_time" (insertDefaults m D))
            (lookup "end_time" (insertDefaults m D)))).foldlM (resolveMigration D) g).toBool
        = false :=
  ⟨[("rate", n (1/100)), ("demes", .list [.str "A", .str "B"])], gDemes, symMig, names3,
    rfl, rfl, rfl, rfl, by decide, names3_nonnull, by decide +kernel, by decide +kernel⟩

open C02 in
/-- A `null` among the names of a symmetric migration makes both spellings fail, but with
different errors (`ValueError` from the deme lookup against `KeyError` "symmetric *or*
asymmetric", because `source: null` counts as omitted): the hypothesis `∀ v ∈ names, v ≠ null`
is needed for the equality of the *errors* only. -/
theorem resolveMigration_symmetric_null_counterexample :
    ∃ (D : Obj) (g : Graph) (m : Obj) (names : List Value),
      checkAllowed m allowedMigration = .ok () ∧
      lookupNN "demes" (insertDefaults m D) = some (.list names) ∧
      lookupNN "source" (insertDefaults m D) = none ∧
      lookupNN "dest" (insertDefaults m D) = none ∧
      lookupNN "demes" D = none ∧ 2 ≤ names.length ∧
      errKind? (resolveMigration D g m) = some .value ∧
      errKind? (((specSymmetricExpansion names).map
          (asymmetricDict (lookup "rate" (insertDefaults m D))
            (lookup "start_time" (insertDefaults m D))
            (lookup "end_time" (insertDefaults m D)))).foldlM (resolveMigration D) g)
        = some .key :=
  ⟨migDefaults, gDemes, [("demes", .list [.null, .str "A"])], [.null, .str "A"],
    rfl, rfl, rfl, rfl, rfl, by decide, by decide +kernel, by decide +kernel⟩

end Demes.Proofs
