/-
  C08, link C (movements) — what the events of a time group leave alone: the size / growth /
  migration options keep `start_time` and the end time of the oldest epoch of every deme, `joined`
  and the pulses; helper lemmas on `split_join_params` (`redirect`) and on the interpreter's rows.
-/
import DemesVerif.Proofs.FromMsApplyAlg
namespace Demes.Proofs.FromMs
open Demes Demes.Ms Demes.Spec.MsSem Demes.Spec.C08
open Demes.Proofs.RV (bind_ok pure_ok)

/-! ## deme frames -/

/-- `start_time` and the end time of the oldest epoch -/
def DemeFrame (d' d : BDeme) : Prop := d'.startTime = d.startTime ∧ bEndTime d' = bEndTime d

theorem DemeFrame.refl (d : BDeme) : DemeFrame d d := ⟨rfl, rfl⟩
theorem DemeFrame.trans {a b c : BDeme} (h1 : DemeFrame a b) (h2 : DemeFrame b c) : DemeFrame a c :=
  ⟨h1.1.trans h2.1, h1.2.trans h2.2⟩

theorem bEndTime_cons2 (a b : BEpoch) (r : List BEpoch) (d : BDeme) (h : d.epochs = a :: b :: r) :
    bEndTime d = ((b :: r).getLast?.map (·.endTime)).getD 0 := by
  unfold bEndTime; rw [h, List.getLast?_cons_cons]

theorem getLast_head_endTime (e e' : BEpoch) (r : List BEpoch) (h : e'.endTime = e.endTime) :
    ((e' :: r).getLast?.map (·.endTime)).getD 0 = ((e :: r).getLast?.map (·.endTime)).getD 0 := by
  cases r with
  | nil => simp [h]
  | cons x xs => simp [List.getLast?_cons_cons]

theorem epochResolve_frame {d d' : BDeme} {time : Q} (h : epochResolve d time = .ok d') : DemeFrame d' d := by
  obtain ⟨e, older, he, _, _, h | h⟩ := epochResolve_ok h
  · rw [h.2]; exact DemeFrame.refl d
  · obtain ⟨_, rfl⟩ := h
    refine ⟨rfl, ?_⟩
    rw [bEndTime_cons2 _ _ older _ rfl]
    unfold bEndTime
    rw [he]
    exact getLast_head_endTime e _ older rfl

theorem modifyHead_frame (d : BDeme) (f : BEpoch → BEpoch) (hf : ∀ e, (f e).endTime = e.endTime) :
    DemeFrame (modifyHead d f) d := by
  unfold modifyHead
  split
  · exact DemeFrame.refl d
  · rename_i e r he
    refine ⟨rfl, ?_⟩
    unfold bEndTime
    rw [he]
    exact getLast_head_endTime e (f e) r (hf e)

theorem updGrowth_frame {gr time : Q} {d d' : BDeme} (h : updGrowth gr time d = .ok d') : DemeFrame d' d := by
  unfold updGrowth at h
  split at h
  · obtain ⟨d1, h1, h⟩ := bind_ok.1 h
    rw [pure_ok] at h
    subst h
    exact (modifyHead_frame d1 (fun e => { e with growthRate := some gr }) (fun _ => rfl)).trans (epochResolve_frame h1)
  · rw [pure_ok] at h; subst h; exact DemeFrame.refl _

theorem updSize_frame {size : Sz} {reset : Bool} {time : Q} {d d' : BDeme}
    (h : updSize size reset time d = .ok d') : DemeFrame d' d := by
  unfold updSize at h
  split at h
  · obtain ⟨d1, h1, h⟩ := bind_ok.1 h
    rw [pure_ok] at h
    subst h
    refine (modifyHead_frame d1 _ (fun e => ?_)).trans (epochResolve_frame h1)
    split <;> rfl
  · rw [pure_ok] at h; subst h; exact DemeFrame.refl _

/-- what a loop over the live demes / an update of one deme does to the other fields -/
theorem forLive_frame {s s' : BState} {f : BDeme → Except Err BDeme}
    (hf : ∀ d d', f d = .ok d' → DemeFrame d' d) (h : forLiveDemes s f = .ok s') :
    s'.joined = s.joined ∧ s'.pulses = s.pulses ∧ s'.demes.length = s.demes.length ∧
    ∀ (j : Nat) (d : BDeme), s.demes[j]? = some d → ∃ d', s'.demes[j]? = some d' ∧ DemeFrame d' d := by
  obtain ⟨e, hl, hi⟩ := forLiveDemes_ok h
  refine ⟨by rw [e], by rw [e], hl, ?_⟩
  intro j d hd
  obtain ⟨d', hd', hc⟩ := hi j d hd
  refine ⟨d', hd', ?_⟩
  split at hc
  · rw [hc]; exact DemeFrame.refl d
  · exact hf d d' hc

theorem modifyDeme_frame {s s' : BState} {pid : Nat} {f : BDeme → Except Err BDeme}
    (hf : ∀ d d', f d = .ok d' → DemeFrame d' d) (h : modifyDeme s pid f = .ok s') :
    s'.joined = s.joined ∧ s'.pulses = s.pulses ∧ s'.demes.length = s.demes.length ∧
    ∀ (j : Nat) (d : BDeme), s.demes[j]? = some d → ∃ d', s'.demes[j]? = some d' ∧ DemeFrame d' d := by
  obtain ⟨d0, d0', hd0, hfd, rfl⟩ := modifyDeme_ok h
  refine ⟨rfl, rfl, by simp, ?_⟩
  intro j d hd
  show ∃ d', (s.demes.set pid d0')[j]? = some d' ∧ DemeFrame d' d
  rw [List.getElem?_set]
  by_cases hj : pid = j
  · subst hj
    have hl : pid < s.demes.length := (List.getElem?_eq_some_iff.mp hd0).1
    rw [hd0] at hd
    cases hd
    exact ⟨d0', by simp [hl], hf _ _ hfd⟩
  · exact ⟨d, by simp [hj, hd], DemeFrame.refl d⟩

/-- an option that is neither `-es` nor `-ej` keeps `joined`, the pulses and the frame of every
deme -/
theorem stepEvent_nonmove_frame {N0 time : Q} {s s' : BState} {g g' : GState} {ev : Event Num}
    (h1 : isSplit ev = false) (h2 : isJoinEv ev = false)
    (hm : stepEvent N0 time (s, g) ev = .ok (s', g')) :
    s'.joined = s.joined ∧ s'.pulses = s.pulses ∧ s'.demes.length = s.demes.length ∧
    ∀ (j : Nat) (d : BDeme), s.demes[j]? = some d → ∃ d', s'.demes[j]? = some d' ∧ DemeFrame d' d := by
  have triv : ∀ (s1 : BState), s1.demes = s.demes → s1.joined = s.joined → s1.pulses = s.pulses →
      s1.joined = s.joined ∧ s1.pulses = s.pulses ∧ s1.demes.length = s.demes.length ∧
      ∀ (j : Nat) (d : BDeme), s.demes[j]? = some d → ∃ d', s1.demes[j]? = some d' ∧ DemeFrame d' d :=
    fun s1 e1 e2 e3 => ⟨e2, e3, by rw [e1], fun j d hd => ⟨d, by rw [e1]; exact hd, DemeFrame.refl d⟩⟩
  cases ev with
  | growthRateChange o t alpha =>
    rw [stepEvent_growthAll] at hm
    obtain ⟨a, _, hm⟩ := bind_ok.1 hm
    obtain ⟨s1, hs1, hm⟩ := bind_ok.1 hm
    cases hm
    exact forLive_frame (fun _ _ => updGrowth_frame) hs1
  | popGrowthRateChange o t i alpha =>
    rw [stepEvent_growth] at hm
    obtain ⟨pid, _, hm⟩ := bind_ok.1 hm
    obtain ⟨a, _, hm⟩ := bind_ok.1 hm
    obtain ⟨s1, hs1, hm⟩ := bind_ok.1 hm
    cases hm
    exact modifyDeme_frame (fun _ _ => updGrowth_frame) hs1
  | sizeChange o t x =>
    rw [stepEvent_sizeAll] at hm
    obtain ⟨a, _, hm⟩ := bind_ok.1 hm
    obtain ⟨s1, hs1, hm⟩ := bind_ok.1 hm
    cases hm
    exact forLive_frame (fun _ _ => updSize_frame) hs1
  | popSizeChange o t i x =>
    rw [stepEvent_size] at hm
    obtain ⟨pid, _, hm⟩ := bind_ok.1 hm
    obtain ⟨a, _, hm⟩ := bind_ok.1 hm
    obtain ⟨s1, hs1, hm⟩ := bind_ok.1 hm
    cases hm
    exact modifyDeme_frame (fun _ _ => updSize_frame) hs1
  | migRateChange o t x =>
    rw [stepEvent_migAll] at hm
    cases hm
    obtain ⟨f1, _, f3, f4⟩ := migAllState_frame s time x
    exact triv _ f1 f3 f4
  | migEntryChange o t i j rate =>
    rw [stepEvent_migEntry] at hm
    obtain ⟨pi, _, hm⟩ := bind_ok.1 hm
    obtain ⟨pj, _, hm⟩ := bind_ok.1 hm
    split at hm
    · exact (RV.valueErr_bind_ok.1 hm).elim
    · cases hm
      obtain ⟨f1, _, f3, f4⟩ := migEntryState_frame s time pi pj rate
      exact triv _ f1 f3 f4
  | migMatrixChange o t npop mm =>
    rw [stepEvent_migMatrix] at hm
    dsimp only at hm
    generalize (if o = "-ma" then (s.numDemes : Int) else npop) = np at hm
    split at hm
    · exact (RV.valueErr_bind_ok.1 hm).elim
    · obtain ⟨m, _, hm⟩ := bind_ok.1 hm
      cases hm
      obtain ⟨f1, _, f3, f4⟩ := migMatrixState_frame s time m
      exact triv _ f1 f3 f4
  | join o t i j => cases h2
  | split o t i p => cases h1

/-! ## `split_join_params` -/

theorem redirect_last (i j : Nat) (l : List (Nat × Nat × Q)) (a : Nat) (q : Q) :
    redirect i j (l ++ [(a, i, q)]) = some (l ++ [(a, j, q)]) := by
  induction l with
  | nil => simp [redirect]
  | cons x l ih =>
    obtain ⟨b, h, p⟩ := x
    simp only [List.cons_append, redirect, ih]

theorem redirect_none (i j : Nat) (l : List (Nat × Nat × Q)) (h : ∀ e ∈ l, e.2.1 ≠ i) :
    redirect i j l = none := by
  induction l with
  | nil => rfl
  | cons x l ih =>
    obtain ⟨b, hh, p⟩ := x
    have h1 : hh ≠ i := h (b, hh, p) (List.mem_cons_self ..)
    simp only [redirect, ih (fun e he => h e (List.mem_cons_of_mem _ he)), h1, if_false]

/-! ## the interpreter's rows under `-es` / `-ej`, as moves -/

theorem splitRow_get (r : Row) (i n : Nat) (p : Q) (hne : i ≠ n) (hz : Row.get r n = 0) (k : Nat) :
    Row.get ((Row.set r i (Row.get r i * p)).set n (Row.get r i * (1 - p))) k
      = opF (i, n, 1 - p) (fun x => Row.get r x) k := by
  rw [Row.get_set, Row.get_set]
  unfold opF
  dsimp only
  have hne' : ¬ n = i := fun e => hne e.symm
  by_cases h1 : k = n
  · subst h1
    simp only [if_true, hne', if_false, hz]
    ring
  · by_cases h2 : k = i
    · subst h2
      simp only [h1, if_false, if_true]
      ring
    · simp only [h1, h2, if_false]

theorem joinRow_get (r : Row) (i j : Nat) (hne : i ≠ j) (k : Nat) :
    Row.get ((Row.set r i 0).add j (Row.get r i)) k = opF (i, j, 1) (fun x => Row.get r x) k := by
  rw [Row.get_add, Row.get_set, Row.get_set]
  unfold opF
  dsimp only
  have hne' : ¬ j = i := fun e => hne e.symm
  by_cases h1 : k = j
  · subst h1
    simp only [if_true, hne', if_false]
    ring
  · by_cases h2 : k = i
    · subst h2
      simp only [h1, if_false, if_true]
      ring
    · simp only [h1, h2, if_false]

/-- `-es i p` then `-ej n k` (`n` the new population, empty before): the admixture `(i, k, 1-p)` -/
theorem admix_get (f : RowF) (i n k : Nat) (q : Q) (hin : i ≠ n) (hkn : k ≠ n) (hz : f n = 0) (x : Nat) :
    opF (n, k, 1) (opF (i, n, q) f) x = opF (i, k, q) f x := by
  unfold opF
  dsimp only
  have h1 : ¬ n = i := fun e => hin e.symm
  have h2 : ¬ k = n := hkn
  have h3 : ¬ n = k := fun e => hkn e.symm
  by_cases hxk : x = k
  · subst hxk
    by_cases hki : x = i
    · subst hki
      simp only [if_true, h2, h3, h1, if_false, hz]
      try ring
    · simp only [if_true, h2, h3, h1, hki, if_false, hz]
      try ring
  · by_cases hxn : x = n
    · subst hxn
      simp only [hxk, if_false, if_true, h1, hz]
      by_cases hki : k = i
      · simp [hki, h1, hz]
      · simp [hki, h1, hz]
    · by_cases hxi : x = i
      · subst hxi
        simp only [hxk, hxn, if_false, if_true]
      · simp only [hxk, hxn, hxi, if_false]

end Demes.Proofs.FromMs
