"""C19 — the command line prints exactly what the library would."""
from __future__ import annotations

import contextlib
import hashlib
import io
import json
import logging
import os
import shutil
import subprocess
import sys
import tempfile
import warnings

import ruamel.yaml

import demes.__main__ as demes_main

from props.common import *  # noqa: F401,F403

RULE = ("demes.__main__.cli(argv) in-process (stdout/stderr captured, stdin replaced for '-') on every combination of "
        "{path, stdin} x {0, 1, 2, 3, 5 YAML documents, one JSON document} x {no flag, -s, -j, -j -s, --ms N0 and --ms N0 -s "
        "for N0 in 1, 100, 0.5, 0 (thorough: also -1), -j with --ms} x {all documents valid; a syntax error / a null value / "
        "an invalid model at each position}; the flag x document-count x failing-position x source space is enumerated in "
        "full, only the document contents (generated graphs in three spellings, ms-expressible ones over-represented for "
        "--ms), the option spelling and the separator style are random; plus no sub-command, a missing file, and "
        "`demes ms -N0 n <args>` on 16 hand-written families of ms argument vectors (valid, invalid, unknown options) with "
        "random parameters; a few cases per run are repeated in a real `python -m demes` process; a case is one command "
        "line; non-trivial = at least one document or ms option")
ASSUMPTIONS = [
    "documents are abstracted to 'load_all yields a graph' / 'load_all raises' by iterating demes.load_all on the same text; the "
    "Model does not look inside YAML",
    "the bytes of each library call (to_ms, dump, dump_all) are taken from the library itself; the Model only says which calls, "
    "in which order, with which arguments",
    "the command line is run in-process: an uncaught exception counts as exit status 1 (a sample of cases is re-run in a child "
    "interpreter and must give the same bytes and status)",
    "argparse refusing options that `demes ms` does not declare (exit status 2) is allowed (DESIGN section 9)",
    "--ms takes a float: NaN and infinities as reference size are not generated",
]
EXPLANATION = ("Theorems lookahead_preserves/_count/_fails (the look-ahead neither drops, duplicates nor reorders a document, every "
               "stream length), parse_output and its cases, parse_error_exit/_early/_late, success_complete, "
               "parse_printed_prefix, cli_exclusive, ms_output over the Lean Model of ParseCommand/MsCommand/cli; the tests "
               "and flag declarations of __main__.py pinned by tables_cli_parse_flags/_tests; Model tied to the code by "
               "comparing (stdout bytes, exit class) on the enumerated space; the property evaluated directly on the observed "
               "(stdout, exit status) against list(demes.load_all(file)) and the library calls.")

warnings.simplefilter("ignore")

N0S_QUICK = ["1", "100", "0.5", "0"]
N0S_THOROUGH = ["1", "100", "0.5", "0", "-1"]
SHAPES_VALID = [0, 1, 2, 3, 5, "json"]
KINDS = ["syntax", "null", "model"]

SYNTAX_ERRORS = [
    "time_units: generations\ndemes: [ {name: A, epochs: [ {start_size: 100\n",
    "time_units: generations\ndemes:\n  - name: A\n   epochs: x\n",
    "a: b: c\n",
    "time_units: \"generations\ndemes: []\n",
    "{time_units: generations, demes: ]}\n",
]


BASE = "time_units: generations\ndemes:\n- name: A\n  epochs:\n  - {start_size: 100}\n"
JSON_BASE = '{"time_units": "generations", "demes": [{"name": "A", "epochs": [{"start_size": 100, "end_time": 0}]}]}'
DATED = BASE + "metadata: {when: 2001-12-14}\n"  # loads; the YAML dump works, the JSON dump raises half-way
EDGES = [
    ("empty_document", "---\n"),
    ("scalar_document", "42\n"),
    ("list_document", "- a\n- b\n"),
    ("trailing_empty_document", BASE + "---\n"),
    ("end_marker_only", BASE + "...\n"),
    ("json_dump_raises", DATED),
    ("json_dump_raises_2nd_of_3", "---\n" + BASE + "---\n" + DATED + "---\n" + BASE),
    ("crlf", BASE.replace("\n", "\r\n")),
    ("duplicate_key", BASE + "time_units: years\n"),
    ("anchors", "time_units: generations\ndefaults: {epoch: &e {start_size: 5}}\ndemes:\n- name: A\n  epochs: [*e]\n"),
    ("comment_between", BASE + "# c\n---\n# d\n" + BASE),
    ("json_infinity", '{"time_units": "generations", "demes": [{"name": "A", "start_time": "Infinity", '
                      '"epochs": [{"start_size": 1, "end_time": 0}]}]}'),
    # documents that BEGIN like JSON but are YAML streams (JSON is a subset of YAML's flow style)
    ("flow_yaml", "{time_units: generations, demes: [{name: A, epochs: [{start_size: 100}]}]}\n"),
    ("json_then_end_marker", JSON_BASE + "\n...\n"),
    ("json_then_comment", JSON_BASE + "\n# trailing comment\n"),
    ("json_documents_stream_2", JSON_BASE + "\n---\n" + JSON_BASE + "\n"),
    ("json_documents_stream_3", JSON_BASE + "\n---\n" + JSON_BASE + "\n---\n" + JSON_BASE.replace('"A"', '"B"') + "\n"),
    ("flow_then_block_stream", "{time_units: generations, demes: [{name: A, epochs: [{start_size: 100}]}]}\n---\n" + BASE),
    ("json_indented", "  " + JSON_BASE + "\n"),
]


def yaml_text(data) -> str:
    buf = io.StringIO()
    with ruamel.yaml.YAML(typ="safe", output=buf) as y:
        y.default_flow_style = None
        y.sort_base_mapping_type_on_output = False
        y.dump(data)
    return buf.getvalue()


def loads_ok(text):
    try:
        return len(list(demes.load_all(io.StringIO(text)))) == 1
    except Exception:  # noqa: BLE001
        return False


def make_pool(ctx, n, **kw):
    """valid single-document texts: (text, kind) with kind in resolved / simplified / raw / json"""
    out = []
    for doc, g, _ in gen_valid_graphs(ctx, n, **kw):
        texts = {
            "resolved": demes.dumps(g, simplified=False),
            "simplified": demes.dumps(g, simplified=True),
        }
        try:
            texts["raw"] = yaml_text(doc)
        except Exception:  # noqa: BLE001
            pass
        try:
            texts["json"] = demes.dumps(g, format="json", simplified=ctx.rng.random() < 0.5)
        except Exception:  # noqa: BLE001
            pass
        texts = {k: v for k, v in texts.items() if loads_ok(v)}
        if "resolved" in texts and "json" in texts:
            out.append({"doc": doc, "texts": texts})
    return out


def make_invalid_pool(rng, pool, k=8):
    """k texts per failure kind, each checked to make load_all raise"""
    return {kind: [fresh_invalid_text(rng, pool, kind) for _ in range(k)] for kind in KINDS}


def invalid_text(rng, inv_pool, kind):
    return rng.choice(inv_pool[kind])


def fresh_invalid_text(rng, pool, kind):
    if kind == "syntax":
        return rng.choice(SYNTAX_ERRORS)
    for _ in range(50):
        d = copy.deepcopy(rng.choice(pool)["doc"])
        if kind == "null":
            how = rng.randrange(4)
            if how == 0:
                d["description"] = None
            elif how == 1:
                d["demes"][0]["description"] = None
            elif how == 2:
                d["metadata"] = {"k": [1, None]}
            else:
                d["doi"] = [None]
        else:
            how = rng.randrange(5)
            if how == 0:
                d["demes"][0]["epochs"] = [{"start_size": -5, "end_time": 0}]
            elif how == 1:
                d.pop("time_units", None)
            elif how == 2:
                d["no_such_field"] = 1
            elif how == 3:
                d["demes"].append(copy.deepcopy(d["demes"][0]))
            else:
                d["demes"][0]["ancestors"] = ["nobody"]
        try:
            t = yaml_text(d)
        except Exception:  # noqa: BLE001
            continue
        if not loads_ok(t):
            return t
    return "time_units: generations\ndemes: []\n" if kind == "model" else "description: null\n"


def assemble(rng, texts):
    """a YAML stream of the given documents; zero documents = an empty (or comment-only) file"""
    if not texts:
        return rng.choice(["", "", "# nothing here\n", "\n"])
    if len(texts) == 1 and rng.random() < 0.6:
        return texts[0]
    style = rng.randrange(3)
    out = []
    for i, t in enumerate(texts):
        if not t.endswith("\n"):
            t += "\n"
        if style == 0:
            out.append("---\n" + t)
        elif style == 1:
            out.append(("" if i == 0 else "---\n") + t)
        else:
            out.append("---\n" + t + "...\n")
    return "".join(out)


def abstract(text):
    """(graphs yielded by load_all before it ends or raises, exception class or None)"""
    gs = []
    try:
        for g in demes.load_all(io.StringIO(text)):
            gs.append(g)
    except Exception as e:  # noqa: BLE001
        return gs, type(e).__name__
    return gs, None


def lib_call(call, graphs, cache=None):
    """(text the library call writes, raised?) for one abstract Model call"""
    if cache is not None:
        key = json.dumps(call, sort_keys=True)
        if key not in cache:
            cache[key] = lib_call(call, graphs)
        return cache[key]
    kind = call["call"]
    if kind == "help":
        return demes_main.get_demes_parser().format_help(), False
    g = graphs[call["g"]]
    buf = io.StringIO()
    try:
        if kind == "to_ms":
            buf.write(demes.to_ms(g, N0=float(Fraction(call["n0"]))) + "\n")
        elif kind == "dump":
            demes.dump(g, buf, format=call["format"], simplified=call["simplified"])
        elif kind == "dump_all_doc":
            demes.dump_all([g], buf, simplified=call["simplified"])
        else:
            raise KeyError(kind)
    except Exception:  # noqa: BLE001
        return buf.getvalue(), True
    return buf.getvalue(), False


def spec_call(flags, i):
    """the library call the property names for one graph under the flags (written from the statement)"""
    if flags["ms"] is not None:
        return {"call": "to_ms", "g": i, "n0": flags["ms"]}
    return {"call": "dump", "g": i, "format": "json" if flags["json"] else "yaml", "simplified": flags["simplified"]}


def whole_library_output(flags, graphs, cache=None):
    """(text, raised) of 'the corresponding library call on the loaded graphs'; None = unsupported combination"""
    if not graphs:
        return "", False
    if len(graphs) == 1:
        return lib_call(spec_call(flags, 0), graphs, cache)
    if flags["json"] or flags["ms"] is not None:
        return None
    buf = io.StringIO()
    try:
        demes.dump_all(graphs, buf, simplified=flags["simplified"])
    except Exception:  # noqa: BLE001
        return buf.getvalue(), True
    return buf.getvalue(), False


def run_cli(argv, stdin_text=None):
    out, err = io.StringIO(), io.StringIO()
    old_stdin = sys.stdin
    if stdin_text is not None:
        sys.stdin = io.StringIO(stdin_text)
    exc = None
    try:
        with contextlib.redirect_stdout(out), contextlib.redirect_stderr(err):
            try:
                demes_main.cli(list(argv))
                code = 0
            except SystemExit as e:
                code = e.code if isinstance(e.code, int) else (0 if e.code is None else 1)
                exc = "SystemExit"
            except BaseException as e:  # noqa: BLE001 - an uncaught exception ends the process with status 1
                code = 1
                exc = type(e).__name__
    finally:
        sys.stdin = old_stdin
    return out.getvalue(), code, exc


def run_subprocess(argv, stdin_text=None):
    env = dict(os.environ)
    p = subprocess.run([sys.executable, "-W", "ignore", "-m", "demes"] + list(argv), input=(stdin_text or "").encode(),
                       stdout=subprocess.PIPE, stderr=subprocess.PIPE, env=env, timeout=120)
    return p.stdout.decode(), p.returncode


def repro(argv, stdin_text, file_text=None, path=None):
    """one shell line reproducing the case (the input file is re-created at a fixed place)"""
    import shlex
    pre = ""
    argv = list(argv)
    if file_text is not None:
        fixed = "/tmp/c19_repro.yaml"
        argv = [fixed if a == path else a for a in argv]
        pre = f"open({fixed!r},'w',encoding='utf-8').write({file_text!r}); "
    sin = f"sys.stdin=io.StringIO({stdin_text!r}); " if stdin_text is not None else ""
    return "/venv/bin/python -c " + shlex.quote(f"import io,sys,demes.__main__ as m; {pre}{sin}m.cli({argv!r})") + "; echo \"exit status $?\""


def flag_sets(tier):
    n0s = N0S_QUICK if tier == "quick" else N0S_THOROUGH
    fs = [dict(json=False, ms=None, simplified=False), dict(json=False, ms=None, simplified=True),
          dict(json=True, ms=None, simplified=False), dict(json=True, ms=None, simplified=True)]
    for n0 in n0s:
        fs.append(dict(json=False, ms=n0, simplified=False))
        fs.append(dict(json=False, ms=n0, simplified=True))
    fs.append(dict(json=True, ms="1", simplified=False))
    fs.append(dict(json=True, ms="0", simplified=True))
    return fs


def spell_flags(rng, f):
    """argv words for the flags (random spelling) and whether they go before or after the file name"""
    words = []
    if f["json"]:
        words.append([rng.choice(["-j", "--json"])])
    if f["ms"] is not None:
        v = f["ms"]
        if rng.random() < 0.3 and "." not in v and not v.startswith("-"):
            v = v + ".0"
        words.append([f"--ms={v}"] if (rng.random() < 0.3 or v.startswith("-")) else ["--ms", v])
    if f["simplified"]:
        words.append([rng.choice(["-s", "--simplified"])])
    rng.shuffle(words)
    before, after = [], []
    for w in words:
        (before if rng.random() < 0.7 else after).extend(w)
    return before, after


def ms_fraction(s):
    return str(Fraction(float(s)))


EXIT_CLASS = {"exit0": "zero", "usage": "nonzero", "load_error": "nonzero", "unsupported": "nonzero", "lib_error": "nonzero"}


class Runner:
    def __init__(self, ctx):
        self.ctx = ctx
        self.tmp = tempfile.mkdtemp(prefix="c19_")
        self.nfile = 0
        self.pending = []  # (request, info) evaluated in batches through the driver
        self.sub_budget = 10 if ctx.tier == "quick" else 60
        self.sub_done = 0

    def close(self):
        shutil.rmtree(self.tmp, ignore_errors=True)

    # ---- parse -------------------------------------------------------------------------------
    def parse_case(self, flags, text, source, shape, tags):
        ctx = self.ctx
        rng = ctx.rng
        before, after = spell_flags(rng, flags)
        stdin_text = None
        if source == "stdin":
            fname = "-"
            stdin_text = text
            path = None
        else:
            self.nfile += 1
            path = os.path.join(self.tmp, f"f{self.nfile % 50}.yaml")
            with open(path, "w", encoding="utf-8") as fh:
                fh.write(text)
            fname = path
        argv = ["parse"] + before + [fname] + after
        out, code, exc = run_cli(argv, stdin_text)
        graphs, failed = abstract(text)
        mflags = {"json": flags["json"], "ms": None if flags["ms"] is None else ms_fraction(flags["ms"]),
                  "simplified": flags["simplified"]}
        # which graphs' library call raises (one call per graph under fixed flags)
        multi_yaml = len(graphs) >= 2
        raises = []
        rendered = {}
        for i in range(len(graphs)):
            c = ({"call": "dump_all_doc", "g": i, "simplified": flags["simplified"]} if multi_yaml else spec_call(mflags, i))
            t, r = lib_call(c, graphs, rendered)
            if r:
                raises.append(i)
        req = {"op": "cli", "cmd": "parse", **mflags, "file_ok": True,
               "docs": list(range(len(graphs))) + (["fail"] if failed else []), "raises": raises}
        case = {"argv": argv if path is None else ["parse"] + before + ["<file>"] + after, "source": source, "shape": shape,
                "text_sha": hashlib.sha1(text.encode()).hexdigest()[:12]}
        nontriv = bool(graphs) or failed is not None
        ctx.count(case, nontriv, tags=tags + [source, "flags:" + flag_name(flags)])
        info = dict(kind="parse", argv=argv, stdin=stdin_text, text=text, path=path, out=out, code=code, exc=exc,
                    graphs=graphs, failed=failed, flags=mflags, rendered=rendered, case=case)
        self.property_parse(info)
        self.pending.append((req, info))
        if self.sub_done < self.sub_budget and rng.random() < 0.02:
            self.sub_done += 1
            sout, scode = run_subprocess(argv, stdin_text)
            ctx.dist["subprocess"] += 1
            if sout != out or (scode == 0) != (code == 0) or (code in (0, 1, 2) and scode != code):
                ctx.disagreement("cli in-process vs python -m demes", case, {"stdout": out, "status": code},
                                 {"stdout": sout, "status": scode})

    def property_parse(self, info):
        """the statement, evaluated on the observed (stdout, status) — independent of the Model"""
        ctx = self.ctx
        flags, graphs, failed, out, code = info["flags"], info["graphs"], info["failed"], info["out"], info["code"]
        rep = repro(info["argv"], info["stdin"], info["text"] if info["path"] else None, info["path"])
        case = dict(info["case"], text=info["text"])
        exclusive = flags["json"] and flags["ms"] is not None
        whole = None if (failed or exclusive) else whole_library_output(flags, graphs, info["rendered"])
        if code == 0:
            if failed:
                ctx.violation(f"parse: exit status 0 although document {len(graphs) + 1} of the input is invalid ({failed})",
                              case, detail={"stdout": out}, python=rep)
            elif exclusive:
                ctx.violation("parse: -j together with --ms ends with exit status 0", case, detail={"stdout": out}, python=rep)
            elif whole is None:
                ctx.violation(f"parse: {len(graphs)} documents with a non-YAML output format end with exit status 0 "
                              "(unsupported combination presented as success)", case, detail={"stdout": out}, python=rep)
            else:
                text, raised = whole
                if raised:
                    ctx.violation("parse: exit status 0 although the corresponding library call raises", case,
                                  detail={"stdout": out}, python=rep)
                elif out != text:
                    ctx.violation("parse: exit status 0 but the output differs from the library call on the loaded graphs"
                                  + (" (incomplete output)" if text.startswith(out) else ""), case,
                                  detail={"stdout": out, "library": text}, python=rep)
        else:
            if not failed and not exclusive and whole is not None and not whole[1]:
                ctx.violation(f"parse: valid input and supported flags end with exit status {code} ({info['exc']}) instead of "
                              "printing the library's output", case, detail={"stdout": out, "library": whole[0]}, python=rep)

    # ---- ms ----------------------------------------------------------------------------------
    def ms_case(self, n0, args, family, unknown_options):
        ctx = self.ctx
        rng = ctx.rng
        n0_words = [rng.choice(["-N0", "--reference-size"]), n0]
        argv = ["ms"] + (n0_words + args if rng.random() < 0.7 else args + n0_words)
        out, code, exc = run_cli(argv)
        try:
            g = demes.from_ms(" ".join(args), N0=float(n0))
            lib_exc = None
        except Exception as e:  # noqa: BLE001
            g, lib_exc = None, type(e).__name__
        case = {"argv": argv, "family": family}
        ctx.count(case, bool(args), tags=["ms", "ms:" + family, "ms:" + ("accepted" if g is not None else "rejected")])
        rep = repro(argv, None)
        expected = None
        raises = []
        if g is not None:
            rendered = {}
            expected, r = lib_call({"call": "dump", "g": 0, "format": "yaml", "simplified": True}, [g], rendered)
            if r:
                raises = [0]
            assert r or expected == demes.dumps(g)
        # property
        if code == 0:
            if g is None:
                ctx.violation(f"ms: exit status 0 although from_ms rejects the arguments ({lib_exc})", case,
                              detail={"stdout": out}, python=rep)
            elif raises:
                ctx.violation("ms: exit status 0 although dumping the converted graph raises", case, detail={"stdout": out},
                              python=rep)
            elif out != expected:
                ctx.violation("ms: output differs from dumps(from_ms(args, N0))", case,
                              detail={"stdout": out, "library": expected}, python=rep)
        else:
            if g is not None and not raises and not (unknown_options and code == 2):
                ctx.violation(f"ms: arguments accepted by from_ms end with exit status {code} ({exc})", case,
                              detail={"stdout": out, "library": expected}, python=rep)
        if unknown_options and g is not None and code == 2:
            ctx.dist["ms:argparse refuses undeclared option (allowed)"] += 1
            ctx.compared += 1
            if out != "":
                ctx.disagreement("cli ms", case, {"stdout": out, "status": code}, "argparse exit 2 with no output")
            return
        req = {"op": "cli", "cmd": "ms", "built": 0 if g is not None else "fail", "raises": raises}
        info = dict(kind="ms", argv=argv, stdin=None, out=out, code=code, exc=exc, graphs=[g] if g is not None else [],
                    rendered=rendered if g is not None else {}, case=case)
        self.pending.append((req, info))

    # ---- other commands ----------------------------------------------------------------------
    def misc_cases(self):
        ctx = self.ctx
        out, code, exc = run_cli([])
        ctx.count({"argv": []}, False, tags=["no_subcommand"])
        self.pending.append(({"op": "cli", "cmd": "none"},
                             dict(kind="none", argv=[], stdin=None, out=out, code=code, exc=exc, graphs=[], rendered={},
                                  case={"argv": []})))
        if code == 0:
            ctx.violation("no sub-command ends with exit status 0", {"argv": []}, python=repro([], None))
        missing = os.path.join(self.tmp, "does_not_exist.yaml")
        for f in (dict(json=False, ms=None, simplified=False), dict(json=True, ms=None, simplified=True),
                  dict(json=False, ms="1", simplified=False)):
            before, after = spell_flags(ctx.rng, f)
            argv = ["parse"] + before + [missing] + after
            out, code, exc = run_cli(argv)
            ctx.count({"argv": argv}, False, tags=["missing_file"])
            if code == 0:
                ctx.violation("parse: a file that cannot be opened ends with exit status 0", {"argv": argv},
                              python=repro(argv, None))
            mflags = {"json": f["json"], "ms": None if f["ms"] is None else ms_fraction(f["ms"]), "simplified": f["simplified"]}
            self.pending.append(({"op": "cli", "cmd": "parse", **mflags, "file_ok": False, "docs": [], "raises": []},
                                 dict(kind="parse", argv=argv, stdin=None, out=out, code=code, exc=exc, graphs=[], rendered={},
                                      case={"argv": argv})))

    # ---- Model comparison ------------------------------------------------------------------------
    def flush(self):
        ctx = self.ctx
        if not self.pending:
            return
        reps = ctx.driver.batch([r for r, _ in self.pending])
        for (req, info), rep in zip(self.pending, reps):
            ctx.compared += 1
            m = rep.get("ok")
            if m is None:
                ctx.disagreement("cli", info["case"], {"stdout": info["out"], "status": info["code"]}, rep)
                continue
            ctx.dist["branch:" + m["branch"]] += 1
            ctx.dist["exit:" + m["exit"]] += 1
            expect = ""
            for c in m["printed"]:
                if c["call"] == "help":
                    expect += lib_call(c, [])[0]
                else:
                    t2, r2 = lib_call(c, info["graphs"], info["rendered"])
                    expect += t2
                    if r2:
                        expect = None
                        break
            if expect is not None and m["exit"] == "lib_error":
                expect += lib_call(m["exit_call"], info["graphs"], info["rendered"])[0]
            code = info["code"]
            want_zero = m["exit"] == "exit0"
            ok = expect is not None and expect == info["out"] and ((code == 0) == want_zero)
            if ok and m["exit"] == "usage":
                ok = code == (1 if req.get("cmd") == "none" else 2)
            if ok and m["exit"] == "unsupported":
                ok = info["exc"] == "RuntimeError"
            if ok and m["exit"] in ("load_error", "lib_error") and info["kind"] == "parse":
                ok = code == 1 and info["exc"] != "SystemExit"
            if not ok:
                ctx.disagreement("cli", dict(info["case"], request=req),
                                 {"stdout": info["out"], "status": code, "exception": info["exc"]},
                                 {"model": m, "model_stdout": expect})
        self.pending = []


def flag_name(f):
    parts = []
    if f["json"]:
        parts.append("-j")
    if f["ms"] is not None:
        parts.append("--ms " + str(f["ms"]))
    if f["simplified"]:
        parts.append("-s")
    return " ".join(parts) or "none"


def pick_text(rng, entry, want_json=False):
    if want_json:
        return entry["texts"]["json"]
    ks = [k for k in entry["texts"] if k != "json"]
    return entry["texts"][rng.choice(ks)]


def shapes():
    """every (shape name, number of documents, failing position or None, failure kind or None)"""
    out = []
    for s in SHAPES_VALID:
        out.append((f"valid:{s}", s, None, None))
    for n in (1, 2, 3, 5):
        for pos in range(1, n + 1):
            for kind in KINDS:
                out.append((f"invalid:{n}@{pos}:{kind}", n, pos, kind))
    return out


def one_round(ctx, runner, pool, pool_ms):
    rng = ctx.rng
    inv_pool = make_invalid_pool(rng, pool)
    for flags in flag_sets(ctx.tier):
        src_pool = pool_ms if (flags["ms"] is not None and rng.random() < 0.8) else pool
        for name, n, pos, kind in shapes():
            for source in ("path", "stdin"):
                if n == "json":
                    texts = [pick_text(rng, rng.choice(src_pool), want_json=True)]
                    text = texts[0]
                else:
                    texts = [pick_text(rng, rng.choice(src_pool)) for _ in range(n)]
                    if pos is not None:
                        texts[pos - 1] = invalid_text(rng, inv_pool, kind)
                    text = assemble(rng, texts)
                runner.parse_case(flags, text, source, name, tags=["shape:" + (name if pos is None else f"invalid:{kind}@" + ("1-2" if pos <= 2 else "3+"))])
            if len(runner.pending) >= 400:
                runner.flush()
        for name, text in EDGES:
            for source in ("path", "stdin"):
                runner.parse_case(flags, text, source, "edge:" + name, tags=["shape:edge:" + name])
        if ctx.time_left() < 3:
            return False
    runner.flush()
    return True


def success_phase(ctx, runner, pool, pool_ms, until):
    """random all-valid streams (the byte-identity clause): contents, count, style, flags, source all random"""
    rng = ctx.rng
    fsets = flag_sets(ctx.tier)
    k = 0
    while ctx.time_left() > until:
        flags = rng.choice(fsets[:-2])
        n = rng.choice([1, 1, 1, 2, 2, 3, 4, 5, 7])
        if flags["json"] or flags["ms"] is not None:
            n = rng.choice([1, 1, 1, 1, n])
        src_pool = pool_ms if flags["ms"] is not None and rng.random() < 0.85 else pool
        if n == 1 and rng.random() < 0.3:
            text = pick_text(rng, rng.choice(src_pool), want_json=True)
        else:
            text = assemble(rng, [pick_text(rng, rng.choice(src_pool)) for _ in range(n)])
        runner.parse_case(flags, text, rng.choice(["path", "stdin"]), f"valid:{n}", tags=["success_phase", f"shape:valid:{n}"])
        k += 1
        if len(runner.pending) >= 300:
            runner.flush()
    runner.flush()
    return k


# ---- ms argument vectors ---------------------------------------------------------------------

def ms_families(rng):
    """(family name, argument vector, has options `demes ms` does not declare)"""
    def t(k):  # increasing times
        ts = sorted(rng.sample([0.05, 0.1, 0.25, 0.5, 1.0, 1.5, 2.0, 4.0], k))
        return [repr(x) for x in ts]

    def x():
        return repr(rng.choice([0.1, 0.5, 1.0, 2.0, 2.5, 10.0]))

    def m():
        return repr(rng.choice([0.0, 0.5, 1.0, 2.0, 8.0]))

    def a():
        return repr(rng.choice([0.0, 0.5, 1.0, -0.5, 3.0, -2.0]))

    def p():
        return repr(rng.choice([0.0, 0.1, 0.25, 0.5, 0.9, 1.0]))

    fams = []
    t1, = t(1)
    fams.append(("I_ej", ["-I", "2", "1", "1", "-ej", t1, "2", "1"], False))
    t1, = t(1)
    fams.append(("I_rate_n", ["-I", "2", "1", "1", m(), "-n", "1", x(), "-n", "2", x(), "-ej", t1, "2", "1"], False))
    t1, t2, t3 = t(3)
    fams.append(("g_eg", ["-I", "3", "1", "1", "1", "-g", "1", a(), "-eg", t1, "1", "0", "-ej", t2, "2", "1", "-ej", t3, "3", "1"], False))
    t1, t2 = t(2)
    fams.append(("m_em", ["-I", "2", "1", "1", "-m", "1", "2", m(), "-em", t1, "2", "1", m(), "-ej", t2, "2", "1"], False))
    t1, t2 = t(2)
    fams.append(("ma_ema", ["-I", "2", "1", "1", "-ma", "x", m(), m(), "x", "-ema", t1, "2", "x", m(), m(), "x", "-ej", t2, "2", "1"], False))
    t1, t2 = t(2)
    fams.append(("es_ej", ["-es", t1, "1", p(), "-ej", t2, "2", "1"], False))
    t1, t2 = t(2)
    fams.append(("en_en", ["-en", t1, "1", x(), "-en", t2, "1", x()], False))
    t1, = t(1)
    fams.append(("G_eG", ["-G", a(), "-eG", t1, "0"], False))
    t1, = t(1)
    fams.append(("eN", ["-eN", t1, x()], False))
    t1, t2 = t(2)
    fams.append(("eM", ["-I", "2", "1", "1", "-eM", t1, m(), "-ej", t2, "2", "1"], False))
    t1, t2, t3, t4 = t(4)
    fams.append(("I3_es_ej", ["-I", "3", "1", "1", "1", "-es", t1, "1", p(), "-ej", t2, "4", "2", "-ej", t3, "2", "1", "-ej", t4, "3", "1"], False))
    fams.append(("empty", [], False))
    t1, = t(1)
    fams.append(("same_time", ["-I", "2", "1", "1", "-en", t1, "1", x(), "-eg", t1, "2", a(), "-ej", t1, "2", "1"], False))
    # invalid vectors
    t1, = t(1)
    fams.append(("bad_ej_index", ["-I", "2", "1", "1", "-ej", t1, "3", "1"], False))
    t1, = t(1)
    fams.append(("bad_es_p", ["-es", t1, "1", "1.5"], False))
    fams.append(("bad_I_count", ["-I", "3", "1", "1"], False))
    t1, = t(1)
    fams.append(("bad_time", ["-eN", "-" + t1, x()], False))
    fams.append(("bad_nargs", ["-en", "1.0", "1"], False))
    fams.append(("bad_number", ["-eN", "abc", "1.0"], False))
    # options of ms itself that the sub-command does not declare
    t1, = t(1)
    fams.append(("undeclared_t", ["-t", "1.0", "-I", "2", "1", "1", "-ej", t1, "2", "1"], True))
    fams.append(("undeclared_r", ["-eN", t(1)[0], x(), "-r", "1.0", "100"], True))
    return fams


def ms_round(ctx, runner):
    rng = ctx.rng
    for fam, args, unk in ms_families(rng):
        n0 = rng.choice(["1", "100", "1000", "0.5", "10000", "7.5"])
        if rng.random() < 0.05:
            n0 = "0"
        runner.ms_case(n0, args, fam, unk)


def run(ctx):
    runner = Runner(ctx)
    try:
        logging.getLogger("demes").setLevel(logging.ERROR)  # from_ms logs the options it ignores
        npool = 25 if ctx.tier == "quick" else 120
        pool = make_pool(ctx, npool, max_demes=3 if ctx.tier == "quick" else 4)
        pool_ms = make_pool(ctx, npool, max_demes=3, ms_expressible=True)
        if not pool or not pool_ms:
            raise RuntimeError("no documents generated")
        runner.misc_cases()
        for _ in range(10 if ctx.tier == "quick" else 100):
            ms_round(ctx, runner)
        runner.flush()
        rounds = 0
        complete = one_round(ctx, runner, pool, pool_ms)
        rounds += 1 if complete else 0
        ctx.exhaustive = complete
        while complete and ctx.tier == "thorough" and ctx.time_left() > 90 and rounds < 12:
            pool = make_pool(ctx, npool, max_demes=ctx.rng.choice([3, 4, 6]))
            pool_ms = make_pool(ctx, npool, max_demes=4, ms_expressible=True)
            if not one_round(ctx, runner, pool, pool_ms):
                break
            rounds += 1
        ctx.extra["random_all_valid_streams"] = success_phase(ctx, runner, pool, pool_ms, 11 if ctx.tier == "quick" else 30)
        runner.flush()
        ctx.extra["full_enumerations_of_flag_x_shape_x_source_space"] = rounds
        ctx.extra["subprocess_cross_checks"] = runner.sub_done
    finally:
        runner.close()


def replay(ctx, payload):
    inp = payload.get("input")
    if inp is None and payload.get("disagreements"):
        inp = payload["disagreements"][0]["input"]
    inp = inp or {}
    text = inp.get("text")
    argv = list(inp.get("argv", []))
    stdin_text = None
    tmp = None
    if text is not None:
        if "-" in argv:
            stdin_text = text
        elif "<file>" in argv:
            fd, tmp = tempfile.mkstemp(suffix=".yaml")
            os.write(fd, text.encode())
            os.close(fd)
            argv[argv.index("<file>")] = tmp
    out, code, exc = run_cli(argv, stdin_text)
    print("argv:", argv)
    print("implementation: exit status", code, exc or "")
    print(out)
    if text is not None:
        gs, failed = abstract(text)
        print(f"load_all: {len(gs)} graphs" + (f", then {failed}" if failed else ""))
    if tmp:
        os.unlink(tmp)
    return 0
