/-
  C09, acceptance — the migration part, graph side: the rate into deme `j` from deme `k` at time `t`
  (`gRate`), its sign, where it can be non-zero, and its sum over the sources (the total ingress, V10).
-/
import DemesVerif.Proofs.ToMsSemMig3
import DemesVerif.Proofs.MatRows
import DemesVerif.Proofs.ResolveValid
namespace Demes.Proofs.MsAcc
open Demes Demes.Spec Demes.Proofs.ToMs

/-- the rate (per generation) of the migration into deme `j` from deme `k` active at `t`; `0` when
there is none or an index is out of range -/
def gRate (g : Graph) (j k : Nat) (t : Q) : Q :=
  match g.demes[j]?, g.demes[k]? with
  | some dj, some dk => rateAt g dk.name dj.name t
  | _, _ => 0

theorem gRate_in {g : Graph} {j k : Nat} {dj dk : Deme} (hj : g.demes[j]? = some dj) (hk : g.demes[k]? = some dk)
    (t : Q) : gRate g j k t = rateAt g dk.name dj.name t := by
  unfold gRate; rw [hj, hk]

theorem gRate_out {g : Graph} {j k : Nat} (h : g.demes.length ≤ j ∨ g.demes.length ≤ k) (t : Q) :
    gRate g j k t = 0 := by
  unfold gRate
  rcases h with h | h
  · rw [List.getElem?_eq_none h]
  · rw [List.getElem?_eq_none h]
    split <;> first | rfl | simp_all

/-- `rateAt` is the rate of an active migration of the pair, or `0` when there is none -/
theorem rateAt_cases (g : Graph) (src dst : String) (t : Q) :
    (∃ m ∈ g.migrations, m.source = src ∧ m.dest = dst ∧ activeAt m t = true ∧ rateAt g src dst t = m.rate)
    ∨ ((∀ m ∈ g.migrations, m.source = src → m.dest = dst → activeAt m t = false) ∧ rateAt g src dst t = 0) := by
  unfold rateAt
  cases hf : g.migrations.find? (fun m => m.source == src && m.dest == dst && activeAt m t) with
  | some m =>
    left
    have hp := List.find?_some hf
    simp only [Bool.and_eq_true, beq_iff_eq] at hp
    exact ⟨m, List.mem_of_find?_eq_some hf, hp.1.1, hp.1.2, hp.2, rfl⟩
  | none =>
    right
    refine ⟨?_, rfl⟩
    intro m hm hs hd
    have := List.find?_eq_none.1 hf m hm
    simp only [hs, hd, beq_self_eq_true, Bool.true_and, Bool.not_eq_true] at this
    exact this

section
variable {g : Graph} (c : Clauses g)
include c

theorem rateAt_nonneg (src dst : String) (t : Q) : 0 ≤ rateAt g src dst t := by
  rcases rateAt_cases g src dst t with ⟨m, hm, _, _, _, hr⟩ | ⟨_, hr⟩
  · rw [hr]; exact (migOk_of_valid c hm).rate
  · rw [hr]; exact Rat.le_refl

/-- V8: a rate of the graph is at most one -/
theorem rateAt_le_one (src dst : String) (t : Q) : rateAt g src dst t ≤ 1 := by
  rcases rateAt_cases g src dst t with ⟨m, hm, _, _, _, hr⟩ | ⟨_, hr⟩
  · rw [hr]
    have hf : MigFacts g := migFacts_of c.h1 c.h6 c.h8 c.h9
    obtain ⟨sd, dd, hs, hd, _, _⟩ := hf.mig m hm
    have h8 := c.h8
    simp only [v8, List.all_eq_true] at h8
    have h8m := h8 m hm
    rw [hs, hd] at h8m
    simp only [Bool.and_eq_true, decide_eq_true_eq, coexist] at h8m
    exact h8m.2.2
  · rw [hr]; decide +kernel

theorem gRate_le_one (j k : Nat) (t : Q) : gRate g j k t ≤ 1 := by
  unfold gRate
  split
  · exact rateAt_le_one c _ _ _
  · decide +kernel

theorem gRate_nonneg (j k : Nat) (t : Q) : 0 ≤ gRate g j k t := by
  unfold gRate
  split
  · exact rateAt_nonneg c _ _ _
  · exact Rat.le_refl

omit c in
theorem le_min_iff' {x a b : ETime} (h : x ≤ ETime.min a b) : x ≤ a ∧ x ≤ b := by
  unfold ETime.min at h
  split at h
  · rename_i hab
    exact ⟨h, et_le_trans h hab⟩
  · rename_i hab
    have hba : b ≤ a := by
      cases a <;> cases b <;> simp only [InGen.fin_le_fin, InGen.le_inf, InGen.inf_le_fin] at * <;> grind
    exact ⟨et_le_trans h hba, h⟩

/-- V8: a migration is active only while both its demes exist (backwards: before both start times),
and at a non-negative time -/
theorem active_bounds {m : Migration} (hm : m ∈ g.migrations) {dj dk : Deme} (hdj : dj ∈ g.demes) (hdk : dk ∈ g.demes)
    (hd : m.dest = dj.name) (hs : m.source = dk.name) {t : Q} (hact : activeAt m t = true) :
    ETime.fin t < dj.startTime ∧ ETime.fin t < dk.startTime ∧ 0 ≤ t := by
  have h8 := c.h8
  simp only [v8, List.all_eq_true] at h8
  have h8m := h8 m hm
  rw [hs, hd, findDeme_of_mem c hdj, findDeme_of_mem c hdk] at h8m
  simp only [Bool.and_eq_true, decide_eq_true_eq, coexist] at h8m
  simp only [activeAt, Bool.and_eq_true, decide_eq_true_eq] at hact
  obtain ⟨h1, h2⟩ := le_min_iff' (of_decide_eq_true h8m.2.1.1.2)
  have hf : MigFacts g := migFacts_of c.h1 c.h6 c.h8 c.h9
  have h0 := mig_end_nonneg hf hm
  refine ⟨Demes.Proofs.et_lt_of_lt_of_le hact.1 h2, Demes.Proofs.et_lt_of_lt_of_le hact.1 h1, ?_⟩
  grind

/-- a non-zero rate needs two demes of the graph, both existing at `t ≥ 0` -/
theorem gRate_ne_zero {j k : Nat} {t : Q} (h : gRate g j k t ≠ 0) :
    ∃ dj dk, g.demes[j]? = some dj ∧ g.demes[k]? = some dk
      ∧ ETime.fin t < dj.startTime ∧ ETime.fin t < dk.startTime ∧ 0 ≤ t := by
  unfold gRate at h
  split at h
  · rename_i dj dk hj hk
    rcases rateAt_cases g dk.name dj.name t with ⟨m, hm, hs, hd, hact, _⟩ | ⟨_, hr⟩
    · exact ⟨dj, dk, hj, hk, active_bounds c hm (List.mem_of_getElem? hj) (List.mem_of_getElem? hk) hd hs hact⟩
    · exact absurd hr h
  · exact absurd rfl h

/-- V8: no migration from a deme into itself -/
theorem rateAt_self {d : Deme} (t : Q) : rateAt g d.name d.name t = 0 := by
  rcases rateAt_cases g d.name d.name t with ⟨m, hm, hs, hd, _, _⟩ | ⟨_, hr⟩
  · exfalso
    have h8 := c.h8
    simp only [v8, List.all_eq_true] at h8
    have h8m := h8 m hm
    simp only [Bool.and_eq_true, bne_iff_ne, ne_eq] at h8m
    exact h8m.1 (by rw [hs, hd])
  · exact hr

omit c in
theorem qsumS_filter_zero {α} (p : α → Bool) (f : α → Q) : ∀ l : List α, (∀ x ∈ l, p x = false → f x = 0) →
    qsumS ((l.filter p).map f) = qsumS (l.map f)
  | [], _ => rfl
  | x :: xs, h => by
    have ih := qsumS_filter_zero p f xs (fun y hy => h y (List.mem_cons_of_mem _ hy))
    rw [List.filter_cons]
    cases hp : p x with
    | true => simp only [if_true, List.map_cons, qsumS_cons, ih]
    | false =>
      simp only [Bool.false_eq_true, if_false, List.map_cons, qsumS_cons, ih, h x List.mem_cons_self hp, Rat.zero_add]

omit c in
theorem qsumS_append (a b : List Q) : qsumS (a ++ b) = qsumS a + qsumS b := by
  induction a with
  | nil => simp [qsumS, Rat.zero_add]
  | cons x xs ih => simp only [List.cons_append, qsumS_cons, ih, Rat.add_assoc]

omit c in
theorem range_split {n N : Nat} (h : n ≤ N) : List.range N = List.range n ++ List.range' n (N - n) := by
  rw [List.range_eq_range', List.range_eq_range']
  have := List.range'_append (s := 0) (m := n) (n := N - n) (step := 1)
  simp only [Nat.zero_add, Nat.one_mul] at this
  rw [this]
  congr 1
  omega

/-- **the total rate into a deme**: summing `gRate` over the sources `k ≠ j`, `k < N` (`N` at least the
number of demes) gives the total ingress of V10 -/
theorem gRate_sum {j : Nat} {dj : Deme} (hj : g.demes[j]? = some dj) {N : Nat} (hN : g.demes.length ≤ N) (t : Q) :
    qsumS (((List.range N).filter (fun k => k != j)).map (fun k => gRate g j k t)) = ingressAt g dj.name t := by
  have hf : MigFacts g := migFacts_of c.h1 c.h6 c.h8 c.h9
  rw [qsumS_filter_zero]
  · rw [range_split hN, List.map_append, qsumS_append]
    have h2 : qsumS ((List.range' g.demes.length (N - g.demes.length)).map (fun k => gRate g j k t)) = 0 := by
      apply qsumS_map_zero
      intro k hk
      exact gRate_out (Or.inr (List.mem_range'_1.1 hk).1) t
    rw [h2, Rat.add_zero, ← ingress_eq hf dj.name t]
    congr 1
    apply List.ext_getElem
    · simp
    · intro k h1 h2
      simp only [List.length_map, List.length_range] at h1
      simp only [List.getElem_map, List.getElem_range]
      exact gRate_in hj (List.getElem?_eq_getElem h1) t
  · intro k _ hk
    have : k = j := by simpa using hk
    subst this
    rw [gRate_in hj hj, rateAt_self c]

theorem valid_of_clauses : validGraph g = true := by
  simp only [validGraph, validData, c.h0, c.h1, c.h2, c.h3, c.h4, c.h5, c.h6, c.h8, c.h9, c.h10, c.h11, c.h12, c.h13,
    Bool.and_self]

/-- V10 at every time -/
theorem ingress_ok {d : Deme} (hd : d ∈ g.demes) (t : Q) : ingressOk (ingressAt g d.name t) = true :=
  ingress_all_times (valid_of_clauses c) t d hd

end

/-! ### exact ingress -/

/-- the total ingress at any time is `0` (before time 0) or its value at a boundary time -/
theorem ingressAt_boundary {g : Graph} (hf : MigFacts g) (x : String) (t : Q) :
    ingressAt g x t = 0 ∨ ∃ b ∈ boundaries g, ingressAt g x t = ingressAt g x b := by
  by_cases ht : 0 ≤ t
  · right
    obtain ⟨_, hl, hp, hmem⟩ := mmEndTimes_props g.migrations (times_nonneg hf)
    obtain ⟨k, hk⟩ := intervalOf_exists hl ht
    obtain ⟨hklt, _, _⟩ := intervalOf_spec hk
    have hself := intervalOf_self hp hklt
    have hti : ∀ m ∈ g.migrations, TimesIn (mmEndTimes g.migrations) m := by
      intro m hm
      refine ⟨(hmem _).2 (.inl ((mem_migrationTimes _ _).2 ⟨m, hm, .inr rfl⟩)), ?_⟩
      intro q hq
      exact (hmem _).2 (.inl ((mem_migrationTimes _ _).2 ⟨m, hm, .inl hq⟩))
    refine ⟨(mmEndTimes g.migrations)[k], mem_boundaries ((hmem _).1 (List.getElem_mem hklt)), ?_⟩
    exact ingressAt_congr x t ((mmEndTimes g.migrations)[k]) (fun m hm => by
      rw [← cov_eq_active hp hk m (hti m hm), ← cov_eq_active hp hself m (hti m hm)])
  · left
    simp only [ingressAt]
    rw [List.filter_eq_nil_iff.2]
    · rfl
    · intro m hm
      have := mig_end_nonneg hf hm
      simp only [activeAt, Bool.and_eq_true, decide_eq_true_eq, not_and]
      intro _ _ _
      grind

/-- the total ingress into every deme is at most one *exactly* (validity, V10, allows an excess of
`1e-9` relative) -/
def ExactIngress (g : Graph) : Bool :=
  (boundaries g).all (fun t => g.demes.all (fun d => decide (ingressAt g d.name t ≤ 1)))

theorem exactIngress_all {g : Graph} (c : Clauses g) (h : ExactIngress g = true) {d : Deme} (hd : d ∈ g.demes) (t : Q) :
    ingressAt g d.name t ≤ 1 := by
  have hf : MigFacts g := migFacts_of c.h1 c.h6 c.h8 c.h9
  simp only [ExactIngress, List.all_eq_true, decide_eq_true_eq] at h
  rcases ingressAt_boundary hf d.name t with h0 | ⟨b, hb, hbe⟩
  · rw [h0]; decide +kernel
  · rw [hbe]; exact h b hb d hd

end Demes.Proofs.MsAcc
