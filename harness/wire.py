"""Wire format between the harness and the Lean driver, and canonicalisation of Python values.

    null | true | false | "string" | [ ... ] | {"n": "p/q" | "inf" | "-inf" | "nan"}
    | {"o": [[key, value], ...]}         (ordered mapping)
"""
from __future__ import annotations

import json
import math
import os
import subprocess
import threading
from fractions import Fraction

VERIF = os.path.dirname(os.path.dirname(os.path.abspath(__file__)))
DRIVER = os.path.join(VERIF, "lean", ".lake", "build", "bin", "driver")


def num_str(x) -> str:
    if isinstance(x, bool):
        return "1" if x else "0"
    if isinstance(x, int):
        return str(x)
    if isinstance(x, Fraction):
        return str(x.numerator) if x.denominator == 1 else f"{x.numerator}/{x.denominator}"
    x = float(x)
    if math.isnan(x):
        return "nan"
    if math.isinf(x):
        return "inf" if x > 0 else "-inf"
    f = Fraction(x)
    return str(f.numerator) if f.denominator == 1 else f"{f.numerator}/{f.denominator}"


def enc(v):
    """Python document -> wire JSON (bools stay bools: the Model treats them as Python does)."""
    if v is None:
        return None
    if isinstance(v, bool):
        return v
    if isinstance(v, (int, float, Fraction)):
        return {"n": num_str(v)}
    if isinstance(v, str):
        return str(v)
    if isinstance(v, (list, tuple)):
        return [enc(x) for x in v]
    if isinstance(v, dict):
        return {"o": [[str(k), enc(x)] for k, x in v.items()]}
    raise TypeError(f"cannot encode {type(v)}")


def dec(j):
    """wire JSON -> Python value with exact numbers (Fraction / float inf / nan)."""
    if j is None or isinstance(j, (bool, str)):
        return j
    if isinstance(j, (int, float)):
        return Fraction(j)
    if isinstance(j, list):
        return [dec(x) for x in j]
    if isinstance(j, dict):
        if "n" in j:
            s = j["n"]
            if s == "inf":
                return math.inf
            if s == "-inf":
                return -math.inf
            if s == "nan":
                return math.nan
            return Fraction(s)
        if "o" in j:
            return {k: dec(x) for k, x in j["o"]}
    raise TypeError(f"cannot decode {j!r}")


def canon(v):
    """Canonical, comparable form of a Python value: numbers -> Fraction (or +-inf), bool -> int
    as `asdict` would coerce it, tuples -> lists."""
    if v is None:
        return None
    if isinstance(v, bool):
        return Fraction(int(v))
    if isinstance(v, int):
        return Fraction(v)
    if isinstance(v, float):
        if math.isinf(v) or math.isnan(v):
            return v
        return Fraction(v)
    if isinstance(v, Fraction):
        return v
    if isinstance(v, str):
        return str(v)
    if isinstance(v, (list, tuple)):
        return [canon(x) for x in v]
    if isinstance(v, dict):
        return {str(k): canon(x) for k, x in v.items()}
    raise TypeError(f"cannot canonicalise {type(v)}")


def canon_eq(a, b) -> bool:
    """equality of canonical values, dict order included"""
    if isinstance(a, dict) and isinstance(b, dict):
        return list(a.keys()) == list(b.keys()) and all(canon_eq(a[k], b[k]) for k in a)
    if isinstance(a, list) and isinstance(b, list):
        return len(a) == len(b) and all(canon_eq(x, y) for x, y in zip(a, b))
    if isinstance(a, float) and isinstance(b, float) and math.isnan(a) and math.isnan(b):
        return True
    return type(a) == type(b) and a == b


def show(v):
    """JSON-printable rendering of a canonical value (for replay files and evidence samples)."""
    if isinstance(v, Fraction):
        return int(v) if v.denominator == 1 else f"{v.numerator}/{v.denominator}"
    if isinstance(v, float):
        return "Infinity" if v == math.inf else ("-Infinity" if v == -math.inf else "NaN")
    if isinstance(v, (list, tuple)):
        return [show(x) for x in v]
    if isinstance(v, dict):
        return {k: show(x) for k, x in v.items()}
    return v


class Driver:
    """Runs the compiled Lean driver on a batch of requests."""

    def __init__(self, path: str = DRIVER):
        self.path = path
        if not os.path.exists(path):
            raise FileNotFoundError(f"driver not built: {path}")
        self.requests = 0

    def batch(self, requests: list) -> list:
        if not requests:
            return []
        data = "".join(json.dumps(r, separators=(",", ":")) + "\n" for r in requests).encode()
        proc = subprocess.Popen([self.path], stdin=subprocess.PIPE, stdout=subprocess.PIPE)
        out = []

        def feed():
            try:
                proc.stdin.write(data)
                proc.stdin.close()
            except BrokenPipeError:
                pass

        t = threading.Thread(target=feed)
        t.start()
        raw = proc.stdout.read()
        t.join()
        proc.wait()
        lines = raw.decode().split("\n")   # not splitlines(): U+0085 / U+2028 inside strings are not line ends
        if lines and lines[-1] == "":
            lines.pop()
        if len(lines) != len(requests):
            raise RuntimeError(
                f"driver answered {len(lines)} of {len(requests)} requests (exit {proc.returncode})"
            )
        self.requests += len(requests)
        for line in lines:
            out.append(json.loads(line))
        return out
