/-
  Pinned copies of the source tables the Model was written against (classes' attr.ib
  validators, ms parser and option records, CLI flags).  Produced from Generated/*.lean by
  harness/pin_tables.py, by hand (never at check time); `Theorems/Tables*.lean` prove the
  freshly regenerated tables equal to these.
-/
namespace Demes.Pinned

/-- per class: field, validator source text, default source text -/
def classEpoch : List (String × String × String) := [
  ("start_time", "[int_or_float, non_negative]", "-"),
  ("end_time", "[int_or_float, non_negative, finite]", "-"),
  ("start_size", "[int_or_float, positive, finite]", "-"),
  ("end_size", "[int_or_float, positive, finite]", "-"),
  ("size_function", "attr.validators.in_(['constant', 'exponential', 'linear'])", "-"),
  ("selfing_rate", "[int_or_float, unit_interval]", "default=0"),
  ("cloning_rate", "[int_or_float, unit_interval]", "default=0")]
def classAsymmetricMigration : List (String × String × String) := [
  ("source", "[attr.validators.instance_of(str), valid_deme_name]", "-"),
  ("dest", "[attr.validators.instance_of(str), valid_deme_name]", "-"),
  ("start_time", "[int_or_float, non_negative]", "-"),
  ("end_time", "[int_or_float, non_negative, finite]", "-"),
  ("rate", "[int_or_float, unit_interval]", "-")]
def classPulse : List (String × String × String) := [
  ("sources", "attr.validators.and_(attr.validators.deep_iterable(member_validator=attr.validators.and_(attr.validators.instance_of(str), valid_deme_name), iterable_validator=attr.validators.instance_of(list)), nonzero_len)", "-"),
  ("dest", "[attr.validators.instance_of(str), valid_deme_name]", "-"),
  ("time", "[int_or_float, positive, finite]", "-"),
  ("proportions", "attr.validators.deep_iterable(member_validator=attr.validators.and_(int_or_float, unit_interval_exclusive_lo), iterable_validator=attr.validators.instance_of(list))", "-")]
def classDeme : List (String × String × String) := [
  ("name", "[attr.validators.instance_of(str), valid_deme_name]", "-"),
  ("description", "attr.validators.instance_of(str)", "default=''"),
  ("start_time", "[int_or_float, positive]", "-"),
  ("ancestors", "attr.validators.deep_iterable(member_validator=attr.validators.and_(attr.validators.instance_of(str), valid_deme_name), iterable_validator=attr.validators.instance_of(list))", "-"),
  ("proportions", "attr.validators.deep_iterable(member_validator=int_or_float, iterable_validator=attr.validators.instance_of(list))", "-"),
  ("epochs", "attr.validators.deep_iterable(member_validator=attr.validators.instance_of(Epoch), iterable_validator=attr.validators.instance_of(list))", "-")]
def classGraph : List (String × String × String) := [
  ("description", "attr.validators.instance_of(str)", "default=''"),
  ("time_units", "[attr.validators.instance_of(str), nonzero_len]", "-"),
  ("generation_time", "attr.validators.optional([int_or_float, positive, finite])", "default=None"),
  ("doi", "attr.validators.deep_iterable(member_validator=attr.validators.and_(attr.validators.instance_of(str), nonzero_len), iterable_validator=attr.validators.instance_of(list))", "factory=list"),
  ("metadata", "attr.validators.instance_of(collections.abc.Mapping)", "factory=dict"),
  ("demes", "-", "factory=list"),
  ("migrations", "-", "factory=list"),
  ("pulses", "-", "factory=list"),
  ("_deme_map", "-", "factory=dict")]
def classSplit : List (String × String × String) := [
  ("parent", "[attr.validators.instance_of(str), valid_deme_name]", "-"),
  ("children", "attr.validators.and_(attr.validators.deep_iterable(member_validator=attr.validators.and_(attr.validators.instance_of(str), valid_deme_name), iterable_validator=attr.validators.instance_of(list)), nonzero_len)", "-"),
  ("time", "[int_or_float, non_negative, finite]", "-")]
def classBranch : List (String × String × String) := [
  ("parent", "[attr.validators.instance_of(str), valid_deme_name]", "-"),
  ("child", "[attr.validators.instance_of(str), valid_deme_name]", "-"),
  ("time", "[int_or_float, non_negative, finite]", "-")]
def classMerge : List (String × String × String) := [
  ("parents", "attr.validators.deep_iterable(member_validator=attr.validators.and_(attr.validators.instance_of(str), valid_deme_name), iterable_validator=attr.validators.instance_of(list))", "-"),
  ("proportions", "attr.validators.deep_iterable(member_validator=int_or_float, iterable_validator=attr.validators.instance_of(list))", "-"),
  ("child", "[attr.validators.instance_of(str), valid_deme_name]", "-"),
  ("time", "[int_or_float, non_negative, finite]", "-")]
def classAdmix : List (String × String × String) := [
  ("parents", "attr.validators.deep_iterable(member_validator=attr.validators.and_(attr.validators.instance_of(str), valid_deme_name), iterable_validator=attr.validators.instance_of(list))", "-"),
  ("proportions", "attr.validators.deep_iterable(member_validator=int_or_float, iterable_validator=attr.validators.instance_of(list))", "-"),
  ("child", "[attr.validators.instance_of(str), valid_deme_name]", "-"),
  ("time", "[int_or_float, non_negative, finite]", "-")]

/-- ms parser: flag, nargs, action, dest, default -/
def msParser : List (String × String × String × String × String) := [
  ("-f", "-", "LoadFromFile", "-", "-"),
  ("-I", "'+'", "coerce_nargs(Structure.from_nargs)", "'structure'", "-"),
  ("-n", "2", "coerce_nargs(lambda *x: PopulationSizeChange(0, *x), append=True)", "'initial_state'", "[]"),
  ("-g", "2", "coerce_nargs(lambda *x: PopulationGrowthRateChange(0, *x), append=True)", "'initial_state'", "[]"),
  ("-G", "1", "coerce_nargs(lambda *x: GrowthRateChange(0, *x), append=True)", "'initial_state'", "[]"),
  ("-m", "3", "coerce_nargs(lambda *x: MigrationMatrixEntryChange(0, *x), append=True)", "'initial_state'", "[]"),
  ("-ma", "'+'", "coerce_nargs(lambda *x: MigrationMatrixChange.from_nargs(0, 1, *x), append=True)", "'initial_state'", "[]"),
  ("-eG", "2", "coerce_nargs(GrowthRateChange, append=True)", "'demographic_events'", "[]"),
  ("-eg", "3", "coerce_nargs(PopulationGrowthRateChange, append=True)", "'demographic_events'", "[]"),
  ("-eN", "2", "coerce_nargs(SizeChange, append=True)", "'demographic_events'", "[]"),
  ("-en", "3", "coerce_nargs(PopulationSizeChange, append=True)", "'demographic_events'", "[]"),
  ("-eM", "2", "coerce_nargs(MigrationRateChange, append=True)", "'demographic_events'", "[]"),
  ("-em", "4", "coerce_nargs(MigrationMatrixEntryChange, append=True)", "'demographic_events'", "[]"),
  ("-ema", "'+'", "coerce_nargs(MigrationMatrixChange.from_nargs, append=True)", "'demographic_events'", "[]"),
  ("-es", "3", "coerce_nargs(Split, append=True)", "'demographic_events'", "[]"),
  ("-ej", "3", "coerce_nargs(Join, append=True)", "'demographic_events'", "[]")]

def msStructure : List String × List (String × String × String) := (["Option"], [("npop", "int", "positive"), ("n", "-", "-"), ("rate", "float", "non_negative")])
def msEvent : List String × List (String × String × String) := (["Option"], [("t", "float", "non_negative")])
def msGrowthRateChange : List String × List (String × String × String) := (["Event"], [("alpha", "float", "finite")])
def msPopulationGrowthRateChange : List String × List (String × String × String) := (["Event"], [("i", "int", "positive"), ("alpha", "float", "finite")])
def msSizeChange : List String × List (String × String × String) := (["Event"], [("x", "float", "non_negative")])
def msPopulationSizeChange : List String × List (String × String × String) := (["Event"], [("i", "int", "positive"), ("x", "float", "non_negative")])
def msMigrationRateChange : List String × List (String × String × String) := (["Event"], [("x", "float", "non_negative")])
def msMigrationMatrixEntryChange : List String × List (String × String × String) := (["Event"], [("i", "int", "positive"), ("j", "int", "positive"), ("rate", "float", "non_negative")])
def msMigrationMatrixChange : List String × List (String × String × String) := (["Event"], [("npop", "int", "positive"), ("mm_vector", "-", "-")])
def msSplit : List String × List (String × String × String) := (["Event"], [("i", "int", "positive"), ("p", "float", "unit_interval")])
def msJoin : List String × List (String × String × String) := (["Event"], [("i", "int", "positive"), ("j", "int", "positive")])
def msFloatStr : String := "\"\"\"\n    Convert float to string, for use in command line arguments.\n    \"\"\"\nif a < 0:\n    return format(a, '.10f')\nelse:\n    return str(a)"
def cliParseFlags : List (String × String × String × String) := [
  ("-j --json", "'store_true'", "-", "False"),
  ("--ms", "-", "float", "None"),
  ("-s --simplified", "'store_true'", "-", "False"),
  ("filename", "-", "argparse.FileType()", "-")]
def cliParseTests : List String := ["args.json", "args.ms is not None", "args.ms and args.simplified", "num_documents == 0", "num_documents == 1", "args.ms is not None", "output_format != 'yaml'"]

end Demes.Pinned
