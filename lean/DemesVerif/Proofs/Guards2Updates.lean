/-
  Support for `Theorems/TablesGuardsRescale.lean` (C11) and `Theorems/TablesGuardsRename.lean` (C15).
  Nothing here depends on `Generated/`.

  The meaning of the update tables the extractor reads off `Graph.in_generations` and
  `Graph.rename_demes` (harness/extract_tables.py, `updates_table`): a row
  `(path, attribute, operation, argument)` is ONE update statement of the source, standing inside the
  loops that walk `path` from the deep copy `graph`; `applyUpdates` performs the rows one after the other,
  as the source does (each loop nest is finished before the next statement starts; rows of one loop body
  touch different attributes and read only `graph.generation_time` / `names`, which no loop changes, so
  row-after-row is element-after-element).  A row the interpreter does not know yields `none`.
-/
import DemesVerif.Model.Views
namespace Demes.Proofs.Guards2
open Demes

abbrev UpdRow := List String × String × String × String

def mapDemes (g : Graph) (f : Deme → Deme) : Graph := { g with demes := g.demes.map f }
def mapEpochs (g : Graph) (f : Epoch → Epoch) : Graph := mapDemes g (fun d => { d with epochs := d.epochs.map f })
def mapMigrations (g : Graph) (f : Migration → Migration) : Graph := { g with migrations := g.migrations.map f }
def mapPulses (g : Graph) (f : Pulse → Pulse) : Graph := { g with pulses := g.pulses.map f }

/-- `x.attr /= graph.generation_time` for every `x` reached through `path` (all numeric attributes of the four
classes are known, so that dividing one the Model does not divide shows up as a different graph) -/
def divUpdate (g : Graph) (path : List String) (attr : String) : Option Graph :=
  let gt := g.generationTime
  if path = ["demes"] then
    if attr = "start_time" then some (mapDemes g fun d => { d with startTime := d.startTime.div gt })
    else if attr = "proportions" then some (mapDemes g fun d => { d with proportions := d.proportions.map (· / gt) })
    else none
  else if path = ["demes", "epochs"] then
    if attr = "start_time" then some (mapEpochs g fun e => { e with startTime := e.startTime.div gt })
    else if attr = "end_time" then some (mapEpochs g fun e => { e with endTime := e.endTime / gt })
    else if attr = "start_size" then some (mapEpochs g fun e => { e with startSize := e.startSize / gt })
    else if attr = "end_size" then some (mapEpochs g fun e => { e with endSize := e.endSize / gt })
    else if attr = "selfing_rate" then some (mapEpochs g fun e => { e with selfingRate := e.selfingRate / gt })
    else if attr = "cloning_rate" then some (mapEpochs g fun e => { e with cloningRate := e.cloningRate / gt })
    else none
  else if path = ["migrations"] then
    if attr = "start_time" then some (mapMigrations g fun m => { m with startTime := m.startTime.div gt })
    else if attr = "end_time" then some (mapMigrations g fun m => { m with endTime := m.endTime / gt })
    else if attr = "rate" then some (mapMigrations g fun m => { m with rate := m.rate / gt })
    else none
  else if path = ["pulses"] then
    if attr = "time" then some (mapPulses g fun p => { p with time := p.time / gt })
    else if attr = "proportions" then some (mapPulses g fun p => { p with proportions := p.proportions.map (· / gt) })
    else none
  else none

/-- `if x.attr in names: x.attr = names[x.attr]` (`Rename`) and
`x.attr = [names[v] if v in names else v for v in x.attr]` (`RenameEach`): both are `Renaming.apply` -/
def renameUpdate (r : Renaming) (g : Graph) (path : List String) (attr op : String) : Option Graph :=
  if path = ["demes"] then
    if attr = "name" ∧ op = "Rename" then some (mapDemes g fun d => { d with name := r.apply d.name })
    else if attr = "ancestors" ∧ op = "RenameEach" then some (mapDemes g fun d => { d with ancestors := d.ancestors.map r.apply })
    else if attr = "description" ∧ op = "Rename" then some (mapDemes g fun d => { d with description := r.apply d.description })
    else none
  else if path = ["demes", "epochs"] then
    if attr = "size_function" ∧ op = "Rename" then some (mapEpochs g fun e => { e with sizeFunction := r.apply e.sizeFunction })
    else none
  else if path = ["migrations"] then
    if attr = "source" ∧ op = "Rename" then some (mapMigrations g fun m => { m with source := r.apply m.source })
    else if attr = "dest" ∧ op = "Rename" then some (mapMigrations g fun m => { m with dest := r.apply m.dest })
    else none
  else if path = ["pulses"] then
    if attr = "sources" ∧ op = "RenameEach" then some (mapPulses g fun p => { p with sources := p.sources.map r.apply })
    else if attr = "dest" ∧ op = "Rename" then some (mapPulses g fun p => { p with dest := r.apply p.dest })
    else none
  else none

/-- one row; `names` is the name the source gives the renaming (`rename_demes(self, names)`) -/
def applyUpdate (r : Renaming) (g : Graph) (u : UpdRow) : Option Graph :=
  match u with
  | (path, attr, op, arg) =>
    if op = "Div" then (if arg = "generation_time" then divUpdate g path attr else none)
    else if op = "SetStr" then
      (if path = [] ∧ attr = "time_units" then some { g with timeUnits := arg }
       else if path = [] ∧ attr = "description" then some { g with description := arg }
       else none)
    else if op = "SetInt" then
      -- the only integer literal the interpreter knows is `1`
      (if path = [] ∧ attr = "generation_time" ∧ arg = "1" then some { g with generationTime := 1 } else none)
    else if op = "Rename" ∨ op = "RenameEach" then (if arg = "names" then renameUpdate r g path attr op else none)
    else if op = "IndexBy" then
      -- `graph._deme_map = {deme.name: deme for deme in graph.demes}`
      (if path = [] ∧ attr = "_deme_map" ∧ arg = "demes.name" then some { g with index := rebuildIndex g.demes } else none)
    else none

def applyUpdates (r : Renaming) (tbl : List UpdRow) (g : Graph) : Option Graph := tbl.foldlM (applyUpdate r) g

end Demes.Proofs.Guards2
