/-
  C07 — `normalizeProportions` (Spec/C07Sem.lean): the graph with every deme's ancestry
  proportions divided by their sum.  This file: it maps valid graphs to valid graphs whose
  proportions sum to exactly one, it is the identity on graphs with exact proportions, and it
  moves every proportion by at most the relative tolerance validation allows.
-/
import DemesVerif.Spec.C07Sem
import DemesVerif.Proofs.ToMsValid
import DemesVerif.Proofs.InGenerations
import Mathlib.Tactic.FieldSimp
import Mathlib.Tactic.Ring
import Mathlib.Tactic.Linarith
import Mathlib.Algebra.Order.Field.Rat
set_option linter.unusedSimpArgs false
set_option linter.unusedVariables false
namespace Demes.Proofs.ToMsNorm
open Demes Demes.Spec Demes.Spec.C07 Demes.Proofs.ToMs
open Demes.Proofs.InGen (all_congr_mem all_map' any_map')

/-! ### arithmetic -/

theorem qsumS_map_div (ps : List Q) (s : Q) : qsumS (ps.map (fun p => p / s)) = qsumS ps / s := by
  induction ps with
  | nil => simp [qsumS]
  | cons p ps ih =>
    have : qsumS (p :: ps) = p + qsumS ps := rfl
    rw [List.map_cons, this]
    have h2 : qsumS (p / s :: ps.map (fun p => p / s)) = p / s + qsumS (ps.map (fun p => p / s)) := rfl
    rw [h2, ih]
    ring

theorem qsumS_nonneg {ps : List Q} (hp : ∀ p ∈ ps, 0 < p) : 0 ≤ qsumS ps := by
  induction ps with
  | nil => simp [qsumS]
  | cons p ps ih =>
    have : qsumS (p :: ps) = p + qsumS ps := rfl
    rw [this]
    have h1 := hp p List.mem_cons_self
    have h2 := ih (fun q hq => hp q (List.mem_cons_of_mem _ hq))
    linarith

/-- every member of a list of positive numbers is at most the sum -/
theorem le_qsumS {ps : List Q} (hp : ∀ p ∈ ps, 0 < p) {x : Q} (hx : x ∈ ps) : x ≤ qsumS ps := by
  induction ps with
  | nil => cases hx
  | cons p ps ih =>
    have : qsumS (p :: ps) = p + qsumS ps := rfl
    rw [this]
    have h1 := hp p List.mem_cons_self
    have h2 := qsumS_nonneg (fun q hq => hp q (List.mem_cons_of_mem _ hq))
    rcases List.mem_cons.1 hx with rfl | hx'
    · linarith
    · have := ih (fun q hq => hp q (List.mem_cons_of_mem _ hq)) hx'
      linarith

theorem qsumS_pos {ps : List Q} (hp : ∀ p ∈ ps, 0 < p) (hne : ps ≠ []) : 0 < qsumS ps := by
  cases ps with
  | nil => exact absurd rfl hne
  | cons p ps =>
    have := le_qsumS hp (List.mem_cons_self (a := p) (l := ps))
    have h1 := hp p List.mem_cons_self
    linarith

theorem div_div_div_cancel (a b s : Q) (hs : s ≠ 0) : a / s / (b / s) = a / b := by
  by_cases hb : b = 0
  · subst hb; simp
  · field_simp

theorem map_div_one (ps : List Q) : ps.map (fun p => p / (1 : Q)) = ps := by
  induction ps with
  | nil => rfl
  | cons p ps ih => rw [List.map_cons, ih]; simp

/-! ### fields of the normalised objects -/

@[simp] theorem normDeme_name (d : Deme) : (normDeme d).name = d.name := rfl
@[simp] theorem normDeme_description (d : Deme) : (normDeme d).description = d.description := rfl
@[simp] theorem normDeme_startTime (d : Deme) : (normDeme d).startTime = d.startTime := rfl
@[simp] theorem normDeme_ancestors (d : Deme) : (normDeme d).ancestors = d.ancestors := rfl
@[simp] theorem normDeme_epochs (d : Deme) : (normDeme d).epochs = d.epochs := rfl
theorem normDeme_proportions (d : Deme) :
    (normDeme d).proportions = d.proportions.map (fun p => p / qsumS d.proportions) := rfl
@[simp] theorem normDeme_endTime (d : Deme) : (normDeme d).endTime = d.endTime := rfl

@[simp] theorem norm_demes (g : Graph) : (normalizeProportions g).demes = g.demes.map normDeme := rfl
@[simp] theorem norm_migrations (g : Graph) : (normalizeProportions g).migrations = g.migrations := rfl
@[simp] theorem norm_pulses (g : Graph) : (normalizeProportions g).pulses = g.pulses := rfl
@[simp] theorem norm_index (g : Graph) : (normalizeProportions g).index = g.index := rfl
@[simp] theorem norm_timeUnits (g : Graph) : (normalizeProportions g).timeUnits = g.timeUnits := rfl
@[simp] theorem norm_generationTime (g : Graph) :
    (normalizeProportions g).generationTime = g.generationTime := rfl
@[simp] theorem norm_doi (g : Graph) : (normalizeProportions g).doi = g.doi := rfl
@[simp] theorem norm_description (g : Graph) : (normalizeProportions g).description = g.description := rfl
@[simp] theorem norm_metadata (g : Graph) : (normalizeProportions g).metadata = g.metadata := rfl

theorem findDeme_norm (g : Graph) (a : String) :
    findDeme (normalizeProportions g) a = (findDeme g a).map normDeme := by
  unfold findDeme
  rw [norm_demes, List.find?_map]
  rfl

/-- normalisation commutes with the conversion to generations -/
theorem norm_inGen (g : Graph) :
    inGenerations (normalizeProportions g) = normalizeProportions (inGenerations g) := by
  show ({ normalizeProportions g with
      demes := (g.demes.map normDeme).map (Deme.scale g.generationTime)
      migrations := g.migrations.map (Migration.scale g.generationTime)
      pulses := g.pulses.map (Pulse.scale g.generationTime)
      timeUnits := "generations", generationTime := 1 } : Graph)
    = { inGenerations g with demes := (g.demes.map (Deme.scale g.generationTime)).map normDeme }
  rw [List.map_map, List.map_map]
  rfl

/-! ### the clauses of `validGraph` -/

theorem v0_norm (g : Graph) : v0 (normalizeProportions g) = v0 g := by
  unfold v0
  rw [norm_index, norm_demes, List.zipIdx_map, List.map_map]
  rfl

theorem v1_norm (g : Graph) : v1 (normalizeProportions g) = v1 g := by
  unfold v1
  rw [norm_demes, List.isEmpty_map, all_map', List.map_map]
  rfl

theorem v2_norm (g : Graph) : v2 (normalizeProportions g) = v2 g := by
  unfold v2
  rw [norm_demes, List.zipIdx_map, all_map']
  apply all_congr_mem
  rintro ⟨d, i⟩ _
  simp only [Prod.map, id, normDeme_ancestors, normDeme_name, ← List.map_take, any_map']
  rfl

theorem v3_norm (g : Graph) : v3 (normalizeProportions g) = v3 g := by
  unfold v3
  rw [norm_demes, all_map']
  apply all_congr_mem
  intro d _
  simp only [normDeme_ancestors, normDeme_startTime]
  congr 2
  apply all_congr_mem
  intro a _
  rw [findDeme_norm]
  cases findDeme g a with
  | none => rfl
  | some anc => rfl

theorem v5_norm (g : Graph) : v5 (normalizeProportions g) = v5 g := by
  unfold v5
  rw [norm_demes, all_map']
  rfl

theorem v6_norm (g : Graph) : v6 (normalizeProportions g) = v6 g := by
  unfold v6
  rw [norm_demes, all_map']
  rfl

theorem v8_norm (g : Graph) : v8 (normalizeProportions g) = v8 g := by
  unfold v8
  rw [norm_migrations]
  apply all_congr_mem
  intro m _
  simp only [findDeme_norm]
  cases findDeme g m.source with
  | none => rfl
  | some s =>
    cases findDeme g m.dest with
    | none => rfl
    | some d => rfl

theorem v9_norm (g : Graph) : v9 (normalizeProportions g) = v9 g := rfl

theorem v10_norm (g : Graph) : v10 (normalizeProportions g) = v10 g := by
  unfold v10
  have hb : boundaries (normalizeProportions g) = boundaries g := rfl
  rw [hb]
  apply all_congr_mem
  intro t _
  rw [norm_demes, all_map']
  rfl

theorem v11_norm (g : Graph) : v11 (normalizeProportions g) = v11 g := by
  unfold v11
  rw [norm_pulses]
  apply all_congr_mem
  intro p _
  simp only [findDeme_norm]
  congr 1
  cases findDeme g p.dest with
  | none => rfl
  | some d =>
    simp only [Option.map_some, normDeme_endTime]
    congr 1
    apply all_congr_mem
    intro s _
    cases findDeme g s with
    | none => rfl
    | some sd => rfl

theorem v12_norm (g : Graph) : v12 (normalizeProportions g) = v12 g := rfl
theorem v13_norm (g : Graph) : v13 (normalizeProportions g) = v13 g := rfl

/-- what V4 says of one deme -/
theorem v4_deme {g : Graph} (h : v4 g = true) {d : Deme} (hd : d ∈ g.demes) :
    d.proportions.length = d.ancestors.length ∧ (∀ p ∈ d.proportions, 0 < p ∧ p ≤ 1)
      ∧ (d.proportions = [] ∨ closeTo1 (qsumS d.proportions) = true) := by
  simp only [v4, List.all_eq_true, Bool.and_eq_true, beq_iff_eq, decide_eq_true_eq,
    Bool.or_eq_true, List.isEmpty_iff] at h
  exact ⟨(h d hd).1.1, (h d hd).1.2, (h d hd).2⟩

theorem closeTo1_one : closeTo1 1 = true := by simp [closeTo1]

theorem v4_norm {g : Graph} (h : v4 g = true) : v4 (normalizeProportions g) = true := by
  unfold v4
  rw [norm_demes, all_map', List.all_eq_true]
  intro d hd
  obtain ⟨hl, hp, _⟩ := v4_deme h hd
  have hpos : ∀ p ∈ d.proportions, 0 < p := fun p hp' => (hp p hp').1
  simp only [Bool.and_eq_true, beq_iff_eq, Bool.or_eq_true, List.all_eq_true, decide_eq_true_eq,
    List.isEmpty_iff, normDeme_ancestors, normDeme_proportions, List.length_map, List.mem_map]
  refine ⟨⟨hl, ?_⟩, ?_⟩
  · rintro x ⟨p, hp', rfl⟩
    have hne : d.proportions ≠ [] := List.ne_nil_of_mem hp'
    have hs := qsumS_pos hpos hne
    exact ⟨_root_.div_pos (hpos p hp') hs, (div_le_iff₀ hs).2 (by rw [one_mul]; exact le_qsumS hpos hp')⟩
  · by_cases hne : d.proportions = []
    · left; rw [hne]; rfl
    · right
      have hs := qsumS_pos hpos hne
      rw [qsumS_map_div, div_self (ne_of_gt hs)]
      exact closeTo1_one

theorem validGraph_norm {g : Graph} (hv : validGraph g = true) :
    validGraph (normalizeProportions g) = true := by
  have c := clauses_of_valid hv
  simp only [validGraph, validData, Bool.and_eq_true, v0_norm, v1_norm, v2_norm, v3_norm, v5_norm,
    v6_norm, v8_norm, v9_norm, v10_norm, v11_norm, v12_norm, v13_norm, v4_norm c.h4]
  exact ⟨c.h0, ⟨⟨⟨⟨⟨⟨⟨⟨⟨⟨⟨c.h1, c.h2⟩, c.h3⟩, trivial⟩, c.h5⟩, c.h6⟩, c.h8⟩, c.h9⟩, c.h10⟩, c.h11⟩,
    c.h12⟩, c.h13⟩⟩

/-! ### exactness -/

/-- after normalisation the proportions of every deme of a valid graph sum to exactly one -/
theorem exact_norm {g : Graph} (h : v4 g = true) : ExactProportions (normalizeProportions g) = true := by
  unfold ExactProportions
  rw [norm_demes, all_map', List.all_eq_true]
  intro d hd
  obtain ⟨_, hp, _⟩ := v4_deme h hd
  have hpos : ∀ p ∈ d.proportions, 0 < p := fun p hp' => (hp p hp').1
  simp only [Bool.or_eq_true, List.isEmpty_iff, beq_iff_eq, normDeme_proportions]
  by_cases hne : d.proportions = []
  · left; rw [hne]; rfl
  · right
    rw [qsumS_map_div, div_self (ne_of_gt (qsumS_pos hpos hne))]

theorem normDeme_exact {d : Deme} (h : d.proportions = [] ∨ qsumS d.proportions = 1) : normDeme d = d := by
  have : (normDeme d).proportions = d.proportions := by
    rw [normDeme_proportions]
    rcases h with h | h
    · rw [h]; rfl
    · rw [h, map_div_one]
  cases d
  simp only [normDeme] at this ⊢
  rw [this]

/-- Statement of `Theorems.normalizeProportions_exact`. -/
theorem normalizeProportions_exact {g : Graph} (hex : ExactProportions g = true) :
    normalizeProportions g = g := by
  have : g.demes.map normDeme = g.demes := by
    have h : ∀ d ∈ g.demes, normDeme d = d := by
      intro d hd
      simp only [ExactProportions, List.all_eq_true, Bool.or_eq_true, beq_iff_eq, List.isEmpty_iff] at hex
      exact normDeme_exact (hex d hd)
    calc g.demes.map normDeme = g.demes.map id := List.map_congr_left h
      _ = g.demes := List.map_id _
  cases g
  simp only [normalizeProportions] at this ⊢
  rw [this]

/-! ### closeness -/

/-- the distance between a proportion and its normalisation, for a sum that `closeTo1` accepts -/
theorem norm_close_arith {p s : Q} (hp : 0 < p) (hs : 0 < s) (hc : closeTo1 s = true) :
    qabs (p / s - p) ≤ relTol / (1 - relTol) * p := by
  have hr0 : (0 : Q) < relTol := by decide +kernel
  have hr1 : relTol < (1 : Q) / 2 := by decide +kernel
  have h1r : (0 : Q) < 1 - relTol := by linarith
  -- `|s - 1| ≤ relTol * max(s, 1)`
  have hclose : qabs (s - 1) ≤ relTol * qmax (qabs s) 1 := by
    simp only [closeTo1, Bool.or_eq_true, beq_iff_eq, decide_eq_true_eq] at hc
    rcases hc with h | h
    · subst h
      simp only [qabs, qmax]
      norm_num
      exact le_of_lt hr0
    · exact h
  have habs : qabs s = s := by simp only [qabs]; rw [if_neg (not_lt.2 (le_of_lt hs))]
  rw [habs] at hclose
  have hkey : p / s - p = p * (1 - s) / s := by field_simp
  rw [hkey]
  have hrr : relTol / (1 - relTol) * p = p * relTol / (1 - relTol) := by ring
  rw [hrr]
  by_cases hs1 : s ≤ 1
  · -- `s ≤ 1`: `1 - s ≤ relTol`, and `s ≥ 1 - relTol`
    have hm : qmax s 1 = 1 := by simp only [qmax]; rw [if_pos hs1]
    rw [hm] at hclose
    have ha : qabs (s - 1) = 1 - s := by
      simp only [qabs]
      by_cases h : s - 1 < 0
      · rw [if_pos h]; ring
      · rw [if_neg h]
        have : s = 1 := by linarith
        rw [this]
    rw [ha] at hclose
    have hnn : 0 ≤ p * (1 - s) / s := div_nonneg (mul_nonneg (le_of_lt hp) (by linarith)) (le_of_lt hs)
    have : qabs (p * (1 - s) / s) = p * (1 - s) / s := by
      simp only [qabs]; rw [if_neg (not_lt.2 hnn)]
    rw [this, div_le_div_iff₀ hs h1r]
    have h1 : 1 - s ≤ relTol := by linarith
    have h2 : 1 - relTol ≤ s := by linarith
    have h3 : 0 ≤ 1 - s := by linarith
    calc p * (1 - s) * (1 - relTol) ≤ p * relTol * (1 - relTol) := by
            apply mul_le_mul_of_nonneg_right _ (le_of_lt h1r)
            exact mul_le_mul_of_nonneg_left h1 (le_of_lt hp)
      _ ≤ p * relTol * s := by
            apply mul_le_mul_of_nonneg_left h2
            exact mul_nonneg (le_of_lt hp) (le_of_lt hr0)
  · -- `s > 1`: `s - 1 ≤ relTol * s`
    have hs1' : 1 < s := lt_of_not_ge hs1
    have hm : qmax s 1 = s := by
      simp only [qmax]; rw [if_neg (not_le.2 hs1')]
    rw [hm] at hclose
    have ha : qabs (s - 1) = s - 1 := by
      simp only [qabs]; rw [if_neg (by linarith)]
    rw [ha] at hclose
    have hpos' : 0 < p * (s - 1) / s := _root_.div_pos (mul_pos hp (by linarith)) hs
    have heq' : p * (1 - s) / s = -(p * (s - 1) / s) := by ring
    have hneg : p * (1 - s) / s < 0 := by rw [heq']; linarith
    have : qabs (p * (1 - s) / s) = p * (s - 1) / s := by
      simp only [qabs]; rw [if_pos hneg]; ring
    rw [this, div_le_div_iff₀ hs h1r]
    have h0 : 0 ≤ s - 1 := by linarith
    calc p * (s - 1) * (1 - relTol) ≤ p * (s - 1) * 1 := by
            apply mul_le_mul_of_nonneg_left _ (mul_nonneg (le_of_lt hp) h0)
            linarith
      _ = p * (s - 1) := by ring
      _ ≤ p * (relTol * s) := mul_le_mul_of_nonneg_left hclose (le_of_lt hp)
      _ = p * relTol * s := by ring

/-- the bound of `norm_close_arith` in figures: `relTol / (1 - relTol)` exceeds `1e-9` by less
than `1.1e-18` -/
theorem relTol_bound : relTol / (1 - relTol) < 1 / 10 ^ 9 + 11 / 10 ^ 19 := by decide +kernel

/-- Statement of `Theorems.normalizeProportions_close`. -/
theorem normalizeProportions_close {g : Graph} (hv : validGraph g = true) :
    (normalizeProportions g).demes.length = g.demes.length ∧
    ∀ (i : Nat) (d : Deme), g.demes[i]? = some d →
      ∃ d' : Deme, (normalizeProportions g).demes[i]? = some d'
        ∧ d' = { d with proportions := d'.proportions }
        ∧ d'.proportions.length = d.proportions.length
        ∧ ∀ (k : Nat) (p : Q), d.proportions[k]? = some p →
            ∃ p' : Q, d'.proportions[k]? = some p' ∧ p' = p / qsumS d.proportions
              ∧ qabs (p' - p) ≤ relTol / (1 - relTol) * p := by
  have c := clauses_of_valid hv
  refine ⟨List.length_map _, ?_⟩
  intro i d hd
  refine ⟨normDeme d, InGen.getElem?_map_some _ _ _ _ hd, rfl, List.length_map _, ?_⟩
  intro k p hk
  refine ⟨p / qsumS d.proportions, InGen.getElem?_map_some _ _ _ _ hk, rfl, ?_⟩
  have hmem : d ∈ g.demes := List.mem_of_getElem? hd
  obtain ⟨_, hp, hcl⟩ := v4_deme c.h4 hmem
  have hpm : p ∈ d.proportions := List.mem_of_getElem? hk
  have hpos : ∀ p ∈ d.proportions, 0 < p := fun p hp' => (hp p hp').1
  have hne : d.proportions ≠ [] := List.ne_nil_of_mem hpm
  rcases hcl with h | h
  · exact absurd h hne
  · exact norm_close_arith (hpos p hpm) (qsumS_pos hpos hne) h

end Demes.Proofs.ToMsNorm
